(** ParallelStabilize on graphs WITH binds: the parallel recompute of a lhs-change node preserves
    the loop invariant [LInvP] of the parallel pass (ParBind.v).  The section [AssembleP] is
    PassBindSwapStep.Assemble with the strong serial invariant replaced by the weak parallel one:
    the structural facts about the stages of [bindLhsStabilize] are the same; the clauses
    ([CP_B], [CP_M], [CP_owed], [CP_clean]) are re-proved for "owed = queued or pending in the
    block". *)
From stdpp Require Import sorting.
From incr Require Import Base Heap HeapSpec HeapProofs EngineDefs Engine EngineRun EngineWf Spec
     EngineLemmas EngineInv EngineInvProofs PassInv PassProofs PassBind PassBindProofs PassBindSwap
     PassBindSwapProofs PassBindSwapStep ParBind.
From incr Require EngineLocal.

Local Ltac inv H := inversion H; subst; clear H.
Local Arguments valueOf : simpl never.

Section AssembleP.
  Context (fuel : nat) (s : state) (b : nat) (u s' : state) (imm : option nid).
  Context (TP : Tplain s) (P : PInv s) (Rp : list nid) (L : LInvP s (b :: Rp)).
  Context (Hg : inGraph (nd s b) = true) (Hk : nkind (nd s b) = KBindLhs b).
  Let k := stabNum s.
  Let s1 := upd s b (set recomputedAt (fun _ => k)).
  Context (Hbind : bindLhsStabilize fuel [] s1 b = Ok (u, None)).
  Context (Htail : tailR u b = Ok (s', None, imm)).
  Context (P' : PInv s').

  Let HS : Struct s := PInv_Struct s P.
  Let HB : BFB s := PInv_BFB s P (lp_shape _ _ L).
  Let Hb : has s b := has_inGraph _ _ Hg.

  Local Lemma P1 : PInv s1.
  Proof.
    apply (PInv_of_soft s s1 P). apply soft_upd; intros x; [repeat split|].
    intros Hkk (A & B & C). pose proof (st_num s (p_stamps s P)). unfold k. repeat split; cbn; try lia; apply B || apply C.
  Qed.

  Local Lemma Hnd1 m : m <> b -> nd s1 m = nd s m.
  Proof. intros Hm. unfold s1. apply nd_upd_ne, Hm. Qed.
  Local Lemma Hnd1b : nd s1 b = nd s b <| recomputedAt := k |>.
  Proof. unfold s1. apply nd_upd_eq, Hb. Qed.
  Local Lemma Hk1 : nkind (nd s1 b) = KBindLhs b.
  Proof. rewrite Hnd1b. exact Hk. Qed.
  Local Lemma Hg1 : inGraph (nd s1 b) = true.
  Proof. rewrite Hnd1b. exact Hg. Qed.

  Let r0 := bd s b.
  Let s1' := updb s1 b (set b_rhsNodes (fun _ : list nid => [])).
  Let x := valueOf s1' (b_lhs r0).

  Local Lemma stages : exists s3 root t8,
    inst s1' (Some b) x (select (b_cases r0) x) = (s3, root) /\
    fn_post [] s1 b x s3 root /\
    changeParent fuel (s7_of b x s3 root) (S b) (b_rhs r0) root = Ok (t8, None) /\
    TInv [] noE t8 /\ cp_frame (s7_of b x s3 root) t8 /\
    (match b_rhs r0 with Some _ => rfold (invalidateNode fuel) (b_rhsNodes r0) t8 | None => Ok t8 end) = Ok u /\
    iv_same t8 u /\
    (forall m, valid (nd u m) = valid (nd t8 m) \/ (valid (nd u m) = false /\ inGraph (nd t8 m) = false)) /\
    PInv u.
  Proof. exact (bind_stages fuel s1 b u P1 Hk1 Hg1 Hbind). Qed.

  (** ** with the stages named *)
  Context (s3 : state) (root : option nid) (t8 : state).
  Context (Einst : inst s1' (Some b) x (select (b_cases r0) x) = (s3, root)).
  Context (FP : fn_post [] s1 b x s3 root).
  Context (Ecp : changeParent fuel (s7_of b x s3 root) (S b) (b_rhs r0) root = Ok (t8, None)).
  Context (T8 : TInv [] noE t8) (F8 : cp_frame (s7_of b x s3 root) t8).
  Context (Eiv : (match b_rhs r0 with Some _ => rfold (invalidateNode fuel) (b_rhsNodes r0) t8 | None => Ok t8 end) = Ok u).
  Context (Hsame : iv_same t8 u).
  Context (Hval : forall m, valid (nd u m) = valid (nd t8 m) \/ (valid (nd u m) = false /\ inGraph (nd t8 m) = false)).
  Context (PU : PInv u).
  Let s6 := s6_of b x s3 root.
  Let s7 := s7_of b x s3 root.

  Local Lemma Hlt1 m : has s1' m -> (m < next s1')%nat.
  Proof. unfold s1'. rewrite has_updb. unfold s1. rewrite has_upd. apply (io_lt _ (p_ids _ P)). Qed.

  Local Lemma Hrec : exists r, binds s !! b = Some r /\ r0 = r.
  Proof.
    pose proof (p_kinds s P b Hb) as K. rewrite Hk in K. destruct K as [_ [r Hr]]. exists r. split; [exact Hr|].
    unfold r0, bd. rewrite Hr. reflexivity.
  Qed.

  Local Lemma Hcase : tplain true (select (b_cases r0) x) = true.
  Proof. destruct Hrec as (r & Hr & ->). apply select_tplain, (TP b r Hr). Qed.

  Local Lemma W1' : IW b s1'.
  Proof.
    constructor.
    - exact Hlt1.
    - intros b1 Hs. assert (Hs0 : is_Some (binds s !! b1)).
      { unfold s1', updb in Hs. cbn in Hs. destruct (decide (b1 = b)) as [->|Hne].
        - destruct Hrec as (r & Hr & _). eauto.
        - rewrite lookup_alter_ne in Hs by congruence. exact Hs. }
      destruct Hs0 as [r Hr]. apply (io_lt _ (p_ids _ P)). apply (bw_has_lhs _ _ _ (p_binds _ P b1 r Hr)).
    - apply (io_lt _ (p_ids _ P)). exact Hb.
    - intros n b' Hn K. assert (Hn0 : has s n) by (unfold s1' in Hn; rewrite has_updb in Hn; unfold s1 in Hn; rewrite has_upd in Hn; exact Hn).
      assert (K0 : nkind (nd s n) = KBindMain b').
      { unfold s1' in K. rewrite nd_updb in K. unfold s1 in K. rewrite (nd_upd_proj nkind) in K by reflexivity. exact K. }
      pose proof (p_kinds s P n Hn0) as Kk. rewrite K0 in Kk. destruct Kk as [_ [r Hr]].
      unfold s1', updb. cbn. destruct (decide (b' = b)) as [->|Hne].
      + rewrite lookup_alter. change (binds s1) with (binds s). rewrite Hr. eauto.
      + rewrite lookup_alter_ne by congruence. change (binds s1) with (binds s). eauto.
  Qed.

  Local Lemma IF3 : instF b s1' s3 /\ newQ b s1' s3 (select (b_cases r0) x) /\
    match root with
    | Some n => matches (tdepth (select (b_cases r0) x)) s3 (Some b) x (select (b_cases r0) x) (Some n) = true
    | None => select (b_cases r0) x = TNil /\ s3 = s1'
    end.
  Proof. exact (inst_plain b x _ true s1' s3 root W1' Hcase Einst). Qed.

  Local Lemma IF : instF b s1' s3 /\
    match root with
    | Some n => matches (tdepth (select (b_cases r0) x)) s3 (Some b) x (select (b_cases r0) x) (Some n) = true
    | None => select (b_cases r0) x = TNil /\ s3 = s1'
    end.
  Proof. destruct IF3 as (A & _ & C). auto. Qed.

  Local Lemma Hs7eq : upd s6 (S b) (set decl (fun _ => match root with Some r => [b; r] | None => [b] end)) = s7.
  Proof. apply s7_eq. Qed.

  Local Lemma Hvc7 : vclosed s7.
  Proof. intros m q Hv Hq. rewrite <- Hs7eq in *. exact (fp_vc7 _ _ _ _ _ _ FP m q Hv Hq). Qed.

  Local Lemma Hnd6 m : nd s6 m = nd s3 m. Proof. reflexivity. Qed.
  Local Lemma Hnd7 m : m <> S b -> nd s7 m = nd s3 m.
  Proof. intros Hm. unfold s7, s7_of. rewrite nd_upd_ne by exact Hm. reflexivity. Qed.
  Local Lemma Hf7 {A} (g : node -> A) : (forall y f, g (set decl f y) = g y) -> forall m, g (nd s7 m) = g (nd s3 m).
  Proof. intros Hg' m. unfold s7, s7_of. rewrite nd_upd_proj by (intros y; apply Hg'). reflexivity. Qed.

  Local Lemma Hinvq7 : invq s7 = [].
  Proof.
    change (invq s3 = []). destruct (if_fields _ _ _ (proj1 IF)) as (_&_&_&_&->&_).
    change (invq s = []). apply (pq_invq s (p_pq s P)).
  Qed.

  Local Lemma Hvroot r : root = Some r -> valid (nd s7 r) = true.
  Proof.
    intros Er.
    pose proof (fp_root _ _ _ _ _ _ FP) as Hroot.
    assert (R7 : RestM (fun n => n ∈ b_rhsNodes (bd s1 b)) s7) by (rewrite <- Hs7eq; exact (fp_R7 _ _ _ _ _ _ FP)).
    assert (Hgb6 : inGraph (nd s6 b) = true) by exact (proj1 (fp_lhs _ _ _ _ _ _ FP)).
    assert (T6 : TInv [] noE s6) by exact (fp_T6 _ _ _ _ _ _ FP).
    rewrite Er in Hroot. destruct Hroot as (H1 & H2 & H3).
    destruct H3 as [E|[E G]].
    - apply (m_vtop _ _ R7). rewrite (Hf7 scope) by reflexivity. rewrite <- Hnd6. exact E.
    - assert (G' : inGen s7 b r).
      { unfold inGen, s7. rewrite rhsNodes_s7. rewrite <- (rhsNodes_s7 b x s3 (Some r)). exact G. }
      rewrite (m_vgen _ _ R7 r b G'). rewrite (Hf7 valid) by reflexivity. rewrite <- Hnd6.
      apply (t_valid _ _ _ T6), Hgb6.
  Qed.

  Local Lemma C8 : cfr s7 t8 (S b) (b_rhs r0).
  Proof.
    apply (changeParent2 fuel s7 (S b) (b_rhs r0) root t8 Hvc7 (match_opt_intro root _ Hvroot) Hinvq7); [|exact Ecp].
    intros m. rewrite (Hf7 forceNec) by reflexivity. rewrite <- Hnd6. apply (fp_force _ _ _ _ _ _ FP).
  Qed.

  (* old nodes up to [s7] *)
  Local Lemma Hold3 m : (m < next s)%nat -> nd s3 m = nd s1 m.
  Proof. intros Hm. rewrite (instF_nd_old b s1' s3 m (proj1 IF)) by (left; exact Hm). apply nd_updb. Qed.

  Local Lemma Hlts m : has s m -> (m < next s)%nat.
  Proof. apply (io_lt _ (p_ids _ P)). Qed.

  Local Lemma Hscope7 m : has s m -> scope (nd s7 m) = scope (nd s m).
  Proof.
    intros Hm. rewrite (Hf7 scope) by reflexivity. rewrite (Hold3 m (Hlts m Hm)).
    unfold s1. rewrite (nd_upd_proj scope) by reflexivity. reflexivity.
  Qed.

  Local Lemma R7 : RestM (fun n => n ∈ b_rhsNodes (bd s1 b)) s7.
  Proof. rewrite <- Hs7eq. exact (fp_R7 _ _ _ _ _ _ FP). Qed.

  Local Lemma Sta7 : Sta s7.
  Proof. pose proof R7 as R. constructor; try apply R. exact Hvc7. Qed.

  Local Lemma Hdeclmain : decl (nd s (S b)) = b :: option_list (b_rhs r0).
  Proof.
    destruct Hrec as (r & Hr & E). rewrite E. apply (bw_decl_main _ _ _ (p_binds _ P b r Hr)).
  Qed.

  Local Lemma Hhasmain : has s (S b).
  Proof. destruct Hrec as (r & Hr & E). apply (bw_has_main _ _ _ (p_binds _ P b r Hr)). Qed.

  Local Lemma no_dreach_main o : b_rhs r0 = Some o -> ~ dreach s7 o (S b).
  Proof.
    intros Ho Hd.
    assert (Hod : o ∈ decl (nd s (S b))) by (rewrite Hdeclmain, Ho; right; left).
    assert (Hho : has s o) by (apply (io_decl _ (p_ids _ P) _ _ Hod)).
    pose proof (sc_acyclic _ (p_scoping _ P) _ _ Hod) as Hlt.
    assert (Hlt7 : mu_lt s7 o (S b)).
    { intros tq dq tn dn C1 C2.
      apply (Hlt tq dq tn dn); apply (chain_back s s7 (p_scopes _ P) (p_binds _ P) Hscope7); assumption || exact Hhasmain. }
    pose proof (m_scopes _ _ R7) as Hsc7.
    destruct (dreach_mu s7 o (S b) Sta7 Hd) as [E|Hm].
    - rewrite E in Hlt7. exact (mu_lt_irrefl s7 o Hsc7 Hlt7).
    - exact (mu_lt_irrefl s7 o Hsc7 (mu_lt_trans s7 o (S b) o Hsc7 Hlt7 Hm)).
  Qed.

  Local Lemma Hmain7 : inGraph (nd s7 (S b)) = true.
  Proof. rewrite (Hf7 inGraph) by reflexivity. rewrite <- Hnd6. exact (fp_main _ _ _ _ _ _ FP). Qed.

  Local Lemma Hmain8 : inGraph (nd t8 (S b)) = true.
  Proof.
    destruct (inGraph (nd t8 (S b))) eqn:E; [reflexivity|exfalso].
    destruct (c_lost _ _ _ _ C8 (S b) (conj Hmain7 E)) as (o & Ho & Hd). exact (no_dreach_main o Ho Hd).
  Qed.

  Local Lemma Hb7 : inGraph (nd s7 b) = true.
  Proof. rewrite (Hf7 inGraph) by reflexivity. rewrite <- Hnd6. exact (proj1 (fp_lhs _ _ _ _ _ _ FP)). Qed.

  Local Lemma Hkb7 : nkind (nd s7 b) = KBindLhs b.
  Proof. rewrite (Hf7 nkind) by reflexivity. rewrite <- Hnd6. exact (proj2 (fp_lhs _ _ _ _ _ _ FP)). Qed.

  Local Lemma Hb8 : inGraph (nd t8 b) = true.
  Proof.
    destruct (inGraph (nd t8 b)) eqn:E; [reflexivity|exfalso].
    destruct (c_lost _ _ _ _ C8 b (conj Hb7 E)) as (o & Ho & Hd).
    inversion Hd as [Eo|m q Hd' Hq Eq].
    - pose proof (fp_oldne _ _ _ _ _ _ FP) as Hne. change (bd s1 b) with r0 in Hne. rewrite Ho in Hne. congruence.
    - pose proof (sc_lhs _ (m_scoping _ _ R7) m b b Hq Hkb7) as Em. rewrite Em in Hd'. exact (no_dreach_main o Ho Hd').
  Qed.

  Local Lemma IV : ivf t8 u.
  Proof. exact (inval_opt_ivf fuel _ _ _ _ Eiv). Qed.

  (** ** the frame from [s] to [u] *)
  Local Lemma Hnext1 : next s1' = next s. Proof. reflexivity. Qed.

  (* dynamic fields of every identifier are those of [s1] after [inst] *)
  Local Lemma S3_dyn m :
    recomputedAt (nd s3 m) = recomputedAt (nd s1 m) /\ changedAt (nd s3 m) = changedAt (nd s1 m) /\
    valid (nd s3 m) = valid (nd s1 m) /\ inGraph (nd s3 m) = inGraph (nd s1 m) /\
    isNecessary (nd s3 m) = isNecessary (nd s1 m).
  Proof.
    destruct IF as [F _]. destruct (decide (next s1' <= m < next s3)%nat) as [Hnew|Hold].
    - destruct (if_new _ _ _ F m Hnew) as (k0 & d & v & E & _). rewrite (nd_lookup _ _ _ E).
      assert (Hno : ~ has s1 m).
      { intros Hh. assert (has s1' m) by (unfold s1'; rewrite has_updb; exact Hh). pose proof (Hlt1 m H). lia. }
      rewrite (not_has_nd _ _ Hno). repeat split.
    - rewrite (instF_nd_old b s1' s3 m F) by lia. unfold s1'. rewrite nd_updb. repeat split.
  Qed.

  Local Lemma S1_nec m : isNecessary (nd s1 m) = isNecessary (nd s m).
  Proof.
    unfold s1. apply isNecessary_ext; [apply (nd_upd_proj forceNec)|apply (nd_upd_proj children)|apply (nd_upd_proj observers)];
      reflexivity.
  Qed.

  Local Lemma S7_nec m : isNecessary (nd s7 m) = isNecessary (nd s m).
  Proof.
    rewrite <- S1_nec. destruct (S3_dyn m) as (_&_&_&_&<-).
    apply isNecessary_ext; apply Hf7; reflexivity.
  Qed.

  Local Lemma S7_ingraph m : inGraph (nd s7 m) = inGraph (nd s m).
  Proof.
    rewrite (Hf7 inGraph) by reflexivity. destruct (S3_dyn m) as (_&_&_&->&_).
    unfold s1. apply (nd_upd_proj inGraph). reflexivity.
  Qed.

  Local Lemma S7_valid m : valid (nd s7 m) = valid (nd s m).
  Proof.
    rewrite (Hf7 valid) by reflexivity. destruct (S3_dyn m) as (_&_&->&_).
    unfold s1. apply (nd_upd_proj valid). reflexivity.
  Qed.

  Local Lemma S7_stamps m : m <> b ->
    recomputedAt (nd s7 m) = recomputedAt (nd s m) /\ changedAt (nd s7 m) = changedAt (nd s m).
  Proof.
    intros Hm. rewrite (Hf7 recomputedAt), (Hf7 changedAt) by reflexivity.
    destruct (S3_dyn m) as (->&->&_). rewrite (Hnd1 m Hm). auto.
  Qed.

  Local Lemma S7_b : recomputedAt (nd s7 b) = k /\ changedAt (nd s7 b) = changedAt (nd s b).
  Proof.
    rewrite (Hf7 recomputedAt), (Hf7 changedAt) by reflexivity.
    destruct (S3_dyn b) as (->&->&_). rewrite Hnd1b. auto.
  Qed.

  Local Lemma U_ingraph m : inGraph (nd u m) = inGraph (nd t8 m).
  Proof. apply (is_node _ _ Hsame m). Qed.

  Local Lemma U_valid m : valid (nd u m) = valid (nd s m) \/ (valid (nd u m) = false /\ inGraph (nd u m) = false).
  Proof.
    destruct (Hval m) as [E|[E1 E2]]; [left|right].
    - rewrite E. destruct (c_static _ _ _ _ C8 m) as (_&_&_&->&_). apply S7_valid.
    - split; [exact E1|]. rewrite U_ingraph. exact E2.
  Qed.

  Local Lemma U_stamps m : m <> b ->
    (recomputedAt (nd u m) = recomputedAt (nd s m) /\ changedAt (nd u m) = changedAt (nd s m) /\
     (inGraph (nd s m) = true -> inGraph (nd u m) = true)) \/
    (inGraph (nd u m) = false /\ recomputedAt (nd u m) = 0 /\ changedAt (nd u m) = 0) \/
    (valid (nd u m) = false /\ recomputedAt (nd u m) = changedAt (nd u m)).
  Proof.
    intros Hm. destruct (S7_stamps m Hm) as [R7' C7'].
    destruct (iv_nd _ _ IV m) as [_ [(A1&A2&A3&A4)|[[B1 B2]|(C1&C2&C3&C4)]]].
    - destruct (c_st _ _ _ _ C8 m) as [(E1&E2&E3)|(E1&E2&E3)].
      + left. split; [congruence|]. split; [congruence|]. intros Hg0. rewrite A1. apply E3. rewrite S7_ingraph. exact Hg0.
      + right. left. repeat split; congruence.
    - right. right. auto.
    - right. left. auto.
  Qed.

  Local Lemma U_b : recomputedAt (nd u b) = k /\ changedAt (nd u b) = changedAt (nd s b) /\ inGraph (nd u b) = true.
  Proof.
    assert (Hgu : inGraph (nd u b) = true) by (rewrite U_ingraph; exact Hb8).
    pose proof (t_valid _ _ _ (p_t _ PU) b Hgu) as Hvu. destruct S7_b as [R7' C7'].
    destruct (c_st _ _ _ _ C8 b) as [(E1&E2&_)|(E1&_)]; [|rewrite Hb8 in E1; discriminate].
    destruct (iv_nd _ _ IV b) as [_ [(A1&A2&A3&A4)|[[B1 B2]|(C1&C2&C3&C4)]]]; try congruence.
    split; [congruence|]. split; [congruence|exact Hgu].
  Qed.

  Local Lemma U_main : inGraph (nd u (S b)) = true.
  Proof. rewrite U_ingraph. exact Hmain8. Qed.

  Local Lemma U_heap m : inHeap u m = inHeap t8 m.
  Proof. unfold inHeap. rewrite (is_heap _ _ Hsame). reflexivity. Qed.

  Local Lemma S7_heap m : inHeap s7 m = inHeap s m.
  Proof.
    unfold inHeap. change (heap s7) with (heap s3). destruct (if_fields _ _ _ (proj1 IF)) as (_&_&->&_). reflexivity.
  Qed.

  Local Lemma U_fwd m : inGraph (nd u m) = true -> inHeap s m = true -> inHeap u m = true.
  Proof.
    intros Hgm Hq. rewrite U_heap. apply (c_fwd _ _ _ _ C8 m); [rewrite <- U_ingraph; exact Hgm|]. rewrite S7_heap. exact Hq.
  Qed.

  Local Lemma U_rev m : inHeap u m = true -> inHeap s m = true \/ m = S b \/ inGraph (nd s m) = false.
  Proof.
    rewrite U_heap. intros Hq. destruct (c_rev _ _ _ _ C8 m Hq) as [H|[H|H]].
    - left. rewrite <- S7_heap. exact H.
    - auto.
    - right. right. rewrite S7_nec in H. rewrite (t_nec _ _ _ (p_t _ P) m); [exact H|apply not_elem_of_nil|intros []].
  Qed.

  Local Lemma S3_static m : has s m ->
    nkind (nd s3 m) = nkind (nd s m) /\ scope (nd s3 m) = scope (nd s m) /\ value (nd s3 m) = value (nd s m) /\
    decl (nd s3 m) = decl (nd s m).
  Proof.
    intros Hm. rewrite (Hold3 m (Hlts m Hm)). unfold s1.
    rewrite (nd_upd_proj nkind), (nd_upd_proj scope), (nd_upd_proj value), (nd_upd_proj decl) by reflexivity. auto.
  Qed.

  Local Lemma U_from3 m :
    nkind (nd u m) = nkind (nd s3 m) /\ scope (nd u m) = scope (nd s3 m) /\ value (nd u m) = value (nd s3 m) /\
    (m <> S b -> decl (nd u m) = decl (nd s3 m)).
  Proof.
    destruct (is_node _ _ Hsame m) as (K1 & D1 & Sc1 & _). destruct (iv_nd _ _ IV m) as [V1 _].
    destruct (c_static _ _ _ _ C8 m) as (K2 & D2 & Sc2 & _ & V2).
    rewrite K1, K2, Sc1, Sc2, V1, V2, D1, D2.
    rewrite (Hf7 nkind), (Hf7 scope), (Hf7 value) by reflexivity. repeat split. intros Hm. rewrite (Hnd7 m Hm). reflexivity.
  Qed.

  Local Lemma U_old m : has s m ->
    nkind (nd u m) = nkind (nd s m) /\ scope (nd u m) = scope (nd s m) /\ value (nd u m) = value (nd s m) /\
    (m <> S b -> decl (nd u m) = decl (nd s m)).
  Proof.
    intros Hm. destruct (U_from3 m) as (A1&A2&A3&A4), (S3_static m Hm) as (B1&B2&B3&B4).
    repeat split; try congruence. intros Hne. rewrite (A4 Hne). exact B4.
  Qed.

  Local Lemma Hkmain : nkind (nd s (S b)) = KBindMain b.
  Proof. destruct Hrec as (r & Hr & _). apply (bw_kind_main _ _ _ (p_binds _ P b r Hr)). Qed.

  Local Lemma U_valueOf p : has s p -> valueOf u p = valueOf s p.
  Proof.
    intros Hp. apply valueOf__old; [apply (p_ids _ P)| |exact Hp].
    intros m Hm. destruct (U_old m Hm) as (A1&_&A3&A4). split; [exact A1|]. split; [exact A3|].
    intros Ka. apply A4. intros ->. rewrite Hkmain in Ka. discriminate.
  Qed.

  Local Lemma U_binds3 b' : b' <> b -> binds u !! b' = binds s3 !! b'.
  Proof.
    intros Hne. rewrite (is_binds _ _ Hsame). destruct (c_fields _ _ _ _ C8) as (E & _). rewrite E.
    unfold s7. apply (binds_s7_ne b x s3 root b' Hne).
  Qed.

  Local Lemma S1'_binds b' : b' <> b -> binds s1' !! b' = binds s !! b'.
  Proof. intros Hne. unfold s1', updb. cbn. rewrite lookup_alter_ne by congruence. reflexivity. Qed.

  Local Lemma U_binds b' : b' <> b -> is_Some (binds s !! b') -> binds u !! b' = binds s !! b'.
  Proof.
    intros Hne Hs. rewrite (U_binds3 b' Hne). destruct (if_bd _ _ _ (proj1 IF) b' Hne) as [E|[E _]].
    - rewrite E. apply S1'_binds, Hne.
    - rewrite (S1'_binds b' Hne) in E. rewrite E in Hs. destruct Hs; discriminate.
  Qed.

  Local Lemma U_bdb : b_lhs (bd u b) = b_lhs r0 /\ b_cases (bd u b) = b_cases r0 /\ b_rhs (bd u b) = root.
  Proof.
    destruct Hrec as (r & Hr & Er0).
    assert (E1 : bd s1' b = set b_rhsNodes (fun _ => []) r).
    { unfold s1', updb, bd. cbn. rewrite lookup_alter. change (binds s1) with (binds s). rewrite Hr. reflexivity. }
    assert (Hs1 : is_Some (binds s1' !! b)).
    { unfold s1', updb. cbn. rewrite lookup_alter. change (binds s1) with (binds s). rewrite Hr. eauto. }
    destruct (if_bdb _ _ _ (proj1 IF)) as (L3 & R3 & C3 & _ & _ & S3).
    destruct (bd_s7 b x s3 root (proj2 S3 Hs1)) as (L7 & C7 & R7').
    assert (Eb : bd u b = bd s7 b).
    { unfold bd. rewrite (is_binds _ _ Hsame). destruct (c_fields _ _ _ _ C8) as (E & _). rewrite E. reflexivity. }
    rewrite Eb. unfold s7. rewrite L7, C7, R7', L3, C3, E1, Er0. auto.
  Qed.

  Local Lemma Hx : x = valueOf s (b_lhs r0).
  Proof. unfold x, s1'. rewrite valueOf_updb. unfold s1. apply valueOf_stamped. intros y. repeat split. Qed.

  Local Lemma Hnextu : next u = next s3.
  Proof. rewrite (is_next _ _ Hsame). destruct (c_fields _ _ _ _ C8) as (_ & E & _). rewrite E. reflexivity. Qed.

  Local Lemma Hhaslhs : has s (b_lhs r0).
  Proof.
    destruct Hrec as (r & Hr & Er0). apply (io_decl _ (p_ids _ P) b).
    rewrite (bw_decl_lhs _ _ _ (p_binds _ P b r Hr)), Er0. left.
  Qed.

  Local Lemma U_read3 b' : b_cases (bd u b') = b_cases (bd s3 b') /\ b_main (bd u b') = b_main (bd s3 b') /\
                           b_lhs (bd u b') = b_lhs (bd s3 b').
  Proof.
    destruct (decide (b' = b)) as [->|Hne].
    - assert (Eb : bd u b = bd s7 b).
      { unfold bd. rewrite (is_binds _ _ Hsame). destruct (c_fields _ _ _ _ C8) as (E & _). rewrite E. reflexivity. }
      rewrite Eb. unfold s7. rewrite (bd_s7_main b x s3 root).
      destruct Hrec as (r & Hr & Er0).
      assert (Hs1 : is_Some (binds s1' !! b)).
      { unfold s1', updb. cbn. rewrite lookup_alter. change (binds s1) with (binds s). rewrite Hr. eauto. }
      destruct (if_bdb _ _ _ (proj1 IF)) as (_ & _ & _ & _ & _ & S3).
      destruct (bd_s7 b x s3 root (proj2 S3 Hs1)) as (L7 & C7 & _). auto.
    - unfold bd. rewrite (U_binds3 b' Hne). auto.
  Qed.

  Local Lemma U_match : matchesOK u b = true.
  Proof.
    unfold matchesOK. destruct U_bdb as (E1 & E2 & E3). rewrite E1, E2, E3. rewrite (U_valueOf _ Hhaslhs), <- Hx.
    pose proof (inst_size b x _ true s1' s3 root Hcase Einst) as Hsz.
    apply (matches_transport b x _ root s3 u _ Hcase).
    - refine (opt_match_impl root _ _ _ _ _ _ (proj2 IF)); [auto|intros [E _]; exact E].
    - rewrite Hnextu. lia.
    - intros m. destruct (U_from3 m) as (A1&A2&_). auto.
    - intros m Hkm. destruct (U_from3 m) as (_&_&_&A4). apply A4. intros ->.
      destruct (S3_static (S b) Hhasmain) as (K3 & _). rewrite K3, Hkmain in Hkm. discriminate.
    - intros m. apply (U_from3 m).
    - apply U_read3.
  Qed.

  Local Lemma U_kind m : nkind (nd u m) = nkind (nd s7 m).
  Proof. destruct (is_node _ _ Hsame m) as (->&_). apply (c_static _ _ _ _ C8 m). Qed.

  Local Lemma U_newq m : inGraph (nd s m) = false -> inGraph (nd u m) = true -> m <> b ->
    recomputedAt (nd s m) = 0 -> staleK (nkind (nd u m)) = true -> inHeap u m = true.
  Proof.
    intros H1 H2 Hmb Hr Hk'. rewrite U_heap. apply (c_newq _ _ _ _ C8 m).
    - rewrite S7_ingraph. exact H1.
    - rewrite <- U_ingraph. exact H2.
    - rewrite (proj1 (S7_stamps m Hmb)). exact Hr.
    - pose proof (t_valid _ _ _ (p_t _ PU) m H2) as Hvu. destruct (Hval m) as [E|[E _]]; [|congruence].
      destruct (c_static _ _ _ _ C8 m) as (_&_&_&Ev&_). congruence.
    - rewrite <- U_kind. exact Hk'.
  Qed.
  (** ** the tail *)
  Local Lemma Hku : stabNum u = k.
  Proof.
    rewrite (is_stabNum _ _ Hsame). destruct (c_fields _ _ _ _ C8) as (_ & _ & E). rewrite E.
    change (stabNum s3 = k). destruct (if_fields _ _ _ (proj1 IF)) as (_&_&_&_&_&E'&_). rewrite E'. reflexivity.
  Qed.

  Local Lemma IU : HeapSpec.inv (heap u). Proof. exact (proj1 (PInv_heap u PU)). Qed.

  Local Lemma TPs : tailPost u b s' imm.
  Proof. exact (proj2 (tailR_spec u b s' None imm IU Htail)). Qed.

  Local Lemma Hbu : has u b.
  Proof. apply has_inGraph. apply U_b. Qed.

  Local Lemma S'nd m : m <> b -> nd s' m = nd u m.
  Proof.
    intros Hm. destruct (tp_shape _ _ _ _ TPs) as (w & h & E). rewrite E.
    change (nd (upd u b (set changedAt (fun _ => stabNum u))) m = nd u m). apply nd_upd_ne, Hm.
  Qed.

  Local Lemma S'b : nd s' b = nd u b <| changedAt := k |>.
  Proof.
    destruct (tp_shape _ _ _ _ TPs) as (w & h & E). rewrite E.
    change (nd (upd u b (set changedAt (fun _ => stabNum u))) b = nd u b <| changedAt := k |>).
    rewrite nd_upd_eq by exact Hbu. rewrite Hku. reflexivity.
  Qed.

  Local Lemma S'proj {A} (g : node -> A) : (forall y f, g (set changedAt f y) = g y) -> forall m, g (nd s' m) = g (nd u m).
  Proof.
    intros Hg' m. destruct (decide (m = b)) as [->|Hm]; [rewrite S'b; apply Hg'|rewrite (S'nd m Hm); reflexivity].
  Qed.

  Local Lemma S'fields : binds s' = binds u /\ next s' = next u /\ stabNum s' = k /\
                        setDuring s' = setDuring u /\ setRemoved s' = setRemoved u.
  Proof. destruct (tp_shape _ _ _ _ TPs) as (w & h & E). rewrite E. cbn. rewrite Hku. auto. Qed.

  Local Lemma S'has m : has s' m <-> has u m.
  Proof. destruct (tp_shape _ _ _ _ TPs) as (w & h & E). rewrite E. unfold has. cbn. apply has_upd. Qed.

  Local Lemma HSU : Struct u. Proof. exact (PInv_Struct u PU). Qed.
  Local Lemma HS' : Struct s'. Proof. exact (PInv_Struct s' P'). Qed.

  Local Lemma Hkbu : nkind (nd u b) = KBindLhs b.
  Proof. rewrite U_kind. exact Hkb7. Qed.

  (* the only dependent of a lhs-change node is its main node *)
  Local Lemma Hchildren c : c ∈ children (nd u b) -> c = S b.
  Proof.
    intros Hc. assert (Hgc : inGraph (nd u c) = true) by (apply (child_reg u HSU b c Hc)).
    assert (Hp : b ∈ parents (nd u c)) by (apply (st_edge _ HSU); exact Hc).
    apply (st_par _ HSU c b Hgc) in Hp.
    exact (sc_lhs _ (p_scoping _ PU) c b b Hp Hkbu).
  Qed.

  Local Lemma Himm : imm = None.
  Proof.
    apply option_none_of. intros c Ei.
    destruct (tp_imm _ _ _ _ TPs c Ei) as [Hnq Hcan].
    assert (Hc : c ∈ children (nd u b)).
    { destruct (proj1 (tp_mem _ _ _ _ TPs c) (or_intror Ei)) as [Hq|[Hc _]]; [|exact Hc].
      exfalso. apply Hnq, (tp_mono _ _ _ _ TPs), Hq. }
    pose proof (Hchildren c Hc) as ->.
    unfold canRecomputeImmediately in Hcan.
    assert (Hkm : nkind (nd s' (S b)) = KBindMain b).
    { rewrite (S'proj nkind) by reflexivity. destruct (U_old (S b) Hhasmain) as (E&_). rewrite E. exact Hkmain. }
    rewrite Hkm in Hcan. discriminate.
  Qed.
  Local Lemma IS' : HeapSpec.inv (heap s'). Proof. exact (proj1 (PInv_heap s' P')). Qed.

  Local Lemma S'heap y : y ∈ Heap.ids (heap s') <->
    y ∈ Heap.ids (heap u) \/ (y ∈ children (nd u b) /\ owedC s' y = true).
  Proof.
    rewrite <- (tp_mem _ _ _ _ TPs y). split; [auto|]. intros [H|H]; [exact H|]. rewrite Himm in H. discriminate.
  Qed.

  Local Lemma S'heap_fwd m : inHeap u m = true -> inHeap s' m = true.
  Proof. intros H. apply (inHeap_iff0 s' m IS'), S'heap. left. apply (inHeap_iff0 u m IU), H. Qed.

  Local Lemma S'heap_rev m : inHeap s' m = true -> inHeap u m = true \/ m = S b.
  Proof.
    intros H. apply (inHeap_iff0 s' m IS'), S'heap in H as [H|[H _]].
    - left. apply (inHeap_iff0 u m IU), H.
    - right. apply Hchildren, H.
  Qed.

  Local Lemma S'ingraph m : inGraph (nd s' m) = inGraph (nd u m).
  Proof. apply (S'proj inGraph). reflexivity. Qed.

  Local Lemma keep_valid m : inGraph (nd s' m) = true -> valid (nd u m) = true /\ valid (nd s m) = true.
  Proof.
    rewrite S'ingraph. intros Hgm. pose proof (t_valid _ _ _ (p_t _ PU) m Hgm) as Hv. split; [exact Hv|].
    destruct (U_valid m) as [E|[E _]]; congruence.
  Qed.

  Local Lemma keep_stamps m : m <> b -> inGraph (nd s' m) = true ->
    recomputedAt (nd s' m) = recomputedAt (nd s m) /\ changedAt (nd s' m) = changedAt (nd s m).
  Proof.
    intros Hm Hgm. rewrite (S'nd m Hm). destruct (keep_valid m Hgm) as [Hv _]. rewrite S'ingraph in Hgm.
    destruct (U_stamps m Hm) as [(A&B&_)|[(A&_)|(A&_)]]; [auto|congruence|congruence].
  Qed.

  Local Lemma Hkpos : 1 <= k. Proof. apply (st_num s (p_stamps s P)). Qed.

  Local Lemma Hstamps_s n : 0 <= changedAt (nd s n) <= k /\ 0 <= recomputedAt (nd s n) <= k /\
                            (changedAt (nd s n) = k -> recomputedAt (nd s n) = k).
  Proof. apply stamps_node_false, (lp_stamps _ _ L). Qed.

  (* old registered nodes keep their declared inputs, hence their incoming edges *)
  Local Lemma S'decl m : has s m -> m <> S b -> decl (nd s' m) = decl (nd s m).
  Proof. intros Hm Hne. rewrite (S'proj decl) by reflexivity. apply (U_old m Hm), Hne. Qed.

  Local Lemma S'parents c p : inGraph (nd s c) = true -> inGraph (nd s' c) = true -> c <> S b ->
    (p ∈ parents (nd s' c) <-> p ∈ parents (nd s c)).
  Proof.
    intros H1 H2 Hne. rewrite (st_par _ HS' c p H2), (st_par _ HS c p H1), (S'decl c (has_inGraph _ _ H1) Hne). reflexivity.
  Qed.

  Local Lemma back_edge a c : edge s' a c -> inGraph (nd s c) = true -> c <> S b -> edge s a c.
  Proof.
    intros He Hgc Hne. destruct (edge_reg s' HS' _ _ He) as [_ Hgc'].
    apply (st_edge _ HS). apply (S'parents c a Hgc Hgc' Hne). apply (st_edge _ HS'). exact He.
  Qed.

  Local Lemma path_back w n : reach s' w n -> inGraph (nd s n) = true -> reach s w n \/ reach s (S b) n.
  Proof.
    unfold reach. intros Hr. revert n Hr.
    apply (rtc_ind_r (fun n => inGraph (nd s n) = true -> rtc (edge s) w n \/ rtc (edge s) (S b) n)).
    - intros _. left. apply rtc_refl.
    - intros a n Hwa Han IH Hgn.
      destruct (decide (n = S b)) as [->|Hne]; [right; apply rtc_refl|].
      pose proof (back_edge a n Han Hgn Hne) as He. destruct (edge_reg s HS _ _ He) as [Hga _].
      destruct (IH Hga) as [H|H]; [left|right]; eapply rtc_r; eauto.
  Qed.

  Local Lemma Hgmain : inGraph (nd s (S b)) = true.
  Proof. rewrite <- S7_ingraph. exact Hmain7. Qed.

  Local Lemma Hedge_bmain : edge s b (S b).
  Proof. apply (decl_parent s HS _ _ Hgmain). rewrite Hdeclmain. left. Qed.
  Local Lemma S'k : stabNum s' = k. Proof. apply S'fields. Qed.

  (** ** the clauses *)
  Local Lemma C_stamps n : stamps_node s' false n = true.
  Proof.
    destruct (st_le s' (p_stamps s' P') n) as (Hr & Hc & _). rewrite S'k in Hr, Hc.
    apply stamps_node_false_intro; rewrite ?S'k; try assumption.
    intros Ec. destruct (decide (n = b)) as [->|Hne].
    - rewrite S'b. cbn. apply U_b.
    - rewrite (S'nd n Hne) in *. destruct (U_stamps n Hne) as [(A&B&_)|[(_&A&B)|(_&A)]].
      + rewrite A. apply (Hstamps_s n). congruence.
      + pose proof Hkpos. lia.
      + congruence.
  Qed.

  Local Lemma S'done_b : isDone s' b = true.
  Proof. apply isDone_iff. rewrite S'k, S'b. cbn. apply U_b. Qed.

  (* a node other than [b] that is done after the step was registered and done before it, or is out of the graph *)
  Local Lemma done_old n : n <> b -> isDone s' n = true ->
    inGraph (nd s' n) = false \/ (inGraph (nd s n) = true /\ isDone s n = true).
  Proof.
    intros Hne Hd. apply isDone_iff in Hd. rewrite S'k in Hd.
    destruct (inGraph (nd s' n)) eqn:Eg; [right|left; reflexivity].
    destruct (keep_stamps n Hne Eg) as [Er _]. destruct (keep_valid n Eg) as [_ Hvs].
    assert (Hds : isDone s n = true) by (apply isDone_iff; fold k; congruence).
    split; [|exact Hds]. destruct (inGraph (nd s n)) eqn:Egs; [reflexivity|exfalso].
    destruct (lp_unreg _ _ L n Egs Hvs) as [E0 _]. apply isDone_iff in Hds. fold k in Hds. pose proof Hkpos. lia.
  Qed.

  Local Lemma queued_cases w : inHeap s' w = true -> inHeap s w = true \/ w = S b \/ inGraph (nd s w) = false.
  Proof. intros Hq. destruct (S'heap_rev w Hq) as [Hu| ->]; [apply U_rev, Hu|auto]. Qed.

  Local Lemma no_reach_unreg w n : inGraph (nd s w) = false -> reach s w n -> w = n.
  Proof.
    intros Hgw Hr. destruct Hr as [|w a n Hwa _]; [reflexivity|exfalso].
    destruct (edge_reg s HS _ _ Hwa) as [E _]. congruence.
  Qed.

  (* who is owed after the step *)
  Local Lemma PbW : inP s (b :: Rp) b = true.
  Proof. unfold inP. rewrite Hg, (bool_decide_eq_true_2 (b ∈ b :: Rp)) by left. apply orb_true_r. Qed.

  Local Lemma PbR : b ∉ Rp.
  Proof. pose proof (lp_nodup _ _ L) as H. apply stdpp.list.NoDup_cons in H as [H _]. exact H. Qed.

  Local Lemma keepP y : inP s (b :: Rp) y = true -> y <> b -> inGraph (nd s' y) = true -> inP s' Rp y = true.
  Proof.
    intros Hy Hne Hgy. unfold inP in *. apply orb_true_iff in Hy as [Hy|Hy].
    - assert (Hgu : inGraph (nd u y) = true) by (rewrite <- S'ingraph; exact Hgy).
      rewrite (S'heap_fwd y (U_fwd y Hgu Hy)). reflexivity.
    - apply andb_true_iff in Hy as [H1 _]. apply bool_decide_eq_true in H1. apply elem_of_cons in H1 as [?|H1]; [contradiction|].
      rewrite Hgy, (bool_decide_eq_true_2 _ H1). apply orb_true_r.
  Qed.

  Local Lemma keepP_false y : inP s' Rp y = false -> y <> b -> inGraph (nd s' y) = true -> inP s (b :: Rp) y = false.
  Proof. intros H Hne Hgy. destruct (inP s (b :: Rp) y) eqn:E; [|reflexivity]. rewrite (keepP y E Hne Hgy) in H. discriminate. Qed.

  Local Lemma casesP w : inP s' Rp w = true -> inP s (b :: Rp) w = true \/ w = S b \/ inGraph (nd s w) = false.
  Proof.
    intros Hw. unfold inP in Hw. apply orb_true_iff in Hw as [Hw|Hw].
    - destruct (queued_cases w Hw) as [Hq|[->|Hgw]]; [left|auto|auto]. unfold inP. rewrite Hq. reflexivity.
    - apply andb_true_iff in Hw as [H1 H2]. apply bool_decide_eq_true in H1.
      destruct (inGraph (nd s w)) eqn:E; [left|auto].
      unfold inP. rewrite E, (bool_decide_eq_true_2 (w ∈ b :: Rp)) by (right; exact H1). apply orb_true_r.
  Qed.

  Local Lemma inP'_reg w : inP s' Rp w = true -> inGraph (nd s' w) = true.
  Proof.
    intros Hw. unfold inP in Hw. apply orb_true_iff in Hw as [Hw|Hw].
    - apply (proj2 (PInv_heap s' P') w), (inHeap_iff0 s' w IS'), Hw.
    - apply andb_true_iff in Hw as [_ H2]. exact H2.
  Qed.

  Local Lemma Hmain_no n : reach s (S b) n -> reach s b n.
  Proof. intros Hm. eapply rtc_l; [exact Hedge_bmain|exact Hm]. Qed.

  Local Lemma CP_B w n : inP s' Rp w = true -> reach s' w n -> isDone s' n = true -> inP s' Rp n = true.
  Proof.
    intros Hw Hr Hd.
    pose proof (inP'_reg w Hw) as Hgw'.
    assert (Hgn' : inGraph (nd s' n) = true) by (apply (reach_reg s' HS' w n Hr Hgw')).
    destruct (decide (n = b)) as [->|Hne].
    - (* the lhs-change node itself: below no other owed node, unless it is queued *)
      destruct (inHeap s b) eqn:Eq.
      { assert (Hgu : inGraph (nd u b) = true) by apply U_b.
        unfold inP. rewrite (S'heap_fwd b (U_fwd b Hgu Eq)). reflexivity. }
      exfalso. destruct (path_back w b Hr Hg) as [Hwb|Hm].
      2:{ exact (parent_not_reach s HS (S b) b ltac:(apply (st_edge _ HS); exact Hedge_bmain) Hm). }
      destruct (casesP w Hw) as [Ho|[->|Hgw]].
      + pose proof (lp_M _ _ L b w ltac:(left) Hg Eq Ho Hwb) as ->.
        unfold inP in Hw. rewrite (bool_decide_eq_false_2 _ PbR), andb_false_l, orb_false_r in Hw.
        destruct (queued_cases b Hw) as [Hq|[Hq|Hq]]; [congruence|lia|congruence].
      + exact (parent_not_reach s HS (S b) b ltac:(apply (st_edge _ HS); exact Hedge_bmain) Hwb).
      + pose proof (no_reach_unreg w b Hgw Hwb) as ->. congruence.
    - destruct (done_old n Hne Hd) as [E|[Hgn Hdn]]; [congruence|].
      apply keepP; [|exact Hne|exact Hgn'].
      assert (Hfromb : reach s b n -> inP s (b :: Rp) n = true).
      { intros Hbn. apply (lp_B _ _ L b n PbW Hbn Hdn). }
      destruct (path_back w n Hr Hgn) as [Hwn|Hm]; [|apply Hfromb, Hmain_no, Hm].
      destruct (casesP w Hw) as [Ho|[->|Hgw]].
      + apply (lp_B _ _ L w n Ho Hwn Hdn).
      + apply Hfromb, Hmain_no, Hwn.
      + pose proof (no_reach_unreg w n Hgw Hwn) as ->. congruence.
  Qed.
  Local Lemma U_declmain : decl (nd u (S b)) = b :: option_list root.
  Proof.
    destruct (is_node _ _ Hsame (S b)) as (_ & -> & _). destruct (c_static _ _ _ _ C8 (S b)) as (_ & -> & _).
    unfold s7, s7_of. rewrite nd_upd_eq; [reflexivity|].
    change (has s3 (S b)). unfold has. rewrite (if_old _ _ _ (proj1 IF) (S b)) by (left; apply (Hlts _ Hhasmain)).
    unfold s1'. rewrite <- (has_updb s1 b (set b_rhsNodes (fun _ => [])) (S b)). unfold s1. apply has_upd. exact Hhasmain.
  Qed.

  Local Lemma S'edge_bmain : edge s' b (S b).
  Proof.
    assert (Hgm : inGraph (nd s' (S b)) = true) by (rewrite S'ingraph; exact U_main).
    apply (decl_parent s' HS' _ _ Hgm). rewrite (S'proj decl) by reflexivity. rewrite U_declmain. left.
  Qed.

  Local Lemma Hmain_notdone : isDone s (S b) = false -> recomputedAt (nd s (S b)) < k.
  Proof.
    intros Hd. unfold isDone in Hd. apply Z.eqb_neq in Hd.
    fold k in Hd. pose proof (Hstamps_s (S b)). lia.
  Qed.

  Local Lemma Hne_bmain : S b <> b. Proof. lia. Qed.

  Local Lemma S'kind_main : nkind (nd s' (S b)) = KBindMain b.
  Proof. rewrite (S'proj nkind) by reflexivity. destruct (U_old (S b) Hhasmain) as (E&_). rewrite E. exact Hkmain. Qed.

  Local Lemma S'stale_main : isDone s (S b) = false -> isStale s' (S b) = true.
  Proof.
    intros Hnd0.
    assert (Hgm : inGraph (nd s' (S b)) = true) by (rewrite S'ingraph; exact U_main).
    unfold isStale. rewrite (S'proj valid) by reflexivity. rewrite (proj1 (keep_valid (S b) Hgm)), S'kind_main. simpl.
    apply orb_true_iff. right. unfold staleWrtParents. apply existsb_elem. exists b. split.
    - apply (st_edge _ HS'). exact S'edge_bmain.
    - apply Z.gtb_lt. rewrite S'b. cbn. destruct (keep_stamps (S b) Hne_bmain Hgm) as [-> _]. exact (Hmain_notdone Hnd0).
  Qed.

  Local Lemma S'main_q : isDone s (S b) = false -> inHeap s' (S b) = true.
  Proof.
    intros Hnd0.
    apply (inHeap_iff0 s' _ IS'), S'heap.
    destruct (decide (S b ∈ Heap.ids (heap u))) as [Hin|Hnin]; [left; exact Hin|right].
    assert (Hgm : inGraph (nd s' (S b)) = true) by (rewrite S'ingraph; exact U_main).
    split.
    - apply (st_edge _ HSU). apply (st_par _ HSU (S b) b U_main). rewrite U_declmain. left.
    - unfold owedC. rewrite <- (st_nec _ HS'), Hgm. rewrite (S'proj valid) by reflexivity.
      rewrite (proj1 (keep_valid (S b) Hgm)), S'kind_main. simpl. exact (S'stale_main Hnd0).
  Qed.

  (* in [s], the only dependent of [b] is the main node *)
  Local Lemma parent_b_main n : inGraph (nd s n) = true -> b ∈ parents (nd s n) -> n = S b.
  Proof. intros Hgn Hp. apply (st_par _ HS n b Hgn) in Hp. exact (sc_lhs _ (p_scoping _ P) n b b Hp Hk). Qed.

  Local Lemma stale_same n : inGraph (nd s n) = true -> inGraph (nd s' n) = true -> n <> b -> n <> S b ->
    isStale s' n = isStale s n.
  Proof.
    intros H1 H2 Hb1 Hb2. destruct (keep_stamps n Hb1 H2) as [Er Ec]. destruct (keep_valid n H2) as [Hvu Hvs].
    unfold isStale. rewrite (S'proj valid) by reflexivity. rewrite Hvu, Hvs, Er.
    rewrite (S'proj nkind) by reflexivity. destruct (U_old n (has_inGraph _ _ H1)) as (Ek&_). rewrite Ek.
    assert (Hsw : staleWrtParents s' (nd s' n) = staleWrtParents s (nd s n)).
    { unfold staleWrtParents. apply eq_true_iff_eq. rewrite !existsb_elem. rewrite Er.
      split; intros (p & Hp & Hc).
      - apply (S'parents n p H1 H2 Hb2) in Hp. exists p. split; [exact Hp|].
        assert (Hpb : p <> b) by (intros ->; apply Hb2, (parent_b_main n H1 Hp)).
        assert (Hgp' : inGraph (nd s' p) = true).
        { apply (edge_reg s' HS' p n). apply (st_edge _ HS'). apply (S'parents n p H1 H2 Hb2). exact Hp. }
        destruct (keep_stamps p Hpb Hgp') as [_ Ecq]. rewrite <- Ecq. exact Hc.
      - assert (Hpb : p <> b) by (intros ->; apply Hb2, (parent_b_main n H1 Hp)).
        assert (Hp' : p ∈ parents (nd s' n)) by (apply (S'parents n p H1 H2 Hb2); exact Hp).
        exists p. split; [exact Hp'|].
        assert (Hgp' : inGraph (nd s' p) = true) by (apply (edge_reg s' HS' p n), (st_edge _ HS'), Hp').
        destruct (keep_stamps p Hpb Hgp') as [_ Ecq]. rewrite Ecq. exact Hc. }
    rewrite Hsw. reflexivity.
  Qed.

  Local Lemma newly_reg_zero n : inGraph (nd s n) = false -> inGraph (nd s' n) = true -> recomputedAt (nd s n) = 0.
  Proof. intros H1 H2. destruct (keep_valid n H2) as [_ Hvs]. apply (lp_unreg _ _ L n H1 Hvs). Qed.

  Local Lemma CP_main : inP s' Rp (S b) = true.
  Proof.
    destruct (isDone s (S b)) eqn:Ed.
    - apply keepP; [|exact Hne_bmain|rewrite S'ingraph; exact U_main].
      apply (lp_B _ _ L b (S b) PbW (rtc_once _ _ Hedge_bmain) Ed).
    - unfold inP. rewrite (S'main_q Ed). reflexivity.
  Qed.
  Local Lemma CP_owed n : inGraph (nd s' n) = true -> isDone s' n = false -> isStale s' n = true ->
    inP s' Rp n = true.
  Proof.
    intros Hgn Hd Hs.
    assert (Hnb : n <> b) by (intros ->; rewrite S'done_b in Hd; discriminate).
    destruct (decide (n = S b)) as [->|Hnm]; [exact CP_main|].
    assert (Hgu : inGraph (nd u n) = true) by (rewrite <- S'ingraph; exact Hgn).
    destruct (inGraph (nd s n)) eqn:Egs.
    - rewrite (stale_same n Egs Hgn Hnb Hnm) in Hs.
      assert (Hds : isDone s n = false).
      { unfold isDone in *. destruct (keep_stamps n Hnb Hgn) as [Er _]. rewrite S'k, Er in Hd. exact Hd. }
      apply keepP; [|exact Hnb|exact Hgn]. apply (lp_owed _ _ L n Egs Hds Hs).
    - unfold inP. apply orb_true_iff. left. apply S'heap_fwd. apply (U_newq n Egs Hgu Hnb (newly_reg_zero n Egs Hgn)).
      unfold isStale in Hs. rewrite (S'nd n Hnb) in Hs. destruct (nkind (nd u n)); try reflexivity.
      rewrite andb_false_r in Hs. discriminate.
  Qed.
  Local Lemma S'old m : has s m ->
    nkind (nd s' m) = nkind (nd s m) /\ scope (nd s' m) = scope (nd s m) /\ value (nd s' m) = value (nd s m) /\
    (m <> S b -> decl (nd s' m) = decl (nd s m)).
  Proof.
    intros Hm. rewrite (S'proj nkind), (S'proj scope), (S'proj value), (S'proj decl) by reflexivity. apply (U_old m Hm).
  Qed.

  Local Lemma S'valueOf p : has s p -> valueOf s' p = valueOf s p.
  Proof.
    intros Hp. rewrite <- (U_valueOf p Hp). apply valueOf_ext. intros n.
    rewrite (S'proj nkind), (S'proj decl), (S'proj value) by reflexivity. auto.
  Qed.

  Local Lemma S'bd b' : b' <> b -> is_Some (binds s !! b') -> bd s' b' = bd s b'.
  Proof. intros Hne Hs. unfold bd. rewrite (proj1 S'fields), (U_binds b' Hne Hs). reflexivity. Qed.

  Local Lemma S'read b1 : is_Some (binds s !! b1) ->
    b_cases (bd s' b1) = b_cases (bd s b1) /\ b_main (bd s' b1) = b_main (bd s b1) /\ b_lhs (bd s' b1) = b_lhs (bd s b1).
  Proof.
    intros Hs. destruct (decide (b1 = b)) as [->|Hne]; [|rewrite (S'bd b1 Hne Hs); auto].
    assert (E0 : bd s' b = bd u b) by (unfold bd; rewrite (proj1 S'fields); reflexivity). rewrite E0.
    destruct (U_read3 b) as (A1 & A2 & A3). destruct (if_bdb _ _ _ (proj1 IF)) as (L3 & _ & C3 & _ & M3 & _).
    destruct Hrec as (r & Hr & Er0).
    assert (E1 : bd s1' b = set b_rhsNodes (fun _ => []) (bd s b)).
    { unfold s1', updb, bd. cbn. rewrite lookup_alter. change (binds s1) with (binds s). rewrite Hr. reflexivity. }
    rewrite A1, A2, A3, C3, M3, L3, E1. auto.
  Qed.

  Local Lemma cvB_same n v : has s n -> n <> S b -> consistent_valB s' n v = consistent_valB s n v.
  Proof.
    intros Hn Hne. destruct (S'old n Hn) as (Ek & _ & _ & Ed). specialize (Ed Hne).
    assert (Hv : forall p, p ∈ decl (nd s n) -> valueOf s' p = valueOf s p).
    { intros p Hp. apply S'valueOf. apply (io_decl _ (p_ids _ P) n p Hp). }
    unfold consistent_valB. rewrite Ek, Ed. destruct (nkind (nd s n)) eqn:K; try reflexivity.
    - destruct (decl (nd s n)) as [|a [|]]; try reflexivity. rewrite Hv by left. reflexivity.
    - destruct (decl (nd s n)) as [|a [|c [|]]]; try reflexivity. rewrite (Hv a), (Hv c) by (repeat constructor). reflexivity.
    - f_equal. f_equal. apply map_ext_in. intros p Hp. apply Hv, elem_of_list_In, Hp.
    - destruct (decl (nd s n)) as [|a [|]]; try reflexivity. rewrite Hv by left. reflexivity.
    - destruct (bb_main _ HB n b0 K) as (En & _ & _).
      assert (Hb0 : b0 <> b) by (intros ->; apply Hne; exact En).
      assert (Hs0 : is_Some (binds s !! b0)).
      { pose proof (p_kinds s P n Hn) as Kk. rewrite K in Kk. apply Kk. }
      rewrite (S'bd b0 Hb0 Hs0). destruct (b_rhs (bd s b0)) as [r|] eqn:Er; [|reflexivity].
      rewrite Hv; [reflexivity|]. apply (bb_rhs_decl s HB n b0 r K Er).
  Qed.

  Local Lemma Hnext_le : (next s <= next s')%nat.
  Proof. rewrite (proj1 (proj2 S'fields)), Hnextu. apply (if_next _ _ _ (proj1 IF)). Qed.

  Local Lemma lhs_match_same b' : b' <> b -> nkind (nd s b') = KBindLhs b' -> has s b' ->
    matchesOK s b' = true -> matchesOK s' b' = true.
  Proof.
    intros Hne Kb Hb' Hm. unfold matchesOK in *.
    assert (Hsb' : is_Some (binds s !! b')).
    { pose proof (p_kinds s P b' Hb') as Kk. rewrite Kb in Kk. apply Kk. }
    rewrite (S'bd b' Hne Hsb').
    assert (Hl : has s (b_lhs (bd s b'))).
    { apply (io_decl _ (p_ids _ P) b'). destruct (bb_lhs _ HB b' b' Kb) as [_ ->]. left. }
    rewrite (S'valueOf _ Hl).
    pose proof (p_kinds s P b' Hb') as Kk. rewrite Kb in Kk. destruct Kk as [_ [r Hr]].
    assert (Hp : tplain true (select (b_cases (bd s b')) (valueOf s (b_lhs (bd s b')))) = true).
    { apply select_tplain. unfold bd. rewrite Hr. apply (TP b' r Hr). }
    apply (matches_mono (next s + 64)); [pose proof Hnext_le; lia|].
    apply (matches_old _ s s' b' _ _ _ true Hp); [| |exact Hm].
    - intros m Hmm _. destruct (S'old m Hmm) as (A1&A2&A3&A4). repeat split; try assumption.
      intros Hbk. apply A4. intros ->. rewrite Hkmain in Hbk. discriminate.
    - intros m b1 Hmm Km. apply S'read. pose proof (p_kinds s P m Hmm) as Kk. rewrite Km in Kk. apply Kk.
  Qed.
  Local Lemma S'match_b : matchesOK s' b = true.
  Proof.
    rewrite <- U_match. destruct S'fields as (Eb & En & _).
    apply matchesOK_ext; try assumption.
    - intros m. rewrite (S'proj nkind), (S'proj decl), (S'proj scope) by reflexivity. auto.
    - intros m _. apply (S'proj value). reflexivity.
    - apply valueOf_ext. intros m. rewrite (S'proj nkind), (S'proj decl), (S'proj value) by reflexivity. auto.
  Qed.

  Local Lemma CP_clean n : inGraph (nd s' n) = true -> inP s' Rp n = false -> guardedP s' Rp n = true ->
    clean_ok s' n = true.
  Proof.
    intros Hgn Hw Hgd.
    destruct (decide (n = b)) as [->|Hnb].
    - unfold clean_ok. assert (Ekb : nkind (nd s' b) = KBindLhs b) by (rewrite (S'proj nkind) by reflexivity; exact Hkbu).
      unfold consistent_valB. rewrite Ekb. simpl. rewrite S'match_b. rewrite !orb_true_r. reflexivity.
    - destruct (decide (n = S b)) as [->|Hnm]; [rewrite CP_main in Hw; discriminate|].
      assert (Hgu : inGraph (nd u n) = true) by (rewrite <- S'ingraph; exact Hgn).
      destruct (inGraph (nd s n)) eqn:Egs.
      + (* registered before and after *)
        assert (Hn : has s n) by (apply has_inGraph; exact Egs).
        destruct (keep_stamps n Hnb Hgn) as [Ern _].
        pose proof (keepP_false n Hw Hnb Hgn) as Hw0.
        assert (Hgd0 : guardedP s (b :: Rp) n = true).
        { unfold guardedP in *. apply forallb_intro. intros p Hp.
          assert (Hp' : p ∈ parents (nd s' n)) by (apply (S'parents n p Egs Hgn Hnm); exact Hp).
          pose proof (forallb_elem _ _ _ Hgd Hp') as Hb'. cbv beta in Hb'. apply andb_true_iff in Hb' as [H1 H2].
          assert (Hpb : p <> b) by (intros ->; apply Hnm, (parent_b_main n Egs Hp)).
          assert (Hgp' : inGraph (nd s' p) = true) by (apply (edge_reg s' HS' p n), (st_edge _ HS'), Hp').
          destruct (keep_stamps p Hpb Hgp') as [Erp Ecp']. rewrite Ecp', Ern in H1.
          apply andb_true_iff. split; [exact H1|]. apply negb_true_iff in H2. apply negb_true_iff.
          assert (Hhp : has s p) by (apply has_inGraph, (edge_reg s HS p n), (parent_edge s HS), Hp).
          unfold volqP in *. destruct (S'old p Hhp) as (Ekp & _). rewrite Ekp in H2.
          destruct (nkind (nd s p)); try reflexivity.
          * apply (keepP_false p H2 Hpb Hgp').
          * apply orb_false_iff in H2 as [H2 H3]. rewrite (keepP_false p H2 Hpb Hgp'). rewrite Erp, S'k in H3. exact H3. }
        pose proof (lp_clean _ _ L n Egs Hw0 Hgd0) as Hc. unfold clean_ok in *.
        apply andb_true_iff in Hc as [Hc1 Hc2]. destruct (S'old n Hn) as (Ekn & _ & Evn & _).
        rewrite Evn, (cvB_same n _ Hn Hnm), Hc1, Ekn. simpl.
        destruct (nkind (nd s n)) eqn:Kn; try reflexivity.
        pose proof (p_kinds s P n Hn) as Kk. rewrite Kn in Kk. destruct Kk as [-> _].
        assert (Hgm0 : inGraph (nd s (S b0)) = true) by (apply (lhs_main_reg_P s b0 P Kn Egs)).
        pose proof (p_kinds s P b0 Hn) as Kk. rewrite Kn in Kk. destruct Kk as [_ [r Hr]].
        pose proof (bw_kind_main _ _ _ (p_binds _ P b0 r Hr)) as Kmain.
        rewrite Hgm0, Kmain in Hc2. rewrite !bool_decide_eq_true_2 in Hc2 by reflexivity. simpl in Hc2.
        rewrite (lhs_match_same b0 Hnb Kn Hn Hc2). rewrite !orb_true_r. reflexivity.
      + (* newly registered: a var (anything else is queued) *)
        assert (Hku' : nkind (nd s' n) = nkind (nd u n)) by (apply (S'proj nkind); reflexivity).
        destruct (staleK (nkind (nd u n))) eqn:Est.
        * unfold inP in Hw. rewrite (S'heap_fwd n (U_newq n Egs Hgu Hnb (newly_reg_zero n Egs Hgn) Est)) in Hw. discriminate.
        * unfold clean_ok, consistent_valB. rewrite Hku'. destruct (nkind (nd u n)); try discriminate Est. reflexivity.
  Qed.
  Local Lemma C_unreg n : inGraph (nd s' n) = false -> valid (nd s' n) = true ->
    recomputedAt (nd s' n) = 0 /\ changedAt (nd s' n) = 0.
  Proof.
    intros Hgn Hv.
    assert (Hnb : n <> b) by (intros ->; rewrite S'ingraph in Hgn; destruct U_b as (_&_&E); congruence).
    rewrite (S'nd n Hnb) in *.
    assert (Hvs : valid (nd s n) = true) by (destruct (U_valid n) as [E|[E _]]; congruence).
    destruct (U_stamps n Hnb) as [(A&B&C)|[(_&A&B)|(A&_)]]; [|auto|congruence].
    rewrite A, B. apply (lp_unreg _ _ L n); [|exact Hvs].
    destruct (inGraph (nd s n)) eqn:E; [|reflexivity]. rewrite (C eq_refl) in Hgn. discriminate.
  Qed.

  Local Lemma C_quiet : setDuring s' = [] /\ setRemoved s' = [].
  Proof.
    destruct S'fields as (_ & _ & _ & -> & ->). rewrite (is_setDuring _ _ Hsame), (is_setRemoved _ _ Hsame).
    apply (c_quiet _ _ _ _ C8).
    - change (setDuring s3 = []). destruct (if_fields _ _ _ (proj1 IF)) as (_&_&_&_&_&_&_&_&E&_). rewrite E. apply (lp_quiet _ _ L).
    - change (setRemoved s3 = []). destruct (if_fields _ _ _ (proj1 IF)) as (_&_&_&_&_&_&_&_&_&E&_). rewrite E. apply (lp_quiet _ _ L).
  Qed.
  Local Lemma U_has m : has u m <-> has s3 m.
  Proof. rewrite (is_has _ _ Hsame m), (c_has _ _ _ _ C8 m). unfold s7, s7_of. rewrite has_upd. reflexivity. Qed.

  Local Lemma C_shape : Shape s'.
  Proof.
    intros n y E. rewrite <- (nd_lookup _ _ _ E). assert (Hn' : has s' n) by (exists y; exact E).
    apply S'has, U_has in Hn'.
    destruct (decide (has s n)) as [Hn|Hn].
    - destruct (S'old n Hn) as (Ek & _ & Ev & Ed).
      destruct (decide (n = S b)) as [->|Hne].
      + unfold shape_node, arity_ok, cutalways_zero, always_lt. rewrite Ek, Hkmain. reflexivity.
      + rewrite (shape_node_ext n (nd s n) (nd s' n) Ek (Ed Hne) Ev). apply (lp_shape _ _ L n _ (has_lookup _ _ Hn)).
    - destruct IF as [F _].
      assert (Hnew : (next s1' <= n < next s3)%nat).
      { destruct (decide (next s1' <= n < next s3)%nat) as [|Hold]; [assumption|exfalso].
        unfold has in Hn'. rewrite (if_old _ _ _ F n) in Hn' by lia. apply Hn.
        change (has s1' n) in Hn'. unfold s1' in Hn'. rewrite has_updb in Hn'. unfold s1 in Hn'. rewrite has_upd in Hn'. exact Hn'. }
      destruct (if_new _ _ _ F n Hnew) as (k0 & d & v & E3 & _ & Hsh & _).
      assert (Hne : n <> S b) by (intros ->; apply Hn, Hhasmain).
      destruct (U_from3 n) as (A1 & _ & A3 & A4). rewrite (nd_lookup _ _ _ E3) in A1, A3, A4.
      rewrite (shape_node_ext n (fresh_node k0 d (Some b) v) (nd s' n)); [exact Hsh|..].
      + rewrite (S'proj nkind) by reflexivity. exact A1.
      + rewrite (S'proj decl) by reflexivity. apply A4, Hne.
      + rewrite (S'proj value) by reflexivity. exact A3.
  Qed.

  Local Lemma C_cases : CF s s'.
  Proof.
    intros Q HQ HA b' r' Hr. rewrite (proj1 S'fields) in Hr. destruct (decide (b' = b)) as [->|Hne].
    - destruct U_bdb as (_ & Ec & _). unfold bd in Ec. rewrite Hr in Ec. cbn in Ec. rewrite Ec.
      destruct Hrec as (r1 & Hr1 & ->). apply (HA b r1 Hr1).
    - rewrite (U_binds3 b' Hne) in Hr. destruct (if_bd _ _ _ (proj1 IF) b' Hne) as [E|[E _]].
      + rewrite E, (S1'_binds b' Hne) in Hr. apply (HA b' r' Hr).
      + destruct IF3 as (_ & NQ & M).
        destruct (nth_in_or_default (Z.to_nat (x mod Z.of_nat (length (b_cases r0)))) (b_cases r0) TNil) as [Hin|Hd].
        * apply (NQ Q HQ) with (b1 := b'); [|exact Hne|exact Hr|exact E]. unfold select.
          destruct Hrec as (r1 & Hr1 & Er). pose proof (HA b r1 Hr1) as Hall. rewrite Er in Hin.
          rewrite forallb_forall in Hall. rewrite Er. apply Hall, Hin.
        * (* the default case [TNil]: nothing was built *)
          exfalso. assert (Es : select (b_cases r0) x = TNil) by exact Hd.
          assert (E3 : s3 = s1').
          { pose proof Einst as Ei. rewrite Es in Ei. cbn in Ei. injection Ei as <- _. reflexivity. }
          rewrite E3 in Hr. congruence.
  Qed.

  Local Lemma C_tplain : Tplain s'.
  Proof. exact (Tplain_CF s s' C_cases TP). Qed.

  Local Lemma C_done y : isDone s' y = true -> inGraph (nd s' y) = true -> y <> b ->
    has s y /\ isDone s y = true /\ inGraph (nd s y) = true /\ nkind (nd s' y) = nkind (nd s y).
  Proof.
    intros Hd Hgy Hyb. destruct (done_old y Hyb Hd) as [E|[E1 E2]]; [congruence|].
    assert (Hy : has s y) by (apply has_inGraph, E1). split; [exact Hy|]. split; [exact E2|]. split; [exact E1|].
    apply (S'old y Hy).
  Qed.

  Local Lemma C_log : LQ s s'.
  Proof.
    assert (G7 : LQ s s7).
    { exists [EvBindFn b x root]. split; [|constructor; [reflexivity|constructor]].
      change (EvBindFn b x root :: log s3 = [EvBindFn b x root] ++ log s).
      destruct (if_fields _ _ _ (proj1 IF)) as (_&_&_&_&_&_&_&_&_&_&_&_&->). reflexivity. }
    eapply LQ_trans; [exact G7|]. eapply LQ_trans; [exact (LQ_changeParent _ _ _ _ _ _ _ Ecp)|].
    eapply LQ_trans; [exact (inval_opt_LQ fuel _ _ _ _ Eiv)|].
    apply LQ_eq. destruct (tp_shape _ _ _ _ TPs) as (w & h & E). rewrite E. reflexivity.
  Qed.

  Local Lemma C_h7 : handlers s7 = handlers s.
  Proof.
    change (handlers s3 = handlers s). destruct (if_fields _ _ _ (proj1 IF)) as (_&_&_&_&_&_&_&_&_&_&->&_). reflexivity.
  Qed.
  Local Lemma C_cp :
    (forall k, k ∈ handlers t8 -> k ∈ handlers s7 /\ (inGraph (nd s7 k) = true -> inGraph (nd t8 k) = true)) /\
    (forall k, k ∈ handlers s7 -> (inGraph (nd s7 k) = true /\ inGraph (nd t8 k) = true) \/ ~ has s7 k -> k ∈ handlers t8).
  Proof. exact (changeParent_handlers fuel s7 (S b) (b_rhs r0) root t8 Hvc7 (match_opt_intro root _ Hvroot) Hinvq7 Ecp). Qed.
  Local Lemma C_hu : handlers u = handlers t8. Proof. apply (is_handlers _ _ Hsame). Qed.
  Local Lemma C_tail :
    b ∈ handlers s' /\ (forall o, o ∈ observers (nd s' b) -> o ∈ handlers s') /\
    (forall k, k ∈ handlers u -> k ∈ handlers s') /\
    (forall k, k ∈ handlers s' -> k ∈ handlers u \/ k = b \/ k ∈ observers (nd u b)).
  Proof. exact (EngineLocal.C13_changed_node_is_queued_for_handler u b s' None imm Htail). Qed.

  Lemma assemble_frame : bfr s b s'.
  Proof.
    constructor.
    - exact S'k.
    - intros m Hm. apply S'has, U_has.
      assert (Hm1 : has s1' m) by (unfold s1'; rewrite has_updb; unfold s1; rewrite has_upd; exact Hm).
      unfold has. rewrite (if_old _ _ _ (proj1 IF) m) by (left; apply Hlt1, Hm1). exact Hm1.
    - intros m Hm. destruct (S'old m Hm) as (A & _ & B & C). auto.
    - exact S'valueOf.
    - intros m Hm. rewrite (S'nd m Hm). apply (U_stamps m Hm).
    - destruct U_b as (A & _ & B). split; [rewrite S'b; exact A|rewrite S'ingraph; exact B].
    - exact Hedge_bmain.
    - exact C_log.
    - rewrite S'b. reflexivity.
    - intros m Hm. apply (keep_valid m Hm).
    - intros h Hhk. destruct C_tail as (A1 & A2 & A3 & A4). destruct (A4 h Hhk) as [Hu|[->|Ho]]; [|auto|].
      + right. right. rewrite C_hu in Hu. destruct (proj1 C_cp h Hu) as [H7 Hr]. rewrite C_h7 in H7. split; [exact H7|].
        intros Hg'. rewrite S'ingraph, U_ingraph. apply Hr. rewrite S7_ingraph. exact Hg'.
      + right. left. rewrite (S'proj observers) by reflexivity. exact Ho.
    - intros h Hhk Hc. destruct C_tail as (A1 & A2 & A3 & A4). apply A3. rewrite C_hu. apply (proj2 C_cp h).
      + rewrite C_h7. exact Hhk.
      + destruct Hc as [[H1 H2]|[H1 H2]].
        * left. rewrite S7_ingraph. split; [exact H1|]. rewrite <- U_ingraph, <- S'ingraph. exact H2.
        * right. intros H7. apply H1. unfold s7, s7_of in H7. rewrite has_upd in H7.
          change (has s3 h) in H7. unfold has in H7. rewrite (if_old _ _ _ (proj1 IF) h) in H7 by (left; exact H2).
          change (has s1' h) in H7. unfold s1' in H7. rewrite has_updb in H7. unfold s1 in H7. rewrite has_upd in H7. exact H7.
    - destruct C_tail as (A1 & A2 & _). split; [exact A1|exact A2].
    - exact queued_cases.
    - exact done_old.
    - exact S'parents.
    - assert (Hgm : inGraph (nd s' (S b)) = true) by (rewrite S'ingraph; exact U_main).
      split; [exact Hgm|]. apply (st_par _ HS' (S b) b Hgm).
      rewrite (S'proj decl) by reflexivity. destruct (U_from3 (S b)) as (_ & _ & _ & _).
      assert (Hd : decl (nd u (S b)) = b :: option_list root).
      { destruct (is_node _ _ Hsame (S b)) as (_ & -> & _). destruct (c_static _ _ _ _ C8 (S b)) as (_ & -> & _).
        unfold s7, s7_of. rewrite nd_upd_eq; [reflexivity|]. change (has s3 (S b)).
        unfold has. rewrite (if_old _ _ _ (proj1 IF) (S b)) by (left; apply Hlt1; unfold s1'; rewrite has_updb; unfold s1; rewrite has_upd; exact Hhasmain).
        change (has s1' (S b)). unfold s1'. rewrite has_updb. unfold s1. rewrite has_upd. exact Hhasmain. }
      rewrite Hd. left.
  Qed.

  Local Lemma CP_shape_arity m : arity_ok (nd s' m) = true.
  Proof. apply (bb_arity s' (PInv_BFB s' P' C_shape)). Qed.

  Local Lemma CP_M m w : m ∈ Rp -> inGraph (nd s' m) = true -> inHeap s' m = false ->
    inP s' Rp w = true -> reach s' w m -> w = m.
  Proof.
    intros Hm Hgm' Hq' Hw Hr.
    assert (Hmb : m <> b) by (intros ->; exact (PbR Hm)).
    assert (Hgu : inGraph (nd u m) = true) by (rewrite <- S'ingraph; exact Hgm').
    destruct (inGraph (nd s m)) eqn:Egs.
    - assert (Hq : inHeap s m = false).
      { destruct (inHeap s m) eqn:E; [|reflexivity]. rewrite (S'heap_fwd m (U_fwd m Hgu E)) in Hq'. discriminate. }
      assert (Hfromb : reach s b m -> False).
      { intros Hbm. apply Hmb. symmetry. apply (lp_M _ _ L m b ltac:(right; exact Hm) Egs Hq PbW Hbm). }
      destruct (path_back w m Hr Egs) as [Hwm|Hmm]; [|destruct (Hfromb (Hmain_no m Hmm))].
      destruct (casesP w Hw) as [Ho|[->|Hgw]].
      + apply (lp_M _ _ L m w ltac:(right; exact Hm) Egs Hq Ho Hwm).
      + destruct (Hfromb (Hmain_no m Hwm)).
      + apply (no_reach_unreg w m Hgw Hwm).
    - (* registered again by this step and not queued: a var, it has no input *)
      assert (Hku' : nkind (nd s' m) = nkind (nd u m)) by (apply (S'proj nkind); reflexivity).
      destruct (staleK (nkind (nd u m))) eqn:Est.
      { rewrite (S'heap_fwd m (U_newq m Egs Hgu Hmb (newly_reg_zero m Egs Hgm') Est)) in Hq'. discriminate. }
      apply rtc_inv_r in Hr as [->|(y & _ & Hym)]; [reflexivity|exfalso].
      apply (st_edge _ HS') in Hym. apply (st_par _ HS' m y Hgm') in Hym.
      pose proof (CP_shape_arity m) as Har. unfold arity_ok in Har. rewrite Hku' in Har.
      destruct (nkind (nd u m)); try discriminate Est. apply bool_decide_eq_true in Har. rewrite Har in Hym. inv Hym.
  Qed.

  (* the bind records that existed before the step keep their cases, main and lhs *)
  Lemma assemble_read b1 : is_Some (binds s !! b1) ->
    b_cases (bd s' b1) = b_cases (bd s b1) /\ b_main (bd s' b1) = b_main (bd s b1) /\ b_lhs (bd s' b1) = b_lhs (bd s b1).
  Proof. exact (S'read b1). Qed.

  (* the owed set across the step *)
  Lemma assemble_frameP :
    (forall y, inP s (b :: Rp) y = true -> y <> b -> inGraph (nd s' y) = true -> inP s' Rp y = true) /\
    (forall w, inP s' Rp w = true -> inP s (b :: Rp) w = true \/ w = S b \/ inGraph (nd s w) = false) /\
    inP s' Rp (S b) = true /\
    (inP s' Rp b = true -> inHeap s b = true).
  Proof.
    split; [exact keepP|]. split; [exact casesP|]. split; [exact CP_main|].
    intros Hb'. unfold inP in Hb'. rewrite (bool_decide_eq_false_2 _ PbR), andb_false_l, orb_false_r in Hb'.
    destruct (queued_cases b Hb') as [Hq|[Hq|Hq]]; [exact Hq|lia|congruence].
  Qed.
  Lemma assembleP : (LInvP s' Rp /\ Tplain s') /\ imm = None /\ stabNum s' = stabNum s /\ CF s s' /\
    (forall y, isDone s' y = true -> inGraph (nd s' y) = true -> isAlways (nkind (nd s' y)) = true ->
               isDone s y = true /\ inGraph (nd s y) = true /\ isAlways (nkind (nd s y)) = true).
  Proof.
    split; [|split; [exact Himm|split; [exact S'k|split; [exact C_cases|]]]].
    2:{ intros y Hd Hgy Ha. destruct (decide (y = b)) as [->|Hne].
        - rewrite (S'proj nkind) in Ha by reflexivity. rewrite Hkbu in Ha. discriminate.
        - destruct (C_done y Hd Hgy Hne) as (_ & A & B & C). rewrite C in Ha. auto. }
    split; [|exact C_tplain]. constructor.
    - exact C_shape.
    - exact C_stamps.
    - pose proof (lp_nodup _ _ L) as H. apply stdpp.list.NoDup_cons in H as [_ H]. exact H.
    - exact CP_B.
    - exact CP_M.
    - exact CP_owed.
    - exact CP_clean.
    - exact C_unreg.
    - exact C_quiet.
  Qed.
End AssembleP.

(** the step: the parallel recompute of a lhs-change node of a bind with plain templates preserves
    the invariant of the parallel pass *)
Theorem bind_stepP : bind_value_specP.
Proof.
  intros fuel s b R s' TP P L Hg Hk H P'.
  destruct (rnp_rns fuel s b s' H) as (s1 & imm & Hs & Hadd).
  destruct (recomputeNodeSerial_spec PT PT_struct bind_spec_holds fuel [] s b s1 None imm Logic.I P eq_refl Hg Hs)
    as [[Hr|Hr]|[(P1 & _) _]]; try discriminate.
  destruct (rns_lhs fuel s b s1 imm Hk Hs) as (u & Hbind & Htail).
  destruct (stages fuel s b u P Hg Hk Hbind) as (s3 & root & t8 & Einst & FP & Ecp & T8 & F8 & Eiv & Hsame & Hval & PU).
  assert (A : (LInvP s1 R /\ Tplain s1) /\ imm = None /\ stabNum s1 = stabNum s /\ CF s s1 /\
    (forall y, isDone s1 y = true -> inGraph (nd s1 y) = true -> isAlways (nkind (nd s1 y)) = true ->
               isDone s y = true /\ inGraph (nd s y) = true /\ isAlways (nkind (nd s y)) = true)).
  { eapply (assembleP fuel s b u s1 imm); eassumption. }
  destruct A as ([L1 TP1] & -> & _ & C1 & D1). subst s'. auto.
Qed.


Definition bfrP (s : state) (b : nat) (R : list nid) (s' : state) : Prop :=
  (forall y, inP s (b :: R) y = true -> y <> b -> inGraph (nd s' y) = true -> inP s' R y = true) /\
  (forall w, inP s' R w = true -> inP s (b :: R) w = true \/ w = S b \/ inGraph (nd s w) = false) /\
  inP s' R (S b) = true /\
  (inP s' R b = true -> inHeap s b = true).

Theorem bind_step_frameP fuel s b R s' :
  Tplain s -> PInv s -> LInvP s (b :: R) -> inGraph (nd s b) = true -> nkind (nd s b) = KBindLhs b ->
  recomputeNodeParallel fuel [] s b = Ok (s', None) -> PInv s' -> bfr s b s' /\ bfrP s b R s'.
Proof.
  intros TP P L Hg Hk H P'.
  destruct (rnp_rns fuel s b s' H) as (s1 & imm & Hs & Hadd).
  destruct (recomputeNodeSerial_spec PT PT_struct bind_spec_holds fuel [] s b s1 None imm Logic.I P eq_refl Hg Hs)
    as [[Hr|Hr]|[(P1 & _) _]]; try discriminate.
  destruct (rns_lhs fuel s b s1 imm Hk Hs) as (u & Hbind & Htail).
  destruct (stages fuel s b u P Hg Hk Hbind) as (s3 & root & t8 & Einst & FP & Ecp & T8 & F8 & Eiv & Hsame & Hval & PU).
  assert (Ei : imm = None).
  { assert (A : (LInvP s1 R /\ Tplain s1) /\ imm = None /\ stabNum s1 = stabNum s /\ CF s s1 /\
      (forall y, isDone s1 y = true -> inGraph (nd s1 y) = true -> isAlways (nkind (nd s1 y)) = true ->
                 isDone s y = true /\ inGraph (nd s y) = true /\ isAlways (nkind (nd s y)) = true)).
    { eapply (assembleP fuel s b u s1 imm); eassumption. }
    apply A. }
  subst imm. subst s'. split.
  - eapply (assemble_frame fuel s b u s1 None); eassumption.
  - eapply (assemble_frameP fuel s b u s1 None); eassumption.
Qed.


Theorem bind_step_readP fuel s b R s' :
  Tplain s -> PInv s -> LInvP s (b :: R) -> inGraph (nd s b) = true -> nkind (nd s b) = KBindLhs b ->
  recomputeNodeParallel fuel [] s b = Ok (s', None) ->
  forall b1, is_Some (binds s !! b1) ->
    b_cases (bd s' b1) = b_cases (bd s b1) /\ b_main (bd s' b1) = b_main (bd s b1) /\ b_lhs (bd s' b1) = b_lhs (bd s b1).
Proof.
  intros TP P L Hg Hk H b1 Hb1.
  destruct (rnp_rns fuel s b s' H) as (s1 & imm & Hs & Hadd).
  destruct (recomputeNodeSerial_spec PT PT_struct bind_spec_holds fuel [] s b s1 None imm Logic.I P eq_refl Hg Hs)
    as [[Hr|Hr]|[(P1 & _) _]]; try discriminate.
  destruct (rns_lhs fuel s b s1 imm Hk Hs) as (u & Hbind & Htail).
  destruct (stages fuel s b u P Hg Hk Hbind) as (s3 & root & t8 & Einst & FP & Ecp & T8 & F8 & Eiv & Hsame & Hval & PU).
  assert (Hrd : b_cases (bd s1 b1) = b_cases (bd s b1) /\ b_main (bd s1 b1) = b_main (bd s b1) /\ b_lhs (bd s1 b1) = b_lhs (bd s b1)).
  { eapply (assemble_read fuel s b u s1 imm); eassumption. }
  assert (Eb : bd s' b1 = bd s1 b1).
  { destruct imm as [c|]; [|subst; reflexivity]. apply heapAdd_inv in Hadd as (w & _ & ->). reflexivity. }
  rewrite Eb. exact Hrd.
Qed.

(* the serial step, through the weak invariant *)
Lemma LInvP_of_cur s b : inGraph (nd s b) = true -> HeapSpec.inv (heap s) -> LInvC s (Some b) -> LInvP s [b].
Proof.
  intros Hg I L.
  assert (HW : forall n, inP s [b] n = inW s (Some b) n).
  { intros n. unfold inP, inW. f_equal. destruct (decide (n = b)) as [->|Hne].
    - rewrite Hg, (bool_decide_eq_true_2 (b ∈ [b])) by left. rewrite bool_decide_eq_true_2 by reflexivity. reflexivity.
    - rewrite (bool_decide_eq_false_2 (n ∈ [b])) by (intros Hin; apply elem_of_list_singleton in Hin; congruence).
      rewrite bool_decide_eq_false_2 by congruence. reflexivity. }
  constructor.
  - exact (lc_shape _ _ L).
  - exact (lc_stamps _ _ L).
  - apply NoDup_singleton.
  - intros w n Hw Hr Hd. rewrite HW in Hw. rewrite (lc_B _ _ L w n Hw Hr) in Hd. discriminate.
  - intros m w Hm _ _ Hw Hr. apply elem_of_list_singleton in Hm as ->. rewrite HW in Hw.
    apply (inW_iff s (Some b) w I) in Hw as [Hw|Hw]; [|congruence].
    exfalso. exact (lc_M _ _ L b w eq_refl Hw Hr).
  - intros n Hgn Hd Hs. rewrite HW. apply (lc_owed _ _ L n Hgn Hd Hs).
  - intros n Hgn Hw Hgd. rewrite HW in Hw. apply (lc_clean _ _ L n Hgn Hw).
    unfold guardedP in Hgd. unfold guarded. apply forallb_intro. intros p Hp.
    pose proof (forallb_elem _ _ _ Hgd Hp) as H. cbv beta in H. apply andb_true_iff in H as [H1 H2].
    rewrite H1. simpl. apply negb_true_iff in H2. apply negb_true_iff. unfold volqP in H2. unfold volq.
    destruct (nkind (nd s p)); try reflexivity.
    + rewrite <- HW. exact H2.
    + apply orb_false_iff in H2 as [_ H2]. exact H2.
  - exact (lc_unreg _ _ L).
  - exact (lc_quiet _ _ L).
Qed.

Theorem bind_step_readS fuel s b s' imm :
  Tplain s -> PInv s -> LInvC s (Some b) -> inGraph (nd s b) = true -> nkind (nd s b) = KBindLhs b ->
  recomputeNodeSerial fuel [] s b = Ok (s', None, imm) ->
  forall b1, is_Some (binds s !! b1) ->
    b_cases (bd s' b1) = b_cases (bd s b1) /\ b_main (bd s' b1) = b_main (bd s b1) /\ b_lhs (bd s' b1) = b_lhs (bd s b1).
Proof.
  intros TP P L Hg Hk Hs b1 Hb1.
  pose proof (LInvP_of_cur s b Hg (proj1 (PInv_heap s P)) L) as LP.
  destruct (recomputeNodeSerial_spec PT PT_struct bind_spec_holds fuel [] s b s' None imm Logic.I P eq_refl Hg Hs)
    as [[Hr|Hr]|[(P1 & _) _]]; try discriminate.
  destruct (rns_lhs fuel s b s' imm Hk Hs) as (u & Hbind & Htail).
  destruct (stages fuel s b u P Hg Hk Hbind) as (s3 & root & t8 & Einst & FP & Ecp & T8 & F8 & Eiv & Hsame & Hval & PU).
  eapply (assemble_read fuel s b u s' imm); eassumption.
Qed.

(** * The parallel pass on graphs with binds *)
Theorem parS_consistent s s' :
  Inv s -> ValInvB s -> Tplain s -> parStabilize [] s = Ok (s', None) ->
  consistent s' = true /\ Inv s' /\ wfb s' = true /\ Shape s' /\ ValInvB s' /\ Tplain s' /\ CF s s'.
Proof. exact (parS_all bind_stepP s s'). Qed.

Theorem parS_agree s s' :
  Inv s -> ValInvB s -> Tplain s -> parStabilize [] s = Ok (s', None) -> SpecProofs.templates_ok s' = true ->
  consistent s' = true /\ observers_agree s' = true /\ Inv s' /\ wfb s' = true.
Proof. exact (parS_observers_agree bind_stepP s s'). Qed.

Print Assumptions parS_consistent.
Print Assumptions parS_agree.
