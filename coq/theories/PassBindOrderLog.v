(** C08, the ordering half, as a statement about the log of a serial pass: between a function or
    cutoff event of a node created by bind [a] and a LATER run of [a]'s bind function in the same pass,
    the node left the graph or came back ([EvUnnec] / [EvNec]).  (Under ParallelStabilize this
    statement is false: ParBindOrder.order_statement_par_refuted.) *)
From incr Require Import Base Heap HeapSpec HeapProofs EngineDefs Engine EngineRun EngineWf Spec EngineLemmas EngineLocal
     EngineInv EngineInvProofs PassInv PassProofs PassPlanProofs PassBind PassBindProofs PassBindSwap PassBindSwapProofs
     PassBindSwapStep PassBindOps PassBindSwapLog PassBindOrder.
From incr Require Import SpecProofs.

Local Arguments valueOf : simpl never.

(** * 1. The lifecycle of the log *)
Lemma log_ok_suffix l1 : forall l2, log_ok (l1 ++ l2) -> log_ok l2.
Proof. induction l1 as [|e l1 IH]; intros l2 H; [exact H|]. apply IH. apply H. Qed.

Lemma lastNU_skip n pre : forall l, EvNec n ∉ pre -> EvUnnec n ∉ pre -> lastNU (pre ++ l) n = lastNU l n.
Proof.
  induction pre as [|e pre IH]; intros l H1 H2; [reflexivity|].
  assert (H1' : EvNec n ∉ pre) by (intros X; apply H1; right; exact X).
  assert (H2' : EvUnnec n ∉ pre) by (intros X; apply H2; right; exact X).
  cbn [app]. destruct e; cbn [lastNU]; try apply (IH l H1' H2').
  - destruct (decide (n0 = n)) as [->|]; [exfalso; apply H1; left|apply (IH l H1' H2')].
  - destruct (decide (n0 = n)) as [->|]; [exfalso; apply H2; left|apply (IH l H1' H2')].
Qed.

(* a run event of a node that is not registered now is followed by a lifecycle event of the node *)
Lemma run_then_gone s pre e post n :
  PInv s -> log s = pre ++ e :: post -> ev_node e = Some n -> inGraph (nd s n) = false ->
  EvNec n ∈ pre \/ EvUnnec n ∈ pre.
Proof.
  intros P El Hn Hg. pose proof (p_t _ P) as T.
  destruct (decide (EvNec n ∈ pre)) as [H1|H1]; [left; exact H1|].
  destruct (decide (EvUnnec n ∈ pre)) as [H2|H2]; [right; exact H2|]. exfalso.
  pose proof (t_log _ _ _ T) as HL. rewrite El in HL. apply log_ok_suffix in HL. destruct HL as [He _].
  assert (Hl : lastNU post n = Some true).
  { destruct e; try discriminate Hn; injection Hn as ->; apply He. }
  assert (Hl2 : lastNU (log s) n = Some true).
  { rewrite El, (lastNU_skip n pre _ H1 H2). destruct e; try discriminate Hn; exact Hl. }
  apply (t_life _ _ _ T n ltac:(apply not_elem_of_nil)) in Hl2. congruence.
Qed.

(** * 2. What holds when a lhs-change node is recomputed, in log form *)
Definition QOrd2 (base : list event) (s : state) (a : nid) : Prop :=
  nkind (nd s a) = KBindLhs a ->
  forall evs pre e post n, log s = evs ++ base -> evs = pre ++ e :: post -> ev_node e = Some n ->
    sub s n a -> EvNec n ∈ pre \/ EvUnnec n ∈ pre.

Lemma QOrd2_of s0 base s a : PInv s -> OD s (Some a) -> LGx s0 base s -> QOrd2 base s a.
Proof.
  intros P K G Hk evs pre e post n El E Hn Hs.
  destruct (inGraph (nd s n)) eqn:Hg.
  - left. destruct (QOrd_of s0 base s a K G Hk) as [_ B]. exact (B evs pre e post n El E Hn Hs Hg).
  - apply (run_then_gone s pre e (post ++ base) n P); [rewrite El, E, <- app_assoc; reflexivity|exact Hn|exact Hg].
Qed.

(** * 3. The log invariant of the pass *)
Definition LO (s : state) (evs : list event) : Prop :=
  (forall e n, e ∈ evs -> ev_node e = Some n -> has s n) /\
  forall pre x root a mid e post n, evs = pre ++ EvBindFn a x root :: mid ++ e :: post ->
    ev_node e = Some n -> sub s n a -> EvNec n ∈ mid \/ EvUnnec n ∈ mid.

(* the scope chain of an existing node consists of existing nodes: it does not change *)
Lemma sub_back_has s s' : PInv s -> (forall n, has s n -> has s' n /\ scope (nd s' n) = scope (nd s n)) ->
  forall n b, sub s' n b -> has s n -> sub s n b.
Proof.
  intros P E n b H. induction H as [n b H|n b1 b H _ IH]; intros Hh.
  - apply sub_here. rewrite <- (proj2 (E n Hh)). exact H.
  - assert (H0 : scope (nd s n) = Some b1) by (rewrite <- (proj2 (E n Hh)); exact H).
    apply (sub_up s n b1 b H0). apply IH.
    destruct (p_scopes _ P n b1 H0) as [[r Hr] _]. exact (bw_has_lhs _ _ _ (p_binds _ P b1 r Hr)).
Qed.

Definition isBindFn (e : event) : bool := match e with EvBindFn _ _ _ => true | _ => false end.

Lemma split_nobind_l l1 : forall l2 pre e rest,
  l1 ++ l2 = pre ++ e :: rest -> isBindFn e = true -> Forall (fun x => isBindFn x = false) l1 ->
  exists pre2, pre = l1 ++ pre2 /\ l2 = pre2 ++ e :: rest.
Proof.
  induction l1 as [|x l1 IH]; intros l2 pre e rest E He F; [exists pre; auto|].
  inversion F as [|? ? Hx F']; subst. destruct pre as [|y pre]; cbn in E.
  - injection E as -> _. congruence.
  - injection E as <- E. destruct (IH l2 pre e rest E He F') as (pre2 & -> & E2). exists pre2. auto.
Qed.

(* the frame every recompute gives: existing nodes keep their scope, nodes persist *)
Lemma LO_frame s s' evs new : PInv s ->
  (forall n, has s n -> has s' n /\ scope (nd s' n) = scope (nd s n)) ->
  Forall (fun x => isBindFn x = false) new -> (forall e n, e ∈ new -> ev_node e = Some n -> has s' n) ->
  LO s evs -> LO s' (new ++ evs).
Proof.
  intros P Hfr Hnb Hnew [EH K]. split.
  - intros e n He Hn. apply elem_of_app in He as [He|He]; [exact (Hnew e n He Hn)|apply (Hfr n), (EH e n He Hn)].
  - intros pre x root a mid e post n E Hn Hs.
    destruct (split_nobind_l new evs pre (EvBindFn a x root) _ E eq_refl Hnb) as (pre2 & -> & E2).
    assert (Hh : has s n).
    { apply (EH e n); [|exact Hn]. rewrite E2. apply elem_of_app. right. right. apply elem_of_app. right. left. }
    apply (K pre2 x root a mid e post n E2 Hn). exact (sub_back_has s s' P Hfr n a Hs Hh).
Qed.

Lemma runs_none_nobind l : Forall (fun ev => ev_runs ev = None) l ->
  Forall (fun x => isBindFn x = false) l /\ Forall quiet l.
Proof.
  intros F. split; eapply List.Forall_impl; try exact F; intros e He; destruct e; try reflexivity; discriminate He.
Qed.

(* the recompute of a lhs-change node: its events *)
Lemma lhs_log fuel s a s' imm :
  PInv s -> inGraph (nd s a) = true -> nkind (nd s a) = KBindLhs a ->
  recomputeNodeSerial fuel [] s a = Ok (s', None, imm) ->
  exists x root l1 l2, log s' = l2 ++ EvBindFn a x root :: l1 ++ log s /\
    Forall (fun ev => ev_runs ev = None) l1 /\ Forall (fun ev => ev_runs ev = None) l2.
Proof.
  intros P Hg Hk H. destruct (rns_lhs fuel s a s' imm Hk H) as (u & Hbind & Htail).
  set (s1 := upd s a (set recomputedAt (fun _ => stabNum s))) in *.
  assert (S1 : soft s s1).
  { apply soft_upd; intros x; [repeat split|]. intros Hk' (A & B & C). repeat split; cbn; try lia; apply B || apply C. }
  pose proof (PInv_of_soft s s1 P S1) as P1.
  assert (Hk1 : nkind (nd s1 a) = KBindLhs a) by (unfold s1; rewrite nd_upd_proj by reflexivity; exact Hk).
  assert (Hg1 : inGraph (nd s1 a) = true) by (unfold s1; rewrite nd_upd_proj by reflexivity; exact Hg).
  destruct (bind_full fuel [] s1 a u None P1 eq_refl Hk1 Hg1 Hbind) as [[Hr|Hr]|(PU & _ & _ & _ & _ & L)]; try discriminate.
  destruct (L eq_refl) as (x & root & l1 & l2 & El & F1 & F2 & _).
  destruct (PInv_heap u PU) as [IU _].
  destruct (tailR_spec u a s' None imm IU Htail) as [_ T]. destruct (tp_shape _ _ _ _ T) as (w & h & Es).
  exists x, root, l1, l2. split; [|auto]. rewrite Es. exact El.
Qed.

(** * 4. The invariant across one recompute *)
Lemma rns_frame fuel s m s' imm : PInv s ->
  recomputeNodeSerial fuel [] s m = Ok (s', None, imm) ->
  forall n, has s n -> has s' n /\ scope (nd s' n) = scope (nd s n).
Proof.
  intros P H n Hn. assert (Hids : ids_below s) by (intros x Hx; apply (io_lt _ (p_ids _ P)); exact Hx).
  destruct (pf_recomputeNodeSerial fuel [] s m s' None imm H) as (_ & _ & _ & _ & _ & Hhas & Hst & _).
  destruct (Hst Hids) as [_ Hstat]. split; [apply Hhas, Hn|apply (Hstat n Hn)].
Qed.

Lemma LO_step fuel s m s' imm evs :
  Tplain s -> PInv s -> LInvC s (Some m) -> inGraph (nd s m) = true -> isLhs (nkind (nd s m)) = false ->
  recomputeNodeSerial fuel [] s m = Ok (s', None, imm) ->
  LO s evs -> exists new, log s' = new ++ log s /\ LO s' (new ++ evs).
Proof.
  intros TP P L Hg Hnl H K.
  pose proof (PInv_BFB s P (lc_shape _ _ L)) as HB. destruct (PInv_heap s P) as [I Hq].
  destruct (rns_stepB fuel s m s' None imm HB (has_inGraph _ _ Hg) I Hnl H) as [_ PP].
  assert (Hm' : has s' m) by (apply (rns_frame fuel s m s' imm P H), has_inGraph, Hg).
  assert (Hnew : exists new, log s' = new ++ log s /\ Forall (fun x => isBindFn x = false) new /\
                              (forall e n, e ∈ new -> ev_node e = Some n -> n = m)).
  { destruct (sq_case _ _ _ _ PP) as [C|R].
    - destruct (cp_kind _ _ _ _ C) as (c0 & _ & _ & El). eexists [_]. split; [exact El|].
      split; [repeat constructor|]. intros e n He Hn. apply elem_of_list_singleton in He. subst e. injection Hn as <-. reflexivity.
    - destruct (rq_log _ _ _ _ R) as (new & El & [->|[->|[o ->]]]).
      + exists []. split; [exact El|]. split; [constructor|]. intros e n He. inversion He.
      + eexists [_]. split; [exact El|]. split; [repeat constructor|].
        intros e n He Hn. apply elem_of_list_singleton in He. subst e. injection Hn as <-. reflexivity.
      + eexists [_]. split; [exact El|]. split; [repeat constructor|].
        intros e n He Hn. apply elem_of_list_singleton in He. subst e. injection Hn as <-. reflexivity. }
  destruct Hnew as (new & El & Hnb & Hof). exists new. split; [exact El|].
  apply (LO_frame s s' evs new P (rns_frame fuel s m s' imm P H) Hnb); [|exact K].
  intros e n He Hn. rewrite (Hof e n He Hn). exact Hm'.
Qed.

Lemma LO_bind fuel s0 base s a s' imm evs :
  Tplain s -> PInv s -> LInvC s (Some a) -> inGraph (nd s a) = true -> nkind (nd s a) = KBindLhs a ->
  recomputeNodeSerial fuel [] s a = Ok (s', None, imm) ->
  OD s (Some a) -> LGx s0 base s -> log s = evs ++ base ->
  LO s evs -> exists new, log s' = new ++ log s /\ LO s' (new ++ evs).
Proof.
  intros TP P L Hg Hk H KD G Elg [EH K].
  destruct (lhs_log fuel s a s' imm P Hg Hk H) as (x0 & r0 & l1 & l2 & El & F1 & F2).
  destruct (runs_none_nobind l1 F1) as [N1 Q1]. destruct (runs_none_nobind l2 F2) as [N2 Q2].
  pose proof (rns_frame fuel s a s' imm P H) as Hfr.
  pose proof (QOrd2_of s0 base s a P KD G Hk) as Q.
  exists (l2 ++ EvBindFn a x0 r0 :: l1). split; [rewrite El, <- app_assoc; reflexivity|].
  split.
  - intros e n He Hn. apply elem_of_app in He as [He|He]; [|apply (Hfr n), (EH e n He Hn)].
    exfalso. apply elem_of_app in He as [He|He].
    + pose proof (proj1 (List.Forall_forall _ _) Q2 e (proj1 (elem_of_list_In _ _) He)) as X. unfold quiet in X. congruence.
    + apply elem_of_cons in He as [->|He]; [discriminate Hn|].
      pose proof (proj1 (List.Forall_forall _ _) Q1 e (proj1 (elem_of_list_In _ _) He)) as X. unfold quiet in X. congruence.
  - intros pre x root a' mid e post n E Hn Hs. rewrite <- app_assoc in E. cbn [app] in E.
    destruct (split_nobind_l l2 _ pre (EvBindFn a' x root) _ E eq_refl N2) as (pre2 & -> & E2).
    destruct pre2 as [|y pre3]; cbn [app] in E2.
    + (* the swap of this recompute *)
      injection E2 as <- <- <- E2.
      destruct (split_quiet_l l1 evs mid e post E2 Q1 ltac:(congruence)) as (mid2 & -> & E3).
      assert (Hh : has s n) by (apply (EH e n); [rewrite E3; apply elem_of_app; right; left|exact Hn]).
      assert (Hs0 : sub s n a) by exact (sub_back_has s s' P Hfr n a Hs Hh).
      destruct (Q evs mid2 e post n Elg E3 Hn Hs0) as [X|X]; [left|right]; apply elem_of_app; right; exact X.
    + injection E2 as <- E2.
      destruct (split_nobind_l l1 evs pre3 (EvBindFn a' x root) _ E2 eq_refl N1) as (pre4 & -> & E3).
      assert (Hh : has s n).
      { apply (EH e n); [|exact Hn]. rewrite E3. apply elem_of_app. right. right. apply elem_of_app. right. left. }
      apply (K pre4 x root a' mid e post n E3 Hn). exact (sub_back_has s s' P Hfr n a' Hs Hh).
Qed.

(** * 5. The chain, the loop, the pass *)
Definition LOx (base : list event) (s : state) : Prop := exists evs, log s = evs ++ base /\ LO s evs.

Lemma chainO2 fuel : forall s0 base s n s' at_,
  Tplain s -> PInv s -> LInvC s (Some n) -> inGraph (nd s n) = true -> OD s (Some n) -> LGx s0 base s -> LOx base s ->
  recomputeChain fuel [] s n = Ok (s', None, at_) -> OD s' None /\ LOx base s'.
Proof.
  induction fuel as [|fuel IH]; intros s0 base s n s' at_ TP P L Hg K G O H; [discriminate|].
  cbn [recomputeChain] in H.
  destruct (recomputeNodeSerial fuel [] s n) as [[[s1 e1] imm]| |] eqn:E1; simpl in H; try discriminate.
  destruct e1 as [e1|]; [destruct imm; injection H as _ ? _; discriminate|].
  destruct (rnsT fuel s n s1 imm TP P L Hg E1) as (TP1 & P1 & L1 & Hk1 & Himm & _).
  destruct O as (evs & Elo & O).
  assert (KO1 : OD s1 imm /\ LOx base s1).
  { destruct (isLhs (nkind (nd s n))) eqn:El.
    - destruct (nkind (nd s n)) eqn:Kn; try discriminate El.
      pose proof (p_kinds _ P n (has_inGraph _ _ Hg)) as Hkk. rewrite Kn in Hkk. destruct Hkk as [-> _].
      destruct (OD_bind fuel s b s1 imm TP P L Hg Kn E1 P1 K) as [-> K1]. split; [exact K1|].
      destruct (LO_bind fuel s0 base s b s1 None evs TP P L Hg Kn E1 K G Elo O) as (new & El1 & O1).
      exists (new ++ evs). split; [rewrite El1, Elo, app_assoc; reflexivity|exact O1].
    - split; [exact (OD_step fuel s n s1 imm TP P L Hg El E1 P1 K)|].
      destruct (LO_step fuel s n s1 imm evs TP P L Hg El E1 O) as (new & El1 & O1).
      exists (new ++ evs). split; [rewrite El1, Elo, app_assoc; reflexivity|exact O1]. }
  destruct KO1 as [K1 O1].
  destruct G as (evg & Elg & G).
  destruct (rnsL fuel s0 s n s1 imm evg TP P L Hg E1 G) as (new & El1 & G1).
  assert (G1x : LGx s0 base s1) by (exists (new ++ evg); split; [rewrite El1, Elg, app_assoc; reflexivity|exact G1]).
  destruct imm as [c|].
  - exact (IH s0 base s1 c s' at_ TP1 P1 L1 (Himm c eq_refl) K1 G1x O1 H).
  - injection H as <- _. auto.
Qed.

Lemma loopO2 fuel : forall s0 base s always s' at_ always',
  Tplain s -> PInv s -> LInvC s None -> OD s None -> LGx s0 base s -> LOx base s ->
  passLoop fuel [] s always = Ok (s', None, at_, always') -> LOx base s'.
Proof.
  induction fuel as [|fuel IH]; intros s0 base s always s' at_ always' TP P L K G O H; [discriminate|].
  cbn [passLoop] in H.
  destruct (Z.leb_spec (Heap.cnt (heap s)) 0) as [Hc|Hc]; [injection H as <- _ _; exact O|].
  destruct (Heap.removeMin (heap s)) as [[n w]|] eqn:Erm; [|discriminate].
  set (s2 := s <| heap := w |>) in *.
  destruct (recomputeChain fuel [] s2 n) as [[[s3 e3] at3]| |] eqn:E3; simpl in H; try discriminate.
  destruct e3 as [e3|]; [injection H as _ ? _ _; discriminate|].
  destruct (pop_LInvC s n w P L Erm) as (L2 & P2 & Hgn). fold s2 in L2, P2.
  pose proof (Tplain_binds s s2 eq_refl TP) as TP2.
  pose proof (OD_pop s n w P L Erm K) as K2. fold s2 in K2.
  assert (G2 : LGx s0 base s2).
  { destruct G as (evs & El & G). exists evs. split; [exact El|]. apply (LG_ext s0 s s2 evs); auto. }
  assert (O2 : LOx base s2).
  { destruct O as (evs & El & [EH KK]). exists evs. split; [exact El|]. split; [exact EH|].
    intros pre x root a mid e post m E Hm Hs. apply (KK pre x root a mid e post m E Hm).
    apply (sub_ext s s2); [reflexivity|exact Hs]. }
  destruct (chainT fuel s2 n s3 at3 TP2 P2 L2 Hgn E3) as (TP3 & P3 & L3 & Hk3 & _).
  pose proof (chainL fuel s0 base s2 n s3 at3 TP2 P2 L2 Hgn E3 G2) as G3.
  destruct (chainO2 fuel s0 base s2 n s3 at3 TP2 P2 L2 Hgn K2 G2 O2 E3) as [K3 O3].
  exact (IH s0 base s3 _ s' at_ always' TP3 P3 L3 K3 G3 O3 H).
Qed.

Theorem pass_order_log s s' :
  Inv s -> ValInvB s -> Tplain s -> stabilize [] false s = Ok (s', None) ->
  forall evs pre x root a mid e post n, log s' = evs ++ log s ->
    evs = pre ++ EvBindFn a x root :: mid ++ e :: post ->
    ev_node e = Some n -> sub s' n a -> EvNec n ∈ mid \/ EvUnnec n ∈ mid.
Proof.
  intros IV V TP H. pose proof (Inv_wfb s IV) as Hwf.
  destruct (wfb_transients _ Hwf) as (Hst & Hsd & Hsr & Hh).
  destruct (stabilize_nil_inv s s' Hst Hsd Hsr H) as (sL & at_ & always & sR & hev & EL & ER & Es & Hhev).
  fold (passStart s) in EL. set (s1 := passStart s) in *.
  pose proof (LInvC_start s IV V) as L1. fold s1 in L1.
  pose proof (Inv_PInv_start s IV) as P1. fold (passStart s) in P1. fold s1 in P1.
  pose proof (Tplain_binds s s1 eq_refl TP) as TP1.
  destruct (loopT _ s1 [] sL at_ always TP1 P1 L1 EL) as (TPL & PL & LL & Hemp & HkL & CL).
  assert (G1 : LGx s1 (log s1) s1) by (exists []; split; [reflexivity|apply LG_start]).
  assert (Hnd0 : forall y, isDone s1 y = false).
  { intros y. unfold isDone. apply Z.eqb_neq. pose proof (stamps_node_true _ _ (vb_stamps _ V y)).
    change (recomputedAt (nd s y) <> stabNum s). lia. }
  assert (O1 : LOx (log s1) s1).
  { exists []. split; [reflexivity|]. split; [intros e n He; inversion He|].
    intros pre x root a mid e post n E. destruct pre; discriminate E. }
  destruct (loopO2 _ s1 (log s1) s1 [] sL at_ always TP1 P1 L1 (OD_start s1 Hnd0) G1 O1 EL) as (evsL & ElL & [_ KL]).
  specialize (Es (proj1 (lc_quiet _ _ LL)) (proj2 (lc_quiet _ _ LL))).
  pose proof (requeue_only_heap _ _ _ ER) as OR.
  assert (Hn : nodes s' = nodes sL) by (rewrite Es; cbn; apply (oh_nodes _ _ OR)).
  pose proof (nodes_eq_nd _ _ Hn) as Hnd.
  assert (Hlog : log s' = (hev ++ [EvPassEnd XOk]) ++ evsL ++ [EvPassStart] ++ log s).
  { rewrite Es. cbn. rewrite (oh_log _ _ OR), ElL. rewrite <- !app_assoc. reflexivity. }
  assert (HNB : Forall (fun x => isBindFn x = false) (hev ++ [EvPassEnd XOk])).
  { apply Forall_app. split; [|constructor; [reflexivity|constructor]].
    eapply List.Forall_impl; [|exact Hhev]. intros e0 He0. destruct e0; try reflexivity; destruct He0. }
  intros evs pre x root a mid e post n E1 E2 Hne Hs.
  assert (Hevs : evs = (hev ++ [EvPassEnd XOk]) ++ evsL ++ [EvPassStart]).
  { apply (app_inv_tail (log s)). rewrite <- E1, Hlog, <- !app_assoc. reflexivity. }
  rewrite Hevs in E2.
  destruct (split_nobind_l _ _ pre (EvBindFn a x root) _ E2 eq_refl HNB) as (pre2 & -> & E3).
  change (pre2 ++ EvBindFn a x root :: mid ++ e :: post) with (pre2 ++ (EvBindFn a x root :: mid) ++ e :: post) in E3.
  rewrite app_assoc in E3.
  destruct (split_quiet_r evsL [EvPassStart] _ e post E3 ltac:(constructor; [reflexivity|constructor]) ltac:(congruence))
    as (post2 & -> & E4).
  rewrite <- app_assoc in E4. cbn [app] in E4.
  apply (KL pre2 x root a mid e post2 n E4 Hne). apply (sub_ext sL s'); [intros y; rewrite Hnd; reflexivity|exact Hs].
Qed.
