(** C13 for passes with writing plans, and for passes in which a function fails, on graphs with
    binds. *)
From incr Require Import Base Heap HeapSpec HeapProofs EngineDefs Engine EngineRun EngineWf Spec EngineLemmas EngineLocal
     EngineInv EngineInvProofs PassInv PassProofs PassPlanProofs PassPlanProofs2 PassBind PassBindProofs PassBindSwap
     PassBindSwapProofs PassBindSwapStep PassBindOps PassBindSwapLog PassBindFault PassBindWrites PassBindSwapHandlers.

Local Arguments valueOf : simpl never.

(** a pass whose plan writes vars runs the handlers of the write-free pass; an observer sees the
    value its node held when the computations ended ([t']), not the deferred write *)
Theorem passW_handlers s p s' :
  Inv s -> ValInvB s -> Tplain s -> writes_only p = true -> plan_ok s p = true ->
  stabilize p false s = Ok (s', None) ->
  exists t' L H,
    stabilize [] false s = Ok (t', None) /\
    rev (log s') = rev (log s) ++ [EvPassStart] ++ L ++ [EvPassEnd XOk] ++ H /\
    Forall passEv L /\ Forall EngineLocal.isHandlerEv H /\ NoDup H /\
    (forall n, EvUpd n ∈ H <-> inGraph (nd s' n) = true /\ changedAt (nd s' n) = stabNum s) /\
    (forall o v, EvObsUpd o v ∈ H <->
       exists n, obs s' !! o = Some n /\ changedAt (nd s' n) = stabNum s /\ v = valueOf t' n).
Proof.
  intros IV V TP Hp Hpok H.
  destruct (pass_writesB s p s' IV V TP Hp Hpok H) as (t' & W & E).
  destruct (passS_handlers s t' IV V TP (we_free _ _ _ _ E)) as (L & Hh & Hlog & HL & HH & Hnd & Hupd & Hobs).
  exists t', L, Hh. split; [exact (we_free _ _ _ _ E)|]. rewrite (we_log _ _ _ _ E).
  split; [exact Hlog|]. split; [exact HL|]. split; [exact HH|]. split; [exact Hnd|].
  assert (Hf : forall n, inGraph (nd s' n) = inGraph (nd t' n) /\ changedAt (nd s' n) = changedAt (nd t' n)).
  { intros n. destruct (we_nodes _ _ _ _ E n) as (a & b & c & ->). split; reflexivity. }
  destruct (we_fields _ _ _ _ E) as (_ & _ & _ & Eo).
  split.
  - intros n. rewrite (Hupd n). destruct (Hf n) as [-> ->]. reflexivity.
  - intros o v. rewrite (Hobs o v), Eo. split; intros (n & A & B & C); exists n; destruct (Hf n) as [_ E2]; rewrite ?E2 in *; auto.
Qed.

(** * a pass in which the function of [x] returns an error: the handlers of what changed before it *)
Lemma HInv_fields s s' :
  nodes s' = nodes s -> stabNum s' = stabNum s -> handlers s' = handlers s -> HInv s -> HInv s'.
Proof.
  intros Hn Hk Hh HI k. pose proof (nodes_eq_nd _ _ Hn) as Hnd. rewrite Hh, Hk, (HI k), !Hnd.
  apply or_iff_compat_l. split; intros (n & A & B & C); exists n; rewrite ?Hnd in *; auto.
Qed.

Lemma chain_failH x fuel : forall s n s' e at_,
  Tplain s -> PInv s -> LInvC s (Some n) -> inGraph (nd s n) = true -> HInv s ->
  recomputeChain fuel (failPlan x) s n = Ok (s', e, at_) -> rejErr e \/ HInv s'.
Proof.
  induction fuel as [|fuel IH]; intros s n s' e at_ TP P L Hg HI H; [discriminate|].
  cbn [recomputeChain] in H.
  destruct (recomputeNodeSerial fuel (failPlan x) s n) as [[[s1 e1] imm]| |] eqn:E1; simpl in H; try discriminate.
  destruct (decide (n = x /\ fnKind (nkind (nd s n)) = true)) as [[-> Hf]|Hno].
  - destruct (failed_stepC fuel x s s1 e1 imm TP P L Hg Hf E1) as (-> & -> & F & _).
    injection H as <- <- <-. right. destruct (ft_fields _ _ _ F) as (_ & Fk & _).
    exact (HInv_fields s s1 (ft_nodes _ _ _ F) Fk (ft_handlers _ _ _ F) HI).
  - change (failPlan x) with (faultPlan x FErr) in E1. rewrite rns_faultPlan_other in E1.
    2:{ intros b K. pose proof (p_kinds _ P n (has_inGraph _ _ Hg)) as Hkk. rewrite K in Hkk. symmetry. apply Hkk. }
    2:{ destruct (decide (n = x)) as [->|]; [right|left; assumption].
        destruct (fnKind (nkind (nd s x))); [exfalso; apply Hno; auto|reflexivity]. }
    pose proof (E_rns _ _ _ _ _ _ E1) as Ge.
    destruct e1 as [r|].
    { left. exists r. split; [|exact Ge]. destruct imm; injection H as _ <- _; reflexivity. }
    destruct (rnsT fuel s n s1 imm TP P L Hg E1) as (TP1 & P1 & L1 & Hk1 & Himm & _).
    pose proof (rnsH fuel s n s1 imm TP P L Hg HI E1) as HI1.
    destruct imm as [c|].
    + exact (IH s1 c s' e at_ TP1 P1 L1 (Himm c eq_refl) HI1 H).
    + injection H as <- <- <-. right. exact HI1.
Qed.

Lemma loop_failH x fuel : forall s always s' e at_ always',
  Tplain s -> PInv s -> LInvC s None -> AW s always -> HInv s ->
  passLoop fuel (failPlan x) s always = Ok (s', e, at_, always') -> rejErr e \/ HInv s'.
Proof.
  induction fuel as [|fuel IH]; intros s always s' e at_ always' TP P L HA HI H; [discriminate|].
  cbn [passLoop] in H.
  destruct (Z.leb_spec (Heap.cnt (heap s)) 0) as [Hc|Hc]; [injection H as <- _ _ _; right; exact HI|].
  destruct (Heap.removeMin (heap s)) as [[n w]|] eqn:Erm; [|discriminate].
  set (s2 := s <| heap := w |>) in *.
  set (always2 := if isAlways (nkind (nd s2 n)) then always ++ [n] else always) in *.
  destruct (recomputeChain fuel (failPlan x) s2 n) as [[[s3 e3] at3]| |] eqn:E3; simpl in H; try discriminate.
  destruct (pop_LInvC s n w P L Erm) as (L2 & P2 & Hgn). fold s2 in L2, P2.
  pose proof (Tplain_binds s s2 eq_refl TP) as TP2.
  assert (HA2 : AW s2 always2).
  { intros y A B C. unfold always2. destruct (isAlways (nkind (nd s2 n))); [apply elem_of_app; left|]; apply (HA y A B C). }
  assert (Hn2 : isAlways (nkind (nd s2 n)) = true -> n ∈ always2).
  { intros E. unfold always2. rewrite E. apply elem_of_app. right. left. }
  assert (HI2 : HInv s2) by exact HI.
  destruct (chain_failH x fuel s2 n s3 e3 at3 TP2 P2 L2 Hgn HI2 E3) as [R|HI3].
  { left. destruct R as (r & -> & Hr). injection H as _ <- _ _. exists r. auto. }
  destruct (chain_failC x fuel s2 n s3 e3 at3 always2 TP2 P2 L2 Hgn HA2 Hn2 E3)
    as [R|(TP3 & P3 & L3 & Hk3 & C3 & HA3 & He3)].
  { left. destruct R as (r & -> & Hr). injection H as _ <- _ _. exists r. auto. }
  destruct e3 as [e3|].
  - injection H as <- <- _ _. right. exact HI3.
  - exact (IH s3 always2 s' e at_ always' TP3 P3 L3 HA3 HI3 H).
Qed.

Theorem passF_handlers s x s' e :
  Inv s -> ValInvB s -> Tplain s -> stabilize (failPlan x) false s = Ok (s', e) -> rejected e = false ->
  exists L H,
    rev (log s') = rev (log s) ++ [EvPassStart] ++ L ++ [EvPassEnd (classify e)] ++ H /\
    Forall passEv L /\ Forall EngineLocal.isHandlerEv H /\ NoDup H /\
    (forall n, EvUpd n ∈ H <-> inGraph (nd s' n) = true /\ changedAt (nd s' n) = stabNum s) /\
    (forall o v, EvObsUpd o v ∈ H <->
       exists n, obs s' !! o = Some n /\ changedAt (nd s' n) = stabNum s /\ v = valueOf s' n).
Proof.
  intros IV V TP H Hrej. pose proof (Inv_wfb s IV) as Hwf. destruct (wfb_transients _ Hwf) as (Hst & Hsd & Hsr & Hh).
  destruct (C13_bracket_and_order (failPlan x) false s s' e Hst) as (L & sL & at_ & always & EL & Hlog & HL & Hobs & Hsort);
    [intros n Hn; apply (io_lt _ (inv_ids _ IV)); exact Hn|reflexivity|rewrite Hsd, Hsr; constructor|exact H|].
  destruct (Hsort ltac:(rewrite Hh; constructor)) as [_ Hnd].
  pose proof EL as EL'. unfold passResult in EL'. cbv zeta in EL'. simpl in EL'.
  set (s1 := EngineLocal.passStart s) in *.
  destruct (pass_start_factsB s IV V TP) as (TP1 & P1 & L1 & HA1). fold s1 in TP1, P1, L1, HA1.
  assert (HI1 : HInv s1).
  { intros k. change (handlers s1) with (handlers s). rewrite Hh. split; [intros Hk; inversion Hk|].
    intros [[_ Hc]|(n & _ & _ & Hc)]; exfalso.
    - pose proof (stamps_node_true _ _ (vb_stamps _ V k)). change (changedAt (nd s k) = stabNum s) in Hc. lia.
    - pose proof (stamps_node_true _ _ (vb_stamps _ V n)). change (changedAt (nd s n) = stabNum s) in Hc. lia. }
  destruct (loop_failH x _ s1 [] sL e at_ always TP1 P1 L1 HA1 HI1 EL') as [(r & -> & [-> | ->])|HIL];
    [discriminate Hrej|discriminate Hrej|].
  destruct (loop_failC x _ s1 [] sL e at_ always TP1 P1 L1 HA1 EL') as [(r & -> & [-> | ->])|(TPL & PL & LL & HkL & CL & HAL & He)];
    [discriminate Hrej|discriminate Hrej|].
  pose proof (PInv_Struct sL PL) as HSL. pose proof (t_obs _ _ _ (p_t _ PL)) as HOL.
  (* the final state has the nodes of the loop's final state *)
  destruct (stabilize_decompose _ _ _ _ _ Hst H) as (sL' & at' & al' & s2 & s3 & EL2 & ER & EP & EE).
  rewrite EL in EL2. injection EL2 as <- <- <-.
  assert (EP' : s3 = s2) by (destruct He as [[-> _]|[-> _]]; cbn in EP; injection EP as <-; reflexivity).
  subst s3. pose proof (requeue_only_heap _ _ _ ER) as OR.
  destruct (stabilizeEnd_quiet s2 _ s' ltac:(rewrite (oh_setDuring _ _ OR); exact (proj1 (lc_quiet _ _ LL)))
              ltac:(rewrite (oh_setRemoved _ _ OR); exact (proj2 (lc_quiet _ _ LL))) EE)
    as (En & _ & _ & _ & _ & _ & Eo & _).
  assert (Hnodes : nodes s' = nodes sL) by (rewrite En; apply (oh_nodes _ _ OR)).
  pose proof (nodes_eq_nd _ _ Hnodes) as Hnd'.
  assert (Hobs' : obs s' = obs sL) by (rewrite Eo; apply (oh_obs _ _ OR)).
  assert (HkLs : stabNum sL = stabNum s) by exact HkL.
  exists L, (map (hev sL) (handlers sL)). split; [exact Hlog|]. split; [exact HL|].
  split; [apply Forall_forall; intros e0 He0; apply elem_of_list_In, elem_of_list_fmap in He0 as (k & -> & _); apply hev_isHandlerEv|].
  split; [apply NoDup_fmap_2; [intros k1 k2; apply hev_inj|exact Hnd]|].
  split.
  - intros n. rewrite Hnd', <- HkLs, elem_of_list_fmap. split.
    + intros (k & Ek & Hk). unfold hev in Ek. destruct (obs sL !! k) as [n'|] eqn:Eo'; [discriminate|].
      injection Ek as ->. apply HIL in Hk as [Hk|(n' & _ & Hin & _)]; [exact Hk|].
      apply (ob_iff _ HOL) in Hin. congruence.
    + intros [Hg Hc]. exists n. split; [|apply HIL; left; auto].
      unfold hev. destruct (obs sL !! n) as [n'|] eqn:Eo'; [|reflexivity].
      exfalso. destruct (ob_ids _ HOL n n' Eo') as (_ & Hno & _). apply Hno. apply has_inGraph, Hg.
  - intros o v. rewrite elem_of_list_fmap. split.
    + intros (k & Ek & Hk). unfold hev in Ek. destruct (obs sL !! k) as [n|] eqn:Eo'; [|discriminate].
      injection Ek as -> ->. exists n. rewrite Hobs'. split; [exact Eo'|].
      rewrite Hnd', <- HkLs, (valueOf_nodes sL s' n Hnodes). split; [|reflexivity].
      apply HIL in Hk as [[Hg _]|(n' & _ & Hin & Hc)].
      * exfalso. destruct (ob_ids _ HOL k n Eo') as (_ & Hno & _). apply Hno. apply has_inGraph, Hg.
      * apply (ob_iff _ HOL) in Hin. congruence.
    + intros (n & Ho & Hc & ->). rewrite Hobs' in Ho. rewrite Hnd', <- HkLs in Hc.
      exists o. split; [unfold hev; rewrite Ho, (valueOf_nodes sL s' n Hnodes); reflexivity|].
      apply HIL. right. exists n. split; [|split; [apply (ob_iff _ HOL), Ho|exact Hc]].
      rewrite (st_nec _ HSL n). unfold isNecessary.
      apply (ob_iff _ HOL) in Ho. destruct (observers (nd sL n)) as [|o' l]; [inversion Ho|].
      rewrite (bool_decide_eq_false_2 (o' :: l = [])) by discriminate. rewrite orb_true_r. reflexivity.
Qed.
