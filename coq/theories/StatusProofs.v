(** Proofs about the status protocol of Status.v: mutual exclusion for every program that
    acquires with a compare-and-swap and releases last, over every number of threads and
    every schedule; and the refutation of the check-then-store shape. *)
From incr Require Import Base Status.

(** ** The shape forced by the two syntactic predicates *)

Record shape (prog : program) (k : nat) (n : Z) : Prop := Shape {
  sh_pre   : forall j a, (j < k)%nat -> prog !! j = Some a -> is_probe a = true;
  sh_acq   : prog !! k = Some (Cas 0 n);
  sh_nz    : n <> 0;
  sh_len   : (S k < length prog)%nat;
  sh_body  : forall j a, (k < j)%nat -> (S j < length prog)%nat -> prog !! j = Some a -> body_action_ok a = true;
  sh_last  : forall j, S j = length prog -> prog !! j = Some (Store 0)
}.

Lemma good_body_spec l :
  good_body l = true ->
  (0 < length l)%nat /\
  (forall j a, (S j < length l)%nat -> l !! j = Some a -> body_action_ok a = true) /\
  (forall j, S j = length l -> l !! j = Some (Store 0)).
Proof.
  induction l as [|a l IH]; [discriminate|].
  destruct l as [|b l].
  - cbn [good_body]. intros Ha. split; [simpl; lia|]. split.
    + intros j c Hj. simpl in Hj. lia.
    + intros j Hj. simpl in Hj. assert (j = 0%nat) as -> by lia. simpl.
      destruct a as [| |v| | |]; try discriminate. destruct v; try discriminate. reflexivity.
  - intros H. change (body_action_ok a && good_body (b :: l) = true) in H.
    apply andb_true_iff in H as [Ha Hl]. destruct (IH Hl) as (Hlen & Hb & Hlast).
    split; [simpl; lia|]. split.
    + intros j c Hj Hc. destruct j as [|j]; simpl in Hc.
      * congruence.
      * apply (Hb j); [simpl in *; lia | exact Hc].
    + intros j Hj. destruct j as [|j]; [simpl in Hj; lia|].
      simpl. apply Hlast. simpl in *. lia.
Qed.

Lemma predicates_shape prog :
  acquires_atomically prog = true -> releases_last prog = true ->
  exists k n, shape prog k n.
Proof.
  induction prog as [|a prog IH]; [discriminate|].
  cbn [acquires_atomically releases_last].
  destruct (is_probe a) eqn:Hp.
  - assert (is_write a = false) as -> by (destruct a; try discriminate; reflexivity).
    intros Ha Hr. destruct (IH Ha Hr) as (k & n & [H1 H2 H3 H4 H5 H6]).
    exists (S k), n. split.
    + intros j c Hj Hc. destruct j as [|j]; simpl in Hc; [congruence|]. apply (H1 j); [lia|exact Hc].
    + exact H2.
    + exact H3.
    + simpl. lia.
    + intros j c Hj Hj' Hc. destruct j as [|j]; [lia|]. simpl in Hc, Hj'.
      apply (H5 j); [lia|lia|exact Hc].
    + intros j Hj. destruct j as [|j]; simpl in Hj; [lia|]. simpl. apply H6. lia.
  - destruct a as [| |v|old new| |]; try discriminate.
    intros Ha Hr. cbn [is_write write_nonzero] in Hr.
    apply andb_true_iff in Ha as [Hold Hnew]. apply andb_true_iff in Hr as [_ Hb].
    apply Z.eqb_eq in Hold. subst old. apply negb_true_iff, Z.eqb_neq in Hnew.
    destruct (good_body_spec _ Hb) as (Hlen & Hbody & Hlast).
    exists 0%nat, new. split.
    + intros j c Hj. lia.
    + reflexivity.
    + exact Hnew.
    + simpl. lia.
    + intros j c Hj Hj' Hc. destruct j as [|j]; [lia|]. simpl in Hc, Hj'.
      apply (Hbody j); [lia|exact Hc].
    + intros j Hj. destruct j as [|j]; simpl in Hj; [lia|]. simpl. apply Hlast. lia.
Qed.

(** ** One step of one thread, classified *)

Definition inside (k : nat) (t : thread) : Prop := (k < pc t)%nat.

Definition tinv (prog : program) (k : nat) (t : thread) : Prop :=
  (pc t < length prog)%nat /\ (wrote t = true <-> inside k t).

Lemma tinv_thread0 prog k n : shape prog k n -> tinv prog k thread0.
Proof.
  intros [H1 H2 H3 H4 H5 H6]. split; simpl; [lia|]. unfold inside; simpl. split; [discriminate|lia].
Qed.

Ltac solve_tinv :=
  split; simpl; [lia|]; unfold inside; simpl;
  repeat match goal with H : wrote _ = _ |- _ => rewrite H end;
  split; intros; solve [lia | reflexivity | discriminate | congruence].

Lemma step_thread_cases prog k n s t s' t' e :
  shape prog k n -> tinv prog k t ->
  step_thread prog s t = (s', t', e) ->
  tinv prog k t' /\
  ( (~ inside k t /\ ~ inside k t' /\ s' = s)
  \/ (~ inside k t /\ inside k t' /\ s = 0 /\ s' <> 0 /\ e <> EvErr)
  \/ (inside k t /\ inside k t' /\ (s <> 0 -> s' <> 0) /\ e <> EvErr)
  \/ (inside k t /\ ~ inside k t' /\ s' = 0 /\ e <> EvErr) )
  /\ (e = EvErr -> s' = s /\ wrote t = false).
Proof.
  intros Hsh [Hpc Hw] Hstep.
  pose proof (tinv_thread0 _ _ _ Hsh) as H0.
  destruct Hsh as [H1 H2 H3 H4 H5 H6].
  assert (Hin0 : ~ inside k thread0) by (unfold inside; simpl; lia).
  unfold step_thread in Hstep.
  destruct (prog !! pc t) as [a|] eqn:Ha; [|apply lookup_ge_None in Ha; lia].
  destruct (lt_eq_lt_dec (pc t) k) as [[Hlt|Heq]|Hgt].
  - (* before the acquire: a probe *)
    pose proof (H1 _ _ Hlt Ha) as Hp.
    assert (Hnw : wrote t = false).
    { destruct (wrote t); [|reflexivity]. exfalso. assert (inside k t) by (apply Hw; reflexivity).
      unfold inside in *; lia. }
    assert (Hnin : ~ inside k t) by (unfold inside; lia).
    unfold advance in Hstep.
    assert (Hne : Nat.eqb (S (pc t)) (length prog) = false) by (apply Nat.eqb_neq; lia).
    destruct a; try discriminate; rewrite ?Hne in Hstep; cbn in Hstep.
    + (* Load *) inversion Hstep; subst; clear Hstep.
      split; [solve_tinv|].
      split; [left; unfold inside; simpl; repeat split; auto; lia|]. discriminate.
    + (* ExitIfBusy *)
      destruct (loc t =? 0); rewrite ?Hne in Hstep; cbn in Hstep; inversion Hstep; subst; clear Hstep.
      * split; [solve_tinv|].
        split; [left; unfold inside; simpl; repeat split; auto; lia|]. discriminate.
      * split; [exact H0|]. split; [left; auto|]. auto.
  - (* the acquire *)
    rewrite Heq, H2 in Ha. inversion Ha; subst a; clear Ha.
    assert (Hnin : ~ inside k t) by (unfold inside; lia).
    assert (Hnw : wrote t = false).
    { destruct (wrote t); [|reflexivity]. exfalso. apply Hnin, Hw. reflexivity. }
    unfold advance in Hstep.
    assert (Hne : Nat.eqb (S (pc t)) (length prog) = false) by (apply Nat.eqb_neq; lia).
    rewrite Hne in Hstep.
    destruct (s =? 0) eqn:Hs; cbn in Hstep; inversion Hstep; subst; clear Hstep.
    + apply Z.eqb_eq in Hs. subst s.
      split; [solve_tinv|].
      split; [|discriminate].
      right; left. unfold inside; simpl. repeat split; auto; try lia; try discriminate.
    + split; [exact H0|]. split; [left; auto|]. auto.
  - (* after the acquire *)
    assert (Hin : inside k t) by (unfold inside; lia).
    assert (Hwt : wrote t = true) by (apply Hw; exact Hin).
    destruct (Nat.eq_dec (S (pc t)) (length prog)) as [Hend|Hnend].
    + (* the release *)
      rewrite (H6 _ Hend) in Ha. inversion Ha; subst a; clear Ha.
      unfold advance in Hstep. rewrite (proj2 (Nat.eqb_eq _ _) Hend) in Hstep.
      cbn in Hstep. inversion Hstep; subst; clear Hstep.
      split; [exact H0|]. split; [|discriminate].
      right; right; right. repeat split; auto; try discriminate.
    + assert (Hlt' : (S (pc t) < length prog)%nat) by lia.
      pose proof (H5 _ _ Hgt Hlt' Ha) as Hok.
      unfold advance in Hstep.
      assert (Hne : Nat.eqb (S (pc t)) (length prog) = false) by (apply Nat.eqb_neq; lia).
      destruct a; try discriminate; rewrite ?Hne in Hstep; cbn in Hstep;
        inversion Hstep; subst; clear Hstep.
      * (* Load *)
        split; [solve_tinv|].
        split; [|discriminate]. right; right; left. unfold inside; simpl. repeat split; auto; try lia; try discriminate.
      * (* Store v, v <> 0 *)
        simpl in Hok. apply negb_true_iff, Z.eqb_neq in Hok.
        split; [solve_tinv|].
        split; [|discriminate]. right; right; left. unfold inside; simpl. repeat split; auto; try lia; try discriminate.
      * (* Work *)
        split; [solve_tinv|].
        split; [|discriminate]. right; right; left. unfold inside; simpl. repeat split; auto; try lia; try discriminate.
      * (* Handlers *)
        split; [solve_tinv|].
        split; [|discriminate]. right; right; left. unfold inside; simpl. repeat split; auto; try lia; try discriminate.
Qed.

(** ** The system invariant *)

Record sinv (prog : program) (k : nat) (st : state) : Prop := SInv {
  si_thr  : forall i, tinv prog k (threads st i);
  si_one  : forall i j, inside k (threads st i) -> inside k (threads st j) -> i = j;
  si_busy : forall i, inside k (threads st i) -> status st <> 0;
  si_free : (forall i, ~ inside k (threads st i)) -> status st = 0
}.

Lemma sinv_init prog k n : shape prog k n -> sinv prog k init.
Proof.
  intros Hsh. split; simpl.
  - intros _. eapply tinv_thread0; eauto.
  - intros i j Hi. unfold inside in Hi; simpl in Hi; lia.
  - intros i Hi. unfold inside in Hi; simpl in Hi; lia.
  - reflexivity.
Qed.

Lemma upd_same ths i t : upd ths i t i = t.
Proof. unfold upd. rewrite Nat.eqb_refl. reflexivity. Qed.

Lemma upd_other ths i t j : j <> i -> upd ths i t j = ths j.
Proof. unfold upd. intros H. apply Nat.eqb_neq in H. rewrite H. reflexivity. Qed.

Lemma step_sinv prog k n m st i :
  shape prog k n -> sinv prog k st -> sinv prog k (fst (step m prog st i)).
Proof.
  intros Hsh [Ht Hone Hbusy Hfree]. unfold step.
  destruct (Nat.ltb i m); [|split; assumption].
  destruct (step_thread prog (status st) (threads st i)) as [[s' t'] e] eqn:Hstep.
  destruct (step_thread_cases _ _ _ _ _ _ _ _ Hsh (Ht i) Hstep) as (Ht' & Hcases & _).
  simpl.
  assert (Hoth : forall j, j <> i -> upd (threads st) i t' j = threads st j)
    by (intros; apply upd_other; assumption).
  assert (Hsame : upd (threads st) i t' i = t') by apply upd_same.
  split; simpl.
  - intros j. destruct (Nat.eq_dec j i) as [->|Hne]; [rewrite Hsame; exact Ht'|rewrite Hoth by exact Hne; apply Ht].
  - intros a b Ha Hb.
    destruct (Nat.eq_dec a i) as [->|Hna]; destruct (Nat.eq_dec b i) as [->|Hnb]; auto.
    + rewrite Hsame in Ha. rewrite Hoth in Hb by exact Hnb. exfalso.
      destruct Hcases as [(_ & Hn & _)|[(Hn & _ & Hs & _)|[(Hi & _)|(_ & Hn & _)]]].
      * exact (Hn Ha).
      * apply (Hbusy b Hb). exact Hs.
      * apply Hnb. apply Hone; assumption.
      * exact (Hn Ha).
    + rewrite Hsame in Hb. rewrite Hoth in Ha by exact Hna. exfalso.
      destruct Hcases as [(_ & Hn & _)|[(Hn & _ & Hs & _)|[(Hi & _)|(_ & Hn & _)]]].
      * exact (Hn Hb).
      * apply (Hbusy a Ha). exact Hs.
      * apply Hna. apply Hone; assumption.
      * exact (Hn Hb).
    + rewrite Hoth in Ha, Hb by assumption. apply Hone; assumption.
  - intros a Ha.
    destruct Hcases as [(Hn & Hn' & ->)|[(Hn & _ & _ & Hs & _)|[(Hi & _ & Hs & _)|(Hi & Hn' & _)]]].
    + destruct (Nat.eq_dec a i) as [->|Hna]; [rewrite Hsame in Ha; contradiction|].
      rewrite Hoth in Ha by exact Hna. apply (Hbusy a Ha).
    + exact Hs.
    + apply Hs. apply (Hbusy i Hi).
    + destruct (Nat.eq_dec a i) as [->|Hna]; [rewrite Hsame in Ha; contradiction|].
      rewrite Hoth in Ha by exact Hna. exfalso. apply Hna. apply Hone; assumption.
  - intros Hnone.
    destruct Hcases as [(Hn & Hn' & ->)|[(_ & Hi' & _)|[(_ & Hi' & _)|(_ & _ & -> & _)]]].
    + apply Hfree. intros j. destruct (Nat.eq_dec j i) as [->|Hne]; [exact Hn|].
      specialize (Hnone j). rewrite Hoth in Hnone by exact Hne. exact Hnone.
    + exfalso. apply (Hnone i). rewrite Hsame. exact Hi'.
    + exfalso. apply (Hnone i). rewrite Hsame. exact Hi'.
    + reflexivity.
Qed.

Lemma exec_from_sinv prog k n m sch st :
  shape prog k n -> sinv prog k st -> sinv prog k (exec_from m prog st sch).
Proof.
  intros Hsh. revert st. induction sch as [|i sch IH]; intros st Hst; simpl; [exact Hst|].
  apply IH. eapply step_sinv; eauto.
Qed.

Lemma exec_sinv prog k n m sch : shape prog k n -> sinv prog k (exec m prog sch).
Proof. intros Hsh. apply (exec_from_sinv _ _ _ _ _ _ Hsh). eapply sinv_init; eauto. Qed.

Lemma at_work_inside prog k n t : shape prog k n -> at_work prog t = true -> inside k t.
Proof.
  intros [H1 H2 H3 H4 H5 H6] Hw. unfold at_work in Hw. unfold inside.
  destruct (prog !! pc t) as [a|] eqn:Ha; [|discriminate].
  destruct (lt_eq_lt_dec (pc t) k) as [[Hlt|Heq]|Hgt]; [| |exact Hgt].
  - pose proof (H1 _ _ Hlt Ha) as Hp. destruct a; discriminate.
  - rewrite Heq, H2 in Ha. inversion Ha; subst a. discriminate.
Qed.

(** ** The theorems *)

(** Mutual exclusion: for every program that acquires with a compare-and-swap and releases
    last, every number of threads [n] and every schedule,
    - at most one thread is inside the node functions / update handlers,
    - at most one thread is between its acquire and its release (has written the word in
      its current call),
    - a thread inside Work/Handlers is such a thread, and the word is non-zero meanwhile,
    - a call that returns ErrAlreadyStabilizing has written nothing, and the step that
      fails leaves the word as it was. *)
Theorem status_mutex : forall prog,
  acquires_atomically prog = true -> releases_last prog = true ->
  forall (n : nat) (sch : schedule),
    let st := exec n prog sch in
    (forall i j, at_work prog (threads st i) = true -> at_work prog (threads st j) = true -> i = j)
    /\ (forall i j, wrote (threads st i) = true -> wrote (threads st j) = true -> i = j)
    /\ (forall i, at_work prog (threads st i) = true -> wrote (threads st i) = true /\ status st <> 0)
    /\ (forall i st', step n prog st i = (st', EvErr) ->
          wrote (threads st i) = false /\ status st' = status st).
Proof.
  intros prog Ha Hr n sch st.
  destruct (predicates_shape _ Ha Hr) as (k & v & Hsh).
  pose proof (exec_sinv prog k v n sch Hsh) as Hinv. fold st in Hinv.
  destruct Hinv as [Ht Hone Hbusy Hfree].
  split; [|split; [|split]].
  - intros i j Hi Hj. apply Hone; eapply at_work_inside; eauto.
  - intros i j Hi Hj. apply Hone; [apply (Ht i)|apply (Ht j)]; assumption.
  - intros i Hi. pose proof (at_work_inside _ _ _ _ Hsh Hi) as Hin. split.
    + apply (Ht i). exact Hin.
    + apply (Hbusy i Hin).
  - intros i st' Hstep. unfold step in Hstep.
    destruct (Nat.ltb i n); [|inversion Hstep].
    destruct (step_thread prog (status st) (threads st i)) as [[s' t'] e] eqn:Hst.
    inversion Hstep; subst; clear Hstep.
    destruct (step_thread_cases _ _ _ _ _ _ _ _ Hsh (Ht i) Hst) as (_ & _ & Herr).
    destruct (Herr eq_refl) as [-> Hw]. simpl. auto.
Qed.

(** the hypotheses are satisfiable, and the protocol is not vacuously safe: a thread does
    get into the node functions *)
Example status_mutex_nonvacuous :
  acquires_atomically cas_protocol = true /\ releases_last cas_protocol = true /\
  acquires_atomically probe_then_cas = true /\ releases_last probe_then_cas = true /\
  in_node_functions cas_protocol (threads (exec 2 cas_protocol [0;1]%nat) 0%nat) = true /\
  snd (step 2 cas_protocol (exec 2 cas_protocol [0]%nat) 1%nat) = EvErr.
Proof. vm_compute. repeat split; reflexivity. Qed.

(** the code as found fails exactly the first predicate *)
Example check_then_store_predicates :
  acquires_atomically check_then_store = false /\ releases_last check_then_store = true.
Proof. vm_compute. split; reflexivity. Qed.

(** Refutation of the check-then-store shape: two callers both load 0, both pass the test,
    both store 1, and both are inside the node functions. *)
Definition refutation_schedule : schedule := [0; 1; 0; 1; 0; 1]%nat.

Theorem check_then_store_refuted :
  exists sch : schedule,
    let st := exec 2 check_then_store sch in
    in_node_functions check_then_store (threads st 0%nat) = true /\
    in_node_functions check_then_store (threads st 1%nat) = true.
Proof. exists refutation_schedule. vm_compute. split; reflexivity. Qed.

(** the bounded search of Status.v finds the same thing on its own *)
Example overlap_search_finds_it :
  overlap_witness check_then_store 6 = Some [0; 0; 1; 0; 1; 1]%nat /\
  overlap_witness cas_protocol 8 = None.
Proof. vm_compute. split; reflexivity. Qed.

(** and the second caller of the refutation schedule is not told anything: neither call
    returns ErrAlreadyStabilizing *)
Example refutation_no_error :
  Forall (fun ie => snd ie <> EvErr) (trace_from 2 check_then_store init refutation_schedule).
Proof. vm_compute. repeat constructor; discriminate. Qed.
