(** Proofs about the status protocol of Status.v: mutual exclusion for every program that
    acquires with a compare-and-swap and releases last, over every number of threads and
    every schedule -- also when every call follows a path of its own (panicking paths) --;
    and the refutation of the check-then-store shape and of handlers run after the release. *)
From incr Require Import Base Status.

(** ** The shape forced by the two syntactic predicates *)

Record shape (prog : program) (k : nat) (n : Z) : Prop := Shape {
  sh_pre   : forall j a, (j < k)%nat -> prog !! j = Some a -> is_probe a = true;
  sh_acq   : prog !! k = Some (Cas 0 n);
  sh_nz    : n <> 0;
  sh_len   : (S k < length prog)%nat;
  sh_body  : forall j a, (k < j)%nat -> (S j < length prog)%nat -> prog !! j = Some a -> body_action_ok a = true;
  sh_last  : forall j, S j = length prog -> prog !! j = Some (Store 0)
}.

Lemma good_body_spec l :
  good_body l = true ->
  (0 < length l)%nat /\
  (forall j a, (S j < length l)%nat -> l !! j = Some a -> body_action_ok a = true) /\
  (forall j, S j = length l -> l !! j = Some (Store 0)).
Proof.
  induction l as [|a l IH]; [discriminate|].
  destruct l as [|b l].
  - cbn [good_body]. intros Ha. split; [simpl; lia|]. split.
    + intros j c Hj. simpl in Hj. lia.
    + intros j Hj. simpl in Hj. assert (j = 0%nat) as -> by lia. simpl.
      destruct a as [| |v| | |]; try discriminate. destruct v; try discriminate. reflexivity.
  - intros H. change (body_action_ok a && good_body (b :: l) = true) in H.
    apply andb_true_iff in H as [Ha Hl]. destruct (IH Hl) as (Hlen & Hb & Hlast).
    split; [simpl; lia|]. split.
    + intros j c Hj Hc. destruct j as [|j]; simpl in Hc.
      * congruence.
      * apply (Hb j); [simpl in *; lia | exact Hc].
    + intros j Hj. destruct j as [|j]; [simpl in Hj; lia|].
      simpl. apply Hlast. simpl in *. lia.
Qed.

Lemma predicates_shape prog :
  acquires_atomically prog = true -> releases_last prog = true ->
  exists n, shape prog (acq_index prog) n.
Proof.
  induction prog as [|a prog IH]; [discriminate|].
  cbn [acquires_atomically releases_last acq_index].
  destruct (is_probe a) eqn:Hp.
  - assert (is_write a = false) as -> by (destruct a; try discriminate; reflexivity).
    intros Ha Hr. destruct (IH Ha Hr) as (n & [H1 H2 H3 H4 H5 H6]).
    set (k := acq_index prog) in *.
    exists n. split.
    + intros j c Hj Hc. destruct j as [|j]; simpl in Hc; [congruence|]. apply (H1 j); [lia|exact Hc].
    + exact H2.
    + exact H3.
    + simpl. lia.
    + intros j c Hj Hj' Hc. destruct j as [|j]; [lia|]. simpl in Hc, Hj'.
      apply (H5 j); [lia|lia|exact Hc].
    + intros j Hj. destruct j as [|j]; simpl in Hj; [lia|]. simpl. apply H6. lia.
  - destruct a as [| |v|old new| |]; try discriminate.
    intros Ha Hr. cbn [is_write write_nonzero] in Hr.
    apply andb_true_iff in Ha as [Hold Hnew]. apply andb_true_iff in Hr as [_ Hb].
    apply Z.eqb_eq in Hold. subst old. apply negb_true_iff, Z.eqb_neq in Hnew.
    destruct (good_body_spec _ Hb) as (Hlen & Hbody & Hlast).
    exists new. split.
    + intros j c Hj. lia.
    + reflexivity.
    + exact Hnew.
    + simpl. lia.
    + intros j c Hj Hj' Hc. destruct j as [|j]; [lia|]. simpl in Hc, Hj'.
      apply (Hbody j); [lia|exact Hc].
    + intros j Hj. destruct j as [|j]; simpl in Hj; [lia|]. simpl. apply Hlast. lia.
Qed.

(** ** One step of one thread, classified *)

Definition inside (k : nat) (t : thread) : Prop := (k < pc t)%nat.

Definition tinv (prog : program) (k : nat) (t : thread) : Prop :=
  (pc t < length prog)%nat /\ (wrote t = true <-> inside k t).

Lemma tinv_thread0 prog k n : shape prog k n -> tinv prog k thread0.
Proof.
  intros [H1 H2 H3 H4 H5 H6]. split; simpl; [lia|]. unfold inside; simpl. split; [discriminate|lia].
Qed.

Ltac solve_tinv :=
  split; simpl; [lia|]; unfold inside; simpl;
  repeat match goal with H : wrote _ = _ |- _ => rewrite H end;
  split; intros; solve [lia | reflexivity | discriminate | congruence].

Lemma step_thread_cases prog k n s t s' t' e :
  shape prog k n -> tinv prog k t ->
  step_thread prog s t = (s', t', e) ->
  tinv prog k t' /\
  ( (~ inside k t /\ ~ inside k t' /\ s' = s)
  \/ (~ inside k t /\ inside k t' /\ s = 0 /\ s' <> 0 /\ e <> EvErr)
  \/ (inside k t /\ inside k t' /\ (s <> 0 -> s' <> 0) /\ e <> EvErr)
  \/ (inside k t /\ ~ inside k t' /\ s' = 0 /\ e <> EvErr) )
  /\ (e = EvErr -> s' = s /\ wrote t = false).
Proof.
  intros Hsh [Hpc Hw] Hstep.
  pose proof (tinv_thread0 _ _ _ Hsh) as H0.
  destruct Hsh as [H1 H2 H3 H4 H5 H6].
  assert (Hin0 : ~ inside k thread0) by (unfold inside; simpl; lia).
  unfold step_thread in Hstep.
  destruct (prog !! pc t) as [a|] eqn:Ha; [|apply lookup_ge_None in Ha; lia].
  destruct (lt_eq_lt_dec (pc t) k) as [[Hlt|Heq]|Hgt].
  - (* before the acquire: a probe *)
    pose proof (H1 _ _ Hlt Ha) as Hp.
    assert (Hnw : wrote t = false).
    { destruct (wrote t); [|reflexivity]. exfalso. assert (inside k t) by (apply Hw; reflexivity).
      unfold inside in *; lia. }
    assert (Hnin : ~ inside k t) by (unfold inside; lia).
    unfold advance in Hstep.
    assert (Hne : Nat.eqb (S (pc t)) (length prog) = false) by (apply Nat.eqb_neq; lia).
    destruct a; try discriminate; rewrite ?Hne in Hstep; cbn in Hstep.
    + (* Load *) inversion Hstep; subst; clear Hstep.
      split; [solve_tinv|].
      split; [left; unfold inside; simpl; repeat split; auto; lia|]. discriminate.
    + (* ExitIfBusy *)
      destruct (loc t =? 0); rewrite ?Hne in Hstep; cbn in Hstep; inversion Hstep; subst; clear Hstep.
      * split; [solve_tinv|].
        split; [left; unfold inside; simpl; repeat split; auto; lia|]. discriminate.
      * split; [exact H0|]. split; [left; auto|]. auto.
  - (* the acquire *)
    rewrite Heq, H2 in Ha. inversion Ha; subst a; clear Ha.
    assert (Hnin : ~ inside k t) by (unfold inside; lia).
    assert (Hnw : wrote t = false).
    { destruct (wrote t); [|reflexivity]. exfalso. apply Hnin, Hw. reflexivity. }
    unfold advance in Hstep.
    assert (Hne : Nat.eqb (S (pc t)) (length prog) = false) by (apply Nat.eqb_neq; lia).
    rewrite Hne in Hstep.
    destruct (s =? 0) eqn:Hs; cbn in Hstep; inversion Hstep; subst; clear Hstep.
    + apply Z.eqb_eq in Hs. subst s.
      split; [solve_tinv|].
      split; [|discriminate].
      right; left. unfold inside; simpl. repeat split; auto; try lia; try discriminate.
    + split; [exact H0|]. split; [left; auto|]. auto.
  - (* after the acquire *)
    assert (Hin : inside k t) by (unfold inside; lia).
    assert (Hwt : wrote t = true) by (apply Hw; exact Hin).
    destruct (Nat.eq_dec (S (pc t)) (length prog)) as [Hend|Hnend].
    + (* the release *)
      rewrite (H6 _ Hend) in Ha. inversion Ha; subst a; clear Ha.
      unfold advance in Hstep. rewrite (proj2 (Nat.eqb_eq _ _) Hend) in Hstep.
      cbn in Hstep. inversion Hstep; subst; clear Hstep.
      split; [exact H0|]. split; [|discriminate].
      right; right; right. repeat split; auto; try discriminate.
    + assert (Hlt' : (S (pc t) < length prog)%nat) by lia.
      pose proof (H5 _ _ Hgt Hlt' Ha) as Hok.
      unfold advance in Hstep.
      assert (Hne : Nat.eqb (S (pc t)) (length prog) = false) by (apply Nat.eqb_neq; lia).
      destruct a; try discriminate; rewrite ?Hne in Hstep; cbn in Hstep;
        inversion Hstep; subst; clear Hstep.
      * (* Load *)
        split; [solve_tinv|].
        split; [|discriminate]. right; right; left. unfold inside; simpl. repeat split; auto; try lia; try discriminate.
      * (* Store v, v <> 0 *)
        simpl in Hok. apply negb_true_iff, Z.eqb_neq in Hok.
        split; [solve_tinv|].
        split; [|discriminate]. right; right; left. unfold inside; simpl. repeat split; auto; try lia; try discriminate.
      * (* Work *)
        split; [solve_tinv|].
        split; [|discriminate]. right; right; left. unfold inside; simpl. repeat split; auto; try lia; try discriminate.
      * (* Handlers *)
        split; [solve_tinv|].
        split; [|discriminate]. right; right; left. unfold inside; simpl. repeat split; auto; try lia; try discriminate.
Qed.

(** ** The system invariant *)

(** thread [i] runs the path [pf i]; its acquire sits at [kof pf i] *)
Definition kof (pf : nat -> program) (i : nat) : nat := acq_index (pf i).

Definition shaped (pf : nat -> program) : Prop := forall i, exists n, shape (pf i) (kof pf i) n.

Record sinv (pf : nat -> program) (st : state) : Prop := SInv {
  si_thr  : forall i, tinv (pf i) (kof pf i) (threads st i);
  si_one  : forall i j, inside (kof pf i) (threads st i) -> inside (kof pf j) (threads st j) -> i = j;
  si_busy : forall i, inside (kof pf i) (threads st i) -> status st <> 0;
  si_free : (forall i, ~ inside (kof pf i) (threads st i)) -> status st = 0
}.

Lemma sinv_init pf : shaped pf -> sinv pf init.
Proof.
  intros Hsh. split; simpl.
  - intros i. destruct (Hsh i) as [n Hn]. eapply tinv_thread0; eauto.
  - intros i j Hi. unfold inside in Hi; simpl in Hi; lia.
  - intros i Hi. unfold inside in Hi; simpl in Hi; lia.
  - reflexivity.
Qed.

Lemma upd_same ths i t : upd ths i t i = t.
Proof. unfold upd. rewrite Nat.eqb_refl. reflexivity. Qed.

Lemma upd_other ths i t j : j <> i -> upd ths i t j = ths j.
Proof. unfold upd. intros H. apply Nat.eqb_neq in H. rewrite H. reflexivity. Qed.

Lemma stepf_sinv pf m st i :
  shaped pf -> sinv pf st -> sinv pf (fst (stepf m pf st i)).
Proof.
  intros Hshaped [Ht Hone Hbusy Hfree]. unfold stepf.
  destruct (Nat.ltb i m); [|split; assumption].
  destruct (step_thread (pf i) (status st) (threads st i)) as [[s' t'] e] eqn:Hstep.
  destruct (Hshaped i) as [n Hsh].
  destruct (step_thread_cases _ _ _ _ _ _ _ _ Hsh (Ht i) Hstep) as (Ht' & Hcases & _).
  simpl.
  assert (Hoth : forall j, j <> i -> upd (threads st) i t' j = threads st j)
    by (intros; apply upd_other; assumption).
  assert (Hsame : upd (threads st) i t' i = t') by apply upd_same.
  split; simpl.
  - intros j. destruct (Nat.eq_dec j i) as [->|Hne]; [rewrite Hsame; exact Ht'|rewrite Hoth by exact Hne; apply Ht].
  - intros a b Ha Hb.
    destruct (Nat.eq_dec a i) as [->|Hna]; destruct (Nat.eq_dec b i) as [->|Hnb]; auto.
    + rewrite Hsame in Ha. rewrite Hoth in Hb by exact Hnb. exfalso.
      destruct Hcases as [(_ & Hn & _)|[(Hn & _ & Hs & _)|[(Hi & _)|(_ & Hn & _)]]].
      * exact (Hn Ha).
      * apply (Hbusy b Hb). exact Hs.
      * apply Hnb. apply Hone; assumption.
      * exact (Hn Ha).
    + rewrite Hsame in Hb. rewrite Hoth in Ha by exact Hna. exfalso.
      destruct Hcases as [(_ & Hn & _)|[(Hn & _ & Hs & _)|[(Hi & _)|(_ & Hn & _)]]].
      * exact (Hn Hb).
      * apply (Hbusy a Ha). exact Hs.
      * apply Hna. apply Hone; assumption.
      * exact (Hn Hb).
    + rewrite Hoth in Ha, Hb by assumption. apply Hone; assumption.
  - intros a Ha.
    destruct Hcases as [(Hn & Hn' & ->)|[(Hn & _ & _ & Hs & _)|[(Hi & _ & Hs & _)|(Hi & Hn' & _)]]].
    + destruct (Nat.eq_dec a i) as [->|Hna]; [rewrite Hsame in Ha; contradiction|].
      rewrite Hoth in Ha by exact Hna. apply (Hbusy a Ha).
    + exact Hs.
    + apply Hs. apply (Hbusy i Hi).
    + destruct (Nat.eq_dec a i) as [->|Hna]; [rewrite Hsame in Ha; contradiction|].
      rewrite Hoth in Ha by exact Hna. exfalso. apply Hna. apply Hone; assumption.
  - intros Hnone.
    destruct Hcases as [(Hn & Hn' & ->)|[(_ & Hi' & _)|[(_ & Hi' & _)|(_ & _ & -> & _)]]].
    + apply Hfree. intros j. destruct (Nat.eq_dec j i) as [->|Hne]; [exact Hn|].
      specialize (Hnone j). rewrite Hoth in Hnone by exact Hne. exact Hnone.
    + exfalso. apply (Hnone i). rewrite Hsame. exact Hi'.
    + exfalso. apply (Hnone i). rewrite Hsame. exact Hi'.
    + reflexivity.
Qed.

Lemma exec_fromf_sinv pf m sch st :
  shaped pf -> sinv pf st -> sinv pf (exec_fromf m pf st sch).
Proof.
  intros Hsh. revert st. induction sch as [|i sch IH]; intros st Hst; simpl; [exact Hst|].
  apply IH. apply stepf_sinv; assumption.
Qed.

Lemma execf_sinv pf m sch : shaped pf -> sinv pf (execf m pf sch).
Proof. intros Hsh. apply exec_fromf_sinv; [exact Hsh|]. apply sinv_init; exact Hsh. Qed.

Lemma at_work_inside prog k n t : shape prog k n -> at_work prog t = true -> inside k t.
Proof.
  intros [H1 H2 H3 H4 H5 H6] Hw. unfold at_work in Hw. unfold inside.
  destruct (prog !! pc t) as [a|] eqn:Ha; [|discriminate].
  destruct (lt_eq_lt_dec (pc t) k) as [[Hlt|Heq]|Hgt]; [| |exact Hgt].
  - pose proof (H1 _ _ Hlt Ha) as Hp. destruct a; discriminate.
  - rewrite Heq, H2 in Ha. inversion Ha; subst a. discriminate.
Qed.

(** ** The theorems *)

(** Mutual exclusion over paths: every thread [i] runs its own path [pf i]; if every path
    acquires with a compare-and-swap and releases last, then for every number of threads
    [n] and every schedule,
    - at most one thread is inside the node functions / handlers,
    - at most one thread is between its acquire and its release (has written the word in
      its current call),
    - a thread inside Work/Handlers is such a thread, and the word is non-zero meanwhile,
    - a call that returns ErrAlreadyStabilizing has written nothing, and the step that
      fails leaves the word as it was. *)
Theorem status_mutex_paths : forall pf : nat -> program,
  (forall i, good_path (pf i) = true) ->
  forall (n : nat) (sch : schedule),
    let st := execf n pf sch in
    (forall i j, at_work (pf i) (threads st i) = true -> at_work (pf j) (threads st j) = true -> i = j)
    /\ (forall i j, wrote (threads st i) = true -> wrote (threads st j) = true -> i = j)
    /\ (forall i, at_work (pf i) (threads st i) = true -> wrote (threads st i) = true /\ status st <> 0)
    /\ (forall i st', stepf n pf st i = (st', EvErr) ->
          wrote (threads st i) = false /\ status st' = status st).
Proof.
  intros pf Hgood n sch st.
  assert (Hshaped : shaped pf).
  { intros i. specialize (Hgood i). unfold good_path in Hgood.
    apply andb_true_iff in Hgood as [Ha Hr]. apply predicates_shape; assumption. }
  pose proof (execf_sinv pf n sch Hshaped) as Hinv. fold st in Hinv.
  destruct Hinv as [Ht Hone Hbusy Hfree].
  split; [|split; [|split]].
  - intros i j Hi Hj. destruct (Hshaped i) as [ni Hsi]. destruct (Hshaped j) as [nj Hsj].
    apply Hone; eapply at_work_inside; eauto.
  - intros i j Hi Hj. apply Hone; [apply (Ht i)|apply (Ht j)]; assumption.
  - intros i Hi. destruct (Hshaped i) as [ni Hsi].
    pose proof (at_work_inside _ _ _ _ Hsi Hi) as Hin. split.
    + apply (Ht i). exact Hin.
    + apply (Hbusy i Hin).
  - intros i st' Hstep. unfold stepf in Hstep.
    destruct (Nat.ltb i n); [|inversion Hstep].
    destruct (step_thread (pf i) (status st) (threads st i)) as [[s' t'] e] eqn:Hst.
    inversion Hstep; subst; clear Hstep.
    destruct (Hshaped i) as [ni Hsi].
    destruct (step_thread_cases _ _ _ _ _ _ _ _ Hsi (Ht i) Hst) as (_ & _ & Herr).
    destruct (Herr eq_refl) as [-> Hw]. simpl. auto.
Qed.

(** the same for a finite set of paths: whatever path each call takes *)
Corollary status_mutex_path_set : forall (paths : list program) (pf : nat -> program),
  forallb good_path paths = true -> (forall i, In (pf i) paths) ->
  forall (n : nat) (sch : schedule),
    let st := execf n pf sch in
    (forall i j, at_work (pf i) (threads st i) = true -> at_work (pf j) (threads st j) = true -> i = j)
    /\ (forall i j, wrote (threads st i) = true -> wrote (threads st j) = true -> i = j)
    /\ (forall i, at_work (pf i) (threads st i) = true -> wrote (threads st i) = true /\ status st <> 0)
    /\ (forall i st', stepf n pf st i = (st', EvErr) ->
          wrote (threads st i) = false /\ status st' = status st).
Proof.
  intros paths pf Hall Hin. apply status_mutex_paths.
  intros i. rewrite forallb_forall in Hall. apply Hall. apply Hin.
Qed.

(** one program for everybody: the statement of the first version of this development *)
Theorem status_mutex : forall prog,
  acquires_atomically prog = true -> releases_last prog = true ->
  forall (n : nat) (sch : schedule),
    let st := exec n prog sch in
    (forall i j, at_work prog (threads st i) = true -> at_work prog (threads st j) = true -> i = j)
    /\ (forall i j, wrote (threads st i) = true -> wrote (threads st j) = true -> i = j)
    /\ (forall i, at_work prog (threads st i) = true -> wrote (threads st i) = true /\ status st <> 0)
    /\ (forall i st', step n prog st i = (st', EvErr) ->
          wrote (threads st i) = false /\ status st' = status st).
Proof.
  intros prog Ha Hr n sch.
  apply (status_mutex_paths (fun _ => prog)).
  intros _. unfold good_path. rewrite Ha, Hr. reflexivity.
Qed.

(** A path on which user code runs after the release is not safe, whatever the other calls
    do: while the first call is in its trailing handlers (the word is 0 again) a second,
    perfectly ordinary call gets in and runs node functions. *)
Definition handlers_after_release : program :=
  [Cas 0 1; Store 1; Work; Handlers; Store 2; Handlers; Store 0; Handlers].

Definition ordinary_path : program :=
  [Cas 0 1; Store 1; Work; Handlers; Store 2; Handlers; Store 0].

Theorem handlers_after_release_refuted :
  good_path ordinary_path = true /\ good_path handlers_after_release = false /\
  exists sch : schedule,
    let pf := fun i => if Nat.eqb i 0 then handlers_after_release else ordinary_path in
    let st := execf 2 pf sch in
    at_work (pf 0%nat) (threads st 0%nat) = true /\
    in_node_functions (pf 1%nat) (threads st 1%nat) = true /\
    status st <> 0.
Proof.
  split; [vm_compute; reflexivity|]. split; [vm_compute; reflexivity|].
  exists [0; 0; 0; 0; 0; 0; 0; 1; 1]%nat. vm_compute. repeat split; discriminate.
Qed.

(** the hypotheses are satisfiable, and the protocol is not vacuously safe: a thread does
    get into the node functions *)
Example status_mutex_nonvacuous :
  acquires_atomically cas_protocol = true /\ releases_last cas_protocol = true /\
  acquires_atomically probe_then_cas = true /\ releases_last probe_then_cas = true /\
  in_node_functions cas_protocol (threads (exec 2 cas_protocol [0;1]%nat) 0%nat) = true /\
  snd (step 2 cas_protocol (exec 2 cas_protocol [0]%nat) 1%nat) = EvErr.
Proof. vm_compute. repeat split; reflexivity. Qed.

(** the code as found fails exactly the first predicate *)
Example check_then_store_predicates :
  acquires_atomically check_then_store = false /\ releases_last check_then_store = true.
Proof. vm_compute. split; reflexivity. Qed.

(** Refutation of the check-then-store shape: two callers both load 0, both pass the test,
    both store 1, and both are inside the node functions. *)
Definition refutation_schedule : schedule := [0; 1; 0; 1; 0; 1]%nat.

Theorem check_then_store_refuted :
  exists sch : schedule,
    let st := exec 2 check_then_store sch in
    in_node_functions check_then_store (threads st 0%nat) = true /\
    in_node_functions check_then_store (threads st 1%nat) = true.
Proof. exists refutation_schedule. vm_compute. split; reflexivity. Qed.

(** the bounded search of Status.v finds the same thing on its own *)
Example overlap_search_finds_it :
  overlap_witness check_then_store 6 = Some [0; 0; 1; 0; 1; 1]%nat /\
  overlap_witness cas_protocol 8 = None.
Proof. vm_compute. split; reflexivity. Qed.

(** and the second caller of the refutation schedule is not told anything: neither call
    returns ErrAlreadyStabilizing *)
Example refutation_no_error :
  Forall (fun ie => snd ie <> EvErr) (trace_from 2 check_then_store init refutation_schedule).
Proof. vm_compute. repeat constructor; discriminate. Qed.
