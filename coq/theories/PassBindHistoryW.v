(** C02 / C03 / C13 along histories that also have passes with writing plans ([histW_run]):
    the statements of PassBindSwapLog.v and PassBindSwapHandlers.v for every plan-free pass. *)
From incr Require Import Base Heap HeapSpec EngineDefs Engine EngineRun EngineWf Spec EngineLemmas EngineLocal
     EngineInv EngineInvProofs PassInv PassProofs PassPlanProofs PassBind PassBindProofs PassBindSwap PassBindSwapProofs
     PassBindSwapStep PassBindOps PassBindSwapLog PassBindFault PassBindWrites PassBindSwapHandlers PassBindSwapOwed.

(** * the same, and C13, for histories that also have passes with writing plans ([histW_run]) *)
Lemma histW_planfree_pass mh os1 os2 sf :
  (0 < mh)%nat -> histW_run (init mh) (os1 ++ Stabilize [] :: os2) = Some sf ->
  exists s1 s2, histW_run (init mh) os1 = Some s1 /\ stabilize [] false s1 = Ok (s2, None) /\
    Inv s1 /\ ValInvB s1 /\ Tplain s1.
Proof.
  intros Hmh H. destruct (histW_split os1 (init mh) _ os2 sf H) as (s1 & H1 & H2).
  assert (TP0 : Tplain (init mh)) by (intros b r Hr; inversion Hr).
  destruct (histW_inv os1 (init mh) s1 (Inv_init mh Hmh) (ValInvB_init mh) TP0 eq_refl H1) as (I1 & V1 & T1 & Ht1).
  simpl in H2. destruct (stabilize [] false s1) as [[s2 [e|]]| |] eqn:Es; try discriminate.
  exists s1, s2. auto.
Qed.

Theorem histW_pass_log mh os1 os2 sf :
  (0 < mh)%nat -> histW_run (init mh) (os1 ++ Stabilize [] :: os2) = Some sf ->
  exists s1 s2, histW_run (init mh) os1 = Some s1 /\ stabilize [] false s1 = Ok (s2, None) /\ PassLog s1 s2.
Proof.
  intros Hmh H. destruct (histW_planfree_pass mh os1 os2 sf Hmh H) as (s1 & s2 & H1 & Hs & I1 & V1 & T1).
  exists s1, s2. split; [exact H1|]. split; [exact Hs|exact (passS_log s1 s2 I1 V1 T1 Hs)].
Qed.

(* C13 *)
Theorem histW_handlers mh os1 os2 sf :
  (0 < mh)%nat -> histW_run (init mh) (os1 ++ Stabilize [] :: os2) = Some sf ->
  exists s1 s2 L H, histW_run (init mh) os1 = Some s1 /\ stabilize [] false s1 = Ok (s2, None) /\
    rev (log s2) = rev (log s1) ++ [EvPassStart] ++ L ++ [EvPassEnd XOk] ++ H /\
    Forall passEv L /\ Forall EngineLocal.isHandlerEv H /\ NoDup H /\
    (forall n, EvUpd n ∈ H <-> inGraph (nd s2 n) = true /\ changedAt (nd s2 n) = stabNum s1) /\
    (forall o v, EvObsUpd o v ∈ H <->
       exists n, obs s2 !! o = Some n /\ changedAt (nd s2 n) = stabNum s1 /\ v = valueOf s2 n).
Proof.
  intros Hmh H. destruct (histW_planfree_pass mh os1 os2 sf Hmh H) as (s1 & s2 & H1 & Hs & I1 & V1 & T1).
  destruct (passS_handlers s1 s2 I1 V1 T1 Hs) as (L & Hh & A).
  exists s1, s2, L, Hh. split; [exact H1|]. split; [exact Hs|exact A].
Qed.

(* C03: whoever ran was owed *)
Theorem histW_ran_was_owed mh os1 os2 sf :
  (0 < mh)%nat -> histW_run (init mh) (os1 ++ Stabilize [] :: os2) = Some sf ->
  exists s1 s2, histW_run (init mh) os1 = Some s1 /\ stabilize [] false s1 = Ok (s2, None) /\
    forall evs n, log s2 = evs ++ log s1 -> inGraph (nd s2 n) = true -> recomputedAt (nd s2 n) = stabNum s1 ->
      n ∈ Heap.ids (heap s1) \/ (exists p, p ∈ parents (nd s2 n) /\ changedAt (nd s2 p) = stabNum s1) \/ EvNec n ∈ evs.
Proof.
  intros Hmh H. destruct (histW_planfree_pass mh os1 os2 sf Hmh H) as (s1 & s2 & H1 & Hs & I1 & V1 & T1).
  exists s1, s2. split; [exact H1|]. split; [exact Hs|exact (passS_ran_was_owed s1 s2 I1 V1 T1 Hs)].
Qed.
