(** C08, the ordering half, under ParallelStabilize: FALSE.  A node of the generation a bind is about
    to replace CAN run, in its current period of necessity, before the swap within the swapping pass
    (for the serial stabilizer this is excluded: PassBindOrder.pass_order).  It is a consequence of
    K10: a node of the running height block that one bind of the block drops and another links again
    still runs with the block it was taken from -- here the node belongs to the generation of a
    third bind [T] that was dropped and linked again with it; [T]'s lhs-change node lost its stamp,
    is queued again BELOW the block, and re-runs its function in the next block: the swap replaces
    the generation whose node has just run. *)
From incr Require Import Base Heap HeapSpec HeapProofs EngineDefs Engine EngineRun EngineWf Spec EngineLemmas EngineLocal
     EngineInv EngineInvProofs PassInv PassProofs PassPlanProofs PassBind PassBindProofs PassBindSwap PassBindSwapProofs
     PassBindSwapStep PassBindOps PassBindSwapLog PassBindOrder ParBind ParBindStep ParBindHistory.
From incr Require Import SpecProofs.

Local Arguments valueOf : simpl never.

(* the log statement: between a function / cutoff event of a node created by bind [a] and a later
   run of [a]'s bind function in the same pass, the node left the graph or came back *)
Definition order_statement_par : Prop :=
  forall s s', Inv s -> ValInvB s -> Tplain s -> parStabilize [] s = Ok (s', None) ->
  forall evs pre x root a mid e post n, log s' = evs ++ log s ->
    evs = pre ++ EvBindFn a x root :: mid ++ e :: post ->
    ev_node e = Some n -> scope (nd s' n) = Some a -> EvNec n ∈ mid \/ EvUnnec n ∈ mid.

Definition k13_ops : list op :=
  [ NewVar 0 false;                                  (* 0: input of A, through node 4 *)
    NewVar 0 false;                                  (* 1: input of B, through node 5 *)
    NewVar 0 false;                                  (* 2: input of T *)
    NewVar 10 false;                                 (* 3: read by T's right-hand side *)
    NewMap (Aff 1 0) 0%nat;                          (* 4 *)
    NewMap (Aff 1 0) 1%nat;                          (* 5 *)
    NewBind [TMap (Aff 1 1) (TOuter 3%nat); TRet 9] 2%nat;     (* T: lhs-change 6 (height 1), main 7; builds node 15 (height 2) *)
    NewBind [TOuter 7%nat; TRet 5] 4%nat;            (* A: lhs-change 8 (height 2), main 9: uses T *)
    NewBind [TRet 6; TOuter 7%nat] 5%nat;            (* B: lhs-change 10 (height 2), main 11: does not *)
    Observe 9%nat; Observe 11%nat;
    ParStabilize [];
    SetVar 3%nat 20;                                 (* node 15 stale: queued at height 2 *)
    SetVar 0%nat 1;                                  (* A drops T *)
    SetVar 1%nat 1 ].                                (* B takes T *)

Definition k13_pre : state := match histP_run (init 64) k13_ops with Some s => s | None => init 0 end.
Definition k13_post : state := match parStabilize [] k13_pre with Ok (s', None) => s' | _ => init 0 end.

(* the events of the pass, most recent first *)
Definition k13_evs : list event :=
  [EvUpd 17; EvUpd 16; EvObsUpd 13 10; EvObsUpd 12 5; EvUpd 11; EvUpd 10; EvUpd 9; EvUpd 8; EvUpd 7; EvUpd 6;
   EvUpd 5; EvUpd 4; EvUpd 1; EvUpd 0; EvPassEnd XOk;
   EvInvoked 17 [20] 10; EvInval 15; EvUnnec 15; EvNec 17;
   EvBindFn 6 0 (Some 17%nat);          (* T's function runs again: the swap ... *)
   EvInvoked 15 [20] 10;                (* ... right after node 15 of its generation ran, *)
   EvInval 14; EvUnnec 14;
   EvNec 3; EvNec 15; EvNec 2; EvNec 6; EvNec 7;    (* in the period that began when B linked T again *)
   EvBindFn 10 1 (Some 7%nat);
   EvUnnec 3; EvUnnec 15; EvUnnec 2; EvUnnec 6; EvUnnec 7; EvNec 16;
   EvBindFn 8 1 (Some 16%nat);
   EvInvoked 5 [1] 1; EvInvoked 4 [1] 1; EvPassStart].

Lemma k13_pre_run : histP_run (init 64) k13_ops = Some k13_pre.
Proof.
  assert (H : match histP_run (init 64) k13_ops with Some _ => true | None => false end = true) by (vm_compute; reflexivity).
  unfold k13_pre. destruct (histP_run (init 64) k13_ops) as [s|]; [reflexivity|discriminate H].
Qed.

Lemma k13_pre_hyps : Inv k13_pre /\ ValInvB k13_pre /\ Tplain k13_pre.
Proof.
  assert (TP0 : Tplain (init 64)) by (intros b r Hr; inversion Hr).
  destruct (histP_inv k13_ops (init 64) k13_pre (Inv_init 64 ltac:(lia)) (ValInvB_init 64) TP0 eq_refl k13_pre_run) as (A & B & C & _). auto.
Qed.

Lemma k13_pass :
  parStabilize [] k13_pre = Ok (k13_post, None) /\ log k13_post = k13_evs ++ log k13_pre /\
  scope (nd k13_post 15%nat) = Some 6%nat /\ consistent k13_post = true.
Proof.
  assert (H : match parStabilize [] k13_pre with
              | Ok (s', None) => bool_decide (log s' = k13_evs ++ log k13_pre) &&
                                 bool_decide (scope (nd s' 15%nat) = Some 6%nat) && consistent s'
              | _ => false end = true) by (vm_compute; reflexivity).
  unfold k13_post. destruct (parStabilize [] k13_pre) as [[s' [e|]]| |]; try discriminate H.
  rewrite !andb_true_iff in H. destruct H as [[H1 H2] H3]. apply bool_decide_eq_true in H1, H2. auto.
Qed.

Theorem order_statement_par_refuted : ~ order_statement_par.
Proof.
  intros S. destruct k13_pre_hyps as (IV & V & TP). destruct k13_pass as (H & El & Hs & _).
  destruct (S k13_pre k13_post IV V TP H k13_evs (take 19 k13_evs) 0 (Some 17%nat) 6%nat [] (EvInvoked 15 [20] 10)
              (drop 21 k13_evs) 15%nat El eq_refl eq_refl Hs) as [Hin|Hin]; inversion Hin.
Qed.

(* the serial stabilizer on the same state: node 15 ran in an EARLIER period of necessity -- A's swap
   took it out of the graph afterwards, B's brought it back -- and not again before T's swap *)
Lemma k13_serial :
  match stabilize [] false k13_pre with
  | Ok (s', None) =>
    bool_decide (take 39 (log s') =
      [EvUpd 17; EvUpd 16; EvObsUpd 13 10; EvObsUpd 12 5; EvUpd 11; EvUpd 10; EvUpd 9; EvUpd 8; EvUpd 7; EvUpd 6;
       EvUpd 5; EvUpd 4; EvUpd 1; EvUpd 0; EvPassEnd XOk;
       EvInvoked 17 [20] 10; EvInval 15; EvUnnec 15; EvNec 17;
       EvBindFn 6 0 (Some 17%nat);
       EvInval 14; EvUnnec 14; EvNec 3; EvNec 15; EvNec 2; EvNec 6; EvNec 7;
       EvBindFn 10 1 (Some 7%nat);
       EvUnnec 3; EvUnnec 15; EvUnnec 2; EvUnnec 6; EvUnnec 7; EvNec 16;
       EvBindFn 8 1 (Some 16%nat);
       EvInvoked 15 [20] 10; EvInvoked 5 [1] 1; EvInvoked 4 [1] 1; EvPassStart]) &&
    bool_decide (drop 39 (log s') = log k13_pre) && consistent s'
  | _ => false
  end = true.
Proof. vm_compute. reflexivity. Qed.
