(** The serial pass on graphs that contain binds, for passes in which no bind function runs
    (properties C01, C02, C03 with binds present).  The development follows PassProofs.v
    section by section (F one call of [recomputeNodeSerial], G one call preserves the loop
    invariant, H chain and loop, I the whole pass, J consequences, K the theorems); what is new:
    - the structure comes from [EngineInv.Inv] ([Inv_Struct], [Inv_BFB]) instead of [BF];
    - bind main nodes run ([rns_stepB]): they copy the value of the bind's right-hand side; they
      have a staler and need heap ordering, scope nodes are held back by the scope-height guards of
      [canRecomputeImmediately] (all of this only makes the pass more conservative);
    - lhs-change nodes never run ([lb_nolhs], from the premise [NoLhs]), hence the value every
      registered bind selects its case with is constant and [matchesOK] is kept ([lb_match]). *)
From stdpp Require Import sorting.
From incr Require Import Base Heap HeapSpec HeapProofs EngineDefs Engine EngineRun EngineWf Spec
     EngineLemmas EngineInv EngineInvProofs PassInv PassProofs PassBind.

Local Ltac inv H := inversion H; subst; clear H.

(** * 0. Structure from [Inv] *)

Lemma Inv_Struct s : Inv s -> Struct s.
Proof.
  intros I. constructor.
  - intros a b. rewrite <- !count_pos_iff. rewrite (inv_edges _ I b a). reflexivity.
  - intros n Hg. destruct (inv_zero _ I n Hg) as (H1 & H2 & _). auto.
  - apply (inv_nec _ I).
  - intros n p Hg. rewrite (inv_par _ I n Hg). reflexivity.
  - intros n p Hg Hp. apply (inv_height _ I n Hg). exact Hp.
  - intros n Hg. apply (inv_height _ I n Hg).
Qed.

Lemma bd_binds s s' b : binds s' = binds s -> bd s' b = bd s b.
Proof. intros H. unfold bd. rewrite H. reflexivity. Qed.

Lemma Inv_BFB s : Inv s -> Shape s -> BFB s.
Proof.
  intros I HSh. constructor.
  - intros n Hn. apply (io_lt _ (inv_ids _ I)). exact Hn.
  - exact HSh.
  - apply (vo_reg _ (inv_valid _ I)).
  - intros b. unfold bd. destruct (binds s !! b) as [r|] eqn:E; [|reflexivity].
    apply (bw_memo _ _ _ (inv_binds _ I b r E)).
  - intros n b K. assert (Hn : has s n).
    { destruct (decide (has s n)) as [|Hno]; [assumption|]. rewrite (not_has_nd _ _ Hno) in K. discriminate. }
    pose proof (inv_kinds _ I n Hn) as Hk. rewrite K in Hk. destruct Hk as [-> [r E]].
    pose proof (inv_binds _ I b r E) as W. split; [reflexivity|]. split; [apply W|].
    rewrite (bw_decl_main _ _ _ W). unfold bd. rewrite E. simpl. destruct (b_rhs r); reflexivity.
  - intros n b K. assert (Hn : has s n).
    { destruct (decide (has s n)) as [|Hno]; [assumption|]. rewrite (not_has_nd _ _ Hno) in K. discriminate. }
    pose proof (inv_kinds _ I n Hn) as Hk. rewrite K in Hk. destruct Hk as [-> [r E]].
    pose proof (inv_binds _ I b r E) as W. split; [reflexivity|].
    rewrite (bw_decl_lhs _ _ _ W). unfold bd. rewrite E. reflexivity.
Qed.

Section BFBfacts.
  Context (s : state) (HB : BFB s).

  Lemma bb_shape_nd n : shape_node n (nd s n) = true.
  Proof.
    destruct (nodes s !! n) as [x|] eqn:E.
    - rewrite (nd_lookup _ _ _ E). apply (bb_shape _ HB n x E).
    - rewrite (nd_missing _ _ E). reflexivity.
  Qed.
  Lemma bb_arity n : arity_ok (nd s n) = true.
  Proof. pose proof (bb_shape_nd n) as H. unfold shape_node in H. rewrite !andb_true_iff in H. tauto. Qed.
  Lemma bb_cutalways n : cutalways_zero (nd s n) = true.
  Proof. pose proof (bb_shape_nd n) as H. unfold shape_node in H. rewrite !andb_true_iff in H. tauto. Qed.
  Lemma bb_always_lt n : always_lt n (nd s n) = true.
  Proof. pose proof (bb_shape_nd n) as H. unfold shape_node in H. rewrite !andb_true_iff in H. tauto. Qed.

  Lemma bb_rhs_decl n b r : nkind (nd s n) = KBindMain b -> b_rhs (bd s b) = Some r -> r ∈ decl (nd s n).
  Proof. intros K Hr. destruct (bb_main _ HB n b K) as (_ & _ & ->). rewrite Hr. right. left. Qed.
End BFBfacts.

Lemma BFB_nodes s s' : nodes s' = nodes s -> binds s' = binds s -> next s' = next s -> BFB s -> BFB s'.
Proof.
  intros Hn Hb Hx HB. pose proof (nodes_eq_nd _ _ Hn) as Hnd.
  assert (Hbd : forall b, bd s' b = bd s b) by (intros; apply bd_binds, Hb).
  constructor.
  - intros n. rewrite Hn, Hx. apply (bb_lt _ HB).
  - intros n x. rewrite Hn. apply (bb_shape _ HB).
  - intros n. rewrite Hnd. apply (bb_valid _ HB).
  - intros b. rewrite Hbd. apply (bb_memo _ HB).
  - intros n b. rewrite !Hnd, Hbd. apply (bb_main _ HB).
  - intros n b. rewrite !Hnd, Hbd. apply (bb_lhs _ HB).
Qed.

(** * C'. Values *)
Lemma consistent_valB_ext s s' n v :
  BFB s -> binds s' = binds s ->
  nkind (nd s' n) = nkind (nd s n) -> decl (nd s' n) = decl (nd s n) ->
  (forall p, p ∈ decl (nd s n) -> valueOf s' p = valueOf s p) ->
  consistent_valB s' n v = consistent_valB s n v.
Proof.
  intros HB Hb Ek Ed Hv. unfold consistent_valB. rewrite Ek, Ed.
  destruct (nkind (nd s n)) eqn:K; try reflexivity.
  - destruct (decl (nd s n)) as [|a [|b l]]; try reflexivity. rewrite Hv by left. reflexivity.
  - destruct (decl (nd s n)) as [|a [|b [|c l]]]; try reflexivity.
    rewrite (Hv a), (Hv b) by (repeat constructor). reflexivity.
  - f_equal. f_equal. apply map_ext_in. intros p Hp. apply Hv, elem_of_list_In, Hp.
  - destruct (decl (nd s n)) as [|a [|b l]]; try reflexivity. rewrite Hv by left. reflexivity.
  - rewrite (bd_binds s s' b Hb). destruct (b_rhs (bd s b)) as [r|] eqn:Er; [|reflexivity].
    rewrite (Hv r); [reflexivity|]. apply (bb_rhs_decl s HB n b r K Er).
Qed.

Lemma node_consistent_split s n :
  BFB s -> node_consistent s n =
    consistent_valB s n (value (nd s n)) &&
    match nkind (nd s n) with KBindMain b => matchesOK s b | _ => true end.
Proof.
  intros HB. unfold node_consistent, consistent_valB, matchesOK.
  destruct (nkind (nd s n)); rewrite ?andb_true_r; try reflexivity.
  rewrite (bb_memo _ HB b). reflexivity.
Qed.

Lemma matches_ext fuel : forall s s' sc x e r,
  binds s' = binds s ->
  (forall n, nkind (nd s' n) = nkind (nd s n) /\ decl (nd s' n) = decl (nd s n) /\ scope (nd s' n) = scope (nd s n)) ->
  (forall n, nkind (nd s n) = KReturn -> value (nd s' n) = value (nd s n)) ->
  matches fuel s' sc x e r = matches fuel s sc x e r.
Proof.
  induction fuel as [|fuel IH]; intros s s' sc x e r Hb Hk Hv; [reflexivity|].
  destruct r as [m|]; destruct e; simpl; try reflexivity;
    destruct (Hk m) as (Ek & Ed & Es); rewrite Ek, ?Ed, ?Es.
  - destruct (decide (nkind (nd s m) = KReturn)) as [K|K].
    + rewrite (Hv m K). reflexivity.
    + rewrite (bool_decide_eq_false_2 _ K). reflexivity.
  - destruct (decide (nkind (nd s m) = KReturn)) as [K|K].
    + rewrite (Hv m K). reflexivity.
    + rewrite (bool_decide_eq_false_2 _ K). reflexivity.
  - destruct (decl (nd s m)) as [|a [|]]; try reflexivity. rewrite (IH s s') by assumption. reflexivity.
  - destruct (decl (nd s m)) as [|a1 [|a2 [|]]]; try reflexivity. rewrite !(IH s s') by assumption. reflexivity.
  - destruct (decl (nd s m)) as [|a [|]]; try reflexivity. rewrite (IH s s') by assumption. reflexivity.
  - destruct (nkind (nd s m)); try reflexivity. rewrite (bd_binds s s' _ Hb), (IH s s') by assumption. reflexivity.
Qed.

Lemma matchesOK_ext s s' b :
  binds s' = binds s -> next s' = next s ->
  (forall n, nkind (nd s' n) = nkind (nd s n) /\ decl (nd s' n) = decl (nd s n) /\ scope (nd s' n) = scope (nd s n)) ->
  (forall n, nkind (nd s n) = KReturn -> value (nd s' n) = value (nd s n)) ->
  valueOf s' (b_lhs (bd s b)) = valueOf s (b_lhs (bd s b)) ->
  matchesOK s' b = matchesOK s b.
Proof.
  intros Hb Hn Hk Hv Hl. unfold matchesOK. rewrite (bd_binds s s' b Hb), Hn, Hl. apply matches_ext; assumption.
Qed.

Lemma consistent_valB_nodes s s' n v :
  nodes s' = nodes s -> binds s' = binds s -> consistent_valB s' n v = consistent_valB s n v.
Proof.
  intros Hn Hb. unfold consistent_valB. rewrite (nodes_eq_nd _ _ Hn n).
  destruct (nkind (nd s n)); try reflexivity.
  - destruct (decl (nd s n)) as [|a [|]]; try reflexivity. rewrite (valueOf_nodes s s' a Hn). reflexivity.
  - destruct (decl (nd s n)) as [|a [|b [|]]]; try reflexivity.
    rewrite (valueOf_nodes s s' a Hn), (valueOf_nodes s s' b Hn). reflexivity.
  - f_equal. f_equal. apply map_ext. intros p. apply valueOf_nodes, Hn.
  - destruct (decl (nd s n)) as [|a [|]]; try reflexivity. rewrite (valueOf_nodes s s' a Hn). reflexivity.
  - rewrite (bd_binds s s' b Hb). destruct (b_rhs (bd s b)); [rewrite (valueOf_nodes s s' _ Hn)|]; reflexivity.
Qed.

Lemma matchesOK_nodes s s' b :
  nodes s' = nodes s -> binds s' = binds s -> next s' = next s -> matchesOK s' b = matchesOK s b.
Proof.
  intros Hn Hb Hx. pose proof (nodes_eq_nd _ _ Hn) as Hnd. apply matchesOK_ext; try assumption.
  - intros n. rewrite Hnd. auto.
  - intros n _. rewrite Hnd. reflexivity.
  - apply valueOf_nodes, Hn.
Qed.

(** * F'. What one call of [recomputeNodeSerial] does *)
Record runPostB (s : state) (m : nid) (s' : state) (imm : option nid) : Prop := {
  rq_changed : changedAt (nd s' m) = stabNum s;
  rq_val : consistent_valB s m (value (nd s' m)) = true;
  rq_ret : nkind (nd s m) = KReturn -> value (nd s' m) = value (nd s m);
  rq_log : exists evs, log s' = evs ++ log s /\ new_events s m (value (nd s' m)) evs;
  rq_imm : forall c, imm = Some c -> c ∉ Heap.ids (heap s') /\ canRecomputeImmediately s' m c = true;
  rq_mono : forall x, x ∈ Heap.ids (heap s) -> x ∈ Heap.ids (heap s');
  rq_mem : forall x, (x ∈ Heap.ids (heap s') \/ imm = Some x) <->
                     (x ∈ Heap.ids (heap s) \/ (x ∈ children (nd s m) /\ owedC s' x = true));
  rq_old : forall x, x ∈ Heap.ids (heap s) -> Heap.hinOf (heap s') x = Heap.hinOf (heap s) x;
  rq_new : forall x, x ∈ Heap.ids (heap s') -> x ∉ Heap.ids (heap s) ->
                     Heap.hinOf (heap s') x = height (nd s x)
}.

Record stepPostB (s : state) (m : nid) (s' : state) (imm : option nid) : Prop := {
  sq_other : forall n, n <> m -> nd s' n = nd s n;
  sq_self : nd s' m = stamp (stabNum s) (value (nd s' m)) (changedAt (nd s' m)) (nd s m);
  sq_has : forall n, has s' n <-> has s n;
  sq_fields : same_fields s s';
  sq_hinv : HeapSpec.inv (heap s');
  sq_cur : cursor_ok (heap s) -> cursor_ok (heap s');
  sq_case : cutPost s m s' imm \/ runPostB s m s' imm
}.

Lemma run_postB s m v evs s3 s' e imm :
  has s m -> HeapSpec.inv (heap s) -> pre3 s m v evs s3 ->
  consistent_valB s m v = true -> (nkind (nd s m) = KReturn -> v = value (nd s m)) ->
  new_events s m v evs ->
  tailR s3 m = Ok (s', e, imm) ->
  e = None /\ stepPostB s m s' imm.
Proof.
  intros Hm I P3 Hv Hret Hev H. destruct P3 as [Po Ps Ph Pf Pheap Plog].
  assert (Hm3 : has s3 m) by (apply Ph; exact Hm).
  destruct (tailR_spec s3 m s' e imm ltac:(rewrite Pheap; exact I) H) as [-> T]. split; [reflexivity|].
  destruct T as [(w & h & Es) Thinv Tcur Timm Tmono Tmem Told Tnew].
  assert (Hnd : forall n, nd s' n = nd (upd s3 m (set changedAt (fun _ => stabNum s3))) n).
  { intros n. rewrite Es. reflexivity. }
  assert (Hk3 : stabNum s3 = stabNum s) by apply Pf.
  assert (Hself : nd s' m = nd s m <| recomputedAt := stabNum s |> <| value := v |> <| changedAt := stabNum s |>).
  { rewrite Hnd, nd_upd_eq by exact Hm3. rewrite Ps, Hk3. reflexivity. }
  assert (Hother : forall n, n <> m -> nd s' n = nd s n).
  { intros n Hn. rewrite Hnd, nd_upd_ne by exact Hn. apply Po, Hn. }
  rewrite Pheap in *.
  assert (Hch : children (nd s3 m) = children (nd s m)) by (rewrite Ps; reflexivity).
  assert (Hhe : forall x, height (nd s3 x) = height (nd s x)).
  { intros x. destruct (decide (x = m)) as [->|Hx]; [rewrite Ps; reflexivity|rewrite Po by exact Hx; reflexivity]. }
  constructor.
  - exact Hother.
  - rewrite Hself. reflexivity.
  - intros n. rewrite Es. change (has (upd s3 m (set changedAt (fun _ => stabNum s3))) n <-> has s n).
    rewrite has_upd. apply Ph.
  - rewrite Es. eapply same_fields_trans; [exact Pf|]. repeat split.
  - exact Thinv.
  - exact Tcur.
  - right. constructor.
    + rewrite Hself. reflexivity.
    + rewrite Hself. exact Hv.
    + rewrite Hself. exact Hret.
    + exists evs. split; [rewrite Es; exact Plog|]. rewrite Hself. exact Hev.
    + exact Timm.
    + exact Tmono.
    + intros x. rewrite (Tmem x), Hch. reflexivity.
    + exact Told.
    + intros x Hx Hnx. rewrite Tnew by assumption. apply Hhe.
Qed.

Local Arguments valueOf : simpl never.

Local Arguments valueOf : simpl never.


Lemma rns_stepB fuel s m s' e imm :
  BFB s -> has s m -> HeapSpec.inv (heap s) -> isLhs (nkind (nd s m)) = false ->
  recomputeNodeSerial fuel [] s m = Ok (s', e, imm) ->
  e = None /\ stepPostB s m s' imm.
Proof.
  intros HBF Hm I Hnl H. rewrite rns_unfold in H. cbv zeta in H.
  set (s1 := upd s m (set recomputedAt (fun _ => stabNum s))) in *.
  assert (Hm1 : has s1 m) by (apply has_upd; exact Hm).
  assert (Hnd1 : nd s1 m = nd s m <| recomputedAt := stabNum s |>) by (apply nd_upd_eq; exact Hm).
  assert (Hk1 : nkind (nd s1 m) = nkind (nd s m)) by (rewrite Hnd1; reflexivity).
  assert (Hd1 : decl (nd s1 m) = decl (nd s m)) by (rewrite Hnd1; reflexivity).
  assert (Hv1 : forall p, valueOf s1 p = valueOf s p).
  { intros p. apply valueOf_stamped. intros x. repeat split. }
  pose proof (bb_arity s HBF m) as Har.
  (* the three shapes of the state handed to the tail *)
  assert (P1 : forall evs, pre3 s m (value (nd s m)) evs (s1 <| log := evs ++ log s |>)).
  { intros evs. constructor.
    - intros n Hn. change (nd s1 n = nd s n). apply nd_upd_ne, Hn.
    - change (nd s1 m = nd s m <| recomputedAt := stabNum s |> <| value := value (nd s m) |>).
      rewrite Hnd1. destruct (nd s m); reflexivity.
    - intros n. change (has s1 n <-> has s n). apply has_upd.
    - repeat split.
    - reflexivity.
    - reflexivity. }
  assert (P2 : forall evs v, pre3 s m v evs ((upd s1 m (set value (fun _ => v))) <| log := evs ++ log s |>)).
  { intros evs v. constructor.
    - intros n Hn. change (nd (upd s1 m (set value (fun _ => v))) n = nd s n).
      rewrite nd_upd_ne by exact Hn. apply nd_upd_ne, Hn.
    - change (nd (upd s1 m (set value (fun _ => v))) m = nd s m <| recomputedAt := stabNum s |> <| value := v |>).
      rewrite nd_upd_eq by exact Hm1. rewrite Hnd1. reflexivity.
    - intros n. change (has (upd s1 m (set value (fun _ => v))) n <-> has s n). rewrite has_upd. apply has_upd.
    - repeat split.
    - reflexivity.
    - reflexivity. }
  assert (E1 : s1 = s1 <| log := [] ++ log s |>) by (unfold s1, upd; destruct s; reflexivity).
  destruct (nkind (nd s m)) eqn:K; try discriminate Hnl.
  - (* Var *)
    assert (Hs : stabilizeNode fuel [] s1 m = ok s1).
    { unfold stabilizeNode. cbv zeta. rewrite Hk1. rewrite Hnd1. cbn.
      destruct (pending (nd s m)); [|reflexivity]. change (stabNum s1) with (stabNum s).
      rewrite Z.eqb_refl. reflexivity. }
    rewrite Hs in H. cbn in H. rewrite E1 in H.
    eapply run_postB; eauto.
    + unfold consistent_valB. rewrite K. reflexivity.
    + left. reflexivity.
  - (* Return *)
    assert (Hs : stabilizeNode fuel [] s1 m = ok s1) by (unfold stabilizeNode; cbv zeta; rewrite Hk1; reflexivity).
    rewrite Hs in H. cbn in H. rewrite E1 in H.
    eapply run_postB; eauto.
    + unfold consistent_valB. rewrite K. reflexivity.
    + left. reflexivity.
  - (* Map *)
    unfold arity_ok in Har. rewrite K in Har. apply bool_decide_eq_true in Har.
    destruct (decl (nd s m)) as [|a [|]] eqn:D; try discriminate Har.
    assert (Hs : stabilizeNode fuel [] s1 m =
                 ok (emit (EvInvoked m [valueOf s a] (ap1 f (valueOf s a)))
                          (upd s1 m (set value (fun _ => ap1 f (valueOf s a)))))).
    { unfold stabilizeNode. cbv zeta. rewrite Hk1, Hd1, ?D. cbn. rewrite Hv1. reflexivity. }
    rewrite Hs in H. cbn in H.
    eapply (run_postB s m (ap1 f (valueOf s a)) [EvInvoked m [valueOf s a] (ap1 f (valueOf s a))]);
      [exact Hm|exact I|apply P2| |intros E0; congruence| |exact H].
    + unfold consistent_valB. rewrite K, D. apply Z.eqb_refl.
    + right. left. rewrite D. reflexivity.
  - (* Map2 *)
    unfold arity_ok in Har. rewrite K in Har. apply bool_decide_eq_true in Har.
    destruct (decl (nd s m)) as [|a [|b [|]]] eqn:D; try discriminate Har.
    assert (Hs : stabilizeNode fuel [] s1 m =
                 ok (emit (EvInvoked m [valueOf s a; valueOf s b] (ap2 f (valueOf s a) (valueOf s b)))
                          (upd s1 m (set value (fun _ => ap2 f (valueOf s a) (valueOf s b)))))).
    { unfold stabilizeNode. cbv zeta. rewrite Hk1, Hd1, ?D. cbn. rewrite !Hv1. reflexivity. }
    rewrite Hs in H. cbn in H.
    eapply (run_postB s m _ [EvInvoked m [valueOf s a; valueOf s b] (ap2 f (valueOf s a) (valueOf s b))]);
      [exact Hm|exact I|apply P2| |intros E0; congruence| |exact H].
    + unfold consistent_valB. rewrite K, D. apply Z.eqb_refl.
    + right. left. rewrite D. reflexivity.
  - (* MapN *)
    assert (Hs : stabilizeNode fuel [] s1 m =
                 ok (emit (EvInvoked m (map (valueOf s) (decl (nd s m))) (apN f (map (valueOf s) (decl (nd s m)))))
                          (upd s1 m (set value (fun _ => apN f (map (valueOf s) (decl (nd s m)))))))).
    { unfold stabilizeNode. cbv zeta. rewrite Hk1, Hd1. cbn.
      rewrite (map_ext _ _ Hv1). reflexivity. }
    rewrite Hs in H. cbn in H.
    eapply (run_postB s m _ [EvInvoked m (map (valueOf s) (decl (nd s m))) (apN f (map (valueOf s) (decl (nd s m))))]);
      [exact Hm|exact I|apply P2| |intros E0; congruence| |exact H].
    + unfold consistent_valB. rewrite K. apply Z.eqb_refl.
    + right. left. reflexivity.
  - (* Cutoff *)
    unfold arity_ok in Har. rewrite K in Har. apply bool_decide_eq_true in Har.
    destruct (decl (nd s m)) as [|a [|]] eqn:D; try discriminate Har. cbn [hd] in H.
    rewrite Hv1 in H.
    destruct (apCut c (value (nd s m)) (valueOf s a)) eqn:Ecut.
    + injection H as <- <- <-. split; [reflexivity|]. constructor.
      * intros n Hn. change (nd s1 n = nd s n). apply nd_upd_ne, Hn.
      * change (nd s1 m = stamp (stabNum s) (value (nd s1 m)) (changedAt (nd s1 m)) (nd s m)).
        rewrite Hnd1. unfold stamp. destruct (nd s m); reflexivity.
      * intros n. change (has s1 n <-> has s n). apply has_upd.
      * repeat split.
      * exact I.
      * auto.
      * left. constructor; try reflexivity.
        -- exists c. rewrite ?D. cbn [hd]. split; [exact K|]. split; [exact Ecut|]. reflexivity.
        -- change (value (nd s1 m) = value (nd s m)). rewrite Hnd1. reflexivity.
        -- change (changedAt (nd s1 m) = changedAt (nd s m)). rewrite Hnd1. reflexivity.
    + set (s2 := emit (EvCutoff m (value (nd s m)) (valueOf s a) false) s1) in *.
      assert (Hs : stabilizeNode fuel [] s2 m = ok (upd s2 m (set value (fun _ => valueOf s a)))).
      { unfold stabilizeNode. cbv zeta. change (nd s2 m) with (nd s1 m). rewrite Hk1, Hd1, ?D. cbn [hd].
        rewrite (valueOf_ext s1 s2 a) by (intros; repeat split). rewrite Hv1. reflexivity. }
      rewrite Hs in H. cbn in H.
      eapply (run_postB s m (valueOf s a) [EvCutoff m (value (nd s m)) (valueOf s a) false]);
        [exact Hm|exact I|apply P2| |intros E0; congruence| |exact H].
      * unfold consistent_valB. rewrite K, D. destruct c; try apply Z.eqb_refl; try reflexivity.
        discriminate Ecut.
      * right. right. eauto.
  - (* Always *)
    assert (Hs : stabilizeNode fuel [] s1 m = ok s1) by (unfold stabilizeNode; cbv zeta; rewrite Hk1; reflexivity).
    rewrite Hs in H. cbn in H. rewrite E1 in H.
    eapply run_postB; eauto.
    + unfold consistent_valB. rewrite K. reflexivity.
    + left. reflexivity.
  - (* bind main: copies the value of the right-hand side *)
    set (v := match b_rhs (bd s b) with Some r => valueOf s r | None => 0 end).
    assert (Hs : stabilizeNode fuel [] s1 m = ok (upd s1 m (set value (fun _ => v)))).
    { unfold stabilizeNode. cbv zeta. rewrite Hk1. change (bd s1 b) with (bd s b). unfold v.
      destruct (b_rhs (bd s b)); [rewrite Hv1|]; reflexivity. }
    rewrite Hs in H. cbn in H.
    assert (E2 : upd s1 m (set value (fun _ => v)) = (upd s1 m (set value (fun _ => v))) <| log := [] ++ log s |>)
      by (unfold s1, upd; destruct s; reflexivity).
    rewrite E2 in H.
    eapply (run_postB s m v []); [exact Hm|exact I|apply P2| |intros E0; congruence| |exact H].
    + unfold consistent_valB. rewrite K. apply Z.eqb_refl.
    + left. reflexivity.
Qed.

Lemma stepPostB_sframe s m s' imm : stepPostB s m s' imm -> sframe s s'.
Proof.
  intros P. destruct (sq_fields _ _ _ _ P) as (? & ? & ? & ? & ? & ? & ? & ? & ? & ? & ? & ?).
  constructor; try assumption; [|apply P].
  intros n. destruct (decide (n = m)) as [->|Hn].
  - rewrite (sq_self _ _ _ _ P). unfold stamp, skel. destruct (nd s m); reflexivity.
  - rewrite (sq_other _ _ _ _ P n Hn). reflexivity.
Qed.

Section Step.
  Context (h0 : list nid) (base : list event) (s : state) (m : nid) (s' : state) (imm : option nid).
  Context (HS : Struct s) (L : LInvB h0 base s (Some m)) (P : stepPostB s m s' imm).

  Let k := stabNum s.
  Let I : HeapSpec.inv (heap s) := proj1 (lb_heap _ _ _ _ L).
  Let I' : HeapSpec.inv (heap s') := sq_hinv _ _ _ _ P.
  Let F : sframe s s' := stepPostB_sframe _ _ _ _ P.
  Let HBF : BFB s := lb_bf _ _ _ _ L.

  Local Lemma Hk' : stabNum s' = k.
  Proof. apply (sf_stabNum _ _ F). Qed.

  Local Lemma HmW : inW s (Some m) m = true.
  Proof. apply inW_iff; [exact I|]. right; reflexivity. Qed.

  Local Lemma Hmreg : inGraph (nd s m) = true.
  Proof. apply (lb_orig _ _ _ _ L m). left. exact HmW. Qed.

  Local Lemma Hmnd : isDone s m = false.
  Proof. apply (lb_B _ _ _ _ L m m HmW). apply rtc_refl. Qed.

  Local Lemma Hst n : 0 <= changedAt (nd s n) <= k /\ 0 <= recomputedAt (nd s n) <= k /\
                      (changedAt (nd s n) = k -> recomputedAt (nd s n) = k).
  Proof. apply stamps_node_false, (lb_stamps _ _ _ _ L). Qed.

  (* a node that has not run in this pass has not changed in it *)
  Local Lemma Hm_clt : changedAt (nd s m) < k.
  Proof.
    pose proof (Hst m) as (H1 & H2 & H3). pose proof Hmnd as Hd. unfold isDone in Hd. apply Z.eqb_neq in Hd. fold k in Hd.
    destruct (Z.eq_dec (changedAt (nd s m)) k) as [E|E]; [exfalso; apply Hd, H3, E|lia].
  Qed.

  Local Lemma Hm_lt : recomputedAt (nd s m) < k.
  Proof.
    pose proof (Hst m). pose proof Hmnd as H1. unfold isDone in H1. apply Z.eqb_neq in H1. fold k in H1. lia.
  Qed.

  Local Lemma Hm_notq : m ∉ Heap.ids (heap s).
  Proof. intros Hq. exact (lb_M _ _ _ _ L m m eq_refl Hq (rtc_refl _ _)). Qed.

  Local Lemma Hrec_m : recomputedAt (nd s' m) = k.
  Proof. rewrite (sq_self _ _ _ _ P). reflexivity. Qed.

  Local Lemma Hnd_ne n : n <> m -> nd s' n = nd s n.
  Proof. apply (sq_other _ _ _ _ P). Qed.

  Local Lemma done'_iff n : isDone s' n = true <-> isDone s n = true \/ n = m.
  Proof.
    rewrite !isDone_iff, Hk'. destruct (decide (n = m)) as [->|Hn].
    - rewrite Hrec_m. tauto.
    - rewrite (Hnd_ne n Hn). fold k. tauto.
  Qed.

  Local Lemma done'_false n : isDone s' n = false <-> isDone s n = false /\ n <> m.
  Proof.
    rewrite <- !not_true_iff_false, done'_iff. destruct (decide (n = m)); tauto.
  Qed.

  (* heap facts shared by both cases *)
  Local Lemma Hmono x : x ∈ Heap.ids (heap s) -> x ∈ Heap.ids (heap s').
  Proof.
    intros Hx. destruct (sq_case _ _ _ _ P) as [C|R].
    - rewrite (cp_heap _ _ _ _ C). exact Hx.
    - apply (rq_mono _ _ _ _ R), Hx.
  Qed.

  Local Lemma Hnewmem x : x ∈ Heap.ids (heap s') \/ imm = Some x ->
    x ∈ Heap.ids (heap s) \/ (runPostB s m s' imm /\ x ∈ children (nd s m) /\ owedC s' x = true).
  Proof.
    intros Hx. destruct (sq_case _ _ _ _ P) as [C|R].
    - rewrite (cp_heap _ _ _ _ C), (cp_imm _ _ _ _ C) in Hx. destruct Hx; [auto|discriminate].
    - apply (rq_mem _ _ _ _ R) in Hx as [?|[? ?]]; auto.
  Qed.

  Local Lemma Hhin x : x ∈ Heap.ids (heap s') -> Heap.hinOf (heap s') x = height (nd s x).
  Proof.
    intros Hx. destruct (sq_case _ _ _ _ P) as [C|R].
    - rewrite (cp_heap _ _ _ _ C) in *. apply (lb_heap _ _ _ _ L), Hx.
    - destruct (decide (x ∈ Heap.ids (heap s))) as [Ho|Hn].
      + rewrite (rq_old _ _ _ _ R) by exact Ho. apply (lb_heap _ _ _ _ L), Ho.
      + apply (rq_new _ _ _ _ R); assumption.
  Qed.

  Local Lemma inW'_cases x : inW s' imm x = true ->
    x ∈ Heap.ids (heap s) \/ (runPostB s m s' imm /\ x ∈ children (nd s m) /\ owedC s' x = true).
  Proof. intros Hx. apply Hnewmem. apply inW_iff in Hx; [exact Hx|exact I']. Qed.

  Local Lemma inW_keep x : inW s (Some m) x = true -> x <> m -> inW s' imm x = true.
  Proof.
    intros Hx Hn. apply (inW_iff s (Some m) x I) in Hx as [Hx|Hx]; [|congruence].
    apply inW_iff; [exact I'|]. left. apply Hmono, Hx.
  Qed.

  Local Lemma child_of_m x : x ∈ children (nd s m) -> x <> m /\ reach s m x /\ inGraph (nd s x) = true.
  Proof.
    intros Hx. split; [|split].
    - intros ->. pose proof (edge_height s HS m m Hx). lia.
    - apply rtc_once. exact Hx.
    - apply (child_reg s HS m x Hx).
  Qed.

  (* values *)
  Local Lemma Hkd n : nkind (nd s' n) = nkind (nd s n) /\ decl (nd s' n) = decl (nd s n).
  Proof. split; [apply (sf_nkind _ _ F)|apply (sf_decl _ _ F)]. Qed.

  Local Lemma Hvalue_ne n : n <> m -> value (nd s' n) = value (nd s n).
  Proof. intros Hn. rewrite (Hnd_ne n Hn). reflexivity. Qed.

  Local Lemma Hval p : inGraph (nd s p) = true -> p <> m ->
    ~ (nkind (nd s p) = KAlways /\ reach s m p) -> valueOf s' p = valueOf s p.
  Proof. intros. apply (valueOf_changed s s' m p HS Hkd Hvalue_ne); assumption. Qed.

  Local Lemma Hval_cut p : cutPost s m s' imm -> valueOf s' p = valueOf s p.
  Proof.
    intros C. apply valueOf_ext. intros n. destruct (Hkd n) as [-> ->]. split; [reflexivity|]. split; [reflexivity|].
    destruct (decide (n = m)) as [->|Hn]; [apply C|apply Hvalue_ne, Hn].
  Qed.

  (* the declared inputs of [m] itself read the same *)
  Local Lemma Hval_decl_m p : p ∈ decl (nd s m) -> valueOf s' p = valueOf s p.
  Proof.
    intros Hp. assert (Hpar : p ∈ parents (nd s m)) by (apply (st_par _ HS); [exact Hmreg|exact Hp]).
    pose proof (parent_edge s HS _ _ Hpar) as He.
    apply Hval.
    - apply (edge_reg s HS _ _ He).
    - intros ->. pose proof (edge_height s HS _ _ He). lia.
    - intros [_ Hr]. exact (parent_not_reach s HS _ _ Hpar Hr).
  Qed.

  (* a done node's inputs read the same *)
  Local Lemma Hval_done n p : isDone s n = true -> p ∈ decl (nd s n) -> valueOf s' p = valueOf s p.
  Proof.
    intros Hd Hp. destruct (sq_case _ _ _ _ P) as [C|R]; [apply Hval_cut, C|].
    assert (Hg : inGraph (nd s n) = true) by (apply (lb_orig _ _ _ _ L n); right; exact Hd).
    pose proof (decl_parent s HS n p Hg Hp) as He.
    assert (Hnr : ~ reach s m p).
    { intros Hr. assert (reach s m n) as Hrn by (eapply rtc_r; eauto).
      pose proof (lb_B _ _ _ _ L m n HmW Hrn). congruence. }
    apply Hval.
    - apply (edge_reg s HS _ _ He).
    - intros ->. apply Hnr, rtc_refl.
    - tauto.
  Qed.

  (** ** the clauses *)
  Local Lemma Hbd b : bd s' b = bd s b.
  Proof. apply bd_binds, (sf_binds _ _ F). Qed.

  Local Lemma S_bf : BFB s'.
  Proof.
    constructor.
    - intros n Hn. rewrite (sf_next _ _ F). apply (bb_lt _ HBF). apply (sf_has _ _ F). exact Hn.
    - intros n x E. rewrite <- (nd_lookup _ _ _ E).
      pose proof (bb_shape_nd s HBF n) as Hb. unfold shape_node in *. rewrite !andb_true_iff in *.
      destruct Hb as [[H5 H6] H7]. split; [split|].
      + unfold arity_ok in *. rewrite (sf_nkind _ _ F), (sf_decl _ _ F). exact H5.
      + destruct (decide (n = m)) as [->|Hne]; [|rewrite (Hnd_ne n Hne); exact H6].
        unfold cutalways_zero in *. rewrite (sf_nkind _ _ F).
        destruct (nkind (nd s m)) eqn:K; try reflexivity. destruct c; try reflexivity.
        destruct (sq_case _ _ _ _ P) as [C|R].
        * rewrite (cp_value _ _ _ _ C). exact H6.
        * pose proof (rq_val _ _ _ _ R) as Hv. unfold consistent_valB in Hv. rewrite K in Hv.
          pose proof (bb_arity s HBF m) as Har. unfold arity_ok in Har. rewrite K in Har.
          apply bool_decide_eq_true in Har. destruct (decl (nd s m)) as [|a [|]]; try discriminate Har.
          exact Hv.
      + unfold always_lt in *. rewrite (sf_nkind _ _ F), (sf_decl _ _ F). exact H7.
    - intros n. rewrite (sf_inGraph _ _ F), (sf_valid _ _ F). apply (bb_valid _ HBF).
    - intros b. rewrite Hbd. apply (bb_memo _ HBF).
    - intros n b K. rewrite (sf_nkind _ _ F) in K. rewrite (sf_nkind _ _ F), (sf_decl _ _ F), Hbd.
      apply (bb_main _ HBF n b K).
    - intros n b K. rewrite (sf_nkind _ _ F) in K. rewrite (sf_decl _ _ F), Hbd. apply (bb_lhs _ HBF n b K).
  Qed.

  Local Lemma S_heap : HeapSpec.inv (heap s') /\
    forall q, q ∈ Heap.ids (heap s') -> inGraph (nd s' q) = true /\ Heap.hinOf (heap s') q = height (nd s' q).
  Proof.
    split; [exact I'|]. intros q Hq. rewrite (sf_inGraph _ _ F), (sf_height _ _ F). split; [|apply Hhin, Hq].
    destruct (Hnewmem q (or_introl Hq)) as [Ho|(_ & Hc & _)].
    - apply (lb_heap _ _ _ _ L), Ho.
    - apply (child_of_m q Hc).
  Qed.

  Local Lemma S_stamps n : stamps_node s' false n = true.
  Proof.
    pose proof (Hst n) as Hn. unfold stamps_node. rewrite Hk'. fold k.
    destruct (decide (n = m)) as [->|Hne].
    - rewrite Hrec_m. pose proof (Hst m) as Hm. destruct (sq_case _ _ _ _ P) as [C|R].
      + rewrite (cp_changed _ _ _ _ C). rewrite !andb_true_iff, !Z.leb_le. lia.
      + rewrite (rq_changed _ _ _ _ R). fold k. rewrite !andb_true_iff, !Z.leb_le. lia.
    - rewrite (Hnd_ne n Hne). rewrite !andb_true_iff, !Z.leb_le. lia.
  Qed.

  Local Lemma S_B w n : inW s' imm w = true -> reach s' w n -> isDone s' n = false.
  Proof.
    intros Hw Hr. apply (sf_reach _ _ F) in Hr. apply done'_false.
    destruct (inW'_cases w Hw) as [Ho|(_ & Hc & _)].
    - split.
      + apply (lb_B _ _ _ _ L w n); [|exact Hr]. apply inW_iff; [exact I|]. left; exact Ho.
      + intros ->. exact (lb_M _ _ _ _ L m w eq_refl Ho Hr).
    - destruct (child_of_m w Hc) as (Hwm & Hmw & _). split.
      + apply (lb_B _ _ _ _ L m n HmW). eapply rtc_l; [exact Hc|exact Hr].
      + intros ->. pose proof (edge_height s HS _ _ Hc). destruct (reach_height s HS _ _ Hr); [congruence|lia].
  Qed.

  Local Lemma S_M c w : imm = Some c -> w ∈ Heap.ids (heap s') -> reach s' w c -> False.
  Proof.
    intros Himm Hw Hr. destruct (sq_case _ _ _ _ P) as [C|R]; [pose proof (cp_imm _ _ _ _ C); congruence|].
    destruct (rq_imm _ _ _ _ R c Himm) as [Hcn Hcan].
    assert (Hcm : c ∈ children (nd s m)).
    { destruct (proj1 (rq_mem _ _ _ _ R c) (or_intror Himm)) as [Hq|[Hc _]]; [|exact Hc].
      exfalso. apply Hcn, Hmono, Hq. }
    apply (sf_reach _ _ F) in Hr.
    unfold canRecomputeImmediately in Hcan.
    destruct (isAlways (nkind (nd s' c)) || requiresHeapOrdering (nkind (nd s' c))
              || (height (nd s' m) <=? scopeHeight s' (scope (nd s' c)))); [discriminate|].
    destruct (negb (scopeHeight s' (scope (nd s' c)) =? unset) &&
              match Heap.minHeight (heap s') with
              | Some m0 => m0 <=? scopeHeight s' (scope (nd s' c))
              | None => false
              end); [discriminate|].
    destruct (bool_decide (length (parents (nd s' c)) = 1%nat)) eqn:E1.
    - apply bool_decide_eq_true in E1. rewrite (sf_parents _ _ F) in E1.
      assert (Hpar : m ∈ parents (nd s c)) by (apply (st_edge _ HS); exact Hcm).
      destruct (parents (nd s c)) as [|p [|]] eqn:Ep; try discriminate E1.
      apply elem_of_list_singleton in Hpar as <-.
      destruct (reach_last s _ _ Hr) as [->|(x & Hwx & Hxc)]; [contradiction|].
      apply (st_edge _ HS) in Hxc. rewrite Ep in Hxc. apply elem_of_list_singleton in Hxc as ->.
      assert (Hd : isDone s' m = false).
      { apply (S_B w m); [apply inW_iff; [exact I'|left; exact Hw]|apply (sf_reach _ _ F); exact Hwx]. }
      apply done'_false in Hd. tauto.
    - destruct (Heap.minHeight (heap s')) as [mh|] eqn:Emh.
      + apply Z.leb_le in Hcan. rewrite (sf_height _ _ F) in Hcan.
        pose proof (heap_cursor_sound _ _ I' Emh w Hw) as Hle. rewrite (Hhin w Hw) in Hle.
        destruct (reach_height s HS _ _ Hr) as [->|Hlt]; [contradiction|lia].
      + unfold Heap.minHeight in Emh. destruct (Z.eqb_spec (Heap.cnt (heap s')) 0) as [E0|]; [|discriminate].
        rewrite (cnt_zero_ids _ I') in Hw by lia. inv Hw.
  Qed.

  Local Lemma owedC_child x : x ∈ children (nd s m) -> isDone s' x = false ->
    isStale s' x = true -> owedC s' x = true.
  Proof.
    intros Hc Hd Hs. destruct (child_of_m x Hc) as (_ & _ & Hg).
    unfold owedC. rewrite (sf_isNecessary _ _ F), <- (st_nec _ HS), Hg, (sf_valid _ _ F), (bb_valid _ HBF x Hg). simpl.
    destruct (negb (hasStaler (nkind (nd s' x))) && (recomputedAt (nd s' x) <? stabNum s')); [reflexivity|exact Hs].
  Qed.

  Local Lemma S_owed n : inGraph (nd s' n) = true -> isDone s' n = false -> isStale s' n = true ->
    inW s' imm n = true.
  Proof.
    intros Hg Hd Hs. rewrite (sf_inGraph _ _ F) in Hg. pose proof Hd as Hd'. apply done'_false in Hd as [Hd Hne].
    assert (Hold : isStale s n = true -> inW s' imm n = true).
    { intros Hs0. apply inW_keep; [|exact Hne]. apply (lb_owed _ _ _ _ L); assumption. }
    assert (Hsame : (forall p, p ∈ parents (nd s n) -> changedAt (nd s' p) = changedAt (nd s p)) ->
                    inW s' imm n = true).
    { intros Hp. apply Hold. rewrite <- (isStale_same s s' n (Hnd_ne n Hne) Hk' Hp). exact Hs. }
    destruct (sq_case _ _ _ _ P) as [C|R].
    - apply Hsame. intros p _. destruct (decide (p = m)) as [->|Hp]; [apply C|rewrite (Hnd_ne p Hp); reflexivity].
    - destruct (decide (m ∈ parents (nd s n))) as [Hin|Hnin].
      + assert (Hc : n ∈ children (nd s m)) by (apply (st_edge _ HS); exact Hin).
        apply inW_iff; [exact I'|]. apply (rq_mem _ _ _ _ R). right. split; [exact Hc|].
        apply owedC_child; assumption.
      + apply Hsame. intros p Hp. assert (p <> m) by congruence. rewrite (Hnd_ne p); auto.
  Qed.

  Local Lemma S_clean n : inGraph (nd s' n) = true -> inW s' imm n = false ->
    guarded s' imm n = true -> consistent_valB s' n (value (nd s' n)) = true.
  Proof.
    intros Hg HnW Hgd. rewrite (sf_inGraph _ _ F) in Hg.
    destruct (decide (n = m)) as [->|Hne].
    - (* the node that just ran *)
      rewrite (consistent_valB_ext s s' m _ HBF (sf_binds _ _ F) (proj1 (Hkd m)) (proj2 (Hkd m)) Hval_decl_m).
      destruct (sq_case _ _ _ _ P) as [C|R]; [|apply R].
      rewrite (cp_value _ _ _ _ C). destruct (cp_kind _ _ _ _ C) as (c0 & K & Hcut & _).
      pose proof (bb_arity s HBF m) as Har. unfold arity_ok in Har. rewrite K in Har.
      apply bool_decide_eq_true in Har.
      pose proof (bb_cutalways s HBF m) as Hz. unfold cutalways_zero in Hz. rewrite K in Hz.
      unfold consistent_valB. rewrite K. destruct (decl (nd s m)) as [|a [|]]; try discriminate Har.
      cbn [hd] in Hcut. destruct c0; simpl in Hcut; try reflexivity; try assumption; discriminate.
    - (* another node *)
      assert (Hgd_p : forall p, p ∈ parents (nd s n) ->
                 changedAt (nd s' p) <= recomputedAt (nd s n) /\ volq s' imm p = false).
      { intros p Hp. unfold guarded in Hgd. rewrite (sf_parents _ _ F) in Hgd.
        pose proof (forallb_elem _ _ _ Hgd Hp) as H. cbv beta in H.
        apply andb_true_iff in H as [H1 H2]. apply Z.leb_le in H1. apply negb_true_iff in H2.
        rewrite (Hnd_ne n Hne) in H1. auto. }
      (* (1) if [m] is an input of [n], [m] was cut off *)
      assert (Hcutm : m ∈ parents (nd s n) -> cutPost s m s' imm).
      { intros Hin. destruct (sq_case _ _ _ _ P) as [C|R]; [exact C|exfalso].
        destruct (Hgd_p m Hin) as [H1 _]. rewrite (rq_changed _ _ _ _ R) in H1. fold k in H1.
        assert (Hdn : isDone s n = false).
        { apply (lb_B _ _ _ _ L m n HmW). apply rtc_once. apply (st_edge _ HS). exact Hin. }
        unfold isDone in Hdn. apply Z.eqb_neq in Hdn. pose proof (Hst n). fold k in Hdn. lia. }
      assert (Hm_kind : m ∈ parents (nd s n) -> exists c0, nkind (nd s m) = KCutoff c0).
      { intros Hin. destruct (cp_kind _ _ _ _ (Hcutm Hin)) as (c0 & K & _). eauto. }
      (* (2) [n] was guarded before the step *)
      assert (Hgd0 : guarded s (Some m) n = true).
      { unfold guarded. apply forallb_intro. intros p Hp. destruct (Hgd_p p Hp) as [H1 H2].
        apply andb_true_iff. split.
        - apply Z.leb_le. destruct (decide (p = m)) as [->|Hpm].
          + rewrite <- (cp_changed _ _ _ _ (Hcutm Hp)). exact H1.
          + rewrite <- (Hnd_ne p Hpm). exact H1.
        - apply negb_true_iff. unfold volq in *. rewrite (sf_nkind _ _ F) in H2.
          destruct (nkind (nd s p)) eqn:Kp; try reflexivity.
          + (* a var *)
            assert (Hpm : p <> m) by (intros ->; destruct (Hm_kind Hp) as [c0 K]; congruence).
            destruct (inW s (Some m) p) eqn:Ew; [|reflexivity].
            rewrite (inW_keep p Ew Hpm) in H2. discriminate.
          + (* an always node *)
            assert (Hpm : p <> m) by (intros ->; destruct (Hm_kind Hp) as [c0 K]; congruence).
            rewrite (Hnd_ne p Hpm), Hk' in H2. exact H2. }
      (* (3) [n] was not owed before the step *)
      assert (HnW0 : inW s (Some m) n = false).
      { destruct (inW s (Some m) n) eqn:Ew; [|reflexivity]. rewrite (inW_keep n Ew Hne) in HnW. discriminate. }
      pose proof (lb_clean _ _ _ _ L n Hg HnW0 Hgd0) as Hc.
      rewrite (Hnd_ne n Hne).
      rewrite (consistent_valB_ext s s' n _ HBF (sf_binds _ _ F) (proj1 (Hkd n)) (proj2 (Hkd n))); [exact Hc|].
      intros p Hp. destruct (sq_case _ _ _ _ P) as [C|R]; [apply Hval_cut, C|].
      assert (Hpar : p ∈ parents (nd s n)) by (apply (st_par _ HS); assumption).
      assert (Hpm : p <> m).
      { intros ->. destruct (cp_kind _ _ _ _ (Hcutm Hpar)) as (c0 & K & _).
        pose proof (cp_imm _ _ _ _ (Hcutm Hpar)). pose proof (cp_changed _ _ _ _ (Hcutm Hpar)) as Hcc.
        rewrite (rq_changed _ _ _ _ R) in Hcc. pose proof (Hst m). pose proof Hm_lt. fold k in Hcc. lia. }
      apply Hval.
      + apply (edge_reg s HS p n). apply (parent_edge s HS). exact Hpar.
      + exact Hpm.
      + intros [Ka Hr]. destruct (Hgd_p p Hpar) as [_ H2]. unfold volq in H2.
        rewrite (sf_nkind _ _ F), Ka in H2. apply Z.ltb_ge in H2.
        assert (Hdp : isDone s' p = true).
        { apply isDone_iff. pose proof (stamps_node_false _ _ (S_stamps p)). lia. }
        apply done'_iff in Hdp as [Hdp|?]; [|contradiction].
        pose proof (lb_B _ _ _ _ L m p HmW Hr). congruence.
  Qed.

  Local Lemma origin_mono n : origin s h0 n = true -> origin s' h0 n = true.
  Proof.
    unfold origin. rewrite !orb_true_iff, !existsb_elem, (sf_parents _ _ F), Hk'. intros [?|(p & Hp & Hc)]; [auto|].
    right. exists p. split; [exact Hp|]. apply Z.eqb_eq in Hc. fold k in Hc.
    destruct (decide (p = m)) as [->|Hpm]; [|rewrite (Hnd_ne p Hpm); apply Z.eqb_eq; exact Hc].
    pose proof (Hst m). pose proof Hm_lt. lia.
  Qed.

  Local Lemma S_orig n : inW s' imm n = true \/ isDone s' n = true ->
    inGraph (nd s' n) = true /\ origin s' h0 n = true.
  Proof.
    rewrite (sf_inGraph _ _ F). intros [Hw|Hd].
    - destruct (inW'_cases n Hw) as [Ho|(R & Hc & _)].
      + destruct (lb_orig _ _ _ _ L n) as [Hg Hor]; [left; apply inW_iff; [exact I|left; exact Ho]|].
        split; [exact Hg|apply origin_mono, Hor].
      + split; [apply (child_of_m n Hc)|].
        unfold origin. apply orb_true_iff. right. apply existsb_elem. exists m. split.
        * rewrite (sf_parents _ _ F). apply (st_edge _ HS). exact Hc.
        * rewrite (rq_changed _ _ _ _ R), Hk'. apply Z.eqb_refl.
    - apply done'_iff in Hd as [Hd| ->].
      + destruct (lb_orig _ _ _ _ L n (or_intror Hd)) as [Hg Hor]. split; [exact Hg|apply origin_mono, Hor].
      + destruct (lb_orig _ _ _ _ L m (or_introl HmW)) as [Hg Hor]. split; [exact Hg|apply origin_mono, Hor].
  Qed.

  Local Lemma S_prog n : n ∈ h0 -> inW s' imm n = true \/ isDone s' n = true.
  Proof.
    intros Hn. destruct (decide (n = m)) as [->|Hne]; [right; apply done'_iff; auto|].
    destruct (lb_prog _ _ _ _ L n Hn) as [Hw|Hd].
    - left. apply inW_keep; assumption.
    - right. apply done'_iff. auto.
  Qed.

  Local Lemma ev_ok_keep e : ev_ok s e = true -> ev_ok s' e = true.
  Proof.
    destruct e; try (intros; reflexivity); unfold ev_ok; rewrite !andb_true_iff.
    - intros [[Hd Ha] Hr]. assert (Hne : n <> m) by (intros ->; rewrite Hmnd in Hd; discriminate).
      split; [split|].
      + apply done'_iff. auto.
      + apply bool_decide_eq_true in Ha. apply bool_decide_eq_true. rewrite Ha, (sf_decl _ _ F).
        apply map_ext_in. intros p Hp. symmetry. apply (Hval_done n p Hd). apply elem_of_list_In, Hp.
      + rewrite (Hnd_ne n Hne). exact Hr.
    - intros [Hd Hv]. assert (Hne : n <> m) by (intros ->; rewrite Hmnd in Hd; discriminate).
      split; [apply done'_iff; auto|]. rewrite (Hnd_ne n Hne), Hk'. exact Hv.
  Qed.

  Local Lemma m_not_invoked evs : Forall (fun e => ev_ok s e = true) evs -> m ∉ invoked_of evs.
  Proof.
    intros Hall Hin. unfold invoked_of in Hin. apply elem_of_list_omap in Hin as (e & He & Hm).
    destruct e; try discriminate Hm. injection Hm as ->.
    rewrite Forall_forall in Hall. apply elem_of_list_In in He. pose proof (Hall _ He) as Hok. unfold ev_ok in Hok.
    rewrite !andb_true_iff in Hok. destruct Hok as [[Hd _] _]. rewrite Hmnd in Hd. discriminate.
  Qed.

  Local Lemma S_log : exists evs, log s' = evs ++ base /\ Forall (fun e => ev_ok s' e = true) evs /\
                                  NoDup (invoked_of evs).
  Proof.
    destruct (lb_log _ _ _ _ L) as (evs & Hlog & Hall & Hnd).
    assert (Hall' : Forall (fun e => ev_ok s' e = true) evs).
    { eapply List.Forall_impl; [|exact Hall]. intros e. apply ev_ok_keep. }
    assert (Hdm : isDone s' m = true) by (apply done'_iff; auto).
    destruct (sq_case _ _ _ _ P) as [C|R].
    - destruct (cp_kind _ _ _ _ C) as (c0 & K & Hcut & Hl).
      exists (EvCutoff m (value (nd s m)) (valueOf s (hd 0%nat (decl (nd s m)))) true :: evs).
      split; [rewrite Hl, Hlog; reflexivity|]. split; [|exact Hnd].
      constructor; [|exact Hall']. unfold ev_ok. rewrite Hdm. simpl.
      rewrite (cp_changed _ _ _ _ C), (cp_value _ _ _ _ C), Hk', Z.eqb_refl, andb_true_r.
      apply Z.ltb_lt. pose proof (Hst m). pose proof Hm_lt. lia.
    - destruct (rq_log _ _ _ _ R) as (nev & Hl & Hnev). exists (nev ++ evs).
      split; [rewrite Hl, Hlog, app_assoc; reflexivity|].
      destruct Hnev as [->|[->|(o & ->)]]; simpl.
      + auto.
      + split.
        * constructor; [|exact Hall']. unfold ev_ok. rewrite Hdm. simpl. apply andb_true_iff. split.
          -- apply bool_decide_eq_true. rewrite (sf_decl _ _ F). apply map_ext_in. intros p Hp.
             symmetry. apply Hval_decl_m. apply elem_of_list_In, Hp.
          -- apply Z.eqb_refl.
        * constructor; [apply m_not_invoked; exact Hall|exact Hnd].
      + split; [|exact Hnd]. constructor; [|exact Hall']. unfold ev_ok. rewrite Hdm. simpl. apply Z.eqb_refl.
  Qed.

  Local Lemma S_nolhs w n : inW s' imm w = true -> reach s' w n -> isLhs (nkind (nd s' n)) = false.
  Proof.
    intros Hw Hr. apply (sf_reach _ _ F) in Hr. rewrite (sf_nkind _ _ F).
    destruct (inW'_cases w Hw) as [Ho|(_ & Hc & _)].
    - apply (lb_nolhs _ _ _ _ L w n); [|exact Hr]. apply inW_iff; [exact I|]. left; exact Ho.
    - apply (lb_nolhs _ _ _ _ L m n HmW). eapply rtc_l; [exact Hc|exact Hr].
  Qed.

  (* the input of a registered bind reads the same: otherwise its lhs-change node would be owed *)
  Local Lemma Hval_lhs b : inGraph (nd s (S b)) = true -> nkind (nd s (S b)) = KBindMain b ->
    valueOf s' (b_lhs (bd s b)) = valueOf s (b_lhs (bd s b)).
  Proof.
    intros Hg K. destruct (sq_case _ _ _ _ P) as [C|R]; [apply Hval_cut, C|].
    destruct (bb_main _ HBF _ _ K) as (_ & KL & Hd).
    assert (E1 : edge s b (S b)) by (apply (decl_parent s HS _ _ Hg); rewrite Hd; left).
    destruct (edge_reg s HS _ _ E1) as [HgL _].
    destruct (bb_lhs _ HBF _ _ KL) as (_ & HdL).
    assert (E2 : edge s (b_lhs (bd s b)) b) by (apply (decl_parent s HS _ _ HgL); rewrite HdL; left).
    assert (Hno : ~ reach s m (b_lhs (bd s b))).
    { intros Hr. assert (Hrl : reach s m b) by (eapply rtc_r; eauto).
      pose proof (lb_nolhs _ _ _ _ L m b HmW Hrl) as Hl. rewrite KL in Hl. discriminate. }
    apply Hval.
    - apply (edge_reg s HS _ _ E2).
    - intros E. apply Hno. rewrite E. apply rtc_refl.
    - intros [_ Hr]. exact (Hno Hr).
  Qed.

  Local Lemma S_match b : inGraph (nd s' (S b)) = true -> nkind (nd s' (S b)) = KBindMain b ->
    matchesOK s' b = true.
  Proof.
    rewrite (sf_inGraph _ _ F), (sf_nkind _ _ F). intros Hg K.
    rewrite (matchesOK_ext s s' b (sf_binds _ _ F) (sf_next _ _ F)).
    - apply (lb_match _ _ _ _ L b Hg K).
    - intros n. split; [apply (sf_nkind _ _ F)|]. split; [apply (sf_decl _ _ F)|apply (sf_scope _ _ F)].
    - intros n Kr. destruct (decide (n = m)) as [->|Hne]; [|apply Hvalue_ne, Hne].
      destruct (sq_case _ _ _ _ P) as [C|R]; [apply C|apply (rq_ret _ _ _ _ R Kr)].
    - apply Hval_lhs; assumption.
  Qed.

  Local Lemma S_ran n : isDone s' n = true -> isLhs (nkind (nd s' n)) = false.
  Proof.
    rewrite (sf_nkind _ _ F). intros Hd. apply done'_iff in Hd as [Hd| ->].
    - apply (lb_ran _ _ _ _ L n Hd).
    - apply (lb_nolhs _ _ _ _ L m m HmW). apply rtc_refl.
  Qed.

  Lemma step_LInvB : LInvB h0 base s' imm.
  Proof.
    constructor.
    - exact S_bf.
    - exact S_heap.
    - exact S_stamps.
    - exact S_B.
    - exact S_M.
    - exact S_owed.
    - exact S_clean.
    - exact S_orig.
    - exact S_prog.
    - exact S_log.
    - exact S_nolhs.
    - exact S_match.
    - exact S_ran.
  Qed.
End Step.

Lemma LInvB_heap_change h0 base s cur w cur' :
  LInvB h0 base s cur -> HeapSpec.inv w ->
  (forall x, inW (s <| heap := w |>) cur' x = inW s cur x) ->
  (forall q, q ∈ Heap.ids w -> q ∈ Heap.ids (heap s) /\ Heap.hinOf w q = Heap.hinOf (heap s) q) ->
  (forall m x, cur' = Some m -> x ∈ Heap.ids w -> reach s x m -> False) ->
  LInvB h0 base (s <| heap := w |>) cur'.
Proof.
  intros L Iw HW Hq HM. set (s2 := s <| heap := w |>) in *.
  assert (Hn : nodes s2 = nodes s) by reflexivity.
  assert (Hnd : forall n, nd s2 n = nd s n) by reflexivity.
  assert (Hr : forall a b, reach s2 a b <-> reach s a b) by (apply sf_reach, sframe_set_heap).
  constructor.
  - exact (BFB_nodes s s2 eq_refl eq_refl eq_refl (lb_bf _ _ _ _ L)).
  - split; [exact Iw|]. intros q Hin. destruct (Hq q Hin) as [Ho Hh]. change (heap s2) with w.
    rewrite Hh. apply (lb_heap _ _ _ _ L), Ho.
  - exact (lb_stamps _ _ _ _ L).
  - intros x n Hx Hxn. rewrite HW in Hx. apply (lb_B _ _ _ _ L x n Hx). apply Hr, Hxn.
  - intros m x Hc Hx Hxm. apply (HM m x Hc Hx). apply Hr, Hxm.
  - intros n Hg Hd Hs. rewrite HW. apply (lb_owed _ _ _ _ L n Hg Hd). exact Hs.
  - intros n Hg Hw Hgd. rewrite HW in Hw.
    rewrite (guarded_ext s s2 cur cur' n Hn eq_refl HW) in Hgd.
    rewrite (consistent_valB_nodes s s2 n _ Hn eq_refl).
    apply (lb_clean _ _ _ _ L n Hg Hw Hgd).
  - intros n Hn'. rewrite HW in Hn'. apply (lb_orig _ _ _ _ L n Hn').
  - intros n Hn'. rewrite HW. apply (lb_prog _ _ _ _ L n Hn').
  - destruct (lb_log _ _ _ _ L) as (evs & Hl & Hall & Hnd'). exists evs. split; [exact Hl|]. split; [|exact Hnd'].
    eapply List.Forall_impl; [|exact Hall]. intros e He. destruct e; try reflexivity.
    + unfold ev_ok in *. rewrite (map_ext _ _ (fun p => valueOf_nodes s s2 p Hn)). exact He.
    + exact He.
  - intros x n Hx Hxn. rewrite HW in Hx. change (nd s2 n) with (nd s n).
    apply (lb_nolhs _ _ _ _ L x n Hx). apply Hr, Hxn.
  - intros b Hg K. rewrite (matchesOK_nodes s s2 b Hn eq_refl eq_refl). apply (lb_match _ _ _ _ L b Hg K).
  - exact (lb_ran _ _ _ _ L).
Qed.

Lemma pop_LInvB h0 base s n w :
  Struct s -> LInvB h0 base s None -> Heap.removeMin (heap s) = Some (n, w) ->
  LInvB h0 base (s <| heap := w |>) (Some n).
Proof.
  intros HS L Hrm. pose proof (proj1 (lb_heap _ _ _ _ L)) as I.
  destruct (heap_removeMin_spec _ _ _ I Hrm) as ([Hnin Hmin] & Iw & Hperm & Hhin).
  pose proof (inv_nodup _ I) as Hnd. rewrite Hperm in Hnd. apply NoDup_cons_1_1 in Hnd as Hnw.
  apply (LInvB_heap_change h0 base s None w (Some n)); [exact L|exact Iw|..].
  - intros x. assert (Iw' : HeapSpec.inv (heap (s <| heap := w |>))) by exact Iw.
    apply eq_true_iff_eq. rewrite (inW_iff (s <| heap := w |>) (Some n) x Iw'), (inW_iff s None x I).
    change (heap (s <| heap := w |>)) with w. rewrite Hperm, elem_of_cons.
    split; [intros [?|[= ->]]; auto|intros [[->|?]|?]; auto; discriminate].
  - intros q Hq. split; [rewrite Hperm; right; exact Hq|]. rewrite Hhin.
    destruct (decide (q = n)) as [->|]; [contradiction|reflexivity].
  - intros m x [= <-] Hx Hr.
    assert (Hxin : x ∈ Heap.ids (heap s)) by (rewrite Hperm; right; exact Hx).
    pose proof (Hmin x Hxin) as Hle.
    rewrite (proj2 (proj2 (lb_heap _ _ _ _ L) n Hnin)), (proj2 (proj2 (lb_heap _ _ _ _ L) x Hxin)) in Hle.
    destruct (reach_height s HS _ _ Hr) as [->|Hlt]; [contradiction|lia].
Qed.

Lemma chain_LInvB h0 base fuel : forall s n s' e at_,
  Struct s -> LInvB h0 base s (Some n) ->
  recomputeChain fuel [] s n = Ok (s', e, at_) ->
  e = None /\ LInvB h0 base s' None /\ sframe s s' /\
  (forall x, isDone s' x = true -> isDone s x = true \/ x = n \/ isAlways (nkind (nd s x)) = false) /\
  (forall x, isDone s' x = false -> nd s' x = nd s x /\ isDone s x = false) /\
  (cursor_ok (heap s) -> cursor_ok (heap s')).
Proof.
  induction fuel as [|fuel IH]; intros s n s' e at_ HS L H; [discriminate|].
  cbn [recomputeChain] in H.
  destruct (recomputeNodeSerial fuel [] s n) as [[[s1 e1] imm]| |] eqn:E1; simpl in H; try discriminate.
  assert (Hg : inGraph (nd s n) = true).
  { apply (lb_orig _ _ _ _ L n). left. apply inW_iff; [apply (lb_heap _ _ _ _ L)|]. right; reflexivity. }
  destruct (rns_stepB fuel s n s1 e1 imm (lb_bf _ _ _ _ L) (has_inGraph _ _ Hg) (proj1 (lb_heap _ _ _ _ L))
              (lb_nolhs _ _ _ _ L n n (proj2 (inW_iff s (Some n) n (proj1 (lb_heap _ _ _ _ L))) (or_intror eq_refl)) (rtc_refl _ _)) E1)
    as [-> P].
  pose proof (step_LInvB h0 base s n s1 imm HS L P) as L1.
  pose proof (stepPostB_sframe _ _ _ _ P) as F1.
  assert (Hd1 : forall x, isDone s1 x = true -> isDone s x = true \/ x = n).
  { intros x. apply (done'_iff s n s1 imm P). }
  assert (Hu1 : forall x, isDone s1 x = false -> nd s1 x = nd s x /\ isDone s x = false).
  { intros x Hx. apply (done'_false s n s1 imm P) in Hx as [Hx Hne]. split; [apply (sq_other _ _ _ _ P x Hne)|exact Hx]. }
  destruct imm as [c|].
  - destruct (IH s1 c s' e at_ (sf_Struct _ _ F1 HS) L1 H) as (-> & L' & F' & Hd' & Hu' & Hc').
    split; [reflexivity|]. split; [exact L'|]. split; [eapply sframe_trans; eauto|].
    split; [|split; [intros x Hx; destruct (Hu' x Hx) as [E1' Hx1]; destruct (Hu1 x Hx1) as [E2' Hx0]; split; congruence|]];
      [|intros C; apply Hc', (sq_cur _ _ _ _ P), C].
    intros x Hx. destruct (Hd' x Hx) as [Hx1|[->|Hna]].
    + destruct (Hd1 x Hx1); auto.
    + right. right. rewrite <- (sf_nkind _ _ F1).
      destruct (sq_case _ _ _ _ P) as [C|R]; [pose proof (cp_imm _ _ _ _ C); discriminate|].
      destruct (rq_imm _ _ _ _ R c eq_refl) as [_ Hcan]. unfold canRecomputeImmediately in Hcan.
      destruct (isAlways (nkind (nd s1 c))); [discriminate|reflexivity].
    + right. right. rewrite <- (sf_nkind _ _ F1). exact Hna.
  - injection H as <- <- <-. split; [reflexivity|]. split; [exact L1|]. split; [exact F1|].
    split; [|split; [exact Hu1|exact (sq_cur _ _ _ _ P)]]. intros x Hx. destruct (Hd1 x Hx); auto.
Qed.


Lemma loop_LInvB h0 base fuel : forall s always s' e at_ always',
  Struct s -> LInvB h0 base s None -> AlwaysOK s always ->
  passLoop fuel [] s always = Ok (s', e, at_, always') ->
  e = None /\ LInvB h0 base s' None /\ Heap.ids (heap s') = [] /\ sframe s s' /\ AlwaysOK s' always' /\
  (forall x, isDone s' x = false -> nd s' x = nd s x /\ isDone s x = false) /\
  (cursor_ok (heap s) -> cursor_ok (heap s')).
Proof.
  induction fuel as [|fuel IH]; intros s always s' e at_ always' HS L HA H; [discriminate|].
  cbn [passLoop] in H. pose proof (proj1 (lb_heap _ _ _ _ L)) as I.
  destruct (Z.leb_spec (Heap.cnt (heap s)) 0) as [Hc|Hc].
  { injection H as <- <- <- <-. split; [reflexivity|]. split; [exact L|].
    split; [apply cnt_zero_ids; assumption|]. split; [apply sframe_refl|]. split; [exact HA|]. split; auto. }
  destruct (Heap.removeMin (heap s)) as [[n w]|] eqn:Erm; [|discriminate].
  set (s2 := s <| heap := w |>) in *.
  set (always2 := if isAlways (nkind (nd s2 n)) then always ++ [n] else always) in *.
  destruct (recomputeChain fuel [] s2 n) as [[[s3 e3] at3]| |] eqn:E3; simpl in H; try discriminate.
  pose proof (pop_LInvB h0 base s n w HS L Erm) as L2.
  assert (F2 : sframe s s2) by apply sframe_set_heap.
  destruct (chain_LInvB h0 base fuel s2 n s3 e3 at3 (sf_Struct _ _ F2 HS) L2 E3) as (-> & L3 & F3 & Hd3 & Hu3 & Hc3).
  assert (Hng : inGraph (nd s n) = true).
  { apply (lb_orig _ _ _ _ L2 n). left. apply inW_iff; [apply (lb_heap _ _ _ _ L2)|]. right; reflexivity. }
  assert (HA3 : AlwaysOK s3 always2).
  { destruct HA as [HA1 HA2]. split.
    - intros x Hk Hd. rewrite (sf_nkind _ _ F3) in Hk. change (nd s2 x) with (nd s x) in Hk.
      destruct (Hd3 x Hd) as [Hx|[->|Hx]].
      + unfold always2. destruct (isAlways (nkind (nd s2 n))); [apply elem_of_app; left|]; apply HA1; assumption.
      + unfold always2. change (nd s2 n) with (nd s n). rewrite Hk. apply elem_of_app. right. left.
      + change (nd s2 x) with (nd s x) in Hx. congruence.
    - intros x Hx. rewrite (sf_inGraph _ _ F3), (sf_nkind _ _ F3). change (nd s2 x) with (nd s x).
      unfold always2 in Hx. change (nd s2 n) with (nd s n) in Hx.
      destruct (isAlways (nkind (nd s n))) eqn:Ek; [|apply HA2, Hx].
      apply elem_of_app in Hx as [Hx|Hx]; [apply HA2, Hx|]. apply elem_of_list_singleton in Hx as ->. auto. }
  destruct (IH s3 always2 s' e at_ always' (sf_Struct _ _ F3 (sf_Struct _ _ F2 HS)) L3 HA3 H)
    as (-> & L' & Hemp & F' & HA' & Hu' & Hc').
  split; [reflexivity|]. split; [exact L'|]. split; [exact Hemp|].
  split; [eapply sframe_trans; [exact F2|]; eapply sframe_trans; eauto|]. split; [exact HA'|].
  split.
  - intros x Hx. destruct (Hu' x Hx) as [E1' Hx1]. destruct (Hu3 x Hx1) as [E2' Hx0].
    split; [rewrite E1', E2'; reflexivity|exact Hx0].
  - intros _. apply Hc', Hc3. exact (cursor_removeMin _ _ _ I Erm).
Qed.

(* under the premise, the lhs-change node of every registered bind is clean *)
Lemma NoLhs_lhs_clean s b :
  Struct s -> BFB s -> ValInvB s -> NoLhs s ->
  inGraph (nd s (S b)) = true -> nkind (nd s (S b)) = KBindMain b ->
  inHeap s b = false /\ guarded s None b = true.
Proof.
  intros HS HB V HNL Hg K.
  destruct (bb_main _ HB _ _ K) as (_ & KL & Hd).
  assert (E1 : edge s b (S b)) by (apply (decl_parent s HS _ _ Hg); rewrite Hd; left).
  destruct (edge_reg s HS _ _ E1) as [HgL _].
  assert (HnotQ : forall w, reach s w b -> inHeap s w = false).
  { intros w Hr. destruct (inHeap s w) eqn:Ew; [|reflexivity].
    pose proof (HNL w b Ew Hr) as Hl. rewrite KL in Hl. discriminate. }
  assert (HqL : inHeap s b = false) by (apply HnotQ, rtc_refl).
  split; [exact HqL|].
  unfold guarded. apply forallb_intro. intros p Hp.
  assert (Epb : edge s p b) by (apply (parent_edge s HS), Hp).
  apply andb_true_iff. split.
  - apply Z.leb_le. destruct (Z_le_gt_dec (changedAt (nd s p)) (recomputedAt (nd s b))) as [|Hgt]; [assumption|exfalso].
    assert (Hs : isStale s b = true).
    { unfold isStale. rewrite (bb_valid _ HB b HgL), KL. simpl. apply orb_true_iff. right.
      unfold staleWrtParents. apply existsb_elem. exists p. split; [exact Hp|]. apply Z.gtb_lt. lia. }
    pose proof (vb_owed _ V b HgL Hs). congruence.
  - apply negb_true_iff. unfold volq. destruct (nkind (nd s p)) eqn:Kp; try reflexivity.
    + unfold inW. rewrite orb_false_r. apply HnotQ. apply rtc_once, Epb.
    + exfalso. destruct (edge_reg s HS _ _ Epb) as [Hgp _].
      assert (Hs : isStale s p = true) by (unfold isStale; rewrite (bb_valid _ HB p Hgp), Kp; reflexivity).
      pose proof (vb_owed _ V p Hgp Hs) as Hq. rewrite (HnotQ p (rtc_once _ _ Epb)) in Hq. discriminate.
Qed.

Lemma LInvB_start s : Inv s -> ValInvB s -> NoLhs s ->
  LInvB (Heap.ids (heap s)) (EvPassStart :: log s) (passStart s) None.
Proof.
  intros IV V HNL. pose proof (Inv_wfb s IV) as Hwf. destruct (wfb_queued _ Hwf) as [I Hq]. set (s1 := passStart s).
  pose proof (Inv_Struct s IV) as HS. pose proof (Inv_BFB s IV (vb_shape _ V)) as HB.
  assert (Hn : nodes s1 = nodes s) by reflexivity.
  assert (Hnd : forall n, isDone s1 n = false).
  { intros n. unfold isDone. apply Z.eqb_neq. pose proof (stamps_node_true _ _ (vb_stamps _ V n)).
    change (recomputedAt (nd s n) <> stabNum s). lia. }
  constructor.
  - exact (BFB_nodes s s1 eq_refl eq_refl eq_refl HB).
  - split; [exact I|exact Hq].
  - intros n. pose proof (stamps_node_true _ _ (vb_stamps _ V n)) as Hs. unfold stamps_node.
    change (nd s1 n) with (nd s n). change (stabNum s1) with (stabNum s).
    rewrite !andb_true_iff, !Z.leb_le. lia.
  - intros w n _ _. apply Hnd.
  - discriminate.
  - intros n Hg _ Hs. change (inW s1 None n) with (inW s None n). unfold inW. rewrite orb_false_r.
    apply (vb_owed _ V n Hg). rewrite <- Hs. symmetry. apply isStale_nodes. exact Hn.
  - intros n Hg Hw Hgd. rewrite (consistent_valB_nodes s s1 n _ Hn eq_refl).
    apply (vb_clean _ V n Hg).
    + change (inW s1 None n) with (inW s None n) in Hw. unfold inW in Hw. rewrite orb_false_r in Hw. exact Hw.
    + exact Hgd.
  - intros n [Hw|Hd]; [|rewrite Hnd in Hd; discriminate].
    apply (inW_iff s1 None n I) in Hw as [Hw|?]; [|discriminate].
    split; [apply Hq, Hw|]. unfold origin. apply orb_true_iff. left. apply bool_decide_eq_true. exact Hw.
  - intros n Hn'. left. apply (inW_iff s1 None n I). left. exact Hn'.
  - exists []. split; [reflexivity|]. split; constructor.
  - intros w n Hw Hr. change (nd s1 n) with (nd s n). apply (HNL w n); [|exact Hr].
    change (inW s1 None w) with (inW s None w) in Hw. unfold inW in Hw. rewrite orb_false_r in Hw. exact Hw.
  - intros b Hg K. rewrite (matchesOK_nodes s s1 b eq_refl eq_refl eq_refl).
    change (nd s1 (S b)) with (nd s (S b)) in *.
    destruct (NoLhs_lhs_clean s b HS HB V HNL Hg K) as [H1 H2]. apply (vb_match _ V b Hg K H1 H2).
  - intros n Hd. rewrite Hnd in Hd. discriminate.
Qed.

(** everything the theorems below need about a successful bind-free pass without a plan *)
Record PassEndB (s s' sL : state) (hev : list event) : Prop := {
  pf_inv : LInvB (Heap.ids (heap s)) (EvPassStart :: log s) sL None;
  pf_struct : Struct sL;
  pf_empty : Heap.ids (heap sL) = [];
  pf_frame : sframe (passStart s) sL;
  pf_untouched : forall x, isDone sL x = false -> nd sL x = nd s x;
  pf_nodes : nodes s' = nodes sL;
  pf_fields : binds s' = binds sL /\ next s' = next sL /\ reg s' = reg sL /\ obs s' = obs sL /\
              adj s' = adj sL /\ invq s' = invq sL /\ numNodes s' = numNodes sL /\
              maxHeight s' = maxHeight sL;
  pf_stabNum : stabNum sL = stabNum s /\ stabNum s' = stabNum s + 1;
  pf_kpos : 1 <= stabNum s;
  pf_quiet : status s' = 0 /\ handlers s' = [] /\ setDuring s' = [] /\ setRemoved s' = [];
  pf_log : log s' = hev ++ EvPassEnd XOk :: log sL /\ Forall isHandlerEv hev;
  pf_heap : HeapSpec.inv (heap s') /\
            (forall x, x ∈ Heap.ids (heap s') <->
                       inGraph (nd sL x) = true /\ isAlways (nkind (nd sL x)) = true) /\
            (forall x, x ∈ Heap.ids (heap s') -> Heap.hinOf (heap s') x = height (nd sL x)) /\
            cursor_ok (heap s')
}.

Lemma pass_endB s s' :
  Inv s -> ValInvB s -> NoLhs s -> stabilize [] false s = Ok (s', None) ->
  exists sL hev, PassEndB s s' sL hev.
Proof.
  intros IV V HNL H. pose proof (Inv_wfb s IV) as Hwf. destruct (wfb_transients _ Hwf) as (Hst & Hsd & Hsr & Hh).
  destruct (stabilize_nil_inv s s' Hst Hsd Hsr H) as (sL & at_ & always & sR & hev & EL & ER & Es & Hhev).
  fold (passStart s) in EL. set (s1 := passStart s) in *.
  pose proof (Inv_Struct s IV) as HS.
  assert (HS1 : Struct s1).
  { destruct HS. constructor; assumption. }
  pose proof (LInvB_start s IV V HNL) as L1. fold s1 in L1.
  assert (HA1 : AlwaysOK s1 []).
  { split; [|intros x Hx; inv Hx]. intros x _ Hd. exfalso.
    pose proof (stamps_node_true _ _ (vb_stamps _ V x)). unfold isDone in Hd. apply Z.eqb_eq in Hd.
    change (recomputedAt (nd s x) = stabNum s) in Hd. lia. }
  destruct (loop_LInvB _ _ _ s1 [] sL None at_ always HS1 L1 HA1 EL) as (_ & LL & Hemp & FL & HAL & HuL & HcL).
  pose proof (sf_Struct _ _ FL HS1) as HSL.
  pose proof (proj1 (lb_heap _ _ _ _ LL)) as IL.
  destruct (requeue_spec always sL sR IL) as (OR & IR & MR & HinR & HcR); [| |exact ER|].
  { intros x Hx. apply (st_hnonneg _ HSL). apply (proj2 HAL x Hx). }
  { intros x Hx. rewrite Hemp in Hx. inv Hx. }
  assert (HsdL : setDuring sL = []) by (rewrite (sf_setDuring _ _ FL); exact Hsd).
  assert (HsrL : setRemoved sL = []) by (rewrite (sf_setRemoved _ _ FL); exact Hsr).
  specialize (Es HsdL HsrL).
  assert (HndR : forall x, nd sR x = nd sL x) by (intros; apply (oh_nd _ _ OR)).
  exists sL, hev. constructor.
  - exact LL.
  - exact HSL.
  - exact Hemp.
  - exact FL.
  - intros x Hx. apply (HuL x Hx).
  - rewrite Es. cbn. apply (oh_nodes _ _ OR).
  - rewrite Es. cbn. rewrite (oh_binds _ _ OR), (oh_next _ _ OR), (oh_reg _ _ OR), (oh_obs _ _ OR),
      (oh_adj _ _ OR), (oh_invq _ _ OR), (oh_numNodes _ _ OR), (oh_maxHeight _ _ OR). repeat split.
  - split; [apply (sf_stabNum _ _ FL)|]. rewrite Es. cbn. rewrite (oh_stabNum _ _ OR), (sf_stabNum _ _ FL).
    reflexivity.
  - pose proof (stamps_node_true _ _ (vb_stamps _ V 0%nat)). lia.
  - rewrite Es. cbn. auto.
  - split; [|exact Hhev]. rewrite Es. cbn. rewrite (oh_log _ _ OR). reflexivity.
  - assert (Eh : heap s' = heap sR) by (rewrite Es; reflexivity). rewrite Eh. split; [exact IR|]. split.
    + intros x. rewrite MR, Hemp, elem_of_nil. split.
      * intros [[]|Hx]. apply (proj2 HAL x Hx).
      * intros [Hg Hk]. right. apply (proj1 HAL x Hk).
        destruct (isDone sL x) eqn:Ed; [reflexivity|exfalso].
        assert (Hs : isStale sL x = true).
        { unfold isStale. rewrite (bb_valid _ (lb_bf _ _ _ _ LL) x Hg). simpl.
          destruct (nkind (nd sL x)); try discriminate Hk. reflexivity. }
        pose proof (lb_owed _ _ _ _ LL x Hg Ed Hs) as Hw.
        apply (inW_iff sL None x IL) in Hw as [Hw|?]; [|discriminate]. rewrite Hemp in Hw. inv Hw.
    + split; [intros x Hx; rewrite HinR by exact Hx; reflexivity|].
      apply HcR, HcL. destruct (wfb_all _ Hwf) as (_ & _ & _ & _ & _ & Hq & _).
      unfold queued_ok in Hq. apply andb_true_iff in Hq as [Hq _]. exact (heap_inv_b_cursor _ Hq).
Qed.

Section End.
  Context (s s' sL : state) (hev : list event) (E : PassEndB s s' sL hev) (V : ValInvB s).
  Let k := stabNum s.
  Let LL := pf_inv _ _ _ _ E.
  Let HSL := pf_struct _ _ _ _ E.
  Let IL : HeapSpec.inv (heap sL) := proj1 (lb_heap _ _ _ _ LL).
  Let HBFL : BFB sL := lb_bf _ _ _ _ LL.

  Local Lemma kL : stabNum sL = k. Proof. apply E. Qed.

  Local Lemma notW n : inW sL None n = false.
  Proof. apply inW_false_iff; [exact IL|]. rewrite (pf_empty _ _ _ _ E). split; [apply not_elem_of_nil|discriminate]. Qed.

  Local Lemma stL n : 0 <= changedAt (nd sL n) <= k /\ 0 <= recomputedAt (nd sL n) <= k /\
                      (changedAt (nd sL n) = k -> recomputedAt (nd sL n) = k).
  Proof. rewrite <- kL. apply stamps_node_false, (lb_stamps _ _ _ _ LL). Qed.

  (* with nothing owed, a registered node that has not run is not stale *)
  Local Lemma not_stale n : inGraph (nd sL n) = true -> isDone sL n = false -> isStale sL n = false.
  Proof.
    intros Hg Hd. destruct (isStale sL n) eqn:Es; [|reflexivity].
    pose proof (lb_owed _ _ _ _ LL n Hg Hd Es) as Hw. rewrite notW in Hw. discriminate.
  Qed.

  Local Lemma always_done n : inGraph (nd sL n) = true -> nkind (nd sL n) = KAlways -> isDone sL n = true.
  Proof.
    intros Hg Hk. destruct (isDone sL n) eqn:Ed; [reflexivity|].
    pose proof (not_stale n Hg Ed) as Hs. unfold isStale in Hs. rewrite (bb_valid _ HBFL n Hg), Hk in Hs. discriminate.
  Qed.

  Local Lemma no_parents n : inGraph (nd sL n) = true ->
    (exists e, nkind (nd sL n) = KVar e) \/ nkind (nd sL n) = KReturn -> parents (nd sL n) = [].
  Proof.
    intros Hg Hk. pose proof (bb_arity sL HBFL n) as Ha. unfold arity_ok in Ha.
    assert (Hd : decl (nd sL n) = []).
    { destruct Hk as [[e Hk]|Hk]; rewrite Hk in Ha; apply bool_decide_eq_true in Ha; exact Ha. }
    destruct (parents (nd sL n)) as [|p l] eqn:Ep; [reflexivity|].
    assert (p ∈ decl (nd sL n)) as Hin by (apply (st_par _ HSL n p Hg); rewrite Ep; left).
    rewrite Hd in Hin. inv Hin.
  Qed.

  Local Lemma fresh n p : inGraph (nd sL n) = true -> p ∈ parents (nd sL n) ->
    changedAt (nd sL p) <= recomputedAt (nd sL n).
  Proof.
    intros Hg Hp. destruct (isDone sL n) eqn:Ed.
    - apply isDone_iff in Ed. rewrite Ed, kL. pose proof (stL p). lia.
    - pose proof (not_stale n Hg Ed) as Hs. unfold isStale in Hs. rewrite (bb_valid _ HBFL n Hg) in Hs. simpl in Hs.
      assert (Hnp : parents (nd sL n) = [] -> changedAt (nd sL p) <= recomputedAt (nd sL n)).
      { intros En. rewrite En in Hp. inv Hp. }
      assert (Hsw : staleWrtParents sL (nd sL n) = false -> changedAt (nd sL p) <= recomputedAt (nd sL n)).
      { intros Hf. unfold staleWrtParents in Hf.
        destruct (Z.gtb_spec (changedAt (nd sL p)) (recomputedAt (nd sL n))) as [Hgt|]; [|lia].
        assert (existsb (fun p => changedAt (nd sL p) >? recomputedAt (nd sL n)) (parents (nd sL n)) = true) as Ht.
        { apply existsb_elem. exists p. split; [exact Hp|]. apply Z.gtb_lt. lia. }
        congruence. }
      destruct (nkind (nd sL n)) eqn:K; try discriminate Hs;
        try (apply orb_false_iff in Hs as [_ Hs]; apply Hsw, Hs).
      + apply Hnp, no_parents; eauto.
      + apply Hnp, no_parents; eauto.
  Qed.

  Local Lemma all_guarded n : inGraph (nd sL n) = true -> guarded sL None n = true.
  Proof.
    intros Hg. unfold guarded. apply forallb_intro. intros p Hp. apply andb_true_iff. split.
    - apply Z.leb_le. apply fresh; assumption.
    - apply negb_true_iff. unfold volq. destruct (nkind (nd sL p)) eqn:K; try reflexivity.
      + apply notW.
      + assert (Hgp : inGraph (nd sL p) = true) by (apply (edge_reg sL HSL p n), (parent_edge sL HSL), Hp).
        pose proof (always_done p Hgp K) as Hd. apply isDone_iff in Hd. apply Z.ltb_ge. lia.
  Qed.

  Local Lemma all_consistent_L n : inGraph (nd sL n) = true -> consistent_valB sL n (value (nd sL n)) = true.
  Proof. intros Hg. apply (lb_clean _ _ _ _ LL n Hg (notW n) (all_guarded n Hg)). Qed.

  Local Lemma nd' n : nd s' n = nd sL n.
  Proof. apply nodes_eq_nd, E. Qed.

  Lemma end_BF : BFB s'.
  Proof.
    destruct (pf_fields _ _ _ _ E) as (Hb & Hn & _). exact (BFB_nodes sL s' (pf_nodes _ _ _ _ E) Hb Hn HBFL).
  Qed.

  Lemma end_val n : inGraph (nd s' n) = true -> consistent_valB s' n (value (nd s' n)) = true.
  Proof.
    rewrite nd'. intros Hg. rewrite (consistent_valB_nodes sL s' n _ (pf_nodes _ _ _ _ E) (proj1 (pf_fields _ _ _ _ E))).
    apply all_consistent_L, Hg.
  Qed.

  Lemma end_match b : inGraph (nd s' (S b)) = true -> nkind (nd s' (S b)) = KBindMain b -> matchesOK s' b = true.
  Proof.
    rewrite nd'. intros Hg K. destruct (pf_fields _ _ _ _ E) as (Hb & Hn & _).
    rewrite (matchesOK_nodes sL s' b (pf_nodes _ _ _ _ E) Hb Hn). apply (lb_match _ _ _ _ LL b Hg K).
  Qed.

  Lemma end_consistent_node n : inGraph (nd s' n) = true -> node_consistent s' n = true.
  Proof.
    intros Hg. rewrite (node_consistent_split s' n end_BF). apply andb_true_iff. split; [apply end_val, Hg|].
    destruct (nkind (nd s' n)) eqn:K; try reflexivity.
    destruct (bb_main _ end_BF n b K) as (-> & _). apply end_match; assumption.
  Qed.

  Lemma end_consistent : consistent s' = true.
  Proof.
    unfold consistent, registered. apply forallb_intro. intros n Hn. apply elem_of_list_filter in Hn as [Hg _].
    rewrite (bb_valid _ end_BF n Hg). simpl. apply end_consistent_node, Hg.
  Qed.

  Lemma end_isStale n : isStale s' n = isStale sL n.
  Proof. apply isStale_nodes, E. Qed.


  Local Lemma kpos : 1 <= k. Proof. apply E. Qed.

  (* after the loop the only stale registered nodes are the Always nodes *)
  Local Lemma stale_is_always n : inGraph (nd sL n) = true -> isStale sL n = true -> nkind (nd sL n) = KAlways.
  Proof.
    intros Hg Hs. destruct (isDone sL n) eqn:Ed; [|rewrite (not_stale n Hg Ed) in Hs; discriminate].
    apply isDone_iff in Ed. rewrite kL in Ed. pose proof kpos as Hk.
    unfold isStale in Hs. rewrite (bb_valid _ HBFL n Hg) in Hs. simpl in Hs.
    assert (Hsw : staleWrtParents sL (nd sL n) = false).
    { unfold staleWrtParents. destruct (existsb _ _) eqn:Ex; [|reflexivity].
      apply existsb_elem in Ex as (p & _ & Hp). apply Z.gtb_lt in Hp. pose proof (stL p). lia. }
    assert (H0 : (recomputedAt (nd sL n) =? 0) = false) by (apply Z.eqb_neq; lia).
    destruct (nkind (nd sL n)) eqn:K; try reflexivity; try discriminate Hs;
      rewrite ?H0, ?Hsw in Hs; discriminate Hs.
  Qed.

  Lemma end_ValInvB : ValInvB s'.
  Proof.
    destruct (pf_stabNum _ _ _ _ E) as [_ Hk']. constructor.
    - exact (bb_shape _ end_BF).
    - intros n. unfold stamps_node. rewrite nd', Hk'. pose proof (stL n). fold k.
      rewrite !andb_true_iff, !Z.leb_le, !Z.ltb_lt. lia.
    - intros n Hg Hv. rewrite nd' in *. assert (Hd : isDone sL n = false).
      { destruct (isDone sL n) eqn:Ed; [|reflexivity].
        destruct (lb_orig _ _ _ _ LL n (or_intror Ed)) as [Hg' _]. congruence. }
      rewrite (pf_untouched _ _ _ _ E n Hd) in *. apply (vb_unreg _ V n Hg Hv).
    - intros n Hg Hs. rewrite nd' in Hg. rewrite end_isStale in Hs.
      apply inHeap_iff0; [apply E|]. apply (proj1 (proj2 (pf_heap _ _ _ _ E))). split; [exact Hg|].
      rewrite (stale_is_always n Hg Hs). reflexivity.
    - intros n Hg _ _. apply end_val, Hg.
    - intros b Hg K _ _. apply end_match; assumption.
  Qed.

  (** the events of the pass *)
  Lemma end_log : exists evs, log s' = hev ++ EvPassEnd XOk :: evs ++ EvPassStart :: log s /\
                              Forall (fun e => ev_ok sL e = true) evs /\ NoDup (invoked_of evs).
  Proof.
    destruct (lb_log _ _ _ _ LL) as (evs & Hl & Hall & Hnd). exists evs. split; [|auto].
    rewrite (proj1 (pf_log _ _ _ _ E)), Hl. reflexivity.
  Qed.

  Local Lemma handler_not e : isHandlerEv e -> ev_node e = None.
  Proof. destruct e; simpl; tauto. Qed.

  Lemma end_events evs' e n : log s' = evs' ++ log s -> e ∈ evs' -> ev_node e = Some n -> ev_ok sL e = true.
  Proof.
    intros Hl He Hn. destruct end_log as (evs & Hl' & Hall & _).
    assert (evs' = hev ++ EvPassEnd XOk :: evs ++ [EvPassStart]) as ->.
    { apply (app_inv_tail (log s)). rewrite <- Hl, Hl', <- !app_assoc. simpl. rewrite <- app_assoc. reflexivity. }
    apply elem_of_app in He as [He|He].
    - pose proof (proj2 (pf_log _ _ _ _ E)) as Hh. rewrite Forall_forall in Hh.
      apply elem_of_list_In in He. rewrite (handler_not e (Hh e He)) in Hn. discriminate.
    - apply elem_of_cons in He as [->|He]; [discriminate|].
      apply elem_of_app in He as [He|He].
      + rewrite Forall_forall in Hall. apply Hall, elem_of_list_In, He.
      + apply elem_of_list_singleton in He as ->. discriminate.
  Qed.

  Lemma end_invoked_nodup evs' : log s' = evs' ++ log s -> NoDup (invoked_of evs').
  Proof.
    intros Hl. destruct end_log as (evs & Hl' & _ & Hnd).
    assert (evs' = hev ++ EvPassEnd XOk :: evs ++ [EvPassStart]) as ->.
    { apply (app_inv_tail (log s)). rewrite <- Hl, Hl', <- !app_assoc. simpl. rewrite <- app_assoc. reflexivity. }
    assert (Hh : invoked_of hev = []) by (apply invoked_of_handlers, E).
    unfold invoked_of in *. rewrite omap_app, Hh. simpl. rewrite omap_app. simpl. rewrite app_nil_r. exact Hnd.
  Qed.

  (* C02 *)
  Lemma end_args_final evs' n args r :
    log s' = evs' ++ log s -> EvInvoked n args r ∈ evs' ->
    args = map (valueOf s') (decl (nd s' n)) /\ r = value (nd s' n) /\ recomputedAt (nd s' n) = k.
  Proof.
    intros Hl He. pose proof (end_events evs' _ n Hl He eq_refl) as Hok. unfold ev_ok in Hok.
    rewrite !andb_true_iff in Hok. destruct Hok as [[Hd Ha] Hr].
    apply bool_decide_eq_true in Ha. apply Z.eqb_eq in Hr. apply isDone_iff in Hd. rewrite kL in Hd.
    rewrite nd'. split; [|auto]. rewrite Ha. apply map_ext. intros p. symmetry. apply valueOf_nodes, E.
  Qed.

  (* structure carried from the start of the pass *)
  Local Lemma FL : sframe (passStart s) sL. Proof. apply E. Qed.
  Lemma end_inGraph n : inGraph (nd s' n) = inGraph (nd s n).
  Proof. rewrite nd'. apply (sf_inGraph _ _ FL). Qed.
  Lemma end_parents n : parents (nd s' n) = parents (nd s n).
  Proof. rewrite nd'. apply (sf_parents _ _ FL). Qed.
  Lemma end_children n : children (nd s' n) = children (nd s n).
  Proof. rewrite nd'. apply (sf_children _ _ FL). Qed.
  Lemma end_skel n : skel (nd s' n) = skel (nd s n).
  Proof. rewrite nd'. apply (sf_nd _ _ FL). Qed.

  (* C03: whoever ran was registered and owed *)
  Lemma end_ran_was_owed n : recomputedAt (nd s' n) = k ->
    inGraph (nd s n) = true /\
    (n ∈ Heap.ids (heap s) \/ exists p, p ∈ parents (nd s n) /\ changedAt (nd s' p) = k).
  Proof.
    rewrite nd'. intros Hd. rewrite <- kL in Hd. apply isDone_iff in Hd.
    destruct (lb_orig _ _ _ _ LL n (or_intror Hd)) as [Hg Ho]. rewrite (sf_inGraph _ _ FL) in Hg.
    split; [exact Hg|]. unfold origin in Ho. apply orb_true_iff in Ho as [Ho|Ho].
    - left. apply bool_decide_eq_true in Ho. exact Ho.
    - right. apply existsb_elem in Ho as (p & Hp & Hc). rewrite (sf_parents _ _ FL) in Hp.
      exists p. split; [exact Hp|]. rewrite nd'. apply Z.eqb_eq in Hc. rewrite kL in Hc. exact Hc.
  Qed.

  Lemma end_event_ran evs' e n : log s' = evs' ++ log s -> e ∈ evs' -> ev_node e = Some n ->
    recomputedAt (nd s' n) = k.
  Proof.
    intros Hl He Hn. pose proof (end_events evs' e n Hl He Hn) as Hok. rewrite nd', <- kL. apply isDone_iff.
    destruct e; try discriminate Hn; injection Hn as ->; unfold ev_ok in Hok; rewrite !andb_true_iff in Hok; tauto.
  Qed.

  Lemma end_ran_not_lhs n : recomputedAt (nd s' n) = k -> isLhs (nkind (nd s n)) = false.
  Proof.
    rewrite nd'. intros Hd. rewrite <- kL in Hd. apply isDone_iff in Hd.
    pose proof (lb_ran _ _ _ _ LL n Hd) as H. rewrite (sf_nkind _ _ FL) in H. exact H.
  Qed.

  (* C03: whoever was owed ran *)
  Lemma end_owed_ran n : inGraph (nd s n) = true ->
    (n ∈ Heap.ids (heap s) \/ exists p, p ∈ parents (nd s n) /\ changedAt (nd s' p) = k) ->
    recomputedAt (nd s' n) = k.
  Proof.
    intros Hg Ho. rewrite nd', <- kL. apply isDone_iff. rewrite <- end_inGraph, nd' in Hg.
    destruct Ho as [Hq|(p & Hp & Hc)].
    - destruct (lb_prog _ _ _ _ LL n Hq) as [Hw|Hd]; [rewrite notW in Hw; discriminate|exact Hd].
    - destruct (isDone sL n) eqn:Ed; [reflexivity|exfalso].
      rewrite <- end_parents, nd' in Hp. rewrite nd' in Hc.
      pose proof (fresh n p Hg Hp) as Hf. pose proof (stL n) as Hn.
      unfold isDone in Ed. apply Z.eqb_neq in Ed. rewrite kL in Ed. lia.
  Qed.

  (* C11: a cut node's stamp and value are untouched, and no dependent ran on its account *)
  Lemma end_cut_stops evs' n old new :
    log s' = evs' ++ log s -> EvCutoff n old new true ∈ evs' ->
    changedAt (nd s' n) < k /\ value (nd s' n) = old /\
    forall c, c ∈ children (nd s n) -> recomputedAt (nd s' c) = k ->
      c ∈ Heap.ids (heap s) \/ exists p, p ∈ parents (nd s c) /\ p <> n /\ changedAt (nd s' p) = k.
  Proof.
    intros Hl He. pose proof (end_events evs' _ n Hl He eq_refl) as Hok. unfold ev_ok in Hok.
    rewrite !andb_true_iff in Hok. destruct Hok as [_ [Hc Hv]]. apply Z.ltb_lt in Hc. apply Z.eqb_eq in Hv.
    rewrite kL in Hc. rewrite nd'. split; [exact Hc|]. split; [exact Hv|].
    intros c _ Hd. destruct (end_ran_was_owed c Hd) as [_ [?|(p & Hp & Hpc)]]; [auto|].
    right. exists p. split; [exact Hp|]. split; [|exact Hpc]. intros ->. rewrite nd' in Hpc. lia.
  Qed.
End End.
(** * K'. The pass theorems: graphs with binds, passes in which no lhs-change node is reached *)

Lemma passB_Inv s s' : Inv s -> stabilize [] false s = Ok (s', None) -> Inv s' /\ wfb s' = true.
Proof.
  intros IV H. assert (I' : Inv s').
  { apply (Inv_step_stabilize s (Stabilize []) s' None IV); try reflexivity; try discriminate. exact H. }
  split; [exact I'|exact (Inv_wfb s' I')].
Qed.

(** C02: every function invocation of the pass saw the values its inputs hold when the pass
    returns, and returned the value its node holds then; the node ran in this pass *)
Theorem passB_args_final s s' :
  Inv s -> ValInvB s -> NoLhs s -> stabilize [] false s = Ok (s', None) ->
  forall evs n args r, log s' = evs ++ log s -> EvInvoked n args r ∈ evs ->
    args = map (valueOf s') (decl (nd s' n)) /\ r = value (nd s' n) /\
    recomputedAt (nd s' n) = stabNum s.
Proof.
  intros IV V HNL H evs n args r Hl He. destruct (pass_endB s s' IV V HNL H) as (sL & hev & E).
  exact (end_args_final s s' sL hev E evs n args r Hl He).
Qed.

(** C01, pass half: local consistency of every registered node -- for a bind main node: it holds
    the value of the bind's right-hand side, which is the instantiation of the case selected by
    the current value of the bind's input -- and both invariants again *)
Theorem passB_consistent s s' :
  Inv s -> ValInvB s -> NoLhs s -> stabilize [] false s = Ok (s', None) ->
  consistent s' = true /\ ValInvB s' /\ Inv s' /\ wfb s' = true.
Proof.
  intros IV V HNL H. destruct (pass_endB s s' IV V HNL H) as (sL & hev & E).
  split; [exact (end_consistent s s' sL hev E)|]. split; [exact (end_ValInvB s s' sL hev E V)|].
  exact (passB_Inv s s' IV H).
Qed.

(** no bind changed: the bind records (with the ghost generation counter [b_gen], which counts
    the returns of the bind's function) and the graph structure are constant *)
Theorem passB_structure_const s s' :
  Inv s -> ValInvB s -> NoLhs s -> stabilize [] false s = Ok (s', None) ->
  (forall n, skel (nd s' n) = skel (nd s n)) /\ (forall n, has s' n <-> has s n) /\
  binds s' = binds s /\ next s' = next s /\ reg s' = reg s /\ obs s' = obs s.
Proof.
  intros IV V HNL H. destruct (pass_endB s s' IV V HNL H) as (sL & hev & E).
  pose proof (pf_frame _ _ _ _ E) as F.
  destruct (pf_fields _ _ _ _ E) as (H1 & H2 & H3 & H4 & _).
  split; [intros n; apply (end_skel s s' sL hev E)|].
  split. { intros n. unfold has. rewrite (pf_nodes _ _ _ _ E). apply (sf_has _ _ F). }
  rewrite H1, H2, H3, H4, (sf_binds _ _ F), (sf_next _ _ F), (sf_reg _ _ F), (sf_obs _ _ F).
  repeat split; reflexivity.
Qed.

(** C03: exactly the owed nodes ran, each once *)
Theorem passB_runs_owed s s' :
  Inv s -> ValInvB s -> NoLhs s -> stabilize [] false s = Ok (s', None) ->
  let k := stabNum s in
  forall evs, log s' = evs ++ log s ->
  (forall e n, e ∈ evs -> ev_node e = Some n -> recomputedAt (nd s' n) = k) /\
  (forall n, recomputedAt (nd s' n) = k ->
     inGraph (nd s n) = true /\
     (n ∈ Heap.ids (heap s) \/ exists p, p ∈ parents (nd s n) /\ changedAt (nd s' p) = k)) /\
  NoDup (invoked_of evs) /\
  (forall n, inGraph (nd s n) = true ->
     (isStale s n = true \/ n ∈ Heap.ids (heap s) \/
      exists p, p ∈ parents (nd s n) /\ changedAt (nd s' p) = k) ->
     recomputedAt (nd s' n) = k) /\
  (forall n, recomputedAt (nd s' n) <> k ->
     value (nd s' n) = value (nd s n) /\ recomputedAt (nd s' n) = recomputedAt (nd s n)
     /\ changedAt (nd s' n) = changedAt (nd s n)) /\
  (* no lhs-change node ran *)
  (forall n, recomputedAt (nd s' n) = k -> isLhs (nkind (nd s n)) = false).
Proof.
  intros IV V HNL H k evs Hl. destruct (pass_endB s s' IV V HNL H) as (sL & hev & E).
  pose proof (Inv_wfb s IV) as Hwf.
  split; [intros e n; apply (end_event_ran s s' sL hev E evs e n Hl)|].
  split; [apply (end_ran_was_owed s s' sL hev E)|].
  split; [apply (end_invoked_nodup s s' sL hev E evs Hl)|].
  split; [|split].
  - intros n Hg [Hs|Ho]; apply (end_owed_ran s s' sL hev E n Hg); [|exact Ho].
    left. apply inHeap_iff0; [apply (wfb_queued s Hwf)|]. apply (vb_owed _ V n Hg Hs).
  - intros n Hn. assert (Hd : isDone sL n = false).
    { unfold isDone. apply Z.eqb_neq. rewrite (proj1 (pf_stabNum _ _ _ _ E)).
      rewrite <- (nodes_eq_nd _ _ (pf_nodes _ _ _ _ E) n). exact Hn. }
    rewrite (nodes_eq_nd _ _ (pf_nodes _ _ _ _ E) n), (pf_untouched _ _ _ _ E n Hd). auto.
  - intros n Hn. exact (end_ran_not_lhs s s' sL hev E n Hn).
Qed.

(** C11, pass half *)
Theorem passB_cut_stops s s' :
  Inv s -> ValInvB s -> NoLhs s -> stabilize [] false s = Ok (s', None) ->
  forall evs n old new, log s' = evs ++ log s -> EvCutoff n old new true ∈ evs ->
    changedAt (nd s' n) < stabNum s /\ value (nd s' n) = old /\
    forall c, c ∈ children (nd s n) -> recomputedAt (nd s' c) = stabNum s ->
      c ∈ Heap.ids (heap s) \/
      exists p, p ∈ parents (nd s c) /\ p <> n /\ changedAt (nd s' p) = stabNum s.
Proof.
  intros IV V HNL H evs n old new Hl He. destruct (pass_endB s s' IV V HNL H) as (sL & hev & E).
  exact (end_cut_stops s s' sL hev E evs n old new Hl He).
Qed.

Lemma rns_preserves_LInvB h0 base fuel s m s' e imm :
  Struct s -> LInvB h0 base s (Some m) ->
  recomputeNodeSerial fuel [] s m = Ok (s', e, imm) ->
  e = None /\ LInvB h0 base s' imm.
Proof.
  intros HS L H.
  assert (HmW : inW s (Some m) m = true) by (apply inW_iff; [apply (lb_heap _ _ _ _ L)|]; right; reflexivity).
  assert (Hg : inGraph (nd s m) = true) by (apply (lb_orig _ _ _ _ L m); left; exact HmW).
  destruct (rns_stepB fuel s m s' e imm (lb_bf _ _ _ _ L) (has_inGraph _ _ Hg)
              (proj1 (lb_heap _ _ _ _ L)) (lb_nolhs _ _ _ _ L m m HmW (rtc_refl _ _)) H) as [-> P].
  split; [reflexivity|]. exact (step_LInvB h0 base s m s' imm HS L P).
Qed.

(** * O'. From local consistency to the from-scratch semantics (SpecProofs, Theorem A) *)
From incr Require Import SpecProofs.

Lemma kind_has s n : nkind (nd s n) <> KReturn -> has s n.
Proof.
  intros K. destruct (decide (has s n)) as [|Hno]; [assumption|]. rewrite (not_has_nd _ _ Hno) in K. contradiction.
Qed.

Lemma Inv_main_kind s b : Inv s -> has s b -> nkind (nd s b) = KBindLhs b -> nkind (nd s (S b)) = KBindMain b.
Proof.
  intros I Hb K. pose proof (inv_kinds _ I b Hb) as Hk. rewrite K in Hk. destruct Hk as [_ [r E]].
  apply (bw_kind_main _ _ _ (inv_binds _ I b r E)).
Qed.

Lemma Inv_notLhs_decl s n q :
  Inv s -> q ∈ decl (nd s n) -> (forall b, nkind (nd s n) <> KBindMain b) -> notLhs s q = true.
Proof.
  intros I Hq Hk. unfold notLhs. destruct (nkind (nd s q)) eqn:K; try reflexivity. exfalso.
  pose proof (sc_lhs _ (inv_scoping _ I) n q b Hq K) as ->.
  assert (Hhq : has s q) by (apply kind_has; rewrite K; discriminate).
  pose proof (inv_kinds _ I q Hhq) as Hkq. rewrite K in Hkq. destruct Hkq as [-> _].
  apply (Hk b). apply (Inv_main_kind s b I Hhq K).
Qed.

Lemma Inv_closed s : Inv s -> Shape s -> closed s = true.
Proof.
  intros I HSh. unfold closed. apply andb_true_iff. split.
  - apply forallb_intro. intros [n x] Hx. apply elem_of_map_to_list in Hx.
    assert (Hn : has s n) by (exists x; exact Hx). pose proof (nd_lookup _ _ _ Hx) as Ex.
    unfold node_closed. apply andb_true_iff. split; [apply Nat.ltb_lt, (io_lt _ (inv_ids _ I)), Hn|].
    pose proof (HSh n x Hx) as Hs. unfold shape_node in Hs. rewrite !andb_true_iff in Hs. destruct Hs as [[Ha _] Hal].
    assert (Hdef : (forall b, nkind x <> KBindMain b) -> forallb (notLhs s) (decl x) = true).
    { intros Hk. apply forallb_intro. intros q Hq. apply (Inv_notLhs_decl s n q I); rewrite Ex; assumption. }
    destruct (nkind x) eqn:K; try (apply Hdef; intros b0; discriminate).
    + unfold always_lt in Hal. rewrite K in Hal. destruct (decl x) as [|a [|]] eqn:D; try discriminate Hal.
      rewrite Hal. simpl. apply (Inv_notLhs_decl s n a I); rewrite Ex; [rewrite D; left|rewrite K; discriminate].
    + pose proof (inv_kinds _ I n Hn) as Hk. rewrite Ex, K in Hk. destruct Hk as [-> [r E]].
      pose proof (inv_binds _ I b r E) as W.
      rewrite !andb_true_iff. split; [split; [split|]|].
      * apply bool_decide_eq_true. reflexivity.
      * apply bool_decide_eq_true. eauto.
      * apply bool_decide_eq_true. apply W.
      * rewrite <- Ex, (bw_decl_main _ _ _ W). simpl. apply forallb_intro. intros q Hq.
        destruct (b_rhs r) as [q0|] eqn:Er; simpl in Hq; [|inv Hq]. apply elem_of_list_singleton in Hq as ->.
        unfold notLhs. destruct (nkind (nd s q0)) eqn:Kq; try reflexivity. exfalso.
        apply (sc_rhs_nl _ (inv_scoping _ I) b q0 b0); [|exact Kq]. unfold bd. rewrite E. exact Er.
  - apply forallb_intro. intros [o n] Hx. apply elem_of_map_to_list in Hx.
    pose proof (ob_user _ (inv_obs _ I) o n Hx) as Hnb. unfold notLhs.
    destruct (nkind (nd s n)) eqn:K; try reflexivity. exfalso.
    assert (Hn : has s n) by (apply kind_has; rewrite K; discriminate).
    pose proof (inv_kinds _ I n Hn) as Hk. rewrite K in Hk. destruct Hk as [-> [r E]]. congruence.
Qed.

(** C01 for the pass: every observer reads the from-scratch value of the node it observes
    ([templates_ok]: no parity cutoff inside a bind template, a restriction on the program) *)
Theorem passB_observers_agree s s' :
  Inv s -> ValInvB s -> NoLhs s -> templates_ok s = true -> stabilize [] false s = Ok (s', None) ->
  observers_agree s' = true.
Proof.
  intros IV V HNL Ht H. destruct (passB_consistent s s' IV V HNL H) as (Hc & V' & I' & Hwf').
  destruct (passB_structure_const s s' IV V HNL H) as (_ & _ & Hb & _).
  apply (C01_observers_agree_proof s' Hwf' (Inv_closed s' I' (vb_shape _ V')) ); [|exact Hc].
  unfold templates_ok in *. rewrite Hb. exact Ht.
Qed.

Theorem passB_all s s' :
  Inv s -> ValInvB s -> NoLhs s -> templates_ok s = true -> stabilize [] false s = Ok (s', None) ->
  consistent s' = true /\ observers_agree s' = true /\ Inv s' /\ ValInvB s' /\ wfb s' = true.
Proof.
  intros IV V HNL Ht H. destruct (passB_consistent s s' IV V HNL H) as (Hc & V' & I' & Hwf').
  split; [exact Hc|]. split; [exact (passB_observers_agree s s' IV V HNL Ht H)|]. auto.
Qed.

(** * L'. The boolean checkers are sound *)
Lemma shape_b_sound s : shape_b s = true -> Shape s.
Proof. intros H n x E. apply elem_of_map_to_list in E. exact (forallb_elem _ _ _ H E). Qed.

Lemma valinvB_b_sound s : Inv s -> valinvB_b s = true -> ValInvB s.
Proof.
  intros IV. unfold valinvB_b, vb_codes, code. intros [Hk H]%andb_true_iff. apply Z.leb_le in Hk.
  apply bool_decide_eq_true in H.
  destruct (shape_b s) eqn:Hsh; [|discriminate H].
  destruct (forallb (stamps_node s true) (allNodes s)) eqn:H1; [|discriminate H].
  destruct (forallb _ (allNodes s)) eqn:H2 in H; [|discriminate H].
  destruct (forallb _ (allNodes s)) eqn:H3 in H; [|discriminate H].
  destruct (forallb _ (allNodes s)) eqn:H4 in H; [|discriminate H].
  destruct (forallb _ (allNodes s)) eqn:H5 in H; [|discriminate H].
  clear H.
  assert (Hall : forall n, has s n -> n ∈ allNodes s).
  { intros n Hn. apply elem_allNodes. split; [exact Hn|apply (io_lt _ (inv_ids _ IV)), Hn]. }
  constructor.
  - exact (shape_b_sound s Hsh).
  - intros n. destruct (decide (has s n)) as [Hn|Hn]; [apply (forallb_elem _ _ _ H1 (Hall n Hn))|].
    apply stamps_node_true_intro; rewrite (not_has_nd s n Hn); simpl; lia.
  - intros n Hg Hv. destruct (decide (has s n)) as [Hn|Hn]; [|rewrite (not_has_nd s n Hn); auto].
    pose proof (forallb_elem _ _ _ H4 (Hall n Hn)) as Hb. cbv beta in Hb. rewrite Hg, Hv in Hb. simpl in Hb.
    apply andb_true_iff in Hb as [Ha Hb]. apply Z.eqb_eq in Ha, Hb. auto.
  - intros n Hg Hs. pose proof (forallb_elem _ _ _ H2 (Hall n (has_inGraph _ _ Hg))) as Hb. cbv beta in Hb.
    rewrite Hg, Hs in Hb. exact Hb.
  - intros n Hg Hq Hgd. pose proof (forallb_elem _ _ _ H3 (Hall n (has_inGraph _ _ Hg))) as Hb. cbv beta in Hb.
    rewrite Hg, Hq, Hgd in Hb. exact Hb.
  - intros b Hg K Hq Hgd. pose proof (forallb_elem _ _ _ H5 (Hall _ (has_inGraph _ _ Hg))) as Hb. cbv beta in Hb.
    rewrite K, Hg, Hq, Hgd in Hb. rewrite bool_decide_eq_true_2 in Hb by reflexivity. exact Hb.
Qed.

Lemma nolhs_cert_sound s D : HeapSpec.inv (heap s) -> nolhs_cert s D = true -> NoLhs s.
Proof.
  intros I. unfold nolhs_cert. rewrite !andb_true_iff. intros [[H1 H2] H3].
  assert (Hcl : forall w n, reach s w n -> w ∈ D -> n ∈ D).
  { intros w n Hr. induction Hr as [|a c n Hac _ IH]; [auto|]. intros Ha. apply IH.
    pose proof (forallb_elem _ _ _ (forallb_elem _ _ _ H2 Ha) Hac) as Hc. apply bool_decide_eq_true in Hc. exact Hc. }
  intros w n Hw Hr. apply (inHeap_iff0 s w I) in Hw.
  pose proof (forallb_elem _ _ _ H1 Hw) as HwD. apply bool_decide_eq_true in HwD.
  pose proof (forallb_elem _ _ _ H3 (Hcl w n Hr HwD)) as Hn. apply negb_true_iff in Hn. exact Hn.
Qed.

Lemma nolhs_c_sound s : Inv s -> nolhs_c s = true -> NoLhs s.
Proof.
  intros IV H. apply (nolhs_cert_sound s _ (proj1 (wfb_queued s (Inv_wfb s IV))) H).
Qed.

(** * M'. An example: a bind over var 0 whose right-hand side maps var 1; var 1 is written *)
Definition exB_ops : list op :=
  [ NewVar 2 false;                                            (* 0 *)
    NewVar 3 false;                                            (* 1 *)
    NewBind [TMap (Aff 1 1) (TOuter 1%nat); TRet 5] 0%nat;     (* bind 2: lhs-change 2, main 3 *)
    NewMap (Aff 2 0) 3%nat;                                    (* 4 *)
    Observe 4%nat;                                             (* observer 5 *)
    Stabilize [];                                              (* the bind function runs: node 6 = Map over var 1 *)
    SetVar 1%nat 4 ].

Lemma exB_runs : exists s, run_clean (init 64) exB_ops = Some s.
Proof.
  assert (H : match run_clean (init 64) exB_ops with Some _ => true | None => false end = true)
    by (vm_compute; reflexivity).
  destruct (run_clean (init 64) exB_ops) as [s|]; [eauto|discriminate H].
Qed.

Definition exB_pre : state := match run_clean (init 64) exB_ops with Some s => s | None => init 0 end.

Lemma exB_pre_run : run_clean (init 64) exB_ops = Some exB_pre.
Proof. unfold exB_pre. destruct exB_runs as [s ->]. reflexivity. Qed.

Lemma exB_pre_hyps : Inv exB_pre /\ ValInvB exB_pre /\ NoLhs exB_pre /\ templates_ok exB_pre = true.
Proof.
  assert (IV : Inv exB_pre) by (apply (Inv_run_clean 64 exB_ops); [lia|exact exB_pre_run]).
  split; [exact IV|]. split; [apply (valinvB_b_sound _ IV); vm_compute; reflexivity|].
  split; [apply (nolhs_c_sound _ IV); vm_compute; reflexivity|vm_compute; reflexivity].
Qed.

Definition exB_post : state := match stabilize [] false exB_pre with Ok (s, None) => s | _ => init 0 end.
Lemma exB_pass : stabilize [] false exB_pre = Ok (exB_post, None).
Proof.
  assert (H : match stabilize [] false exB_pre with Ok (_, None) => true | _ => false end = true)
    by (vm_compute; reflexivity).
  unfold exB_post. destruct (stabilize [] false exB_pre) as [[s [e|]]| |]; try discriminate H. reflexivity.
Qed.
