(** C12 on graphs WITH binds: a pass whose node functions (and bind functions) write vars computes
    exactly what the write-free pass computes.

    Mid-pass a write only sets the var's [pending] field and records the var in [setDuring]
    (a var that leaves the graph later in the pass moves to [setRemoved]).  [cl s] erases exactly
    that: all [pending] fields, [setDuring], [setRemoved].  Every function a pass runs commutes
    with [cl] (section 1: [f (cl s) = rmap cl (f s)]), an invocation under a writes-only plan is
    invisible through [cl] (section 2); hence the pass with writes, seen through [cl], is the
    write-free pass (section 3). *)
From stdpp Require Import sorting.
From incr Require Import Base Heap HeapSpec HeapProofs EngineDefs Engine EngineRun EngineWf Spec EngineLemmas EngineLocal
     EngineInv EngineInvProofs PassInv PassProofs PassPlanProofs PassBind PassBindProofs PassBindSwap PassBindSwapProofs
     PassBindSwapStep PassBindOps PassBindFault.

Local Arguments valueOf : simpl never.

(** * 1. The erasure and what commutes with it *)
Definition clN (x : node) : node := x <| pending := None |>.
Definition cl (s : state) : state :=
  s <| nodes := clN <$> nodes s |> <| setDuring := [] |> <| setRemoved := [] |>.

Definition clM (m : M) : M := rmap (fun '(s, e) => (cl s, e)) m.

Lemma clN_dummy : clN dummy = dummy. Proof. reflexivity. Qed.
Lemma clN_idem x : clN (clN x) = clN x. Proof. destruct x; reflexivity. Qed.

Lemma nd_cl s m : nd (cl s) m = clN (nd s m).
Proof. unfold nd, cl. cbn. rewrite lookup_fmap. destruct (nodes s !! m); reflexivity. Qed.

Lemma has_cl s m : has (cl s) m <-> has s m.
Proof. unfold has, cl. cbn. rewrite lookup_fmap, fmap_is_Some. reflexivity. Qed.

Lemma cl_idem s : cl (cl s) = cl s.
Proof.
  assert (E : clN <$> (clN <$> nodes s) = clN <$> nodes s).
  { rewrite <- map_fmap_compose. apply map_fmap_ext. intros i x _. apply clN_idem. }
  unfold cl. cbn. rewrite E. reflexivity.
Qed.

(* projections *)
Local Ltac pj := intros; rewrite nd_cl; reflexivity.
Lemma nkind_cl s m : nkind (nd (cl s) m) = nkind (nd s m). Proof. pj. Qed.
Lemma decl_cl s m : decl (nd (cl s) m) = decl (nd s m). Proof. pj. Qed.
Lemma scope_cl s m : scope (nd (cl s) m) = scope (nd s m). Proof. pj. Qed.
Lemma height_cl s m : height (nd (cl s) m) = height (nd s m). Proof. pj. Qed.
Lemma hAdj_cl s m : hAdj (nd (cl s) m) = hAdj (nd s m). Proof. pj. Qed.
Lemma recomputedAt_cl s m : recomputedAt (nd (cl s) m) = recomputedAt (nd s m). Proof. pj. Qed.
Lemma changedAt_cl s m : changedAt (nd (cl s) m) = changedAt (nd s m). Proof. pj. Qed.
Lemma setAt_cl s m : setAt (nd (cl s) m) = setAt (nd s m). Proof. pj. Qed.
Lemma parents_cl s m : parents (nd (cl s) m) = parents (nd s m). Proof. pj. Qed.
Lemma children_cl s m : children (nd (cl s) m) = children (nd s m). Proof. pj. Qed.
Lemma observers_cl s m : observers (nd (cl s) m) = observers (nd s m). Proof. pj. Qed.
Lemma valid_cl s m : valid (nd (cl s) m) = valid (nd s m). Proof. pj. Qed.
Lemma forceNec_cl s m : forceNec (nd (cl s) m) = forceNec (nd s m). Proof. pj. Qed.
Lemma inGraph_cl s m : inGraph (nd (cl s) m) = inGraph (nd s m). Proof. pj. Qed.
Lemma value_cl s m : value (nd (cl s) m) = value (nd s m). Proof. pj. Qed.
Lemma pending_cl s m : pending (nd (cl s) m) = None. Proof. pj. Qed.
Lemma isNecessary_cl s m : isNecessary (nd (cl s) m) = isNecessary (nd s m). Proof. pj. Qed.

Lemma heap_cl s : heap (cl s) = heap s. Proof. reflexivity. Qed.
Lemma binds_cl s : binds (cl s) = binds s. Proof. reflexivity. Qed.
Lemma bd_cl s b : bd (cl s) b = bd s b. Proof. reflexivity. Qed.
Lemma inHeap_cl s m : inHeap (cl s) m = inHeap s m. Proof. reflexivity. Qed.
Lemma scopeHeight_cl s sc : scopeHeight (cl s) sc = scopeHeight s sc.
Proof. destruct sc; [apply height_cl|reflexivity]. Qed.

Lemma valueOf_cl s p : valueOf (cl s) p = valueOf s p.
Proof. apply valueOf_ext. intros n. rewrite nd_cl. auto. Qed.


(* state modifiers *)
Definition clc (f : node -> node) : Prop := forall x, f (clN x) = clN (f x).

Lemma fmap_alter_clN (f : node -> node) n (m : gmap nid node) :
  clc f -> alter f n (clN <$> m) = clN <$> alter f n m.
Proof.
  intros Hf. apply map_eq. intros i. rewrite lookup_fmap. destruct (decide (i = n)) as [->|Hi].
  - rewrite !lookup_alter, lookup_fmap. destruct (m !! n); simpl; [rewrite Hf|]; reflexivity.
  - rewrite !lookup_alter_ne, lookup_fmap by congruence. reflexivity.
Qed.

Lemma cl_upd s n f : clc f -> upd (cl s) n f = cl (upd s n f).
Proof. intros Hf. unfold upd, cl. cbn. rewrite (fmap_alter_clN f n (nodes s) Hf). reflexivity. Qed.

Lemma clc_set {A} (pr : node -> A) `{!Setter pr} (g : A -> A) :
  (forall x, set pr g (clN x) = clN (set pr g x)) -> clc (set pr g).
Proof. intros H x. apply H. Qed.

Local Ltac clc := let x := fresh "x" in intros x; destruct x; reflexivity.

Lemma cl_emit e s : emit e (cl s) = cl (emit e s). Proof. reflexivity. Qed.
Lemma cl_updb s b f : updb (cl s) b f = cl (updb s b f). Proof. reflexivity. Qed.
Lemma cl_set_heap s w : (cl s) <| heap := w |> = cl (s <| heap := w |>). Proof. reflexivity. Qed.
Lemma cl_set_adj s a : (cl s) <| adj := a |> = cl (s <| adj := a |>). Proof. reflexivity. Qed.
Lemma cl_set_invq s q : (cl s) <| invq := q |> = cl (s <| invq := q |>). Proof. reflexivity. Qed.
Lemma cl_set_handlers s h : (cl s) <| handlers := h |> = cl (s <| handlers := h |>). Proof. reflexivity. Qed.

Lemma cl_link s c p : link (cl s) c p = cl (link s c p).
Proof. unfold link. rewrite !cl_upd by clc. reflexivity. Qed.
Lemma cl_unlink s c p : unlink (cl s) c p = cl (unlink s c p).
Proof. unfold unlink. rewrite !cl_upd by clc. reflexivity. Qed.
Lemma cl_insert_handler k s : insert_handler k (cl s) = cl (insert_handler k s).
Proof. reflexivity. Qed.

Lemma cl_addNode s n : addNode (cl s) n = cl (addNode s n).
Proof.
  unfold addNode. rewrite inGraph_cl. destruct (inGraph (nd s n)); [reflexivity|].
  rewrite cl_upd by clc. reflexivity.
Qed.

(* combinators *)
Lemma rmap_rbind {A B C} (m : res A) (k : A -> res B) (f : B -> C) :
  rmap f (rbind m k) = rbind m (fun a => rmap f (k a)).
Proof. destruct m; reflexivity. Qed.

Lemma rbind_rmap {A B C} (m : res A) (f : A -> B) (k : B -> res C) :
  rbind (rmap f m) k = rbind m (fun a => k (f a)).
Proof. destruct m; reflexivity. Qed.

Lemma rbind_ext {A B} (m : res A) (k k' : A -> res B) : (forall a, k a = k' a) -> rbind m k = rbind m k'.
Proof. intros H. destruct m; simpl; auto. Qed.

(* [g (cl s) = rmap cl (g s)], continuation commuting *)
Lemma rbind_cl {B} (g g' : res state) (k : state -> res B) (k' : state -> res B) (F : B -> B) :
  g' = rmap cl g -> (forall s1, k' (cl s1) = rmap F (k s1)) -> rbind g' k' = rmap F (rbind g k).
Proof. intros -> Hk. rewrite rbind_rmap, rmap_rbind. apply rbind_ext, Hk. Qed.

Lemma clM_ok s : ok (cl s) = clM (ok s). Proof. reflexivity. Qed.
Lemma clM_fail s x : fail (cl s) x = clM (fail s x). Proof. reflexivity. Qed.

Lemma ebind_cl (g g' : M) (k k' : state -> M) :
  g' = clM g -> (forall s1, k' (cl s1) = clM (k s1)) -> ebind g' k' = clM (ebind g k).
Proof.
  intros -> Hk. unfold ebind, clM. rewrite rbind_rmap, rmap_rbind. apply rbind_ext. intros [s1 e].
  destruct e; [reflexivity|apply Hk].
Qed.

Lemma lift_cl (g g' : res state) : g' = rmap cl g -> lift g' = clM (lift g).
Proof. intros ->. unfold lift, clM. rewrite rbind_rmap, rmap_rbind. reflexivity. Qed.

Lemma rfold_cl {A} (f : state -> A -> res state) l :
  (forall s a, f (cl s) a = rmap cl (f s a)) -> forall s, rfold f l (cl s) = rmap cl (rfold f l s).
Proof.
  intros Hf. induction l as [|a l IH]; intros s; [reflexivity|]. simpl.
  apply (rbind_cl (f s a)); [apply Hf|apply IH].
Qed.

Lemma efold_cl {A} (f : state -> A -> M) l :
  (forall s a, f (cl s) a = clM (f s a)) -> forall s, efold f l (cl s) = clM (efold f l s).
Proof.
  intros Hf. induction l as [|a l IH]; intros s; [reflexivity|]. simpl.
  apply (ebind_cl (f s a)); [apply Hf|apply IH].
Qed.

(* heap and height primitives *)
Lemma heapAdd_cl s n : heapAdd (cl s) n = rmap cl (heapAdd s n).
Proof. unfold heapAdd. rewrite heap_cl, height_cl. destruct (Heap.add _ _ _); reflexivity. Qed.
Lemma heapAddIfNotPresent_cl s n : heapAddIfNotPresent (cl s) n = rmap cl (heapAddIfNotPresent s n).
Proof. unfold heapAddIfNotPresent. rewrite inHeap_cl. destruct (inHeap s n); [reflexivity|apply heapAdd_cl]. Qed.
Lemma heapRemove_cl s n : heapRemove (cl s) n = rmap cl (heapRemove s n).
Proof. unfold heapRemove. rewrite heap_cl. destruct (Heap.remove _ _); reflexivity. Qed.
Lemma heapFix_cl s n : heapFix (cl s) n = rmap cl (heapFix s n).
Proof. unfold heapFix. rewrite heap_cl, height_cl. destruct (Heap.fix_ _ _ _); reflexivity. Qed.

Lemma setHeight_cl s n h : setHeight (cl s) n h = clM (setHeight s n h).
Proof.
  unfold setHeight. change (maxHeight (cl s)) with (maxHeight s). destruct (h >? maxHeight s - 1); [reflexivity|].
  change (adj (cl s)) with (adj s). destruct (h >? a_maxSeen (adj s)).
  - rewrite cl_set_adj, cl_upd by clc. reflexivity.
  - rewrite cl_upd by clc. reflexivity.
Qed.

(** ** teardown *)
Lemma zeroNode_cl s n : zeroNode (cl s) n = rmap cl (zeroNode s n).
Proof.
  unfold zeroNode. rewrite inHeap_cl.
  apply (rbind_cl (if inHeap s n then heapRemove s n else Ok s)).
  - destruct (inHeap s n); [apply heapRemove_cl|reflexivity].
  - intros s1. cbn [rmap rbind]. f_equal.
    set (Y := s1 <| numNodes := numNodes s1 - 1 |> <| handlers := rm n (handlers s1) |>
                 <| setRemoved := if bool_decide (n ∈ setDuring s1) then setRemoved s1 ++ [n] else setRemoved s1 |>
                 <| setDuring := rm n (setDuring s1) |>).
    transitivity (upd (cl Y) n (fun x => x <| setAt := 0 |> <| changedAt := 0 |> <| recomputedAt := 0 |>
                          <| parents := [] |> <| children := [] |>
                          <| observers := [] |> <| height := unset |> <| hAdj := unset |>)).
    + reflexivity.
    + apply cl_upd. intros x. destruct x; reflexivity.
Qed.

Lemma removeNode_cl s n : removeNode (cl s) n = rmap cl (removeNode s n).
Proof.
  unfold removeNode. rewrite inGraph_cl. destruct (inGraph (nd s n)); [|apply zeroNode_cl].
  change (reg (cl s)) with (reg s). rewrite cl_upd by (intros x; destruct x; reflexivity).
  change ((cl (upd s n (set inGraph (fun _ : bool => false)))) <| reg := rm n (reg s) |>)
    with (cl ((upd s n (set inGraph (fun _ : bool => false))) <| reg := rm n (reg s) |>)).
  apply zeroNode_cl.
Qed.

Lemma teardown_cl fuel :
  (forall s c, removeParents fuel (cl s) c = rmap cl (removeParents fuel s c)) /\
  (forall s p, checkIfUnnecessary fuel (cl s) p = rmap cl (checkIfUnnecessary fuel s p)).
Proof.
  induction fuel as [|fuel [IH1 IH2]].
  - split; [reflexivity|]. intros s p. unfold checkIfUnnecessary. rewrite isNecessary_cl, inGraph_cl.
    destruct (isNecessary (nd s p)); [reflexivity|]. destruct (negb (inGraph (nd s p))); reflexivity.
  - assert (H1 : forall s c, removeParents (S fuel) (cl s) c = rmap cl (removeParents (S fuel) s c)).
    { intros s c. cbn [removeParents]. rewrite decl_cl. apply rfold_cl. intros st p.
      rewrite cl_unlink, isNecessary_cl, inGraph_cl.
      destruct (isNecessary (nd (unlink st c p) p)); [reflexivity|].
      destruct (negb (inGraph (nd (unlink st c p) p))); [reflexivity|].
      rewrite cl_emit. apply (rbind_cl (removeParents fuel (emit (EvUnnec p) (unlink st c p)) p)); [apply IH1|].
      intros s1. apply removeNode_cl. }
    split; [exact H1|]. intros s p. unfold checkIfUnnecessary. rewrite isNecessary_cl, inGraph_cl.
    destruct (isNecessary (nd s p)); [reflexivity|]. destruct (negb (inGraph (nd s p))); [reflexivity|].
    rewrite cl_emit. apply (rbind_cl (removeParents (S fuel) (emit (EvUnnec p) s) p)); [apply H1|].
    intros s1. apply removeNode_cl.
Qed.

Lemma removeParents_cl fuel s c : removeParents fuel (cl s) c = rmap cl (removeParents fuel s c).
Proof. apply teardown_cl. Qed.
Lemma checkIfUnnecessary_cl fuel s p : checkIfUnnecessary fuel (cl s) p = rmap cl (checkIfUnnecessary fuel s p).
Proof. apply teardown_cl. Qed.

(** ** invalidation *)
Lemma shouldBeInvalidated_cl s n : shouldBeInvalidated (cl s) n = shouldBeInvalidated s n.
Proof.
  unfold shouldBeInvalidated. rewrite valid_cl, nkind_cl, parents_cl. f_equal.
  destruct (nkind (nd s n)); try reflexivity; rewrite ?bd_cl, ?valid_cl; try reflexivity.
  all: apply existsb_ext_local || idtac.
  all: try (intros p; rewrite valid_cl; reflexivity).
Qed.

Lemma invalidateNode_cl fuel : forall s n, invalidateNode fuel (cl s) n = rmap cl (invalidateNode fuel s n).
Proof.
  induction fuel as [|fuel IH]; intros s n; [reflexivity|]. cbn [invalidateNode].
  rewrite valid_cl. destruct (negb (valid (nd s n))); [reflexivity|].
  change (stabNum (emit (EvInval n) (cl s))) with (stabNum (emit (EvInval n) s)).
  rewrite cl_emit, cl_upd by (intros x; destruct x; reflexivity).
  set (sa := upd (emit (EvInval n) s) n _).
  rewrite isNecessary_cl.
  apply (rbind_cl (if isNecessary (nd sa n)
                   then s0 <-! removeParents fuel sa n;
                        Ok (upd s0 n (set height (fun _ => scopeHeight s0 (scope (nd s0 n)) + 1)))
                   else Ok sa)).
  { destruct (isNecessary (nd sa n)); [|reflexivity].
    apply (rbind_cl (removeParents fuel sa n)); [apply removeParents_cl|].
    intros s1. rewrite scope_cl, scopeHeight_cl, cl_upd by (intros x; destruct x; reflexivity). reflexivity. }
  intros sb. rewrite nkind_cl.
  apply (rbind_cl (match nkind (nd sb n) with
                   | KBindMain b => rfold (invalidateNode fuel) (b_rhsNodes (bd sb b)) sb
                   | _ => Ok sb
                   end)).
  { destruct (nkind (nd sb n)); try reflexivity. rewrite bd_cl. apply rfold_cl. intros st a. apply IH. }
  intros sc. rewrite cl_upd by (intros x; destruct x; reflexivity).
  set (sd := upd sc n (set valid (fun _ => false))).
  change (invq (cl sd)) with (invq sd). rewrite children_cl, cl_set_invq, inHeap_cl.
  destruct (inHeap _ n); [apply heapRemove_cl|reflexivity].
Qed.

Lemma propagateInvalidity_cl fuel : forall s, propagateInvalidity fuel (cl s) = rmap cl (propagateInvalidity fuel s).
Proof.
  induction fuel as [|fuel IH]; intros s; [reflexivity|]. cbn [propagateInvalidity].
  change (invq (cl s)) with (invq s). destruct (invq s) as [|n q]; [reflexivity|].
  rewrite cl_set_invq. set (s1 := s <| invq := q |>). rewrite valid_cl, shouldBeInvalidated_cl.
  apply (rbind_cl (if valid (nd s1 n)
                   then if shouldBeInvalidated s1 n then invalidateNode fuel s1 n else heapAddIfNotPresent s1 n
                   else Ok s1)); [|apply IH].
  destruct (valid (nd s1 n)); [|reflexivity].
  destruct (shouldBeInvalidated s1 n); [apply invalidateNode_cl|apply heapAddIfNotPresent_cl].
Qed.

(** ** becoming necessary, adjusting heights *)
Lemma staleWrtParents_cl s m : staleWrtParents (cl s) (nd (cl s) m) = staleWrtParents s (nd s m).
Proof.
  unfold staleWrtParents. rewrite parents_cl, recomputedAt_cl. apply existsb_ext_local.
  intros p. rewrite changedAt_cl. reflexivity.
Qed.

Lemma isStale_cl s n : isStale (cl s) n = isStale s n.
Proof.
  unfold isStale. rewrite valid_cl, nkind_cl, recomputedAt_cl, staleWrtParents_cl. reflexivity.
Qed.

Lemma BN_cl fuel : forall s n, becameNecessaryRecursive fuel (cl s) n = clM (becameNecessaryRecursive fuel s n).
Proof.
  induction fuel as [|fuel IH]; intros s n; [reflexivity|]. cbn [becameNecessaryRecursive].
  rewrite inGraph_cl, cl_addNode.
  set (s2 := if inGraph (nd s n) then addNode s n else emit (EvNec n) (addNode s n)).
  replace (if inGraph (nd s n) then cl (addNode s n) else emit (EvNec n) (cl (addNode s n))) with (cl s2)
    by (unfold s2; destruct (inGraph (nd s n)); reflexivity).
  rewrite scope_cl, scopeHeight_cl.
  apply (ebind_cl (setHeight s2 n (scopeHeight s2 (scope (nd s2 n)) + 1))); [apply setHeight_cl|].
  intros s3. rewrite decl_cl.
  match goal with |- ebind (efold ?f _ _) ?k' = clM (ebind (efold ?g _ _) ?k) =>
    apply (ebind_cl (efold g (decl (nd s3 n)) s3)) end.
  - apply efold_cl. intros st p. rewrite isNecessary_cl, cl_link, valid_cl.
    set (sa := link st n p).
    replace (if valid (nd sa p) then cl sa else cl sa <| invq := invq (cl sa) ++ [n] |>)
      with (cl (if valid (nd sa p) then sa else sa <| invq := invq sa ++ [n] |>))
      by (destruct (valid (nd sa p)); reflexivity).
    set (sb := if valid (nd sa p) then sa else sa <| invq := invq sa ++ [n] |>).
    apply (ebind_cl (if isNecessary (nd st p) then ok sb else becameNecessaryRecursive fuel sb p)).
    + destruct (isNecessary (nd st p)); [reflexivity|apply IH].
    + intros sc. rewrite !height_cl. destruct (_ >=? _); [apply setHeight_cl|reflexivity].
  - intros s4. rewrite isStale_cl. destruct (isStale s4 n); [apply lift_cl, heapAddIfNotPresent_cl|reflexivity].
Qed.

Lemma adjAdd_cl s n : adjAdd (cl s) n = rmap cl (adjAdd s n).
Proof.
  unfold adjAdd. rewrite hAdj_cl, height_cl. destruct (negb _); [reflexivity|].
  destruct (height (nd s n) <? 0); [reflexivity|]. change (adj (cl s)) with (adj s).
  destruct (_ !! _); [|reflexivity]. rewrite cl_upd by (intros x; destruct x; reflexivity). reflexivity.
Qed.

Lemma ensure_cl s o c p : ensureHeightRequirement (cl s) o c p = clM (ensureHeightRequirement s o c p).
Proof.
  unfold ensureHeightRequirement. destruct (bool_decide _); [reflexivity|]. rewrite !height_cl.
  destruct (_ >=? _); [|reflexivity].
  apply (ebind_cl (lift (adjAdd s c))); [apply lift_cl, adjAdd_cl|].
  intros s1. rewrite height_cl. apply setHeight_cl.
Qed.

Definition clP {A} (p : A * state) : A * state := (p.1, cl p.2).

Lemma adjRemoveMin_cl s : adjRemoveMin (cl s) = rmap clP (adjRemoveMin s).
Proof.
  unfold adjRemoveMin. change (adj (cl s)) with (adj s). destruct (_ =? 0); [reflexivity|].
  destruct (_ <? 0); [reflexivity|]. destruct (adjScan _ _ _) as [[[x n] b']|]; [|reflexivity].
  rewrite cl_upd by (intros y; destruct y; reflexivity). reflexivity.
Qed.

Lemma adjustLoop_cl fuel : forall s o, adjustLoop fuel (cl s) o = clM (adjustLoop fuel s o).
Proof.
  induction fuel as [|fuel IH]; intros s o; [reflexivity|]. cbn [adjustLoop].
  change (adj (cl s)) with (adj s). destruct (_ <=? 0); [reflexivity|].
  rewrite adjRemoveMin_cl. destruct (adjRemoveMin s) as [[r s1]| |]; [|reflexivity|reflexivity].
  cbn [rmap rbind clP fst snd]. destruct r as [p|]; [|reflexivity].
  rewrite inHeap_cl.
  apply (ebind_cl (lift (if inHeap s1 p then heapFix s1 p else Ok s1))).
  { apply lift_cl. destruct (inHeap s1 p); [apply heapFix_cl|reflexivity]. }
  intros s2. rewrite children_cl.
  match goal with |- ebind (efold ?f _ _) ?k' = clM (ebind (efold ?g _ _) ?k) =>
    apply (ebind_cl (efold g (children (nd s2 p)) s2)) end.
  { apply efold_cl. intros st c. apply ensure_cl. }
  intros s3. rewrite nkind_cl.
  match goal with |- ebind ?m' ?k' = clM (ebind ?m ?k) => apply (ebind_cl m) end.
  { destruct (nkind (nd s3 p)); try reflexivity. rewrite bd_cl. apply efold_cl. intros st r.
    rewrite isNecessary_cl. destruct (isNecessary (nd st r)); [apply ensure_cl|reflexivity]. }
  intros s4. apply IH.
Qed.

Lemma adjustHeights_cl fuel s oc op : adjustHeights fuel (cl s) oc op = clM (adjustHeights fuel s oc op).
Proof.
  unfold adjustHeights. rewrite height_cl. change (adj (cl s)) with (adj s). rewrite cl_set_adj.
  match goal with |- ebind ?m' ?k' = clM (ebind ?m ?k) => apply (ebind_cl m) end; [apply ensure_cl|].
  intros s1. apply adjustLoop_cl.
Qed.

Lemma addChild_cl fuel s c p : addChild fuel (cl s) c p = clM (addChild fuel s c p).
Proof.
  unfold addChild.
  match goal with |- ebind ?m' ?k' = clM (ebind ?m ?k) => apply (ebind_cl m) end.
  { unfold addChildWithoutAdjustingHeights. rewrite isNecessary_cl, cl_link, valid_cl.
    set (sa := link s c p).
    replace (if valid (nd sa p) then cl sa else cl sa <| invq := invq (cl sa) ++ [c] |>)
      with (cl (if valid (nd sa p) then sa else sa <| invq := invq sa ++ [c] |>))
      by (destruct (valid (nd sa p)); reflexivity).
    destruct (isNecessary (nd s p)); [reflexivity|apply BN_cl]. }
  intros s1. rewrite !height_cl.
  match goal with |- ebind ?m' ?k' = clM (ebind ?m ?k) => apply (ebind_cl m) end.
  { destruct (_ >=? _); [apply adjustHeights_cl|reflexivity]. }
  intros s2.
  match goal with |- ebind ?m' ?k' = clM (ebind ?m ?k) => apply (ebind_cl m) end.
  { apply lift_cl, propagateInvalidity_cl. }
  intros s3. unfold edgeIsStale. rewrite !recomputedAt_cl, changedAt_cl.
  destruct (_ || _); [apply lift_cl, heapAddIfNotPresent_cl|reflexivity].
Qed.

Lemma changeParent_cl fuel s c o n : changeParent fuel (cl s) c o n = clM (changeParent fuel s c o n).
Proof.
  unfold changeParent. destruct o as [o|], n as [n|].
  - destruct (bool_decide (o = n)); [reflexivity|].
    rewrite cl_unlink, cl_upd by (intros x; destruct x; reflexivity).
    match goal with |- ebind ?m' ?k' = clM (ebind ?m ?k) => apply (ebind_cl m) end; [apply addChild_cl|].
    intros s1. rewrite cl_upd by (intros x; destruct x; reflexivity). apply lift_cl, checkIfUnnecessary_cl.
  - rewrite cl_unlink. apply lift_cl, checkIfUnnecessary_cl.
  - apply addChild_cl.
  - reflexivity.
Qed.

(** ** creating nodes, running a bind function *)
Lemma newNode_cl s k d sc v : newNode (cl s) k d sc v = ((cl (newNode s k d sc v).1), (newNode s k d sc v).2).
Proof.
  unfold newNode. change (next (cl s)) with (next s).
  assert (E : (cl s) <| nodes := <[next s := fresh_node k d sc v]> (nodes (cl s)) |> <| next := S (next s) |> =
              cl (s <| nodes := <[next s := fresh_node k d sc v]> (nodes s) |> <| next := S (next s) |>)).
  { unfold cl. cbn. rewrite fmap_insert. reflexivity. }
  rewrite E. destruct sc as [b|]; reflexivity.
Qed.

Lemma newBind_cl s cases a sc : newBind (cl s) cases a sc = ((cl (newBind s cases a sc).1), (newBind s cases a sc).2).
Proof.
  unfold newBind, newBindWith. change (next (cl s)) with (next s). change (binds (cl s)) with (binds s).
  set (s1 := s <| binds := <[next s := _]> (binds s) |>).
  change ((cl s) <| binds := <[next s := mkBind a (next s) (S (next s)) None [] cases 0%nat false []]> (binds s) |>)
    with (cl s1).
  rewrite newNode_cl. destruct (newNode s1 (KBindLhs (next s)) [a] sc 0) as [s2 n2]. cbn [fst snd].
  apply newNode_cl.
Qed.

Lemma inst_cl x : forall e s sc, inst (cl s) sc x e = ((cl (inst s sc x e).1), (inst s sc x e).2).
Proof.
  induction e as [k| |n|f e IH|f e1 IH1 e2 IH2|c e IH|cases e IH|]; intros s sc; cbn [inst].
  - rewrite newNode_cl. destruct (newNode s KReturn [] sc k). reflexivity.
  - rewrite newNode_cl. destruct (newNode s KReturn [] sc x). reflexivity.
  - reflexivity.
  - rewrite IH. destruct (inst s sc x e) as [s1 a]. cbn [fst snd]. rewrite newNode_cl.
    destruct (newNode s1 _ _ sc 0). reflexivity.
  - rewrite IH1. destruct (inst s sc x e1) as [s1 a1]. cbn [fst snd]. rewrite IH2.
    destruct (inst s1 sc x e2) as [s2 a2]. cbn [fst snd]. rewrite newNode_cl. destruct (newNode s2 _ _ sc 0). reflexivity.
  - rewrite IH. destruct (inst s sc x e) as [s1 a]. cbn [fst snd]. rewrite newNode_cl.
    destruct (newNode s1 _ _ sc 0). reflexivity.
  - rewrite IH. destruct (inst s sc x e) as [s1 a]. cbn [fst snd]. rewrite newBind_cl.
    destruct (newBind s1 cases _ sc). reflexivity.
  - reflexivity.
Qed.

(** * 2. An invocation under a writes-only plan, mid-pass, is invisible through [cl] *)
Lemma cl_pending_upd s v g l :
  cl ((upd s v (set pending g)) <| setDuring := l |>) = cl s.
Proof.
  assert (E : clN <$> alter (set pending g) v (nodes s) = clN <$> nodes s).
  { apply map_eq. intros i. rewrite !lookup_fmap. destruct (decide (i = v)) as [->|Hi].
    - rewrite lookup_alter. destruct (nodes s !! v) as [y|]; [|reflexivity]. destruct y; reflexivity.
    - rewrite lookup_alter_ne by congruence. reflexivity. }
  unfold cl, upd. cbn. rewrite E. reflexivity.
Qed.

Lemma varSet_cl s v x s' : status s = 1 -> varSet s v x = Ok s' -> cl s' = cl s /\ status s' = 1.
Proof.
  intros Hst. unfold varSet. destruct (_ && _ && _); [intros [= <-]; auto|].
  rewrite Hst. cbn. intros [= <-]. split; [apply cl_pending_upd|exact Hst].
Qed.

Lemma applyActions_cl acts : forall s s' f,
  status s = 1 -> Forall (fun a => match a with AFail _ => False | _ => True end) acts ->
  rfold (fun '(s, f) a =>
           match f with
           | Some _ => Ok (s, f)
           | None =>
             match a with
             | AFail k => Ok (s, Some k)
             | ASet v x => s <-! varSet s v x; Ok (s, None)
             | AUpdate v d => s <-! varUpdate s v d; Ok (s, None)
             end
           end) acts (s, None) = Ok (s', f) -> f = None /\ cl s' = cl s.
Proof.
  induction acts as [|a acts IH]; intros s s' f Hst Hall H.
  - injection H as <- <-. auto.
  - inversion Hall as [|? ? Ha Hall']; subst. rewrite rfold_cons in H. destruct a as [k|v x|v d]; [contradiction| |].
    + cbn [rbind] in H. destruct (varSet s v x) as [s1| |] eqn:E1; simpl in H; try discriminate.
      destruct (varSet_cl s v x s1 Hst E1) as [C1 Hst1]. destruct (IH s1 s' f Hst1 Hall' H) as [-> C2].
      split; [reflexivity|congruence].
    + cbn [rbind] in H. unfold varUpdate in H. destruct (varSet s v _) as [s1| |] eqn:E1; simpl in H; try discriminate.
      destruct (varSet_cl s v _ s1 Hst E1) as [C1 Hst1]. destruct (IH s1 s' f Hst1 Hall' H) as [-> C2].
      split; [reflexivity|congruence].
Qed.

Lemma actions_of_writes p n w : writes_only p = true ->
  Forall (fun a => match a with AFail _ => False | _ => True end) (actions_of p n w).
Proof.
  intros Hp. unfold actions_of. apply Forall_forall. intros a Ha. apply elem_of_list_In, elem_of_list_omap in Ha as ([[m w'] a'] & Hin & Hm).
  destruct ((m =? n)%nat && which_eqb w w'); [|discriminate]. injection Hm as ->.
  unfold writes_only in Hp. pose proof (PassProofs.forallb_elem _ _ _ Hp Hin) as Hb. cbv beta iota in Hb.
  destruct a; [discriminate|exact Logic.I|exact Logic.I].
Qed.

Lemma invoke_writes_cl p s n w s' e :
  status s = 1 -> writes_only p = true -> invoke p s n w = Ok (s', e) ->
  e = None /\ cl s' = cl s /\ status s' = 1.
Proof.
  intros Hst Hp H. unfold invoke, applyActions in H. apply rbind_ok in H as ([s1 f] & H1 & H).
  destruct (applyActions_cl _ _ _ _ Hst (actions_of_writes p n w Hp) H1) as [-> C1].
  injection H as <- <-. split; [reflexivity|]. split; [exact C1|].
  change (status s1) with (status (cl s1)). rewrite C1. exact Hst.
Qed.

(** * 3. The pass with writes, seen through [cl], is the write-free pass *)

(** ** the stabilization of a lhs-change node, in two pieces *)
Definition bindFn (b : nat) (br : bindrec) (x : Z) (s : state) : state * option nid :=
  let cases := b_cases br in
  let case := nth (Z.to_nat (x mod Z.of_nat (length cases))) cases TNil in
  let sc := if b_memo br then scope (nd s b) else Some b in
  let '(s, root) := inst s sc x case in
  let s := emit (EvBindFn b x root) s in
  let s := updb s b (fun r => r <| b_gen := S (b_gen r) |>
                               <| b_cache := if b_memo r then b_cache r ++ [(x, root)] else b_cache r |>) in
  (s, root).

Definition bindTail (fuel : nat) (b : nat) (br : bindrec) (s : state) (root : option nid) : M :=
  let s := updb s b (set b_rhs (fun _ => root)) in
  let main := b_main br in
  let s := upd s main (set decl (fun _ => match root with Some r => [b; r] | None => [b] end)) in
  s <-? changeParent fuel s main (b_rhs br) root;
  s <-? lift (match b_rhs br with
              | Some _ => rfold (invalidateNode fuel) (b_rhsNodes br) s
              | None => Ok s
              end);
  lift (propagateInvalidity fuel s).

Lemma bindLhs_unfold fuel p s b :
  bindLhsStabilize fuel p s b =
  let br := bd s b in
  let s1 := updb s b (set b_rhsNodes (fun _ => [])) in
  let x := valueOf s1 (b_lhs br) in
  match (if b_memo br then (list_find (fun kv => fst kv = x) (b_cache br)) else None) with
  | Some (_, (_, root)) => bindTail fuel b br s1 root
  | None =>
    '(s2, e) <-! invoke p s1 b WFn;
    match e with
    | Some e => fail (updb s2 b (set b_rhsNodes (fun _ => b_rhsNodes br))) e
    | None => let '(s3, root) := bindFn b br x s2 in bindTail fuel b br s3 root
    end
  end.
Proof.
  unfold bindLhsStabilize, bindTail, bindFn. cbv zeta.
  destruct (if b_memo (bd s b) then _ else None) as [[? [? root]]|]; [reflexivity|].
  cbn [rbind]. destruct (invoke p _ b WFn) as [[s2 [e|]]| |]; cbn [rbind]; try reflexivity.
  destruct (inst s2 _ _ _) as [s3 root]. reflexivity.
Qed.

Lemma bindFn_cl b br x s : bindFn b br x (cl s) = (cl (bindFn b br x s).1, (bindFn b br x s).2).
Proof.
  unfold bindFn. cbv zeta. rewrite scope_cl, inst_cl. destruct (inst s _ x _) as [s3 root]. reflexivity.
Qed.

Lemma bindTail_cl fuel b br s root : bindTail fuel b br (cl s) root = clM (bindTail fuel b br s root).
Proof.
  unfold bindTail. cbv zeta. rewrite cl_updb, cl_upd by (intros y; destruct y; reflexivity).
  match goal with |- ebind ?m' ?k' = clM (ebind ?m ?k) => apply (ebind_cl m) end; [apply changeParent_cl|].
  intros s1.
  match goal with |- ebind ?m' ?k' = clM (ebind ?m ?k) => apply (ebind_cl m) end.
  { apply lift_cl. destruct (b_rhs br); [|reflexivity]. apply rfold_cl. intros st a. apply invalidateNode_cl. }
  intros s2. apply lift_cl, propagateInvalidity_cl.
Qed.

Lemma clM_Ok (m : M) s e : m = Ok (s, e) -> clM m = Ok (cl s, e).
Proof. intros ->. reflexivity. Qed.

Lemma bindLhs_sim fuel p s b s' e :
  status s = 1 -> writes_only p = true ->
  bindLhsStabilize fuel p s b = Ok (s', e) -> bindLhsStabilize fuel [] (cl s) b = Ok (cl s', e).
Proof.
  intros Hst Hp H. rewrite bindLhs_unfold in H. rewrite bindLhs_unfold. cbv zeta in *.
  rewrite bd_cl, cl_updb, valueOf_cl.
  set (br := bd s b) in *. set (s1 := updb s b (set b_rhsNodes (fun _ : list nid => []))) in *.
  set (x := valueOf s1 (b_lhs br)) in *.
  destruct (if b_memo br then _ else None) as [[? [? root]]|].
  - rewrite bindTail_cl. apply clM_Ok, H.
  - apply rbind_ok in H as ([s2 e2] & Hi & H).
    destruct (invoke_writes_cl p s1 b WFn s2 e2 Hst Hp Hi) as (-> & C & _).
    rewrite invoke_nil. cbn [rbind]. rewrite <- C, bindFn_cl.
    destruct (bindFn b br x s2) as [s3 root]. cbn [fst snd]. rewrite bindTail_cl. apply clM_Ok, H.
Qed.

(** ** the other kinds *)
Lemma stabilizeNode_sim fuel p s n s' e :
  status s = 1 -> writes_only p = true ->
  (forall eq, nkind (nd s n) = KVar eq -> recomputedAt (nd s n) = stabNum s) ->
  stabilizeNode fuel p s n = Ok (s', e) -> stabilizeNode fuel [] (cl s) n = Ok (cl s', e).
Proof.
  intros Hst Hp Hr H. unfold stabilizeNode in *. rewrite nkind_cl, pending_cl, decl_cl.
  assert (Hmap : forall args r s1 e1, invoke p s n WFn = Ok (s1, e1) ->
            match e1 with
            | Some e0 => fail s1 e0
            | None => ok (emit (EvInvoked n args r) (upd s1 n (set value (fun _ => r))))
            end = Ok (s', e) ->
            ok (emit (EvInvoked n args r) (upd (cl s) n (set value (fun _ => r)))) = Ok (cl s', e)).
  { intros args r s1 e1 Hi H2. destruct (invoke_writes_cl p s n WFn s1 e1 Hst Hp Hi) as (-> & C & _).
    apply ok_inv in H2 as [-> ->]. rewrite <- C, cl_upd by (intros y; destruct y; reflexivity). reflexivity. }
  destruct (nkind (nd s n)) eqn:K.
  - destruct (pending (nd s n)).
    + rewrite (Hr _ eq_refl), Z.eqb_refl in H. apply ok_inv in H as [-> ->]. reflexivity.
    + apply ok_inv in H as [-> ->]. reflexivity.
  - apply ok_inv in H as [-> ->]. reflexivity.
  - rewrite invoke_nil. cbn [rbind]. rewrite valueOf_cl. apply rbind_ok in H as ([s1 e1] & Hi & H2). eapply Hmap; eauto.
  - rewrite invoke_nil. cbn [rbind]. rewrite !valueOf_cl. apply rbind_ok in H as ([s1 e1] & Hi & H2). eapply Hmap; eauto.
  - rewrite invoke_nil. cbn [rbind]. rewrite (map_ext _ _ (valueOf_cl s)). apply rbind_ok in H as ([s1 e1] & Hi & H2). eapply Hmap; eauto.
  - apply ok_inv in H as [-> ->]. rewrite valueOf_cl, cl_upd by (intros y; destruct y; reflexivity). reflexivity.
  - apply ok_inv in H as [-> ->]. reflexivity.
  - apply (bindLhs_sim fuel p s b s' e Hst Hp H).
  - apply ok_inv in H as [-> ->]. rewrite bd_cl. destruct (b_rhs (bd s b)); rewrite ?valueOf_cl, cl_upd by (intros y; destruct y; reflexivity); reflexivity.
Qed.

(** ** the tails of a recompute *)
Lemma shouldRecomputeChild_cl s c : shouldRecomputeChild (cl s) c = shouldRecomputeChild s c.
Proof.
  unfold shouldRecomputeChild. rewrite inHeap_cl, isNecessary_cl, valid_cl, nkind_cl, recomputedAt_cl, isStale_cl.
  reflexivity.
Qed.

Lemma canRecomputeImmediately_cl s n c : canRecomputeImmediately (cl s) n c = canRecomputeImmediately s n c.
Proof.
  unfold canRecomputeImmediately. rewrite nkind_cl, !height_cl, scope_cl, scopeHeight_cl, parents_cl. reflexivity.
Qed.

Definition clSO {A} (p : state * A) : state * A := (cl p.1, p.2).

Lemma childrenLoop_cl s n : childrenLoop (cl s) n = rmap clSO (childrenLoop s n).
Proof.
  unfold childrenLoop. rewrite children_cl. generalize (@None nid) as held. generalize (children (nd s n)) as l.
  intros l. revert s. induction l as [|c l IH]; intros s held; [reflexivity|].
  rewrite !rfold_cons. destruct (bool_decide (held = Some c)); [apply IH|].
  rewrite shouldRecomputeChild_cl. destruct (negb (shouldRecomputeChild s c)); [apply IH|].
  destruct held as [h|].
  - rewrite heapAdd_cl. destruct (heapAdd s h) as [s1| |]; cbn [rmap rbind]; [apply IH|reflexivity|reflexivity].
  - cbn [rbind]. apply IH.
Qed.

Lemma insert_handlers_cl l : forall s,
  foldl (fun s o => insert_handler o s) (cl s) l = cl (foldl (fun s o => insert_handler o s) s l).
Proof. induction l as [|o l IH]; intros s; [reflexivity|]. simpl. rewrite cl_insert_handler. apply IH. Qed.

Definition clR (r : state * option err * option nid) : state * option err * option nid :=
  (cl r.1.1, r.1.2, r.2).

Lemma successTail_cl s n : successTail (cl s) n = rmap clR (successTail s n).
Proof.
  unfold successTail. cbv zeta. change (stabNum (cl s)) with (stabNum s).
  rewrite cl_upd by (intros y; destruct y; reflexivity). rewrite cl_insert_handler, childrenLoop_cl.
  destruct (childrenLoop _ n) as [[s1 held]| |]; cbn [rmap rbind clSO fst snd]; [|reflexivity|reflexivity].
  destruct held as [h|].
  - rewrite canRecomputeImmediately_cl. destruct (canRecomputeImmediately s1 n h).
    + cbn [rbind]. rewrite observers_cl, insert_handlers_cl. reflexivity.
    + rewrite heapAdd_cl. destruct (heapAdd s1 h) as [s2| |]; cbn [rmap rbind]; [|reflexivity|reflexivity].
      rewrite observers_cl, insert_handlers_cl. reflexivity.
  - cbn [rbind]. rewrite observers_cl, insert_handlers_cl. reflexivity.
Qed.

Lemma cl_errorHandlers s n : errorHandlers (cl s) n = cl (errorHandlers s n).
Proof. unfold errorHandlers. rewrite nkind_cl. destruct (nkind (nd s n)); reflexivity. Qed.

Lemma failTail_cl s n prev e : failTail (cl s) n prev e = rmap clR (failTail s n prev e).
Proof.
  unfold failTail, recomputeFailed.
  assert (G : (s0 <-! heapAddIfNotPresent (upd (cl s) n (set recomputedAt (fun _ => prev))) n;
               Ok (errorHandlers s0 n, Some e, @None nid)) =
              rmap clR (s0 <-! heapAddIfNotPresent (upd s n (set recomputedAt (fun _ => prev))) n;
                        Ok (errorHandlers s0 n, Some e, @None nid))).
  { rewrite cl_upd by (intros y; destruct y; reflexivity). rewrite heapAddIfNotPresent_cl.
    destruct (heapAddIfNotPresent _ n) as [s1| |]; cbn [rmap rbind]; [|reflexivity|reflexivity].
    rewrite cl_errorHandlers. reflexivity. }
  destruct e; try exact G. reflexivity.
Qed.

Lemma rmap_Ok {A B} (f : A -> B) (m : res A) a : m = Ok a -> rmap f m = Ok (f a).
Proof. intros ->. reflexivity. Qed.

(** ** one recompute *)
Lemma rns_sim fuel p s n s' e imm :
  status s = 1 -> writes_only p = true ->
  recomputeNodeSerial fuel p s n = Ok (s', e, imm) ->
  recomputeNodeSerial fuel [] (cl s) n = Ok (cl s', e, imm).
Proof.
  intros Hst Hp H. rewrite recomputeNodeSerial_unfold in H. rewrite recomputeNodeSerial_unfold. cbv zeta in *.
  change (stabNum (cl s)) with (stabNum s). rewrite cl_upd by (intros y; destruct y; reflexivity).
  rewrite nd_cl. change (recomputedAt (clN (nd s n))) with (recomputedAt (nd s n)).
  set (s0 := upd s n (set recomputedAt (fun _ => stabNum s))) in *.
  assert (Hst0 : status s0 = 1) by exact Hst.
  apply rbind_ok in H as ([[s1 e1] cut] & H1 & H).
  (* the cutoff phase *)
  assert (C1 : maybeCutoff [] (cl s0) n (clN (nd s n)) = Ok (cl s1, e1, cut) /\ status s1 = 1 /\
               recomputedAt (nd s1 n) = recomputedAt (nd s0 n) /\ stabNum s1 = stabNum s0).
  { unfold maybeCutoff in *. change (nkind (clN (nd s n))) with (nkind (nd s n)).
    destruct (nkind (nd s n)); try (injection H1 as <- <- <-; auto).
    apply rbind_ok in H1 as ([s2 e2] & Hi & H1).
    destruct (invoke_writes_cl p s0 n WCut s2 e2 Hst0 Hp Hi) as (-> & C & Hst2).
    injection H1 as <- <- <-. rewrite invoke_nil. cbn [rbind]. change (value (clN (nd s n))) with (value (nd s n)).
    change (decl (clN (nd s n))) with (decl (nd s n)). rewrite valueOf_cl, <- C. split; [reflexivity|].
    split; [exact Hst2|]. rewrite nd_emit.
    change (recomputedAt (nd s2 n)) with (recomputedAt (nd (cl s2) n)) at 1 || idtac.
    split.
    - rewrite <- (recomputedAt_cl s2 n), <- (recomputedAt_cl s0 n), C. reflexivity.
    - change (stabNum s2 = stabNum s0). change (stabNum (cl s2) = stabNum (cl s0)). rewrite C. reflexivity. }
  destruct C1 as (C1 & Hst1 & Hr1 & Hk1). rewrite C1. cbn [rbind].
  destruct e1 as [e0|].
  { rewrite failTail_cl. apply (rmap_Ok clR _ _ H). }
  destruct cut; [injection H as <- <- <-; reflexivity|].
  apply rbind_ok in H as ([s2 e2] & H2 & H).
  assert (Hk1n : nkind (nd s1 n) = nkind (nd s n)).
  { apply maybeCutoff_spec in H1 as (V1 & _). destruct (vps_fields _ _ (V1 n)) as (-> & _).
    apply (nd_upd_proj nkind). reflexivity. }
  assert (Hrec1 : forall eq, nkind (nd s1 n) = KVar eq -> recomputedAt (nd s1 n) = stabNum s1).
  { intros eq K. rewrite Hr1, Hk1. unfold s0. rewrite nd_upd_eq; [reflexivity|].
    apply kind_has. rewrite <- Hk1n, K. discriminate. }
  rewrite (stabilizeNode_sim fuel p s1 n s2 e2 Hst1 Hp Hrec1 H2). cbn [rbind].
  destruct e2 as [e0|].
  - rewrite failTail_cl. apply (rmap_Ok clR _ _ H).
  - rewrite successTail_cl. apply (rmap_Ok clR _ _ H).
Qed.

(** ** the chain and the loop *)
Lemma chain_sim fuel p : forall s n s' e at_,
  status s = 1 -> writes_only p = true ->
  recomputeChain fuel p s n = Ok (s', e, at_) -> recomputeChain fuel [] (cl s) n = Ok (cl s', e, at_).
Proof.
  induction fuel as [|fuel IH]; intros s n s' e at_ Hst Hp H; [discriminate|]. cbn [recomputeChain] in *.
  destruct (recomputeNodeSerial fuel p s n) as [[[s1 e1] imm]| |] eqn:E1; simpl in H; try discriminate.
  rewrite (rns_sim fuel p s n s1 e1 imm Hst Hp E1). cbn [rbind].
  destruct (pf_recomputeNodeSerial _ _ _ _ _ _ _ E1) as (_ & _ & Hst1 & _).
  destruct e1 as [e1|]; [injection H as <- <- <-; reflexivity|].
  destruct imm as [c|]; [|injection H as <- <- <-; reflexivity].
  apply (IH s1 c s' e at_); [rewrite Hst1; exact Hst|exact Hp|exact H].
Qed.

Lemma loop_sim fuel p : forall s al s' e at_ al',
  status s = 1 -> writes_only p = true ->
  passLoop fuel p s al = Ok (s', e, at_, al') -> passLoop fuel [] (cl s) al = Ok (cl s', e, at_, al').
Proof.
  induction fuel as [|fuel IH]; intros s al s' e at_ al' Hst Hp H; [discriminate|]. cbn [passLoop] in *.
  rewrite heap_cl. destruct (Heap.cnt (heap s) <=? 0); [injection H as <- <- <- <-; reflexivity|].
  destruct (Heap.removeMin (heap s)) as [[n w]|]; [|discriminate].
  rewrite cl_set_heap. set (s2 := s <| heap := w |>) in *. rewrite nkind_cl.
  destruct (recomputeChain fuel p s2 n) as [[[s3 e3] at3]| |] eqn:E3; simpl in H; try discriminate.
  rewrite (chain_sim fuel p s2 n s3 e3 at3 Hst Hp E3). cbn [rbind].
  destruct e3 as [e3|]; [injection H as <- <- <- <-; reflexivity|].
  destruct (pf_recomputeChain _ _ _ _ _ _ _ E3) as (_ & _ & Hst3 & _).
  apply (IH s3 _ s' e at_ al'); [rewrite Hst3; exact Hst|exact Hp|exact H].
Qed.

(** ** plan-free: equations (so that the write-free run from [s] exists when the one from [cl s] does) *)
Lemma bindLhs_cl fuel s b : bindLhsStabilize fuel [] (cl s) b = clM (bindLhsStabilize fuel [] s b).
Proof.
  rewrite !bindLhs_unfold. cbv zeta. rewrite bd_cl, cl_updb, valueOf_cl.
  destruct (if b_memo (bd s b) then _ else None) as [[? [? root]]|]; [apply bindTail_cl|].
  rewrite !invoke_nil. cbn [rbind]. rewrite bindFn_cl. destruct (bindFn b (bd s b) _ _) as [s3 root]. apply bindTail_cl.
Qed.

Lemma stabilizeNode_cl fuel s n :
  (forall eq, nkind (nd s n) = KVar eq -> recomputedAt (nd s n) = stabNum s) ->
  stabilizeNode fuel [] (cl s) n = clM (stabilizeNode fuel [] s n).
Proof.
  intros Hr. unfold stabilizeNode. rewrite nkind_cl, pending_cl, decl_cl.
  destruct (nkind (nd s n)) eqn:K; try reflexivity.
  - destruct (pending (nd s n)); [|reflexivity]. rewrite (Hr _ eq_refl), Z.eqb_refl. reflexivity.
  - rewrite !invoke_nil. cbn [rbind]. rewrite valueOf_cl, cl_upd by (intros y; destruct y; reflexivity). reflexivity.
  - rewrite !invoke_nil. cbn [rbind]. rewrite !valueOf_cl, cl_upd by (intros y; destruct y; reflexivity). reflexivity.
  - rewrite !invoke_nil. cbn [rbind]. rewrite (map_ext _ _ (valueOf_cl s)), cl_upd by (intros y; destruct y; reflexivity). reflexivity.
  - rewrite valueOf_cl, cl_upd by (intros y; destruct y; reflexivity). reflexivity.
  - apply bindLhs_cl.
  - rewrite bd_cl. destruct (b_rhs (bd s b)); rewrite ?valueOf_cl, cl_upd by (intros y; destruct y; reflexivity); reflexivity.
Qed.

Lemma rns_cl fuel s n : recomputeNodeSerial fuel [] (cl s) n = rmap clR (recomputeNodeSerial fuel [] s n).
Proof.
  rewrite !recomputeNodeSerial_unfold. cbv zeta.
  change (stabNum (cl s)) with (stabNum s). rewrite cl_upd by (intros y; destruct y; reflexivity).
  rewrite nd_cl. change (recomputedAt (clN (nd s n))) with (recomputedAt (nd s n)).
  set (s0 := upd s n (set recomputedAt (fun _ => stabNum s))).
  assert (C1 : maybeCutoff [] (cl s0) n (clN (nd s n)) =
               rmap (fun r : state * option err * bool => (cl r.1.1, r.1.2, r.2)) (maybeCutoff [] s0 n (nd s n))).
  { unfold maybeCutoff. change (nkind (clN (nd s n))) with (nkind (nd s n)).
    destruct (nkind (nd s n)); try reflexivity. rewrite !invoke_nil. cbn [rbind rmap].
    change (value (clN (nd s n))) with (value (nd s n)). change (decl (clN (nd s n))) with (decl (nd s n)).
    rewrite valueOf_cl. reflexivity. }
  rewrite C1. destruct (maybeCutoff [] s0 n (nd s n)) as [[[s1 e1] cut]| |] eqn:H1; cbn [rmap rbind fst snd]; try reflexivity.
  destruct e1 as [e0|]; [apply failTail_cl|]. destruct cut; [reflexivity|].
  assert (Hk1n : nkind (nd s1 n) = nkind (nd s n)).
  { apply maybeCutoff_spec in H1 as (V1 & _). destruct (vps_fields _ _ (V1 n)) as (-> & _).
    apply (nd_upd_proj nkind). reflexivity. }
  assert (Hrec1 : forall eq, nkind (nd s1 n) = KVar eq -> recomputedAt (nd s1 n) = stabNum s1).
  { intros eq K. unfold maybeCutoff in H1. rewrite <- Hk1n, K in H1. injection H1 as <-.
    unfold s0. rewrite nd_upd_eq; [reflexivity|]. apply kind_has. rewrite <- Hk1n, K. discriminate. }
  rewrite (stabilizeNode_cl fuel s1 n Hrec1).
  destruct (stabilizeNode fuel [] s1 n) as [[s2 e2]| |]; cbn [clM rmap rbind]; try reflexivity.
  destruct e2 as [e0|]; [apply failTail_cl|apply successTail_cl].
Qed.

Definition clC (r : state * option err * nid) : state * option err * nid := (cl r.1.1, r.1.2, r.2).
Definition clL (r : state * option err * nid * list nid) : state * option err * nid * list nid :=
  (cl r.1.1.1, r.1.1.2, r.1.2, r.2).

Lemma chain_cl fuel : forall s n, recomputeChain fuel [] (cl s) n = rmap clC (recomputeChain fuel [] s n).
Proof.
  induction fuel as [|fuel IH]; intros s n; [reflexivity|]. cbn [recomputeChain]. rewrite rns_cl.
  destruct (recomputeNodeSerial fuel [] s n) as [[[s1 e1] imm]| |]; cbn [rmap rbind clR fst snd]; try reflexivity.
  destruct e1; [reflexivity|]. destruct imm; [apply IH|reflexivity].
Qed.

Lemma loop_cl fuel : forall s al, passLoop fuel [] (cl s) al = rmap clL (passLoop fuel [] s al).
Proof.
  induction fuel as [|fuel IH]; intros s al; [reflexivity|]. cbn [passLoop]. rewrite heap_cl.
  destruct (Heap.cnt (heap s) <=? 0); [reflexivity|].
  destruct (Heap.removeMin (heap s)) as [[n w]|]; [|reflexivity].
  rewrite cl_set_heap, nkind_cl, chain_cl.
  destruct (recomputeChain fuel [] (s <| heap := w |>) n) as [[[s3 e3] at3]| |]; cbn [rmap rbind clC fst snd]; try reflexivity.
  destruct e3; [reflexivity|apply IH].
Qed.

Lemma requeueAlways_cl al : forall s, requeueAlways al (cl s) = rmap cl (requeueAlways al s).
Proof.
  unfold requeueAlways. apply rfold_cl. intros s n. rewrite height_cl.
  destruct (_ =? unset); [reflexivity|apply heapAddIfNotPresent_cl].
Qed.

Lemma handlers_fold_cl l : forall t,
  foldl (fun s k => match obs s !! k with
                    | Some n => emit (EvObsUpd k (valueOf s n)) s
                    | None => emit (EvUpd k) s
                    end) (cl t) l =
  cl (foldl (fun s k => match obs s !! k with
                        | Some n => emit (EvObsUpd k (valueOf s n)) s
                        | None => emit (EvUpd k) s
                        end) t l).
Proof.
  induction l as [|k l IH]; intros t; [reflexivity|]. simpl.
  change (obs (cl t)) with (obs t). destruct (obs t !! k) as [n|].
  - rewrite valueOf_cl, cl_emit. apply IH.
  - rewrite cl_emit. apply IH.
Qed.

Lemma runUpdateHandlers_cl s : runUpdateHandlers (cl s) = cl (runUpdateHandlers s).
Proof.
  unfold runUpdateHandlers. change (handlers ((cl s) <| status := 2 |>)) with (handlers (s <| status := 2 |>)).
  change ((cl s) <| status := 2 |>) with (cl (s <| status := 2 |>)). rewrite handlers_fold_cl. reflexivity.
Qed.

(** * 4. The end of a pass with writes: the deferred writes are applied *)

(** one deferred write keeps the quiescent invariant (as [PassBindOps.ValInvB_setPost], for
    [PassPlanProofs.wrPost]: the var's [pending] field changes too) *)
Lemma ValInvB_write s v s' :
  Struct s -> BFB s -> ValInvB s -> (exists e, nkind (nd s v) = KVar e) -> wrPost s v s' ->
  Struct s' /\ BFB s' /\ ValInvB s'.
Proof.
  intros HS HB V [e Kv] P.
  destruct (wr_fields _ _ _ P) as (Fb & Fn & Fk).
  destruct (wr_self _ _ _ P) as (a & b0 & c & Eself).
  assert (Hsame : forall m, m <> v -> nd s' m = nd s m) by apply P.
  assert (Hf : forall (A : Type) (g : node -> A) m,
             (forall x a b c, g (x <| value := a |> <| pending := b |> <| setAt := c |>) = g x) ->
             g (nd s' m) = g (nd s m)).
  { intros A g m Hg. destruct (decide (m = v)) as [->|Hm]; [rewrite Eself; apply Hg|rewrite (Hsame m Hm); reflexivity]. }
  assert (Hkind : forall m, nkind (nd s' m) = nkind (nd s m)) by (intros m; apply Hf; reflexivity).
  assert (Hstamp : forall m, recomputedAt (nd s' m) = recomputedAt (nd s m) /\ changedAt (nd s' m) = changedAt (nd s m)
                             /\ inGraph (nd s' m) = inGraph (nd s m) /\ parents (nd s' m) = parents (nd s m)
                             /\ valid (nd s' m) = valid (nd s m) /\ decl (nd s' m) = decl (nd s m)
                             /\ scope (nd s' m) = scope (nd s m)).
  { intros m. repeat split; apply Hf; reflexivity. }
  assert (Hq : forall m, inHeap s m = true -> inHeap s' m = true) by apply P.
  assert (Hstale : forall m, isStale s' m = isStale s m).
  { intros m. destruct (Hstamp m) as (E1 & _ & _ & E4 & E5 & _). apply isStale_fields; try assumption.
    - apply Hkind.
    - rewrite E4. reflexivity.
    - intros p _. apply (Hstamp p). }
  assert (HS' : Struct s').
  { constructor; intros *.
    - rewrite !(Hf _ children), !(Hf _ parents) by reflexivity. apply (st_edge _ HS).
    - rewrite (Hf _ inGraph), (Hf _ parents), (Hf _ children) by reflexivity. apply (st_unreg _ HS).
    - rewrite (Hf _ inGraph), (Hf _ isNecessary) by reflexivity. apply (st_nec _ HS).
    - rewrite (Hf _ inGraph), (Hf _ parents), (Hf _ decl) by reflexivity. apply (st_par _ HS).
    - rewrite (Hf _ inGraph), (Hf _ parents), !(Hf _ height) by reflexivity. apply (st_height _ HS).
    - rewrite (Hf _ inGraph), (Hf _ height) by reflexivity. apply (st_hnonneg _ HS). }
  assert (HSh' : Shape s').
  { intros m y Hy. assert (Hm' : has s' m) by (exists y; exact Hy).
    assert (Hm : has s m) by (apply (wr_has _ _ _ P), Hm').
    rewrite <- (nd_lookup _ _ _ Hy). pose proof (bb_shape_nd s HB m) as Hb'.
    unfold shape_node in *. rewrite !andb_true_iff in *. destruct Hb' as [[H5 H6] H7].
    destruct (Hstamp m) as (_ & _ & _ & _ & _ & E6 & _). split; [split|].
    + unfold arity_ok in *. rewrite Hkind, E6. exact H5.
    + unfold cutalways_zero in *. rewrite Hkind. destruct (decide (m = v)) as [->|Hm2].
      * rewrite Kv. reflexivity.
      * rewrite (Hsame m Hm2). exact H6.
    + unfold always_lt in *. rewrite Hkind, E6. exact H7. }
  assert (Hbd : forall b, bd s' b = bd s b) by (intros b; unfold bd; rewrite Fb; reflexivity).
  assert (HB' : BFB s').
  { constructor.
    - intros n Hn. rewrite Fn. apply (bb_lt _ HB). apply (wr_has _ _ _ P). exact Hn.
    - exact HSh'.
    - intros n. rewrite (Hf _ inGraph), (Hf _ valid) by reflexivity. apply (bb_valid _ HB).
    - intros b. rewrite Hbd. apply (bb_memo _ HB).
    - intros n b. rewrite !Hkind, Hbd, (Hf _ decl) by reflexivity. apply (bb_main _ HB).
    - intros n b. rewrite Hkind, Hbd, (Hf _ decl) by reflexivity. apply (bb_lhs _ HB). }
  split; [exact HS'|]. split; [exact HB'|].
  (* a node that is clean after the write was clean before it, and its inputs read the same *)
  assert (Hcl : forall n, inGraph (nd s n) = true -> inHeap s' n = false -> guarded s' None n = true ->
            inHeap s n = false /\ guarded s None n = true /\
            forall p, p ∈ parents (nd s n) -> valueOf s' p = valueOf s p).
  { intros n Hg HnW Hgd. destruct (Hstamp n) as (En1 & _ & Eg & Ep & _ & Ed & _).
    assert (HnW0 : inHeap s n = false).
    { destruct (inHeap s n) eqn:Eq; [|reflexivity]. rewrite (Hq n Eq) in HnW. discriminate. }
    assert (Hgd_p : forall p, p ∈ parents (nd s n) ->
              changedAt (nd s p) <= recomputedAt (nd s n) /\ volq s' None p = false).
    { intros p Hp. unfold guarded in Hgd. rewrite Ep in Hgd.
      pose proof (PassProofs.forallb_elem _ _ _ Hgd Hp) as Hb'. cbv beta in Hb'. apply andb_true_iff in Hb' as [H1 H2].
      apply Z.leb_le in H1. apply negb_true_iff in H2. destruct (Hstamp p) as (_ & Ec & _).
      rewrite Ec, En1 in H1. auto. }
    split; [exact HnW0|]. split.
    - unfold guarded. apply PassProofs.forallb_intro. intros p Hp. destruct (Hgd_p p Hp) as [H1 H2].
      apply andb_true_iff. split; [apply Z.leb_le; exact H1|]. apply negb_true_iff.
      unfold volq in *. rewrite Hkind in H2. destruct (nkind (nd s p)); try reflexivity.
      + unfold inW in *. rewrite orb_false_r in *. destruct (inHeap s p) eqn:Eq; [|reflexivity].
        rewrite (Hq p Eq) in H2. discriminate.
      + destruct (Hstamp p) as (Er & _). rewrite Er, Fk in H2. exact H2.
    - intros p Hpar. destruct (Hgd_p p Hpar) as [_ Hvq].
      apply (valueOf_changed s s' v p HS).
      + intros m. split; [apply Hkind|apply (Hstamp m)].
      + intros m Hm. rewrite (Hsame m Hm). reflexivity.
      + apply (edge_reg s HS p n), (parent_edge s HS), Hpar.
      + intros ->. assert (Hgv : inGraph (nd s v) = true) by (apply (edge_reg s HS v n), (parent_edge s HS), Hpar).
        unfold volq in Hvq. rewrite Hkind, Kv in Hvq. unfold inW in Hvq. rewrite orb_false_r in Hvq.
        rewrite (wr_queued _ _ _ P Hgv) in Hvq. discriminate.
      + intros [Ka _]. unfold volq in Hvq. rewrite Hkind, Ka in Hvq. apply Z.ltb_ge in Hvq.
        destruct (Hstamp p) as (Er & _). rewrite Er, Fk in Hvq.
        pose proof (stamps_node_true _ _ (vb_stamps _ V p)). lia. }
  constructor.
  - exact HSh'.
  - intros m. unfold stamps_node. destruct (Hstamp m) as (-> & -> & _). rewrite Fk. apply (vb_stamps _ V m).
  - intros m. destruct (Hstamp m) as (-> & -> & -> & _ & -> & _). apply (vb_unreg _ V m).
  - intros m Hg Hs. destruct (Hstamp m) as (_ & _ & Eg & _). rewrite Eg in Hg. rewrite Hstale in Hs.
    apply Hq. apply (vb_owed _ V m Hg Hs).
  - intros n Hg HnW Hgd. destruct (Hstamp n) as (En1 & _ & Eg & Ep & _ & Ed & _). rewrite Eg in Hg.
    destruct (decide (n = v)) as [->|Hnv].
    { apply trivial_consistentB. rewrite Hkind, Kv. reflexivity. }
    destruct (Hcl n Hg HnW Hgd) as (HnW0 & Hgd0 & Hvals).
    pose proof (vb_clean _ V n Hg HnW0 Hgd0) as Hc. rewrite (Hsame n Hnv).
    rewrite (consistent_valB_ext2 s s' n _ HB (Hkind n) Ed); [exact Hc| |].
    + intros p Hp. apply Hvals. apply (st_par _ HS); assumption.
    + intros b _. apply Hbd.
  - intros b Hgm Km HqL HgdL.
    destruct (Hstamp (S b)) as (_ & _ & Egm & _). rewrite Egm in Hgm. rewrite Hkind in Km.
    destruct (bb_main _ HB _ _ Km) as (_ & KL & Hd).
    assert (HgL : inGraph (nd s b) = true).
    { apply (edge_reg s HS b (S b)). apply (decl_parent s HS _ _ Hgm). rewrite Hd. left. }
    destruct (Hcl b HgL HqL HgdL) as (HqL0 & HgdL0 & Hvals).
    pose proof (vb_match _ V b Hgm Km HqL0 HgdL0) as Hm.
    rewrite <- Hm. apply matchesOK_ext; try assumption.
    + intros m. destruct (Hstamp m) as (_&_&_&_&_&Ed&Es). auto.
    + intros m Kr. destruct (decide (m = v)) as [->|Hmv]; [congruence|rewrite (Hsame m Hmv); reflexivity].
    + apply Hvals. apply (st_par _ HS b _ HgL). destruct (bb_lhs _ HB b b KL) as [_ ->]. left.
Qed.

Lemma dsteps_postB l : forall u u',
  Struct u -> BFB u -> ValInvB u -> Forall (fun w => isVar u w = true) l -> rfold dstep l u = Ok u' ->
  Struct u' /\ BFB u' /\ ValInvB u' /\
  (binds u' = binds u /\ next u' = next u /\ stabNum u' = stabNum u) /\
  (forall m, vps (nd u m) (nd u' m)) /\ (forall m, has u' m <-> has u m) /\
  (forall m, inHeap u m = true -> inHeap u' m = true) /\
  (forall m, inHeap u' m = true -> inHeap u m = true \/ m ∈ l) /\
  (forall v, v ∈ l -> inGraph (nd u v) = true -> inHeap u' v = true).
Proof.
  induction l as [|v l IH]; intros u u' HS HB V Hv H.
  - injection H as <-. split; [exact HS|]. split; [exact HB|]. split; [exact V|]. split; [auto|].
    split; [intros m; apply vps_refl|]. split; [tauto|]. split; [auto|]. split; [auto|]. intros w Hw. inversion Hw.
  - rewrite rfold_cons in H. destruct (dstep u v) as [u1| |] eqn:E1; simpl in H; try discriminate.
    inversion Hv as [|? ? Hv1 Hvl]; subst.
    destruct (dstep_wr u v u1 HS Hv1 E1) as (P1 & _).
    destruct (isVar_true _ _ Hv1) as [_ Kv].
    destruct (ValInvB_write u v u1 HS HB V Kv P1) as (HS1 & HB1 & V1).
    assert (Hvps1 : forall m, vps (nd u m) (nd u1 m)).
    { intros m. destruct (decide (m = v)) as [->|Hm]; [exact (wr_self _ _ _ P1)|].
      rewrite (wr_other _ _ _ P1 m Hm). apply vps_refl. }
    assert (Hvl1 : Forall (fun w => isVar u1 w = true) l).
    { eapply List.Forall_impl; [|exact Hvl]. intros w Hw. apply isVar_spec in Hw as [k Hk]. apply isVar_spec.
      exists k. rewrite (proj1 (vps_kind _ _ (Hvps1 w))). exact Hk. }
    destruct (IH u1 u' HS1 HB1 V1 Hvl1 H) as (A1 & A2 & A3 & (F1 & F2 & F3) & A5 & A6 & A7 & A8 & A9).
    destruct (wr_fields _ _ _ P1) as (G1 & G2 & G3).
    split; [exact A1|]. split; [exact A2|]. split; [exact A3|]. split; [repeat split; congruence|].
    split; [intros m; eapply vps_trans; [apply Hvps1|apply A5]|].
    split; [intros m; rewrite (A6 m), (wr_has _ _ _ P1); reflexivity|].
    split; [intros m Hm; apply A7, (wr_heap _ _ _ P1), Hm|].
    split.
    + intros m Hm. destruct (A8 m Hm) as [H1|H1]; [|right; right; exact H1].
      destruct (wr_heap_new _ _ _ P1 m H1) as [?|E]; [auto|right; rewrite E; left].
    + intros w Hw Hg. apply elem_of_cons in Hw as [->|Hw].
      * apply A7. apply (wr_queued _ _ _ P1 Hg).
      * apply (A9 w Hw). rewrite (proj2 (vps_kind _ _ (Hvps1 w))). exact Hg.
Qed.

(** ** the invariants do not see [pending] / [setDuring] / [setRemoved] *)
Section Transport.
  Context (a b : state) (E : cl a = cl b).

  Lemma tr_nd {A} (g : node -> A) m : (forall y, g (clN y) = g y) -> g (nd b m) = g (nd a m).
  Proof. intros Hg. rewrite <- (Hg (nd b m)), <- (Hg (nd a m)), <- !nd_cl, E. reflexivity. Qed.
  Lemma tr_heap : heap b = heap a. Proof. change (heap (cl b) = heap (cl a)). rewrite E. reflexivity. Qed.
  Lemma tr_binds : binds b = binds a. Proof. change (binds (cl b) = binds (cl a)). rewrite E. reflexivity. Qed.
  Lemma tr_next : next b = next a. Proof. change (next (cl b) = next (cl a)). rewrite E. reflexivity. Qed.
  Lemma tr_stabNum : stabNum b = stabNum a. Proof. change (stabNum (cl b) = stabNum (cl a)). rewrite E. reflexivity. Qed.
  Lemma tr_log : log b = log a. Proof. change (log (cl b) = log (cl a)). rewrite E. reflexivity. Qed.
  Lemma tr_obs : obs b = obs a. Proof. change (obs (cl b) = obs (cl a)). rewrite E. reflexivity. Qed.
  Lemma tr_has m : has b m <-> has a m. Proof. rewrite <- (has_cl b m), <- (has_cl a m), E. reflexivity. Qed.
  Lemma tr_inHeap m : inHeap b m = inHeap a m. Proof. unfold inHeap. rewrite tr_heap. reflexivity. Qed.
  Lemma tr_valueOf p : valueOf b p = valueOf a p.
  Proof. rewrite <- (valueOf_cl b p), <- (valueOf_cl a p), E. reflexivity. Qed.
  Lemma tr_isStale n : isStale b n = isStale a n.
  Proof. rewrite <- (isStale_cl b n), <- (isStale_cl a n), E. reflexivity. Qed.
  Lemma tr_bd x : bd b x = bd a x. Proof. unfold bd. rewrite tr_binds. reflexivity. Qed.

  Lemma tr_Struct : Struct a -> Struct b.
  Proof.
    intros HS. constructor; intros *.
    - rewrite !(tr_nd children), !(tr_nd parents) by reflexivity. apply (st_edge _ HS).
    - rewrite (tr_nd inGraph), (tr_nd parents), (tr_nd children) by reflexivity. apply (st_unreg _ HS).
    - rewrite (tr_nd inGraph), (tr_nd isNecessary) by reflexivity. apply (st_nec _ HS).
    - rewrite (tr_nd inGraph), (tr_nd parents), (tr_nd decl) by reflexivity. apply (st_par _ HS).
    - rewrite (tr_nd inGraph), (tr_nd parents), !(tr_nd height) by reflexivity. apply (st_height _ HS).
    - rewrite (tr_nd inGraph), (tr_nd height) by reflexivity. apply (st_hnonneg _ HS).
  Qed.

  Lemma tr_Shape : Shape a -> Shape b.
  Proof.
    intros HSh m y Hy. assert (Hm : has a m) by (apply tr_has; exists y; exact Hy). destruct Hm as [y0 Hy0].
    rewrite <- (nd_lookup _ _ _ Hy).
    rewrite (shape_node_ext m (nd a m) (nd b m)); try (apply (tr_nd _ m); reflexivity).
    rewrite (nd_lookup _ _ _ Hy0). exact (HSh m y0 Hy0).
  Qed.

  Lemma tr_BFB : BFB a -> BFB b.
  Proof.
    intros HB. constructor.
    - intros n Hn. rewrite tr_next. apply (bb_lt _ HB). apply tr_has. exact Hn.
    - apply tr_Shape, (bb_shape _ HB).
    - intros n. rewrite (tr_nd inGraph), (tr_nd valid) by reflexivity. apply (bb_valid _ HB).
    - intros x. rewrite tr_bd. apply (bb_memo _ HB).
    - intros n x. rewrite !(tr_nd nkind), tr_bd, (tr_nd decl) by reflexivity. apply (bb_main _ HB).
    - intros n x. rewrite (tr_nd nkind), tr_bd, (tr_nd decl) by reflexivity. apply (bb_lhs _ HB).
  Qed.

  Lemma tr_guarded n : guarded b None n = guarded a None n.
  Proof.
    unfold guarded. rewrite (tr_nd parents), (tr_nd recomputedAt) by reflexivity. apply PassProofs.forallb_ext. intros p _.
    rewrite (tr_nd changedAt) by reflexivity. f_equal. f_equal. unfold volq, inW.
    rewrite (tr_nd nkind), tr_inHeap, (tr_nd recomputedAt), tr_stabNum by reflexivity. reflexivity.
  Qed.

  Lemma tr_ValInvB : BFB a -> ValInvB a -> ValInvB b.
  Proof.
    intros HB V. constructor.
    - apply tr_Shape, (vb_shape _ V).
    - intros n. unfold stamps_node. rewrite (tr_nd changedAt), (tr_nd recomputedAt), tr_stabNum by reflexivity.
      apply (vb_stamps _ V n).
    - intros n. rewrite (tr_nd inGraph), (tr_nd valid), (tr_nd recomputedAt), (tr_nd changedAt) by reflexivity.
      apply (vb_unreg _ V n).
    - intros n. rewrite (tr_nd inGraph), tr_isStale, tr_inHeap by reflexivity. apply (vb_owed _ V n).
    - intros n. rewrite (tr_nd inGraph), tr_inHeap, tr_guarded, (tr_nd value) by reflexivity. intros Hg Hq Hgd.
      rewrite (consistent_valB_ext2 a b n _ HB); [exact (vb_clean _ V n Hg Hq Hgd)| | | |].
      + apply tr_nd. reflexivity.
      + apply tr_nd. reflexivity.
      + intros p _. apply tr_valueOf.
      + intros x _. apply tr_bd.
    - intros x. rewrite (tr_nd inGraph), (tr_nd nkind), tr_inHeap, tr_guarded by reflexivity. intros Hg K Hq Hgd.
      rewrite (matchesOK_ext a b x tr_binds tr_next); [exact (vb_match _ V x Hg K Hq Hgd)| | |].
      + intros n. repeat split; apply tr_nd; reflexivity.
      + intros n _. apply tr_nd. reflexivity.
      + apply tr_valueOf.
  Qed.
End Transport.

(** * 5. C12 with binds *)
Lemma clN_eq_vps x y : clN x = clN y -> vps x y.
Proof.
  intros E. exists (value x), (pending y), (setAt x). destruct x, y. unfold clN in E. cbn in *.
  injection E as -> -> -> -> -> -> -> -> -> -> -> -> -> -> ->. reflexivity.
Qed.

Lemma cl_endU s : cl (endU s) = endU (cl s).
Proof. unfold endU. cbv zeta. rewrite cl_emit, runUpdateHandlers_cl. reflexivity. Qed.

Lemma stabilizeEnd_quiet_ok s2 :
  setDuring s2 = [] -> setRemoved s2 = [] ->
  stabilizeEnd s2 None = Ok ((endU s2) <| setDuring := [] |> <| setRemoved := [] |> <| status := 0 |>).
Proof.
  intros Hsd Hsr. unfold stabilizeEnd. cbv zeta. change (classify None) with XOk. fold (endU s2).
  rewrite applyDeferredSets_unfold. destruct (endU_facts s2) as (_ & _ & _ & _ & _ & Usd & Usr & _).
  rewrite Usr, Usd, Hsr, Hsd. reflexivity.
Qed.

(** What a pass with a writes-only plan does: [t'] is the result of the write-free pass; [W] are the
    vars written during the pass (those still in the graph at the end, and those dropped by a swap). *)
Record writesEndB (s s' t' : state) (W : list nid) : Prop := {
  we_free : stabilize [] false s = Ok (t', None);
  we_free_consistent : consistent t' = true /\ Inv t' /\ ValInvB t' /\ Tplain t';
  we_log : log s' = log t';                           (* same invocations, results, handler events *)
  we_vars : Forall (fun v => isVar t' v = true) W;
  we_nodes : forall m, vps (nd t' m) (nd s' m);       (* records agree up to value / pending / setAt *)
  we_other : forall m, m ∉ W -> clN (nd s' m) = clN (nd t' m);   (* ... and, off [W], up to pending *)
  we_fields : binds s' = binds t' /\ next s' = next t' /\ stabNum s' = stabNum t' /\ obs s' = obs t';
  we_heap : forall m, inHeap t' m = true -> inHeap s' m = true;
  we_heap_new : forall m, inHeap s' m = true -> inHeap t' m = true \/ m ∈ W;
  we_queued : forall v, v ∈ W -> inGraph (nd s' v) = true -> inHeap s' v = true;
  we_inv : Inv s' /\ ValInvB s' /\ Tplain s' /\ CF s s'
}.

Lemma Struct_status s x : Struct (s <| status := x |>) -> Struct s.
Proof. intros [A B C D E F]. constructor; assumption. Qed.
Lemma BFB_status s x : BFB (s <| status := x |>) -> BFB s.
Proof. intros [A B C D E F]. constructor; assumption. Qed.
Lemma ValInvB_fields s s' :
  nodes s' = nodes s -> heap s' = heap s -> binds s' = binds s -> next s' = next s -> stabNum s' = stabNum s ->
  ValInvB s -> ValInvB s'.
Proof.
  intros Hn Hh Hb Hx Hk V. pose proof (nodes_eq_nd _ _ Hn) as Hnd.
  assert (Hq : forall m, inHeap s' m = inHeap s m) by (intros m; unfold inHeap; rewrite Hh; reflexivity).
  assert (HW : forall m, inW s' None m = inW s None m) by (intros m; unfold inW; rewrite Hq; reflexivity).
  constructor.
  - intros n y Hy. rewrite Hn in Hy. exact (vb_shape _ V n y Hy).
  - intros n. unfold stamps_node. rewrite Hnd, Hk. apply (vb_stamps _ V n).
  - intros n. rewrite Hnd. apply (vb_unreg _ V n).
  - intros n. rewrite Hnd, (isStale_nodes s s' n Hn), Hq. apply (vb_owed _ V n).
  - intros n. rewrite Hnd, Hq, (guarded_ext s s' None None n Hn Hk HW), (consistent_valB_nodes s s' n _ Hn Hb).
    apply (vb_clean _ V n).
  - intros b. rewrite !Hnd, Hq, (guarded_ext s s' None None b Hn Hk HW), (matchesOK_nodes s s' b Hn Hb Hx).
    apply (vb_match _ V b).
Qed.

Lemma Ok_clL_inv tL e at' al' (X : state) e2 at2 al2 :
  @Ok _ (clL (tL, e, at', al')) = Ok (X, e2, at2, al2) -> cl tL = X /\ e = e2 /\ at' = at2 /\ al' = al2.
Proof. unfold clL. cbn [fst snd]. intros H. injection H as H1 H2 H3 H4. auto. Qed.

Lemma Ok_cl_inv t2 (X : state) : @Ok _ (cl t2) = Ok X -> cl t2 = X.
Proof. intros H. injection H as H1. exact H1. Qed.

Theorem pass_writesB s p s' :
  Inv s -> ValInvB s -> Tplain s -> writes_only p = true -> plan_ok s p = true ->
  stabilize p false s = Ok (s', None) -> exists t' W, writesEndB s s' t' W.
Proof.
  intros IV V TP Hp Hpok H. pose proof (Inv_wfb s IV) as Hwf.
  destruct (wfb_transients _ Hwf) as (Hst & Hsd & Hsr & Hh).
  assert (IV' : Inv s').
  { apply (Inv_step_stabilize s (Stabilize p) s' None IV); try reflexivity; [exact Hpok|exact H|discriminate|discriminate]. }
  destruct (stabilize_decompose p false s s' None Hst H) as (sLp & at_ & al & s2p & s3p & ELp & ERp & EPp & EEp).
  apply recoverPanic_None in EPp as ->.
  pose proof ELp as ELp'. unfold passResult in ELp'. cbv zeta in ELp'. simpl in ELp'.
  set (s1 := EngineLocal.passStart s) in *.
  assert (Hst1 : status s1 = 1) by reflexivity.
  (* the write-free loop *)
  pose proof (loop_sim _ p s1 [] sLp None at_ al Hst1 Hp ELp') as LS. rewrite loop_cl in LS.
  destruct (passLoop (passFuel s1) [] s1 []) as [[[[tL e] at'] al']| |] eqn:ET; try discriminate LS.
  cbn [rmap rbind] in LS. apply Ok_clL_inv in LS as (EclL & -> & -> & ->).
  destruct (pass_start_factsB s IV V TP) as (TP1 & P1 & L1 & HA1). fold s1 in TP1, P1, L1, HA1.
  destruct (loopT _ s1 [] tL at_ al TP1 P1 L1 ET) as (TPL & PL & LL & Hemp & HkL & CL).
  pose proof (loopT2 _ s1 [] tL at_ al TP1 P1 L1 HA1 ET) as HAL.
  (* the requeue *)
  pose proof (requeueAlways_cl al tL) as RQ. rewrite EclL, requeueAlways_cl in RQ.
  change (PassProofs.requeueAlways al sLp) with (EngineLocal.requeueAlways al sLp) in RQ. rewrite ERp in RQ.
  destruct (requeueAlways al tL) as [t2| |] eqn:ERt; try discriminate RQ.
  cbn [rmap rbind] in RQ. apply Ok_cl_inv in RQ. rename RQ into Ecl2.
  pose proof (requeue_only_heap _ _ _ ERt) as ORt. pose proof (requeue_only_heap _ _ _ ERp) as ORp.
  assert (Hsd2 : setDuring t2 = []) by (rewrite (oh_setDuring _ _ ORt); exact (proj1 (lc_quiet _ _ LL))).
  assert (Hsr2 : setRemoved t2 = []) by (rewrite (oh_setRemoved _ _ ORt); exact (proj2 (lc_quiet _ _ LL))).
  set (t' := (endU t2) <| setDuring := [] |> <| setRemoved := [] |> <| status := 0 |>).
  pose proof (stabilizeEnd_quiet_ok t2 Hsd2 Hsr2) as EEt. fold t' in EEt.
  assert (H0 : stabilize [] false s = Ok (t', None)).
  { rewrite stabilize_unfold, Hst. change (negb (0 =? 0)) with false. cbv iota zeta.
    change (emit EvPassStart (s <| status := 1 |>)) with s1. simpl andb. cbv iota. rewrite ET. cbn [rbind].
    change (EngineLocal.requeueAlways al tL) with (PassProofs.requeueAlways al tL). rewrite ERt. cbn [rbind recoverPanic].
    rewrite EEt. reflexivity. }
  destruct (finish_none tL al t2 t' TPL PL LL HAL Hemp ERt EEt) as (Vt & Tt & Ct & Hct).
  assert (IVt : Inv t').
  { apply (Inv_step_stabilize s (Stabilize []) t' None IV); try reflexivity; [exact H0|discriminate|discriminate]. }
  (* the write run's epilogue *)
  destruct (stabilizeEnd_unfold _ _ EEp) as (u1 & Ed & Es').
  assert (EclU : cl t' = cl ((endU s2p) <| status := 0 |>)).
  { change (cl t') with ((cl (endU t2)) <| status := 0 |>). rewrite cl_endU, <- Ecl2, <- cl_endU. reflexivity. }
  pose proof (Inv_Struct t' IVt) as HSt. pose proof (Inv_BFB t' IVt (vb_shape _ Vt)) as HBt.
  assert (HSu : Struct (endU s2p)) by exact (Struct_status _ _ (tr_Struct t' _ EclU HSt)).
  assert (HBu : BFB (endU s2p)) by exact (BFB_status _ _ (tr_BFB t' _ EclU HBt)).
  assert (Vu : ValInvB (endU s2p)).
  { pose proof (tr_ValInvB t' _ EclU HBt Vt) as Vx. revert Vx. apply ValInvB_fields; reflexivity. }
  destruct (endU_facts s2p) as (Un & Uh & Ub & Ux & Uk & Usd & Usr & Uo & Ul).
  assert (HvL : Forall (fun v => isVar sLp v = true) (setRemoved sLp ++ setDuring sLp)).
  { apply (passResult_deferred_are_vars p false s sLp None at_ al); [|exact Hpok| |exact ELp].
    - intros n Hn. apply (io_lt _ (inv_ids _ IV)). exact Hn.
    - rewrite Hsd, Hsr. constructor. }
  set (W := setRemoved (endU s2p) ++ setDuring (endU s2p)) in *.
  assert (HW : W = setRemoved sLp ++ setDuring sLp).
  { unfold W. rewrite Usr, Usd, (oh_setRemoved _ _ ORp), (oh_setDuring _ _ ORp). reflexivity. }
  assert (HvU : Forall (fun v => isVar (endU s2p) v = true) W).
  { rewrite HW. eapply List.Forall_impl; [|exact HvL]. intros w Hw. unfold isVar in *. rewrite Un, (oh_nodes _ _ ORp). exact Hw. }
  destruct (dsteps_postB W _ u1 HSu HBu Vu HvU Ed) as (A1 & A2 & A3 & (F1 & F2 & F3) & A5 & A6 & A7 & A8 & A9).
  destruct (dsteps_inv _ _ _ HvU Ed) as (((mm & ww & Eu1) & _ & Hisv & _) & _).
  (* node records of the final states, up to pending *)
  assert (Hndcl : forall m, clN (nd (endU s2p) m) = clN (nd t' m)).
  { intros m. rewrite <- !nd_cl. rewrite EclU. reflexivity. }
  exists t', W. constructor.
  - exact H0.
  - auto.
  - rewrite Es'. change (log u1 = log t'). rewrite Eu1. change (log (endU s2p) = log (cl t')). rewrite EclU. reflexivity.
  - eapply List.Forall_impl; [|exact HvU]. intros w Hw. unfold isVar in *.
    change (nodes t' !! w) with (nodes (endU t2) !! w).
    pose proof (Hndcl w) as Ew. apply isVar_spec in Hw as [k Hk]. 
    assert (Hk' : nkind (nd t' w) = KVar k).
    { change (nkind (clN (nd t' w)) = KVar k). rewrite <- Ew. exact Hk. }
    apply (proj2 (isVar_spec t' w)). eauto.
  - intros m. rewrite Es'. change (vps (nd t' m) (nd u1 m)). eapply vps_trans; [|apply A5].
    apply clN_eq_vps. symmetry. apply Hndcl.
  - intros m Hm. rewrite Es'. change (clN (nd u1 m) = clN (nd t' m)). rewrite <- Hndcl.
    assert (Eo : nd u1 m = nd (endU s2p) m).
    { clear -Ed Hm HvU HSu. revert Ed Hm HvU HSu. generalize (endU s2p) as u. generalize W as l.
      induction l as [|v l IH]; intros u Ed Hm Hv HS; [injection Ed as <-; reflexivity|].
      rewrite rfold_cons in Ed. destruct (dstep u v) as [u2| |] eqn:E1; simpl in Ed; try discriminate.
      inversion Hv as [|? ? Hv1 Hvl]; subst.
      destruct (dstep_wr u v u2 HS Hv1 E1) as (P1 & _).
      assert (HS2 : Struct u2).
      { destruct (wr_self _ _ _ P1) as (a & b0 & c & Eself).
        assert (Hf : forall (A : Type) (g : node -> A) m0,
                   (forall x a b c, g (x <| value := a |> <| pending := b |> <| setAt := c |>) = g x) ->
                   g (nd u2 m0) = g (nd u m0)).
        { intros A g m0 Hg. destruct (decide (m0 = v)) as [->|Hm0]; [rewrite Eself; apply Hg|rewrite (wr_other _ _ _ P1 m0 Hm0); reflexivity]. }
        constructor; intros *.
        - rewrite !(Hf _ children), !(Hf _ parents) by reflexivity. apply (st_edge _ HS).
        - rewrite (Hf _ inGraph), (Hf _ parents), (Hf _ children) by reflexivity. apply (st_unreg _ HS).
        - rewrite (Hf _ inGraph), (Hf _ isNecessary) by reflexivity. apply (st_nec _ HS).
        - rewrite (Hf _ inGraph), (Hf _ parents), (Hf _ decl) by reflexivity. apply (st_par _ HS).
        - rewrite (Hf _ inGraph), (Hf _ parents), !(Hf _ height) by reflexivity. apply (st_height _ HS).
        - rewrite (Hf _ inGraph), (Hf _ height) by reflexivity. apply (st_hnonneg _ HS). }
      assert (Hvl1 : Forall (fun w => isVar u2 w = true) l).
      { eapply List.Forall_impl; [|exact Hvl]. intros w Hw. apply isVar_spec in Hw as [k Hk]. apply isVar_spec.
        exists k. destruct (decide (w = v)) as [->|Hwv].
        - destruct (wr_self _ _ _ P1) as (a & b0 & c & ->). exact Hk.
        - rewrite (wr_other _ _ _ P1 w Hwv). exact Hk. }
      rewrite (IH u2 Ed) by (try assumption; intros Hin; apply Hm; right; exact Hin).
      apply (wr_other _ _ _ P1). intros ->. apply Hm. left. }
    rewrite Eo. reflexivity.
  - rewrite Es'. change (binds u1 = binds t' /\ next u1 = next t' /\ stabNum u1 = stabNum t' /\ obs u1 = obs t').
    rewrite F1, F2, F3, Eu1. change (obs (endU s2p <| nodes := mm |> <| heap := ww |>)) with (obs (endU s2p)).
    change (binds (endU s2p) = binds (cl t') /\ next (endU s2p) = next (cl t') /\ stabNum (endU s2p) = stabNum (cl t') /\
            obs (endU s2p) = obs (cl t')). rewrite EclU. repeat split.
  - intros m Hm. rewrite Es'. change (inHeap u1 m = true). apply A7.
    change (inHeap (cl t') m = true) in Hm. rewrite EclU in Hm. exact Hm.
  - intros m Hm. rewrite Es' in Hm. change (inHeap u1 m = true) in Hm. destruct (A8 m Hm) as [Hq|Hq]; [left|right; exact Hq].
    change (inHeap (cl t') m = true). rewrite EclU. exact Hq.
  - intros v Hv Hg. rewrite Es' in *. change (inHeap u1 v = true). apply (A9 v Hv).
    change (inGraph (nd u1 v) = true) in Hg. destruct (A5 v) as (a & b0 & c & Ev). rewrite Ev in Hg. exact Hg.
  - split; [exact IV'|]. split.
    { rewrite Es'. apply (ValInvB_fields u1); try reflexivity. exact A3. }
    assert (Hb' : binds s' = binds t').
    { rewrite Es'. change (binds u1 = binds t'). rewrite F1. change (binds (endU s2p) = binds (cl t')). rewrite EclU. reflexivity. }
    split; [apply (Tplain_binds t' s' Hb' Tt)|].
    apply (CF_trans s t' s'); [|apply CF_binds, Hb'].
    apply (CF_trans s tL t'); [|exact Ct]. apply (CF_trans s s1 tL); [apply CF_binds; reflexivity|exact CL].
Qed.

(** * 6. Histories with writing plans (and failing / panicking functions), on graphs with binds *)
Definition isWriteOp (o : op) : bool := match o with Stabilize p => writes_only p | _ => false end.

Fixpoint histW_run (s : state) (os : list op) : option state :=
  match os with
  | [] => Some s
  | o :: os =>
    if histB_op o && parity_op o && op_ok s o && op_clean s o then
      match step s o with
      | Ok (s', None) => histW_run s' os
      | _ => None
      end
    else if isFaultOp o then
      match step s o with
      | Ok (s', e) => if rejected e then None else histW_run s' os
      | _ => None
      end
    else if isWriteOp o && op_ok s o then
      match step s o with
      | Ok (s', None) => histW_run s' os
      | _ => None
      end
    else None
  end.

Lemma stepW_inv s o s' :
  Inv s -> ValInvB s -> Tplain s -> SpecProofs.templates_ok s = true -> isWriteOp o = true -> op_ok s o = true ->
  step s o = Ok (s', None) ->
  Inv s' /\ ValInvB s' /\ Tplain s' /\ SpecProofs.templates_ok s' = true.
Proof.
  intros IV V TP Ht Ho Hok H. destruct o; try discriminate Ho. simpl in Ho, H, Hok.
  destruct (pass_writesB s p s' IV V TP Ho Hok H) as (t' & W & E).
  destruct (we_inv _ _ _ _ E) as (A & B & C & D).
  split; [exact A|]. split; [exact B|]. split; [exact C|apply (templates_ok_CF s s' D Ht)].
Qed.

Lemma histW_inv os : forall s0 s,
  Inv s0 -> ValInvB s0 -> Tplain s0 -> SpecProofs.templates_ok s0 = true -> histW_run s0 os = Some s ->
  Inv s /\ ValInvB s /\ Tplain s /\ SpecProofs.templates_ok s = true.
Proof.
  induction os as [|o os IH]; intros s0 s IV V TP Ht H; simpl in H; [injection H as <-; auto|].
  destruct (histB_op o && parity_op o && op_ok s0 o && op_clean s0 o) eqn:Eo.
  - rewrite !andb_true_iff in Eo. destruct Eo as [[[Ho Hpo] Hok] Hcl].
    destruct (step s0 o) as [[s1 [e|]]| |] eqn:Es; try discriminate.
    destruct (stepB_inv s0 o s1 IV V TP Ho Hok Hcl Es) as (I1 & V1 & T1).
    apply (IH s1 s I1 V1 T1 (stepB_templates s0 o s1 IV V TP Ho Hpo Es Ht) H).
  - destruct (isFaultOp o) eqn:Ef.
    + destruct (step s0 o) as [[s1 e]| |] eqn:Es; try discriminate.
      destruct (rejected e) eqn:Er; [discriminate|].
      destruct (stepF_inv s0 o s1 e IV V TP Ht Ef Es Er) as (I1 & V1 & T1 & Ht1).
      apply (IH s1 s I1 V1 T1 Ht1 H).
    + destruct (isWriteOp o && op_ok s0 o) eqn:Ew; [|discriminate].
      apply andb_true_iff in Ew as [Ew Hok].
      destruct (step s0 o) as [[s1 [e|]]| |] eqn:Es; try discriminate.
      destruct (stepW_inv s0 o s1 IV V TP Ht Ew Hok Es) as (I1 & V1 & T1 & Ht1).
      apply (IH s1 s I1 V1 T1 Ht1 H).
Qed.

Lemma histW_split os1 : forall s0 o os2 sf,
  histW_run s0 (os1 ++ o :: os2) = Some sf ->
  exists s1, histW_run s0 os1 = Some s1 /\ histW_run s1 (o :: os2) = Some sf.
Proof.
  induction os1 as [|a os1 IH]; intros s0 o os2 sf H; [exists s0; auto|].
  simpl in H |- *.
  destruct (histB_op a && parity_op a && op_ok s0 a && op_clean s0 a).
  - destruct (step s0 a) as [[s1 [e|]]| |]; try discriminate. apply (IH s1 o os2 sf H).
  - destruct (isFaultOp a).
    + destruct (step s0 a) as [[s1 e]| |]; try discriminate. destruct (rejected e); [discriminate|].
      apply (IH s1 o os2 sf H).
    + destruct (isWriteOp a && op_ok s0 a); [|discriminate].
      destruct (step s0 a) as [[s1 [e|]]| |]; try discriminate. apply (IH s1 o os2 sf H).
Qed.

(** every plan-free pass of such a history converges *)
Theorem C12_history_planfree_proof mh os1 os2 sf :
  (0 < mh)%nat -> histW_run (init mh) (os1 ++ Stabilize [] :: os2) = Some sf ->
  exists s1 s2, histW_run (init mh) os1 = Some s1 /\ step s1 (Stabilize []) = Ok (s2, None) /\
    consistent s2 = true /\ observers_agree s2 = true /\ Inv s2 /\ ValInvB s2.
Proof.
  intros Hmh H. destruct (histW_split os1 (init mh) _ os2 sf H) as (s1 & H1 & H2).
  assert (TP0 : Tplain (init mh)) by (intros b r Hr; inversion Hr).
  destruct (histW_inv os1 (init mh) s1 (Inv_init mh Hmh) (ValInvB_init mh) TP0 eq_refl H1) as (I1 & V1 & T1 & Ht1).
  simpl in H2.
  destruct (stabilize [] false s1) as [[s2 [e|]]| |] eqn:Es; try discriminate.
  exists s1, s2. split; [exact H1|]. split; [exact Es|].
  destruct (passS_ValInvB s1 s2 I1 V1 T1 Es) as (V2 & T2 & C2).
  destruct (passS_observers_agree s1 s2 I1 V1 T1 Es (templates_ok_CF s1 s2 C2 Ht1)) as (A & B & C & _).
  auto.
Qed.

(** every pass with writes of such a history computes what the write-free pass computes *)
Theorem C12_history_writes_proof mh os1 p os2 sf :
  (0 < mh)%nat -> writes_only p = true -> p <> [] -> histW_run (init mh) (os1 ++ Stabilize p :: os2) = Some sf ->
  exists s1 s2 t' W, histW_run (init mh) os1 = Some s1 /\ stabilize p false s1 = Ok (s2, None) /\
    Inv s1 /\ ValInvB s1 /\ Tplain s1 /\ writesEndB s1 s2 t' W.
Proof.
  intros Hmh Hp Hne H. destruct (histW_split os1 (init mh) _ os2 sf H) as (s1 & H1 & H2).
  assert (TP0 : Tplain (init mh)) by (intros b r Hr; inversion Hr).
  destruct (histW_inv os1 (init mh) s1 (Inv_init mh Hmh) (ValInvB_init mh) TP0 eq_refl H1) as (I1 & V1 & T1 & Ht1).
  simpl in H2.
  assert (Hb : bool_decide (p = []) = false) by (apply bool_decide_eq_false; exact Hne).
  rewrite Hb in H2. simpl in H2.
  assert (Hf : isFailPlan p = false).
  { destruct (isFailPlan p) eqn:Ef; [|reflexivity]. destruct (isFailPlan_eq p Ef) as [x [-> | ->]]; discriminate Hp. }
  rewrite Hf, Hp in H2. simpl in H2.
  destruct (plan_ok s1 p) eqn:Hok; [|discriminate]. simpl in H2.
  destruct (stabilize p false s1) as [[s2 [e|]]| |] eqn:Es; try discriminate.
  destruct (pass_writesB s1 p s2 I1 V1 T1 Hp Hok Es) as (t' & W & E).
  exists s1, s2, t', W. auto 10.
Qed.

(** Example: a bind function that writes a var, and a node function that updates the bind's own
    input, in the pass in which the bind swaps *)
Definition exW_plan : plan := [(2%nat, WFn, ASet 1%nat 9); (4%nat, WFn, AUpdate 0%nat 1)].
Definition exW_ops : list op :=
  [ NewVar 2 false; NewVar 3 false;
    NewBind [TMap (Aff 1 1) (TOuter 1%nat); TRet 5] 0%nat;     (* lhs-change 2, main 3 *)
    NewMap (Aff 2 0) 3%nat;                                    (* 4 *)
    Observe 4%nat;
    Stabilize [];
    SetVar 0%nat 3;
    Stabilize exW_plan;           (* the bind swaps; its function sets var 1, node 4's function updates var 0 *)
    Stabilize [];                 (* the deferred writes propagate: the bind swaps back *)
    Stabilize (failPlan 8);
    Stabilize [] ].

Lemma exW_runs : exists s, histW_run (init 64) exW_ops = Some s.
Proof.
  assert (H : match histW_run (init 64) exW_ops with Some _ => true | None => false end = true)
    by (vm_compute; reflexivity).
  destruct (histW_run (init 64) exW_ops) as [s|]; [eauto|discriminate H].
Qed.
