(** C07 for ParallelStabilize on graphs with binds: the function of a Map / Map2 / MapN node, or
    the cutoff function of a cutoff node, returns an ERROR in a parallel pass.  The failed node
    is queued again with its old stamp, the rest of its height block still runs, then the pass
    stops and returns the error; [Inv], [ValInvB], [Tplain] hold afterwards, so a fault-free retry
    with either stabilizer converges. *)
From stdpp Require Import sorting.
From incr Require Import Base Heap HeapSpec HeapProofs EngineDefs Engine EngineRun EngineWf Spec EngineLemmas EngineLocal
     EngineInv EngineInvProofs PassInv PassProofs PassPlanProofs PassBind PassBindProofs PassBindSwap PassBindSwapProofs
     PassBindSwapStep PassBindOps PassBindFault PassBindWrites PassBindTotal PassBindMixed PassBindFaultGen
     ParBind ParBindStep ParBindHistory ParBindWrites ParBindLog PassPlanProofs2 PassBindSwapLog PassBindSwapHandlers ParBindHandlers.
From incr Require Import SpecProofs.

Local Arguments valueOf : simpl never.

(** * 1. Which parallel recomputes a plan touches; an error is the serial error *)
Lemma rnp_plan_eq2 fuel p q s m :
  (cutKind (nkind (nd s m)) = true -> actions_of p m WCut = actions_of q m WCut) ->
  (fnKind (nkind (nd s m)) = true -> actions_of p m WFn = actions_of q m WFn) ->
  (forall b, nkind (nd s m) = KBindLhs b -> b = m) ->
  recomputeNodeParallel fuel p s m = recomputeNodeParallel fuel q s m.
Proof.
  intros Hc Hf Hb. rewrite !rnp_unfold2. cbv zeta.
  set (s0 := upd s m (set recomputedAt (fun _ => stabNum s))).
  assert (Hmc : maybeCutoff p s0 m (nd s m) = maybeCutoff q s0 m (nd s m)).
  { unfold maybeCutoff. destruct (nkind (nd s m)); try reflexivity.
    rewrite (invoke_eq p q s0 m WCut (Hc eq_refl)). reflexivity. }
  rewrite Hmc. destruct (maybeCutoff q s0 m (nd s m)) as [[[s1 e1] cut]| |] eqn:E1; simpl; try reflexivity.
  destruct e1; [reflexivity|]. destruct cut; [reflexivity|].
  assert (Hk1 : nkind (nd s1 m) = nkind (nd s m)).
  { apply maybeCutoff_spec in E1 as (V1 & _). destruct (vps_fields _ _ (V1 m)) as (-> & _).
    apply (nd_upd_proj nkind). reflexivity. }
  assert (Hsn : stabilizeNode fuel p s1 m = stabilizeNode fuel q s1 m).
  { unfold stabilizeNode. rewrite Hk1. unfold fnKind in Hf.
    destruct (nkind (nd s m)) eqn:K; try reflexivity;
      try (rewrite (invoke_eq p q s1 m WFn (Hf eq_refl)); reflexivity).
    rewrite (Hb b eq_refl). apply bindLhs_plan_eq. apply Hf. reflexivity. }
  rewrite Hsn. reflexivity.
Qed.

Lemma rnp_rns_err fuel p s n s' e :
  recomputeNodeParallel fuel p s n = Ok (s', Some e) -> (forall m, e <> EPanic m) ->
  recomputeNodeSerial fuel p s n = Ok (s', Some e, None).
Proof.
  intros H Hnp. rewrite rnp_unfold2 in H. rewrite recomputeNodeSerial_unfold. cbv zeta in *.
  apply rbind_ok in H as ([[s1 e1] cut] & H1 & H). rewrite H1. cbn [rbind].
  assert (Err : forall t e0, parErr t n (recomputedAt (nd s n)) e0 = Ok (s', Some e) ->
                             failTail t n (recomputedAt (nd s n)) e0 = Ok (s', Some e, None)).
  { intros t e0 Hp. pose proof (parErr_err _ _ _ _ _ _ Hp) as E0. injection E0 as E0. subst e0.
    unfold parErr in Hp. unfold failTail.
    destruct e; try (apply rbind_ok in Hp as (t1 & -> & [= <-]); reflexivity). all: exfalso; exact (Hnp _ eq_refl). }
  destruct e1 as [e0|]; [apply Err, H|]. destruct cut; [discriminate H|].
  apply rbind_ok in H as ([s2 e2] & H2 & H). rewrite H2. cbn [rbind].
  destruct e2 as [e0|]; [apply Err, H|].
  unfold parTail in H. apply rbind_ok in H as (s3 & _ & H). discriminate H.
Qed.

(** * 2. The plan: one failing invocation *)
Definition fplan (x : nid) (w : which) (k : faultkind) : plan := [(x, w, AFail k)].
Definition errPlan (x : nid) (w : which) : plan := fplan x w FErr.
Definition panPlan (x : nid) (w : which) : plan := fplan x w FPanic.
Definition tkw (w : which) (k : kind) : bool := match w with WFn => mapKind k | WCut => cutKind k end.

Lemma fplan_actions x w k m w' :
  actions_of (fplan x w k) m w' = if (x =? m)%nat && which_eqb w' w then [AFail k] else [].
Proof. unfold fplan, actions_of. simpl. destruct ((x =? m)%nat && which_eqb w' w); reflexivity. Qed.

Lemma errPlan_actions x w m w' :
  actions_of (errPlan x w) m w' = if (x =? m)%nat && which_eqb w' w then [AFail FErr] else [].
Proof. apply fplan_actions. Qed.

(* every parallel recompute but that of [x] -- when [x] is of the kind the plan targets -- is the
   plan-free one; [x] is not a lhs-change node when the plan targets a function *)
Lemma rnp_fplan_other fuel x w k s m :
  (forall b, nkind (nd s m) = KBindLhs b -> b = m) ->
  (m <> x \/ (tkw w (nkind (nd s m)) = false /\ (w = WFn -> isLhs (nkind (nd s m)) = false))) ->
  recomputeNodeParallel fuel (fplan x w k) s m = recomputeNodeParallel fuel [] s m.
Proof.
  intros Hb Hx. apply rnp_plan_eq2; [| |exact Hb].
  - intros Hc. rewrite fplan_actions. destruct (Nat.eqb_spec x m) as [->|]; [|reflexivity].
    destruct Hx as [?|[Ht _]]; [congruence|]. destruct w; [reflexivity|]. simpl in Ht. congruence.
  - intros Hf. rewrite fplan_actions. destruct (Nat.eqb_spec x m) as [->|]; [|reflexivity].
    destruct Hx as [?|[Ht Hl]]; [congruence|]. destruct w; [|reflexivity]. simpl in Ht. unfold fnKind in Hf.
    rewrite Ht, (Hl eq_refl) in Hf. discriminate.
Qed.

Lemma rnp_errPlan_other fuel x w s m :
  (forall b, nkind (nd s m) = KBindLhs b -> b = m) ->
  (m <> x \/ (tkw w (nkind (nd s m)) = false /\ (w = WFn -> isLhs (nkind (nd s m)) = false))) ->
  recomputeNodeParallel fuel (errPlan x w) s m = recomputeNodeParallel fuel [] s m.
Proof. apply rnp_fplan_other. Qed.

Lemma rnp_errPlan_fail fuel x w s s' e :
  PInv s -> inGraph (nd s x) = true -> tkw w (nkind (nd s x)) = true ->
  recomputeNodeParallel fuel (errPlan x w) s x = Ok (s', e) ->
  e = Some (EUser x) /\ failedTo s x s'.
Proof.
  intros P Hg Ht H. pose proof (has_inGraph _ _ Hg) as Hx. destruct (PInv_heap s P) as [I _].
  pose proof (st_hnonneg _ (PInv_Struct s P) x Hg) as Hh.
  assert (He : e = Some (EUser x)).
  { rewrite rnp_unfold2 in H. cbv zeta in H.
    set (s0 := upd s x (set recomputedAt (fun _ => stabNum s))) in *.
    assert (Hk0 : nkind (nd s0 x) = nkind (nd s x)) by (apply (nd_upd_proj nkind); reflexivity).
    destruct w; simpl in Ht.
    - assert (Hmc : maybeCutoff (errPlan x WFn) s0 x (nd s x) = Ok (s0, None, false)).
      { unfold maybeCutoff. destruct (nkind (nd s x)); try reflexivity; discriminate Ht. }
      rewrite Hmc in H. cbn [rbind] in H.
      assert (Hsn : stabilizeNode fuel (errPlan x WFn) s0 x = Ok (emit (EvFault x WFn FErr) s0, Some (EUser x))).
      { assert (Hinv : invoke (errPlan x WFn) s0 x WFn = Ok (emit (EvFault x WFn FErr) s0, Some (EUser x))).
        { unfold invoke. rewrite errPlan_actions, Nat.eqb_refl. reflexivity. }
        unfold stabilizeNode. rewrite Hk0. destruct (nkind (nd s x)); try discriminate Ht; rewrite Hinv; reflexivity. }
      rewrite Hsn in H. cbn [rbind] in H. apply parErr_err in H. exact H.
    - assert (Hmc : maybeCutoff (errPlan x WCut) s0 x (nd s x) = Ok (emit (EvFault x WCut FErr) s0, Some (EUser x), false)).
      { assert (Hinv : invoke (errPlan x WCut) s0 x WCut = Ok (emit (EvFault x WCut FErr) s0, Some (EUser x))).
        { unfold invoke. rewrite errPlan_actions, Nat.eqb_refl. reflexivity. }
        unfold maybeCutoff. destruct (nkind (nd s x)); try discriminate Ht. rewrite Hinv. reflexivity. }
      rewrite Hmc in H. cbn [rbind] in H. apply parErr_err in H. exact H. }
  subst e. split; [reflexivity|].
  pose proof (rnp_rns_err fuel _ s x s' (EUser x) H ltac:(discriminate)) as Hs.
  destruct w; simpl in Ht.
  - change (errPlan x WFn) with (failPlan x) in Hs.
    exact (proj2 (proj2 (rns_failPlan_fail_map x s s' _ _ fuel Hx Ht I Hh Hs))).
  - change (errPlan x WCut) with (cutPlan x FErr) in Hs.
    assert (Hck : cutKind (nkind (nd s x)) = true) by exact Ht.
    exact (proj2 (proj2 (rns_cutPlan_fail fuel x s s' _ _ P Hg Hck Hs))).
Qed.

(** * 3. The invariants across the failed recompute *)
Lemma LInvP_failed s x R s' :
  PInv s -> LInvP s (x :: R) -> inGraph (nd s x) = true -> failedTo s x s' -> LInvP s' R /\ inHeap s' x = true.
Proof.
  intros P L Hg F. destruct (PInv_heap s P) as [I _]. destruct (ft_fields _ _ _ F) as (F1 & F2 & F3 & F4).
  pose proof (ft_hinv _ _ _ F) as I'. pose proof (nodes_eq_nd _ _ (ft_nodes _ _ _ F)) as Hnd.
  assert (HxR : x ∉ R) by (pose proof (lp_nodup _ _ L) as H; apply stdpp.list.NoDup_cons in H as [H _]; exact H).
  assert (Hq : forall n, inHeap s' n = bool_decide (n = x) || inHeap s n).
  { intros n. apply eq_true_iff_eq. rewrite orb_true_iff, bool_decide_eq_true, (inHeap_iff0 s' n I'), (inHeap_iff0 s n I).
    apply (ft_heap _ _ _ F). }
  assert (HW : forall n, inP s' R n = inP s (x :: R) n).
  { intros n. unfold inP. rewrite Hq, Hnd. destruct (decide (n = x)) as [->|Hne].
    - rewrite Hg, (bool_decide_eq_true_2 (x = x)) by reflexivity.
      rewrite (bool_decide_eq_true_2 (x ∈ x :: R)) by left. simpl. rewrite orb_true_r. reflexivity.
    - rewrite (bool_decide_eq_false_2 (n = x)) by exact Hne. simpl. f_equal. f_equal.
      apply bool_decide_ext. rewrite elem_of_cons. tauto. }
  assert (Hr : forall a b, reach s' a b <-> reach s a b) by (apply reach_nodes, (ft_nodes _ _ _ F)).
  assert (Hgd : forall n, guardedP s' R n = guardedP s (x :: R) n).
  { intros n. unfold guardedP, volqP. rewrite Hnd. apply forallb_ext. intros p _. rewrite !Hnd, F2, HW. reflexivity. }
  split; [|rewrite Hq, (bool_decide_eq_true_2 (x = x)) by reflexivity; reflexivity].
  constructor.
  - intros n y E. rewrite (ft_nodes _ _ _ F) in E. exact (lp_shape _ _ L n y E).
  - intros n. unfold stamps_node. rewrite Hnd, F2. apply (lp_stamps _ _ L n).
  - pose proof (lp_nodup _ _ L) as H. apply stdpp.list.NoDup_cons in H as [_ H]. exact H.
  - intros w n Hw Hwn Hd. rewrite HW in *. unfold isDone in Hd. rewrite Hnd, F2 in Hd.
    apply (lp_B _ _ L w n Hw); [apply Hr, Hwn|exact Hd].
  - intros m w Hm Hgm Hqm Hw Hwm. rewrite HW in Hw. rewrite Hnd in Hgm. rewrite Hq in Hqm.
    apply orb_false_iff in Hqm as [_ Hqm]. apply (lp_M _ _ L m w ltac:(right; exact Hm) Hgm Hqm Hw). apply Hr, Hwm.
  - intros n Hgn Hd Hs. rewrite HW. rewrite Hnd in Hgn. unfold isDone in Hd. rewrite Hnd, F2 in Hd.
    rewrite (isStale_nodes s s' n (ft_nodes _ _ _ F)) in Hs. apply (lp_owed _ _ L n Hgn Hd Hs).
  - intros n Hgn Hw Hgd'. rewrite HW in Hw. rewrite Hgd in Hgd'. rewrite Hnd in Hgn.
    rewrite (clean_ok_nodes s s' n (ft_nodes _ _ _ F) (ft_binds _ _ _ F) F1). apply (lp_clean _ _ L n Hgn Hw Hgd').
  - intros n. rewrite Hnd. apply (lp_unreg _ _ L n).
  - rewrite F3, F4. apply (lp_quiet _ _ L).
Qed.

(** * 4. The blocks and the loop under the failing plan *)
Lemma block_errG fuel p l : forall st e0 al st2 e2 al2,
  rfold (blockStep fuel p) l (st, Some e0, al) = Ok (st2, e2, al2) -> e2 = Some e0.
Proof.
  induction l as [|m l IH]; intros st e0 al st2 e2 al2 H; simpl in H; [injection H as _ <- _; reflexivity|].
  apply rbind_ok in H as ([[st1 e1] al1] & H1 & H). unfold blockStep in H1.
  destruct (height (nd st m) =? unset); [injection H1 as <- <- <-; apply (IH _ _ _ _ _ _ H)|].
  apply rbind_ok in H1 as ([st' e'] & _ & [= <- <- <-]). apply (IH _ _ _ _ _ _ H).
Qed.

Lemma kstable_rnp fuel p st m st' e :
  PInv st -> recomputeNodeParallel fuel p st m = Ok (st', e) -> kstable st st'.
Proof.
  intros P H. destruct (pf_recomputeNodeParallel _ _ _ _ _ _ H) as (_ & _ & _ & _ & _ & A6 & A7 & _).
  assert (Hids : ids_below st) by (intros n Hn; apply (io_lt _ (p_ids _ P)); exact Hn).
  destruct (A7 Hids) as [_ K]. intros n Hn. split; [apply A6, Hn|apply K, Hn].
Qed.

(* who has run: a node other than the one that ran and is done after a plan-free step was done *)
Lemma node_done_back fuel st m R st' :
  Tplain st -> PInv st -> LInvP st (m :: R) -> inGraph (nd st m) = true ->
  recomputeNodeParallel fuel [] st m = Ok (st', None) ->
  forall y, y <> m -> inGraph (nd st' y) = true -> isDone st' y = true ->
    inGraph (nd st y) = true /\ isDone st y = true.
Proof.
  intros TP P L Hg H y Hne Hgy Hdy.
  destruct (recomputeNodeParallel_spec PT PT_struct bind_spec_holds fuel [] st m st' None Logic.I P eq_refl Hg H)
    as [[[Hr|Hr]|(P' & _ & Hk & _)] _]; try discriminate.
  destruct (isLhs (nkind (nd st m))) eqn:El.
  - destruct (nkind (nd st m)) eqn:K; try discriminate El.
    pose proof (p_kinds _ P m (has_inGraph _ _ Hg)) as Hkk. rewrite K in Hkk. destruct Hkk as [-> _].
    destruct (bind_step_frameP fuel st b R st' TP P L Hg K H P') as [BF _].
    destruct (bx_done _ _ _ BF y Hne Hdy) as [E|E]; [congruence|exact E].
  - destruct (rnp_rns fuel st m st' H) as (s1 & imm & Hs & Hadd).
    pose proof (PInv_BFB st P (lp_shape _ _ L)) as HB.
    destruct (rns_stepB fuel st m s1 None imm HB (has_inGraph _ _ Hg) (proj1 (PInv_heap st P)) El Hs) as [_ PP1].
    assert (E : nd st' y = nd st y).
    { transitivity (nd s1 y); [|apply (sq_other _ _ _ _ PP1 y Hne)].
      destruct imm as [c|]; [|subst; reflexivity]. apply heapAdd_inv in Hadd as (w0 & _ & ->). reflexivity. }
    unfold isDone in *. rewrite E, Hk in *. auto.
Qed.

Lemma tkw_nonlhs w kd : tkw w kd = true -> isLhs kd = false.
Proof. destruct w, kd; simpl; try discriminate; reflexivity. Qed.

Lemma tkw_notAlways w kd : tkw w kd = true -> isAlways kd = false.
Proof. destruct w, kd; simpl; try discriminate; reflexivity. Qed.

Section ParFault.
  Context (x : nid) (w : which) (k : faultkind).
  Let pf := fplan x w k.
  Let ferr := faultErr x k.

  Definition okx (st : state) : Prop := w = WFn -> has st x /\ isLhs (nkind (nd st x)) = false.
  (* [x], as long as the plan targets it, has not run in this pass: every run of it faults *)
  Definition ndx (st : state) : Prop :=
    tkw w (nkind (nd st x)) = true -> inGraph (nd st x) = true -> isDone st x = false.

  (* what the faulting recompute of [x] leaves (instances below) *)
  Definition faultStep : Prop := forall fuel st R st' e',
    PInv st -> LInvP st (x :: R) -> inGraph (nd st x) = true -> tkw w (nkind (nd st x)) = true ->
    isDone st x = false -> recomputeNodeParallel fuel pf st x = Ok (st', e') ->
    e' = Some ferr /\ LInvP st' R /\ inHeap st' x = true /\ binds st' = binds st /\ stabNum st' = stabNum st /\
    (forall y, has st' y <-> has st y) /\ (forall y, y <> x -> nd st' y = nd st y) /\
    nkind (nd st' x) = nkind (nd st x) /\ inGraph (nd st' x) = inGraph (nd st x) /\ isDone st' x = false.
  Hypothesis HFS : faultStep.
  Hypothesis Hferr : rejected (Some ferr) = false.

  Lemma okx_kstable st st' : kstable st st' -> okx st -> okx st'.
  Proof. intros K H Hw. destruct (H Hw) as [Hx Hl]. destruct (K x Hx) as [Hx' Ek]. rewrite Ek. auto. Qed.


  (* [ndx] across a plan-free step of another node, or of [x] when the plan does not target it *)
  Lemma ndx_step fuel st m R st' :
    Tplain st -> PInv st -> LInvP st (m :: R) -> inGraph (nd st m) = true ->
    recomputeNodeParallel fuel [] st m = Ok (st', None) ->
    (m = x -> tkw w (nkind (nd st x)) = false) -> has st m -> ndx st -> ndx st'.
  Proof.
    intros TP P L Hg H Hmx Hhm Hn Ht Hgx. pose proof (kstable_rnp fuel [] st m st' None P H) as K.
    destruct (decide (m = x)) as [E|Hne].
    - subst m. destruct (K x Hhm) as [_ Ek]. rewrite Ek, (Hmx eq_refl) in Ht. discriminate.
    - destruct (isDone st' x) eqn:Ed; [exfalso|reflexivity].
      destruct (node_done_back fuel st m R st' TP P L Hg H x (fun E => Hne (eq_sym E)) Hgx Ed) as [Hg0 Hd0].
      assert (Hhx : has st x) by (apply has_inGraph, Hg0). destruct (K x Hhx) as [_ Ek]. rewrite Ek in Ht.
      rewrite (Hn Ht Hg0) in Hd0. discriminate.
  Qed.

  (* a plan-free step of a node that is not a lhs-change node, with the queue entry of [x] kept *)
  Lemma nodeB fuel st m R st' e' :
    Tplain st -> PInv st -> LInvP st (m :: R) -> inGraph (nd st m) = true ->
    isLhs (nkind (nd st m)) = false -> m <> x -> x ∉ R -> inHeap st x = true ->
    recomputeNodeParallel fuel pf st m = Ok (st', e') ->
    e' = None /\ Tplain st' /\ PInv st' /\ LInvP st' R /\ stabNum st' = stabNum st /\ CF st st' /\
    (forall y, isDone st' y = true -> inGraph (nd st' y) = true -> isAlways (nkind (nd st' y)) = true ->
       (isDone st y = true /\ inGraph (nd st y) = true /\ isAlways (nkind (nd st y)) = true) \/ y = m) /\
    kstable st st' /\ inHeap st' x = true.
  Proof.
    intros TP P L Hg El Hmx HxR Hqx H.
    assert (Hkm : forall b, nkind (nd st m) = KBindLhs b -> b = m).
    { intros b K. rewrite K in El. discriminate. }
    unfold pf in H. rewrite (rnp_fplan_other fuel x w k st m Hkm (or_introl Hmx)) in H.
    destruct (recomputeNodeParallel_spec PT PT_struct bind_spec_holds fuel [] st m st' e' Logic.I P eq_refl Hg H) as [A Bn].
    assert (Hnr : ~ rejected_err e').
    { apply Bn. intros b K. rewrite K in El. discriminate. }
    assert (He : e' = None).
    { pose proof (E_rnp _ _ _ _ _ H) as G. destruct e' as [r|]; [|reflexivity]. exfalso. apply Hnr.
      destruct G as [-> | ->]; [left|right]; reflexivity. }
    subst e'. split; [reflexivity|].
    destruct (nodeP bind_stepP fuel st m R st' TP P L Hg H) as (TP' & P' & L' & Hk' & C' & Hd).
    split; [exact TP'|]. split; [exact P'|]. split; [exact L'|]. split; [exact Hk'|]. split; [exact C'|]. split; [exact Hd|].
    split; [exact (kstable_rnp fuel [] st m st' None P H)|].
    destruct (rnp_rns fuel st m st' H) as (s1 & imm & Hs & Hadd).
    pose proof (PInv_BFB st P (lp_shape _ _ L)) as HB.
    destruct (rns_stepB fuel st m s1 None imm HB (has_inGraph _ _ Hg) (proj1 (PInv_heap st P)) El Hs) as [_ PP1].
    pose proof (stepPostB_par st m s1 imm st' (proj1 (PInv_heap st P)) PP1 Hadd) as PP.
    destruct (step_frameP st m R st' (PInv_Struct st P) (PInv_heap st P) L Hg El PP) as (FR1 & _).
    assert (Hw : inP st (m :: R) x = true) by (unfold inP; rewrite Hqx; reflexivity).
    pose proof (FR1 x Hw ltac:(congruence)) as Hw'. unfold inP in Hw'.
    rewrite (bool_decide_eq_false_2 _ HxR), andb_false_l, orb_false_r in Hw'. exact Hw'.
  Qed.

  (* after the fault: the rest of the block, all of it other than lhs-change nodes *)
  Lemma blockB fuel l : forall st al st2 e2 al2 e0,
    Tplain st -> PInv st -> LInvP st l -> AW st al -> x ∉ l -> inHeap st x = true ->
    (forall m, m ∈ l -> has st m /\ isLhs (nkind (nd st m)) = false) ->
    rfold (blockStep fuel pf) l (st, Some e0, al) = Ok (st2, e2, al2) ->
    e2 = Some e0 /\ Tplain st2 /\ PInv st2 /\ LInvP st2 [] /\ AW st2 al2 /\ stabNum st2 = stabNum st /\ CF st st2 /\
    inHeap st2 x = true /\ kstable st st2.
  Proof.
    induction l as [|m l IH]; intros st al st2 e2 al2 e0 TP P L HA Hxl Hqx Hnl H; simpl in H.
    { injection H as <- <- <-. split; [reflexivity|]. split; [exact TP|]. split; [exact P|]. split; [exact L|].
      split; [exact HA|]. split; [reflexivity|]. split; [apply CF_binds; reflexivity|]. split; [exact Hqx|apply kstable_refl]. }
    apply rbind_ok in H as ([[st1 e1] al1] & H1 & H). unfold blockStep in H1.
    assert (Hxl' : x ∉ l) by (intros Hin; apply Hxl; right; exact Hin).
    assert (Hmx : m <> x) by (intros ->; apply Hxl; left).
    destruct (Z.eqb_spec (height (nd st m)) unset) as [Hu|Hu].
    { injection H1 as <- <- <-. apply (IH st al st2 e2 al2 e0 TP P (LInvP_skip st m l (PInv_unset st m P Hu) L) HA Hxl' Hqx); [|exact H].
      intros m' Hm'. apply Hnl. right. exact Hm'. }
    apply rbind_ok in H1 as ([st' e'] & Hr & [= <- <- <-]).
    pose proof (PInv_hreg st m P Hu) as Hg. destruct (Hnl m ltac:(left)) as [_ El].
    destruct (nodeB fuel st m l st' e' TP P L Hg El Hmx Hxl' Hqx Hr) as (-> & TP' & P' & L' & Hk' & C' & Hd & K' & Hqx').
    assert (HA' : AW st' (if isAlways (nkind (nd st' m)) then al ++ [m] else al)).
    { intros y A B C. destruct (Hd y B C A) as [(X1 & X2 & X3)| ->].
      - pose proof (HA y X3 X1 X2). destruct (isAlways (nkind (nd st' m))); [apply elem_of_app; left|]; assumption.
      - rewrite A. apply elem_of_app. right. left. }
    destruct (IH st' _ st2 e2 al2 e0 TP' P' L' HA' Hxl' Hqx') as (E & TP2 & P2 & L2 & HA2 & Hk2 & C2 & Hq2 & K2); [|exact H|].
    { intros m' Hm'. destruct (Hnl m' ltac:(right; exact Hm')) as [Hh Hl]. destruct (K' m' Hh) as [Hh' Ek]. rewrite Ek. auto. }
    split; [exact E|]. split; [exact TP2|]. split; [exact P2|]. split; [exact L2|]. split; [exact HA2|].
    split; [congruence|]. split; [apply (CF_trans st st' st2 C' C2)|]. split; [exact Hq2|apply (kstable_trans st st' st2 K' K2)].
  Qed.

  Definition lhsFirst (st : state) (l : list nid) : Prop :=
    forall l1 m l2, l = l1 ++ m :: l2 -> isLhs (nkind (nd st m)) = false ->
      forall m2, m2 ∈ l2 -> isLhs (nkind (nd st m2)) = false.

  Lemma lhsFirst_tail st m l : lhsFirst st (m :: l) -> lhsFirst st l.
  Proof. intros H l1 m1 l2 E. apply (H (m :: l1) m1 l2). rewrite E. reflexivity. Qed.

  Lemma blockA fuel l : forall st al st2 e2 al2,
    Tplain st -> PInv st -> LInvP st l -> AW st al -> okx st -> ndx st -> lhsFirst st l -> (forall m, m ∈ l -> has st m) ->
    rfold (blockStep fuel pf) l (st, None, al) = Ok (st2, e2, al2) ->
    rejected_err e2 \/
    (Tplain st2 /\ PInv st2 /\ LInvP st2 [] /\ AW st2 al2 /\ stabNum st2 = stabNum st /\ CF st st2 /\ okx st2 /\
     ((e2 = None /\ ndx st2) \/ (e2 = Some ferr /\ inHeap st2 x = true))).
  Proof.
    induction l as [|m l IH]; intros st al st2 e2 al2 TP P L HA Hx Hnd HF Hh H; simpl in H.
    { injection H as <- <- <-. right. split; [exact TP|]. split; [exact P|]. split; [exact L|]. split; [exact HA|].
      split; [reflexivity|]. split; [apply CF_binds; reflexivity|]. split; [exact Hx|left; auto]. }
    apply rbind_ok in H as ([[st1 e1] al1] & H1 & H). unfold blockStep in H1.
    assert (Hh' : forall m', m' ∈ l -> has st m') by (intros m' Hm'; apply Hh; right; exact Hm').
    destruct (Z.eqb_spec (height (nd st m)) unset) as [Hu|Hu].
    { injection H1 as <- <- <-.
      apply (IH st al st2 e2 al2 TP P (LInvP_skip st m l (PInv_unset st m P Hu) L) HA Hx Hnd (lhsFirst_tail st m l HF) Hh' H). }
    apply rbind_ok in H1 as ([st' e'] & Hr & [= <- <- <-]).
    pose proof (PInv_hreg st m P Hu) as Hg.
    assert (Hkm : forall b, nkind (nd st m) = KBindLhs b -> b = m).
    { intros b K. pose proof (p_kinds _ P m (has_inGraph _ _ Hg)) as Hkk. rewrite K in Hkk. symmetry. apply Hkk. }
    destruct (decide (m = x /\ tkw w (nkind (nd st m)) = true)) as [[-> Ht]|Hno].
    - (* the faulting recompute *)
      destruct (HFS fuel st l st' e' P L Hg Ht (Hnd Ht Hg) Hr) as (-> & L' & Hqx & Eb & Ek & Ehas & Ene & Ekx & Egx & Edx).
      destruct (recomputeNodeParallel_spec PT PT_struct bind_spec_holds fuel pf st x st' _ Logic.I P eq_refl Hg Hr)
        as [[Hrj|(P' & _)] _].
      { exfalso. pose proof Hferr as Hf. unfold ferr in Hf. destruct Hrj as [E|E]; injection E as E; unfold ferr in E;
          rewrite E in Hf; discriminate Hf. }
      assert (Hna : isAlways (nkind (nd st' x)) = false) by (rewrite Ekx; apply (tkw_notAlways w), Ht).
      rewrite Hna in H.
      assert (HxR : x ∉ l) by (pose proof (lp_nodup _ _ L) as Hn; apply stdpp.list.NoDup_cons in Hn as [Hn _]; exact Hn).
      assert (HA' : AW st' al).
      { intros y A B C. assert (Hyx : y <> x) by (intros ->; rewrite Hna in A; discriminate).
        unfold isDone in B. rewrite (Ene y Hyx), Ek in *. apply (HA y A B C). }
      destruct (blockB fuel l st' al st2 e2 al2 ferr (Tplain_binds st st' Eb TP) P' L' HA' HxR Hqx)
        as (-> & TP2 & P2 & L2 & HA2 & Hk2 & C2 & Hq2 & K2); [|exact H|].
      { intros m' Hm'. assert (Hm'x : m' <> x) by (intros ->; exact (HxR Hm')). rewrite (Ene m' Hm'x), Ehas.
        split; [apply Hh'; exact Hm'|]. apply (HF [] x l eq_refl (tkw_nonlhs w _ Ht) m' Hm'). }
      right. split; [exact TP2|]. split; [exact P2|]. split; [exact L2|]. split; [exact HA2|]. split; [congruence|].
      split; [apply (CF_trans st st' st2); [apply CF_binds, Eb|exact C2]|].
      assert (Hxst' : okx st') by (intros Hw; destruct (Hx Hw) as [A B]; rewrite Ehas, Ekx; auto).
      split; [apply (okx_kstable st' st2 K2 Hxst')|right; auto].
    - (* any other recompute: the plan-free one *)
      assert (Hoth : m <> x \/ (tkw w (nkind (nd st m)) = false /\ (w = WFn -> isLhs (nkind (nd st m)) = false))).
      { destruct (decide (m = x)) as [->|Hne]; [right|left; exact Hne].
        split; [destruct (tkw w (nkind (nd st x))); [exfalso; apply Hno; auto|reflexivity]|]. intros Hw. apply (Hx Hw). }
      unfold pf in Hr. rewrite (rnp_fplan_other fuel x w k st m Hkm Hoth) in Hr.
      pose proof (E_rnp _ _ _ _ _ Hr) as G. destruct e' as [r|].
      { left. rewrite (block_errG fuel pf l _ _ _ _ _ _ H). destruct G as [-> | ->]; [left|right]; reflexivity. }
      destruct (nodeP bind_stepP fuel st m l st' TP P L Hg Hr) as (TP' & P' & L' & Hk' & C' & Hd).
      pose proof (kstable_rnp fuel [] st m st' None P Hr) as K'.
      assert (HA' : AW st' (if isAlways (nkind (nd st' m)) then al ++ [m] else al)).
      { intros y A B C. destruct (Hd y B C A) as [(X1 & X2 & X3)| ->].
        - pose proof (HA y X3 X1 X2). destruct (isAlways (nkind (nd st' m))); [apply elem_of_app; left|]; assumption.
        - rewrite A. apply elem_of_app. right. left. }
      assert (HF' : lhsFirst st' l).
      { intros l1 m1 l2 E Hl m2 Hm2.
        assert (H1 : has st m1) by (apply Hh'; rewrite E; apply elem_of_app; right; left).
        assert (H2 : has st m2) by (apply Hh'; rewrite E; apply elem_of_app; right; right; exact Hm2).
        destruct (K' m1 H1) as [_ E1]. destruct (K' m2 H2) as [_ E2]. rewrite E1 in Hl. rewrite E2.
        apply (lhsFirst_tail st m l HF l1 m1 l2 E Hl m2 Hm2). }
      assert (Hnd' : ndx st').
      { apply (ndx_step fuel st m l st' TP P L Hg Hr); [|apply has_inGraph, Hg|exact Hnd].
        intros ->. destruct (tkw w (nkind (nd st x))); [exfalso; apply Hno; auto|reflexivity]. }
      destruct (IH st' _ st2 e2 al2 TP' P' L' HA' (okx_kstable st st' K' Hx) Hnd' HF')
        as [Rj|(TP2 & P2 & L2 & HA2 & Hk2 & C2 & Hx2 & He2)];
        [intros m' Hm'; apply (K' m' (Hh' m' Hm'))|exact H|left; exact Rj|].
      right. split; [exact TP2|]. split; [exact P2|]. split; [exact L2|]. split; [exact HA2|]. split; [congruence|].
      split; [apply (CF_trans st st' st2 C' C2)|]. split; [exact Hx2|exact He2].
  Qed.

  (* the same, carrying the handler-set invariant *)
  Hypothesis HFH : forall fuel st R st' e',
    PInv st -> LInvP st (x :: R) -> inGraph (nd st x) = true -> tkw w (nkind (nd st x)) = true ->
    isDone st x = false -> recomputeNodeParallel fuel pf st x = Ok (st', e') -> HInv st -> HInv st'.

  Lemma blockBH fuel l : forall st al st2 e2 al2 e0,
    Tplain st -> PInv st -> LInvP st l -> AW st al -> HInv st -> x ∉ l -> inHeap st x = true ->
    (forall m, m ∈ l -> has st m /\ isLhs (nkind (nd st m)) = false) ->
    rfold (blockStep fuel pf) l (st, Some e0, al) = Ok (st2, e2, al2) ->
    e2 = Some e0 /\ Tplain st2 /\ PInv st2 /\ LInvP st2 [] /\ AW st2 al2 /\ stabNum st2 = stabNum st /\ CF st st2 /\
    inHeap st2 x = true /\ kstable st st2 /\ HInv st2.
  Proof.
    induction l as [|m l IH]; intros st al st2 e2 al2 e0 TP P L HA HI Hxl Hqx Hnl H; simpl in H.
    { injection H as <- <- <-. split; [reflexivity|]. split; [exact TP|]. split; [exact P|]. split; [exact L|].
      split; [exact HA|]. split; [reflexivity|]. split; [apply CF_binds; reflexivity|]. split; [exact Hqx|]. split; [apply kstable_refl|exact HI]. }
    apply rbind_ok in H as ([[st1 e1] al1] & H1 & H). unfold blockStep in H1.
    assert (Hxl' : x ∉ l) by (intros Hin; apply Hxl; right; exact Hin).
    assert (Hmx : m <> x) by (intros ->; apply Hxl; left).
    destruct (Z.eqb_spec (height (nd st m)) unset) as [Hu|Hu].
    { injection H1 as <- <- <-. apply (IH st al st2 e2 al2 e0 TP P (LInvP_skip st m l (PInv_unset st m P Hu) L) HA HI Hxl' Hqx); [|exact H].
      intros m' Hm'. apply Hnl. right. exact Hm'. }
    apply rbind_ok in H1 as ([st' e'] & Hr & [= <- <- <-]).
    pose proof (PInv_hreg st m P Hu) as Hg. destruct (Hnl m ltac:(left)) as [_ El].
    destruct (nodeB fuel st m l st' e' TP P L Hg El Hmx Hxl' Hqx Hr) as (-> & TP' & P' & L' & Hk' & C' & Hd & K' & Hqx').
    assert (HA' : AW st' (if isAlways (nkind (nd st' m)) then al ++ [m] else al)).
    { intros y A B C. destruct (Hd y B C A) as [(X1 & X2 & X3)| ->].
      - pose proof (HA y X3 X1 X2). destruct (isAlways (nkind (nd st' m))); [apply elem_of_app; left|]; assumption.
      - rewrite A. apply elem_of_app. right. left. }
    assert (HI' : HInv st').
    { assert (Hkm : forall b, nkind (nd st m) = KBindLhs b -> b = m) by (intros b K; rewrite K in El; discriminate).
      pose proof Hr as Hr0. unfold pf in Hr0. rewrite (rnp_fplan_other fuel x w k st m Hkm (or_introl Hmx)) in Hr0.
      exact (rnpH fuel st m l st' TP P L Hg HI Hr0). }
    destruct (IH st' _ st2 e2 al2 e0 TP' P' L' HA' HI' Hxl' Hqx') as (E & TP2 & P2 & L2 & HA2 & Hk2 & C2 & Hq2 & K2 & HI2); [|exact H|].
    { intros m' Hm'. destruct (Hnl m' ltac:(right; exact Hm')) as [Hh Hl]. destruct (K' m' Hh) as [Hh' Ek]. rewrite Ek. auto. }
    split; [exact E|]. split; [exact TP2|]. split; [exact P2|]. split; [exact L2|]. split; [exact HA2|].
    split; [congruence|]. split; [apply (CF_trans st st' st2 C' C2)|]. split; [exact Hq2|]. split; [apply (kstable_trans st st' st2 K' K2)|exact HI2].
  Qed.


  Lemma blockAH fuel l : forall st al st2 e2 al2,
    Tplain st -> PInv st -> LInvP st l -> AW st al -> HInv st -> okx st -> ndx st -> lhsFirst st l -> (forall m, m ∈ l -> has st m) ->
    rfold (blockStep fuel pf) l (st, None, al) = Ok (st2, e2, al2) ->
    rejected_err e2 \/
    (Tplain st2 /\ PInv st2 /\ LInvP st2 [] /\ AW st2 al2 /\ HInv st2 /\ stabNum st2 = stabNum st /\ CF st st2 /\ okx st2 /\
     ((e2 = None /\ ndx st2) \/ (e2 = Some ferr /\ inHeap st2 x = true))).
  Proof.
    induction l as [|m l IH]; intros st al st2 e2 al2 TP P L HA HI Hx Hnd HF Hh H; simpl in H.
    { injection H as <- <- <-. right. split; [exact TP|]. split; [exact P|]. split; [exact L|]. split; [exact HA|]. split; [exact HI|].
      split; [reflexivity|]. split; [apply CF_binds; reflexivity|]. split; [exact Hx|left; auto]. }
    apply rbind_ok in H as ([[st1 e1] al1] & H1 & H). unfold blockStep in H1.
    assert (Hh' : forall m', m' ∈ l -> has st m') by (intros m' Hm'; apply Hh; right; exact Hm').
    destruct (Z.eqb_spec (height (nd st m)) unset) as [Hu|Hu].
    { injection H1 as <- <- <-.
      apply (IH st al st2 e2 al2 TP P (LInvP_skip st m l (PInv_unset st m P Hu) L) HA HI Hx Hnd (lhsFirst_tail st m l HF) Hh' H). }
    apply rbind_ok in H1 as ([st' e'] & Hr & [= <- <- <-]).
    pose proof (PInv_hreg st m P Hu) as Hg.
    assert (Hkm : forall b, nkind (nd st m) = KBindLhs b -> b = m).
    { intros b K. pose proof (p_kinds _ P m (has_inGraph _ _ Hg)) as Hkk. rewrite K in Hkk. symmetry. apply Hkk. }
    destruct (decide (m = x /\ tkw w (nkind (nd st m)) = true)) as [[-> Ht]|Hno].
    - (* the faulting recompute *)
      destruct (HFS fuel st l st' e' P L Hg Ht (Hnd Ht Hg) Hr) as (-> & L' & Hqx & Eb & Ek & Ehas & Ene & Ekx & Egx & Edx).
      destruct (recomputeNodeParallel_spec PT PT_struct bind_spec_holds fuel pf st x st' _ Logic.I P eq_refl Hg Hr)
        as [[Hrj|(P' & _)] _].
      { exfalso. pose proof Hferr as Hf. unfold ferr in Hf. destruct Hrj as [E|E]; injection E as E; unfold ferr in E;
          rewrite E in Hf; discriminate Hf. }
      assert (Hna : isAlways (nkind (nd st' x)) = false) by (rewrite Ekx; apply (tkw_notAlways w), Ht).
      rewrite Hna in H.
      assert (HxR : x ∉ l) by (pose proof (lp_nodup _ _ L) as Hn; apply stdpp.list.NoDup_cons in Hn as [Hn _]; exact Hn).
      assert (HA' : AW st' al).
      { intros y A B C. assert (Hyx : y <> x) by (intros ->; rewrite Hna in A; discriminate).
        unfold isDone in B. rewrite (Ene y Hyx), Ek in *. apply (HA y A B C). }
      pose proof (HFH fuel st l st' _ P L Hg Ht (Hnd Ht Hg) Hr HI) as HI'.
      destruct (blockBH fuel l st' al st2 e2 al2 ferr (Tplain_binds st st' Eb TP) P' L' HA' HI' HxR Hqx)
        as (-> & TP2 & P2 & L2 & HA2 & Hk2 & C2 & Hq2 & K2 & HI2); [|exact H|].
      { intros m' Hm'. assert (Hm'x : m' <> x) by (intros ->; exact (HxR Hm')). rewrite (Ene m' Hm'x), Ehas.
        split; [apply Hh'; exact Hm'|]. apply (HF [] x l eq_refl (tkw_nonlhs w _ Ht) m' Hm'). }
      right. split; [exact TP2|]. split; [exact P2|]. split; [exact L2|]. split; [exact HA2|]. split; [exact HI2|]. split; [congruence|].
      split; [apply (CF_trans st st' st2); [apply CF_binds, Eb|exact C2]|].
      assert (Hxst' : okx st') by (intros Hw; destruct (Hx Hw) as [A B]; rewrite Ehas, Ekx; auto).
      split; [apply (okx_kstable st' st2 K2 Hxst')|right; auto].
    - (* any other recompute: the plan-free one *)
      assert (Hoth : m <> x \/ (tkw w (nkind (nd st m)) = false /\ (w = WFn -> isLhs (nkind (nd st m)) = false))).
      { destruct (decide (m = x)) as [->|Hne]; [right|left; exact Hne].
        split; [destruct (tkw w (nkind (nd st x))); [exfalso; apply Hno; auto|reflexivity]|]. intros Hw. apply (Hx Hw). }
      unfold pf in Hr. rewrite (rnp_fplan_other fuel x w k st m Hkm Hoth) in Hr.
      pose proof (E_rnp _ _ _ _ _ Hr) as G. destruct e' as [r|].
      { left. rewrite (block_errG fuel pf l _ _ _ _ _ _ H). destruct G as [-> | ->]; [left|right]; reflexivity. }
      destruct (nodeP bind_stepP fuel st m l st' TP P L Hg Hr) as (TP' & P' & L' & Hk' & C' & Hd).
      pose proof (kstable_rnp fuel [] st m st' None P Hr) as K'.
      assert (HA' : AW st' (if isAlways (nkind (nd st' m)) then al ++ [m] else al)).
      { intros y A B C. destruct (Hd y B C A) as [(X1 & X2 & X3)| ->].
        - pose proof (HA y X3 X1 X2). destruct (isAlways (nkind (nd st' m))); [apply elem_of_app; left|]; assumption.
        - rewrite A. apply elem_of_app. right. left. }
      assert (HF' : lhsFirst st' l).
      { intros l1 m1 l2 E Hl m2 Hm2.
        assert (H1 : has st m1) by (apply Hh'; rewrite E; apply elem_of_app; right; left).
        assert (H2 : has st m2) by (apply Hh'; rewrite E; apply elem_of_app; right; right; exact Hm2).
        destruct (K' m1 H1) as [_ E1]. destruct (K' m2 H2) as [_ E2]. rewrite E1 in Hl. rewrite E2.
        apply (lhsFirst_tail st m l HF l1 m1 l2 E Hl m2 Hm2). }
      assert (Hnd' : ndx st').
      { apply (ndx_step fuel st m l st' TP P L Hg Hr); [|apply has_inGraph, Hg|exact Hnd].
        intros ->. destruct (tkw w (nkind (nd st x))); [exfalso; apply Hno; auto|reflexivity]. }
      destruct (IH st' _ st2 e2 al2 TP' P' L' HA' (rnpH fuel st m l st' TP P L Hg HI Hr) (okx_kstable st st' K' Hx) Hnd' HF')
        as [Rj|(TP2 & P2 & L2 & HA2 & HI2 & Hk2 & C2 & Hx2 & He2)];
        [intros m' Hm'; apply (K' m' (Hh' m' Hm'))|exact H|left; exact Rj|].
      right. split; [exact TP2|]. split; [exact P2|]. split; [exact L2|]. split; [exact HA2|]. split; [exact HI2|]. split; [congruence|].
      split; [apply (CF_trans st st' st2 C' C2)|]. split; [exact Hx2|exact He2].
  Qed.

End ParFault.

(** * 5. From the loop invariant (queue possibly non-empty) to the quiescent invariant *)
Lemma finish_ValInvB_P sL always s' :
  PInv sL -> LInvP sL [] -> AW sL always ->
  nodes s' = nodes sL -> binds s' = binds sL -> next s' = next sL -> stabNum s' = stabNum sL + 1 ->
  (forall y, inHeap sL y = true -> inHeap s' y = true) ->
  (forall y, y ∈ always -> inGraph (nd sL y) = true -> inHeap s' y = true) ->
  ValInvB s'.
Proof.
  intros PL LL HAL Hn Hb Hx Hk' Hq Hqa.
  pose proof (nodes_eq_nd _ _ Hn) as Hnd. destruct (PInv_heap sL PL) as [IL _].
  pose proof (PInv_Struct sL PL) as HSL. pose proof (PInv_BFB sL PL (lp_shape _ _ LL)) as HBL.
  pose proof (st_num sL (p_stamps sL PL)) as Hkpos.
  assert (HstL : forall n, 0 <= changedAt (nd sL n) <= stabNum sL /\ 0 <= recomputedAt (nd sL n) <= stabNum sL /\
                           (changedAt (nd sL n) = stabNum sL -> recomputedAt (nd sL n) = stabNum sL)).
  { intros n. apply stamps_node_false, (lp_stamps _ _ LL). }
  assert (HnotW : forall n, inHeap s' n = false -> inP sL [] n = false).
  { intros n Hf. rewrite inP_nil. destruct (inHeap sL n) eqn:E; [|reflexivity].
    rewrite (Hq n E) in Hf. discriminate. }
  assert (Hgd : forall n, guarded s' None n = true -> guardedP sL [] n = true).
  { intros n Hg. unfold guarded in Hg. unfold guardedP. rewrite Hnd in Hg. apply forallb_intro. intros p Hp.
    pose proof (forallb_elem _ _ _ Hg Hp) as Hb2. cbv beta in Hb2. rewrite !Hnd in Hb2.
    apply andb_true_iff in Hb2 as [H1 H2]. rewrite H1. simpl. apply negb_true_iff in H2. apply negb_true_iff.
    unfold volq in H2. unfold volqP. rewrite ?Hnd in H2. destruct (nkind (nd sL p)); try reflexivity.
    - apply HnotW. unfold inW in H2. rewrite orb_false_r in H2. exact H2.
    - rewrite ?Hnd, Hk' in H2. apply Z.ltb_ge in H2. pose proof (HstL p). lia. }
  constructor.
  - intros n y E. rewrite Hn in E. exact (lp_shape _ _ LL n y E).
  - intros n. unfold stamps_node. rewrite Hnd, Hk'. pose proof (HstL n).
    rewrite !andb_true_iff, !Z.leb_le, !Z.ltb_lt. lia.
  - intros n Hg Hv. rewrite Hnd in *. apply (lp_unreg _ _ LL n Hg Hv).
  - intros n Hg Hs. rewrite Hnd in Hg. rewrite (isStale_nodes sL s' n Hn) in Hs.
    destruct (isDone sL n) eqn:Ed.
    + apply Hqa; [|exact Hg]. apply (HAL n); [|exact Ed|exact Hg].
      apply isDone_iff in Ed. unfold isStale in Hs. rewrite (t_valid _ _ _ (p_t _ PL) n Hg) in Hs. simpl in Hs.
      assert (Hsw : staleWrtParents sL (nd sL n) = false).
      { unfold staleWrtParents. destruct (existsb _ _) eqn:Ex; [|reflexivity].
        apply existsb_elem in Ex as (p & _ & Hp). apply Z.gtb_lt in Hp. pose proof (HstL p). lia. }
      assert (H0 : (recomputedAt (nd sL n) =? 0) = false) by (apply Z.eqb_neq; lia).
      destruct (nkind (nd sL n)) eqn:K; try reflexivity; try discriminate Hs; rewrite ?H0, ?Hsw in Hs; discriminate Hs.
    + apply Hq. pose proof (lp_owed _ _ LL n Hg Ed Hs) as Hw. rewrite inP_nil in Hw. exact Hw.
  - intros n Hg Hnq Hgd'. rewrite Hnd in *.
    rewrite (consistent_valB_nodes sL s' n _ Hn Hb).
    pose proof (lp_clean _ _ LL n Hg (HnotW n Hnq) (Hgd n Hgd')) as Hc.
    unfold clean_ok in Hc. apply andb_true_iff in Hc as [Hc _]. exact Hc.
  - intros b Hg K Hnq Hgd'. rewrite Hnd in *. rewrite (matchesOK_nodes sL s' b Hn Hb Hx).
    destruct (bb_main _ HBL _ _ K) as (_ & KL & Hd).
    assert (E1 : edge sL b (S b)) by (apply (decl_parent sL HSL _ _ Hg); rewrite Hd; left).
    destruct (edge_reg sL HSL _ _ E1) as [HgL _].
    pose proof (lp_clean _ _ LL b HgL (HnotW b Hnq) (Hgd b Hgd')) as HcL.
    unfold clean_ok in HcL. apply andb_true_iff in HcL as [_ HcL].
    rewrite KL, Hg, K in HcL. rewrite !bool_decide_eq_true_2 in HcL by reflexivity. exact HcL.
Qed.


(** * 6. The loop and the pass *)
Lemma lhsFirst_app (P : nid -> bool) : forall A B l1 m l2,
  (forall a, a ∈ A -> P a = true) -> (forall b, b ∈ B -> P b = false) ->
  A ++ B = l1 ++ m :: l2 -> P m = false -> forall m2, m2 ∈ l2 -> P m2 = false.
Proof.
  induction A as [|a A IH]; intros B l1 m l2 HA HB E Hm m2 Hm2.
  - apply HB. cbn in E. rewrite E. apply elem_of_app. right. right. exact Hm2.
  - destruct l1 as [|c l1]; cbn in E; injection E as -> E.
    + rewrite (HA m ltac:(left)) in Hm. discriminate.
    + apply (IH B l1 m l2); try assumption. intros a' Ha'. apply HA. right. exact Ha'.
Qed.

Section ParFaultLoop.
  Context (x : nid) (w : which) (k : faultkind).
  Let pf := fplan x w k.
  Let ferr := faultErr x k.
  Hypothesis HFS : faultStep x w k.
  Hypothesis Hferr : rejected (Some ferr) = false.

  Lemma loopPF fuel : forall s al s' e al',
    Tplain s -> PInv s -> LInvP s [] -> AW s al -> okx x w s -> ndx x w s ->
    parLoop fuel pf s al = Ok (s', e, al') ->
    rejected_err e \/
    (Tplain s' /\ PInv s' /\ LInvP s' [] /\ AW s' al' /\ stabNum s' = stabNum s /\ CF s s' /\
     ((e = None /\ Heap.ids (heap s') = []) \/ (e = Some ferr /\ inHeap s' x = true))).
  Proof.
    induction fuel as [|fuel IH]; intros s al s' e al' TP P L HA Hx Hnd H; [discriminate|].
    rewrite parLoop_S in H. destruct (PInv_heap s P) as [I Hq].
    destruct (Z.leb_spec (Heap.cnt (heap s)) 0) as [Hc|Hc].
    { injection H as <- <- <-. right. split; [exact TP|]. split; [exact P|]. split; [exact L|]. split; [exact HA|].
      split; [reflexivity|]. split; [apply CF_binds; reflexivity|]. left. split; [reflexivity|apply cnt_zero_ids; assumption]. }
    destruct (Heap.takeMinBlock (heap s)) as [block w0] eqn:Etb. cbv zeta in H.
    set (sb := s <| heap := w0 |>) in *.
    set (isL := fun n : nid => match nkind (nd sb n) with KBindLhs _ => true | _ => false end) in *.
    set (order := filter (fun n => isL n = true) block ++ filter (fun n => isL n = false) block) in *.
    apply rbind_ok in H as ([[s2 e2] al2] & H2 & H).
    destruct (heap_takeMinBlock_spec (heap s) block w0 I Etb) as (_ & Pm & _).
    assert (Hndb : NoDup block).
    { pose proof (inv_nodup _ I) as Hn. rewrite Pm in Hn. apply NoDup_app in Hn as (Hn & _). exact Hn. }
    assert (Hord : forall y, y ∈ order <-> y ∈ block).
    { intros y. unfold order. rewrite elem_of_app, !elem_of_list_filter. destruct (isL y); intuition congruence. }
    assert (Hndo : NoDup order).
    { unfold order. apply NoDup_app. split; [apply stdpp.list.NoDup_filter, Hndb|]. split; [|apply stdpp.list.NoDup_filter, Hndb].
      intros y [A _]%elem_of_list_filter [B _]%elem_of_list_filter. congruence. }
    destruct (block_start s block w0 order P L Etb Hndo Hord) as [Pb Lb]. fold sb in Pb, Lb.
    pose proof (Tplain_binds s sb eq_refl TP) as TPb.
    assert (HF : lhsFirst sb order).
    { intros l1 m l2 E Hm m2 Hm2.
      apply (lhsFirst_app (fun n => isLhs (nkind (nd sb n)))
               (filter (fun n => isL n = true) block) (filter (fun n => isL n = false) block) l1 m l2); try assumption.
      - intros a [Ha _]%elem_of_list_filter. exact Ha.
      - intros b [Hb _]%elem_of_list_filter. exact Hb. }
    assert (Hh : forall m, m ∈ order -> has sb m).
    { intros m Hm. apply Hord in Hm. apply has_inGraph. apply Hq. rewrite Pm. apply elem_of_app. left. exact Hm. }
    destruct (blockA x w k HFS Hferr fuel order sb al s2 e2 al2 TPb Pb Lb (AW_heap s w0 al HA) Hx Hnd HF Hh H2)
      as [Rj|(TP2 & P2 & L2 & HA2 & Hk2 & C2 & Hx2 & He2)].
    { left. destruct e2 as [r|]; [injection H as _ <- _; exact Rj|destruct Rj; discriminate]. }
    assert (C02 : CF s s2) by (apply (CF_trans s sb s2); [apply CF_binds; reflexivity|exact C2]).
    destruct e2 as [r|].
    - injection H as <- <- <-. destruct He2 as [[? _]|[[= ->] Hqx]]; [discriminate|]. right.
      split; [exact TP2|]. split; [exact P2|]. split; [exact L2|]. split; [exact HA2|]. split; [exact Hk2|].
      split; [exact C02|]. right. auto.
    - destruct He2 as [[_ Hnd2]|[? _]]; [|discriminate].
      destruct (IH s2 al2 s' e al' TP2 P2 L2 HA2 Hx2 Hnd2 H) as [Rj|(TP' & P' & L' & HA' & Hk' & C' & He')]; [left; exact Rj|].
      right. split; [exact TP'|]. split; [exact P'|]. split; [exact L'|]. split; [exact HA'|].
      split; [rewrite Hk', Hk2; reflexivity|]. split; [apply (CF_trans s s2 s' C02 C')|exact He'].
  Qed.

  (** C07 for the parallel pass: the function / cutoff function of [x] faults *)
  Theorem parF_fault s s' e :
    Inv s -> ValInvB s -> Tplain s -> par_plan_clean s pf = true ->
    parStabilize pf s = Ok (s', e) -> rejected e = false ->
    (e = None \/ e = Some ferr) /\ Inv s' /\ ValInvB s' /\ Tplain s' /\ CF s s' /\
    (e = None -> consistent s' = true) /\ (e = Some ferr -> inHeap s' x = true).
  Proof.
    intros IV V TP Hcl H Hrej. pose proof (Inv_wfb s IV) as Hwf.
    destruct (wfb_transients _ Hwf) as (Hst & Hsd & Hsr & Hh).
    assert (IV' : Inv s').
    { apply (Inv_step_parstabilize s (ParStabilize pf) s' e IV); try reflexivity; [exact Hcl|exact H| |];
        intros ->; discriminate Hrej. }
    destruct (parStabilize_decompose pf s s' e Hst H) as (sL & always & s2 & EL & ER & EE).
    set (s1 := EngineLocal.passStart s) in *.
    pose proof (LInvP_start s IV V) as L1. change (PassProofs.passStart s) with s1 in L1.
    pose proof (Inv_PInv_start s IV) as P1. change (PInv s1) in P1.
    pose proof (Tplain_binds s s1 eq_refl TP) as TP1.
    assert (Hnd0 : forall y, isDone s1 y = false).
    { intros y. unfold isDone. apply Z.eqb_neq. pose proof (stamps_node_true _ _ (vb_stamps _ V y)).
      change (recomputedAt (nd s y) <> stabNum s). lia. }
    assert (HA1 : AW s1 []) by (intros y _ Hd _; rewrite Hnd0 in Hd; discriminate).
    assert (Hx1 : okx x w s1).
    { intros Hw. subst w. unfold pf, fplan, par_plan_clean in Hcl. cbn in Hcl. rewrite andb_true_r in Hcl.
      change (nodes s1 !! x) with (nodes s !! x). unfold has. change (nd s1 x) with (nd s x). unfold nd.
      destruct (nodes s !! x) as [y|] eqn:Ex; [|discriminate]. split; [eauto|]. cbn.
      destruct (nkind y); try reflexivity. discriminate. }
    assert (Hn1 : ndx x w s1) by (intros _ _; apply Hnd0).
    destruct (loopPF _ s1 [] sL e always TP1 P1 L1 HA1 Hx1 Hn1 EL) as [Rj|(TPL & PL & LL & HAL & HkL & CL & He)].
    { exfalso. destruct Rj as [-> | ->]; discriminate Hrej. }
    destruct (PInv_heap sL PL) as [IL HqLh].
    unfold requeueAlwaysPar in ER. rewrite requeuePar_eq in ER.
    pose proof (requeue_only_heap _ _ _ ER) as OR.
    destruct (requeue_mem always sL s2 IL ER) as (IR & MR & AR).
    destruct (stabilizeEnd_quiet s2 _ s' ltac:(rewrite (oh_setDuring _ _ OR); exact (proj1 (lp_quiet _ _ LL)))
                ltac:(rewrite (oh_setRemoved _ _ OR); exact (proj2 (lp_quiet _ _ LL))) EE)
      as (En & Eh & Eb & Ex & Ek & _).
    assert (Hn : nodes s' = nodes sL) by (rewrite En; apply (oh_nodes _ _ OR)).
    assert (Hb : binds s' = binds sL) by (rewrite Eb; apply (oh_binds _ _ OR)).
    assert (Hnx : next s' = next sL) by (rewrite Ex; apply (oh_next _ _ OR)).
    assert (Hq' : forall y, y ∈ Heap.ids (heap s2) -> inHeap s' y = true).
    { intros y Hy. unfold inHeap. rewrite Eh. apply (inHeap_iff0 s2 y IR), Hy. }
    assert (V' : ValInvB s').
    { apply (finish_ValInvB_P sL always s' PL LL HAL Hn Hb Hnx).
      - rewrite Ek, (oh_stabNum _ _ OR). reflexivity.
      - intros y Hy. apply Hq', MR, (inHeap_iff0 sL y IL), Hy.
      - intros y Hy Hg. apply Hq', AR; [exact Hy|]. pose proof (st_hnonneg _ (PInv_Struct sL PL) y Hg). unfold unset. lia. }
    split; [destruct He as [[-> _]|[-> _]]; auto|]. split; [exact IV'|]. split; [exact V'|].
    split; [apply (Tplain_binds sL s' Hb TPL)|].
    split; [apply (CF_trans s sL s'); [|apply CF_binds, Hb]; apply (CF_trans s s1 sL); [apply CF_binds; reflexivity|exact CL]|].
    split.
    - intros ->. destruct He as [[_ Hemp]|[? _]]; [|discriminate].
      exact (endC_consistent sL PL (LInvC_of_LInvP sL IL Hemp LL) Hemp s' Hn Hb Hnx).
    - intros ->. destruct He as [[? _]|[_ HqL]]; [discriminate|]. apply Hq', MR, (inHeap_iff0 sL x IL), HqL.
  Qed.
  Hypothesis HFH : forall fuel st R st' e',
    PInv st -> LInvP st (x :: R) -> inGraph (nd st x) = true -> tkw w (nkind (nd st x)) = true ->
    isDone st x = false -> recomputeNodeParallel fuel pf st x = Ok (st', e') -> HInv st -> HInv st'.

  Lemma loopPFH fuel : forall s al s' e al',
    Tplain s -> PInv s -> LInvP s [] -> AW s al -> HInv s -> okx x w s -> ndx x w s ->
    parLoop fuel pf s al = Ok (s', e, al') ->
    rejected_err e \/
    (Tplain s' /\ PInv s' /\ LInvP s' [] /\ AW s' al' /\ HInv s' /\ stabNum s' = stabNum s /\ CF s s' /\
     ((e = None /\ Heap.ids (heap s') = []) \/ (e = Some ferr /\ inHeap s' x = true))).
  Proof.
    induction fuel as [|fuel IH]; intros s al s' e al' TP P L HA HI Hx Hnd H; [discriminate|].
    rewrite parLoop_S in H. destruct (PInv_heap s P) as [I Hq].
    destruct (Z.leb_spec (Heap.cnt (heap s)) 0) as [Hc|Hc].
    { injection H as <- <- <-. right. split; [exact TP|]. split; [exact P|]. split; [exact L|]. split; [exact HA|]. split; [exact HI|].
      split; [reflexivity|]. split; [apply CF_binds; reflexivity|]. left. split; [reflexivity|apply cnt_zero_ids; assumption]. }
    destruct (Heap.takeMinBlock (heap s)) as [block w0] eqn:Etb. cbv zeta in H.
    set (sb := s <| heap := w0 |>) in *.
    set (isL := fun n : nid => match nkind (nd sb n) with KBindLhs _ => true | _ => false end) in *.
    set (order := filter (fun n => isL n = true) block ++ filter (fun n => isL n = false) block) in *.
    apply rbind_ok in H as ([[s2 e2] al2] & H2 & H).
    destruct (heap_takeMinBlock_spec (heap s) block w0 I Etb) as (_ & Pm & _).
    assert (Hndb : NoDup block).
    { pose proof (inv_nodup _ I) as Hn. rewrite Pm in Hn. apply NoDup_app in Hn as (Hn & _). exact Hn. }
    assert (Hord : forall y, y ∈ order <-> y ∈ block).
    { intros y. unfold order. rewrite elem_of_app, !elem_of_list_filter. destruct (isL y); intuition congruence. }
    assert (Hndo : NoDup order).
    { unfold order. apply NoDup_app. split; [apply stdpp.list.NoDup_filter, Hndb|]. split; [|apply stdpp.list.NoDup_filter, Hndb].
      intros y [A _]%elem_of_list_filter [B _]%elem_of_list_filter. congruence. }
    destruct (block_start s block w0 order P L Etb Hndo Hord) as [Pb Lb]. fold sb in Pb, Lb.
    pose proof (Tplain_binds s sb eq_refl TP) as TPb.
    assert (HF : lhsFirst sb order).
    { intros l1 m l2 E Hm m2 Hm2.
      apply (lhsFirst_app (fun n => isLhs (nkind (nd sb n)))
               (filter (fun n => isL n = true) block) (filter (fun n => isL n = false) block) l1 m l2); try assumption.
      - intros a [Ha _]%elem_of_list_filter. exact Ha.
      - intros b [Hb _]%elem_of_list_filter. exact Hb. }
    assert (Hh : forall m, m ∈ order -> has sb m).
    { intros m Hm. apply Hord in Hm. apply has_inGraph. apply Hq. rewrite Pm. apply elem_of_app. left. exact Hm. }
    assert (HIb : HInv sb) by exact HI.
    destruct (blockAH x w k HFS Hferr HFH fuel order sb al s2 e2 al2 TPb Pb Lb (AW_heap s w0 al HA) HIb Hx Hnd HF Hh H2)
      as [Rj|(TP2 & P2 & L2 & HA2 & HI2 & Hk2 & C2 & Hx2 & He2)].
    { left. destruct e2 as [r|]; [injection H as _ <- _; exact Rj|destruct Rj; discriminate]. }
    assert (C02 : CF s s2) by (apply (CF_trans s sb s2); [apply CF_binds; reflexivity|exact C2]).
    destruct e2 as [r|].
    - injection H as <- <- <-. destruct He2 as [[? _]|[[= ->] Hqx]]; [discriminate|]. right.
      split; [exact TP2|]. split; [exact P2|]. split; [exact L2|]. split; [exact HA2|]. split; [exact HI2|]. split; [exact Hk2|].
      split; [exact C02|]. right. auto.
    - destruct He2 as [[_ Hnd2]|[? _]]; [|discriminate].
      destruct (IH s2 al2 s' e al' TP2 P2 L2 HA2 HI2 Hx2 Hnd2 H) as [Rj|(TP' & P' & L' & HA' & HI' & Hk' & C' & He')]; [left; exact Rj|].
      right. split; [exact TP'|]. split; [exact P'|]. split; [exact L'|]. split; [exact HA'|]. split; [exact HI'|].
      split; [rewrite Hk', Hk2; reflexivity|]. split; [apply (CF_trans s s2 s' C02 C')|exact He'].
  Qed.


  (** C13 for a faulted parallel pass: the update handlers that run at the end are those of the nodes
      that are registered when the pass returns and carry its change stamp (the nodes that changed
      before the fault, and are still there) *)
  Theorem parF_handlers s s' e :
    Inv s -> ValInvB s -> Tplain s -> par_plan_clean s pf = true ->
    parStabilize pf s = Ok (s', e) -> rejected e = false ->
    exists L H,
      rev (log s') = rev (log s) ++ [EvPassStart] ++ L ++ [EvPassEnd (classify e)] ++ H /\
      Forall passEv L /\ Forall EngineLocal.isHandlerEv H /\ NoDup H /\
      (forall n, EvUpd n ∈ H <-> inGraph (nd s' n) = true /\ changedAt (nd s' n) = stabNum s) /\
      (forall o v, EvObsUpd o v ∈ H <->
         exists n, obs s' !! o = Some n /\ changedAt (nd s' n) = stabNum s /\ v = valueOf s' n).
  Proof.
    intros IV V TP Hcl H Hrej. pose proof (Inv_wfb s IV) as Hwf. destruct (wfb_transients _ Hwf) as (Hst & Hsd & Hsr & Hh).
    destruct (C13_bracket_and_order_par pf s s' e Hst) as (L & sL & always & EL & Hlog & HL & Hobs & Hsort);
      [intros n Hn; apply (io_lt _ (inv_ids _ IV)); exact Hn|reflexivity|rewrite Hsd, Hsr; constructor|exact H|].
    destruct (Hsort ltac:(rewrite Hh; constructor)) as [_ Hnd].
    set (s1 := EngineLocal.passStart s) in *.
    pose proof (LInvP_start s IV V) as L1. change (PassProofs.passStart s) with s1 in L1.
    pose proof (Inv_PInv_start s IV) as P1. change (PInv s1) in P1.
    pose proof (Tplain_binds s s1 eq_refl TP) as TP1.
    assert (Hnd0 : forall y, isDone s1 y = false).
    { intros y. unfold isDone. apply Z.eqb_neq. pose proof (stamps_node_true _ _ (vb_stamps _ V y)).
      change (recomputedAt (nd s y) <> stabNum s). lia. }
    assert (HA1 : AW s1 []) by (intros y _ Hd _; rewrite Hnd0 in Hd; discriminate).
    assert (HI1 : HInv s1).
    { intros k0. change (handlers s1) with (handlers s). rewrite Hh. split; [intros Hk; inversion Hk|].
      intros [[_ Hc]|(n & _ & _ & Hc)]; exfalso.
      - pose proof (stamps_node_true _ _ (vb_stamps _ V k0)). change (changedAt (nd s k0) = stabNum s) in Hc. lia.
      - pose proof (stamps_node_true _ _ (vb_stamps _ V n)). change (changedAt (nd s n) = stabNum s) in Hc. lia. }
    assert (Hx1 : okx x w s1).
    { intros Hw. subst w. unfold pf, fplan, par_plan_clean in Hcl. cbn in Hcl. rewrite andb_true_r in Hcl.
      change (nodes s1 !! x) with (nodes s !! x). unfold has. change (nd s1 x) with (nd s x). unfold nd.
      destruct (nodes s !! x) as [y|] eqn:Ex; [|discriminate]. split; [eauto|]. cbn.
      destruct (nkind y); try reflexivity. discriminate. }
    assert (Hn1 : ndx x w s1) by (intros _ _; apply Hnd0).
    destruct (loopPFH _ s1 [] sL e always TP1 P1 L1 HA1 HI1 Hx1 Hn1 EL) as [Rj|(TPL & PL & LL & HAL & HIL & HkL & CL & He)].
    { exfalso. destruct Rj as [-> | ->]; discriminate Hrej. }
    pose proof (PInv_Struct sL PL) as HSL. pose proof (t_obs _ _ _ (p_t _ PL)) as HOL.
    destruct (parStabilize_decompose pf s s' e Hst H) as (sL' & al' & s2 & EL2 & ER & EE).
    change (EngineLocal.passStart s) with s1 in EL2. rewrite EL in EL2. injection EL2 as <- <-.
    unfold requeueAlwaysPar in ER. rewrite requeuePar_eq in ER.
    pose proof (requeue_only_heap _ _ _ ER) as OR.
    destruct (stabilizeEnd_quiet s2 _ s' ltac:(rewrite (oh_setDuring _ _ OR); exact (proj1 (lp_quiet _ _ LL)))
                ltac:(rewrite (oh_setRemoved _ _ OR); exact (proj2 (lp_quiet _ _ LL))) EE)
      as (En & _ & _ & _ & _ & _ & Eo & _).
    assert (Hnodes : nodes s' = nodes sL) by (rewrite En; apply (oh_nodes _ _ OR)).
    pose proof (nodes_eq_nd _ _ Hnodes) as Hnd'.
    assert (Hobs' : obs s' = obs sL) by (rewrite Eo; apply (oh_obs _ _ OR)).
    assert (HkLs : stabNum sL = stabNum s) by exact HkL.
    exists L, (map (hev sL) (handlers sL)). split; [exact Hlog|]. split; [exact HL|].
    split; [apply Forall_forall; intros e0 He0; apply elem_of_list_In, elem_of_list_fmap in He0 as (k0 & -> & _); apply hev_isHandlerEv|].
    split; [apply NoDup_fmap_2; [intros k1 k2; apply hev_inj|exact Hnd]|].
    split.
    - intros n. rewrite Hnd', <- HkLs, elem_of_list_fmap. split.
      + intros (k0 & Ek & Hk). unfold hev in Ek. destruct (obs sL !! k0) as [n'|] eqn:Eo0; [discriminate|].
        injection Ek as ->. apply HIL in Hk as [Hk|(n' & _ & Hin & _)]; [exact Hk|].
        apply (ob_iff _ HOL) in Hin. congruence.
      + intros [Hg Hc]. exists n. split; [|apply HIL; left; auto].
        unfold hev. destruct (obs sL !! n) as [n'|] eqn:Eo0; [|reflexivity].
        exfalso. destruct (ob_ids _ HOL n n' Eo0) as (_ & Hno & _). apply Hno. apply has_inGraph, Hg.
    - intros o v. rewrite elem_of_list_fmap. split.
      + intros (k0 & Ek & Hk). unfold hev in Ek. destruct (obs sL !! k0) as [n|] eqn:Eo0; [|discriminate].
        injection Ek as -> ->. exists n. rewrite Hobs'. split; [exact Eo0|].
        rewrite Hnd', <- HkLs, (valueOf_nodes sL s' n Hnodes). split; [|reflexivity].
        apply HIL in Hk as [[Hg _]|(n' & _ & Hin & Hc)].
        * exfalso. destruct (ob_ids _ HOL k0 n Eo0) as (_ & Hno & _). apply Hno. apply has_inGraph, Hg.
        * apply (ob_iff _ HOL) in Hin. congruence.
      + intros (n & Ho & Hc & ->). rewrite Hobs' in Ho. rewrite Hnd', <- HkLs in Hc.
        exists o. split; [unfold hev; rewrite Ho, (valueOf_nodes sL s' n Hnodes); reflexivity|].
        apply HIL. right. exists n. split; [|split; [apply (ob_iff _ HOL), Ho|exact Hc]].
        rewrite (st_nec _ HSL n). unfold isNecessary.
        apply (ob_iff _ HOL) in Ho. destruct (observers (nd sL n)) as [|o' l]; [inversion Ho|].
        rewrite (bool_decide_eq_false_2 (o' :: l = [])) by discriminate. rewrite orb_true_r. reflexivity.
  Qed.
End ParFaultLoop.

(** * 7. Instances: an error, a panic *)
Lemma faultStep_err x w : faultStep x w FErr.
Proof.
  intros fuel st R st' e' P L Hg Ht Hd H.
  destruct (rnp_errPlan_fail fuel x w st st' e' P Hg Ht H) as (-> & Ff).
  destruct (LInvP_failed st x R st' P L Hg Ff) as [L' Hqx].
  pose proof (nodes_eq_nd _ _ (ft_nodes _ _ _ Ff)) as Hnd. destruct (ft_fields _ _ _ Ff) as (_ & Fk & _).
  split; [reflexivity|]. split; [exact L'|]. split; [exact Hqx|]. split; [apply (ft_binds _ _ _ Ff)|]. split; [exact Fk|].
  split; [intros y; unfold has; rewrite (ft_nodes _ _ _ Ff); reflexivity|]. split; [intros y _; apply Hnd|].
  rewrite !Hnd. split; [reflexivity|]. split; [reflexivity|]. unfold isDone. rewrite Hnd, Fk. exact Hd.
Qed.

Theorem parF_error x w s s' e :
  Inv s -> ValInvB s -> Tplain s -> par_plan_clean s (errPlan x w) = true ->
  parStabilize (errPlan x w) s = Ok (s', e) -> rejected e = false ->
  (e = None \/ e = Some (EUser x)) /\ Inv s' /\ ValInvB s' /\ Tplain s' /\ CF s s' /\
  (e = None -> consistent s' = true) /\ (e = Some (EUser x) -> inHeap s' x = true).
Proof. exact (parF_fault x w FErr (faultStep_err x w) eq_refl s s' e). Qed.

(* the panicking recompute: the stamp of [x] is reset, [x] is queued *)
Lemma LInvP_reset s x R s' :
  PInv s -> LInvP s (x :: R) -> inGraph (nd s x) = true -> isDone s x = false -> isAlways (nkind (nd s x)) = false ->
  (forall y, y <> x -> nd s' y = nd s y) -> nd s' x = nd s x <| recomputedAt := 0 |> ->
  (forall y, has s' y <-> has s y) -> binds s' = binds s -> next s' = next s -> stabNum s' = stabNum s ->
  setDuring s' = setDuring s -> setRemoved s' = setRemoved s ->
  HeapSpec.inv (heap s') -> (forall y, y ∈ Heap.ids (heap s') <-> y = x \/ y ∈ Heap.ids (heap s)) ->
  LInvP s' R /\ inHeap s' x = true.
Proof.
  intros P L Hg Hd Hna Hne Hx Hhas Hb Hnx Hk Hsd Hsr I' Hids.
  destruct (PInv_heap s P) as [I _]. pose proof (PInv_BFB s P (lp_shape _ _ L)) as HB.
  assert (HxR : x ∉ R) by (pose proof (lp_nodup _ _ L) as H; apply stdpp.list.NoDup_cons in H as [H _]; exact H).
  assert (Hf : forall (A : Type) (g : node -> A) n, (forall y a, g (y <| recomputedAt := a |>) = g y) -> g (nd s' n) = g (nd s n)).
  { intros A g n Hgg. destruct (decide (n = x)) as [->|Hn]; [rewrite Hx; apply Hgg|rewrite (Hne n Hn); reflexivity]. }
  assert (Hq : forall n, inHeap s' n = bool_decide (n = x) || inHeap s n).
  { intros n. apply eq_true_iff_eq. rewrite orb_true_iff, bool_decide_eq_true, (inHeap_iff0 s' n I'), (inHeap_iff0 s n I). apply Hids. }
  assert (HW : forall n, inP s' R n = inP s (x :: R) n).
  { intros n. unfold inP. rewrite Hq, (Hf _ inGraph) by reflexivity. destruct (decide (n = x)) as [->|Hn].
    - rewrite Hg, (bool_decide_eq_true_2 (x = x)) by reflexivity.
      rewrite (bool_decide_eq_true_2 (x ∈ x :: R)) by left. simpl. rewrite orb_true_r. reflexivity.
    - rewrite (bool_decide_eq_false_2 (n = x)) by exact Hn. simpl. f_equal. f_equal.
      apply bool_decide_ext. rewrite elem_of_cons. tauto. }
  assert (Hdone : forall n, isDone s' n = isDone s n).
  { intros n. unfold isDone. rewrite Hk. destruct (decide (n = x)) as [->|Hn]; [|rewrite (Hne n Hn); reflexivity].
    rewrite Hx. change ((0 =? stabNum s) = (recomputedAt (nd s x) =? stabNum s)). unfold isDone in Hd. rewrite Hd.
    apply Z.eqb_neq. pose proof (st_num s (p_stamps s P)). lia. }
  assert (Hedge : forall a b, edge s' a b <-> edge s a b).
  { intros a b. unfold edge. rewrite (Hf _ children) by reflexivity. reflexivity. }
  assert (Hr : forall a b, reach s' a b <-> reach s a b).
  { intros a b. unfold reach. split; induction 1; try apply rtc_refl; eapply rtc_l; eauto; apply Hedge; auto. }
  assert (Hval : forall q, valueOf s' q = valueOf s q).
  { intros q. apply valueOf_ext. intros n. repeat split; apply Hf; reflexivity. }
  assert (Hstale : forall n, n <> x -> isStale s' n = isStale s n).
  { intros n Hn. apply isStale_same; [apply Hne, Hn|exact Hk|]. intros q _. apply Hf; reflexivity. }
  assert (Hgd : forall n, n <> x -> guardedP s' R n = guardedP s (x :: R) n).
  { intros n Hn. unfold guardedP. rewrite (Hne n Hn). apply forallb_ext. intros q _.
    rewrite (Hf _ changedAt) by reflexivity. f_equal. f_equal. unfold volqP.
    rewrite (Hf _ nkind), HW, Hk by reflexivity. destruct (nkind (nd s q)) eqn:Kq; try reflexivity.
    assert (q <> x) by (intros ->; rewrite Kq in Hna; discriminate). rewrite (Hne q) by assumption. reflexivity. }
  split; [|rewrite Hq, (bool_decide_eq_true_2 (x = x)) by reflexivity; reflexivity].
  constructor.
  - intros n y E. assert (Hn : has s n) by (apply Hhas; exists y; exact E). destruct Hn as [y0 E0].
    rewrite <- (nd_lookup _ _ _ E). rewrite (shape_node_ext n (nd s n) (nd s' n)); try (apply Hf; reflexivity).
    rewrite (nd_lookup _ _ _ E0). exact (lp_shape _ _ L n y0 E0).
  - intros n. pose proof (stamps_node_false _ _ (lp_stamps _ _ L n)) as Hs. unfold stamps_node. rewrite Hk.
    rewrite (Hf _ changedAt) by reflexivity. destruct (decide (n = x)) as [->|Hn].
    + rewrite Hx. change (recomputedAt (nd s x <| recomputedAt := 0 |>)) with 0.
      unfold isDone in Hd. apply Z.eqb_neq in Hd. destruct Hs as (A & B & C).
      assert (Ec : (changedAt (nd s x) =? stabNum s) = false) by (apply Z.eqb_neq; intros E; apply Hd, C, E).
      rewrite Ec. cbn [implb]. pose proof (st_num s (p_stamps s P)).
      rewrite !andb_true_iff, !Z.leb_le. lia.
    + rewrite (Hne n Hn). apply (lp_stamps _ _ L n).
  - pose proof (lp_nodup _ _ L) as H. apply stdpp.list.NoDup_cons in H as [_ H]. exact H.
  - intros w0 n Hw Hwn Hdn. rewrite HW in *. rewrite Hdone in Hdn. apply (lp_B _ _ L w0 n Hw); [apply Hr, Hwn|exact Hdn].
  - intros m w0 Hm Hgm Hqm Hw Hwm. rewrite HW in Hw. rewrite (Hf _ inGraph) in Hgm by reflexivity. rewrite Hq in Hqm.
    apply orb_false_iff in Hqm as [_ Hqm]. apply (lp_M _ _ L m w0 ltac:(right; exact Hm) Hgm Hqm Hw). apply Hr, Hwm.
  - intros n Hgn Hdn Hs. rewrite HW. destruct (decide (n = x)) as [->|Hn].
    + unfold inP. rewrite Hg, (bool_decide_eq_true_2 (x ∈ x :: R)) by left. apply orb_true_r.
    + rewrite (Hf _ inGraph) in Hgn by reflexivity. rewrite Hdone in Hdn. rewrite (Hstale n Hn) in Hs.
      apply (lp_owed _ _ L n Hgn Hdn Hs).
  - intros n Hgn Hw Hgd'. rewrite HW in Hw.
    assert (Hn : n <> x).
    { intros ->. unfold inP in Hw. rewrite Hg, (bool_decide_eq_true_2 (x ∈ x :: R)) in Hw by left. rewrite orb_true_r in Hw. discriminate. }
    rewrite (Hgd n Hn) in Hgd'. rewrite (Hf _ inGraph) in Hgn by reflexivity.
    rewrite (clean_ok_ext s s' n HB Hb Hnx); [exact (lp_clean _ _ L n Hgn Hw Hgd')| | | | |].
    + intros y. repeat split; apply Hf; reflexivity.
    + intros y. apply Hf; reflexivity.
    + intros y _. apply Hf; reflexivity.
    + apply Hf; reflexivity.
    + intros q _. apply Hval.
  - intros n. rewrite (Hf _ inGraph), (Hf _ valid), (Hf _ changedAt) by reflexivity. intros Hgn Hv.
    assert (Hn : n <> x) by (intros ->; congruence). rewrite (Hne n Hn). apply (lp_unreg _ _ L n Hgn Hv).
  - rewrite Hsd, Hsr. apply (lp_quiet _ _ L).
Qed.

Lemma faultStep_panic x w : faultStep x w FPanic.
Proof.
  intros fuel st R st' e' P L Hg Ht Hd H. pose proof (has_inGraph _ _ Hg) as Hx. destruct (PInv_heap st P) as [I _].
  pose proof (st_hnonneg _ (PInv_Struct st P) x Hg) as Hh.
  rewrite rnp_unfold2 in H. cbv zeta in H.
  set (s0 := upd st x (set recomputedAt (fun _ => stabNum st))) in *.
  assert (Hk0 : nkind (nd s0 x) = nkind (nd st x)) by (apply (nd_upd_proj nkind); reflexivity).
  set (sE := emit (EvFault x w FPanic) s0).
  assert (HE : parErr sE x (recomputedAt (nd st x)) (EPanic x) = Ok (st', e')).
  { destruct w; simpl in Ht.
    - assert (Hmc : maybeCutoff (fplan x WFn FPanic) s0 x (nd st x) = Ok (s0, None, false)).
      { unfold maybeCutoff. destruct (nkind (nd st x)); try reflexivity; discriminate Ht. }
      rewrite Hmc in H. cbn [rbind] in H.
      assert (Hsn : stabilizeNode fuel (fplan x WFn FPanic) s0 x = Ok (sE, Some (EPanic x))).
      { assert (Hinv : invoke (fplan x WFn FPanic) s0 x WFn = Ok (sE, Some (EPanic x))).
        { unfold invoke. rewrite fplan_actions, Nat.eqb_refl. reflexivity. }
        unfold stabilizeNode. rewrite Hk0. destruct (nkind (nd st x)); try discriminate Ht; rewrite Hinv; reflexivity. }
      rewrite Hsn in H. cbn [rbind] in H. exact H.
    - assert (Hmc : maybeCutoff (fplan x WCut FPanic) s0 x (nd st x) = Ok (sE, Some (EPanic x), false)).
      { assert (Hinv : invoke (fplan x WCut FPanic) s0 x WCut = Ok (sE, Some (EPanic x))).
        { unfold invoke. rewrite fplan_actions, Nat.eqb_refl. reflexivity. }
        unfold maybeCutoff. destruct (nkind (nd st x)); try discriminate Ht. rewrite Hinv. reflexivity. }
      rewrite Hmc in H. cbn [rbind] in H. exact H. }
  clear H. unfold parErr in HE. set (sA := upd sE x (set recomputedAt (fun _ => 0))) in *.
  apply rbind_ok in HE as (s3 & E3 & [= <- <-]).
  assert (HxE : has sE x) by (apply has_emit, has_upd, Hx).
  assert (HndA : forall y, nd sA y = if decide (y = x) then nd st x <| recomputedAt := 0 |> else nd st y).
  { intros y. unfold sA. rewrite nd_upd by exact HxE. destruct (decide (y = x)) as [->|Hy].
    - unfold sE. rewrite nd_emit. unfold s0. rewrite nd_upd_eq by exact Hx. destruct (nd st x); reflexivity.
    - unfold sE. rewrite nd_emit. unfold s0. apply nd_upd_ne, Hy. }
  assert (IA : HeapSpec.inv (heap sA)) by exact I.
  destruct (heapAddIfNotPresent_spec0 sA x s3 IA ltac:(rewrite HndA, decide_True by reflexivity; exact Hh) E3) as (O3 & I3 & M3 & _).
  destruct (errorHandlers_fields s3 x) as (En & Eh & Eb & Ex & Ek & Esd & Esr).
  assert (Hnd' : forall y, nd (errorHandlers s3 x) y = if decide (y = x) then nd st x <| recomputedAt := 0 |> else nd st y).
  { intros y. rewrite (nodes_eq_nd _ _ En y), (oh_nd _ _ O3). apply HndA. }
  assert (Hhas' : forall y, has (errorHandlers s3 x) y <-> has st y).
  { intros y. unfold has. rewrite En, (oh_nodes _ _ O3). fold (has sA y). unfold sA. rewrite has_upd. unfold sE.
    rewrite has_emit. apply has_upd. }
  destruct (LInvP_reset st x R (errorHandlers s3 x) P L Hg Hd (tkw_notAlways w _ Ht)) as [L' Hqx].
  - intros y Hy. rewrite Hnd', decide_False by exact Hy. reflexivity.
  - rewrite Hnd', decide_True by reflexivity. reflexivity.
  - exact Hhas'.
  - rewrite Eb, (oh_binds _ _ O3). reflexivity.
  - rewrite Ex, (oh_next _ _ O3). reflexivity.
  - rewrite Ek, (oh_stabNum _ _ O3). reflexivity.
  - rewrite Esd, (oh_setDuring _ _ O3). reflexivity.
  - rewrite Esr, (oh_setRemoved _ _ O3). reflexivity.
  - rewrite Eh. exact I3.
  - intros y. rewrite Eh, M3. reflexivity.
  - split; [reflexivity|]. split; [exact L'|]. split; [exact Hqx|].
    split; [rewrite Eb, (oh_binds _ _ O3); reflexivity|]. split; [rewrite Ek, (oh_stabNum _ _ O3); reflexivity|].
    split; [exact Hhas'|]. split; [intros y Hy; rewrite Hnd', decide_False by exact Hy; reflexivity|].
    rewrite !Hnd', !decide_True by reflexivity. split; [reflexivity|]. split; [reflexivity|].
    unfold isDone. rewrite Hnd', decide_True by reflexivity. rewrite Ek, (oh_stabNum _ _ O3).
    change (recomputedAt (nd st x <| recomputedAt := 0 |>)) with 0. change (stabNum sA) with (stabNum st).
    apply Z.eqb_neq. pose proof (st_num st (p_stamps st P)). lia.
Qed.

Theorem parF_panic x w s s' e :
  Inv s -> ValInvB s -> Tplain s -> par_plan_clean s (panPlan x w) = true ->
  parStabilize (panPlan x w) s = Ok (s', e) -> rejected e = false ->
  (e = None \/ e = Some (EPanic x)) /\ Inv s' /\ ValInvB s' /\ Tplain s' /\ CF s s' /\
  (e = None -> consistent s' = true) /\ (e = Some (EPanic x) -> inHeap s' x = true).
Proof. exact (parF_fault x w FPanic (faultStep_panic x w) eq_refl s s' e). Qed.

(* the handler set across the faulting recompute *)
Lemma fault_HInv_err x w : forall fuel st R st' e',
  PInv st -> LInvP st (x :: R) -> inGraph (nd st x) = true -> tkw w (nkind (nd st x)) = true ->
  isDone st x = false -> recomputeNodeParallel fuel (fplan x w FErr) st x = Ok (st', e') -> HInv st -> HInv st'.
Proof.
  intros fuel st R st' e' P L Hg Ht Hd H HI.
  destruct (rnp_errPlan_fail fuel x w st st' e' P Hg Ht H) as (_ & Ff). destruct (ft_fields _ _ _ Ff) as (_ & Fk & _).
  exact (HInv_nodes st st' (ft_nodes _ _ _ Ff) (ft_handlers _ _ _ Ff) Fk HI).
Qed.

Lemma fault_HInv_panic x w : forall fuel st R st' e',
  PInv st -> LInvP st (x :: R) -> inGraph (nd st x) = true -> tkw w (nkind (nd st x)) = true ->
  isDone st x = false -> recomputeNodeParallel fuel (fplan x w FPanic) st x = Ok (st', e') -> HInv st -> HInv st'.
Proof.
  intros fuel st R st' e' P L Hg Ht Hd H HI. pose proof (has_inGraph _ _ Hg) as Hx. destruct (PInv_heap st P) as [I _].
  pose proof (st_hnonneg _ (PInv_Struct st P) x Hg) as Hh.
  rewrite rnp_unfold2 in H. cbv zeta in H.
  set (s0 := upd st x (set recomputedAt (fun _ => stabNum st))) in *.
  assert (Hk0 : nkind (nd s0 x) = nkind (nd st x)) by (apply (nd_upd_proj nkind); reflexivity).
  set (sE := emit (EvFault x w FPanic) s0).
  assert (HE : parErr sE x (recomputedAt (nd st x)) (EPanic x) = Ok (st', e')).
  { destruct w; simpl in Ht.
    - assert (Hmc : maybeCutoff (fplan x WFn FPanic) s0 x (nd st x) = Ok (s0, None, false)).
      { unfold maybeCutoff. destruct (nkind (nd st x)); try reflexivity; discriminate Ht. }
      rewrite Hmc in H. cbn [rbind] in H.
      assert (Hsn : stabilizeNode fuel (fplan x WFn FPanic) s0 x = Ok (sE, Some (EPanic x))).
      { assert (Hinv : invoke (fplan x WFn FPanic) s0 x WFn = Ok (sE, Some (EPanic x))).
        { unfold invoke. rewrite fplan_actions, Nat.eqb_refl. reflexivity. }
        unfold stabilizeNode. rewrite Hk0. destruct (nkind (nd st x)); try discriminate Ht; rewrite Hinv; reflexivity. }
      rewrite Hsn in H. cbn [rbind] in H. exact H.
    - assert (Hmc : maybeCutoff (fplan x WCut FPanic) s0 x (nd st x) = Ok (sE, Some (EPanic x), false)).
      { assert (Hinv : invoke (fplan x WCut FPanic) s0 x WCut = Ok (sE, Some (EPanic x))).
        { unfold invoke. rewrite fplan_actions, Nat.eqb_refl. reflexivity. }
        unfold maybeCutoff. destruct (nkind (nd st x)); try discriminate Ht. rewrite Hinv. reflexivity. }
      rewrite Hmc in H. cbn [rbind] in H. exact H. }
  clear H. unfold parErr in HE. set (sA := upd sE x (set recomputedAt (fun _ => 0))) in *.
  apply rbind_ok in HE as (s3 & E3 & [= <- <-]).
  assert (HxE : has sE x) by (apply has_emit, has_upd, Hx).
  assert (HndA : forall y, nd sA y = if decide (y = x) then nd st x <| recomputedAt := 0 |> else nd st y).
  { intros y. unfold sA. rewrite nd_upd by exact HxE. destruct (decide (y = x)) as [->|Hy].
    - unfold sE. rewrite nd_emit. unfold s0. rewrite nd_upd_eq by exact Hx. destruct (nd st x); reflexivity.
    - unfold sE. rewrite nd_emit. unfold s0. apply nd_upd_ne, Hy. }
  assert (IA : HeapSpec.inv (heap sA)) by exact I.
  destruct (heapAddIfNotPresent_spec0 sA x s3 IA ltac:(rewrite HndA, decide_True by reflexivity; exact Hh) E3) as (O3 & _).
  destruct (errorHandlers_fields s3 x) as (En & _ & _ & _ & Ek & _).
  assert (Hnd' : forall y, nd (errorHandlers s3 x) y = if decide (y = x) then nd st x <| recomputedAt := 0 |> else nd st y).
  { intros y. rewrite (nodes_eq_nd _ _ En y), (oh_nd _ _ O3). apply HndA. }
  assert (Hh' : handlers (errorHandlers s3 x) = handlers st).
  { unfold errorHandlers. destruct (nkind (nd s3 x)); cbn; apply (oh_handlers _ _ O3). }
  assert (Hf : forall (A : Type) (g : node -> A) y, (forall z a, g (z <| recomputedAt := a |>) = g z) ->
             g (nd (errorHandlers s3 x) y) = g (nd st y)).
  { intros A g y Hgg. rewrite Hnd'. destruct (decide (y = x)) as [->|]; [apply Hgg|reflexivity]. }
  intros k0. rewrite Hh', Ek, (oh_stabNum _ _ O3). change (stabNum sA) with (stabNum st). rewrite (HI k0).
  rewrite (Hf _ inGraph), (Hf _ changedAt) by reflexivity. apply or_iff_compat_l.
  split; intros (n & A1 & A2 & A3); exists n.
  - rewrite (Hf _ inGraph), (Hf _ observers), (Hf _ changedAt) by reflexivity. auto.
  - rewrite (Hf _ inGraph), (Hf _ observers), (Hf _ changedAt) in * by reflexivity. auto.
Qed.

Theorem parF_handlers_any x w k s s' e :
  Inv s -> ValInvB s -> Tplain s -> par_plan_clean s (fplan x w k) = true ->
  parStabilize (fplan x w k) s = Ok (s', e) -> rejected e = false ->
  exists L H,
    rev (log s') = rev (log s) ++ [EvPassStart] ++ L ++ [EvPassEnd (classify e)] ++ H /\
    Forall passEv L /\ Forall EngineLocal.isHandlerEv H /\ NoDup H /\
    (forall n, EvUpd n ∈ H <-> inGraph (nd s' n) = true /\ changedAt (nd s' n) = stabNum s) /\
    (forall o v, EvObsUpd o v ∈ H <->
       exists n, obs s' !! o = Some n /\ changedAt (nd s' n) = stabNum s /\ v = valueOf s' n).
Proof.
  destruct k.
  - exact (parF_handlers x w FErr (faultStep_err x w) eq_refl (fault_HInv_err x w) s s' e).
  - exact (parF_handlers x w FPanic (faultStep_panic x w) eq_refl (fault_HInv_panic x w) s s' e).
Qed.

(** the retry: whatever the failed parallel pass left, a plan-free pass of EITHER stabilizer that
    completes converges *)
Theorem parF_retry x w s s' e s'' :
  Inv s -> ValInvB s -> Tplain s -> templates_ok s = true -> par_plan_clean s (errPlan x w) = true ->
  parStabilize (errPlan x w) s = Ok (s', e) -> rejected e = false ->
  (stabilize [] false s' = Ok (s'', None) \/ parStabilize [] s' = Ok (s'', None)) ->
  consistent s'' = true /\ observers_agree s'' = true /\ Inv s'' /\ ValInvB s'' /\ Tplain s''.
Proof.
  intros IV V TP Ht Hcl H Hrej H2.
  destruct (parF_error x w s s' e IV V TP Hcl H Hrej) as (_ & I1 & V1 & T1 & C1 & _).
  pose proof (templates_ok_CF s s' C1 Ht) as Ht1.
  destruct H2 as [H2|H2].
  - destruct (passS_ValInvB s' s'' I1 V1 T1 H2) as (V2 & T2 & C2).
    destruct (passS_observers_agree s' s'' I1 V1 T1 H2 (templates_ok_CF s' s'' C2 Ht1)) as (A & B & C & _). auto.
  - destruct (parS_consistent s' s'' I1 V1 T1 H2) as (A & I2 & _ & _ & V2 & T2 & C2).
    destruct (parS_agree s' s'' I1 V1 T1 H2 (templates_ok_CF s' s'' C2 Ht1)) as (_ & B & _ & _). auto.
Qed.

(** Example: node 4's function fails in a parallel pass in which the bind swaps; a parallel retry converges *)
Definition exPF_ops : list op :=
  [ NewVar 2 false; NewVar 3 false;
    NewBind [TMap (Aff 1 1) (TOuter 1%nat); TRet 5] 0%nat;
    NewMap (Aff 2 0) 3%nat;
    Observe 4%nat;
    ParStabilize [];
    SetVar 0%nat 3 ].

Lemma exPF_fail :
  match histP_run (init 64) exPF_ops with
  | Some s =>
    match parStabilize (errPlan 4%nat WFn) s with
    | Ok (s1, Some (EUser 4%nat)) =>
      inHeap s1 4%nat &&
      match parStabilize [] s1 with
      | Ok (s2, None) => consistent s2 && observers_agree s2 && bool_decide (EvBindFn 2 3 (Some 7%nat) ∈ log s1)
      | _ => false
      end
    | _ => false
    end
  | None => false
  end = true.
Proof. vm_compute. reflexivity. Qed.

(** the single-fault theorem for either kind of fault, and its retry *)
Theorem parF_any x w k s s' e :
  Inv s -> ValInvB s -> Tplain s -> par_plan_clean s (fplan x w k) = true ->
  parStabilize (fplan x w k) s = Ok (s', e) -> rejected e = false ->
  (e = None \/ e = Some (faultErr x k)) /\ Inv s' /\ ValInvB s' /\ Tplain s' /\ CF s s' /\
  (e = None -> consistent s' = true) /\ (e = Some (faultErr x k) -> inHeap s' x = true).
Proof. destruct k; [exact (parF_error x w s s' e)|exact (parF_panic x w s s' e)]. Qed.

Theorem parF_retry_any x w k s s' e s'' :
  Inv s -> ValInvB s -> Tplain s -> templates_ok s = true -> par_plan_clean s (fplan x w k) = true ->
  parStabilize (fplan x w k) s = Ok (s', e) -> rejected e = false ->
  (stabilize [] false s' = Ok (s'', None) \/ parStabilize [] s' = Ok (s'', None)) ->
  consistent s'' = true /\ observers_agree s'' = true /\ Inv s'' /\ ValInvB s'' /\ Tplain s''.
Proof.
  intros IV V TP Ht Hcl H Hrej H2.
  destruct (parF_any x w k s s' e IV V TP Hcl H Hrej) as (_ & I1 & V1 & T1 & C1 & _).
  pose proof (templates_ok_CF s s' C1 Ht) as Ht1.
  destruct H2 as [H2|H2].
  - destruct (passS_ValInvB s' s'' I1 V1 T1 H2) as (V2 & T2 & C2).
    destruct (passS_observers_agree s' s'' I1 V1 T1 H2 (templates_ok_CF s' s'' C2 Ht1)) as (A & B & C & _). auto.
  - destruct (parS_consistent s' s'' I1 V1 T1 H2) as (A & I2 & _ & _ & V2 & T2 & C2).
    destruct (parS_agree s' s'' I1 V1 T1 H2 (templates_ok_CF s' s'' C2 Ht1)) as (_ & B & _ & _). auto.
Qed.

(** Example: a cutoff over var 0 feeds the bind; its cutoff function panics in a parallel pass *)
Definition exPC_ops : list op :=
  [ NewVar 2 false; NewVar 3 false;
    NewCutoff CEq 0%nat;                                        (* 2 *)
    NewBind [TMap (Aff 1 1) (TOuter 1%nat); TRet 5] 2%nat;      (* lhs-change 3, main 4 *)
    NewMap (Aff 2 0) 4%nat;                                     (* 5 *)
    Observe 5%nat;
    ParStabilize [];
    SetVar 0%nat 3 ].

Lemma exPC_panic :
  match histP_run (init 64) exPC_ops with
  | Some s =>
    match parStabilize (panPlan 2%nat WCut) s with
    | Ok (s1, Some (EPanic 2%nat)) =>
      inHeap s1 2%nat && (recomputedAt (nd s1 2%nat) =? 0) &&
      match stabilize [] false s1 with
      | Ok (s2, None) => consistent s2 && observers_agree s2
      | _ => false
      end
    | _ => false
    end
  | None => false
  end = true.
Proof. vm_compute. reflexivity. Qed.
