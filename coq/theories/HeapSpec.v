(** Statements about [Heap] used by the C18 theorems and by the engine proofs.
    The abstraction of a heap is the list [ids w] of queued nodes together with the
    height [hinOf w n] each one is queued at: a multiset of nodes keyed by height. *)
From incr Require Import Base Heap.

(** The representation invariant. *)
Record inv (w : Heap.t) : Prop := {
  inv_nodup : NoDup (Heap.ids w);
  inv_hin : forall n x, Heap.hin w !! n = Some x <-> (0 <= x /\ n ∈ Heap.bucket w (Z.to_nat x));
  inv_cnt : Heap.cnt w = Z.of_nat (length (Heap.ids w));
  inv_cursor : 0 < Heap.cnt w ->
     0 <= Heap.minH w /\
     (forall x, Heap.bucket w x <> [] -> Heap.minH w <= Z.of_nat x <= Heap.maxH w) /\
     Heap.maxH w < Z.of_nat (length (Heap.buckets w))
}.

(** queued at the smallest height *)
Definition is_min (w : Heap.t) (n : nid) : Prop :=
  n ∈ Heap.ids w /\ forall m, m ∈ Heap.ids w -> Heap.hinOf w n <= Heap.hinOf w m.

(** heights of a list of nodes never decrease *)
Fixpoint nondecreasing (w : Heap.t) (l : list nid) : Prop :=
  match l with
  | [] => True
  | n :: l' => (forall m, m ∈ l' -> Heap.hinOf w n <= Heap.hinOf w m) /\ nondecreasing w l'
  end.

(** Operation sequences issued under the preconditions the engine guarantees. *)
Inductive hop :=
| OAdd (n : nid) (h : Z) | OAddIfNotPresent (n : nid) (h : Z) | ORemove (n : nid)
| OFix (n : nid) (h : Z) | ORemoveMin | OTakeMinBlock | OClear.

Definition pre (w : Heap.t) (o : hop) : Prop :=
  match o with
  | OAdd n h => Heap.mem w n = false /\ 0 <= h
  | OAddIfNotPresent n h => 0 <= h
  | ORemove n => Heap.mem w n = true
  | OFix n h => Heap.mem w n = true /\ 0 <= h
  | _ => True
  end.

Definition step (w : Heap.t) (o : hop) : res (list nid * Heap.t) :=
  match o with
  | OAdd n h => w' <-! Heap.add w n h; Ok ([], w')
  | OAddIfNotPresent n h => w' <-! Heap.addIfNotPresent w n h; Ok ([], w')
  | ORemove n => w' <-! Heap.remove w n; Ok ([], w')
  | OFix n h => w' <-! Heap.fix_ w n h; Ok ([], w')
  | ORemoveMin => match Heap.removeMin w with Some (n, w') => Ok ([n], w') | None => Ok ([], w) end
  | OTakeMinBlock => Ok (Heap.takeMinBlock w)
  | OClear => Ok (Heap.clear w)
  end.

(** [run w os = Some w'] : every operation's precondition held when it was issued *)
Inductive run : Heap.t -> list hop -> Heap.t -> Prop :=
| run_nil w : run w [] w
| run_cons w o os r w' w'' : pre w o -> step w o = Ok (r, w') -> run w' os w'' -> run w (o :: os) w''.
