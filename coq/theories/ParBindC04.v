(** C04 for graphs with binds, values only: from the same state, the serial and the parallel pass
    (no plan) end with the same values at every node that existed before the pass and is registered
    after both -- in particular every observer reads the same value.  (The two final states are
    NOT equal: the stabilizers create the nodes of new right-hand sides in different orders, and
    the parallel one may run a node twice, K10/K11.)
    Route: both final states are [consistent], so every registered node holds its from-scratch
    value [Spec.eval] in its own final state (SpecProofs.consistent_registered_eval); [eval] reads
    only the kind / declared inputs of non-main nodes, the values of vars and constants, the cases
    and input of bind records -- which both passes leave alone ([TF]).  Excluded: graphs with a
    CParity cutoff, whose held value is an input of [eval]. *)
From stdpp Require Import sorting.
From incr Require Import Base Heap HeapSpec HeapProofs EngineDefs Engine EngineRun EngineWf Spec EngineLemmas
     EngineInv EngineInvProofs PassInv PassProofs PassBind PassBindProofs PassBindSwap PassBindSwapProofs
     PassBindSwapStep PassBindOps PassBindSwapLog ParBind ParBindStep.
From incr Require EngineLocal.
From incr Require Import SpecProofs.

Local Arguments valueOf : simpl never.

(** * 1. What [eval] reads, and the frame that keeps it *)
Definition isInput (k : kind) : bool := match k with KVar _ | KReturn => true | _ => false end.
Definition isMainK (k : kind) : bool := match k with KBindMain _ => true | _ => false end.

Record TF (s s' : state) : Prop := {
  tf_node : forall n, has s n ->
    has s' n /\ nkind (nd s' n) = nkind (nd s n) /\
    (isMainK (nkind (nd s n)) = false -> decl (nd s' n) = decl (nd s n)) /\
    (isInput (nkind (nd s n)) = true -> value (nd s' n) = value (nd s n));
  tf_bind : forall b, is_Some (binds s !! b) ->
    is_Some (binds s' !! b) /\ b_cases (bd s' b) = b_cases (bd s b) /\ b_lhs (bd s' b) = b_lhs (bd s b)
}.

Lemma TF_refl s : TF s s.
Proof. constructor; auto. Qed.

Lemma TF_trans s1 s2 s3 : TF s1 s2 -> TF s2 s3 -> TF s1 s3.
Proof.
  intros [A1 B1] [A2 B2]. constructor.
  - intros n Hn. destruct (A1 n Hn) as (H1 & K1 & D1 & V1). destruct (A2 n H1) as (H2 & K2 & D2 & V2).
    split; [exact H2|]. split; [congruence|]. split.
    + intros Hm. rewrite D2, D1; [reflexivity|exact Hm|rewrite K1; exact Hm].
    + intros Hi. rewrite V2, V1; [reflexivity|exact Hi|rewrite K1; exact Hi].
  - intros b Hb. destruct (B1 b Hb) as (H1 & C1 & L1). destruct (B2 b H1) as (H2 & C2 & L2).
    split; [exact H2|]. split; congruence.
Qed.

Lemma TF_nodes s s' : nodes s' = nodes s -> binds s' = binds s -> TF s s'.
Proof.
  intros Hn Hb. pose proof (nodes_eq_nd _ _ Hn) as Hnd. constructor.
  - intros n H. unfold has. rewrite Hn, !Hnd. auto.
  - intros b H. unfold bd. rewrite Hb. auto.
Qed.

(* the recompute of a var or a constant leaves its value: a deferred write is not taken by the
   recompute cycle of the pass *)
Lemma rns_value_input fuel s m s' imm :
  has s m -> isInput (nkind (nd s m)) = true -> recomputeNodeSerial fuel [] s m = Ok (s', None, imm) ->
  value (nd s' m) = value (nd s m).
Proof.
  intros Hm Hi H. rewrite EngineLocal.recomputeNodeSerial_unfold in H. cbv zeta in H.
  set (s0 := upd s m (set recomputedAt (fun _ => stabNum s))) in *.
  assert (Hnd0 : nd s0 m = nd s m <| recomputedAt := stabNum s |>) by (apply nd_upd_eq; exact Hm).
  unfold EngineLocal.maybeCutoff in H. destruct (nkind (nd s m)) eqn:K; try discriminate Hi; cbn [rbind] in H.
  - assert (Hs : stabilizeNode fuel [] s0 m = ok s0).
    { unfold stabilizeNode. cbv zeta. rewrite Hnd0. cbn. rewrite K. cbn.
      destruct (pending (nd s m)); [|reflexivity]. change (stabNum s0) with (stabNum s). rewrite Z.eqb_refl. reflexivity. }
    rewrite Hs in H. cbn in H. apply EngineLocal.successTail_shape in H as [_ Hh].
    rewrite (EngineLocal.hhOnly_nd _ _ m Hh), (nd_upd_proj value) by reflexivity. rewrite Hnd0. reflexivity.
  - assert (Hs : stabilizeNode fuel [] s0 m = ok s0).
    { unfold stabilizeNode. cbv zeta. rewrite Hnd0. cbn. rewrite K. reflexivity. }
    rewrite Hs in H. cbn in H. apply EngineLocal.successTail_shape in H as [_ Hh].
    rewrite (EngineLocal.hhOnly_nd _ _ m Hh), (nd_upd_proj value) by reflexivity. rewrite Hnd0. reflexivity.
Qed.

(* a node that is not a lhs-change node *)
Lemma TF_step fuel s m s1 imm s' :
  has s m -> stepPostB s m s1 imm -> recomputeNodeSerial fuel [] s m = Ok (s1, None, imm) ->
  nodes s' = nodes s1 -> binds s' = binds s1 -> TF s s'.
Proof.
  intros Hm PP Hs Hn Hb. apply (TF_trans s s1 s'); [|apply TF_nodes; assumption].
  pose proof (stepPostB_sframe _ _ _ _ PP) as F. constructor.
  - intros n Hhn. split; [apply (sf_has _ _ F), Hhn|]. split; [apply (sf_nkind _ _ F)|].
    split; [intros _; apply (sf_decl _ _ F)|]. intros Hi.
    destruct (decide (n = m)) as [->|Hne]; [apply (rns_value_input fuel s m s1 imm Hm Hi Hs)|].
    rewrite (sq_other _ _ _ _ PP n Hne). reflexivity.
  - intros b Hbb. unfold bd. rewrite (sf_binds _ _ F). auto.
Qed.

(* a lhs-change node: from the frame of the bind step *)
Lemma TF_bind s b s' :
  PInv s -> PInv s' -> has s b -> nkind (nd s b) = KBindLhs b -> bfr s b s' ->
  (forall b1, is_Some (binds s !! b1) ->
     b_cases (bd s' b1) = b_cases (bd s b1) /\ b_main (bd s' b1) = b_main (bd s b1) /\ b_lhs (bd s' b1) = b_lhs (bd s b1)) ->
  TF s s'.
Proof.
  intros P P' Hb Hk F Hrd.
  assert (Km : nkind (nd s (S b)) = KBindMain b).
  { pose proof (p_kinds s P b Hb) as Kk. rewrite Hk in Kk. destruct Kk as [_ [r Hr]].
    exact (bw_kind_main _ _ _ (p_binds _ P b r Hr)). }
  constructor.
  - intros n Hn. pose proof (bx_has _ _ _ F n Hn) as Hn'. destruct (bx_old _ _ _ F n Hn) as (Ek & Ev & Ed).
    split; [exact Hn'|]. split; [exact Ek|]. split.
    + intros Hm. apply Ed. intros ->. rewrite Km in Hm. discriminate.
    + intros _. exact Ev.
  - intros b1 Hb1. destruct (Hrd b1 Hb1) as (C & _ & L). split; [|auto].
    destruct Hb1 as [r Hr]. pose proof (p_binds s P b1 r Hr) as W.
    pose proof (bw_has_lhs _ _ _ W) as Hh. pose proof (bw_kind_lhs _ _ _ W) as Kl.
    pose proof (p_kinds s' P' b1 (bx_has _ _ _ F b1 Hh)) as Kk.
    destruct (bx_old _ _ _ F b1 Hh) as (Ek & _). rewrite Ek, Kl in Kk. apply Kk.
Qed.

(** * 2. The frame through the serial pass *)
Lemma rnsTF fuel s m s' imm :
  Tplain s -> PInv s -> LInvC s (Some m) -> inGraph (nd s m) = true ->
  recomputeNodeSerial fuel [] s m = Ok (s', None, imm) -> TF s s'.
Proof.
  intros TP P L Hg H.
  destruct (recomputeNodeSerial_spec PT PT_struct bind_spec_holds fuel [] s m s' None imm Logic.I P eq_refl Hg H)
    as [[Hr|Hr]|[(P' & _ & Hk & _) Himm]]; try discriminate.
  destruct (isLhs (nkind (nd s m))) eqn:El.
  - destruct (nkind (nd s m)) eqn:K; try discriminate El.
    pose proof (p_kinds _ P m (has_inGraph _ _ Hg)) as Hkk. rewrite K in Hkk. destruct Hkk as [-> _].
    apply (TF_bind s b s' P P' (has_inGraph _ _ Hg) K (bind_step_frame fuel s b s' imm TP P L Hg K H P')).
    exact (bind_step_readS fuel s b s' imm TP P L Hg K H).
  - pose proof (PInv_BFB s P (lc_shape _ _ L)) as HB.
    destruct (rns_stepB fuel s m s' None imm HB (has_inGraph _ _ Hg) (proj1 (PInv_heap s P)) El H) as [_ PP].
    exact (TF_step fuel s m s' imm s' (has_inGraph _ _ Hg) PP H eq_refl eq_refl).
Qed.

Lemma chainTF fuel : forall s n s' at_,
  Tplain s -> PInv s -> LInvC s (Some n) -> inGraph (nd s n) = true ->
  recomputeChain fuel [] s n = Ok (s', None, at_) -> TF s s'.
Proof.
  induction fuel as [|fuel IH]; intros s n s' at_ TP P L Hg H; [discriminate|].
  cbn [recomputeChain] in H.
  destruct (recomputeNodeSerial fuel [] s n) as [[[s1 e1] imm]| |] eqn:E1; simpl in H; try discriminate.
  destruct e1 as [e1|]; [destruct imm; injection H as _ ? _; discriminate|].
  destruct (rnsT fuel s n s1 imm TP P L Hg E1) as (TP1 & P1 & L1 & Hk1 & Himm & _).
  pose proof (rnsTF fuel s n s1 imm TP P L Hg E1) as F1.
  destruct imm as [c|].
  - apply (TF_trans s s1 s' F1). exact (IH s1 c s' at_ TP1 P1 L1 (Himm c eq_refl) H).
  - injection H as <- _. exact F1.
Qed.

Lemma loopTF fuel : forall s always s' at_ always',
  Tplain s -> PInv s -> LInvC s None ->
  passLoop fuel [] s always = Ok (s', None, at_, always') -> TF s s'.
Proof.
  induction fuel as [|fuel IH]; intros s always s' at_ always' TP P L H; [discriminate|].
  cbn [passLoop] in H.
  destruct (Z.leb_spec (Heap.cnt (heap s)) 0) as [Hc|Hc]; [injection H as <- _ _; apply TF_refl|].
  destruct (Heap.removeMin (heap s)) as [[n w]|] eqn:Erm; [|discriminate].
  set (s2 := s <| heap := w |>) in *.
  destruct (recomputeChain fuel [] s2 n) as [[[s3 e3] at3]| |] eqn:E3; simpl in H; try discriminate.
  destruct e3 as [e3|]; [injection H as _ ? _ _; discriminate|].
  destruct (pop_LInvC s n w P L Erm) as (L2 & P2 & Hgn). fold s2 in L2, P2.
  pose proof (Tplain_binds s s2 eq_refl TP) as TP2.
  destruct (chainT fuel s2 n s3 at3 TP2 P2 L2 Hgn E3) as (TP3 & P3 & L3 & Hk3 & _).
  apply (TF_trans s s2 s'); [apply TF_nodes; reflexivity|].
  apply (TF_trans s2 s3 s' (chainTF fuel s2 n s3 at3 TP2 P2 L2 Hgn E3)).
  exact (IH s3 _ s' at_ always' TP3 P3 L3 H).
Qed.

Theorem passTF_serial s s' :
  Inv s -> ValInvB s -> Tplain s -> stabilize [] false s = Ok (s', None) -> TF s s'.
Proof.
  intros IV V TP H. pose proof (Inv_wfb s IV) as Hwf.
  destruct (wfb_transients _ Hwf) as (Hst & Hsd & Hsr & Hh).
  destruct (stabilize_nil_inv s s' Hst Hsd Hsr H) as (sL & at_ & always & sR & hev & EL & ER & Es & Hhev).
  fold (passStart s) in EL. set (s1 := passStart s) in *.
  pose proof (LInvC_start s IV V) as L1. fold s1 in L1.
  pose proof (Inv_PInv_start s IV) as P1. fold (passStart s) in P1. fold s1 in P1.
  pose proof (Tplain_binds s s1 eq_refl TP) as TP1.
  destruct (loopT _ s1 [] sL at_ always TP1 P1 L1 EL) as (_ & _ & LL & _).
  specialize (Es (proj1 (lc_quiet _ _ LL)) (proj2 (lc_quiet _ _ LL))).
  pose proof (requeue_only_heap _ _ _ ER) as OR.
  apply (TF_trans s s1 s'); [apply TF_nodes; reflexivity|].
  apply (TF_trans s1 sL s' (loopTF _ s1 [] sL at_ always TP1 P1 L1 EL)).
  apply TF_nodes; rewrite Es; cbn; [apply (oh_nodes _ _ OR)|apply (oh_binds _ _ OR)].
Qed.

(** * 3. The frame through the parallel pass *)
Lemma rnpTF fuel st m R st' :
  Tplain st -> PInv st -> LInvP st (m :: R) -> inGraph (nd st m) = true ->
  recomputeNodeParallel fuel [] st m = Ok (st', None) -> TF st st'.
Proof.
  intros TP P L Hg H.
  destruct (recomputeNodeParallel_spec PT PT_struct bind_spec_holds fuel [] st m st' None Logic.I P eq_refl Hg H)
    as [[[Hr|Hr]|(P' & _ & Hk & _)] _]; try discriminate.
  destruct (isLhs (nkind (nd st m))) eqn:El.
  - destruct (nkind (nd st m)) eqn:K; try discriminate El.
    pose proof (p_kinds _ P m (has_inGraph _ _ Hg)) as Hkk. rewrite K in Hkk. destruct Hkk as [-> _].
    destruct (bind_step_frameP fuel st b R st' TP P L Hg K H P') as [BF _].
    apply (TF_bind st b st' P P' (has_inGraph _ _ Hg) K BF).
    exact (bind_step_readP fuel st b R st' TP P L Hg K H).
  - destruct (rnp_rns fuel st m st' H) as (s1 & imm & Hs & Hadd).
    pose proof (PInv_BFB st P (lp_shape _ _ L)) as HB.
    destruct (rns_stepB fuel st m s1 None imm HB (has_inGraph _ _ Hg) (proj1 (PInv_heap st P)) El Hs) as [_ PP1].
    assert (E : nodes st' = nodes s1 /\ binds st' = binds s1).
    { destruct imm as [c|]; [|subst; auto]. apply heapAdd_inv in Hadd as (w & _ & ->). auto. }
    exact (TF_step fuel st m s1 imm st' (has_inGraph _ _ Hg) PP1 Hs (proj1 E) (proj2 E)).
Qed.

Lemma blockTF fuel l : forall st al st2 al2,
  Tplain st -> PInv st -> LInvP st l ->
  rfold (blockStep fuel []) l (st, None, al) = Ok (st2, None, al2) -> TF st st2.
Proof.
  induction l as [|m l IH]; intros st al st2 al2 TP P L H; simpl in H.
  { injection H as <- <-. apply TF_refl. }
  apply rbind_ok in H as ([[st1 e1] al1] & H1 & H). unfold blockStep in H1.
  destruct (Z.eqb_spec (height (nd st m)) unset) as [Hu|Hu].
  { injection H1 as <- <- <-. apply (IH st al st2 al2 TP P (LInvP_skip st m l (PInv_unset st m P Hu) L) H). }
  apply rbind_ok in H1 as ([st' e'] & Hr & [= <- <- <-]).
  destruct e' as [x|]; [pose proof (block_err fuel l _ _ _ _ _ _ H); discriminate|].
  pose proof (PInv_hreg st m P Hu) as Hg.
  destruct (nodeP bind_stepP fuel st m l st' TP P L Hg Hr) as (TP' & P' & L' & _).
  apply (TF_trans st st' st2 (rnpTF fuel st m l st' TP P L Hg Hr)).
  eapply (IH st' _ st2 al2 TP' P' L'). exact H.
Qed.

Lemma loopTF_par fuel : forall s al s' al',
  Tplain s -> PInv s -> LInvP s [] -> AW s al ->
  parLoop fuel [] s al = Ok (s', None, al') -> TF s s'.
Proof.
  induction fuel as [|fuel IH]; intros s al s' al' TP P L HA H; [discriminate|].
  rewrite parLoop_S in H. destruct (PInv_heap s P) as [I Hq].
  destruct (Z.leb_spec (Heap.cnt (heap s)) 0) as [Hc|Hc]; [injection H as <- <-; apply TF_refl|].
  destruct (Heap.takeMinBlock (heap s)) as [block w] eqn:Etb. cbv zeta in H.
  set (sb := s <| heap := w |>) in *.
  set (isL := fun n : nid => match nkind (nd sb n) with KBindLhs _ => true | _ => false end) in *.
  set (order := filter (fun n => isL n = true) block ++ filter (fun n => isL n = false) block) in *.
  apply rbind_ok in H as ([[s2 e2] al2] & H2 & H).
  destruct e2 as [x|]; [discriminate|].
  destruct (heap_takeMinBlock_spec (heap s) block w I Etb) as (_ & Pm & _).
  assert (Hndb : NoDup block).
  { pose proof (inv_nodup _ I) as Hn. rewrite Pm in Hn. apply NoDup_app in Hn as (Hn & _). exact Hn. }
  assert (Hord : forall x, x ∈ order <-> x ∈ block).
  { intros x. unfold order. rewrite elem_of_app, !elem_of_list_filter. destruct (isL x); intuition congruence. }
  assert (Hndo : NoDup order).
  { unfold order. apply NoDup_app. split; [apply stdpp.list.NoDup_filter, Hndb|]. split; [|apply stdpp.list.NoDup_filter, Hndb].
    intros x [A _]%elem_of_list_filter [B _]%elem_of_list_filter. congruence. }
  destruct (block_start s block w order P L Etb Hndo Hord) as [Pb Lb]. fold sb in Pb, Lb.
  pose proof (Tplain_binds s sb eq_refl TP) as TPb.
  destruct (blockP bind_stepP fuel order sb al s2 al2 TPb Pb Lb (AW_heap s w al HA) H2) as (TP2 & P2 & L2 & HA2 & _).
  apply (TF_trans s sb s'); [apply TF_nodes; reflexivity|].
  apply (TF_trans sb s2 s' (blockTF fuel order sb al s2 al2 TPb Pb Lb H2)).
  exact (IH s2 al2 s' al' TP2 P2 L2 HA2 H).
Qed.

Theorem passTF_par s s' :
  Inv s -> ValInvB s -> Tplain s -> parStabilize [] s = Ok (s', None) -> TF s s'.
Proof.
  intros IV V TP H. pose proof (Inv_wfb s IV) as Hwf.
  destruct (wfb_transients _ Hwf) as (Hst & Hsd & Hsr & Hh).
  destruct (parStabilize_nil_inv s s' Hst Hsd Hsr H) as (sL & always & sR & hev & EL & ER & Es & Hhev).
  fold (passStart s) in EL. set (s1 := passStart s) in *.
  pose proof (LInvP_start s IV V) as L1. fold s1 in L1.
  pose proof (Inv_PInv_start s IV) as P1. fold (passStart s) in P1. fold s1 in P1.
  pose proof (Tplain_binds s s1 eq_refl TP) as TP1.
  assert (HA1 : AW s1 []).
  { intros y _ Hd _. exfalso. pose proof (stamps_node_true _ _ (vb_stamps _ V y)). unfold isDone in Hd. apply Z.eqb_eq in Hd.
    change (recomputedAt (nd s y) = stabNum s) in Hd. lia. }
  destruct (loopP bind_stepP _ s1 [] sL always TP1 P1 L1 HA1 EL) as (_ & _ & LPL & _).
  specialize (Es (proj1 (lp_quiet _ _ LPL)) (proj2 (lp_quiet _ _ LPL))).
  pose proof (requeue_only_heap _ _ _ ER) as OR.
  apply (TF_trans s s1 s'); [apply TF_nodes; reflexivity|].
  apply (TF_trans s1 sL s' (loopTF_par _ s1 [] sL always TP1 P1 L1 HA1 EL)).
  apply TF_nodes; rewrite Es; cbn; [apply (oh_nodes _ _ OR)|apply (oh_binds _ _ OR)].
Qed.

(** * 4. [eval] across the frame *)
Lemma texp_wf_select s T : forall cs y,
  (fix go (l : list texp) : Prop := match l with [] => True | c :: l => texp_wf s T true c /\ go l end) cs ->
  texp_wf s T true (select cs y).
Proof.
  intros cs y H. unfold select. generalize (Z.to_nat (y mod Z.of_nat (length cs))). revert H.
  induction cs as [|c cs IH]; intros H k.
  - destruct k; reflexivity.
  - destruct H as [Hc Hr]. destruct k as [|k]; [exact Hc|]. simpl. apply IH, Hr.
Qed.

Lemma evalT_wf_ext s T (ev ev' : nid -> option Z) :
  (forall t, has s t -> ev' t = ev t) ->
  forall F x e root, texp_wf s T root e -> evalT F ev' x e = evalT F ev x e.
Proof.
  intros Hev. induction F as [|F IH]; intros x e root W; [reflexivity|].
  destruct e; cbn [evalT]; try reflexivity.
  - destruct W as [Ht _]. apply Hev, Ht.
  - cbn [texp_wf] in W. rewrite (IH x e false W). reflexivity.
  - cbn [texp_wf] in W. destruct W as [W1 W2]. rewrite (IH x e1 false W1), (IH x e2 false W2). reflexivity.
  - cbn [texp_wf] in W. destruct c; try reflexivity; apply (IH x e false W).
  - cbn [texp_wf] in W. destruct W as [Wc We]. rewrite (IH x e false We).
    destruct (evalT F ev x e) as [y|]; [|reflexivity]. apply (IH y (select cases y) true), (texp_wf_select s T cases y Wc).
Qed.

Lemma mapM_ext_in {A B} (f f' : A -> option B) l : (forall a, a ∈ l -> f a = f' a) -> mapM f l = mapM f' l.
Proof.
  induction l as [|a l IH]; intros H; [reflexivity|]. simpl. rewrite (H a) by left.
  rewrite IH by (intros b Hb; apply H; right; exact Hb). reflexivity.
Qed.

Definition noParity (s : state) : Prop := forall n, has s n -> nkind (nd s n) <> KCutoff CParity.

Lemma eval_ext_TF s s' :
  Inv s -> noParity s -> TF s s' -> forall F n, has s n -> eval s' F n = eval s F n.
Proof.
  intros IV NP [A B]. induction F as [|F IH]; intros n Hn; [reflexivity|].
  cbn [eval]. cbv zeta. destruct (A n Hn) as (_ & Ek & Ed & Ev). rewrite Ek.
  assert (Hdecl : forall a, a ∈ decl (nd s n) -> has s a) by (intros a; apply (io_decl _ (inv_ids _ IV) n)).
  destruct (nkind (nd s n)) as [eqv| |f|f|f|c| |b|b] eqn:K; try reflexivity.
  - rewrite (Ev eq_refl). reflexivity.
  - rewrite (Ev eq_refl). reflexivity.
  - rewrite (Ed eq_refl). destruct (decl (nd s n)) as [|a [|? ?]] eqn:D; try reflexivity.
    rewrite (IH a) by (apply Hdecl; left). reflexivity.
  - rewrite (Ed eq_refl). destruct (decl (nd s n)) as [|a1 [|a2 [|? ?]]] eqn:D; try reflexivity.
    rewrite (IH a1), (IH a2) by (apply Hdecl; repeat constructor). reflexivity.
  - rewrite (Ed eq_refl). rewrite (mapM_ext_in (eval s' F) (eval s F)); [reflexivity|].
    intros a Ha. apply IH, Hdecl, Ha.
  - rewrite (Ed eq_refl). destruct (decl (nd s n)) as [|a [|? ?]] eqn:D; try reflexivity.
    destruct c; try reflexivity; try (apply IH, Hdecl; left).
    exfalso. exact (NP n Hn K).
  - rewrite (Ed eq_refl). destruct (decl (nd s n)) as [|a [|? ?]] eqn:D; try reflexivity. apply IH, Hdecl. left.
  - pose proof (inv_kinds _ IV n Hn) as Kk. rewrite K in Kk. destruct Kk as [-> [r Hr]].
    destruct (B b (ex_intro _ r Hr)) as (_ & Ec & El). rewrite Ec, El.
    pose proof (inv_binds _ IV b r Hr) as W.
    assert (Hbd : bd s b = r) by (unfold bd; rewrite Hr; reflexivity).
    assert (Hl : has s (b_lhs (bd s b))).
    { apply (io_decl _ (inv_ids _ IV) b). rewrite (bw_decl_lhs _ _ _ W), Hbd. left. }
    rewrite (IH _ Hl). destruct (eval s F (b_lhs (bd s b))) as [v|]; [|reflexivity].
    destruct (chain_exists s (inv_scopes _ IV) b) as (t & d & Hc).
    pose proof (bw_cases _ _ _ W t d Hc) as Wc. rewrite Hbd.
    apply (evalT_wf_ext s t (eval s F) (eval s' F) IH F v (select (b_cases r) v) true).
    unfold select. destruct (nth_in_or_default (Z.to_nat (v mod Z.of_nat (length (b_cases r)))) (b_cases r) TNil) as [Hin|Hd].
    + rewrite Forall_forall in Wc. apply Wc, Hin.
    + rewrite Hd. reflexivity.
Qed.

(** * 5. C04 for graphs with binds: the same values *)
Theorem C04_binds_values_proof s sS sP :
  Inv s -> ValInvB s -> Tplain s -> templates_ok s = true -> noParity s ->
  stabilize [] false s = Ok (sS, None) -> parStabilize [] s = Ok (sP, None) ->
  forall n, has s n -> inGraph (nd sS n) = true -> inGraph (nd sP n) = true -> notLhs s n = true ->
    valueOf sS n = valueOf sP n.
Proof.
  intros IV V TP Ht NP HS HP n Hn HgS HgP Hnl.
  pose proof (passTF_serial s sS IV V TP HS) as FS. pose proof (passTF_par s sP IV V TP HP) as FP.
  destruct (passS_consistent s sS IV V TP HS) as (HcS & IS & HwfS & HShS).
  destruct (passS_ValInvB s sS IV V TP HS) as (_ & _ & CS).
  destruct (parS_consistent s sP IV V TP HP) as (HcP & IP & HwfP & HShP & _ & _ & CP).
  assert (HnlS : notLhs sS n = true) by (unfold notLhs in *; destruct (tf_node _ _ FS n Hn) as (_ & -> & _); exact Hnl).
  assert (HnlP : notLhs sP n = true) by (unfold notLhs in *; destruct (tf_node _ _ FP n Hn) as (_ & -> & _); exact Hnl).
  destruct (consistent_registered_eval sS HwfS (Inv_closed sS IS HShS) (templates_ok_CF s sS CS Ht) HcS n HgS HnlS) as [BS ES].
  destruct (consistent_registered_eval sP HwfP (Inv_closed sP IP HShP) (templates_ok_CF s sP CP Ht) HcP n HgP HnlP) as [BP EP].
  set (F := (next sS + next sP)%nat).
  pose proof (ES F ltac:(unfold F; lia)) as E1. pose proof (EP F ltac:(unfold F; lia)) as E2.
  rewrite (eval_ext_TF s sS IV NP FS F n Hn) in E1. rewrite (eval_ext_TF s sP IV NP FP F n Hn) in E2.
  congruence.
Qed.

(* in particular: what the observers read *)
Theorem C04_binds_observers_proof s sS sP :
  Inv s -> ValInvB s -> Tplain s -> templates_ok s = true -> noParity s ->
  stabilize [] false s = Ok (sS, None) -> parStabilize [] s = Ok (sP, None) ->
  forall o n, obs s !! o = Some n -> obs sS !! o = Some n -> obs sP !! o = Some n -> valueOf sS n = valueOf sP n.
Proof.
  intros IV V TP Ht NP HS HP o n Ho HoS HoP.
  destruct (passS_consistent s sS IV V TP HS) as (_ & IS & HwfS & HShS).
  destruct (parS_consistent s sP IV V TP HP) as (_ & IP & HwfP & HShP & _).
  destruct (observed_registered sS o n HwfS (Inv_closed sS IS HShS) HoS) as [HgS _].
  destruct (observed_registered sP o n HwfP (Inv_closed sP IP HShP) HoP) as [HgP _].
  pose proof (Inv_wfb s IV) as Hwf.
  destruct (observed_registered s o n Hwf (Inv_closed s IV (vb_shape _ V)) Ho) as [Hg Hnl].
  exact (C04_binds_values_proof s sS sP IV V TP Ht NP HS HP n (has_inGraph _ _ Hg) HgS HgP Hnl).
Qed.

(** Example: the swap of [exS_pre] under both stabilizers *)
Lemma exS_both :
  match stabilize [] false exS_pre, parStabilize [] exS_pre with
  | Ok (sS, None), Ok (sP, None) =>
    (valueOf sS 4%nat =? valueOf sP 4%nat) && inGraph (nd sS 4%nat) && inGraph (nd sP 4%nat)
  | _, _ => false
  end = true.
Proof. vm_compute. reflexivity. Qed.

(** * 6. The same, with CParity cutoffs elsewhere in the graph: only what [eval] reads below [n] matters *)
Fixpoint outs (fuel : nat) (e : texp) : list nid :=
  match fuel with
  | O => []
  | S fuel =>
    match e with
    | TOuter t => [t]
    | TMap _ e | TCut _ e => outs fuel e
    | TMap2 _ e1 e2 => outs fuel e1 ++ outs fuel e2
    | TBind cs e => concat (map (outs fuel) cs) ++ outs fuel e
    | _ => []
    end
  end.

(* [a] is read by the from-scratch evaluation of [n] *)
Definition reads (s : state) (n a : nid) : Prop :=
  match nkind (nd s n) with
  | KBindMain b => a = b_lhs (bd s b) \/ exists c F, c ∈ b_cases (bd s b) /\ a ∈ outs F c
  | KBindLhs _ | KVar _ | KReturn => False
  | _ => a ∈ decl (nd s n)
  end.

Definition pfree (s : state) (n : nid) : Prop :=
  forall m, rtc (reads s) n m -> nkind (nd s m) <> KCutoff CParity.

Lemma pfree_step s n a : pfree s n -> reads s n a -> pfree s a.
Proof. intros H R m Hm. apply H. eapply rtc_l; eauto. Qed.

Lemma evalT_outs_ext (ev ev' : nid -> option Z) :
  forall F x e, (forall t, t ∈ outs F e -> ev' t = ev t) -> evalT F ev' x e = evalT F ev x e.
Proof.
  induction F as [|F IH]; intros x e H; [reflexivity|].
  destruct e; cbn [evalT]; try reflexivity.
  - apply H. cbn. left.
  - rewrite (IH x e); [reflexivity|]. intros t Ht. apply H. cbn. exact Ht.
  - rewrite (IH x e1), (IH x e2); [reflexivity| |]; intros t Ht; apply H; cbn; apply elem_of_app; auto.
  - destruct c; try reflexivity; apply IH; intros t Ht; apply H; cbn; exact Ht.
  - rewrite (IH x e); [|intros t Ht; apply H; cbn; apply elem_of_app; right; exact Ht].
    destruct (evalT F ev x e) as [y|]; [|reflexivity]. apply IH. intros t Ht. apply H. cbn. apply elem_of_app. left.
    unfold select in Ht. destruct (nth_in_or_default (Z.to_nat (y mod Z.of_nat (length cases))) cases TNil) as [Hin|Hd].
    + apply elem_of_list_In in Hin. apply elem_of_list_In, in_concat. exists (outs F (nth (Z.to_nat (y mod Z.of_nat (length cases))) cases TNil)).
      split; [apply in_map, elem_of_list_In, Hin|apply elem_of_list_In, Ht].
    + rewrite Hd in Ht. destruct F; inversion Ht.
Qed.

Lemma eval_ext_TF_pfree s s' :
  Inv s -> TF s s' -> forall F n, has s n -> pfree s n -> eval s' F n = eval s F n.
Proof.
  intros IV [A B]. induction F as [|F IH]; intros n Hn NP; [reflexivity|].
  cbn [eval]. cbv zeta. destruct (A n Hn) as (_ & Ek & Ed & Ev). rewrite Ek.
  assert (Hdecl : forall a, a ∈ decl (nd s n) -> has s a) by (intros a; apply (io_decl _ (inv_ids _ IV) n)).
  destruct (nkind (nd s n)) as [eqv| |f|f|f|c| |b|b] eqn:K; try reflexivity.
  - rewrite (Ev eq_refl). reflexivity.
  - rewrite (Ev eq_refl). reflexivity.
  - assert (Hr : forall a, a ∈ decl (nd s n) -> pfree s a) by (intros a Ha; apply (pfree_step s n a NP); unfold reads; rewrite K; exact Ha).
    rewrite (Ed eq_refl). destruct (decl (nd s n)) as [|a [|? ?]] eqn:D; try reflexivity.
    rewrite (IH a) by (try apply Hdecl; try apply Hr; left). reflexivity.
  - assert (Hr : forall a, a ∈ decl (nd s n) -> pfree s a) by (intros a Ha; apply (pfree_step s n a NP); unfold reads; rewrite K; exact Ha).
    rewrite (Ed eq_refl). destruct (decl (nd s n)) as [|a1 [|a2 [|? ?]]] eqn:D; try reflexivity.
    rewrite (IH a1), (IH a2) by (try apply Hdecl; try apply Hr; repeat constructor). reflexivity.
  - assert (Hr : forall a, a ∈ decl (nd s n) -> pfree s a) by (intros a Ha; apply (pfree_step s n a NP); unfold reads; rewrite K; exact Ha).
    rewrite (Ed eq_refl). rewrite (mapM_ext_in (eval s' F) (eval s F)); [reflexivity|].
    intros a Ha. apply IH; [apply Hdecl, Ha|apply Hr, Ha].
  - assert (Hr : forall a, a ∈ decl (nd s n) -> pfree s a) by (intros a Ha; apply (pfree_step s n a NP); unfold reads; rewrite K; exact Ha).
    rewrite (Ed eq_refl). destruct (decl (nd s n)) as [|a [|? ?]] eqn:D; try reflexivity.
    destruct c; try reflexivity; try (apply IH; [apply Hdecl; left|apply Hr; left]).
    exfalso. exact (NP n (rtc_refl _ _) K).
  - assert (Hr : forall a, a ∈ decl (nd s n) -> pfree s a) by (intros a Ha; apply (pfree_step s n a NP); unfold reads; rewrite K; exact Ha).
    rewrite (Ed eq_refl). destruct (decl (nd s n)) as [|a [|? ?]] eqn:D; try reflexivity. apply IH; [apply Hdecl; left|apply Hr; left].
  - pose proof (inv_kinds _ IV n Hn) as Kk. rewrite K in Kk. destruct Kk as [-> [r Hr]].
    destruct (B b (ex_intro _ r Hr)) as (_ & Ec & El). rewrite Ec, El.
    pose proof (inv_binds _ IV b r Hr) as W.
    assert (Hbd : bd s b = r) by (unfold bd; rewrite Hr; reflexivity).
    assert (Hl : has s (b_lhs (bd s b))).
    { apply (io_decl _ (inv_ids _ IV) b). rewrite (bw_decl_lhs _ _ _ W), Hbd. left. }
    assert (Hpl : pfree s (b_lhs (bd s b))) by (apply (pfree_step s (S b) _ NP); unfold reads; rewrite K; left; reflexivity).
    rewrite (IH _ Hl Hpl). destruct (eval s F (b_lhs (bd s b))) as [v|]; [|reflexivity].
    apply evalT_outs_ext. intros t Ht.
    assert (Hrt : reads s (S b) t).
    { unfold reads. rewrite K. right. unfold select in Ht.
      destruct (nth_in_or_default (Z.to_nat (v mod Z.of_nat (length (b_cases (bd s b))))) (b_cases (bd s b)) TNil) as [Hin|Hd].
      - eexists _, F. split; [apply elem_of_list_In, Hin|exact Ht].
      - rewrite Hd in Ht. destruct F; inversion Ht. }
    apply IH; [|apply (pfree_step s (S b) t NP Hrt)].
    (* the outer references of a well-formed template exist *)
    destruct (chain_exists s (inv_scopes _ IV) b) as (tt & d & Hc).
    pose proof (bw_cases _ _ _ W tt d Hc) as Wc. rewrite <- Hbd in Wc.
    clear -Ht Wc. revert Ht. unfold select.
    destruct (nth_in_or_default (Z.to_nat (v mod Z.of_nat (length (b_cases (bd s b))))) (b_cases (bd s b)) TNil) as [Hin|Hd];
      [|rewrite Hd; destruct F; intros Ht; inversion Ht].
    rewrite Forall_forall in Wc. specialize (Wc _ Hin). revert Wc.
    generalize (nth (Z.to_nat (v mod Z.of_nat (length (b_cases (bd s b))))) (b_cases (bd s b)) TNil). generalize true.
    induction F as [|F IHF]; intros root e We Ht; [inversion Ht|].
    destruct e; cbn [outs] in Ht; try (inversion Ht; fail).
    + apply elem_of_list_singleton in Ht as ->. apply We.
    + apply (IHF false e We Ht).
    + cbn [texp_wf] in We. apply elem_of_app in Ht as [Ht|Ht]; [apply (IHF false e1 (proj1 We) Ht)|apply (IHF false e2 (proj2 We) Ht)].
    + apply (IHF false e We Ht).
    + cbn [texp_wf] in We. destruct We as [Wcs We]. apply elem_of_app in Ht as [Ht|Ht]; [|apply (IHF false e We Ht)].
      apply elem_of_list_In, in_concat in Ht as (l0 & Hl0 & Ht). apply in_map_iff in Hl0 as (c0 & <- & Hc0).
      apply (IHF true c0); [|apply elem_of_list_In, Ht]. clear -Wcs Hc0. induction cases as [|c1 cs IHc]; [inversion Hc0|].
      destruct Wcs as [W1 W2]. destruct Hc0 as [<-|Hc0]; [exact W1|apply IHc; assumption].
Qed.

Theorem C04_binds_values_pfree_proof s sS sP :
  Inv s -> ValInvB s -> Tplain s -> templates_ok s = true ->
  stabilize [] false s = Ok (sS, None) -> parStabilize [] s = Ok (sP, None) ->
  forall n, has s n -> pfree s n -> inGraph (nd sS n) = true -> inGraph (nd sP n) = true -> notLhs s n = true ->
    valueOf sS n = valueOf sP n.
Proof.
  intros IV V TP Ht HS HP n Hn NP HgS HgP Hnl.
  pose proof (passTF_serial s sS IV V TP HS) as FS. pose proof (passTF_par s sP IV V TP HP) as FP.
  destruct (passS_consistent s sS IV V TP HS) as (HcS & IS & HwfS & HShS).
  destruct (passS_ValInvB s sS IV V TP HS) as (_ & _ & CS).
  destruct (parS_consistent s sP IV V TP HP) as (HcP & IP & HwfP & HShP & _ & _ & CP).
  assert (HnlS : notLhs sS n = true) by (unfold notLhs in *; destruct (tf_node _ _ FS n Hn) as (_ & -> & _); exact Hnl).
  assert (HnlP : notLhs sP n = true) by (unfold notLhs in *; destruct (tf_node _ _ FP n Hn) as (_ & -> & _); exact Hnl).
  destruct (consistent_registered_eval sS HwfS (Inv_closed sS IS HShS) (templates_ok_CF s sS CS Ht) HcS n HgS HnlS) as [BS ES].
  destruct (consistent_registered_eval sP HwfP (Inv_closed sP IP HShP) (templates_ok_CF s sP CP Ht) HcP n HgP HnlP) as [BP EP].
  set (F := (next sS + next sP)%nat).
  pose proof (ES F ltac:(unfold F; lia)) as E1. pose proof (EP F ltac:(unfold F; lia)) as E2.
  rewrite (eval_ext_TF_pfree s sS IV FS F n Hn NP) in E1. rewrite (eval_ext_TF_pfree s sP IV FP F n Hn NP) in E2.
  congruence.
Qed.
