(** The quiescent well-formedness predicate of the engine model (C05/C06), as boolean
    checkers so that it can be evaluated on every state a replayed history reaches before
    (and while) it is proved to be an invariant of [Engine.step]. *)
From stdpp Require Import sorting.
From incr Require Import Base Heap HeapSpec EngineDefs Engine.

Definition allNodes (s : state) : list nid :=
  filter (fun n => is_Some (nodes s !! n)) (seq 0 (next s)).

Definition count_occ_n (x : nid) (l : list nid) : nat := length (filter (fun y => y = x) l).

(** Q1: every edge is recorded on both endpoints with the same multiplicity *)
Definition edges_symmetric (s : state) : bool :=
  forallb (fun c =>
    forallb (fun p => (count_occ_n p (parents (nd s c)) =? count_occ_n c (children (nd s p)))%nat)
            (parents (nd s c))
    && forallb (fun d => (count_occ_n d (children (nd s c)) =? count_occ_n c (parents (nd s d)))%nat)
               (children (nd s c)))
    (allNodes s).

(** Q2: a node that is not registered has no edges, no height and is not queued (its stamps are
    0 unless it was invalidated after it left the graph: a discarded bind generation) *)
Definition unregistered_zeroed (s : state) : bool :=
  forallb (fun n => let x := nd s n in
     inGraph x ||
     (bool_decide (parents x = []) && bool_decide (children x = []) && bool_decide (observers x = [])
      && (height x =? unset) && negb (inHeap s n)))
    (allNodes s).

(** Q3: registered exactly when necessary *)
Definition registered_iff_necessary (s : state) : bool :=
  forallb (fun n => Bool.eqb (inGraph (nd s n)) (isNecessary (nd s n))) (allNodes s).

(** Q4: the linked inputs of a registered valid node are its declared inputs (as multisets);
    an invalid node has no linked inputs *)
Definition sortn (l : list nid) : list nid := merge_sort Nat.le l.
Definition parents_are_declared (s : state) : bool :=
  forallb (fun n => let x := nd s n in
     negb (inGraph x) ||
     (if valid x then bool_decide (sortn (parents x) = sortn (decl x))
      else bool_decide (parents x = [])))
    (allNodes s).

(** Q5: every dependent sits strictly above each input; scope nodes above their lhs-change *)
Definition heights_ordered (s : state) : bool :=
  forallb (fun n => let x := nd s n in
     negb (inGraph x) ||
     ((0 <=? height x) && (height x <? maxHeight s)
      && forallb (fun p => height (nd s p) <? height x) (parents x)
      && (scopeHeight s (scope x) <? height x)))
    (allNodes s).

(** Q6: the heap invariant; every queued node is registered and queued at its height *)
Definition heap_inv_b (w : Heap.t) : bool :=
  let ids := Heap.ids w in
  bool_decide (NoDup ids)
  && (Heap.cnt w =? Z.of_nat (length ids))
  && Heap.sanity w
  && forallb (fun n => negb (Heap.hinOf w n =? unset)) ids
  && bool_decide (map_to_list (Heap.hin w) ≡ₚ map (fun n => (n, Heap.hinOf w n)) ids)
  && (if 0 <? Heap.cnt w
      then (0 <=? Heap.minH w) && (Heap.maxH w <? Z.of_nat (length (Heap.buckets w)))
           && forallb (fun n => (Heap.minH w <=? Heap.hinOf w n) && (Heap.hinOf w n <=? Heap.maxH w)) ids
      else true).

Definition queued_ok (s : state) : bool :=
  heap_inv_b (heap s)
  && forallb (fun n => inGraph (nd s n) && (Heap.hinOf (heap s) n =? height (nd s n))) (Heap.ids (heap s)).

(** Q7: the counts are what is registered *)
Definition counts_ok (s : state) : bool :=
  bool_decide (NoDup (reg s))
  && bool_decide (sortn (reg s) = filter (fun n => inGraph (nd s n) = true) (allNodes s))
  && (numNodes s =? Z.of_nat (length (reg s)) + Z.of_nat (size (obs s))).

(** Q8: the transient structures are empty between operations *)
Definition transients_empty (s : state) : bool :=
  (a_num (adj s) =? 0) && bool_decide (invq s = []) && (status s =? 0)
  && bool_decide (setDuring s = []) && bool_decide (setRemoved s = []) && bool_decide (handlers s = [])
  && forallb (fun n => negb (forceNec (nd s n)) && (hAdj (nd s n) =? unset)) (allNodes s)
  && forallb (fun q => bool_decide (q = [])) (a_byHeight (adj s)).

(** Q9: observers are recorded on the node they observe, and only there *)
Definition observers_ok (s : state) : bool :=
  forallb (fun n => forallb (fun o => bool_decide (obs s !! o = Some n)) (observers (nd s n))
                    && bool_decide (NoDup (observers (nd s n)))) (allNodes s)
  && forallb (fun '(o, n) => bool_decide (o ∈ observers (nd s n))) (map_to_list (obs s)).

(** Q10: bind bookkeeping: the main node's declared inputs are the lhs-change and the current
    right-hand side; scope nodes record their scope *)
Definition binds_ok (s : state) : bool :=
  forallb (fun '(b, r) =>
     bool_decide (b_lhsChange r = b) && bool_decide (b_main r = S b)
     && bool_decide (decl (nd s (S b)) = match b_rhs r with Some x => [b; x] | None => [b] end)
     && bool_decide (decl (nd s b) = [b_lhs r])
     && forallb (fun n => bool_decide (scope (nd s n) = Some b)) (b_rhsNodes r))
    (map_to_list (binds s)).

Definition codes (s : state) : list nat :=
  (if edges_symmetric s then [] else [1%nat]) ++
  (if unregistered_zeroed s then [] else [2%nat]) ++
  (if registered_iff_necessary s then [] else [3%nat]) ++
  (if parents_are_declared s then [] else [4%nat]) ++
  (if heights_ordered s then [] else [5%nat]) ++
  (if queued_ok s then [] else [6%nat]) ++
  (if counts_ok s then [] else [7%nat]) ++
  (if transients_empty s then [] else [8%nat]) ++
  (if observers_ok s then [] else [9%nat]) ++
  (if binds_ok s then [] else [10%nat]).

Definition wfb (s : state) : bool := bool_decide (codes s = []).

(** run a history on the model alone and report the first operation after which some clause
    fails: (index, failing clauses) *)
Fixpoint wf_trace (s : state) (os : list op) (i : nat) : option (nat * list nat) :=
  match os with
  | [] => None
  | o :: os =>
    if negb (op_ok s o) then Some (i, [99%nat]) else
    match step (s <| log := [] |>) o with
    | Ok (s', _) => match codes s' with
                    | [] => wf_trace s' os (S i)
                    | cs => Some (i, cs)
                    end
    | Crash _ => Some (i, [98%nat])
    | OutOfFuel => Some (i, [97%nat])
    end
  end.
