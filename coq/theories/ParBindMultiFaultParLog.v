(** C13 and C02 / C03 / C11 for ParallelStabilize on graphs with binds under a plan with ANY NUMBER of
    faults: the update handlers that run at the end of such a pass, and what its run events say.
    Instances of the generic block induction of ParBindMultiFaultPar.v. *)
From stdpp Require Import sorting.
From incr Require Import Base Heap HeapSpec HeapProofs EngineDefs Engine EngineRun EngineWf Spec EngineLemmas EngineLocal
     EngineInv EngineInvProofs PassInv PassProofs PassPlanProofs PassBind PassBindProofs PassBindSwap PassBindSwapProofs
     PassBindSwapStep PassBindOps PassBindFault PassBindWrites PassBindTotal PassBindMixed PassBindFaultGen
     ParBind ParBindStep ParBindHistory ParBindWrites ParBindLog PassPlanProofs2 PassBindSwapLog PassBindSwapHandlers
     ParBindHandlers ParBindFault PassBindMultiFault PassBindPlanLog ParBindFaultLog ParBindEverything ParBindMultiFaultPar.
From incr Require Import SpecProofs.

Local Arguments valueOf : simpl never.

(** * 1. C13: the handler set *)
Definition XH : state -> list nid -> Prop := fun st _ => HInv st.

Theorem parQ_handlers s q s' e :
  nowrites q -> Inv s -> ValInvB s -> Tplain s -> plan_ok s q = true -> par_plan_clean s q = true ->
  parStabilize q s = Ok (s', e) -> rejected e = false ->
  exists L H,
    rev (log s') = rev (log s) ++ [EvPassStart] ++ L ++ [EvPassEnd (classify e)] ++ H /\
    Forall passEv L /\ Forall EngineLocal.isHandlerEv H /\ NoDup H /\
    (forall n, EvUpd n ∈ H <-> inGraph (nd s' n) = true /\ changedAt (nd s' n) = stabNum s) /\
    (forall o v, EvObsUpd o v ∈ H <->
       exists n, obs s' !! o = Some n /\ changedAt (nd s' n) = stabNum s /\ v = valueOf s' n).
Proof.
  intros Hq IV V TP Hpok Hcl H Hrej. pose proof (Inv_wfb s IV) as Hwf. destruct (wfb_transients _ Hwf) as (Hst & Hsd & Hsr & Hh).
  destruct (C13_bracket_and_order_par q s s' e Hst) as (L & sL & always & EL & Hlog & HL & Hobs & Hsort);
    [intros n Hn; apply (io_lt _ (inv_ids _ IV)); exact Hn|exact Hpok|rewrite Hsd, Hsr; constructor|exact H|].
  destruct (Hsort ltac:(rewrite Hh; constructor)) as [_ Hnd].
  set (s1 := EngineLocal.passStart s) in *.
  assert (HI1 : XH s1 []).
  { intros k0. change (handlers s1) with (handlers s). rewrite Hh. split; [intros Hk; inversion Hk|].
    intros [[_ Hc]|(n & _ & _ & Hc)]; exfalso.
    - pose proof (stamps_node_true _ _ (vb_stamps _ V k0)). change (changedAt (nd s k0) = stabNum s) in Hc. lia.
    - pose proof (stamps_node_true _ _ (vb_stamps _ V n)). change (changedAt (nd s n) = stabNum s) in Hc. lia. }
  destruct (passLoopQ q Hq XH) with (s := s) (sL := sL) (e := e) (always := always) as (TPL & PL & LL & HAL & HIL & HkL & CL & He);
    try assumption.
  { intros st m R _ _ HI. exact HI. }
  { intros fuel st m R st' TP0 P0 L0 Hg0 Hr0 HI. exact (rnpH fuel st m R st' TP0 P0 L0 Hg0 HI Hr0). }
  { intros fuel st x w k R st' e' P0 L0 Hg0 Ht0 Hd0 _ Hr0 HI. destruct k.
    - exact (fault_HInv_err x w fuel st R st' e' P0 L0 Hg0 Ht0 Hd0 Hr0 HI).
    - exact (fault_HInv_panic x w fuel st R st' e' P0 L0 Hg0 Ht0 Hd0 Hr0 HI). }
  { intros s0 block w order _ _ _ HI. exact HI. }
  unfold XH in HIL.
  pose proof (PInv_Struct sL PL) as HSL. pose proof (t_obs _ _ _ (p_t _ PL)) as HOL.
  destruct (parStabilize_decompose q s s' e Hst H) as (sL' & al' & s2 & EL2 & ER & EE).
  change (EngineLocal.passStart s) with s1 in EL2. rewrite EL in EL2. injection EL2 as <- <-.
  unfold requeueAlwaysPar in ER. rewrite requeuePar_eq in ER.
  pose proof (requeue_only_heap _ _ _ ER) as OR.
  destruct (stabilizeEnd_quiet s2 _ s' ltac:(rewrite (oh_setDuring _ _ OR); exact (proj1 (lp_quiet _ _ LL)))
              ltac:(rewrite (oh_setRemoved _ _ OR); exact (proj2 (lp_quiet _ _ LL))) EE)
    as (En & _ & _ & _ & _ & _ & Eo & _).
  assert (Hnodes : nodes s' = nodes sL) by (rewrite En; apply (oh_nodes _ _ OR)).
  pose proof (nodes_eq_nd _ _ Hnodes) as Hnd'.
  assert (Hobs' : obs s' = obs sL) by (rewrite Eo; apply (oh_obs _ _ OR)).
  assert (HkLs : stabNum sL = stabNum s) by exact HkL.
  exists L, (map (hev sL) (handlers sL)). split; [exact Hlog|]. split; [exact HL|].
  split; [apply Forall_forall; intros e0 He0; apply elem_of_list_In, elem_of_list_fmap in He0 as (k0 & -> & _); apply hev_isHandlerEv|].
  split; [apply NoDup_fmap_2; [intros k1 k2; apply hev_inj|exact Hnd]|].
  split.
  - intros n. rewrite Hnd', <- HkLs, elem_of_list_fmap. split.
    + intros (k0 & Ek & Hk). unfold hev in Ek. destruct (obs sL !! k0) as [n'|] eqn:Eo0; [discriminate|].
      injection Ek as ->. apply HIL in Hk as [Hk|(n' & _ & Hin & _)]; [exact Hk|].
      apply (ob_iff _ HOL) in Hin. congruence.
    + intros [Hg Hc]. exists n. split; [|apply HIL; left; auto].
      unfold hev. destruct (obs sL !! n) as [n'|] eqn:Eo0; [|reflexivity].
      exfalso. destruct (ob_ids _ HOL n n' Eo0) as (_ & Hno & _). apply Hno. apply has_inGraph, Hg.
  - intros o v. rewrite elem_of_list_fmap. split.
    + intros (k0 & Ek & Hk). unfold hev in Ek. destruct (obs sL !! k0) as [n|] eqn:Eo0; [|discriminate].
      injection Ek as -> ->. exists n. rewrite Hobs'. split; [exact Eo0|].
      rewrite Hnd', <- HkLs, (valueOf_nodes sL s' n Hnodes). split; [|reflexivity].
      apply HIL in Hk as [[Hg _]|(n' & _ & Hin & Hc)].
      * exfalso. destruct (ob_ids _ HOL k0 n Eo0) as (_ & Hno & _). apply Hno. apply has_inGraph, Hg.
      * apply (ob_iff _ HOL) in Hin. congruence.
    + intros (n & Ho & Hc & ->). rewrite Hobs' in Ho. rewrite Hnd', <- HkLs in Hc.
      exists o. split; [unfold hev; rewrite Ho, (valueOf_nodes sL s' n Hnodes); reflexivity|].
      apply HIL. right. exists n. split; [|split; [apply (ob_iff _ HOL), Ho|exact Hc]].
      rewrite (st_nec _ HSL n). unfold isNecessary.
      apply (ob_iff _ HOL) in Ho. destruct (observers (nd sL n)) as [|o' l]; [inversion Ho|].
      rewrite (bool_decide_eq_false_2 (o' :: l = [])) by discriminate. rewrite orb_true_r. reflexivity.
Qed.


(** * 2. C02 / C03 / C11: the log *)
Definition simQ (q : plan) (s0 s0' : state) : Prop :=
  forall n, value (nd s0' n) = value (nd s0 n) /\ changedAt (nd s0' n) = changedAt (nd s0 n) /\
            ((forall k, ~ inPlan q n k) -> recomputedAt (nd s0' n) = recomputedAt (nd s0 n)).
Lemma simQ_refl q s0 : simQ q s0 s0.
Proof. intros n. auto. Qed.
Lemma simQ_trans q a b c : simQ q a b -> simQ q b c -> simQ q a c.
Proof.
  intros H1 H2 n. destruct (H1 n) as (A1 & A2 & A3). destruct (H2 n) as (B1 & B2 & B3).
  split; [congruence|]. split; [congruence|]. intros Hn. rewrite (B3 Hn). apply (A3 Hn).
Qed.
Lemma simQ_setR q s0 x k r : inPlan q x k -> simQ q s0 (setR s0 x r).
Proof.
  intros Hin n. destruct (decide (n = x)) as [->|Hn].
  - rewrite nd_setR_eq. split; [reflexivity|]. split; [reflexivity|]. intros H. exfalso. exact (H k Hin).
  - rewrite (nd_setR_ne s0 x r n Hn). auto.
Qed.

Definition XL (q : plan) (s0 : state) (base : list event) : state -> list nid -> Prop :=
  fun st R => exists s0', simQ q s0 s0' /\ LGPx s0' base st R.

Record PassLogPQ (F : nid -> Prop) (e : option err) (s s' : state) : Prop := {
  (* C02 / C11: the LAST run of the current period of necessity of a node that is registered and not
     queued when the pass returns (any registered node, if the pass returns no error) saw the
     values its inputs hold then *)
  plr_last : forall evs pre e0 post n, log s' = evs ++ log s -> evs = pre ++ e0 :: post ->
      ev_node e0 = Some n -> EvNec n ∉ pre -> Forall (fun e2 => ev_node e2 <> Some n) pre ->
      inGraph (nd s' n) = true -> (e = None \/ inHeap s' n = false) ->
      recomputedAt (nd s' n) = stabNum s /\
      match e0 with
      | EvInvoked _ args r => args = map (valueOf s') (decl (nd s' n)) /\ r = value (nd s' n)
      | EvCutoff _ old new true => value (nd s' n) = old
      | EvCutoff _ old new false => value (nd s' n) = new
      | _ => True
      end;
  (* C03: at most two runs in one period of necessity, two only in a period that began in this pass *)
  plr_triple : forall evs pre e1 mid1 e2 mid2 e3 post n, log s' = evs ++ log s ->
      evs = pre ++ e1 :: mid1 ++ e2 :: mid2 ++ e3 :: post ->
      ev_node e1 = Some n -> ev_node e2 = Some n -> ev_node e3 = Some n ->
      EvNec n ∈ mid1 \/ EvNec n ∈ mid2;
  plr_pair : forall evs pre e0 mid e' post n, log s' = evs ++ log s -> evs = pre ++ e0 :: mid ++ e' :: post ->
      ev_node e0 = Some n -> ev_node e' = Some n -> EvNec n ∈ mid \/ EvNec n ∈ post;
  plr_keep : forall evs n, log s' = evs ++ log s -> inGraph (nd s' n) = true -> EvNec n ∉ evs ->
      recomputedAt (nd s' n) <> stabNum s ->
      value (nd s' n) = value (nd s n) /\ changedAt (nd s' n) = changedAt (nd s n) /\
      (~ F n -> recomputedAt (nd s' n) = recomputedAt (nd s n));
  plr_changed : forall evs n, log s' = evs ++ log s -> inGraph (nd s' n) = true -> EvNec n ∉ evs ->
      value (nd s' n) <> value (nd s n) -> changedAt (nd s' n) = stabNum s
}.

Theorem parQ_log s q s' e :
  nowrites q -> Inv s -> ValInvB s -> Tplain s -> plan_ok s q = true -> par_plan_clean s q = true ->
  parStabilize q s = Ok (s', e) -> rejected e = false -> PassLogPQ (fun n => exists k, inPlan q n k) e s s'.
Proof.
  intros Hq IV V TP Hpok Hcl H Hrej. pose proof (Inv_wfb s IV) as Hwf.
  destruct (wfb_transients _ Hwf) as (Hst & Hsd & Hsr & Hh).
  destruct (parStabilize_decompose q s s' e Hst H) as (sL & always & s2 & EL & ER & EE).
  set (s1 := EngineLocal.passStart s) in *.
  assert (G1 : XL q s1 (log s1) s1 []).
  { exists s1. split; [apply simQ_refl|]. exists []. split; [reflexivity|apply LGP_start]. }
  destruct (passLoopQ q Hq (XL q s1 (log s1))) with (s := s) (sL := sL) (e := e) (always := always)
    as (TPL & PL & LL & HAL & (s0' & S0 & evsL & ElL & GL) & HkL & CL & He); try assumption.
  { intros st m R P0 Hg0 (s0a & Sa & evs & El & G). exists s0a. split; [exact Sa|]. exists evs. split; [exact El|].
    apply (LGP_skip s0a st m R evs Hg0 G). }
  { intros fuel st m R st' TP0 P0 L0 Hg0 Hr0 (s0a & Sa & evs & El & G). exists s0a. split; [exact Sa|].
    destruct (nodeLP fuel s0a st m R st' evs TP0 P0 L0 Hg0 Hr0 G) as (new & El1 & G1').
    exists (new ++ evs). split; [rewrite El1, El, app_assoc; reflexivity|exact G1']. }
  { intros fuel st x w k R st' e' P0 L0 Hg0 Ht0 Hd0 Hin Hr0 (s0a & Sa & evs & El & G).
    destruct (faultStep_any x w k fuel st R st' e' P0 L0 Hg0 Ht0 Hd0 Hr0) as (_ & _ & _ & _ & Ek & Ehas & Ene & _).
    destruct (faultShape_any x w k fuel st R st' e' P0 L0 Hg0 Ht0 Hd0 Hr0) as (r & new & Hr' & Ex & I' & Hids & Eln & FQ).
    assert (HxR : x ∉ R) by (pose proof (lp_nodup _ _ L0) as H0; apply stdpp.list.NoDup_cons in H0 as [H0 _]; exact H0).
    exists (setR s0a x r). split; [apply (simQ_trans q s1 s0a _ Sa), (simQ_setR q s0a x k r Hin)|].
    exists (new ++ evs). split; [rewrite Eln, El, app_assoc; reflexivity|].
    exact (LGP_fault s0a st x R st' r new evs Ene Ex Hr' Ehas Ek (proj1 (PInv_heap st P0)) I' Hids Hg0 Hd0 HxR FQ G). }
  { intros s0 block w order P0 Etb Hord (s0a & Sa & evs & El & G). exists s0a. split; [exact Sa|]. exists evs. split; [exact El|].
    apply (LGP_block_start s0a s0 block w order evs P0 Etb Hord G). }
  destruct (PInv_heap sL PL) as [IL HqLh].
  unfold requeueAlwaysPar in ER. rewrite requeuePar_eq in ER.
  pose proof (requeue_only_heap _ _ _ ER) as OR.
  destruct (requeue_mem always sL s2 IL ER) as (IR & MR & AR).
  assert (Hsd2 : setDuring s2 = []) by (rewrite (oh_setDuring _ _ OR); exact (proj1 (lp_quiet _ _ LL))).
  assert (Hsr2 : setRemoved s2 = []) by (rewrite (oh_setRemoved _ _ OR); exact (proj2 (lp_quiet _ _ LL))).
  destruct (stabilizeEnd_quiet s2 _ s' Hsd2 Hsr2 EE) as (En & Eh & _).
  destruct (stabilizeEnd_log s2 e s' Hsd2 Hsr2 EE) as (hev & Elog & Hhev).
  assert (Hn : nodes s' = nodes sL) by (rewrite En; apply (oh_nodes _ _ OR)).
  pose proof (nodes_eq_nd _ _ Hn) as Hnd.
  assert (HkLs : stabNum sL = stabNum s) by exact HkL.
  assert (Hlog : log s' = (hev ++ [EvPassEnd (classify e)]) ++ evsL ++ [EvPassStart] ++ log s).
  { rewrite Elog, (oh_log _ _ OR), ElL. rewrite <- !app_assoc. reflexivity. }
  assert (HQ : Forall quiet (hev ++ [EvPassEnd (classify e)])).
  { apply Forall_app. split; [|constructor; [reflexivity|constructor]].
    eapply List.Forall_impl; [|exact Hhev]. exact handler_quiet. }
  assert (HQ2 : Forall quiet [EvPassStart]) by (constructor; [reflexivity|constructor]).
  assert (Hevs : forall evs, log s' = evs ++ log s -> evs = (hev ++ [EvPassEnd (classify e)]) ++ evsL ++ [EvPassStart]).
  { intros evs E. apply (app_inv_tail (log s)). rewrite <- E, Hlog, <- !app_assoc. reflexivity. }
  assert (Hvo : forall p, valueOf s' p = valueOf sL p) by (intros p; apply valueOf_nodes, Hn).
  assert (HqL : forall n, (e = None \/ inHeap s' n = false) -> inP sL [] n = false).
  { intros n Hqn. rewrite inP_nil. destruct (inHeap sL n) eqn:E; [|reflexivity]. apply (inHeap_iff0 sL n IL) in E.
    destruct Hqn as [Hqn|Hqn].
    { exfalso. destruct He as [[_ Hemp]|(x & k & _ & He & _)]; [rewrite Hemp in E; inversion E|rewrite Hqn in He; discriminate He]. }
    apply MR in E. apply (inHeap_iff0 s2 n IR) in E. unfold inHeap in Hqn, E. rewrite Eh in Hqn. congruence. }
  assert (Hall : allcnt ((hev ++ [EvPassEnd (classify e)]) ++ evsL ++ [EvPassStart])).
  { assert (Hn2 : forall n, EvNec n ∉ [EvPassStart]).
    { intros n Hin. apply elem_of_list_singleton in Hin. discriminate. }
    apply (allcnt_quiet _ _ HQ).
    - intros n. rewrite (cnt_snoc_quiet n [EvPassStart] HQ2 (Hn2 n)). apply (gp_le _ _ _ _ GL).
    - apply (allcnt_snoc_quiet [EvPassStart] HQ2 Hn2), (gp_all _ _ _ _ GL). }
  destruct GL as [A B C D E Fh Gn Hle Hal J K].
  constructor.
  - intros evs pre e0 post n E1 E2 Hn' Hnec Hfa Hg Hqn. rewrite (Hevs evs E1) in E2.
    destruct (split_quiet_l _ _ pre e0 post E2 HQ ltac:(congruence)) as (pre2 & -> & E3).
    destruct (split_quiet_r evsL [EvPassStart] pre2 e0 post E3 HQ2 ltac:(congruence)) as (post2 & -> & E4).
    rewrite Hnd in Hg.
    assert (Hok : ev_okP sL e0 = true).
    { apply (B pre2 e0 post2 n E4 Hn'); [| |exact Hg|apply HqL, Hqn].
      - intros Hin. apply Hnec, elem_of_app. auto.
      - apply Forall_app in Hfa. apply Hfa. }
    pose proof (ev_okP_done sL e0 n Hn' Hok) as Hd. apply isDone_iff in Hd. rewrite HkLs in Hd.
    rewrite Hnd. split; [exact Hd|].
    destruct e0; try exact Logic.I; injection Hn' as ->; unfold ev_okP in Hok; rewrite !andb_true_iff in Hok.
    + destruct Hok as [[_ Ha] Hr]. apply bool_decide_eq_true in Ha. apply Z.eqb_eq in Hr.
      split; [|exact Hr]. rewrite Ha. apply map_ext. intros p. symmetry. apply Hvo.
    + destruct Hok as [_ Hv]. destruct verdict; apply Z.eqb_eq in Hv; exact Hv.
  - intros evs pre e1 mid1 e2 mid2 e3 post n E1 E2. rewrite (Hevs evs E1) in E2. apply (allcnt_triple _ _ _ _ _ _ _ _ n Hall E2).
  - intros evs pre e0 mid e' post n E1 E2. rewrite (Hevs evs E1) in E2. apply (allcnt_pair _ _ _ _ _ _ n Hall E2).
  - intros evs n E1 Hg Hnec Hr. rewrite (Hevs evs E1) in Hnec. rewrite Hnd in *.
    assert (Hd : isDone sL n = false).
    { unfold isDone. apply Z.eqb_neq. rewrite HkLs. exact Hr. }
    destruct (S0 n) as (S1 & S2 & S3).
    destruct (J n Hg) as (J1 & J2 & J3); [|exact Hd|].
    { intros Hin. apply Hnec. apply elem_of_app. right. apply elem_of_app. left. exact Hin. }
    split; [rewrite J1; exact S1|]. split; [rewrite J3; exact S2|]. intros Hnx. rewrite J2. apply S3. intros k Hin. apply Hnx. exists k. exact Hin.
  - intros evs n E1 Hg Hnec Hv. rewrite (Hevs evs E1) in Hnec. rewrite Hnd in *.
    destruct (Z.eq_dec (changedAt (nd sL n)) (stabNum s)) as [Ec|Ec]; [exact Ec|exfalso].
    apply Hv. destruct (S0 n) as (S1 & _). change (value (nd s1 n)) with (value (nd s n)) in S1. rewrite <- S1.
    apply (K n Hg); [|rewrite HkLs; exact Ec].
    intros Hin. apply Hnec. apply elem_of_app. right. apply elem_of_app. left. exact Hin.
Qed.

(** var writes as well: the log is that of the pass under the faults of the plan alone *)
Theorem parA_log s p s' e :
  Inv s -> ValInvB s -> Tplain s -> plan_ok s p = true -> par_plan_clean s p = true ->
  parStabilize p s = Ok (s', e) -> rejected e = false ->
  exists t', parStabilize (fo p) s = Ok (t', e) /\ PassLogPQ (fun n => exists k, inPlan p n k) e s t' /\
    log s' = log t' /\ (forall m, vps (nd t' m) (nd s' m)).
Proof.
  intros IV V TP Hpok Hcl H Hrej.
  destruct (parA_any s p s' e IV V TP Hpok Hcl H Hrej) as (_ & _ & _ & _ & _ & t' & H0 & Hl & Hv & _).
  exists t'. split; [exact H0|]. split; [|auto].
  destruct (parQ_log s (fo p) t' e (nowrites_fo p) IV V TP (plan_ok_fo s p Hpok) (par_plan_clean_fo s p Hcl) H0 Hrej) as [A B C D E].
  constructor; try assumption.
  intros evs n E1 Hg Hnec Hr. destruct (D evs n E1 Hg Hnec Hr) as (D1 & D2 & D3). split; [exact D1|]. split; [exact D2|].
  intros Hn. apply D3. intros (k & w & Hin). apply Hn. exists k, w.
  unfold fo in Hin. apply elem_of_list_In, filter_In in Hin as [Hin _]. apply elem_of_list_In, Hin.
Qed.

(** * 2b. C13 with var writes in the plan: the handlers of the pass under the faults alone *)
Lemma parStabilize_obs p s s' e :
  status s = 0 -> ids_below s -> plan_ok s p = true ->
  Forall (fun v => isVar s v = true) (setDuring s ++ setRemoved s) ->
  parStabilize p s = Ok (s', e) -> obs s' = obs s.
Proof.
  intros Hst Hids Hp Hv0 H.
  destruct (parStabilize_decompose _ _ _ _ Hst H) as (sL & always & s2 & H1 & H2 & H4).
  pose proof (pf_parLoop _ _ _ _ _ _ _ H1) as Hpf.
  assert (Hwv : wvR (fun v => isVar s v = true) (EngineLocal.passStart s) sL).
  { eapply (fr_parLoop (wvR _)); [apply wvR_hyps| |exact H1]. apply plan_ok_planv, Hp. }
  assert (HvL : Forall (fun v => isVar sL v = true) (setRemoved sL ++ setDuring sL)).
  { eapply (pass_deferred_are_vars (EngineLocal.passStart s) sL p); [exact Hids|exact Hp|exact Hv0|exact Hpf|exact Hwv]. }
  pose proof (requeueAlwaysPar_heapOnly _ _ _ H2) as [w ->].
  assert (HvL' : Forall (fun v => isVar (sL <| heap := w |>) v = true)
                   (setRemoved (sL <| heap := w |>) ++ setDuring (sL <| heap := w |>))) by exact HvL.
  destruct (EngineLocal.stabilizeEnd_spec _ _ _ HvL' H4) as (_ & _ & _ & _ & _ & Eo & _).
  destruct Hpf as (Ob & _). rewrite Eo. exact Ob.
Qed.

Theorem parA_handlers s p s' e :
  Inv s -> ValInvB s -> Tplain s -> plan_ok s p = true -> par_plan_clean s p = true ->
  parStabilize p s = Ok (s', e) -> rejected e = false ->
  exists t' L H,
    parStabilize (fo p) s = Ok (t', e) /\
    rev (log s') = rev (log s) ++ [EvPassStart] ++ L ++ [EvPassEnd (classify e)] ++ H /\
    Forall passEv L /\ Forall EngineLocal.isHandlerEv H /\ NoDup H /\
    (forall n, EvUpd n ∈ H <-> inGraph (nd s' n) = true /\ changedAt (nd s' n) = stabNum s) /\
    (forall o v, EvObsUpd o v ∈ H <->
       exists n, obs s' !! o = Some n /\ changedAt (nd s' n) = stabNum s /\ v = valueOf t' n).
Proof.
  intros IV V TP Hpok Hcl H Hrej. pose proof (Inv_wfb s IV) as Hwf. destruct (wfb_transients _ Hwf) as (Hst & Hsd & Hsr & Hh).
  destruct (parA_any s p s' e IV V TP Hpok Hcl H Hrej) as (_ & _ & _ & _ & _ & t' & H0 & Hl & Hv & _).
  destruct (parQ_handlers s (fo p) t' e (nowrites_fo p) IV V TP (plan_ok_fo s p Hpok) (par_plan_clean_fo s p Hcl) H0 Hrej)
    as (L & Hh' & Hlog & HL & HH & Hnd & Hupd & Hobs).
  assert (Hids : ids_below s) by (intros n Hn; apply (io_lt _ (inv_ids _ IV)); exact Hn).
  assert (Hv0 : Forall (fun v => isVar s v = true) (setDuring s ++ setRemoved s)) by (rewrite Hsd, Hsr; constructor).
  assert (Eo : obs s' = obs t').
  { rewrite (parStabilize_obs p s s' e Hst Hids Hpok Hv0 H).
    rewrite (parStabilize_obs (fo p) s t' e Hst Hids (plan_ok_fo s p Hpok) Hv0 H0). reflexivity. }
  assert (Hf : forall n, inGraph (nd s' n) = inGraph (nd t' n) /\ changedAt (nd s' n) = changedAt (nd t' n)).
  { intros n. destruct (Hv n) as (a & b & c & ->). split; reflexivity. }
  exists t', L, Hh'. split; [exact H0|]. rewrite Hl. split; [exact Hlog|]. split; [exact HL|]. split; [exact HH|]. split; [exact Hnd|].
  split.
  - intros n. destruct (Hf n) as [-> ->]. apply Hupd.
  - intros o v. rewrite Eo. rewrite (Hobs o v). split; intros (n & A & B & C); exists n; destruct (Hf n) as [_ E2];
      (split; [exact A|]); (split; [congruence|exact C]).
Qed.

(** * 3. Non-vacuity: the faults of [exA_plan] in one parallel pass *)
Lemma exAL_results :
  match histA_run (init 64) (take 11 exA_ops) with
  | Some s =>
    op_ok s (ParStabilize (fo exA_plan)) && op_clean s (ParStabilize (fo exA_plan)) &&
    match parStabilize (fo exA_plan) s with
    | Ok (s1, Some (EUser 2%nat)) =>
      bool_decide (take 13 (log s1) =
        [EvUpd 4; EvUpd 1; EvUpd 0; EvPassEnd XUser; EvErrH 3; EvFault 3 WFn FPanic; EvErrH 2; EvFault 2 WFn FErr;
         EvInval 9; EvUnnec 9; EvNec 10; EvBindFn 4 3 (Some 10%nat); EvPassStart]) &&
      bool_decide (drop 13 (log s1) = log s) &&
      (* the handlers: exactly the registered nodes with the pass's change stamp *)
      bool_decide (filter (fun n => inGraph (nd s1 n) && (changedAt (nd s1 n) =? stabNum s)) (seq 0 (next s1)) = [0; 1; 4]%nat) &&
      (* the bind 4 ran, is not queued and carries the stamp; 2 and 3 are queued *)
      negb (inHeap s1 4%nat) && (recomputedAt (nd s1 4%nat) =? stabNum s) && inHeap s1 2%nat && inHeap s1 3%nat
    | _ => false
    end
  | None => false
  end = true.
Proof. vm_compute. reflexivity. Qed.
