(** Known findings K07, K08, K09 on graphs with binds, as kernel-checked witnesses on the model:
    natural statements about the two stabilizers that are FALSE, each refuted by a concrete history
    (the pre-state of the witness pass satisfies [Inv], [ValInvB], [Tplain] by the history theorems).
    K06 is [PassBindSwapHandlers.C13_value_statement_refuted], K10 is
    [ParBindLog.once_statement_par_refuted]. *)
From incr Require Import Base Heap HeapSpec HeapProofs EngineDefs Engine EngineRun EngineWf Spec EngineLemmas EngineLocal
     EngineInv EngineInvProofs PassInv PassProofs PassPlanProofs PassBind PassBindProofs PassBindSwap PassBindSwapProofs
     PassBindSwapStep PassBindOps PassBindSwapLog PassBindSwapHandlers ParBind ParBindStep ParBindHistory ParBindLog ParBindC04.
From incr Require Import SpecProofs.

Local Arguments valueOf : simpl never.

Definition evsOf (s s' : state) : list event := take (length (log s') - length (log s)) (log s').

Lemma histB_hyps os s : histB_run (init 64) os = Some s -> Inv s /\ ValInvB s /\ Tplain s.
Proof.
  intros E. assert (TP0 : Tplain (init 64)) by (intros b r Hr; inversion Hr).
  destruct (histB_inv os (init 64) s (Inv_init 64 ltac:(lia)) (ValInvB_init 64) TP0 eq_refl E) as (A & B & C & _). auto.
Qed.
Lemma histP_hyps os s : histP_run (init 64) os = Some s -> Inv s /\ ValInvB s /\ Tplain s.
Proof.
  intros E. assert (TP0 : Tplain (init 64)) by (intros b r Hr; inversion Hr).
  destruct (histP_inv os (init 64) s (Inv_init 64 ltac:(lia)) (ValInvB_init 64) TP0 eq_refl E) as (A & B & C & _). auto.
Qed.

Definition noParity_b (s : state) : bool :=
  forallb (fun n => match nkind (nd s n) with KCutoff CParity => false | _ => true end) (seq 0 (next s)).
Lemma noParity_b_sound s : Inv s -> noParity_b s = true -> noParity s.
Proof.
  intros IV H n Hn K. unfold noParity_b in H. rewrite forallb_forall in H.
  pose proof (io_lt _ (inv_ids _ IV) n Hn) as Hlt.
  specialize (H n ltac:(apply in_seq; lia)). rewrite K in H. discriminate H.
Qed.

(** * K07 (C04): what a node holds while it is OUT of the graph depends on the stabilizer.
    [C04_binds_values] compares the nodes registered after both passes; for ALL nodes that existed
    before the pass the statement is false.  [k07_ops]: node 2 (a Map over var 1, stale) sits at
    the height of the lhs-change node 3 of a bind that drops it in this pass and was queued ahead
    of it: the serial pass recomputes it (10) before the bind drops it, the parallel pass runs the
    lhs-change nodes of a block first and never recomputes it (6). *)
Definition k07_ops : list op :=
  [ NewVar 0 false;                                            (* 0: input of the bind *)
    NewVar 5 false;                                            (* 1 *)
    NewMap (Aff 1 1) 1%nat;                                    (* 2: var 1 + 1, height 1 *)
    NewBind [TMap (Aff 2 0) (TOuter 2%nat); TRet 7] 0%nat;     (* lhs-change 3 (height 1), main 4 *)
    Observe 4%nat;
    Stabilize [];
    SetVar 1%nat 9;                                            (* node 2 stale; queued first *)
    SetVar 0%nat 1 ].                                          (* the bind drops node 2 *)

Definition C04_all_nodes_statement : Prop :=
  forall s sS sP, Inv s -> ValInvB s -> Tplain s -> noParity s ->
    stabilize [] false s = Ok (sS, None) -> parStabilize [] s = Ok (sP, None) ->
    forall n, has s n -> value (nd sS n) = value (nd sP n).

Theorem C04_all_nodes_statement_refuted : ~ C04_all_nodes_statement.
Proof.
  intros Hall.
  assert (Hc : match histB_run (init 64) k07_ops with
               | Some s => noParity_b s && bool_decide (is_Some (nodes s !! 2%nat)) &&
                           match stabilize [] false s, parStabilize [] s with
                           | Ok (sS, None), Ok (sP, None) =>
                             (value (nd sS 2%nat) =? 10) && (value (nd sP 2%nat) =? 6) &&
                             (* the registered nodes and the observer agree, as C04_binds_values says *)
                             negb (inGraph (nd sS 2%nat)) && negb (inGraph (nd sP 2%nat)) &&
                             (value (nd sS 4%nat) =? value (nd sP 4%nat))
                           | _, _ => false end
               | None => false end = true) by (vm_compute; reflexivity).
  destruct (histB_run (init 64) k07_ops) as [s|] eqn:E; [|discriminate Hc].
  destruct (stabilize [] false s) as [[sS [e|]]| |] eqn:E2; try (rewrite andb_false_r in Hc; discriminate Hc).
  destruct (parStabilize [] s) as [[sP [e|]]| |] eqn:E3; try (rewrite andb_false_r in Hc; discriminate Hc).
  rewrite !andb_true_iff in Hc. destruct Hc as [[Hp Hh] [[[[H1 H2] _] _] _]].
  apply bool_decide_eq_true in Hh. apply Z.eqb_eq in H1, H2.
  destruct (histB_hyps _ _ E) as (I1 & V1 & T1).
  pose proof (Hall s sS sP I1 V1 T1 (noParity_b_sound s I1 Hp) E2 E3 2%nat Hh) as Heq. rewrite H1, H2 in Heq. discriminate Heq.
Qed.

(** * K08 (C04 / C13): the two stabilizers do not run the same update handlers.  On [k06_ops] the
    serial pass loses the update of node 2 (K06), the parallel pass reports it. *)
Definition C13_same_handlers_statement : Prop :=
  forall s sS sP, Inv s -> ValInvB s -> Tplain s -> noParity s ->
    stabilize [] false s = Ok (sS, None) -> parStabilize [] s = Ok (sP, None) ->
    forall n, inGraph (nd sS n) = true -> inGraph (nd sP n) = true ->
      (EvUpd n ∈ evsOf s sS <-> EvUpd n ∈ evsOf s sP).

Theorem C13_same_handlers_statement_refuted : ~ C13_same_handlers_statement.
Proof.
  intros Hall.
  assert (Hc : match histB_run (init 64) k06_ops with
               | Some s => noParity_b s &&
                           match stabilize [] false s, parStabilize [] s with
                           | Ok (sS, None), Ok (sP, None) =>
                             inGraph (nd sS 2%nat) && inGraph (nd sP 2%nat) &&
                             negb (bool_decide (EvUpd 2%nat ∈ evsOf s sS)) && bool_decide (EvUpd 2%nat ∈ evsOf s sP) &&
                             (* both passes compute the same value for node 2 *)
                             (value (nd sS 2%nat) =? value (nd sP 2%nat)) && negb (value (nd sS 2%nat) =? value (nd s 2%nat))
                           | _, _ => false end
               | None => false end = true) by (vm_compute; reflexivity).
  destruct (histB_run (init 64) k06_ops) as [s|] eqn:E; [|discriminate Hc].
  destruct (stabilize [] false s) as [[sS [e|]]| |] eqn:E2; try (rewrite andb_false_r in Hc; discriminate Hc).
  destruct (parStabilize [] s) as [[sP [e|]]| |] eqn:E3; try (rewrite andb_false_r in Hc; discriminate Hc).
  rewrite !andb_true_iff in Hc. destruct Hc as [Hp [[[[[G1 G2] H1] H2] _] _]].
  apply negb_true_iff, bool_decide_eq_false in H1. apply bool_decide_eq_true in H2.
  destruct (histB_hyps _ _ E) as (I1 & V1 & T1).
  apply H1, (Hall s sS sP I1 V1 T1 (noParity_b_sound s I1 Hp) E2 E3 2%nat G1 G2), H2.
Qed.

(** * K09 (C13): K06 under ParallelStabilize itself.  [k09_ops]: the cutoff node 2 changes in the
    block of height 1 (its handler is filed), the bind's lhs-change node (height 2, the bind reads a
    Map of var 1) swaps in the next block: the old inner bind is torn down, node 2 leaves the graph
    (handler withdrawn, stamps reset); the new inner bind links it again, its second recompute is
    cut off (8 = 8): node 2 is registered with a new value and no update handler ran for it. *)
Definition k09_ops : list op :=
  [ NewVar 5 false; NewVar 6 false; NewCutoff CEq 0%nat; NewMap (Aff 1 0) 1%nat;
    NewBind [TMap (Aff 1 0) (TBind [TRet 3; TOuter 2%nat; TX] (TRet 4));
             TMap (Aff 1 0) (TBind [TOuter 0%nat; TX; TOuter 2%nat] (TRet 2))] 3%nat;
    Observe 5%nat; ParStabilize []; UpdateVar 0%nat 3; UpdateVar 1%nat 1 ].

Definition C13_value_statement_par : Prop :=
  forall s s', Inv s -> ValInvB s -> Tplain s -> parStabilize [] s = Ok (s', None) ->
  forall evs n, log s' = evs ++ log s -> inGraph (nd s' n) = true ->
    value (nd s' n) <> value (nd s n) -> EvUpd n ∈ evs.

Theorem C13_value_statement_par_refuted : ~ C13_value_statement_par.
Proof.
  intros Hall.
  assert (Hc : match histP_run (init 64) k09_ops with
               | Some s => match parStabilize [] s with
                           | Ok (s', None) =>
                             let evs := evsOf s s' in
                             bool_decide (log s' = evs ++ log s) && inGraph (nd s' 2%nat) &&
                             negb (value (nd s' 2%nat) =? value (nd s 2%nat)) && negb (bool_decide (EvUpd 2%nat ∈ evs))
                           | _ => false end
               | None => false end = true) by (vm_compute; reflexivity).
  destruct (histP_run (init 64) k09_ops) as [s|] eqn:E; [|discriminate Hc].
  destruct (parStabilize [] s) as [[s' [e|]]| |] eqn:E2; try discriminate Hc.
  cbv zeta in Hc. rewrite !andb_true_iff in Hc. destruct Hc as [[[H1 H2] H3] H4].
  apply bool_decide_eq_true in H1. apply negb_true_iff, Z.eqb_neq in H3. apply negb_true_iff, bool_decide_eq_false in H4.
  destruct (histP_hyps _ _ E) as (I1 & V1 & T1).
  exact (H4 (Hall s s' I1 V1 T1 E2 _ 2%nat H1 H2 H3)).
Qed.

