// statusextract regenerates, from the Go source of /repo on every run, the protocol that
// Graph.Stabilize and Graph.ParallelStabilize follow on the shared word graph.status, as a
// program of the atomic actions of coq/theories/Status.v:
//
//	Load | ExitIfBusy | Store v | Cas old new | Work | Handlers
//
// It does so by a small symbolic execution of the two functions over go/ast: calls to
// methods of the receiver and to package functions that (transitively) touch the word, run
// node functions or run update handlers are inlined -- including deferred calls, which run
// at function exit in reverse order; every atomic.LoadInt32 / StoreInt32 /
// CompareAndSwapInt32 on &graph.status is an event; a load forks on every status value, a
// compare-and-swap on success and failure, a condition it cannot decide on both outcomes.
// The resulting set of paths is then folded back into ONE straight-line program:
//
//   - paths that never touch the word (an early return before the protocol) are set aside;
//   - at a load, the paths that saw a non-zero value must all end at once, returning
//     ErrAlreadyStabilizing, while those that saw zero go on: that is `Load; ExitIfBusy`;
//     (a load whose value makes no difference is a plain `Load`);
//   - at a compare-and-swap, the failing paths must end at once returning
//     ErrAlreadyStabilizing: that is `Cas old new`;
//   - otherwise all paths must perform the same operations on the word in the same order;
//     they may differ only in whether the Work / Handlers markers occur (fast paths).
//
// If the ordinary paths cannot be folded (they do not perform the same operations on the
// word: a fast path skipping a store, a release moved into a defer), each of them becomes a
// program of its own next to the panicking paths, and the path-set theorem decides them one by one.
//
// Anything else is an extraction FAILURE (non-zero exit): a plain (non-atomic) read or
// write of the status field anywhere in the package, an atomic write of it outside the two
// entry points, a failing path that still writes, paths that disagree, a status operation
// inside a loop or a goroutine, an unsupported statement in an inlined function.
//
// Function values.  A call through a local that, at that point of the path, holds a function
// literal written in a function the execution is inside of (`f := func(...) {...}; f(x)`,
// `defer f()`, a literal bound to a parameter of an inlined function) is resolved: the
// literal's body is executed in the environment it captured, so whatever it does -- status
// operations, Work, nothing -- lands in the program where the call is.  A call through
// anything else (a parameter of a function that is not inlined, a struct field, an interface
// method, a method of something other than the receiver) has an unknown target and is
// skipped; that is sound for WRITES of the word because (i) every atomic write of the word
// anywhere in the package, function literals included, must have been executed by this very
// run from the two entry points, else the run fails ("written outside"); (ii) plain accesses
// fail package-wide; (iii) a function that writes the word may not be used as a function or
// method value, nor called by name on a receiver other than the bare receiver identifier;
// (iv) a literal that touches the word or runs node functions may not be handed to a
// function that is not followed, started as a goroutine, or called after the function it
// was written in has returned.  An unknown target can therefore only be user code or
// read-only library code: part of whatever phase (Work, Handlers) surrounds the call.
//
// Markers: Work is a call of the method `recompute` or of `parallelBatch` (the recompute
// loop of Stabilize; parallelStabilize's batches, and its direct calls of the worker
// closure); Handlers is a loop over one of the places user code other than node functions
// is kept: `handleAfterStabilization` (update handlers), `errorHandlers()`,
// `abortedHandlers()`, `onStabilizationStart`, `onStabilizationEnd` -- wherever the execution
// meets such a loop, e.g. inside recomputePanicked or handleStabilizationError.
//
// Panics.  Wherever user code runs (every Work and every Handlers step) the execution also
// follows the path on which that code panics (at most two panics per path): the rest of the
// function is skipped, the deferred calls of every frame run last-registered-first with the
// panic in flight, `recover()` called directly by a deferred function stops it and yields a
// non-nil value (nil otherwise), an unrecovered panic leaves the call.  The ordinary paths
// are folded into one program per entry point as described above; every panicking path
// becomes a program OF ITS OWN (`extracted_*_panic_paths`), because it may skip operations
// the ordinary path performs (a panicking end handler skips `Store 2`) and so cannot be
// folded in.  Status.v's theorem C19_mutex_path_set is about exactly that: each call takes
// any of a set of paths, and every path must satisfy both hypotheses ([good_path]) -- in
// particular `releases_last`: nothing, no Work and no Handlers either, follows the releasing
// `Store 0`.  A recover block that is registered before the defer that releases the word
// runs after it, and the error/aborted handlers it reaches show up as a Handlers step
// behind `Store 0`.  A panicking path that ends with the word still claimed (a panic in a
// stabilization-start handler escapes before any defer is registered) cannot break mutual
// exclusion -- nobody gets in any more --; it is modelled as a thread that stalls before an
// added final release and reported as a note.
//
// Independently of the Coq development, the extracted programs are also model-checked here:
// caller 0 on any extracted path, caller 1 on an ordinary one, every interleaving, breadth
// first, for both inside Work/Handlers at once; a hit is reported as a C19 violation with
// the shortest schedule.
package main

import (
	"flag"
	"fmt"
	"go/ast"
	"go/parser"
	"go/token"
	"os"
	"path/filepath"
	"sort"
	"strconv"
	"strings"

	"verifharness/internal/hx"
)

// ------------------------------------------------------------------ failures

type extractFailure struct {
	msg string
	pos token.Pos
}

var fset = token.NewFileSet()

func fail(pos token.Pos, format string, args ...any) {
	panic(extractFailure{fmt.Sprintf(format, args...), pos})
}

func where(pos token.Pos) string {
	if !pos.IsValid() {
		return "?"
	}
	p := fset.Position(pos)
	return fmt.Sprintf("%s:%d", filepath.Base(p.Filename), p.Line)
}

// ------------------------------------------------------------------ package facts

type funcKey struct{ recv, name string } // recv = receiver type name, "" for functions

type pkgInfo struct {
	funcs      map[funcKey]*ast.FuncDecl
	consts     map[string]int64
	atomicName map[*ast.File]string // local name of sync/atomic per file
	fileOf     map[*ast.FuncDecl]*ast.File
	reach      map[funcKey]bool     // touches the word / a marker, directly or through resolvable calls
	writer     map[funcKey]bool     // writes the word, directly or through resolvable calls
	writerName map[string]bool      // names of those functions
	writes     map[token.Pos]string // every atomic write of the word in the package
	loads      []token.Pos
	statusVals []int64
}

const (
	statusField   = "status"
	handlersField = "handleAfterStabilization"
	errBusyName   = "ErrAlreadyStabilizing"
)

var workCallees = map[string]bool{"recompute": true, "parallelBatch": true}

// userCodeSources: ranging over one of these calls user code outside node computations --
// update handlers, error / aborted handlers of a node, the graph's stabilization start / end
// handlers.  Each such loop is a Handlers step.
var userCodeSources = []string{handlersField, "errorHandlers", "abortedHandlers", "onStabilizationEnd", "onStabilizationStart"}

func userCodeRange(x ast.Node) bool {
	for _, name := range userCodeSources {
		if mentions(x, name) {
			return true
		}
	}
	return false
}

func recvTypeName(fd *ast.FuncDecl) (typ, name string) {
	if fd.Recv == nil || len(fd.Recv.List) == 0 {
		return "", ""
	}
	f := fd.Recv.List[0]
	t := f.Type
	if s, ok := t.(*ast.StarExpr); ok {
		t = s.X
	}
	switch x := t.(type) {
	case *ast.Ident:
		typ = x.Name
	case *ast.IndexExpr:
		if id, ok := x.X.(*ast.Ident); ok {
			typ = id.Name
		}
	case *ast.IndexListExpr:
		if id, ok := x.X.(*ast.Ident); ok {
			typ = id.Name
		}
	}
	if len(f.Names) > 0 {
		name = f.Names[0].Name
	}
	return
}

func isStatusSel(e ast.Expr) bool {
	s, ok := e.(*ast.SelectorExpr)
	return ok && s.Sel.Name == statusField
}

// statusOp recognises an atomic operation on the status word.
// kind: "load" | "store" | "cas" | "" (not one) ; args are the value operands.
func (p *pkgInfo) statusOp(file *ast.File, call *ast.CallExpr) (kind string, args []ast.Expr) {
	sel, ok := call.Fun.(*ast.SelectorExpr)
	if !ok {
		return "", nil
	}
	// atomic.XxxInt32(&g.status, ...)
	if id, ok := sel.X.(*ast.Ident); ok && id.Name == p.atomicName[file] && len(call.Args) >= 1 {
		if u, ok := call.Args[0].(*ast.UnaryExpr); ok && u.Op == token.AND && isStatusSel(u.X) {
			switch sel.Sel.Name {
			case "LoadInt32":
				return "load", nil
			case "StoreInt32":
				if len(call.Args) == 2 {
					return "store", call.Args[1:]
				}
			case "CompareAndSwapInt32":
				if len(call.Args) == 3 {
					return "cas", call.Args[1:]
				}
			}
			fail(call.Pos(), "unsupported atomic operation %s on the status word", sel.Sel.Name)
		}
	}
	// g.status.Load() / .Store(v) / .CompareAndSwap(a, b)   (atomic.Int32 field)
	if isStatusSel(sel.X) {
		switch sel.Sel.Name {
		case "Load":
			return "load", nil
		case "Store":
			if len(call.Args) == 1 {
				return "store", call.Args
			}
		case "CompareAndSwap":
			if len(call.Args) == 2 {
				return "cas", call.Args
			}
		}
		fail(call.Pos(), "unsupported operation %s on the status word", sel.Sel.Name)
	}
	return "", nil
}

func loadPackage(dir string, must []string) *pkgInfo {
	p := &pkgInfo{funcs: map[funcKey]*ast.FuncDecl{}, consts: map[string]int64{}, atomicName: map[*ast.File]string{},
		fileOf: map[*ast.FuncDecl]*ast.File{}, reach: map[funcKey]bool{}, writes: map[token.Pos]string{},
		writer: map[funcKey]bool{}, writerName: map[string]bool{}}
	names, err := filepath.Glob(filepath.Join(dir, "*.go"))
	if err != nil || len(names) == 0 {
		fail(token.NoPos, "no Go files in %s", dir)
	}
	sort.Strings(names)
	seen := map[string]bool{}
	var files []*ast.File
	for _, name := range names {
		if strings.HasSuffix(name, "_test.go") {
			continue
		}
		f, err := parser.ParseFile(fset, name, nil, parser.SkipObjectResolution)
		if err != nil {
			fail(token.NoPos, "parse %s: %v", name, err)
		}
		seen[filepath.Base(name)] = true
		files = append(files, f)
	}
	for _, m := range must {
		if !seen[m] {
			fail(token.NoPos, "expected source file %s not found in %s", m, dir)
		}
	}
	for _, f := range files {
		p.atomicName[f] = "\x00none"
		for _, im := range f.Imports {
			if path, _ := strconv.Unquote(im.Path.Value); path == "sync/atomic" {
				p.atomicName[f] = "atomic"
				if im.Name != nil {
					p.atomicName[f] = im.Name.Name
				}
			}
		}
		for _, d := range f.Decls {
			switch d := d.(type) {
			case *ast.FuncDecl:
				typ, _ := recvTypeName(d)
				p.funcs[funcKey{typ, d.Name.Name}] = d
				p.fileOf[d] = f
			case *ast.GenDecl:
				if d.Tok == token.CONST {
					p.constBlock(d)
				}
			}
		}
	}
	// every mention of the status field must be one of the atomic forms
	for _, f := range files {
		p.checkStatusMentions(f)
	}
	// reachability of the word / the markers through resolvable calls
	direct := map[funcKey]bool{}
	callees := map[funcKey][]funcKey{}
	for k, fd := range p.funcs {
		if fd.Body == nil {
			continue
		}
		file := p.fileOf[fd]
		_, recvName := recvTypeName(fd)
		ast.Inspect(fd.Body, func(n ast.Node) bool {
			switch x := n.(type) {
			case *ast.CallExpr:
				if kind, _ := p.statusOp(file, x); kind != "" {
					direct[k] = true
					if kind != "load" {
						p.writer[k] = true
					}
				}
				if isWorkCall(x) {
					direct[k] = true
				}
				if ck, ok := p.resolve(x, k.recv, recvName, nil); ok {
					callees[k] = append(callees[k], ck)
				}
			case *ast.RangeStmt:
				if userCodeRange(x.X) {
					direct[k] = true
				}
			}
			return true
		})
	}
	for k := range direct {
		p.reach[k] = true
	}
	for changed := true; changed; {
		changed = false
		for k, cs := range callees {
			for _, c := range cs {
				if p.reach[c] && !p.reach[k] {
					p.reach[k] = true
					changed = true
				}
				if p.writer[c] && !p.writer[k] {
					p.writer[k] = true
					changed = true
				}
			}
		}
	}
	for k := range p.writer {
		p.writerName[k.name] = true
	}
	vals := map[int64]bool{0: true}
	for name, v := range p.consts {
		if strings.HasPrefix(name, "Status") {
			vals[v] = true
		}
	}
	for v := range vals {
		p.statusVals = append(p.statusVals, v)
	}
	sort.Slice(p.statusVals, func(i, j int) bool { return p.statusVals[i] < p.statusVals[j] })
	return p
}

func (p *pkgInfo) constBlock(d *ast.GenDecl) {
	var lastExpr ast.Expr
	for i, spec := range d.Specs {
		vs := spec.(*ast.ValueSpec)
		for j, name := range vs.Names {
			var e ast.Expr
			if len(vs.Values) > j {
				e = vs.Values[j]
				if j == 0 {
					lastExpr = e
				}
			} else if len(vs.Values) == 0 && j == 0 {
				e = lastExpr
			}
			if v, ok := constValue(e, int64(i), p.consts); ok {
				p.consts[name.Name] = v
			}
		}
	}
}

func constValue(e ast.Expr, iota int64, consts map[string]int64) (int64, bool) {
	switch x := e.(type) {
	case *ast.BasicLit:
		if x.Kind == token.INT {
			v, err := strconv.ParseInt(x.Value, 0, 64)
			return v, err == nil
		}
	case *ast.Ident:
		if x.Name == "iota" {
			return iota, true
		}
		v, ok := consts[x.Name]
		return v, ok
	case *ast.ParenExpr:
		return constValue(x.X, iota, consts)
	case *ast.CallExpr: // int32(iota)
		if len(x.Args) == 1 {
			if id, ok := x.Fun.(*ast.Ident); ok && strings.HasPrefix(id.Name, "int") || ok && strings.HasPrefix(id.Name, "uint") {
				return constValue(x.Args[0], iota, consts)
			}
		}
	case *ast.BinaryExpr:
		a, ok1 := constValue(x.X, iota, consts)
		b, ok2 := constValue(x.Y, iota, consts)
		if ok1 && ok2 {
			switch x.Op {
			case token.ADD:
				return a + b, true
			case token.SUB:
				return a - b, true
			case token.MUL:
				return a * b, true
			case token.SHL:
				return a << uint(b), true
			}
		}
	}
	return 0, false
}

// checkStatusMentions walks a file with parent links; every selector `.status` must be the
// operand of a recognised atomic operation.
func (p *pkgInfo) checkStatusMentions(f *ast.File) {
	var stack []ast.Node
	ast.Inspect(f, func(n ast.Node) bool {
		if n == nil {
			stack = stack[:len(stack)-1]
			return true
		}
		if s, ok := n.(*ast.SelectorExpr); ok && s.Sel.Name == statusField {
			ok := false
			// find the nearest enclosing call
			for i := len(stack) - 1; i >= 0 && i >= len(stack)-3; i-- {
				if call, isCall := stack[i].(*ast.CallExpr); isCall {
					kind, _ := p.statusOp(f, call)
					if kind != "" {
						ok = true
						switch kind {
						case "load":
							p.loads = append(p.loads, call.Pos())
						default:
							p.writes[call.Pos()] = kind
						}
					}
					break
				}
			}
			if !ok {
				fail(s.Pos(), "plain (non-atomic) access to the status field: every read and write of it must go through sync/atomic Load/Store/CompareAndSwap")
			}
		}
		stack = append(stack, n)
		return true
	})
}

func mentions(e ast.Node, name string) bool {
	found := false
	ast.Inspect(e, func(n ast.Node) bool {
		switch x := n.(type) {
		case *ast.Ident:
			if x.Name == name {
				found = true
			}
		}
		return !found
	})
	return found
}

func calleeName(call *ast.CallExpr) (recv ast.Expr, name string) {
	fun := call.Fun
	switch x := fun.(type) {
	case *ast.IndexExpr:
		fun = x.X
	case *ast.IndexListExpr:
		fun = x.X
	}
	switch x := fun.(type) {
	case *ast.Ident:
		return nil, x.Name
	case *ast.SelectorExpr:
		return x.X, x.Sel.Name
	}
	return nil, ""
}

func isWorkCall(call *ast.CallExpr) bool {
	_, name := calleeName(call)
	return workCallees[name]
}

// resolve finds the declaration a call refers to: a method called on the bare receiver
// identifier of the enclosing method, or a package-level function called by name (unless a
// local of that name exists).
func (p *pkgInfo) resolve(call *ast.CallExpr, recvType, recvName string, locals map[string]val) (funcKey, bool) {
	recv, name := calleeName(call)
	if name == "" {
		return funcKey{}, false
	}
	if recv == nil {
		if _, shadow := locals[name]; shadow {
			return funcKey{}, false
		}
		k := funcKey{"", name}
		_, ok := p.funcs[k]
		return k, ok
	}
	if id, ok := recv.(*ast.Ident); ok && recvName != "" && id.Name == recvName {
		k := funcKey{recvType, name}
		_, ok := p.funcs[k]
		return k, ok
	}
	return funcKey{}, false
}

// touches: does this piece of syntax contain a status operation, a marker, or a resolvable
// call into a function that does?
func (p *pkgInfo) touches(n ast.Node, file *ast.File, recvType, recvName string) bool {
	found := false
	ast.Inspect(n, func(n ast.Node) bool {
		switch x := n.(type) {
		case *ast.CallExpr:
			if kind, _ := p.statusOp(file, x); kind != "" || isWorkCall(x) {
				found = true
			}
			if k, ok := p.resolve(x, recvType, recvName, nil); ok && p.reach[k] {
				found = true
			}
		case *ast.RangeStmt:
			if userCodeRange(x.X) {
				found = true
			}
		}
		return !found
	})
	return found
}

// ------------------------------------------------------------------ symbolic values, states

type valKind int

const (
	kUnknown valKind = iota
	kInt
	kBool
	kNil
	kErrBusy
	kErrOther
	kClosure
	kNotNil // what recover() hands back while a panic is in flight
)

type val struct {
	k    valKind
	n    int64
	lit  *ast.FuncLit
	env  int           // closure: id of the environment it was written in
	decl *ast.FuncDecl // closure: the enclosing declaration
}

var unknown = val{k: kUnknown}

func (v val) String() string {
	switch v.k {
	case kInt:
		return fmt.Sprintf("i%d", v.n)
	case kBool:
		return fmt.Sprintf("b%d", v.n)
	case kNil:
		return "nil"
	case kErrBusy:
		return "busy"
	case kErrOther:
		return "err"
	case kClosure:
		return fmt.Sprintf("fn@%d", v.lit.Pos())
	case kNotNil:
		return "notnil"
	}
	return "?"
}

func boolVal(b bool) val {
	if b {
		return val{k: kBool, n: 1}
	}
	return val{k: kBool}
}

type event struct {
	kind string // load store casok casfail work handlers
	a, b int64
	pos  token.Pos
}

func (e event) marker() bool { return e.kind == "work" || e.kind == "handlers" }

func (e event) String() string {
	switch e.kind {
	case "load":
		return fmt.Sprintf("load=%d", e.a)
	case "store":
		return fmt.Sprintf("store %d", e.a)
	case "casok", "casfail":
		return fmt.Sprintf("%s %d %d", e.kind, e.a, e.b)
	}
	return e.kind
}

type deferred struct {
	call *ast.CallExpr
	env  int
}

type ctrlKind int

const (
	ctrlNone ctrlKind = iota
	ctrlReturn
	ctrlBreak
	ctrlContinue
	ctrlPanic // a panic is unwinding through the statements of the current function
)

// maxFaults bounds how many panics are injected on one path (a panic in a node function,
// then one in a handler reached while recovering from it).
const maxFaults = 2

type activation struct {
	decl    *ast.FuncDecl // enclosing declaration (receiver name, file)
	env     int
	defers  []deferred
	named   []string // named results
	retvals []val
	// deferredCall: this activation is a function called directly by a defer statement (only
	// there does recover() stop a panic); unwinding: this activation's own statements ended in
	// a panic (or one of its deferred calls panicked) and it has not been recovered yet
	deferredCall bool
	unwinding    bool
}

type state struct {
	envs   []map[string]val
	envIDs []int // a serial number per environment, so that a closure can find the one it captured
	nextID int
	acts   []activation
	events []event
	ctrl   ctrlKind
	// panicking: a panic is in flight (deferred functions are being run because of it);
	// faults: how many panics were injected on this path; pendingDeferred: position of the
	// deferred call that is about to be entered
	panicking       bool
	faults          int
	pendingDeferred token.Pos
}

func (st *state) clone() *state {
	c := &state{ctrl: st.ctrl, nextID: st.nextID, panicking: st.panicking, faults: st.faults, pendingDeferred: st.pendingDeferred}
	c.envIDs = append([]int(nil), st.envIDs...)
	c.envs = make([]map[string]val, len(st.envs))
	for i, m := range st.envs {
		cm := make(map[string]val, len(m))
		for k, v := range m {
			cm[k] = v
		}
		c.envs[i] = cm
	}
	c.acts = make([]activation, len(st.acts))
	for i, a := range st.acts {
		a.defers = append([]deferred(nil), a.defers...)
		a.retvals = append([]val(nil), a.retvals...)
		c.acts[i] = a
	}
	c.events = append([]event(nil), st.events...)
	return c
}

func (st *state) key() string {
	var b strings.Builder
	for _, e := range st.events {
		fmt.Fprintf(&b, "%s@%d;", e, e.pos)
	}
	b.WriteString("|")
	for _, m := range st.envs {
		names := make([]string, 0, len(m))
		for k := range m {
			names = append(names, k)
		}
		sort.Strings(names)
		for _, k := range names {
			fmt.Fprintf(&b, "%s=%s,", k, m[k])
		}
		b.WriteString("/")
	}
	b.WriteString("|")
	for _, a := range st.acts {
		fmt.Fprintf(&b, "e%d:", a.env)
		for _, d := range a.defers {
			fmt.Fprintf(&b, "d%d,", d.call.Pos())
		}
		for _, r := range a.retvals {
			fmt.Fprintf(&b, "r%s,", r)
		}
		fmt.Fprintf(&b, "%v%v/", a.deferredCall, a.unwinding)
	}
	fmt.Fprintf(&b, "|%d|%v|%d", st.ctrl, st.panicking, st.faults)
	return b.String()
}

func (st *state) act() *activation    { return &st.acts[len(st.acts)-1] }
func (st *state) env() map[string]val { return st.envs[st.act().env] }

func (st *state) emit(e event) {
	if e.marker() && len(st.events) > 0 && st.events[len(st.events)-1].kind == e.kind {
		return
	}
	st.events = append(st.events, e)
}

func dedupe(states []*state) []*state {
	seen := map[string]bool{}
	var out []*state
	for _, s := range states {
		k := s.key()
		if !seen[k] {
			seen[k] = true
			out = append(out, s)
		}
	}
	return out
}

type res struct {
	st *state
	vs []val
}

func (r res) v() val {
	if len(r.vs) == 1 {
		return r.vs[0]
	}
	return unknown
}

// ------------------------------------------------------------------ the executor

type executor struct {
	p       *pkgInfo
	visited map[token.Pos]bool
	depth   int
	paths   int
}

const maxStates = 20000

func (x *executor) file(st *state) *ast.File { return x.p.fileOf[st.act().decl] }

func (x *executor) recv(st *state) (typ, name string) { return recvTypeName(st.act().decl) }

func zeroOf(t ast.Expr) val {
	if id, ok := t.(*ast.Ident); ok {
		switch {
		case id.Name == "error":
			return val{k: kNil}
		case id.Name == "bool":
			return boolVal(false)
		case strings.HasPrefix(id.Name, "int") || strings.HasPrefix(id.Name, "uint"):
			return val{k: kInt}
		}
	}
	return unknown
}

func fieldNames(fl *ast.FieldList) (names []string, types []ast.Expr) {
	if fl == nil {
		return
	}
	for _, f := range fl.List {
		if len(f.Names) == 0 {
			names = append(names, "")
			types = append(types, f.Type)
		}
		for _, n := range f.Names {
			names = append(names, n.Name)
			types = append(types, f.Type)
		}
	}
	return
}

// callBody runs a function body as a new activation. For a declaration a fresh
// environment is used; a function literal runs in the environment it was written in.
func (x *executor) callBody(st *state, decl *ast.FuncDecl, typ *ast.FuncType, body *ast.BlockStmt, args []val, useEnv int, pos token.Pos) []res {
	x.depth++
	if x.depth > 40 {
		fail(pos, "inlining too deep (recursion?)")
	}
	defer func() { x.depth-- }()
	st = st.clone()
	sameEnv := useEnv >= 0
	envIdx := useEnv
	if !sameEnv {
		st.envs = append(st.envs, map[string]val{})
		st.nextID++
		st.envIDs = append(st.envIDs, st.nextID)
		envIdx = len(st.envs) - 1
	}
	act := activation{decl: decl, env: envIdx}
	if st.pendingDeferred.IsValid() && st.pendingDeferred == pos {
		act.deferredCall = true
		st.pendingDeferred = token.NoPos
	}
	pnames, _ := fieldNames(typ.Params)
	for i, n := range pnames {
		if n == "" || n == "_" {
			continue
		}
		if i < len(args) {
			st.envs[envIdx][n] = args[i]
		} else {
			st.envs[envIdx][n] = unknown
		}
	}
	rnames, rtypes := fieldNames(typ.Results)
	nres := len(rnames)
	for i, n := range rnames {
		if n != "" && n != "_" {
			act.named = append(act.named, n)
			st.envs[envIdx][n] = zeroOf(rtypes[i])
		}
	}
	if len(act.named) != 0 && len(act.named) != nres {
		act.named = nil // mixed/blank result names: give up on tracking them
	}
	st.acts = append(st.acts, act)
	depthActs := len(st.acts)
	var out []res
	for _, s := range x.execBlock([]*state{st}, body.List) {
		if s.ctrl == ctrlBreak || s.ctrl == ctrlContinue {
			fail(body.Pos(), "break/continue escapes a function body")
		}
		if s.ctrl == ctrlPanic {
			s.panicking = true
			s.acts[depthActs-1].unwinding = true
		}
		s.ctrl = ctrlNone
		// deferred calls, last registered first -- on a normal return and during a panic alike
		states := []*state{s}
		for {
			var next []*state
			progressed := false
			for _, s2 := range states {
				a := &s2.acts[depthActs-1]
				if len(a.defers) == 0 {
					next = append(next, s2)
					continue
				}
				progressed = true
				d := a.defers[len(a.defers)-1]
				a.defers = a.defers[:len(a.defers)-1]
				s2.pendingDeferred = d.call.Pos()
				for _, r := range x.evalCall(s2, d.call) {
					r.st.pendingDeferred = token.NoPos
					if r.st.ctrl == ctrlPanic { // the deferred function itself panicked
						r.st.panicking = true
						r.st.acts[depthActs-1].unwinding = true
					}
					r.st.ctrl = ctrlNone
					next = append(next, r.st)
				}
			}
			states = dedupe(next)
			if !progressed {
				break
			}
		}
		for _, s2 := range states {
			a := s2.acts[depthActs-1]
			var vs []val
			if len(a.named) > 0 {
				for _, n := range a.named {
					vs = append(vs, s2.envs[a.env][n])
				}
			} else if len(a.retvals) > 0 {
				vs = a.retvals
			} else {
				for i := 0; i < nres; i++ {
					vs = append(vs, unknown)
				}
			}
			if a.unwinding && s2.panicking {
				s2.ctrl = ctrlPanic // not recovered: the panic goes on into the caller
			}
			s2.acts = s2.acts[:depthActs-1]
			if !sameEnv {
				s2.envs = s2.envs[:envIdx]
				s2.envIDs = s2.envIDs[:envIdx]
			}
			out = append(out, res{s2, vs})
		}
	}
	return out
}

func (x *executor) execBlock(states []*state, stmts []ast.Stmt) []*state {
	for _, stmt := range stmts {
		var next []*state
		for _, s := range states {
			if s.ctrl != ctrlNone {
				next = append(next, s)
				continue
			}
			next = append(next, x.execStmt(s, stmt)...)
		}
		states = dedupe(next)
		if len(states) > maxStates {
			fail(stmt.Pos(), "too many paths (%d)", len(states))
		}
	}
	return states
}

func states(rs []res) []*state {
	out := make([]*state, len(rs))
	for i, r := range rs {
		out[i] = r.st
	}
	return out
}

func (x *executor) assign(st *state, lhs ast.Expr, v val, define bool) {
	if id, ok := lhs.(*ast.Ident); ok {
		if id.Name != "_" {
			st.env()[id.Name] = v
		}
		return
	}
	// other targets (fields, index expressions): nothing is tracked, but the target must
	// not be the status word (checked package-wide) -- nothing to do.
}

func (x *executor) execStmt(st *state, stmt ast.Stmt) []*state {
	if st.ctrl != ctrlNone {
		return []*state{st}
	}
	switch s := stmt.(type) {
	case nil, *ast.EmptyStmt:
		return []*state{st}
	case *ast.ExprStmt:
		return states(x.evalExpr(st, s.X))
	case *ast.BlockStmt:
		return x.execBlock([]*state{st}, s.List)
	case *ast.LabeledStmt:
		fail(s.Pos(), "labeled statement in an inlined function is not supported")
	case *ast.IncDecStmt:
		x.assign(st, s.X, unknown, false)
		return []*state{st}
	case *ast.SendStmt:
		return states(x.evalExprs(st, []ast.Expr{s.Chan, s.Value}))
	case *ast.DeclStmt:
		gd, ok := s.Decl.(*ast.GenDecl)
		if !ok || gd.Tok != token.VAR {
			return []*state{st}
		}
		cur := []*state{st}
		for _, spec := range gd.Specs {
			vs := spec.(*ast.ValueSpec)
			var next []*state
			for _, c := range cur {
				if len(vs.Values) == 0 {
					for _, n := range vs.Names {
						x.assign(c, n, zeroOf(vs.Type), true)
					}
					next = append(next, c)
					continue
				}
				for _, r := range x.evalExprs(c, vs.Values) {
					if r.st.ctrl == ctrlPanic {
						next = append(next, r.st)
						continue
					}
					for i, n := range vs.Names {
						v := unknown
						if len(r.vs) == len(vs.Names) {
							v = r.vs[i]
						}
						x.assign(r.st, n, v, true)
					}
					next = append(next, r.st)
				}
			}
			cur = next
		}
		return cur
	case *ast.AssignStmt:
		var out []*state
		for _, r := range x.evalExprs(st, s.Rhs) {
			if r.st.ctrl == ctrlPanic { // the assignment does not happen
				out = append(out, r.st)
				continue
			}
			for i, l := range s.Lhs {
				v := unknown
				if s.Tok == token.ASSIGN || s.Tok == token.DEFINE {
					if len(r.vs) == len(s.Lhs) {
						v = r.vs[i]
					}
				}
				x.assign(r.st, l, v, s.Tok == token.DEFINE)
			}
			out = append(out, r.st)
		}
		return out
	case *ast.GoStmt:
		typ, name := x.recv(st)
		if x.p.touches(s.Call, x.file(st), typ, name) {
			fail(s.Pos(), "a goroutine started here touches the status word or runs node functions/handlers: not understood")
		}
		return []*state{st}
	case *ast.DeferStmt:
		// arguments are evaluated now; only their events matter
		cur := []*state{st}
		if _, isLit := s.Call.Fun.(*ast.FuncLit); !isLit {
			args := s.Call.Args
			if kind, rest := x.p.statusOp(x.file(st), s.Call); kind != "" {
				// defer atomic.StoreInt32(&g.status, v): the address of the word is not an access;
				// only the remaining operands are evaluated now, the operation itself runs at exit
				args = rest
			}
			cur = states(x.evalExprs(st, args))
		}
		for _, c := range cur {
			if c.ctrl == ctrlPanic {
				continue
			}
			a := c.act()
			a.defers = append(a.defers, deferred{s.Call, a.env})
		}
		return cur
	case *ast.ReturnStmt:
		var out []*state
		for _, r := range x.evalExprs(st, s.Results) {
			if r.st.ctrl == ctrlPanic {
				out = append(out, r.st)
				continue
			}
			a := r.st.act()
			if len(s.Results) > 0 {
				a.retvals = r.vs
				if len(a.named) == len(r.vs) {
					for i, n := range a.named {
						r.st.envs[a.env][n] = r.vs[i]
					}
				}
			}
			r.st.ctrl = ctrlReturn
			out = append(out, r.st)
		}
		return out
	case *ast.BranchStmt:
		switch s.Tok {
		case token.BREAK:
			st.ctrl = ctrlBreak
		case token.CONTINUE:
			st.ctrl = ctrlContinue
		default:
			fail(s.Pos(), "%s in an inlined function is not supported", s.Tok)
		}
		if s.Label != nil {
			fail(s.Pos(), "labeled %s in an inlined function is not supported", s.Tok)
		}
		return []*state{st}
	case *ast.IfStmt:
		var out []*state
		for _, s0 := range x.execStmt(st, s.Init) {
			if s0.ctrl != ctrlNone {
				out = append(out, s0)
				continue
			}
			for _, r := range x.evalExpr(s0, s.Cond) {
				if r.st.ctrl == ctrlPanic {
					out = append(out, r.st)
					continue
				}
				c := r.v()
				takeThen := c.k != kBool || c.n != 0
				takeElse := c.k != kBool || c.n == 0
				var sThen, sElse *state
				switch {
				case takeThen && takeElse:
					sThen, sElse = r.st, r.st.clone()
				case takeThen:
					sThen = r.st
				default:
					sElse = r.st
				}
				if sThen != nil {
					out = append(out, x.execBlock([]*state{sThen}, s.Body.List)...)
				}
				if sElse != nil {
					if s.Else != nil {
						out = append(out, x.execStmt(sElse, s.Else)...)
					} else {
						out = append(out, sElse)
					}
				}
			}
		}
		return out
	case *ast.ForStmt:
		var out []*state
		for _, s0 := range x.execStmt(st, s.Init) {
			out = append(out, x.loop(s0, s, s.Cond, s.Post, s.Body, false)...)
		}
		return out
	case *ast.RangeStmt:
		var out []*state
		for _, r := range x.evalExpr(st, s.X) {
			if r.st.ctrl == ctrlPanic {
				out = append(out, r.st)
				continue
			}
			if userCodeRange(s.X) {
				r.st.emit(event{kind: "handlers", pos: s.Pos()})
				if p := x.panicHere(r.st); p != nil { // the user code called by this loop panics
					out = append(out, p)
				}
			}
			out = append(out, x.loop(r.st, s, nil, nil, s.Body, true)...)
		}
		return out
	case *ast.SwitchStmt:
		var out []*state
		for _, s0 := range x.execStmt(st, s.Init) {
			var tagged []res
			if s.Tag != nil {
				tagged = x.evalExpr(s0, s.Tag)
			} else {
				tagged = []res{{s0, nil}}
			}
			for _, r := range tagged {
				out = append(out, x.clauses(r.st, s.Body, s.Pos())...)
			}
		}
		return out
	case *ast.TypeSwitchStmt:
		var out []*state
		for _, s0 := range x.execStmt(st, s.Init) {
			for _, s1 := range x.execStmt(s0, s.Assign) {
				out = append(out, x.clauses(s1, s.Body, s.Pos())...)
			}
		}
		return out
	case *ast.SelectStmt:
		return x.clauses(st, s.Body, s.Pos())
	}
	fail(stmt.Pos(), "statement %T in an inlined function is not supported", stmt)
	return nil
}

// clauses: every clause of a switch/select may be the one taken (and none, without a default).
func (x *executor) clauses(st *state, body *ast.BlockStmt, pos token.Pos) []*state {
	var out []*state
	hasDefault := false
	for _, c := range body.List {
		s := st.clone()
		var list []ast.Stmt
		var pre []*state
		switch cc := c.(type) {
		case *ast.CaseClause:
			if cc.List == nil {
				hasDefault = true
			}
			pre = states(x.evalExprs(s, cc.List))
			list = cc.Body
		case *ast.CommClause:
			if cc.Comm == nil {
				hasDefault = true
			}
			pre = x.execStmt(s, cc.Comm)
			list = cc.Body
		}
		for _, q := range x.execBlock(pre, list) {
			if q.ctrl == ctrlBreak {
				q.ctrl = ctrlNone
			}
			out = append(out, q)
		}
	}
	if !hasDefault {
		out = append(out, st)
	}
	return out
}

// loop summarises a loop by one symbolic iteration from a state in which every variable
// the loop assigns is unknown.  The iteration may only add Work/Handlers markers.
func (x *executor) loop(st *state, node ast.Node, cond ast.Expr, post ast.Stmt, body *ast.BlockStmt, isRange bool) []*state {
	if st.ctrl != ctrlNone {
		return []*state{st}
	}
	havoc := func(s *state) {
		ast.Inspect(node, func(n ast.Node) bool {
			switch a := n.(type) {
			case *ast.AssignStmt:
				for _, l := range a.Lhs {
					x.assign(s, l, unknown, false)
				}
			case *ast.IncDecStmt:
				x.assign(s, a.X, unknown, false)
			case *ast.RangeStmt:
				if a.Key != nil {
					x.assign(s, a.Key, unknown, false)
				}
				if a.Value != nil {
					x.assign(s, a.Value, unknown, false)
				}
			case *ast.FuncLit:
				return false
			}
			return true
		})
	}
	havoc(st)
	n0 := len(st.events)
	cur := []*state{st}
	if cond != nil {
		cur = states(x.evalExpr(st, cond))
	}
	cur = x.execBlock(cur, body.List)
	if post != nil {
		var next []*state
		for _, s := range cur {
			if s.ctrl == ctrlContinue {
				s.ctrl = ctrlNone
			}
			if s.ctrl == ctrlNone {
				next = append(next, x.execStmt(s, post)...)
			} else {
				next = append(next, s)
			}
		}
		cur = next
	}
	var out []*state
	for _, s := range cur {
		for _, e := range s.events[n0:] {
			if !e.marker() {
				fail(e.pos, "operation on the status word inside a loop (%s): not understood", e)
			}
		}
		if s.ctrl == ctrlBreak || s.ctrl == ctrlContinue {
			s.ctrl = ctrlNone
		}
		if s.ctrl == ctrlNone {
			havoc(s)
		}
		out = append(out, s)
	}
	return dedupe(out)
}

// panicHere returns the state in which the user code just entered (a node function, a
// handler) panics, or nil when no further panic is injected on this path.
func (x *executor) panicHere(st *state) *state {
	if st.faults >= maxFaults || st.panicking {
		return nil
	}
	p := st.clone()
	p.faults++
	p.ctrl = ctrlPanic
	return p
}

func (x *executor) evalExprs(st *state, es []ast.Expr) []res {
	cur := []res{{st, nil}}
	for _, e := range es {
		var next []res
		for _, c := range cur {
			for _, r := range x.evalExpr(c.st, e) {
				vs := append(append([]val(nil), c.vs...), r.vs...)
				if len(es) > 1 && len(r.vs) != 1 {
					vs = append(append([]val(nil), c.vs...), unknown)
				}
				next = append(next, res{r.st, vs})
			}
		}
		cur = next
	}
	return cur
}

func one(st *state, v val) []res { return []res{{st, []val{v}}} }

func (x *executor) evalExpr(st *state, e ast.Expr) []res {
	if st.ctrl == ctrlPanic { // nothing more is evaluated once a panic is on its way
		return one(st, unknown)
	}
	switch t := e.(type) {
	case nil:
		return one(st, unknown)
	case *ast.BasicLit:
		if t.Kind == token.INT {
			if n, err := strconv.ParseInt(t.Value, 0, 64); err == nil {
				return one(st, val{k: kInt, n: n})
			}
		}
		return one(st, unknown)
	case *ast.Ident:
		switch t.Name {
		case "true":
			return one(st, boolVal(true))
		case "false":
			return one(st, boolVal(false))
		case "nil":
			return one(st, val{k: kNil})
		case errBusyName:
			return one(st, val{k: kErrBusy})
		}
		if v, ok := st.env()[t.Name]; ok {
			return one(st, v)
		}
		if k := (funcKey{"", t.Name}); x.p.writer[k] {
			fail(t.Pos(), "%s, which writes the status word, is used as a function value: not understood", t.Name)
		}
		if n, ok := x.p.consts[t.Name]; ok {
			return one(st, val{k: kInt, n: n})
		}
		return one(st, unknown)
	case *ast.ParenExpr:
		return x.evalExpr(st, t.X)
	case *ast.FuncLit:
		return one(st, val{k: kClosure, lit: t, env: st.envIDs[st.act().env], decl: st.act().decl})
	case *ast.SelectorExpr:
		if t.Sel.Name == statusField {
			fail(t.Pos(), "plain (non-atomic) access to the status field")
		}
		if x.p.writerName[t.Sel.Name] {
			if _, isPkg := t.X.(*ast.Ident); isPkg {
				fail(t.Pos(), "method value %s of a function that writes the status word: not understood", t.Sel.Name)
			}
		}
		var out []res
		for _, r := range x.evalExpr(st, t.X) {
			out = append(out, res{r.st, []val{unknown}})
		}
		return out
	case *ast.StarExpr:
		return x.unknownOf(st, t.X)
	case *ast.TypeAssertExpr:
		return x.unknownOf(st, t.X)
	case *ast.IndexExpr:
		return x.unknownOf(st, t.X, t.Index)
	case *ast.IndexListExpr:
		return x.unknownOf(st, t.X)
	case *ast.SliceExpr:
		return x.unknownOf(st, t.X, t.Low, t.High, t.Max)
	case *ast.KeyValueExpr:
		return x.unknownOf(st, t.Value)
	case *ast.CompositeLit:
		return x.unknownOf(st, t.Elts...)
	case *ast.UnaryExpr:
		var out []res
		for _, r := range x.evalExpr(st, t.X) {
			v := unknown
			if t.Op == token.NOT && r.v().k == kBool {
				v = boolVal(r.v().n == 0)
			}
			if t.Op == token.SUB && r.v().k == kInt {
				v = val{k: kInt, n: -r.v().n}
			}
			out = append(out, res{r.st, []val{v}})
		}
		return out
	case *ast.BinaryExpr:
		var out []res
		for _, l := range x.evalExpr(st, t.X) {
			lv := l.v()
			if lv.k == kBool && (t.Op == token.LAND && lv.n == 0 || t.Op == token.LOR && lv.n != 0) {
				out = append(out, res{l.st, []val{lv}}) // short circuit
				continue
			}
			for _, r := range x.evalExpr(l.st, t.Y) {
				out = append(out, res{r.st, []val{binop(t.Op, lv, r.v())}})
			}
		}
		return out
	case *ast.CallExpr:
		return x.evalCall(st, t)
	case *ast.ArrayType, *ast.MapType, *ast.ChanType, *ast.FuncType, *ast.StructType, *ast.InterfaceType, *ast.Ellipsis:
		return one(st, unknown)
	}
	fail(e.Pos(), "expression %T in an inlined function is not supported", e)
	return nil
}

func (x *executor) unknownOf(st *state, es ...ast.Expr) []res {
	var list []ast.Expr
	for _, e := range es {
		if e != nil {
			list = append(list, e)
		}
	}
	var out []res
	for _, r := range x.evalExprs(st, list) {
		out = append(out, res{r.st, []val{unknown}})
	}
	return out
}

func isErr(v val) bool { return v.k == kErrBusy || v.k == kErrOther || v.k == kNotNil }

func binop(op token.Token, a, b val) val {
	switch op {
	case token.EQL, token.NEQ:
		eq, known := false, false
		switch {
		case a.k == kInt && b.k == kInt:
			eq, known = a.n == b.n, true
		case a.k == kBool && b.k == kBool:
			eq, known = a.n == b.n, true
		case a.k == kNil && b.k == kNil:
			eq, known = true, true
		case isErr(a) && b.k == kNil, a.k == kNil && isErr(b):
			eq, known = false, true
		case a.k == kErrBusy && b.k == kErrBusy:
			eq, known = true, true
		}
		if !known {
			return unknown
		}
		if op == token.NEQ {
			eq = !eq
		}
		return boolVal(eq)
	case token.LAND:
		if a.k == kBool && b.k == kBool {
			return boolVal(a.n != 0 && b.n != 0)
		}
		if b.k == kBool && b.n == 0 {
			return boolVal(false)
		}
	case token.LOR:
		if a.k == kBool && b.k == kBool {
			return boolVal(a.n != 0 || b.n != 0)
		}
		if b.k == kBool && b.n != 0 {
			return boolVal(true)
		}
	case token.LSS, token.GTR, token.LEQ, token.GEQ:
		if a.k == kInt && b.k == kInt {
			switch op {
			case token.LSS:
				return boolVal(a.n < b.n)
			case token.GTR:
				return boolVal(a.n > b.n)
			case token.LEQ:
				return boolVal(a.n <= b.n)
			default:
				return boolVal(a.n >= b.n)
			}
		}
	case token.ADD:
		if a.k == kInt && b.k == kInt {
			return val{k: kInt, n: a.n + b.n}
		}
	case token.SUB:
		if a.k == kInt && b.k == kInt {
			return val{k: kInt, n: a.n - b.n}
		}
	}
	return unknown
}

func (x *executor) intArg(r res, i int, e ast.Expr) int64 {
	if i >= len(r.vs) || r.vs[i].k != kInt {
		fail(e.Pos(), "the value written to the status word is not a constant the extractor can evaluate")
	}
	return r.vs[i].n
}

func (x *executor) evalCall(st *state, call *ast.CallExpr) []res {
	if st.ctrl == ctrlPanic {
		return one(st, unknown)
	}
	file := x.file(st)
	// 0. recover(): stops the panic in flight when called directly by a deferred function
	if id, ok := call.Fun.(*ast.Ident); ok && id.Name == "recover" && len(call.Args) == 0 {
		if _, shadowed := st.env()["recover"]; !shadowed {
			if st.panicking && st.act().deferredCall {
				st.panicking = false
				return one(st, val{k: kNotNil})
			}
			return one(st, val{k: kNil})
		}
	}
	// 1. an atomic operation on the word
	if kind, args := x.p.statusOp(file, call); kind != "" {
		x.visited[call.Pos()] = true
		var out []res
		switch kind {
		case "load":
			for _, v := range x.p.statusVals {
				s := st.clone()
				s.emit(event{kind: "load", a: v, pos: call.Pos()})
				out = append(out, res{s, []val{{k: kInt, n: v}}})
			}
		case "store":
			for _, r := range x.evalExprs(st, args) {
				if r.st.ctrl == ctrlPanic {
					out = append(out, r)
					continue
				}
				r.st.emit(event{kind: "store", a: x.intArg(r, 0, args[0]), pos: call.Pos()})
				out = append(out, res{r.st, nil})
			}
		case "cas":
			for _, r := range x.evalExprs(st, args) {
				if r.st.ctrl == ctrlPanic {
					out = append(out, r)
					continue
				}
				a, b := x.intArg(r, 0, args[0]), x.intArg(r, 1, args[1])
				ok, ko := r.st, r.st.clone()
				ok.emit(event{kind: "casok", a: a, b: b, pos: call.Pos()})
				ko.emit(event{kind: "casfail", a: a, b: b, pos: call.Pos()})
				out = append(out, res{ok, []val{boolVal(true)}}, res{ko, []val{boolVal(false)}})
			}
		}
		return out
	}
	// 2. a marker
	if isWorkCall(call) {
		var out []res
		for _, r := range x.evalArgs(st, call) {
			if r.st.ctrl == ctrlPanic {
				out = append(out, r)
				continue
			}
			r.st.emit(event{kind: "work", pos: call.Pos()})
			if p := x.panicHere(r.st); p != nil { // a node function panics
				out = append(out, res{p, []val{unknown}})
			}
			out = append(out, res{r.st, []val{unknown}})
		}
		return out
	}
	// 3. a function literal called on the spot (defer func(){...}())
	if lit, ok := call.Fun.(*ast.FuncLit); ok {
		var out []res
		for _, r := range x.evalExprs(st, call.Args) {
			if r.st.ctrl == ctrlPanic {
				out = append(out, r)
				continue
			}
			out = append(out, x.callBody(r.st, r.st.act().decl, lit.Type, lit.Body, r.vs, r.st.act().env, call.Pos())...)
		}
		return out
	}
	// 4. a resolvable call
	typ, name := x.recv(st)
	if k, ok := x.p.resolve(call, typ, name, st.env()); ok {
		fd := x.p.funcs[k]
		if x.p.reach[k] && fd.Body != nil {
			var out []res
			for _, r := range x.evalExprs(st, call.Args) {
				if r.st.ctrl == ctrlPanic {
					out = append(out, r)
					continue
				}
				args := r.vs
				if len(call.Args) == 1 && len(args) != 1 {
					args = nil
				}
				out = append(out, x.callBody(r.st, fd, fd.Type, fd.Body, args, -1, call.Pos())...)
			}
			return out
		}
		nres := 0
		if fd.Type.Results != nil {
			names, _ := fieldNames(fd.Type.Results)
			nres = len(names)
		}
		return x.opaque(st, call, nres)
	}
	// 5. a local that, on this path, holds a function literal written in a function we are
	//    inside of: its body is visible, so it is run like any other call, in the
	//    environment it captured.  (The binding is the one in force at this point of the
	//    path: a variable reassigned in a loop is unknown after the loop's havoc.)
	if id, ok := call.Fun.(*ast.Ident); ok {
		if v, ok := st.env()[id.Name]; ok && v.k == kClosure {
			envIdx := -1
			for i, eid := range st.envIDs {
				if eid == v.env {
					envIdx = i
				}
			}
			if envIdx >= 0 {
				var out []res
				for _, r := range x.evalExprs(st, call.Args) {
					if r.st.ctrl == ctrlPanic {
						out = append(out, r)
						continue
					}
					args := r.vs
					if len(call.Args) == 1 && len(args) != 1 {
						args = nil
					}
					out = append(out, x.callBody(r.st, v.decl, v.lit.Type, v.lit.Body, args, envIdx, call.Pos())...)
				}
				return out
			}
			dt, dn := recvTypeName(v.decl)
			if x.p.touches(v.lit.Body, x.p.fileOf[v.decl], dt, dn) {
				fail(call.Pos(), "call of a function literal that outlived the function it was written in and touches the status word or runs node functions: not understood")
			}
		}
	}
	// 6. anything else -- a parameter, a field, an interface method, a method of something
	//    other than the receiver.  The target is unknown.  It cannot WRITE the word: every
	//    atomic write of the word in the package, inside function literals too, must be
	//    reached by this very execution of the two entry points (checked in main), plain
	//    writes are rejected package-wide, and the protocol functions are not handed out
	//    as values (checked in evalExpr).  What is left is a call, by name, of one of the
	//    functions that write the word on a receiver we cannot identify: refuse.
	if recv, callee := calleeName(call); recv != nil && x.p.writerName[callee] {
		fail(call.Pos(), "call of %s -- a function that writes the status word -- on a receiver the extractor cannot identify with the graph", callee)
	}
	return x.opaque(st, call, 1)
}

func (x *executor) evalArgs(st *state, call *ast.CallExpr) []res {
	var es []ast.Expr
	if sel, ok := call.Fun.(*ast.SelectorExpr); ok {
		es = append(es, sel.X)
	}
	es = append(es, call.Args...)
	return x.evalExprs(st, es)
}

// opaque: a call whose body is not followed (it cannot reach the word, by the package-wide
// reachability computed in loadPackage); function literals among its arguments must not
// touch the word either.
func (x *executor) opaque(st *state, call *ast.CallExpr, nres int) []res {
	typ, name := x.recv(st)
	for _, a := range call.Args {
		if lit, ok := a.(*ast.FuncLit); ok && x.p.touches(lit.Body, x.file(st), typ, name) {
			fail(a.Pos(), "a function literal that touches the status word is passed as an argument: not understood")
		}
		if id, ok := a.(*ast.Ident); ok {
			if v, ok := st.env()[id.Name]; ok && v.k == kClosure {
				dt, dn := recvTypeName(v.decl)
				if x.p.touches(v.lit.Body, x.p.fileOf[v.decl], dt, dn) {
					fail(a.Pos(), "a function literal that touches the status word or runs node functions is passed to a function the extractor does not follow: not understood")
				}
			}
		}
	}
	var out []res
	for _, r := range x.evalArgs(st, call) {
		vs := make([]val, nres)
		for i := range vs {
			vs[i] = unknown
		}
		out = append(out, res{r.st, vs})
	}
	return out
}

// ------------------------------------------------------------------ from paths to one program

type path struct {
	events  []event
	ret     val
	faults  int  // panics injected on the way
	escaped bool // the call ends with the panic still in flight
}

type action struct {
	Kind string `json:"kind"` // Load ExitIfBusy Store Cas Work Handlers
	A    int64  `json:"a,omitempty"`
	B    int64  `json:"b,omitempty"`
	At   string `json:"at,omitempty"`
}

func (a action) coq() string {
	switch a.Kind {
	case "Store":
		return fmt.Sprintf("Store %s", hx.Z(a.A))
	case "Cas":
		return fmt.Sprintf("Cas %s %s", hx.Z(a.A), hx.Z(a.B))
	}
	return a.Kind
}

func (a action) String() string { return a.coq() }

func statusEvents(p path) []event {
	var out []event
	for _, e := range p.events {
		if !e.marker() {
			out = append(out, e)
		}
	}
	return out
}

// segment i = the markers between status event i-1 and status event i
func markersBefore(p path, i int) []event {
	var out []event
	n := 0
	for _, e := range p.events {
		if e.marker() {
			if n == i {
				out = append(out, e)
			}
			continue
		}
		n++
	}
	return out
}

func markerNames(es []event) string {
	names := make([]string, len(es))
	for i, e := range es {
		names[i] = e.kind
	}
	return strings.Join(names, ",")
}

func isSubsequence(a, b []event) bool {
	i := 0
	for _, e := range b {
		if i < len(a) && a[i].kind == e.kind {
			i++
		}
	}
	return i == len(a)
}

func pathString(p path) string {
	parts := make([]string, len(p.events))
	for i, e := range p.events {
		parts[i] = e.String()
	}
	return "[" + strings.Join(parts, "; ") + "] -> " + p.ret.String()
}

// fold turns the set of status-touching paths of one entry point into one program.
func fold(fn string, paths []path, exitLoads map[token.Pos]bool) []action {
	var prog []action
	group := paths
	i := 0
	emitMarkers := func(group []path, i int) {
		var best []event
		for _, p := range group {
			if m := markersBefore(p, i); len(m) > len(best) {
				best = m
			}
		}
		for _, p := range group {
			if m := markersBefore(p, i); !isSubsequence(m, best) {
				fail(token.NoPos, "%s: paths disagree on where node functions/handlers run (%s vs %s)", fn, markerNames(m), markerNames(best))
			}
		}
		for _, e := range best {
			kind := "Work"
			if e.kind == "handlers" {
				kind = "Handlers"
			}
			prog = append(prog, action{Kind: kind, At: where(e.pos)})
		}
	}
	endsHere := func(p path, i int) bool { // nothing at all after status event i-1
		return len(statusEvents(p)) == i && len(markersBefore(p, i)) == 0
	}
	for {
		emitMarkers(group, i)
		// are we at the end?
		ended, going := 0, 0
		for _, p := range group {
			if len(statusEvents(p)) == i {
				ended++
			} else {
				going++
			}
		}
		if going == 0 {
			return prog
		}
		if ended > 0 {
			for _, p := range group {
				if len(statusEvents(p)) == i {
					fail(token.NoPos, "%s: a path stops after %d operation(s) on the status word while others go on -- e.g. %s", fn, i, pathString(p))
				}
			}
		}
		first := statusEvents(group[0])[i]
		for _, p := range group {
			e := statusEvents(p)[i]
			same := e.pos == first.pos && (e.kind == first.kind || strings.HasPrefix(e.kind, "cas") && strings.HasPrefix(first.kind, "cas"))
			if !same {
				fail(e.pos, "%s: paths disagree on operation %d on the status word: %s at %s vs %s at %s", fn, i+1, e, where(e.pos), first, where(first.pos))
			}
		}
		switch {
		case first.kind == "store":
			for _, p := range group {
				if statusEvents(p)[i].a != first.a {
					fail(first.pos, "%s: the same store writes different values on different paths", fn)
				}
			}
			prog = append(prog, action{Kind: "Store", A: first.a, At: where(first.pos)})
		case first.kind == "load":
			byVal := map[int64][]path{}
			for _, p := range group {
				v := statusEvents(p)[i].a
				byVal[v] = append(byVal[v], p)
			}
			zero := byVal[0]
			if len(zero) == 0 {
				fail(first.pos, "%s: no path for a loaded status of 0", fn)
			}
			// does the value matter?
			sig := func(ps []path) string {
				var ss []string
				for _, p := range ps {
					var parts []string
					n := 0
					for _, e := range p.events {
						if !e.marker() {
							n++
						}
						if n > i+1 || (n == i+1 && e.marker()) {
							parts = append(parts, e.String())
						}
					}
					ss = append(ss, strings.Join(parts, ";")+"->"+p.ret.String())
				}
				sort.Strings(ss)
				return strings.Join(ss, "|")
			}
			indifferent := true
			for _, ps := range byVal {
				if sig(ps) != sig(zero) {
					indifferent = false
				}
			}
			prog = append(prog, action{Kind: "Load", At: where(first.pos)})
			if !indifferent {
				for v, ps := range byVal {
					if v == 0 {
						continue
					}
					for _, p := range ps {
						if !endsHere(p, i+1) {
							fail(first.pos, "%s: after loading status %d the call goes on (%s); only `if loaded != 0 { return ErrAlreadyStabilizing }` is understood", fn, v, pathString(p))
						}
						if p.ret.k != kErrBusy {
							fail(first.pos, "%s: after loading status %d the call returns %s, not ErrAlreadyStabilizing", fn, v, p.ret)
						}
					}
				}
				for _, p := range zero {
					if endsHere(p, i+1) && p.ret.k == kErrBusy {
						fail(first.pos, "%s: the call gives up although the loaded status is 0", fn)
					}
				}
				prog = append(prog, action{Kind: "ExitIfBusy", At: where(first.pos)})
				exitLoads[first.pos] = true
			}
			group = zero
		default: // cas
			var ok, ko []path
			for _, p := range group {
				e := statusEvents(p)[i]
				if e.a != first.a || e.b != first.b {
					fail(first.pos, "%s: the same compare-and-swap has different operands on different paths", fn)
				}
				if e.kind == "casok" {
					ok = append(ok, p)
				} else {
					ko = append(ko, p)
				}
			}
			if len(ok) == 0 || len(ko) == 0 {
				fail(first.pos, "%s: compare-and-swap without both outcomes", fn)
			}
			for _, p := range ko {
				if !endsHere(p, i+1) {
					fail(first.pos, "%s: after a FAILED compare-and-swap the call goes on (%s); its result must be checked and the call must return at once", fn, pathString(p))
				}
				if p.ret.k != kErrBusy {
					fail(first.pos, "%s: after a failed compare-and-swap the call returns %s, not ErrAlreadyStabilizing", fn, p.ret)
				}
			}
			prog = append(prog, action{Kind: "Cas", A: first.a, B: first.b, At: where(first.pos)})
			group = ok
		}
		i++
	}
}

// ------------------------------------------------------------------ an independent check

// overlapSchedule explores every interleaving of two calls, the first following path pa
// and the second path pb, each thread running its path again and again (breadth first over
// the finite state space), and returns the shortest schedule after which both are at a
// Work/Handlers action, or nil.  It is independent of the Coq development.
func overlapSchedule(pa, pb []action) []int {
	type tstate struct {
		pc  int
		loc int64
	}
	type sys struct {
		status int64
		ts     [2]tstate
	}
	if len(pa) == 0 || len(pb) == 0 {
		return nil
	}
	progs := [2][]action{pa, pb}
	atWork := func(i int, t tstate) bool { k := progs[i][t.pc].Kind; return k == "Work" || k == "Handlers" }
	step := func(s sys, i int) sys {
		prog := progs[i]
		t := s.ts[i]
		adv := func() {
			t.pc++
			if t.pc == len(prog) {
				t = tstate{}
			}
		}
		switch a := prog[t.pc]; a.Kind {
		case "Load":
			t.loc = s.status
			adv()
		case "ExitIfBusy":
			if t.loc != 0 {
				t = tstate{}
			} else {
				adv()
			}
		case "Store":
			s.status = a.A
			adv()
		case "Cas":
			if s.status == a.A {
				s.status = a.B
				adv()
			} else {
				t = tstate{}
			}
		default:
			adv()
		}
		s.ts[i] = t
		return s
	}
	type link struct {
		prev sys
		by   int
	}
	start := sys{}
	from := map[sys]link{start: {start, -1}}
	queue := []sys{start}
	for len(queue) > 0 {
		s := queue[0]
		queue = queue[1:]
		if atWork(0, s.ts[0]) && atWork(1, s.ts[1]) {
			var sched []int
			for cur := s; from[cur].by >= 0; cur = from[cur].prev {
				sched = append([]int{from[cur].by}, sched...)
			}
			return sched
		}
		for i := 0; i < 2; i++ {
			nx := step(s, i)
			if _, seen := from[nx]; !seen {
				from[nx] = link{s, i}
				queue = append(queue, nx)
			}
		}
	}
	return nil
}

// ------------------------------------------------------------------ main

// faultPath is one path of a call on which a node function or a handler panicked, as a
// straight-line program of its own.
type faultPath struct {
	Func    string   `json:"func"`
	Program []action `json:"program"`
	Text    string   `json:"text"`
	Faults  int      `json:"panics"`
	Escaped bool     `json:"panic_escapes_the_call"`
	Stalls  bool     `json:"never_releases"` // ends with the word still claimed; a final Store 0 is added (a thread that stalls)
}

type extraction struct {
	prog   []action
	faults []faultPath
	paths  int
	kept   int
	notes  []string
}

// pathProgram turns one path into a program: a load is followed by ExitIfBusy where the
// folded ordinary program has one at that load.
func pathProgram(pth path, exitLoads map[token.Pos]bool) (prog []action, lastWrite int64, wrote bool) {
	for _, e := range pth.events {
		switch e.kind {
		case "load":
			prog = append(prog, action{Kind: "Load", At: where(e.pos)})
			if exitLoads[e.pos] {
				prog = append(prog, action{Kind: "ExitIfBusy", At: where(e.pos)})
			}
		case "casok":
			prog = append(prog, action{Kind: "Cas", A: e.a, B: e.b, At: where(e.pos)})
			lastWrite, wrote = e.b, true
		case "store":
			prog = append(prog, action{Kind: "Store", A: e.a, At: where(e.pos)})
			lastWrite, wrote = e.a, true
		case "work":
			prog = append(prog, action{Kind: "Work", At: where(e.pos)})
		case "handlers":
			prog = append(prog, action{Kind: "Handlers", At: where(e.pos)})
		}
	}
	return
}

func sameStatusOps(a, b []action) bool {
	strip := func(p []action) string {
		var parts []string
		for _, x := range p {
			if x.Kind != "Work" && x.Kind != "Handlers" {
				parts = append(parts, x.coq())
			}
		}
		return strings.Join(parts, ";")
	}
	return strip(a) == strip(b)
}

func markerSubsequence(a, b []action) bool { // a's actions appear in b in order
	i := 0
	for _, x := range b {
		if i < len(a) && a[i].coq() == x.coq() {
			i++
		}
	}
	return i == len(a)
}

func extract(p *pkgInfo, x *executor, recvType, fn string) extraction {
	fd := p.funcs[funcKey{recvType, fn}]
	if fd == nil || fd.Body == nil {
		fail(token.NoPos, "method %s.%s not found", recvType, fn)
	}
	st := &state{envs: []map[string]val{{}}, envIDs: []int{0}, acts: []activation{{decl: fd, env: 0}}}
	// run the body as a call so that deferred calls and named results are handled
	var args []val
	names, _ := fieldNames(fd.Type.Params)
	for range names {
		args = append(args, unknown)
	}
	rs := x.callBody(st, fd, fd.Type, fd.Body, args, -1, fd.Pos())
	seen := map[string]bool{}
	var touching, faulty []path
	for _, r := range rs {
		ret := unknown
		for _, v := range r.vs { // the error result
			if v.k == kErrBusy || v.k == kNil || v.k == kErrOther {
				ret = v
			}
		}
		pth := path{events: r.st.events, ret: ret, faults: r.st.faults, escaped: r.st.ctrl == ctrlPanic}
		if len(statusEvents(pth)) == 0 {
			for _, e := range pth.events {
				fail(e.pos, "%s: a path runs %s without any operation on the status word", fn, e.kind)
			}
			continue
		}
		k := fmt.Sprintf("%s|%d|%v", pathString(pth), pth.faults, pth.escaped)
		if seen[k] {
			continue
		}
		seen[k] = true
		if pth.faults > 0 {
			faulty = append(faulty, pth)
		} else {
			touching = append(touching, pth)
		}
	}
	if len(touching) == 0 {
		fail(fd.Pos(), "%s never touches the status word", fn)
	}
	out := extraction{paths: len(rs), kept: len(touching) + len(faulty)}
	exitLoads := map[token.Pos]bool{}
	var foldErr *extractFailure
	func() {
		defer func() {
			if r := recover(); r != nil {
				ef, ok := r.(extractFailure)
				if !ok {
					panic(r)
				}
				foldErr = &ef
			}
		}()
		out.prog = fold(fn, touching, exitLoads)
	}()
	if foldErr != nil {
		// The ordinary paths do not perform the same operations on the word (a fast path that
		// skips a store, say), so they are not ONE program. Each is then a program of its own:
		// the longest successful one stands for the call, the others join the per-path list
		// that the path-set theorem quantifies over (C19_mutex_path_set needs every one good).
		hasWork := func(p path) bool {
			for _, e := range p.events {
				if e.kind == "work" {
					return true
				}
			}
			return false
		}
		sort.SliceStable(touching, func(i, j int) bool {
			if wi, wj := hasWork(touching[i]), hasWork(touching[j]); wi != wj {
				return wi
			}
			return len(statusEvents(touching[i])) > len(statusEvents(touching[j]))
		})
		out.prog, _, _ = pathProgram(touching[0], exitLoads)
		for _, pth := range touching[1:] {
			if prog, _, _ := pathProgram(pth, exitLoads); len(prog) > 0 {
				faulty = append(faulty, pth)
			}
		}
		out.notes = append(out.notes, fmt.Sprintf("%s: the ordinary paths are not one program (%s at %s); every path is checked as a program of its own", fn, foldErr.msg, where(foldErr.pos)))
	}
	haveWork, haveHandlers := false, false
	for _, a := range out.prog {
		haveWork = haveWork || a.Kind == "Work"
		haveHandlers = haveHandlers || a.Kind == "Handlers"
	}
	if !haveWork {
		fail(fd.Pos(), "%s: could not locate where node functions run (no call of recompute/parallelBatch on the way)", fn)
	}
	if !haveHandlers {
		fail(fd.Pos(), "%s: could not locate where update handlers run (no loop over %s on the way)", fn, handlersField)
	}
	// the panicking paths, each a program of its own
	seenProg := map[string]bool{}
	sort.SliceStable(faulty, func(i, j int) bool { // of equal programs keep the one with fewer panics, recovered first
		if faulty[i].faults != faulty[j].faults {
			return faulty[i].faults < faulty[j].faults
		}
		return !faulty[i].escaped && faulty[j].escaped
	})
	for _, pth := range faulty {
		prog, last, wrote := pathProgram(pth, exitLoads)
		fp := faultPath{Func: fn, Faults: pth.faults, Escaped: pth.escaped}
		if wrote && last != 0 {
			// the call ends with the word still claimed: nobody else can ever get in.  For
			// mutual exclusion that is a thread which stalls for ever before its release.
			fp.Stalls = true
			prog = append(prog, action{Kind: "Store", A: 0, At: "never: the path ends with the word still claimed"})
		}
		fp.Program, fp.Text = prog, coqList(prog)
		if seenProg[fp.Text] {
			continue
		}
		seenProg[fp.Text] = true
		if fp.Stalls {
			how := "returns"
			if fp.Escaped {
				how = "panics out of the call"
			}
			out.notes = append(out.notes, fmt.Sprintf("%s: a path on which user code panics %s with the status word still claimed (%s): no later pass can ever run -- "+
				"a liveness matter, not mutual exclusion; modelled as a thread that stalls before a final release", fn, how, coqList(prog[:len(prog)-1])))
		}
		if !fp.Stalls && sameStatusOps(prog, out.prog) && markerSubsequence(prog, out.prog) {
			continue // says nothing the ordinary program does not say
		}
		out.faults = append(out.faults, fp)
	}
	return out
}

func coqList(prog []action) string {
	parts := make([]string, len(prog))
	for i, a := range prog {
		parts[i] = a.coq()
	}
	return "[" + strings.Join(parts, "; ") + "]"
}

func main() {
	var (
		repo    = flag.String("repo", "/repo", "directory of the go-incr package")
		coqOut  = flag.String("coq", "", "Gallina file to write")
		jsonOut = flag.String("json", "", "report file")
		seed    = flag.Uint64("seed", 1, "unused (the extraction is deterministic); recorded in the report")
	)
	flag.Parse()
	rep := hx.NewReport("statusextract", *seed)
	defer func() {
		if r := recover(); r != nil {
			f, ok := r.(extractFailure)
			if !ok {
				panic(r)
			}
			fmt.Fprintf(os.Stderr, "statusextract: EXTRACTION FAILURE at %s: %s\n", where(f.pos), f.msg)
			os.Exit(3)
		}
	}()
	p := loadPackage(*repo, []string{"graph.go", "stabilize.go", "parallel_stabilize.go"})
	x := &executor{p: p, visited: map[token.Pos]bool{}}
	type entry struct {
		Func    string      `json:"func"`
		Coq     string      `json:"coq_name"`
		Program []action    `json:"program"`
		Text    string      `json:"text"`
		Paths   int         `json:"paths"`
		Kept    int         `json:"status_touching_paths"`
		Faults  []faultPath `json:"panicking_paths"`
	}
	entries := []*entry{{Func: "Stabilize", Coq: "extracted_stabilize"}, {Func: "ParallelStabilize", Coq: "extracted_parallel"}}
	for _, e := range entries {
		ex := extract(p, x, "Graph", e.Func)
		e.Program, e.Paths, e.Kept, e.Faults = ex.prog, ex.paths, ex.kept, ex.faults
		e.Text = coqList(e.Program)
		rep.Evaluations += e.Paths
		rep.Distinct += e.Kept
		rep.Sizes["paths-"+e.Func] = e.Paths
		rep.Sizes["actions-"+e.Func] = len(e.Program)
		rep.Sizes["panicking-path-programs-"+e.Func] = len(e.Faults)
		for _, a := range e.Program {
			rep.Count(a.Kind)
		}
		rep.Notes = append(rep.Notes, ex.notes...)
		rep.Samples = append(rep.Samples, e)
	}
	for _, e := range entries { // shown by bin/check next to the ordinary programs
		for i, f := range e.Faults {
			rep.Samples = append(rep.Samples, map[string]any{"func": fmt.Sprintf("%s (path %d on which user code panics)", e.Func, i+1), "text": f.Text})
		}
	}
	// every atomic write of the word in the package must belong to the extracted protocol
	var stray []string
	for pos, kind := range p.writes {
		if !x.visited[pos] {
			stray = append(stray, fmt.Sprintf("%s (%s)", where(pos), kind))
		}
	}
	if len(stray) > 0 {
		sort.Strings(stray)
		fail(token.NoPos, "the status word is written outside Stabilize/ParallelStabilize: %s", strings.Join(stray, ", "))
	}
	var otherLoads []string
	for _, pos := range p.loads {
		if !x.visited[pos] {
			otherLoads = append(otherLoads, where(pos))
		}
	}
	sort.Strings(otherLoads)
	rep.Notes = append(rep.Notes, "atomic loads of the status word outside the protocol (read-only, allowed): "+strings.Join(otherLoads, ", "))
	rep.Rule = "symbolic execution of Graph.Stabilize and Graph.ParallelStabilize over go/ast with inlining, deferred calls in LIFO order, and up to " +
		fmt.Sprint(maxFaults) + " panics injected per path wherever user code runs (node functions, handlers), recover() included; evaluations = paths explored, " +
		"distinct = distinct paths that touch the status word (the ordinary ones folded into one program per entry point, each panicking one a program of its own)"
	rep.Exhaustive = true

	// independent check: two calls, each on any of the extracted paths, all interleavings
	type named struct {
		fn, what, text string
		prog           []action
		faults         int
	}
	var all []named
	for _, e := range entries {
		all = append(all, named{e.Func, "the ordinary path of Graph." + e.Func, e.Text, e.Program, 0})
	}
	for _, e := range entries {
		for _, f := range e.Faults {
			how := "and the recover block swallows the panic"
			if f.Escaped {
				how = "and the panic leaves the call"
			}
			all = append(all, named{e.Func, fmt.Sprintf("the path of Graph.%s on which user code panics (%d panic(s)) %s", e.Func, f.Faults, how), f.Text, f.Program, f.Faults})
		}
	}
	rep.CoqCases = len(all)
	ordinary := all[:len(entries)]
	byFaults := append([]named(nil), all...)
	hasWork := func(n named) bool {
		for _, a := range n.prog {
			if a.Kind == "Work" {
				return true
			}
		}
		return false
	}
	sort.SliceStable(byFaults, func(i, j int) bool { // report the simplest scenario: fewest panics, a node function panicking first
		if byFaults[i].faults != byFaults[j].faults {
			return byFaults[i].faults < byFaults[j].faults
		}
		return hasWork(byFaults[i]) && !hasWork(byFaults[j])
	})
	reported := map[string]bool{}
	for _, a := range byFaults {
		var best []int
		var with named
		for _, b := range ordinary { // the other caller is an ordinary call
			if sched := overlapSchedule(a.prog, b.prog); sched != nil && (best == nil || len(sched) < len(best)) {
				best, with = sched, b
			}
		}
		key := "extracted-protocol:" + a.fn + ":overlap"
		if best == nil || reported[key] {
			continue
		}
		reported[key] = true
		rep.AddViolation(hx.Violation{Property: "C19",
			What: fmt.Sprintf("the status protocol extracted from the Go source lets two calls run node functions/handlers at the same time. Caller 0 follows %s: %s; "+
				"caller 1 follows %s: %s. Interleaving %v (one atomic action of the named caller per step) leaves both inside Work/Handlers; neither gets ErrAlreadyStabilizing",
				a.what, a.text, with.what, with.text, best),
			Key:    key,
			Replay: map[string]any{"kind": "protocol-schedule", "func": a.fn, "caller0": a.prog, "caller1": with.prog, "schedule": best}})
	}

	if *coqOut != "" {
		var b strings.Builder
		b.WriteString("(* generated by cmd/statusextract from the Go source of " + *repo + " -- do not edit *)\n")
		b.WriteString("From incr Require Import Base Status.\n\n")
		for _, e := range entries {
			fmt.Fprintf(&b, "(* Graph.%s:", e.Func)
			for _, a := range e.Program {
				fmt.Fprintf(&b, " %s@%s", a.Kind, a.At)
			}
			b.WriteString(" *)\n")
			fmt.Fprintf(&b, "Definition %s : list action := %s.\n\n", e.Coq, e.Text)
		}
		for _, e := range entries {
			fmt.Fprintf(&b, "(* paths of Graph.%s on which a node function or a handler panics: the deferred functions run in reverse order,\n   the recover block included; a path that never releases gets a final Store 0 (a thread that stalls) *)\n", e.Func)
			fmt.Fprintf(&b, "Definition %s_panic_paths : list (list action) := [", e.Coq)
			for i, f := range e.Faults {
				if i > 0 {
					b.WriteString(";")
				}
				b.WriteString("\n  " + f.Text)
			}
			b.WriteString("].\n\n")
		}
		b.WriteString("Definition acquires_stabilize := Eval vm_compute in acquires_atomically extracted_stabilize.\n")
		b.WriteString("Definition releases_stabilize := Eval vm_compute in releases_last extracted_stabilize.\n")
		b.WriteString("Definition acquires_parallel := Eval vm_compute in acquires_atomically extracted_parallel.\n")
		b.WriteString("Definition releases_parallel := Eval vm_compute in releases_last extracted_parallel.\n")
		b.WriteString("Print acquires_stabilize. Print releases_stabilize. Print acquires_parallel. Print releases_parallel.\n")
		b.WriteString("(* is it (still) the refuted shape?  a two-thread overlap found by bounded search, if any *)\n")
		b.WriteString("Definition same_as_check_then_store := Eval vm_compute in bool_decide (extracted_stabilize = check_then_store).\n")
		b.WriteString("Definition overlap_stabilize := Eval vm_compute in overlap_witness extracted_stabilize (2 * length extracted_stabilize).\n")
		b.WriteString("Definition overlap_parallel := Eval vm_compute in overlap_witness extracted_parallel (2 * length extracted_parallel).\n")
		b.WriteString("Print same_as_check_then_store. Print overlap_stabilize. Print overlap_parallel.\n\n")
		b.WriteString("(* every path a call can take; C19_mutex_path_set applies when all of them are good *)\n")
		b.WriteString("Definition all_paths : list (list action) :=\n  extracted_stabilize :: extracted_parallel :: extracted_stabilize_panic_paths ++ extracted_parallel_panic_paths.\n")
		b.WriteString("Definition bad_paths := Eval vm_compute in filter (fun p => negb (good_path p)) all_paths.\nPrint bad_paths.\n")
		b.WriteString("(* a bad path against the ordinary one: a schedule of two callers that puts both inside Work/Handlers *)\n")
		b.WriteString("Definition bad_path_overlaps := Eval vm_compute in map (fun p => find_overlap2 p extracted_stabilize (length p + length extracted_stabilize) init []) bad_paths.\nPrint bad_path_overlaps.\n\n")
		b.WriteString("Definition OK := Eval vm_compute in forallb good_path all_paths.\nPrint OK.\n")
		if err := os.WriteFile(*coqOut, []byte(b.String()), 0o644); err != nil {
			fmt.Fprintln(os.Stderr, err)
			os.Exit(2)
		}
	}
	if *jsonOut != "" {
		if err := rep.Write(*jsonOut); err != nil {
			fmt.Fprintln(os.Stderr, err)
			os.Exit(2)
		}
	}
	for _, e := range entries {
		fmt.Printf("statusextract: Graph.%s = %s  (%d paths, %d touch the word)\n", e.Func, e.Text, e.Paths, e.Kept)
		for _, f := range e.Faults {
			fmt.Printf("statusextract:   panicking path: %s\n", f.Text)
		}
	}
	fmt.Printf("statusextract: %d violations\n", len(rep.Violations))
}
