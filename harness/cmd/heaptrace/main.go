// heaptrace drives the real recompute heap (through the verif hooks) with operation
// sequences, checks every step against a plain multiset keyed by height (the C18 oracle),
// and writes the recorded traces as a Gallina file for replay on the Coq model.
package main

import (
	"flag"
	"fmt"
	"os"
	"sort"
	"strings"

	incr "github.com/wcharczuk/go-incr"
	"verifharness/internal/hx"
)

type op struct {
	kind string // add addif remove fix removemin takeblock clear
	n    int
	h    int
}

func (o op) coq() string {
	switch o.kind {
	case "add":
		return fmt.Sprintf("HAdd %d%%nat %s", o.n, hx.Z(int64(o.h)))
	case "addif":
		return fmt.Sprintf("HAddIfNotPresent %d%%nat %s", o.n, hx.Z(int64(o.h)))
	case "remove":
		return fmt.Sprintf("HRemove %d%%nat", o.n)
	case "fix":
		return fmt.Sprintf("HFix %d%%nat %s", o.n, hx.Z(int64(o.h)))
	case "removemin":
		return "HRemoveMin"
	case "takeblock":
		return "HTakeMinBlock"
	default:
		return "HClear"
	}
}

func (o op) String() string {
	switch o.kind {
	case "add", "addif", "fix":
		return fmt.Sprintf("%s(n%d,h%d)", o.kind, o.n, o.h)
	case "remove":
		return fmt.Sprintf("remove(n%d)", o.n)
	}
	return o.kind
}

type obs struct {
	panicked bool
	ret      []int
	length   int
	ids      []int
	min      int
	minOK    bool
	sane     bool
}

func (o obs) coq() string {
	min := "None"
	if o.minOK {
		min = fmt.Sprintf("(Some %s)", hx.Z(int64(o.min)))
	}
	return fmt.Sprintf("HObs %s %s %s %s %s %s", hx.Bool(o.panicked), hx.NatList(o.ret), hx.Z(int64(o.length)),
		hx.NatList(o.ids), min, hx.Bool(o.sane))
}

type runner struct {
	capacity int
	heap     *incr.VerifHeap
	nodes    []*incr.VerifNode
	ref      map[int]int // node -> queued height (the oracle's multiset)
}

func newRunner(capacity, nodes int) *runner {
	r := &runner{capacity: capacity, heap: incr.VerifNewHeap(capacity), ref: map[int]int{}}
	for i := 0; i < nodes; i++ {
		r.nodes = append(r.nodes, incr.VerifNewNode(uint64(i), 0))
	}
	return r
}

func ords(ns []incr.INode) []int {
	out := make([]int, len(ns))
	for i, n := range ns {
		out[i] = int(incr.VerifOrdinal(n.Node().ID()))
	}
	return out
}

func (r *runner) valid(o op) bool {
	_, queued := r.ref[o.n]
	switch o.kind {
	case "add":
		return !queued
	case "remove", "fix":
		return queued
	}
	return true
}

func (r *runner) refMin() (int, bool) {
	min, ok := 0, false
	for _, h := range r.ref {
		if !ok || h < min {
			min, ok = h, true
		}
	}
	return min, ok
}

// step applies one operation, returns the observation and an oracle complaint ("" if none).
func (r *runner) step(o op) (out obs, complaint string) {
	defer func() {
		if rec := recover(); rec != nil {
			out = obs{panicked: true}
			if o.h >= 0 {
				complaint = fmt.Sprintf("panic on %v: %v", o, rec)
			}
		}
	}()
	node := r.nodes[o.n]
	switch o.kind {
	case "add":
		incr.VerifSetHeight(node, o.h)
		r.heap.Add(node)
		r.ref[o.n] = o.h
	case "addif":
		_, queued := r.ref[o.n]
		if !queued {
			incr.VerifSetHeight(node, o.h)
		}
		r.heap.AddIfNotPresent(node)
		if !queued {
			r.ref[o.n] = o.h
		}
	case "remove":
		r.heap.Remove(node)
		delete(r.ref, o.n)
	case "fix":
		incr.VerifSetHeight(node, o.h)
		r.heap.Fix(node)
		r.ref[o.n] = o.h
	case "removemin":
		min, nonempty := r.refMin()
		n, ok := r.heap.RemoveMin()
		if ok != nonempty {
			complaint = fmt.Sprintf("removeMin ok=%v but %d queued", ok, len(r.ref))
		}
		if ok {
			id := int(incr.VerifOrdinal(n.Node().ID()))
			out.ret = []int{id}
			h, queued := r.ref[id]
			if !queued {
				complaint = fmt.Sprintf("removeMin handed back n%d which is not queued", id)
			} else if h != min {
				complaint = fmt.Sprintf("removeMin handed back n%d at height %d while height %d is queued", id, h, min)
			}
			delete(r.ref, id)
		}
	case "takeblock":
		min, nonempty := r.refMin()
		got := ords(r.heap.TakeMinBlock())
		out.ret = got
		var want []int
		for n, h := range r.ref {
			if nonempty && h == min {
				want = append(want, n)
			}
		}
		sort.Ints(want)
		sorted := append([]int(nil), got...)
		sort.Ints(sorted)
		if fmt.Sprint(sorted) != fmt.Sprint(want) {
			complaint = fmt.Sprintf("takeMinBlock returned %v, the minimum height block is %v", got, want)
		}
		for _, n := range got {
			delete(r.ref, n)
		}
	case "clear":
		got := ords(r.heap.Clear())
		out.ret = got
		seen := map[int]bool{}
		last := -1
		for _, n := range got {
			h, queued := r.ref[n]
			if !queued || seen[n] {
				complaint = fmt.Sprintf("clear returned n%d which is not queued (or twice)", n)
			}
			if h < last {
				complaint = fmt.Sprintf("clear returned heights out of order at n%d", n)
			}
			last = h
			seen[n] = true
		}
		if len(got) != len(r.ref) {
			complaint = fmt.Sprintf("clear returned %d nodes, %d were queued", len(got), len(r.ref))
		}
		r.ref = map[int]int{}
	}
	out.length = r.heap.Len()
	for _, id := range r.heap.IDs() {
		out.ids = append(out.ids, int(incr.VerifOrdinal(id)))
	}
	out.min, out.minOK = r.heap.MinHeight()
	out.sane = r.heap.SanityCheck() == nil
	if complaint == "" {
		complaint = r.oracle(out)
	}
	return
}

func (r *runner) oracle(o obs) string {
	if o.length != len(r.ref) {
		return fmt.Sprintf("len reports %d, %d queued", o.length, len(r.ref))
	}
	got := append([]int(nil), o.ids...)
	sort.Ints(got)
	var want []int
	for n := range r.ref {
		want = append(want, n)
	}
	sort.Ints(want)
	if fmt.Sprint(got) != fmt.Sprint(want) {
		return fmt.Sprintf("heap holds %v, queued are %v", got, want)
	}
	if !o.sane {
		return "sanityCheck fails"
	}
	min, nonempty := r.refMin()
	if nonempty != o.minOK {
		return fmt.Sprintf("minHeight ok=%v with %d queued", o.minOK, len(r.ref))
	}
	if nonempty && o.min > min {
		return fmt.Sprintf("minimum cursor %d overshoots true minimum %d", o.min, min)
	}
	for _, id := range o.ids {
		if r.nodes[id].Node() == nil {
			return "nil node"
		}
	}
	return ""
}

type trace struct {
	capacity int
	ops      []op
	obs      []obs
}

func (t trace) coq() string {
	steps := make([]string, len(t.ops))
	for i := range t.ops {
		steps[i] = fmt.Sprintf("(%s, %s)", t.ops[i].coq(), t.obs[i].coq())
	}
	return fmt.Sprintf("(%d%%nat, [%s])", t.capacity, strings.Join(steps, "; "))
}

func (t trace) strs() []string {
	out := make([]string, len(t.ops))
	for i, o := range t.ops {
		out[i] = o.String()
	}
	return out
}

func runSeq(capacity, nodes int, seq []op, rep *hx.Report) (trace, bool) {
	r := newRunner(capacity, nodes)
	t := trace{capacity: capacity}
	for i, o := range seq {
		if !r.valid(o) {
			return t, false
		}
		out, complaint := r.step(o)
		t.ops = append(t.ops, o)
		t.obs = append(t.obs, out)
		rep.Count(o.kind)
		if complaint != "" {
			rep.AddViolation(hx.Violation{Property: "C18", What: complaint,
				Key:    "heap:" + strings.Join(t.strs(), ","),
				Replay: map[string]any{"capacity": capacity, "ops": t.strs(), "failing_step": i}})
			return t, true
		}
		if out.panicked {
			break
		}
	}
	return t, true
}

func alphabet(nodes int, heights []int) []op {
	var out []op
	for n := 0; n < nodes; n++ {
		for _, h := range heights {
			out = append(out, op{"add", n, h}, op{"addif", n, h}, op{"fix", n, h})
		}
		out = append(out, op{"remove", n, 0})
	}
	return append(out, op{kind: "removemin"}, op{kind: "takeblock"}, op{kind: "clear"})
}

func main() {
	var (
		mode    = flag.String("mode", "random", "exhaustive | random")
		length  = flag.Int("len", 3, "sequence length (exhaustive: up to; random: exactly)")
		count   = flag.Int("n", 300, "number of random sequences")
		seed    = flag.Uint64("seed", 1, "seed")
		coqOut  = flag.String("coq", "", "Gallina cases file to write")
		coqMax  = flag.Int("coqmax", 400, "at most this many traces go to the Gallina file")
		jsonOut = flag.String("json", "", "report file")
	)
	flag.Parse()
	rep := hx.NewReport("heaptrace", *seed)
	rng := hx.NewRand(*seed)
	distinct := hx.Distinct{}
	var kept []trace
	keep := func(t trace) {
		if len(t.ops) == 0 {
			return
		}
		rep.Evaluations++
		rep.Sizes[fmt.Sprintf("len%d", len(t.ops))]++
		nontrivial := false
		for i, o := range t.ops {
			if (o.kind == "removemin" || o.kind == "takeblock" || o.kind == "clear") && len(t.obs[i].ret) > 0 {
				nontrivial = true
			}
		}
		if nontrivial {
			distinct.Add(strings.Join(t.strs(), ","))
		}
		kept = append(kept, t)
	}
	const capacity, nodes = 4, 3
	heights := []int{0, 1, 2, 5} // 5 is beyond the initial capacity of 4
	if *mode == "exhaustive" {
		alpha := alphabet(nodes, heights)
		var rec func(prefix []op)
		rec = func(prefix []op) {
			if len(prefix) > 0 {
				t, ok := runSeq(capacity, nodes, prefix, rep)
				if !ok {
					return
				}
				keep(t)
				if len(t.ops) < len(prefix) { // stopped early (violation or panic)
					return
				}
			}
			if len(prefix) == *length {
				return
			}
			for _, o := range alpha {
				rec(append(prefix[:len(prefix):len(prefix)], o))
			}
		}
		rec(nil)
		rep.Exhaustive = true
		rep.Rule = fmt.Sprintf("every operation sequence of length <= %d over %d nodes, heights %v (capacity %d) and "+
			"add/addIfNotPresent/remove/fix/removeMin/takeMinBlock/clear whose preconditions hold (add only when absent, "+
			"remove/fix only when queued); non-trivial = some removeMin/takeMinBlock/clear hands back a node", *length, nodes, heights, capacity)
	} else {
		for i := 0; i < *count; i++ {
			r := rng.Fork()
			nn := r.Range(2, 6)
			hs := []int{0, 1, 2, 3, 5, 9, 40}
			run := newRunner(capacity, nn)
			var seq []op
			for len(seq) < *length {
				var o op
				switch k := r.Intn(100); {
				case k < 30:
					o = op{"add", r.Intn(nn), hs[r.Intn(len(hs))]}
				case k < 40:
					o = op{"addif", r.Intn(nn), hs[r.Intn(len(hs))]}
				case k < 52:
					o = op{"remove", r.Intn(nn), 0}
				case k < 70:
					o = op{"fix", r.Intn(nn), hs[r.Intn(len(hs))]}
				case k < 90:
					o = op{kind: "removemin"}
				case k < 97:
					o = op{kind: "takeblock"}
				case k < 99:
					o = op{kind: "clear"}
				default:
					o = op{"add", r.Intn(nn), -1} // outside the property: must fault on both sides
				}
				if !run.valid(o) {
					continue
				}
				// track validity with a shadow runner so that the real run starts fresh
				_, _ = run.step(o)
				seq = append(seq, o)
				if o.h < 0 {
					break
				}
			}
			t, _ := runSeq(capacity, nn, seq, rep)
			keep(t)
		}
		rep.Rule = fmt.Sprintf("%d random sequences of %d valid operations over 2-6 nodes and heights {0,1,2,3,5,9,40} "+
			"(capacity 4, so three of them grow the heap), 1%% negative-height adds; non-trivial = some removeMin/"+
			"takeMinBlock/clear hands back a node; distinct by operation sequence", *count, *length)
	}
	rep.Distinct = len(distinct)
	for i := 0; i < len(kept) && i < 3; i++ {
		t := kept[len(kept)*i/3]
		rep.Samples = append(rep.Samples, map[string]any{"ops": t.strs(), "last_ids": t.obs[len(t.obs)-1].ids})
	}
	if *coqOut != "" {
		sample := kept
		if len(sample) > *coqMax {
			stride := len(sample) / *coqMax
			var s []trace
			for i := 0; i < len(sample) && len(s) < *coqMax; i += stride {
				s = append(s, sample[i])
			}
			sample = s
		}
		rep.CoqCases = len(sample)
		var b strings.Builder
		b.WriteString("From incr Require Import Base Heap HeapRun.\nDefinition cases : list case := [\n")
		for i, t := range sample {
			if i > 0 {
				b.WriteString(";\n")
			}
			b.WriteString(t.coq())
		}
		b.WriteString("].\nDefinition M := Eval vm_compute in mismatches cases.\nPrint M.\n")
		if err := os.WriteFile(*coqOut, []byte(b.String()), 0o644); err != nil {
			fmt.Fprintln(os.Stderr, err)
			os.Exit(2)
		}
	}
	if *jsonOut != "" {
		if err := rep.Write(*jsonOut); err != nil {
			fmt.Fprintln(os.Stderr, err)
			os.Exit(2)
		}
	}
	fmt.Printf("heaptrace: %d sequences, %d distinct non-trivial, %d violations, %d coq cases\n",
		rep.Evaluations, rep.Distinct, len(rep.Violations), rep.CoqCases)
}
