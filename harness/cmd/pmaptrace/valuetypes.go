package main

// Value types: the map is generic in V; its contract (Set binds, Get returns what was bound,
// SymmetricDiff decides equality with the supplied function only) may not depend on V being
// comparable or on Go's == for V. These histories run on the implementation only (the Coq
// model has integer values), against a plain Go map as the reference.

import (
	"fmt"
	"math"
	"sort"

	"github.com/wcharczuk/go-incr/incrutil/pmap"
	"verifharness/internal/hx"
)

type valueKind[V any] struct {
	name string
	gen  func(r *hx.Rand) V
	same func(a, b V) bool // identity of what was stored (bit-exact for floats)
	show func(v V) string
}

func runValueKind[V any](vk valueKind[V], rng *hx.Rand, histories, ops int, rep *hx.Report) {
	for h := 0; h < histories; h++ {
		var trace []string
		complain := func(what string) {
			rep.AddViolation(hx.Violation{Property: "C16", What: fmt.Sprintf("pmap.Map[int64,%s]: %s after %v", vk.name, what, trace),
				Key: "valuetype:" + vk.name, Replay: map[string]any{"value_type": vk.name, "ops": append([]string(nil), trace...), "history": h}})
		}
		m := pmap.New[int64, V]()
		ref := map[int64]V{}
		versions := []pmap.Map[int64, V]{m}
		refs := []map[int64]V{{}}
		bad := false
		func() {
			defer func() {
				if r := recover(); r != nil {
					complain(fmt.Sprintf("panic: %v", r))
					bad = true
				}
			}()
			for i := 0; i < ops && !bad; i++ {
				k := int64(rng.Intn(6))
				if rng.Chance(1, 4) {
					trace = append(trace, fmt.Sprintf("delete %d", k))
					m = m.Delete(k)
					delete(ref, k)
				} else {
					v := vk.gen(rng)
					trace = append(trace, fmt.Sprintf("set %d=%s", k, vk.show(v)))
					m = m.Set(k, v)
					ref[k] = v
				}
				rep.Evaluations++
				if m.Len() != len(ref) {
					complain(fmt.Sprintf("Len=%d, reference %d", m.Len(), len(ref)))
					bad = true
					break
				}
				for key, want := range ref {
					got, ok := m.Get(key)
					if !ok || !vk.same(got, want) {
						complain(fmt.Sprintf("Get(%d)=(%s,%v), last bound %s", key, vk.show(got), ok, vk.show(want)))
						bad = true
					}
				}
				n := 0
				for key, got := range m.All() {
					n++
					if want, ok := ref[key]; !ok || !vk.same(got, want) {
						complain(fmt.Sprintf("iteration yields %d=%s, reference %v", key, vk.show(got), ok))
						bad = true
					}
				}
				if n != len(ref) {
					complain(fmt.Sprintf("iteration yields %d bindings, reference %d", n, len(ref)))
					bad = true
				}
				cp := map[int64]V{}
				for kk, vv := range ref {
					cp[kk] = vv
				}
				versions = append(versions, m)
				refs = append(refs, cp)
				// diff of the new version against an earlier one, equality = identity of the stored value
				j := rng.Intn(len(versions))
				var keys []int64
				for ch := range versions[j].SymmetricDiff(m, vk.same) {
					keys = append(keys, ch.Key)
				}
				var want []int64
				for kk := int64(0); kk < 6; kk++ {
					a, aok := refs[j][kk]
					b, bok := ref[kk]
					if aok != bok || (aok && !vk.same(a, b)) {
						want = append(want, kk)
					}
				}
				sort.Slice(keys, func(x, y int) bool { return keys[x] < keys[y] })
				if fmt.Sprint(keys) != fmt.Sprint(want) {
					complain(fmt.Sprintf("SymmetricDiff(version %d, current) reports keys %v, the bindings differ at %v", j, keys, want))
					bad = true
				}
			}
		}()
		rep.Count("valuetype:" + vk.name)
	}
}

func runValueTypes(rng *hx.Rand, histories, ops int, rep *hx.Report) {
	negZero := math.Copysign(0, -1)
	runValueKind(valueKind[float64]{name: "float64",
		gen:  func(r *hx.Rand) float64 { return []float64{0, negZero, 1.5, math.NaN(), math.Inf(1), -2}[r.Intn(6)] },
		same: func(a, b float64) bool { return math.Float64bits(a) == math.Float64bits(b) },
		show: func(v float64) string { return fmt.Sprintf("%v/%x", v, math.Float64bits(v)) }}, rng.Fork(), histories, ops, rep)
	runValueKind(valueKind[[]int]{name: "[]int",
		gen: func(r *hx.Rand) []int {
			if r.Chance(1, 5) {
				return nil
			}
			return make([]int, r.Intn(3), 4)
		},
		same: func(a, b []int) bool {
			return (a == nil) == (b == nil) && len(a) == len(b) && (len(a) == 0 && cap(a) == cap(b) || len(a) > 0 && &a[0] == &b[0])
		},
		show: func(v []int) string { return fmt.Sprintf("%v(nil=%v)", v, v == nil) }}, rng.Fork(), histories, ops, rep)
	runValueKind(valueKind[any]{name: "any",
		gen: func(r *hx.Rand) any {
			switch r.Intn(5) {
			case 0:
				return []int{r.Intn(3)}
			case 1:
				return map[int]int{1: r.Intn(3)}
			case 2:
				return r.Intn(3)
			case 3:
				return float64(r.Intn(2)) * negZero
			default:
				return nil
			}
		},
		same: func(a, b any) bool { return fmt.Sprintf("%T%v", a, a) == fmt.Sprintf("%T%v", b, b) },
		show: func(v any) string { return fmt.Sprintf("%T(%v)", v, v) }}, rng.Fork(), histories, ops, rep)
	runValueKind(valueKind[func() int]{name: "func",
		gen:  func(r *hx.Rand) func() int { x := r.Intn(4); return func() int { return x } },
		same: func(a, b func() int) bool { return a() == b() },
		show: func(v func() int) string { return fmt.Sprintf("func->%d", v()) }}, rng.Fork(), histories, ops, rep)
}
