// pmaptrace drives the real incrutil/pmap package through histories of map versions
// (every operation is applied to some earlier version, so the versions form a tree),
// checks every version, every earlier version again after every operation, SymmetricDiff
// between versions and Reducer answers against a plain Go map + sorted slice reference
// (the C16 oracle), and writes recorded histories as a Gallina file for replay on the
// Coq model.
package main

import (
	"flag"
	"fmt"
	"os"
	"runtime"
	"runtime/debug"
	"sort"
	"strings"
	"sync"

	"github.com/wcharczuk/go-incr/incrutil/pmap"
	"verifharness/internal/hx"
)

type Map = pmap.Map[int64, int64]
type kv struct{ k, v int64 }

// ---------------------------------------------------------------- operations

type op struct {
	kind string // set delete setall deleteall fromgomap
	src  int
	k, v int64
	kvs  []kv    // setall / fromgomap, in the order handed to the model (a Go map has none)
	keys []int64 // deleteall, in call order
}

func kvsCoq(xs []kv) string {
	parts := make([]string, len(xs))
	for i, x := range xs {
		parts[i] = fmt.Sprintf("(%s,%s)", hx.Z(x.k), hx.Z(x.v))
	}
	return "[" + strings.Join(parts, ";") + "]"
}

func (o op) coq() string {
	switch o.kind {
	case "set":
		return fmt.Sprintf("PSet %d%%nat %s %s", o.src, hx.Z(o.k), hx.Z(o.v))
	case "delete":
		return fmt.Sprintf("PDelete %d%%nat %s", o.src, hx.Z(o.k))
	case "setall":
		return fmt.Sprintf("PSetAll %d%%nat %s", o.src, kvsCoq(o.kvs))
	case "deleteall":
		return fmt.Sprintf("PDeleteAll %d%%nat %s", o.src, hx.ZList(o.keys))
	default:
		return fmt.Sprintf("PFromGoMap %s", kvsCoq(o.kvs))
	}
}

func (o op) String() string {
	switch o.kind {
	case "set":
		return fmt.Sprintf("v%d.Set(%d,%d)", o.src, o.k, o.v)
	case "delete":
		return fmt.Sprintf("v%d.Delete(%d)", o.src, o.k)
	case "setall":
		return fmt.Sprintf("v%d.SetAll(%v)", o.src, o.kvs)
	case "deleteall":
		return fmt.Sprintf("v%d.DeleteAll(%v)", o.src, o.keys)
	default:
		return fmt.Sprintf("FromGoMap(%v)", o.kvs)
	}
}

func goMapOf(xs []kv) map[int64]int64 {
	out := make(map[int64]int64, len(xs))
	for _, x := range xs {
		out[x.k] = x.v
	}
	return out
}

// ---------------------------------------------------------------- the reference

// refv is the oracle's view of one version: a plain map and its entries sorted by key.
type refv struct {
	m      map[int64]int64
	sorted []kv
	// the full in-order fold under both monoids used for the reducer oracle
	foldA  int64
	foldS  string
	foldOK bool
}

func mkRef(m map[int64]int64) refv {
	s := make([]kv, 0, len(m))
	for k, v := range m {
		s = append(s, kv{k, v})
	}
	sort.Slice(s, func(i, j int) bool { return s[i].k < s[j].k })
	r := refv{m: m, sorted: s}
	r.foldA, r.foldS, r.foldOK = refFold(r)
	return r
}

func (r refv) apply(o op) refv {
	out := make(map[int64]int64, len(r.m)+1)
	if o.kind != "fromgomap" {
		for k, v := range r.m {
			out[k] = v
		}
	}
	switch o.kind {
	case "set":
		out[o.k] = o.v
	case "delete":
		delete(out, o.k)
	case "setall", "fromgomap":
		for _, x := range o.kvs {
			out[x.k] = x.v
		}
	case "deleteall":
		for _, k := range o.keys {
			delete(out, k)
		}
	}
	return mkRef(out)
}

func applyReal(m Map, o op) Map {
	switch o.kind {
	case "set":
		return m.Set(o.k, o.v)
	case "delete":
		return m.Delete(o.k)
	case "setall":
		return m.SetAll(goMapOf(o.kvs))
	case "deleteall":
		return m.DeleteAll(o.keys...)
	default:
		return pmap.FromGoMap(goMapOf(o.kvs))
	}
}

// ---------------------------------------------------------------- observations

type probe struct {
	kind   string // get has nth rank range
	a, b   int64
	ok     bool
	rk, rv int64
	list   []kv
}

func optKV(ok bool, k, v int64) string {
	if !ok {
		return "None"
	}
	return fmt.Sprintf("(Some (%s,%s))", hx.Z(k), hx.Z(v))
}

func (p probe) coq() string {
	switch p.kind {
	case "get":
		if p.ok {
			return fmt.Sprintf("QGet %s (Some %s)", hx.Z(p.a), hx.Z(p.rv))
		}
		return fmt.Sprintf("QGet %s None", hx.Z(p.a))
	case "has":
		return fmt.Sprintf("QHas %s %s", hx.Z(p.a), hx.Bool(p.ok))
	case "nth":
		return fmt.Sprintf("QNth %s %s", hx.Z(p.a), optKV(p.ok, p.rk, p.rv))
	case "rank":
		return fmt.Sprintf("QRank %s %s %s", hx.Z(p.a), hx.Z(p.rk), hx.Bool(p.ok))
	default:
		return fmt.Sprintf("QRange %s %s %s", hx.Z(p.a), hx.Z(p.b), kvsCoq(p.list))
	}
}

type obs struct {
	all       []kv
	length    int
	min, max  kv
	minOK     bool
	maxOK     bool
	pre       []int64
	height    int
	probes    []probe
	preDigest uint64
}

func (o obs) coq() string {
	ps := make([]string, len(o.probes))
	for i, p := range o.probes {
		ps[i] = p.coq()
	}
	return fmt.Sprintf("PObs %s %s %s %s %s %s [%s]", kvsCoq(o.all), hx.Z(int64(o.length)),
		optKV(o.minOK, o.min.k, o.min.v), optKV(o.maxOK, o.max.k, o.max.v), hx.ZList(o.pre), hx.Z(int64(o.height)),
		strings.Join(ps, "; "))
}

func collect(m Map) []kv {
	out := make([]kv, 0, m.Len())
	for k, v := range m.All() {
		out = append(out, kv{k, v})
	}
	return out
}

func sameKVs(a, b []kv) bool {
	if len(a) != len(b) {
		return false
	}
	for i := range a {
		if a[i] != b[i] {
			return false
		}
	}
	return true
}

func digest(xs []int64) uint64 {
	h := uint64(1469598103934665603)
	for _, x := range xs {
		h ^= uint64(x)
		h *= 1099511628211
		h ^= h >> 29
	}
	return h
}

// prefix runs an iterator, stopping it after j items, and reports what was yielded and
// whether the iterator called yield again after being told to stop.
func prefixKV(seq func(func(int64, int64) bool), j int) (got []kv, calledAfterStop bool) {
	stopped := false
	seq(func(k, v int64) bool {
		if stopped {
			calledAfterStop = true
			return false
		}
		got = append(got, kv{k, v})
		if len(got) >= j {
			stopped = true
			return false
		}
		return true
	})
	return
}

// checker evaluates the oracle on one version. probeKeys are the keys (present or not)
// at which point lookups are made; when record is set the probes made are kept.
type checker struct {
	rng       *hx.Rand
	full      bool    // probe everything (small universes) rather than a sample
	probeKeys []int64 // candidate keys, sorted, including keys outside the universe
	rep       *hx.Report
}

func refRank(r refv, key int64) (int, bool) {
	i := sort.Search(len(r.sorted), func(i int) bool { return r.sorted[i].k >= key })
	return i, i < len(r.sorted) && r.sorted[i].k == key
}

func refRange(r refv, lo, hi int64) []kv {
	var out []kv
	for _, x := range r.sorted {
		if x.k >= lo && x.k <= hi {
			out = append(out, x)
		}
	}
	return out
}

// verify checks every observable of a freshly made version against the reference and
// returns the observation (for the model) and a complaint ("" if none).
func (c *checker) verify(m Map, r refv, record bool) (o obs, complaint string) {
	fail := func(format string, args ...any) {
		if complaint == "" {
			complaint = fmt.Sprintf(format, args...)
		}
	}
	o.all = collect(m)
	if !sameKVs(o.all, r.sorted) {
		fail("All yields %v, reference holds %v", o.all, r.sorted)
	}
	var keys []int64
	for k := range m.Keys() {
		keys = append(keys, k)
	}
	if len(keys) != len(r.sorted) {
		fail("Keys yields %d keys, reference holds %d", len(keys), len(r.sorted))
	} else {
		for i, k := range keys {
			if k != r.sorted[i].k {
				fail("Keys yields %v, reference holds %v", keys, r.sorted)
				break
			}
		}
	}
	o.length = m.Len()
	if o.length != len(r.m) {
		fail("Len is %d, reference holds %d entries", o.length, len(r.m))
	}
	if back := pmap.ToGoMap(m); len(back) != len(r.m) {
		fail("ToGoMap has %d entries, reference %d", len(back), len(r.m))
	} else {
		for k, v := range back {
			if rv, ok := r.m[k]; !ok || rv != v {
				fail("ToGoMap[%d]=%d, reference %d (present %v)", k, v, rv, ok)
				break
			}
		}
	}
	o.min.k, o.min.v, o.minOK = m.Min()
	o.max.k, o.max.v, o.maxOK = m.Max()
	if n := len(r.sorted); n == 0 {
		if o.minOK || o.maxOK {
			fail("Min/Max report an entry on an empty map")
		}
	} else {
		if !o.minOK || o.min != r.sorted[0] {
			fail("Min is %v (ok %v), reference %v", o.min, o.minOK, r.sorted[0])
		}
		if !o.maxOK || o.max != r.sorted[n-1] {
			fail("Max is %v (ok %v), reference %v", o.max, o.maxOK, r.sorted[n-1])
		}
	}
	if err := pmap.VerifCheck(m); err != nil {
		fail("structure: %v", err)
	}
	o.pre = pmap.VerifPreorder(m)
	o.preDigest = digest(o.pre)
	o.height = pmap.VerifHeight(m)
	// logarithmic height: 2^(h/2) <= size+1
	if half := o.height / 2; half < 62 && (int64(1)<<uint(half)) > int64(o.length)+1 {
		fail("height %d too large for %d entries", o.height, o.length)
	}
	keep := func(p probe) {
		if record && (!c.full || c.rng.Chance(1, 4)) {
			o.probes = append(o.probes, p)
		}
	}
	// point lookups
	lookups := c.probeKeys
	if !c.full {
		lookups = nil
		for i := 0; i < 6; i++ {
			lookups = append(lookups, c.probeKeys[c.rng.Intn(len(c.probeKeys))])
		}
		for i := 0; i < 3 && len(r.sorted) > 0; i++ {
			lookups = append(lookups, r.sorted[c.rng.Intn(len(r.sorted))].k)
		}
	}
	for _, k := range lookups {
		v, ok := m.Get(k)
		rv, rok := r.m[k]
		if ok != rok || (ok && v != rv) {
			fail("Get(%d) = %d,%v; reference %d,%v", k, v, ok, rv, rok)
		}
		keep(probe{kind: "get", a: k, ok: ok, rv: v})
		if h := m.Has(k); h != rok {
			fail("Has(%d) = %v; reference %v", k, h, rok)
		}
		keep(probe{kind: "has", a: k, ok: m.Has(k)})
		rank, present := m.Rank(k)
		rrank, rpresent := refRank(r, k)
		if rank != rrank || present != rpresent {
			fail("Rank(%d) = %d,%v; reference %d,%v", k, rank, present, rrank, rpresent)
		}
		keep(probe{kind: "rank", a: k, rk: int64(rank), ok: present})
	}
	// positions
	var positions []int
	if c.full || len(r.sorted) <= 8 {
		for i := -2; i <= len(r.sorted)+1; i++ {
			positions = append(positions, i)
		}
	} else {
		positions = []int{-1, 0, len(r.sorted) - 1, len(r.sorted), c.rng.Intn(len(r.sorted)), c.rng.Intn(len(r.sorted))}
	}
	for _, i := range positions {
		k, v, ok := m.Nth(i)
		rok := i >= 0 && i < len(r.sorted)
		if ok != rok || (ok && (kv{k, v}) != r.sorted[i]) {
			fail("Nth(%d) = %d,%d,%v; reference has %d entries", i, k, v, ok, len(r.sorted))
		}
		if ok {
			if rank, present := m.Rank(k); rank != i || !present {
				fail("Rank(Nth(%d)) = %d,%v", i, rank, present)
			}
		}
		keep(probe{kind: "nth", a: int64(i), ok: ok, rk: k, rv: v})
	}
	// ranges, including empty and inverted ones
	type bounds struct{ lo, hi int64 }
	var ranges []bounds
	if c.full {
		for _, lo := range c.probeKeys {
			for _, hi := range c.probeKeys {
				if hi >= lo-1 {
					ranges = append(ranges, bounds{lo, hi})
				}
			}
		}
	} else {
		for i := 0; i < 4; i++ {
			a := c.probeKeys[c.rng.Intn(len(c.probeKeys))]
			b := c.probeKeys[c.rng.Intn(len(c.probeKeys))]
			if a > b && c.rng.Chance(3, 4) {
				a, b = b, a
			}
			ranges = append(ranges, bounds{a, b})
		}
	}
	for _, b := range ranges {
		var got []kv
		for k, v := range m.Range(b.lo, b.hi) {
			got = append(got, kv{k, v})
		}
		want := refRange(r, b.lo, b.hi)
		if !sameKVs(got, want) {
			fail("Range(%d,%d) yields %v, reference %v", b.lo, b.hi, got, want)
		}
		keep(probe{kind: "range", a: b.lo, b: b.hi, list: got})
		if len(want) > 1 {
			j := 1 + c.rng.Intn(len(want)-1)
			got, again := prefixKV(m.Range(b.lo, b.hi), j)
			if again || !sameKVs(got, want[:j]) {
				fail("Range(%d,%d) stopped after %d yields gave %v (yield called after stop: %v)", b.lo, b.hi, j, got, again)
			}
		}
	}
	// early exit of All
	if n := len(r.sorted); n > 0 {
		js := []int{1, n}
		if n > 2 {
			js = append(js, 1+c.rng.Intn(n-1))
		}
		for _, j := range js {
			got, again := prefixKV(m.All(), j)
			if again || !sameKVs(got, r.sorted[:j]) {
				fail("All stopped after %d yields gave %v (yield called after stop: %v)", j, got, again)
			}
		}
	}
	return
}

// reread is the persistence check: an earlier version, read again through the public API
// and the hook, must be exactly what it was when it was made.
func reread(m Map, r refv, was obs) string {
	if m.Len() != len(r.sorted) {
		return fmt.Sprintf("Len is now %d, was %d", m.Len(), len(r.sorted))
	}
	i := 0
	for k, v := range m.All() {
		if i >= len(r.sorted) || r.sorted[i] != (kv{k, v}) {
			return fmt.Sprintf("entry %d is now (%d,%d)", i, k, v)
		}
		i++
	}
	if i != len(r.sorted) {
		return fmt.Sprintf("now yields %d entries, was %d", i, len(r.sorted))
	}
	if d := digest(pmap.VerifPreorder(m)); d != was.preDigest {
		return "tree shape changed"
	}
	if err := pmap.VerifCheck(m); err != nil {
		return "structure: " + err.Error()
	}
	if h := pmap.VerifHeight(m); h != was.height {
		return fmt.Sprintf("root height is now %d, was %d", h, was.height)
	}
	return ""
}

// ---------------------------------------------------------------- diff

type change struct {
	kind     pmap.ChangeKind
	k        int64
	old, new int64
}

func (c change) coq() string {
	switch c.kind {
	case pmap.ChangeAdded:
		return fmt.Sprintf("Added %s %s", hx.Z(c.k), hx.Z(c.new))
	case pmap.ChangeRemoved:
		return fmt.Sprintf("Removed %s %s", hx.Z(c.k), hx.Z(c.old))
	default:
		return fmt.Sprintf("Updated %s %s %s", hx.Z(c.k), hx.Z(c.old), hx.Z(c.new))
	}
}

const (
	eqStd  = 0
	eqNil  = 1
	eqMod2 = 2
)

var eqNames = []string{"EqStd", "EqNil", "EqMod2"}

func mod2(a int64) int64 { return ((a % 2) + 2) % 2 }

func eqFunc(kind int) func(a, b int64) bool {
	switch kind {
	case eqStd:
		return func(a, b int64) bool { return a == b }
	case eqMod2:
		return func(a, b int64) bool { return mod2(a) == mod2(b) }
	}
	return nil
}

// refDiff is the reference: a two-finger merge of the two sorted entry lists.
func refDiff(a, b refv, kind int) []change {
	eq := eqFunc(kind)
	var out []change
	i, j := 0, 0
	for i < len(a.sorted) || j < len(b.sorted) {
		switch {
		case j >= len(b.sorted) || (i < len(a.sorted) && a.sorted[i].k < b.sorted[j].k):
			out = append(out, change{pmap.ChangeRemoved, a.sorted[i].k, a.sorted[i].v, 0})
			i++
		case i >= len(a.sorted) || b.sorted[j].k < a.sorted[i].k:
			out = append(out, change{pmap.ChangeAdded, b.sorted[j].k, 0, b.sorted[j].v})
			j++
		default:
			if eq != nil && !eq(a.sorted[i].v, b.sorted[j].v) {
				out = append(out, change{pmap.ChangeUpdated, a.sorted[i].k, a.sorted[i].v, b.sorted[j].v})
			}
			i++
			j++
		}
	}
	return out
}

func runDiff(a, b Map, kind int, stopAfter int) (got []change, calledAfterStop bool) {
	stopped := false
	a.SymmetricDiff(b, eqFunc(kind))(func(c pmap.Change[int64, int64]) bool {
		if stopped {
			calledAfterStop = true
			return false
		}
		x := change{kind: c.Kind, k: c.Key}
		// Old is meaningful for removed/updated, New for added/updated
		if c.Kind != pmap.ChangeAdded {
			x.old = c.Old
		}
		if c.Kind != pmap.ChangeRemoved {
			x.new = c.New
		}
		got = append(got, x)
		if stopAfter > 0 && len(got) >= stopAfter {
			stopped = true
			return false
		}
		return true
	})
	return
}

func sameChanges(a, b []change) bool {
	if len(a) != len(b) {
		return false
	}
	for i := range a {
		if a[i] != b[i] {
			return false
		}
	}
	return true
}

type diffCheck struct {
	a, b, kind int
	stop       int // 0 = run to the end
	got        []change
}

func (d diffCheck) coq() string {
	stop := "None"
	if d.stop > 0 {
		stop = fmt.Sprintf("(Some %d%%nat)", d.stop)
	}
	cs := make([]string, len(d.got))
	for i, c := range d.got {
		cs[i] = c.coq()
	}
	return fmt.Sprintf("CDiff %d%%nat %d%%nat %s %s [%s]", d.a, d.b, eqNames[d.kind], stop, strings.Join(cs, "; "))
}

// checkDiff runs SymmetricDiff(a,b) with the given equality to the end and with early
// exits, against the reference merge. allStops: try every stopping point.
func checkDiff(rng *hx.Rand, ma, mb Map, ra, rb refv, kind int, allStops bool) (full []change, complaint string) {
	want := refDiff(ra, rb, kind)
	full, again := runDiff(ma, mb, kind, 0)
	if again {
		return full, "yield called after it returned false"
	}
	if !sameChanges(full, want) {
		return full, fmt.Sprintf("SymmetricDiff(equal=%s) yields %v, reference merge gives %v", eqNames[kind], full, want)
	}
	var stops []int
	if allStops {
		for j := 1; j <= len(want); j++ {
			stops = append(stops, j)
		}
	} else if len(want) > 0 {
		stops = []int{1, 1 + rng.Intn(len(want))}
	}
	for _, j := range stops {
		got, again := runDiff(ma, mb, kind, j)
		if again || !sameChanges(got, want[:j]) {
			return full, fmt.Sprintf("SymmetricDiff(equal=%s) stopped after %d yields gave %v, reference prefix %v (yield after stop: %v)",
				eqNames[kind], j, got, want[:j], again)
		}
	}
	return full, ""
}

// ---------------------------------------------------------------- reducer

const prime = 1000003

func pmod(x, m int64) int64 { return ((x % m) + m) % m }

// affine maps x -> a*x+b over Z/prime encoded as a*prime+b: associative, not commutative.
func rproject(k, v int64) int64 {
	return (1+pmod(k*31+v*17, prime-1))*prime + pmod(k*7+v+1, prime)
}

func rcombine(x, y int64) int64 {
	a1, b1 := x/prime, x%prime
	a2, b2 := y/prime, y%prime
	return ((a1*a2)%prime)*prime + (a2*b1+b2)%prime
}

func refFold(r refv) (int64, string, bool) {
	if len(r.sorted) == 0 {
		return 0, "", false
	}
	acc := rproject(r.sorted[0].k, r.sorted[0].v)
	var sb strings.Builder
	fmt.Fprintf(&sb, "%d:%d,", r.sorted[0].k, r.sorted[0].v)
	for _, x := range r.sorted[1:] {
		acc = rcombine(acc, rproject(x.k, x.v))
		fmt.Fprintf(&sb, "%d:%d,", x.k, x.v)
	}
	return acc, sb.String(), true
}

type reduceCheck struct {
	seq []int
	got []int64
	ok  []bool
}

func (r reduceCheck) coq() string {
	rs := make([]string, len(r.got))
	for i := range r.got {
		if r.ok[i] {
			rs[i] = fmt.Sprintf("Some %s", hx.Z(r.got[i]))
		} else {
			rs[i] = "None"
		}
	}
	return fmt.Sprintf("CReduce %s [%s]", hx.NatList(r.seq), strings.Join(rs, "; "))
}

// checkReducer feeds one affine reducer and one free-monoid (string concatenation) reducer
// the given sequence of versions and compares every answer with the full in-order fold.
func checkReducer(seq []int, versions []Map, refs []refv, rep *hx.Report) (rc reduceCheck, complaint string) {
	affine := pmap.NewReducer(rproject, rcombine)
	free := pmap.NewReducer(func(k, v int64) string { return fmt.Sprintf("%d:%d,", k, v) }, func(a, b string) string { return a + b })
	rc.seq = seq
	lastMemo := 0
	for step, i := range seq {
		got, ok := affine.Reduce(versions[i])
		gotS, okS := free.Reduce(versions[i])
		want, wantS, wantOK := refs[i].foldA, refs[i].foldS, refs[i].foldOK
		rc.got = append(rc.got, got)
		rc.ok = append(rc.ok, ok)
		rep.Count("reduce")
		if ml := affine.MemoLen(); ml < lastMemo {
			rep.Count("reduce_pruned")
			lastMemo = ml
		} else {
			lastMemo = ml
		}
		if complaint != "" {
			continue
		}
		if ok != wantOK || (ok && got != want) {
			complaint = fmt.Sprintf("Reduce (affine) at step %d of %v on v%d = %d,%v; in-order fold %d,%v", step, seq, i, got, ok, want, wantOK)
		}
		if okS != wantOK || (okS && gotS != wantS) {
			complaint = fmt.Sprintf("Reduce (concatenation) at step %d of %v on v%d = %q,%v; in-order fold %q,%v", step, seq, i, gotS, okS, wantS, wantOK)
		}
		if affine.MemoLen() < versions[i].Len() {
			complaint = fmt.Sprintf("memo holds %d folds after reducing a map of %d entries", affine.MemoLen(), versions[i].Len())
		}
	}
	return
}

// ---------------------------------------------------------------- histories

type history struct {
	preamble string // how versions[0] was built, when it is not the empty map
	ops      []op
	versions []Map // versions[0] is the empty map; ops[i] creates versions[i+1]
	refs     []refv
	obs      []obs // obs[i] describes versions[i]
}

func newHistory(c *checker) *history {
	h := &history{}
	var empty Map
	h.versions = []Map{empty}
	h.refs = []refv{mkRef(map[int64]int64{})}
	o, _ := c.verify(empty, h.refs[0], false)
	h.obs = []obs{o}
	return h
}

func (h *history) strs() []string {
	out := make([]string, len(h.ops))
	for i, o := range h.ops {
		out[i] = fmt.Sprintf("v%d := %s", i+1, o.String())
	}
	if h.preamble != "" {
		out = append([]string{h.preamble}, out...)
	}
	return out
}

func (h *history) violation(rep *hx.Report, what string, extra map[string]any) {
	replay := map[string]any{"ops": h.strs()}
	for k, v := range extra {
		replay[k] = v
	}
	rep.AddViolation(hx.Violation{Property: "C16", What: what, Key: "pmap:" + strings.Join(h.strs(), ";"), Replay: replay})
}

// push applies an operation, checks the new version and re-reads all earlier ones.
func (h *history) push(c *checker, o op, record bool) (ok bool) {
	ok = true
	defer func() {
		if rec := recover(); rec != nil {
			h.ops = append(h.ops, o)
			h.violation(c.rep, fmt.Sprintf("panic in %s: %v", o.String(), rec), nil)
			h.ops = h.ops[:len(h.ops)-1]
			ok = false
		}
	}()
	src := h.versions[o.src]
	r := h.refs[o.src].apply(o)
	m := applyReal(src, o)
	c.rep.Count(o.kind)
	observed, complaint := c.verify(m, r, record)
	h.ops = append(h.ops, o)
	h.versions = append(h.versions, m)
	h.refs = append(h.refs, r)
	h.obs = append(h.obs, observed)
	if complaint != "" {
		h.violation(c.rep, fmt.Sprintf("v%d: %s", len(h.versions)-1, complaint), nil)
		ok = false
	}
	for i := 0; i < len(h.versions)-1; i++ {
		c.rep.Count("reread")
		if what := reread(h.versions[i], h.refs[i], h.obs[i]); what != "" {
			h.violation(c.rep, fmt.Sprintf("persistence: v%d changed after v%d was made: %s", i, len(h.versions)-1, what),
				map[string]any{"changed_version": i})
			ok = false
			break
		}
	}
	return ok
}

func (h *history) pop() {
	n := len(h.ops) - 1
	h.ops, h.versions, h.refs, h.obs = h.ops[:n], h.versions[:n+1], h.refs[:n+1], h.obs[:n+1]
}

// diffPair checks both directions of one pair with every equality.
func (h *history) diffPair(c *checker, a, b int, allStops bool, keep *[]diffCheck) bool {
	for kind := 0; kind < 3; kind++ {
		c.rep.Count("diff")
		full, complaint := checkDiff(c.rng, h.versions[a], h.versions[b], h.refs[a], h.refs[b], kind, allStops)
		if complaint != "" {
			h.violation(c.rep, fmt.Sprintf("v%d.SymmetricDiff(v%d): %s", a, b, complaint), map[string]any{"older": a, "newer": b, "equal": eqNames[kind]})
			return false
		}
		if len(full) > 0 {
			c.rep.Count("diff_nonempty")
		}
		if keep != nil {
			d := diffCheck{a: a, b: b, kind: kind, got: full}
			if len(full) > 1 && c.rng.Chance(1, 3) {
				d.stop = 1 + c.rng.Intn(len(full))
				d.got = full[:d.stop]
			}
			*keep = append(*keep, d)
		}
	}
	return true
}

func (h *history) reducerSeqs(c *checker, thorough bool) [][]int {
	n := len(h.versions)
	var seqs [][]int
	fwd := make([]int, n)
	rev := make([]int, n)
	for i := 0; i < n; i++ {
		fwd[i] = i
		rev[i] = n - 1 - i
	}
	seqs = append(seqs, fwd, rev)
	extra := 2
	if thorough {
		extra = 6
	}
	for e := 0; e < extra; e++ {
		l := 1 + c.rng.Intn(2*n)
		s := make([]int, l)
		for i := range s {
			s[i] = c.rng.Intn(n)
		}
		seqs = append(seqs, s)
	}
	return seqs
}

func (h *history) coq(checks []string) string {
	steps := make([]string, len(h.ops))
	for i, o := range h.ops {
		steps[i] = fmt.Sprintf("(%s, %s)", o.coq(), h.obs[i+1].coq())
	}
	return fmt.Sprintf("([%s],\n [%s])", strings.Join(steps, ";\n  "), strings.Join(checks, ";\n  "))
}

func (h *history) nontrivial() bool {
	big, overwrite := false, false
	for i, o := range h.ops {
		if len(h.refs[i+1].m) >= 3 {
			big = true
		}
		src := h.refs[o.src].m
		switch o.kind {
		case "set", "delete":
			if _, ok := src[o.k]; ok {
				overwrite = true
			}
		case "setall":
			for _, x := range o.kvs {
				if _, ok := src[x.k]; ok {
					overwrite = true
				}
			}
		case "deleteall":
			for _, k := range o.keys {
				if _, ok := src[k]; ok {
					overwrite = true
				}
			}
		}
	}
	return big && overwrite
}

// ---------------------------------------------------------------- main

func alphabet(nkeys, nvals int) []op {
	vals := []int64{1, 3, 2}[:nvals]
	var out []op
	var odd, every []kv
	for k := int64(0); k < int64(nkeys); k++ {
		for _, v := range vals {
			out = append(out, op{kind: "set", k: k, v: v})
		}
		out = append(out, op{kind: "delete", k: k})
		if k%2 == 1 {
			odd = append([]kv{{k, 4}}, odd...) // handed over in descending order: SetAll sorts
		}
		every = append(every, kv{(k + 2) % int64(nkeys), 5 + k%2})
	}
	last := int64(nkeys - 1)
	out = append(out,
		op{kind: "setall", kvs: odd},
		op{kind: "setall", kvs: every},
		op{kind: "deleteall", keys: []int64{1, 0}},
		op{kind: "deleteall", keys: []int64{last, 1, last, 2}},
	)
	return out
}

type exploreCfg struct {
	alpha     []op
	length    int
	redLen    int
	branching bool
	wantCoq   bool
	quota     int // Coq cases this top-level branch may contribute
	probeKeys []int64
}

// coqCase is a history printed for the model, with the signatures of the tree-shape
// transitions (source shape, operation, resulting shape) it contains.
type coqCase struct {
	text  string
	sigs  []uint64
	novel bool // recorded because it showed a transition not yet in the sample
}

type exploreOut struct {
	rep     *hx.Report
	cases   []coqCase
	samples []any
}

// shapeOf is the shape of a tree regardless of which keys it holds: the preorder walk with
// every key replaced by its rank.
func shapeOf(pre []int64) []int64 {
	sorted := append([]int64(nil), pre...)
	sort.Slice(sorted, func(i, j int) bool { return sorted[i] < sorted[j] })
	out := make([]int64, len(pre))
	for i, k := range pre {
		out[i] = int64(sort.Search(len(sorted), func(j int) bool { return sorted[j] >= k }))
	}
	return out
}

// opSig identifies a shape transition: source shape, operation kind, where its keys fall
// in the source (rank and presence), resulting shape.
func opSig(src obs, o op, dst obs) uint64 {
	xs := append([]int64{int64(len(o.kind))}, shapeOf(src.pre)...)
	xs = append(xs, -7)
	xs = append(xs, shapeOf(dst.pre)...)
	xs = append(xs, -7)
	where := func(k int64) {
		i := sort.Search(len(src.all), func(j int) bool { return src.all[j].k >= k })
		present := int64(0)
		if i < len(src.all) && src.all[i].k == k {
			present = 1
		}
		xs = append(xs, int64(i), present)
	}
	switch o.kind {
	case "set", "delete":
		where(o.k)
	case "setall":
		for _, x := range o.kvs {
			where(x.k)
		}
	case "deleteall":
		for _, k := range o.keys {
			where(k)
		}
	}
	return digest(xs)
}

// explore enumerates every history that starts with alpha[first] (applied to the empty
// map). Top-level branches are independent, so they run in parallel; each derives its
// random choices (early-exit points, reducer walks, the Coq sample) from its own stream.
func explore(cfg exploreCfg, first int, seed uint64) exploreOut {
	rep := hx.NewReport("pmaptrace", seed)
	rng := hx.NewRand(seed*1000003 + uint64(first) + 1)
	out := exploreOut{rep: rep}
	c := &checker{rng: rng, full: true, probeKeys: cfg.probeKeys, rep: rep}
	leaves := 1
	for i := 1; i < cfg.length; i++ {
		if cfg.branching {
			leaves *= len(cfg.alpha) * (i + 1)
		} else {
			leaves *= len(cfg.alpha)
		}
	}
	stride := 1
	if cfg.quota > 0 && leaves > cfg.quota {
		stride = leaves / cfg.quota
	}
	offset := rng.Intn(stride)
	leaf := 0
	h := newHistory(c)
	stop := false
	// The Coq sample is chosen for coverage first: a complete history is recorded when it
	// contains a shape transition no recorded history of this branch has shown; the rest of
	// the quota is spread evenly over the complete histories.
	covered := map[uint64]bool{}
	var pathSigs []uint64
	var rec func(depth int)
	visit := func(depth int, o op) {
		ok := h.push(c, o, false)
		pathSigs = append(pathSigs, opSig(h.obs[o.src], o, h.obs[len(h.obs)-1]))
		defer func() { pathSigs = pathSigs[:len(pathSigs)-1] }()
		rep.Evaluations++
		if h.nontrivial() {
			rep.Distinct++
		}
		// the new version against every version of the history, both ways
		n := len(h.versions) - 1
		for a := 0; a <= n && ok; a++ {
			ok = h.diffPair(c, a, n, true, nil) && (a == n || h.diffPair(c, n, a, true, nil))
		}
		if ok {
			rec(depth + 1)
		} else if len(rep.Violations) >= 10 {
			stop = true
		}
		h.pop()
	}
	rec = func(depth int) {
		if stop {
			return
		}
		if depth == cfg.length {
			sampled := cfg.wantCoq && cfg.quota > 0 && leaf%stride == offset
			lastNovel := -1
			if cfg.wantCoq {
				for i, sg := range pathSigs {
					if !covered[sg] {
						lastNovel = i
					}
				}
			}
			leaf++
			rep.Sizes[fmt.Sprintf("len%d", depth)]++
			var checks []string
			for _, seq := range h.reducerSeqs(c, false) {
				rc, complaint := checkReducer(seq, h.versions, h.refs, rep)
				if complaint != "" {
					h.violation(rep, complaint, map[string]any{"reducer_sequence": seq})
				}
				if sampled {
					checks = append(checks, rc.coq())
				}
			}
			switch {
			case sampled:
				// a full case: the history re-run with the probes recorded, all pairs diffed
				h2 := newHistory(c)
				for _, o := range h.ops {
					h2.push(c, o, true)
				}
				var ds []diffCheck
				for a := range h2.versions {
					for b := range h2.versions {
						if len(h2.versions) <= 6 || c.rng.Chance(1, 2) {
							h2.diffPair(c, a, b, false, &ds)
						}
					}
				}
				for _, d := range ds {
					checks = append(checks, d.coq())
				}
				for _, sg := range pathSigs {
					covered[sg] = true
				}
				out.cases = append(out.cases, coqCase{text: h2.coq(checks), sigs: append([]uint64(nil), pathSigs...)})
				if len(out.samples) < 1 {
					out.samples = append(out.samples, map[string]any{"ops": h2.strs(), "last_version": fmt.Sprint(h2.refs[len(h2.refs)-1].sorted)})
				}
			case lastNovel >= 0:
				// a light case, recorded for coverage: the shortest prefix that shows every shape
				// transition of this history not yet in the sample, a few diffs, one reducer walk
				p := lastNovel + 1
				h2 := newHistory(c)
				for _, o := range h.ops[:p] {
					h2.push(c, o, true)
				}
				var ds []diffCheck
				for i := 0; i < 4; i++ {
					h2.diffPair(c, c.rng.Intn(p+1), c.rng.Intn(p+1), false, &ds)
				}
				if len(ds) > 4 {
					ds = ds[len(ds)-4:]
				}
				fwd := make([]int, p+1)
				for i := range fwd {
					fwd[i] = i
				}
				rc, _ := checkReducer(fwd, h2.versions, h2.refs, rep)
				checks = []string{rc.coq()}
				for _, d := range ds {
					checks = append(checks, d.coq())
				}
				for _, sg := range pathSigs[:p] {
					covered[sg] = true
				}
				out.cases = append(out.cases, coqCase{text: h2.coq(checks), sigs: append([]uint64(nil), pathSigs[:p]...), novel: true})
			}
			return
		}
		for _, base := range cfg.alpha {
			lo := depth
			if cfg.branching {
				lo = 0
			}
			for src := lo; src <= depth && !stop; src++ {
				o := base
				o.src = src
				visit(depth, o)
			}
		}
	}
	if cfg.length >= 1 {
		o := cfg.alpha[first]
		o.src = 0
		visit(0, o)
	}
	// exhaustive reducer orders on short histories: every sequence of up to 4 reductions over
	// the versions of every history (any source version) of length <= redLen
	short := cfg.redLen
	if cfg.length < short {
		short = cfg.length
	}
	var rrec func(depth int)
	rrec = func(depth int) {
		n := len(h.versions)
		seq := []int{}
		var srec func()
		srec = func() {
			if len(seq) > 0 {
				if _, complaint := checkReducer(append([]int(nil), seq...), h.versions, h.refs, rep); complaint != "" {
					h.violation(rep, complaint, map[string]any{"reducer_sequence": append([]int(nil), seq...)})
				}
			}
			if len(seq) == 4 {
				return
			}
			for i := 0; i < n; i++ {
				seq = append(seq, i)
				srec()
				seq = seq[:len(seq)-1]
			}
		}
		srec()
		if depth == short {
			return
		}
		for _, base := range cfg.alpha {
			for src := 0; src <= depth; src++ {
				o := base
				o.src = src
				if h.push(c, o, false) {
					rrec(depth + 1)
				}
				h.pop()
			}
		}
	}
	if short >= 1 {
		o := cfg.alpha[first]
		o.src = 0
		if h.push(c, o, false) {
			rrec(1)
		}
		h.pop()
	}
	return out
}

// ------------------------------------------------------------------ adversarial shapes

// shapeTree is a binary tree shape; keys are assigned in order.
type shapeTree struct{ l, r *shapeTree }

func (t *shapeTree) height() int {
	if t == nil {
		return 0
	}
	return 1 + max(t.l.height(), t.r.height())
}

// mkShape: "dense" = perfect tree of height h; "sparseL"/"sparseR" = the sparsest AVL tree of
// height h (Fibonacci tree), taller side left / right; "shrinkL"/"shrinkR" = the densest tree
// of height h that loses a level when its minimum / maximum is removed.
func mkShape(kind string, h int) *shapeTree {
	if h <= 0 {
		return nil
	}
	switch kind {
	case "dense":
		return &shapeTree{mkShape(kind, h-1), mkShape(kind, h-1)}
	case "sparseL":
		return &shapeTree{mkShape(kind, h-1), mkShape(kind, h-2)}
	case "sparseR":
		return &shapeTree{mkShape(kind, h-2), mkShape(kind, h-1)}
	case "shrinkL":
		// the densest tree of height h that loses a level when its smallest key is removed:
		// all of its height hangs on the path to the minimum
		return &shapeTree{mkShape(kind, h-1), mkShape("dense", h-2)}
	default: // shrinkR: loses a level when its largest key is removed
		return &shapeTree{mkShape("dense", h-2), mkShape(kind, h-1)}
	}
}

// runShapes builds, for every pair of subtree shapes an AVL node can have (heights differing by
// at most one; each side perfect or Fibonacci-sparse: the pairs in which SIZE and HEIGHT
// disagree about which side is bigger are among them), the tree with exactly that shape --
// keys inserted level by level, which needs no rotation -- and then deletes, from that one
// version, the root key, the keys of the root's children and the extreme keys, with every
// check of the random mode after each operation (invariants of the new version included).
func runShapes(rng *hx.Rand, maxH int, rep *hx.Report) {
	kinds := []string{"dense", "sparseL", "sparseR", "shrinkL", "shrinkR"}
	for hl := 1; hl <= maxH; hl++ {
		for hr := hl - 1; hr <= hl+1; hr++ {
			if hr < 1 || hr > maxH {
				continue
			}
			for _, kl := range kinds {
				for _, kr := range kinds {
					root := &shapeTree{mkShape(kl, hl), mkShape(kr, hr)}
					// keys in order, insertion order by level
					keyOf := map[*shapeTree]int64{}
					var next int64
					var number func(t *shapeTree)
					number = func(t *shapeTree) {
						if t == nil {
							return
						}
						number(t.l)
						keyOf[t] = next
						next++
						number(t.r)
					}
					number(root)
					var order []int64
					for level := []*shapeTree{root}; len(level) > 0; {
						var nextLevel []*shapeTree
						for _, t := range level {
							order = append(order, keyOf[t])
							if t.l != nil {
								nextLevel = append(nextLevel, t.l)
							}
							if t.r != nil {
								nextLevel = append(nextLevel, t.r)
							}
						}
						level = nextLevel
					}
					var m Map
					ref := map[int64]int64{}
					for _, k := range order {
						m = m.Set(k, k%7)
						ref[k] = k % 7
					}
					var probeKeys []int64
					for k := int64(-2); k < next+2; k++ {
						probeKeys = append(probeKeys, k)
					}
					c := &checker{rng: rng.Fork(), full: false, probeKeys: probeKeys, rep: rep}
					h := newHistory(c)
					h.preamble = fmt.Sprintf("v0 := the tree with a %s left subtree of height %d and a %s right subtree of height %d: keys 0..%d set level by level (%d entries, root key %d)",
						kl, hl, kr, hr, next-1, next, keyOf[root])
					h.versions[0], h.refs[0] = m, mkRef(ref)
					o0, complaint := c.verify(m, h.refs[0], false)
					h.obs[0] = o0
					rep.Evaluations++
					rep.Count(fmt.Sprintf("shape:%s/%s", kl, kr))
					rep.Sizes[fmt.Sprintf("entries<=%d", (int(next)/100+1)*100)]++
					if complaint != "" {
						h.violation(rep, "v0: "+complaint, nil)
						continue
					}
					victims := []int64{keyOf[root], 0, next - 1}
					if root.l != nil {
						victims = append(victims, keyOf[root.l])
					}
					if root.r != nil {
						victims = append(victims, keyOf[root.r])
					}
					for _, k := range victims {
						if !h.push(c, op{kind: "delete", src: 0, k: k}, false) {
							break
						}
					}
					// and a run of deletions from the latest version: the root key again and again
					for i := 0; i < 6 && len(h.refs[len(h.refs)-1].sorted) > 0; i++ {
						last := h.refs[len(h.refs)-1].sorted
						if !h.push(c, op{kind: "delete", src: len(h.versions) - 1, k: last[len(last)/2].k}, false) {
							break
						}
					}
				}
			}
		}
	}
}

func main() {
	var (
		mode    = flag.String("mode", "random", "exhaustive (each operation applied to the latest version) | branching (to any earlier version) | random")
		length  = flag.Int("len", 5, "exhaustive/branching: history length")
		nkeys   = flag.Int("nkeys", 4, "exhaustive/branching: size of the key universe")
		nvals   = flag.Int("vals", 2, "exhaustive/branching: distinct values per key in Set (1..3)")
		redLen  = flag.Int("redlen", 2, "exhaustive/branching: histories up to this length get every sequence of up to 4 reductions")
		workers = flag.Int("workers", 0, "exhaustive/branching: parallel top-level branches (0 = GOMAXPROCS)")
		count   = flag.Int("n", 200, "random: number of histories")
		maxKeys = flag.Int("keys", 400, "random: largest key universe")
		maxOps  = flag.Int("ops", 300, "random: longest history")
		seed    = flag.Uint64("seed", 1, "seed")
		coqOut  = flag.String("coq", "", "Gallina cases file to write")
		coqMax  = flag.Int("coqmax", 300, "at most this many histories go to the Gallina file")
		jsonOut = flag.String("json", "", "report file")
	)
	flag.Parse()
	debug.SetGCPercent(800) // many short-lived small objects; trade memory for time
	rep := hx.NewReport("pmaptrace", *seed)
	rng := hx.NewRand(*seed)
	var cases []string
	sampleCount := 0
	sample := func(h *history) {
		if sampleCount < 3 {
			sampleCount++
			rep.Samples = append(rep.Samples, map[string]any{"ops": h.strs(), "last_version": fmt.Sprint(h.refs[len(h.refs)-1].sorted)})
		}
	}

	if *mode == "shapes" {
		runShapes(rng, *length, rep)
		rep.Rule = fmt.Sprintf("every tree whose root has a left and a right subtree of heights differing by at most one (heights 1..%d), each side perfect, Fibonacci-sparse "+
			"(left- or right-leaning) or the densest tree that shrinks when its minimum / maximum goes, built level by level; from it: delete the root key, the children's keys, the extreme keys, then six times the median key; "+
			"all observables and the tree invariants after every operation, re-read of all earlier versions; implementation only", *length)
		rep.Distinct = rep.Evaluations
		rep.Exhaustive = true
		if *jsonOut != "" {
			if err := rep.Write(*jsonOut); err != nil {
				fmt.Fprintln(os.Stderr, err)
				os.Exit(2)
			}
		}
		fmt.Printf("pmaptrace shapes: %d trees, %d violations\n", rep.Evaluations, len(rep.Violations))
		return
	}
	if *mode == "valuetypes" {
		runValueTypes(rng, *count, *maxOps, rep)
		rep.Rule = fmt.Sprintf("%d random histories of <= %d Set/Delete operations over 6 keys for each of the value types float64 (with +0, -0, NaN), []int, any, func: "+
			"Len/Get/iteration after every operation and SymmetricDiff against a random earlier version, reference = a plain Go map; implementation only", *count, *maxOps)
		rep.Distinct = rep.Evaluations
		if *jsonOut != "" {
			if err := rep.Write(*jsonOut); err != nil {
				fmt.Fprintln(os.Stderr, err)
				os.Exit(2)
			}
		}
		fmt.Printf("pmaptrace valuetypes: %d operations, %d violations\n", rep.Evaluations, len(rep.Violations))
		return
	}
	if *mode == "exhaustive" || *mode == "branching" {
		branching := *mode == "branching"
		alpha := alphabet(*nkeys, *nvals)
		cfg := exploreCfg{alpha: alpha, length: *length, redLen: *redLen, branching: branching, wantCoq: *coqOut != "",
			quota: (*coqMax + len(alpha) - 1) / len(alpha)}
		for k := int64(-1); k <= int64(*nkeys); k++ {
			cfg.probeKeys = append(cfg.probeKeys, k)
		}
		outs := make([]exploreOut, len(alpha))
		nw := *workers
		if nw <= 0 {
			nw = runtime.GOMAXPROCS(0)
		}
		var wg sync.WaitGroup
		next := make(chan int)
		for w := 0; w < nw; w++ {
			wg.Add(1)
			go func() {
				defer wg.Done()
				for i := range next {
					outs[i] = explore(cfg, i, *seed)
				}
			}()
		}
		for i := range alpha {
			next <- i
		}
		close(next)
		wg.Wait()
		for _, o := range outs { // merged in branch order, so the result does not depend on scheduling
			rep.Evaluations += o.rep.Evaluations
			rep.Distinct += o.rep.Distinct
			for k, v := range o.rep.Histogram {
				rep.Histogram[k] += v
			}
			for k, v := range o.rep.Sizes {
				rep.Sizes[k] += v
			}
			for _, v := range o.rep.Violations {
				rep.AddViolation(v)
			}
			if len(rep.Samples) < 3 {
				rep.Samples = append(rep.Samples, o.samples...)
			}
		}
		// the Coq sample: the evenly spread full cases (round-robin over the branches, up to
		// coqmax), then every light case that adds a shape transition not yet covered
		covered := map[uint64]bool{}
		for round := 0; len(cases) < *coqMax; round++ {
			added := false
			for _, o := range outs {
				n := 0
				for _, cs := range o.cases {
					if cs.novel {
						continue
					}
					if n == round && len(cases) < *coqMax {
						cases = append(cases, cs.text)
						for _, sg := range cs.sigs {
							covered[sg] = true
						}
						added = true
					}
					n++
				}
			}
			if !added {
				break
			}
		}
		rep.Histogram["coq_cases_full"] = len(cases)
		for _, o := range outs {
			for _, cs := range o.cases {
				if !cs.novel || rep.Histogram["coq_cases_for_coverage"] >= 6**coqMax {
					continue
				}
				adds := false
				for _, sg := range cs.sigs {
					if !covered[sg] {
						adds = true
					}
				}
				if adds {
					for _, sg := range cs.sigs {
						covered[sg] = true
					}
					cases = append(cases, cs.text)
					rep.Histogram["coq_cases_for_coverage"]++
				}
			}
		}
		rep.Histogram["shape_transitions_in_coq_sample"] = len(covered)
		rep.Exhaustive = true
		how := "each applied to the latest version"
		if branching {
			how = "each applied to every earlier version in turn (histories are trees of versions)"
		}
		rep.Rule = fmt.Sprintf("every history of length <= %d over keys 0..%d with operations Set(k,v) for %d values per key, Delete(k), "+
			"2 SetAll maps and 2 DeleteAll lists, %s; after every operation: all observables of the new version, re-read of all "+
			"earlier versions, SymmetricDiff of the new version against every version of the history both ways with equal in "+
			"{==, nil, mod 2} and every early exit; reducers at the complete histories and, for histories of length <= %d (any source "+
			"version), every sequence of up to 4 reductions; evaluations = histories (distinct by construction); non-trivial = some version has >= 3 keys and "+
			"some operation hits a key present in its source version", *length, *nkeys-1, *nvals, how, *redLen)
	} else {
		distinct := map[uint64]struct{}{}
		for i := 0; i < *count; i++ {
			r := rng.Fork()
			small := i%2 == 0 // small histories go to the model as well
			var universe, nops int
			if small {
				universe = r.Range(3, 14)
				nops = r.Range(4, 24)
			} else {
				universe = []int{8, 40, 150, *maxKeys}[r.Intn(4)]
				nops = r.Range(20, *maxOps)
			}
			lo := -int64(universe / 2)
			key := func() int64 { return lo + int64(r.Intn(universe)) }
			val := func() int64 {
				if r.Chance(1, 10) {
					return int64(r.Range(-1000, 1000))
				}
				return int64(r.Range(-2, 4))
			}
			var probeKeys []int64
			for k := lo - 2; k < lo+int64(universe)+2; k++ {
				probeKeys = append(probeKeys, k)
			}
			c := &checker{rng: r, full: false, probeKeys: probeKeys, rep: rep}
			h := newHistory(c)
			ok := true
			shrinking := false
			for len(h.ops) < nops && ok {
				var o op
				nv := len(h.versions)
				if r.Chance(3, 5) {
					o.src = nv - 1
				} else {
					o.src = r.Intn(nv)
				}
				src := h.refs[o.src]
				present := func() int64 {
					if len(src.sorted) == 0 {
						return key()
					}
					return src.sorted[r.Intn(len(src.sorted))].k
				}
				// histories alternate between growing and shrinking phases, so that removals
				// meet full trees (the rotations only a removal can trigger)
				if r.Chance(1, 6) {
					shrinking = !shrinking
				}
				x := r.Intn(100)
				if shrinking && x < 42 && r.Chance(3, 4) {
					x = 50 + r.Intn(22) // a delete instead of a set
				}
				switch {
				case x < 42:
					o.kind, o.k, o.v = "set", key(), val()
				case x < 50: // rebind a key to the value it already has: new node, same contents
					o.kind, o.k = "set", present()
					o.v = src.m[o.k]
				case x < 72:
					o.kind = "delete"
					if r.Chance(3, 4) {
						o.k = present()
					} else {
						o.k = key()
					}
				case x < 82:
					o.kind = "setall"
					seen := map[int64]bool{}
					for n := r.Intn(1 + universe/2); n > 0 && len(o.kvs) < 24; n-- {
						if k := key(); !seen[k] {
							seen[k] = true
							o.kvs = append(o.kvs, kv{k, val()})
						}
					}
				case x < 90:
					o.kind = "deleteall"
					for n := r.Intn(8); n > 0; n-- {
						if r.Chance(2, 3) {
							o.keys = append(o.keys, present())
						} else {
							o.keys = append(o.keys, key())
						}
					}
				case x < 95: // an unrelated map
					o.kind, o.src = "fromgomap", 0
					seen := map[int64]bool{}
					for n := r.Intn(1 + universe); n > 0; n-- {
						if k := key(); !seen[k] {
							seen[k] = true
							o.kvs = append(o.kvs, kv{k, val()})
						}
					}
				default: // an unrelated map with the contents of an existing version
					o.kind = "fromgomap"
					o.kvs = append(o.kvs, src.sorted...)
					for i := len(o.kvs) - 1; i > 0; i-- {
						j := r.Intn(i + 1)
						o.kvs[i], o.kvs[j] = o.kvs[j], o.kvs[i]
					}
					o.src = 0
				}
				ok = h.push(c, o, small)
			}
			rep.Evaluations++
			rep.Sizes[fmt.Sprintf("ops<=%d", (len(h.ops)/50+1)*50)]++
			maxLen := 0
			for _, rv := range h.refs {
				if len(rv.sorted) > maxLen {
					maxLen = len(rv.sorted)
				}
			}
			rep.Sizes[fmt.Sprintf("keys<=%d", (maxLen/50+1)*50)]++
			if !ok {
				continue
			}
			if h.nontrivial() {
				distinct[digestStr(strings.Join(h.strs(), ";"))] = struct{}{}
			}
			// diffs between random pairs (all pairs for short histories)
			nv := len(h.versions)
			var ds []diffCheck
			var keep *[]diffCheck
			if small {
				keep = &ds
			}
			if nv*nv <= 150 {
				for a := 0; a < nv && ok; a++ {
					for b := 0; b < nv && ok; b++ {
						ok = h.diffPair(c, a, b, maxLen <= 16, keep)
					}
				}
			} else {
				for p := 0; p < 150 && ok; p++ {
					a, b := r.Intn(nv), r.Intn(nv)
					if r.Chance(1, 3) && a > 0 { // a close relative: lots of sharing
						b = a - 1
					}
					ok = h.diffPair(c, a, b, false, keep)
					if ok {
						rep.Histogram["shared_nodes_seen"] += pmap.VerifShared(h.versions[a], h.versions[b])
					}
				}
			}
			// reducers
			var checks []string
			seqs := h.reducerSeqs(c, true)
			if !small {
				// a long walk over many maps, then small maps: the memo must be pruned
				walk := make([]int, 0, 3*nv)
				for i := 0; i < 2*nv; i++ {
					walk = append(walk, r.Intn(nv))
				}
				walk = append(walk, 0, r.Intn(nv), 0)
				seqs = append(seqs, walk)
			}
			for _, seq := range seqs {
				rc, complaint := checkReducer(seq, h.versions, h.refs, rep)
				if complaint != "" {
					h.violation(rep, complaint, map[string]any{"reducer_sequence": seq})
					ok = false
				}
				if small && len(checks) < 4 {
					checks = append(checks, rc.coq())
				}
			}
			if small && ok && *coqOut != "" && len(cases) < *coqMax {
				if len(ds) > 60 {
					for i := len(ds) - 1; i > 0; i-- {
						j := r.Intn(i + 1)
						ds[i], ds[j] = ds[j], ds[i]
					}
					ds = ds[:60]
				}
				for _, d := range ds {
					checks = append(checks, d.coq())
				}
				cases = append(cases, h.coq(checks))
				sample(h)
			}
		}
		rep.Distinct = len(distinct)
		rep.Rule = fmt.Sprintf("%d random histories; half small (3-14 keys, 4-24 operations, replayed on the model too), half large (up to %d "+
			"keys, up to %d operations); operations Set (also rebinding a key to its present value), Delete (present and absent keys), SetAll, "+
			"DeleteAll (with repeats), FromGoMap (unrelated maps, also with the contents of an existing version), applied to the latest version "+
			"(3/5) or a random earlier one; after every operation all observables of the new version and a re-read of ALL earlier versions; "+
			"SymmetricDiff on all pairs (short histories) or 150 random pairs with equal in {==, nil, mod 2} and early exits; reducers driven "+
			"forward, backward, through random walks with revisits and through a long walk ending in small maps (prune); non-trivial = some "+
			"version has >= 3 keys and some operation hits a key present in its source; distinct by operation sequence", *count, *maxKeys, *maxOps)
	}

	if *coqOut != "" {
		rep.CoqCases = len(cases)
		var b strings.Builder
		b.WriteString("From incr Require Import Base PMap PMapRun.\nDefinition cases : list case := [\n")
		b.WriteString(strings.Join(cases, ";\n"))
		b.WriteString("].\nDefinition M := Eval vm_compute in mismatches cases.\nPrint M.\n")
		if err := os.WriteFile(*coqOut, []byte(b.String()), 0o644); err != nil {
			fmt.Fprintln(os.Stderr, err)
			os.Exit(2)
		}
	}
	if *jsonOut != "" {
		if err := rep.Write(*jsonOut); err != nil {
			fmt.Fprintln(os.Stderr, err)
			os.Exit(2)
		}
	}
	fmt.Printf("pmaptrace: %d histories, %d distinct non-trivial, %d violations, %d coq cases\n",
		rep.Evaluations, rep.Distinct, len(rep.Violations), rep.CoqCases)
}

func digestStr(s string) uint64 {
	h := uint64(1469598103934665603)
	for i := 0; i < len(s); i++ {
		h ^= uint64(s[i])
		h *= 1099511628211
	}
	return h
}
