// clocktrace drives the time-driven nodes of the real library (At, AtIntervals,
// StepFunction, Snapshot on one Clock) through the public API with sequences of Advance,
// observe / unobserve, input writes and passes; checks after every successful pass the
// closed form of Clock.Now() (the C15 oracle), treats a panic in Advance as a violation,
// counts invocations of a dependent Map to detect early wakes, and writes what it saw as a
// Gallina file for replay on the Coq model (ClockRun.v).
package main

import (
	"context"
	"flag"
	"fmt"
	"os"
	"strings"
	"time"

	incr "github.com/wcharczuk/go-incr"
	"verifharness/internal/hx"
)

var epoch = time.Unix(1_700_000_000, 0)

func at(ns int64) time.Time { return epoch.Add(time.Duration(ns)) }

type stepSpec struct{ at, val int64 }

type nodeSpec struct {
	kind    string // var at intervals step snapshot
	v0      int64
	when    int64
	every   int64
	initial int64
	steps   []stepSpec
	input   int
	before  int64
}

func (n nodeSpec) coq(now0 int64) string {
	switch n.kind {
	case "var":
		return "KVar " + hx.Z(n.v0)
	case "at":
		return "KAt " + hx.Z(n.when)
	case "intervals":
		return fmt.Sprintf("KIntervals %s %s", hx.Z(now0), hx.Z(n.every))
	case "step":
		parts := make([]string, len(n.steps))
		for i, s := range n.steps {
			parts[i] = fmt.Sprintf("Step %s %s", hx.Z(s.at), hx.Z(s.val))
		}
		return fmt.Sprintf("KStep %s [%s]", hx.Z(n.initial), strings.Join(parts, "; "))
	}
	return fmt.Sprintf("KSnapshot %d%%nat %s %s", n.input, hx.Z(n.when), hx.Z(n.before))
}

func (n nodeSpec) String() string {
	switch n.kind {
	case "var":
		return fmt.Sprintf("Var(%d)", n.v0)
	case "at":
		return fmt.Sprintf("At(epoch+%d)", n.when)
	case "intervals":
		return fmt.Sprintf("AtIntervals(%d)", n.every)
	case "step":
		return fmt.Sprintf("StepFunction(%d,%v)", n.initial, n.steps)
	}
	return fmt.Sprintf("Snapshot(n%d,epoch+%d,%d)", n.input, n.when, n.before)
}

type op struct {
	kind string // advance observe unobserve set stab
	t    int64
	n    int
	via  bool // observe/unobserve: through the dependent Map rather than directly
	v    int64
}

func (o op) String() string {
	switch o.kind {
	case "advance":
		return fmt.Sprintf("advance(epoch+%d)", o.t)
	case "observe", "unobserve":
		if o.via {
			return fmt.Sprintf("%s(map(n%d))", o.kind, o.n)
		}
		return fmt.Sprintf("%s(n%d)", o.kind, o.n)
	case "set":
		return fmt.Sprintf("set(n%d,%d)", o.n, o.v)
	}
	return "stabilize"
}

func (o op) coq() string {
	switch o.kind {
	case "advance":
		return "OAdvance " + hx.Z(o.t)
	case "observe":
		return fmt.Sprintf("OObserve %d%%nat", o.n)
	case "unobserve":
		return fmt.Sprintf("OUnobserve %d%%nat", o.n)
	case "set":
		return fmt.Sprintf("OSetInput %d%%nat %s", o.n, hx.Z(o.v))
	}
	return "OStabilize"
}

type tcase struct {
	now0  int64
	nodes []nodeSpec
	ops   []op
}

func (c tcase) replay(upto int) map[string]any {
	nodes := make([]string, len(c.nodes))
	for i, n := range c.nodes {
		nodes[i] = fmt.Sprintf("n%d=%v", i, n)
	}
	var ops []string
	for i, o := range c.ops {
		if upto >= 0 && i > upto {
			break
		}
		ops = append(ops, o.String())
	}
	return map[string]any{"clock_start": fmt.Sprintf("epoch+%d", c.now0), "epoch": "time.Unix(1700000000,0)", "unit": "ns",
		"nodes": nodes, "calls": ops}
}

type nodeObs struct {
	value                  int64
	nec                    bool
	height                 int
	inheap                 bool
	rec, chg, set, numrecs uint64
}

type stepObs struct {
	op       op
	skipped  bool
	panicked bool
	now      int64
	nodes    []nodeObs
}

func (s stepObs) coq() string {
	parts := make([]string, len(s.nodes))
	for i, n := range s.nodes {
		parts[i] = fmt.Sprintf("NObs %s %s %s %s %d %d %d %d", hx.Z(n.value), hx.Bool(n.nec), hx.Z(int64(n.height)),
			hx.Bool(n.inheap), n.rec, n.chg, n.set, n.numrecs)
	}
	return fmt.Sprintf("(%s, Obs %s %s [%s])", s.op.coq(), hx.Bool(s.panicked), hx.Z(s.now), strings.Join(parts, "; "))
}

// rt is a live node with its handles.
type rt struct {
	spec      nodeSpec
	inode     incr.INode
	value     func() int64
	obsDirect func() func()
	obsVia    func() func()
	unDirect  func()
	unVia     func()
	mapCount  *int
	set       func(int64)
	// oracle bookkeeping
	captured        *int64
	viaAtLastPass   bool
	setSinceLastPas bool
}

func attach[T any](g *incr.Graph, r *rt, n incr.Incr[T], conv func(T) int64) {
	ctx := context.Background()
	r.inode = n
	r.value = func() int64 { return conv(n.Value()) }
	count := 0
	r.mapCount = &count
	dep := incr.Map(g, n, func(v T) T { count++; return v })
	r.obsDirect = func() func() { o := incr.MustObserve(g, n); return func() { o.Unobserve(ctx) } }
	r.obsVia = func() func() { o := incr.MustObserve(g, dep); return func() { o.Unobserve(ctx) } }
}

func b2i(b bool) int64 {
	if b {
		return 1
	}
	return 0
}

type violation struct {
	class string
	what  string
	at    int
}

// runCase plays the calls on a fresh graph and clock.
func runCase(c tcase) (trace []stepObs, viol *violation) {
	ctx := context.Background()
	g := incr.New()
	clock := incr.NewClock(at(c.now0))
	rts := make([]*rt, len(c.nodes))
	for i, spec := range c.nodes {
		r := &rt{spec: spec}
		switch spec.kind {
		case "var":
			v := incr.Var(g, spec.v0)
			attach(g, r, incr.Incr[int64](v), func(x int64) int64 { return x })
			r.set = v.Set
		case "at":
			attach(g, r, incr.At(g, clock, at(spec.when)), b2i)
		case "intervals":
			attach(g, r, incr.AtIntervals(g, clock, time.Duration(spec.every)), func(x int) int64 { return int64(x) })
		case "step":
			steps := make([]incr.Step[int64], len(spec.steps))
			for k, s := range spec.steps {
				steps[k] = incr.Step[int64]{At: at(s.at), Value: s.val}
			}
			attach(g, r, incr.StepFunction(g, clock, spec.initial, steps...), func(x int64) int64 { return x })
		default:
			in := rts[spec.input].inode.(incr.Incr[int64])
			attach(g, r, incr.Snapshot(g, clock, in, at(spec.when), spec.before), func(x int64) int64 { return x })
		}
		rts[i] = r
	}
	nowNs := func() int64 { return int64(clock.Now().Sub(epoch)) }
	lastPassNow := c.now0
	fail := func(i int, class, what string) {
		if viol == nil {
			viol = &violation{class, what, i}
		}
	}
	for i, o := range c.ops {
		so := stepObs{op: o}
		func() {
			defer func() {
				if rec := recover(); rec != nil {
					so.panicked = true
					if o.kind == "advance" {
						fail(i, "advance-panic", fmt.Sprintf("Clock.Advance(epoch+%d) panicked: %v", o.t, rec))
					} else {
						fail(i, "panic-"+o.kind, fmt.Sprintf("%v panicked: %v", o, rec))
					}
				}
			}()
			switch o.kind {
			case "advance":
				clock.Advance(at(o.t))
			case "observe":
				r := rts[o.n]
				if o.via {
					if r.unVia != nil {
						so.skipped = true
					} else {
						r.unVia = r.obsVia()
					}
				} else if r.unDirect != nil {
					so.skipped = true
				} else {
					r.unDirect = r.obsDirect()
				}
			case "unobserve":
				r := rts[o.n]
				if o.via {
					if r.unVia == nil {
						so.skipped = true
					} else {
						r.unVia()
						r.unVia = nil
						r.viaAtLastPass = false
					}
				} else if r.unDirect == nil {
					so.skipped = true
				} else {
					r.unDirect()
					r.unDirect = nil
				}
			case "set":
				r := rts[o.n]
				if r.set == nil {
					so.skipped = true
				} else {
					r.set(o.v)
					for _, d := range rts {
						if d.spec.kind == "snapshot" && d.spec.input == o.n {
							d.setSinceLastPas = true
						}
					}
				}
			case "stab":
				before := make([]int, len(rts))
				for k, r := range rts {
					before[k] = *r.mapCount
				}
				if err := g.Stabilize(ctx); err != nil {
					fail(i, "pass-error", fmt.Sprintf("Stabilize returned %v", err))
				}
				now := nowNs()
				for k, r := range rts {
					necessary := r.unDirect != nil || r.unVia != nil
					for _, d := range rts { // a snapshot keeps its input necessary
						if d.spec.kind == "snapshot" && d.spec.input == k && (d.unDirect != nil || d.unVia != nil) {
							necessary = true
						}
					}
					got := r.value()
					var want int64
					triggered := false // a trigger in (lastPassNow, now]
					switch r.spec.kind {
					case "var":
						continue
					case "at":
						want = b2i(now >= r.spec.when)
						triggered = lastPassNow < r.spec.when && r.spec.when <= now
					case "intervals":
						want = floorDiv(now-c.now0, r.spec.every)
						triggered = want > floorDiv(lastPassNow-c.now0, r.spec.every)
					case "step":
						want = r.spec.initial
						best, have := int64(0), false
						for _, s := range r.spec.steps {
							if s.at <= now && (!have || s.at >= best) {
								best, have, want = s.at, true, s.val
							}
							if lastPassNow < s.at && s.at <= now {
								triggered = true
							}
						}
					case "snapshot":
						if necessary && now >= r.spec.when && r.captured == nil {
							v := rts[r.spec.input].value()
							r.captured = &v
						}
						want = r.spec.before
						if r.captured != nil {
							want = *r.captured
						}
						triggered = (lastPassNow < r.spec.when && r.spec.when <= now) || r.setSinceLastPas
						necessary = true // the snapshot law is about its value at all times
					}
					if necessary && got != want {
						fail(i, "value-"+r.spec.kind, fmt.Sprintf("n%d=%v reads %d after a successful pass at epoch+%d, the closed form gives %d",
							k, r.spec, got, now, want))
					}
					delta := *r.mapCount - before[k]
					if r.unVia != nil && r.viaAtLastPass && delta > 0 && !triggered {
						fail(i, "early-wake-"+r.spec.kind, fmt.Sprintf("the dependent of n%d=%v was recomputed in the pass at epoch+%d although no trigger of the node lies in (epoch+%d, epoch+%d]",
							k, r.spec, now, lastPassNow, now))
					}
					if delta > 1 {
						fail(i, "double-recompute", fmt.Sprintf("the dependent of n%d ran %d times in one pass", k, delta))
					}
					r.viaAtLastPass = r.unVia != nil
					r.setSinceLastPas = false
				}
				lastPassNow = now
			}
		}()
		so.now = nowNs()
		for _, r := range rts {
			en := incr.ExpertNode(r.inode)
			so.nodes = append(so.nodes, nodeObs{r.value(), en.IsNecessary(), en.Height(), en.IsInRecomputeHeap(),
				en.RecomputedAt(), en.ChangedAt(), en.SetAt(), en.NumRecomputes()})
		}
		trace = append(trace, so)
		if so.panicked {
			break // the graph is not to be trusted after a panic
		}
	}
	return
}

func floorDiv(a, b int64) int64 {
	q := a / b
	if (a%b != 0) && ((a < 0) != (b < 0)) {
		q--
	}
	return q
}

func ddmin[T any](ops []T, fails func([]T) bool) []T {
	n := 2
	for len(ops) >= 2 {
		chunk := (len(ops) + n - 1) / n
		reduced := false
		for start := 0; start < len(ops); start += chunk {
			end := start + chunk
			if end > len(ops) {
				end = len(ops)
			}
			rest := append(append([]T(nil), ops[:start]...), ops[end:]...)
			if len(rest) > 0 && fails(rest) {
				ops = rest
				if n > 2 {
					n--
				}
				reduced = true
				break
			}
		}
		if !reduced {
			if n >= len(ops) {
				break
			}
			n *= 2
			if n > len(ops) {
				n = len(ops)
			}
		}
	}
	return ops
}

func shrink(c tcase, class string) tcase {
	fails := func(ops []op) bool {
		d := c
		d.ops = ops
		_, v := runCase(d)
		return v != nil && v.class == class
	}
	c.ops = ddmin(c.ops, fails)
	return c
}

// triggers lists the times at which some node of the case is due.
func triggers(c tcase) (out []int64) {
	for _, n := range c.nodes {
		switch n.kind {
		case "at", "snapshot":
			out = append(out, n.when)
		case "intervals":
			for k := int64(1); k <= 4; k++ {
				out = append(out, c.now0+k*n.every)
			}
		case "step":
			for _, s := range n.steps {
				out = append(out, s.at)
			}
		}
	}
	return
}

func genCase(r *hx.Rand, length int, safe bool) tcase {
	c := tcase{now0: int64(r.Range(0, 20))}
	want := r.Range(1, 4)
	for k := 0; k < want; k++ {
		switch r.Intn(4) {
		case 0:
			c.nodes = append(c.nodes, nodeSpec{kind: "at", when: c.now0 + int64(r.Range(-3, 40))})
		case 1:
			c.nodes = append(c.nodes, nodeSpec{kind: "intervals", every: int64(r.Range(1, 12))})
		case 2:
			n := nodeSpec{kind: "step", initial: int64(r.Range(-5, 5))}
			for s := r.Range(0, 5); s > 0; s-- {
				n.steps = append(n.steps, stepSpec{c.now0 + int64(r.Range(-3, 40)), int64(r.Range(10, 99))})
			}
			if len(n.steps) >= 2 && r.Chance(1, 2) { // equal times: the later-listed one wins
				n.steps[len(n.steps)-1].at = n.steps[0].at
			}
			if r.Chance(1, 4) {
				// a long schedule with many equal times (a base schedule with overrides appended):
				// library sort routines change algorithm with the length of the input
				n.steps = n.steps[:0]
				for s := r.Range(13, 40); s > 0; s-- {
					n.steps = append(n.steps, stepSpec{c.now0 + int64(r.Range(-2, 12)), int64(r.Range(10, 99))})
				}
			}
			c.nodes = append(c.nodes, n)
		default:
			c.nodes = append(c.nodes, nodeSpec{kind: "var", v0: int64(r.Range(100, 199))})
			c.nodes = append(c.nodes, nodeSpec{kind: "snapshot", input: len(c.nodes) - 1, when: c.now0 + int64(r.Range(-3, 40)),
				before: int64(r.Range(-9, -1))})
		}
	}
	trig := triggers(c)
	now := c.now0
	held := make([][2]bool, len(c.nodes))
	heldCount := func(n int) int {
		k := 0
		for _, h := range held[n] {
			if h {
				k++
			}
		}
		return k
	}
	if safe { // a history in which every time node stays necessary, so the code as it is does not panic
		for n, s := range c.nodes {
			if s.kind != "var" {
				via := r.Chance(1, 2)
				c.ops = append(c.ops, op{kind: "observe", n: n, via: via})
				held[n][b2i(via)] = true
			}
		}
	}
	for len(c.ops) < length {
		switch k := r.Intn(100); {
		case k < 35:
			var t int64
			switch j := r.Intn(10); {
			case j < 1:
				t = now // equal time
			case j < 2:
				t = now - int64(r.Range(1, 10)) // rewind
			case j < 5:
				t = now + int64(r.Range(1, 3))
			case j < 7:
				t = now + int64(r.Range(10, 50))
			default:
				t = now + 1
				if len(trig) > 0 {
					t = trig[r.Intn(len(trig))] // exactly onto a trigger (possibly in the past)
				}
			}
			c.ops = append(c.ops, op{kind: "advance", t: t})
			if t > now {
				now = t
			}
		case k < 55:
			n := r.Intn(len(c.nodes))
			via := r.Chance(1, 2)
			if !held[n][b2i(via)] {
				c.ops = append(c.ops, op{kind: "observe", n: n, via: via})
				held[n][b2i(via)] = true
			}
		case k < 67:
			n := r.Intn(len(c.nodes))
			via := r.Chance(1, 2)
			if held[n][b2i(via)] {
				if safe && c.nodes[n].kind != "var" && heldCount(n) == 1 {
					continue
				}
				held[n][b2i(via)] = false
				c.ops = append(c.ops, op{kind: "unobserve", n: n, via: via})
			}
		case k < 77:
			var vars []int
			for n, s := range c.nodes {
				if s.kind == "var" {
					vars = append(vars, n)
				}
			}
			if len(vars) > 0 {
				c.ops = append(c.ops, op{kind: "set", n: vars[r.Intn(len(vars))], v: int64(r.Range(200, 299))})
			}
		default:
			c.ops = append(c.ops, op{kind: "stab"})
		}
	}
	return c
}

// probeGuard: an At node that is never observed, advanced past its time.
func probeGuard() (guarded bool) {
	c := tcase{now0: 0, nodes: []nodeSpec{{kind: "at", when: 5}}, ops: []op{{kind: "advance", t: 5}}}
	tr, _ := runCase(c)
	return !tr[0].panicked
}

func main() {
	var (
		count   = flag.Int("n", 400, "number of random histories")
		length  = flag.Int("len", 30, "calls per history")
		seed    = flag.Uint64("seed", 1, "seed")
		coqOut  = flag.String("coq", "", "Gallina cases file to write")
		coqMax  = flag.Int("coqmax", 300, "at most this many histories go to the Gallina file")
		jsonOut = flag.String("json", "", "report file")
	)
	flag.Parse()
	rep := hx.NewReport("clocktrace", *seed)
	rng := hx.NewRand(*seed)
	distinct := hx.Distinct{}
	guarded := probeGuard()
	rep.Notes = append(rep.Notes, fmt.Sprintf("probe At(epoch+5) never observed, Advance(epoch+5): panicked=%v: model variant guard_setstale=%v", !guarded, guarded))

	fixed := []tcase{
		{now0: 0, nodes: []nodeSpec{{kind: "at", when: 5}}, ops: []op{{kind: "advance", t: 5}}},
		{now0: 0, nodes: []nodeSpec{{kind: "at", when: 5}}, ops: []op{{kind: "observe", n: 0}, {kind: "stab"}, {kind: "unobserve", n: 0},
			{kind: "advance", t: 5}, {kind: "observe", n: 0}, {kind: "stab"}}},
		{now0: 3, nodes: []nodeSpec{{kind: "intervals", every: 4}, {kind: "step", initial: 1, steps: []stepSpec{{9, 20}, {5, 10}, {9, 30}}},
			{kind: "var", v0: 100}, {kind: "snapshot", input: 2, when: 8, before: -1}},
			ops: []op{{kind: "observe", n: 0}, {kind: "observe", n: 1, via: true}, {kind: "observe", n: 3}, {kind: "stab"},
				{kind: "advance", t: 6}, {kind: "stab"}, {kind: "set", n: 2, v: 200}, {kind: "advance", t: 9}, {kind: "stab"},
				{kind: "set", n: 2, v: 201}, {kind: "advance", t: 40}, {kind: "stab"}, {kind: "advance", t: 2}, {kind: "stab"}}},
	}
	var kept []string
	seenKeys := map[string]bool{}
	for k := 0; k < *count+len(fixed); k++ {
		var c tcase
		if k < len(fixed) {
			c = fixed[k]
		} else {
			r := rng.Fork()
			// with the code as it is most free histories end in the Advance panic after a few calls, so half of
			// the histories keep every time node necessary throughout
			c = genCase(r, *length, k%2 == 0)
		}
		trace, viol := runCase(c)
		rep.Evaluations++
		rep.Sizes[fmt.Sprintf("nodes%d", len(c.nodes))]++
		passes, wakes := 0, false
		var steps []string
		for i, s := range trace {
			if s.skipped {
				continue
			}
			rep.Count(s.op.kind)
			if s.panicked {
				rep.Count("panicked-" + s.op.kind)
			}
			if s.op.kind == "stab" {
				passes++
			}
			if s.op.kind == "advance" && i > 0 && !s.panicked {
				for n := range s.nodes {
					if s.nodes[n].inheap && !trace[i-1].nodes[n].inheap {
						wakes = true
					}
				}
				if s.op.t < trace[i-1].now {
					rep.Count("advance-rewind")
				}
			}
			steps = append(steps, s.coq())
		}
		kinds := make([]string, len(c.nodes))
		for i, n := range c.nodes {
			kinds[i] = n.coq(c.now0)
		}
		text := fmt.Sprintf("(%s, [%s], [%s])", hx.Z(c.now0), strings.Join(kinds, "; "), strings.Join(steps, ";\n   "))
		if passes > 0 && wakes {
			distinct.Add(text)
		}
		kept = append(kept, text)
		if len(rep.Samples) < 3 && k >= len(fixed) {
			rep.Samples = append(rep.Samples, c.replay(-1))
		}
		if viol != nil {
			c.ops = c.ops[:viol.at+1]
			small := shrink(c, viol.class)
			_, sv := runCase(small)
			if sv == nil {
				small, sv = c, viol
			}
			key := "clock:" + sv.class
			if !seenKeys[key] {
				seenKeys[key] = true
				rep.AddViolation(hx.Violation{Property: "C15", What: sv.what, Key: key, Replay: small.replay(-1)})
			}
		}
	}
	rep.Distinct = len(distinct)
	rep.Rule = fmt.Sprintf("%d random histories of %d calls over 1-4 time nodes (At, AtIntervals, StepFunction with equal-time steps, Snapshot of a var) "+
		"on one clock started at epoch+0..20ns: Advance (equal time, rewinds, jumps of 1-3 and 10-50ns, exactly onto trigger times), observe/unobserve "+
		"directly or through a dependent Map, input writes, Stabilize; every second history keeps all time nodes necessary; plus 3 fixed histories. "+
		"Non-trivial = a history with at least one pass in which some Advance woke a node; distinct by full recorded trace", *count, *length)

	if *coqOut != "" {
		sample := kept
		if len(sample) > *coqMax && *coqMax > 0 {
			var s []string
			for i := 0; i < *coqMax; i++ {
				s = append(s, kept[i*len(kept) / *coqMax])
			}
			sample = s
		}
		rep.CoqCases = len(sample)
		var b strings.Builder
		b.WriteString("From incr Require Import Base Clock ClockRun.\n")
		b.WriteString("(* model variant, determined by probing the implementation (see ClockRun.v) *)\n")
		fmt.Fprintf(&b, "Definition guard_setstale : bool := %s.\n", hx.Bool(guarded))
		b.WriteString("Definition cases : list case := [\n")
		b.WriteString(strings.Join(sample, ";\n"))
		b.WriteString("].\nDefinition M := Eval vm_compute in mismatches guard_setstale cases.\nPrint M.\n")
		if err := os.WriteFile(*coqOut, []byte(b.String()), 0o644); err != nil {
			fmt.Fprintln(os.Stderr, err)
			os.Exit(2)
		}
	}
	if *jsonOut != "" {
		if err := rep.Write(*jsonOut); err != nil {
			fmt.Fprintln(os.Stderr, err)
			os.Exit(2)
		}
	}
	fmt.Printf("clocktrace: %d histories, %d distinct non-trivial, %d violations, %d coq cases, guard_setstale=%v\n",
		rep.Evaluations, rep.Distinct, len(rep.Violations), rep.CoqCases, guarded)
}
