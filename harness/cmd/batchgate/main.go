// batchgate is the C20 adversary: through the public API only it builds a graph with
// incr.OptGraphParallelism(p) and one height block of w sibling Map nodes whose functions
// count themselves in, record the high-water mark and then block on a gate.  The driver
// runs g.ParallelStabilize in a goroutine, waits until the in-flight count stops moving,
// reads the high-water mark, opens the gate and waits for the pass to complete.
//
// A reading above p is a violation of C20 ("at most OptGraphParallelism node computations
// are in progress at the same time").  The schedule is forced by the gate, not hoped for:
// nobody finishes, so everything the library is willing to start is in flight at once;
// timing can only make the reading too low, never too high, so there are no false alarms.
//
// A second family, "interfering callers", holds such a pass at the gate and lets other
// goroutines call Stabilize / ParallelStabilize / Set+Stabilize / Set+ParallelStabilize on
// the same graph: every one of them must be turned away, and the in-flight count of the
// GRAPH (node functions of all passes) must stay within p.  See runInterference.
//
// The readings also go to a Gallina file: BatchRun.mismatches compares them with the
// transition system of Batch.v (Semaphore variant = min w p; Current variant = w).
package main

import (
	"context"
	"errors"
	"flag"
	"fmt"
	"os"
	"runtime"
	"sort"
	"strings"
	"sync"
	"sync/atomic"
	"time"

	incr "github.com/wcharczuk/go-incr"
	"verifharness/internal/hx"
)

type gateCase struct {
	W         int    `json:"w"`
	P         int    `json:"p"`
	Cancel    bool   `json:"context_cancelled_by_first_computation"`
	Default   bool   `json:"default_parallelism"` // no option given: the library's default (runtime.NumCPU())
	Observed  int    `json:"observed_in_flight"`
	Completed bool   `json:"completed"`
	ValuesOK  bool   `json:"values_ok"`
	WaitedMS  int    `json:"waited_ms"`
	Err       string `json:"err,omitempty"`
}

const (
	stableFor = 50 * time.Millisecond
	floorWait = 2 * time.Second // how long to wait for min(w,p) to be reached before accepting less
	hardWait  = 6 * time.Second
	doneWait  = 20 * time.Second
)

// runGate runs one (w,p) experiment on a fresh graph.
func runGate(w, p int, useDefault bool, base int, cancelFirst bool) gateCase {
	out := gateCase{W: w, P: p, Default: useDefault, Cancel: cancelFirst}
	ctx, cancel := context.WithCancel(context.Background())
	defer cancel()
	var once sync.Once
	var g *incr.Graph
	if useDefault {
		g = incr.New()
	} else {
		g = incr.New(incr.OptGraphParallelism(p))
	}
	var inflight, high atomic.Int64
	gate := make(chan struct{})
	vars := make([]incr.VarIncr[int], w)
	obs := make([]incr.ObserveIncr[int], w)
	for i := 0; i < w; i++ {
		vars[i] = incr.Var(g, base+i)
		m := incr.Map(g, vars[i], func(v int) int {
			n := inflight.Add(1)
			if cancelFirst {
				// the bound must hold whatever happens to the context: the first computation to
				// start cancels it, then blocks like all the others
				once.Do(cancel)
			}
			for {
				h := high.Load()
				if n <= h || high.CompareAndSwap(h, n) {
					break
				}
			}
			<-gate
			inflight.Add(-1)
			return v + 1
		})
		o, err := incr.Observe(g, m)
		if err != nil {
			out.Err = "observe: " + err.Error()
			return out
		}
		obs[i] = o
	}
	errc := make(chan error, 1)
	go func() { errc <- g.ParallelStabilize(ctx) }()

	floor := w
	if p < floor {
		floor = p
	}
	start := time.Now()
	last := inflight.Load()
	lastChange := start
	for {
		time.Sleep(time.Millisecond)
		now := time.Now()
		cur := inflight.Load()
		if cur != last {
			last, lastChange = cur, now
		}
		quiet := now.Sub(lastChange) >= stableFor
		if quiet && (int(cur) >= floor || now.Sub(start) >= floorWait) {
			break
		}
		if now.Sub(start) >= hardWait {
			break
		}
	}
	out.Observed = int(high.Load())
	out.WaitedMS = int(time.Since(start) / time.Millisecond)
	close(gate)
	select {
	case err := <-errc:
		out.Completed = true
		if err != nil && !(cancelFirst && errors.Is(err, context.Canceled)) {
			out.Err = err.Error()
		}
	case <-time.After(doneWait):
		out.Err = "ParallelStabilize did not return after the gate was opened"
		return out
	}
	out.ValuesOK = true
	for i := 0; i < w; i++ {
		if obs[i].Value() != base+i+1 {
			out.ValuesOK = false
		}
	}
	return out
}

// ------------------------------------------------------------------ interfering callers

// C20 bounds the node computations in progress on ONE GRAPH, whatever its callers do.  While
// a gated ParallelStabilize(p) pass is held -- all p slots taken by node functions blocked
// on the gate, the dispatcher waiting for a slot -- other goroutines run a script of calls
// against the same graph: a serial Stabilize, a ParallelStabilize, a Set on a var outside
// the held block followed by either.  Node functions of ALL passes count themselves into
// the same in-flight counter.  Facts (sampled; the gate forces the schedule, the only wait
// is the bounded "count stopped moving"):
//   - every interfering call returns ErrAlreadyStabilizing;
//   - no interfering call runs a node function;
//   - the in-flight high-water mark of the graph never exceeds p;
//   - once the gate opens the held pass returns nil and the block has the right values.

type passIDKey struct{}

type interferenceOp struct {
	Kind   string `json:"call"` // stabilize | parallel | set+stabilize | set+parallel | cancelled-parallel | cancelled-stabilize (context cancelled before the call)
	Result string `json:"result"`
	RanFns int    `json:"node_functions_it_started"`
}

type interference struct {
	P          int              `json:"p"`
	W          int              `json:"w"`
	Script     []string         `json:"script"`
	Ops        []interferenceOp `json:"calls"`
	Before     int              `json:"in_flight_high_water_before_the_script"`
	Observed   int              `json:"in_flight_high_water_after_the_script"`
	FirstErr   string           `json:"held_pass_returned"`
	ValuesOK   bool             `json:"block_values_ok"`
	Problems   []string         `json:"problems,omitempty"`
	Notes      []string         `json:"notes,omitempty"`
	scriptName string
}

const heldPass = 1

func errText(err error) string {
	switch {
	case err == nil:
		return "<nil>"
	case errors.Is(err, incr.ErrAlreadyStabilizing):
		return "ErrAlreadyStabilizing"
	}
	return err.Error()
}

func runInterference(p, w int, script []string, rng *hx.Rand) interference {
	out := interference{P: p, W: w, Script: script, scriptName: strings.Join(script, ",")}
	problem := func(format string, args ...any) { out.Problems = append(out.Problems, fmt.Sprintf(format, args...)) }
	g := incr.New(incr.OptGraphParallelism(p))
	var inflight, high atomic.Int64
	var armed atomic.Bool
	var mu sync.Mutex
	started := map[int]int{} // pass id -> node functions started while armed
	gate := make(chan struct{})
	fn := func(ctx context.Context, v int) (int, error) {
		if !armed.Load() {
			return v + 1, nil
		}
		id, _ := ctx.Value(passIDKey{}).(int)
		mu.Lock()
		started[id]++
		mu.Unlock()
		n := inflight.Add(1)
		for {
			h := high.Load()
			if n <= h || high.CompareAndSwap(h, n) {
				break
			}
		}
		<-gate
		inflight.Add(-1)
		return v + 1, nil
	}
	startedBy := func(id int) int {
		mu.Lock()
		defer mu.Unlock()
		return started[id]
	}
	// the held block, and vars outside it for the scripts to set
	nfresh := len(script)
	vars := make([]incr.VarIncr[int], w+nfresh)
	obs := make([]incr.ObserveIncr[int], w+nfresh)
	want := make([]int, w+nfresh)
	for i := range vars {
		vars[i] = incr.Var(g, rng.Range(0, 1000))
		o, err := incr.Observe(g, incr.MapContext(g, vars[i], fn))
		if err != nil {
			problem("observe: %v", err)
			return out
		}
		obs[i] = o
	}
	if err := g.Stabilize(context.Background()); err != nil {
		problem("initial Stabilize: %v", err)
		return out
	}
	for i := range vars {
		want[i] = vars[i].Value() + 1
	}
	for i := 0; i < w; i++ {
		x := rng.Range(1001, 1<<20)
		vars[i].Set(x)
		want[i] = x + 1
	}
	armed.Store(true)
	first := make(chan error, 1)
	go func() { first <- g.ParallelStabilize(context.WithValue(context.Background(), passIDKey{}, heldPass)) }()
	waitQuiet := func(floor int, limit time.Duration) {
		start := time.Now()
		last, lastChange := inflight.Load(), start
		for {
			time.Sleep(time.Millisecond)
			now := time.Now()
			if cur := inflight.Load(); cur != last {
				last, lastChange = cur, now
			}
			if now.Sub(lastChange) >= stableFor && (int(last) >= floor || now.Sub(start) >= limit/2) {
				return
			}
			if now.Sub(start) >= limit {
				return
			}
		}
	}
	floor := w
	if p < floor {
		floor = p
	}
	waitQuiet(floor, hardWait)
	out.Before = int(high.Load())
	firstDone := false
	var firstErr error
	held := func() bool { // the first pass has not returned and some of its node functions sit at the gate
		if firstDone {
			return false
		}
		select {
		case firstErr = <-first:
			firstDone = true
			return false
		default:
		}
		return inflight.Load() > 0
	}
	type pending struct {
		op   int
		done chan error
	}
	var waiting []pending
	fresh := w
	for k, kind := range script {
		id := 100 + k
		heldBefore := held()
		if strings.HasPrefix(kind, "set+") {
			x := rng.Range(1001, 1<<20)
			vars[fresh].Set(x)
			want[fresh] = x + 1
			fresh++
		}
		ctx := context.WithValue(context.Background(), passIDKey{}, id)
		if strings.HasPrefix(kind, "cancelled-") {
			// a caller that has already given up: its context is cancelled before the call
			cctx, cancel := context.WithCancel(ctx)
			cancel()
			ctx = cctx
		}
		done := make(chan error, 1)
		if strings.HasSuffix(kind, "parallel") {
			go func() { done <- g.ParallelStabilize(ctx) }()
		} else {
			go func() { done <- g.Stabilize(ctx) }()
		}
		op := interferenceOp{Kind: kind}
		select {
		case err := <-done:
			op.Result = errText(err)
		case <-time.After(100 * time.Millisecond):
			// not back yet: either slow, or let in and stuck behind the gate.  Let the counters settle.
			waitQuiet(0, time.Second)
			select {
			case err := <-done:
				op.Result = errText(err)
			default:
				op.Result = "has not returned"
				waiting = append(waiting, pending{k, done})
			}
		}
		op.RanFns = startedBy(id)
		heldAfter := held()
		out.Ops = append(out.Ops, op)
		what := fmt.Sprintf("call %d of the script (%s), issued while the ParallelStabilize(%d) pass was held at the gate,", k+1, kind, p)
		if op.RanFns > 0 {
			problem("%s was let in and started %d node function(s) of its own", what, op.RanFns)
		}
		if heldBefore && heldAfter && op.Result != "ErrAlreadyStabilizing" && op.Result != "has not returned" {
			problem("%s returned %s, not ErrAlreadyStabilizing", what, op.Result)
		}
	}
	waitQuiet(0, time.Second)
	out.Observed = int(high.Load())
	stillHeld := held()
	if out.Observed > p {
		problem("%d node computations of the graph were in progress at the same time with parallelism %d (the held pass had %d in flight before the script)", out.Observed, p, out.Before)
	}
	close(gate)
	if !firstDone {
		select {
		case firstErr = <-first:
			firstDone = true
		case <-time.After(doneWait):
			problem("the held ParallelStabilize did not return after the gate was opened")
			return out
		}
	}
	out.FirstErr = errText(firstErr)
	if firstErr != nil {
		problem("the held ParallelStabilize returned %v", firstErr)
	}
	if !stillHeld && out.Before > 0 {
		out.Notes = append(out.Notes, "the held pass was no longer held when the script ended")
	}
	for _, pd := range waiting {
		select {
		case err := <-pd.done:
			out.Ops[pd.op].Result = "returned " + errText(err) + " only after the gate was opened"
			out.Ops[pd.op].RanFns = startedBy(100 + pd.op)
			if out.Ops[pd.op].RanFns > 0 && !errors.Is(err, incr.ErrAlreadyStabilizing) {
				// whether it overlapped is decided by the counters above; this is only the record
				out.Notes = append(out.Notes, fmt.Sprintf("call %d (%s) ran %d node function(s)", pd.op+1, script[pd.op], out.Ops[pd.op].RanFns))
			}
		case <-time.After(doneWait):
			problem("call %d of the script (%s) did not return after the gate was opened", pd.op+1, script[pd.op])
			return out
		}
	}
	out.ValuesOK = true
	for i := 0; i < w; i++ {
		if obs[i].Value() != want[i] {
			out.ValuesOK = false
		}
	}
	if !out.ValuesOK {
		problem("the held pass returned but its block does not hold the values of its inputs")
	}
	// what the scripts set while the pass was running belongs to the next pass
	if err := g.Stabilize(context.Background()); err != nil {
		out.Notes = append(out.Notes, "Stabilize after the scenario: "+err.Error())
	} else {
		for i := w; i < len(obs); i++ {
			if obs[i].Value() != want[i] {
				out.Notes = append(out.Notes, fmt.Sprintf("var %d set during the held pass: observer holds %d after the next pass, want %d", i-w, obs[i].Value(), want[i]))
				break
			}
		}
	}
	return out
}

var fixedScripts = [][]string{
	{"stabilize"},
	{"parallel"},
	{"set+stabilize"},
	{"set+parallel"},
	{"stabilize", "set+parallel"},
	{"parallel", "set+stabilize"},
	{"stabilize", "stabilize", "parallel", "set+parallel", "set+stabilize"},
	{"set+parallel", "set+parallel", "stabilize", "set+parallel", "parallel"},
	{"cancelled-parallel", "set+parallel"},
	{"cancelled-stabilize", "set+stabilize"},
	{"cancelled-parallel", "set+stabilize", "cancelled-stabilize", "set+parallel"},
}

func main() {
	var (
		seed    = flag.Uint64("seed", 1, "seed (order of the cases, the extra random cases, the var values)")
		extra   = flag.Int("extra", 6, "number of extra random (w,p) pairs")
		reps    = flag.Int("reps", 1, "repetitions per case (the largest reading is kept)")
		coqOut  = flag.String("coq", "", "Gallina cases file to write")
		coqMax  = flag.Int("coqmax", 400, "at most this many cases go to the Gallina file")
		jsonOut = flag.String("json", "", "report file")
		nscript = flag.Int("interfere", 4, "number of random scripts of interfering callers per parallelism, next to the fixed ones (-1: skip the family)")
	)
	flag.Parse()
	rep := hx.NewReport("batchgate", *seed)
	rng := hx.NewRand(*seed)

	type key struct {
		w, p int
		def  bool
	}
	seen := map[key]bool{}
	var plan []key
	add := func(w, p int, def bool) {
		k := key{w, p, def}
		if w < 1 || p < 1 || seen[k] {
			return
		}
		seen[k] = true
		plan = append(plan, k)
	}
	widths := func(p int) []int { return []int{1, p - 1, p, p + 1, 4 * p, 64} }
	for _, p := range []int{1, 2, 4, 16} {
		for _, w := range widths(p) {
			add(w, p, false)
		}
	}
	ncpu := runtime.NumCPU()
	for _, w := range widths(ncpu) {
		add(w, ncpu, true)
	}
	add(32, 2, false) // the reading of the design probe
	for i := 0; i < *extra; i++ {
		add(rng.Range(1, 96), rng.Range(1, 24), false)
	}
	// seeded order
	for i := len(plan) - 1; i > 0; i-- {
		j := rng.Intn(i + 1)
		plan[i], plan[j] = plan[j], plan[i]
	}

	distinct := hx.Distinct{}
	var results []gateCase
	for _, k := range plan {
		var best gateCase
		for r := 0; r < *reps || r == 0; r++ {
			c := runGate(k.w, k.p, k.def, rng.Range(0, 1000), (k.w+k.p)%3 == 0)
			rep.Evaluations++
			if r == 0 || c.Observed > best.Observed || (c.Err != "" && best.Err == "") {
				best = c
			}
		}
		results = append(results, best)
		switch {
		case k.w < k.p:
			rep.Count("w<p")
		case k.w == k.p:
			rep.Count("w=p")
		case k.w >= 4*k.p:
			rep.Count("w>=4p")
		default:
			rep.Count("w>p")
		}
		if k.def {
			rep.Count("default-parallelism")
		}
		rep.Sizes[fmt.Sprintf("p%d", k.p)]++
		if k.w >= 2 {
			distinct.Add(fmt.Sprintf("%d/%d/%v", k.w, k.p, k.def))
		}
		name := fmt.Sprintf("p=%02d,w=%03d", k.p, k.w)
		if k.def {
			name += ",default"
		}
		if best.Observed > k.p {
			what := fmt.Sprintf("ParallelStabilize with parallelism %d ran %d node computations at the same time "+
				"(height block of %d sibling Map nodes, every node function blocked on a gate so that none finishes)", k.p, best.Observed, k.w)
			if k.def {
				what += "; parallelism left at its default, runtime.NumCPU()"
			}
			rep.AddViolation(hx.Violation{Property: "C20", What: what, Key: "parallelism-exceeded:" + name,
				Replay: map[string]any{"w": k.w, "p": k.p, "observed": best.Observed, "default_parallelism": k.def,
					"how": "incr.New(incr.OptGraphParallelism(p)); w x incr.Map(incr.Var) observed; node fn blocks on a channel; g.ParallelStabilize; count fns in flight"}})
		}
		if best.Err != "" || !best.Completed || (best.Completed && !best.ValuesOK) {
			rep.AddViolation(hx.Violation{Property: "C20", What: fmt.Sprintf("gated ParallelStabilize (%s) did not complete cleanly: err=%q completed=%v values_ok=%v",
				name, best.Err, best.Completed, best.ValuesOK), Key: "gate-incomplete:" + name,
				Replay: map[string]any{"w": k.w, "p": k.p, "observed": best.Observed, "default_parallelism": k.def}})
		}
		floor := k.w
		if k.p < floor {
			floor = k.p
		}
		if best.Observed < floor {
			rep.Notes = append(rep.Notes, fmt.Sprintf("%s: only %d in flight after %d ms, the promise allows min(w,p)=%d (under-use, not a C20 violation)",
				name, best.Observed, best.WaitedMS, floor))
		}
	}
	// ---- interfering callers
	var interf []interference
	if *nscript >= 0 {
		kinds := []string{"stabilize", "parallel", "set+stabilize", "set+parallel", "cancelled-parallel", "cancelled-stabilize"}
		for _, p := range []int{1, 2, 4} {
			scripts := append([][]string(nil), fixedScripts...)
			for i := 0; i < *nscript; i++ {
				var sc []string
				for n := rng.Range(2, 6); n > 0; n-- {
					sc = append(sc, kinds[rng.Intn(len(kinds))])
				}
				scripts = append(scripts, sc)
			}
			for _, sc := range scripts {
				r := runInterference(p, p+3, sc, rng.Fork())
				interf = append(interf, r)
				rep.Evaluations++
				rep.Count("interference")
				for _, k := range sc {
					rep.Count("interfering-call: " + k)
				}
				distinct.Add(fmt.Sprintf("interference/%d/%s", p, r.scriptName))
				for _, n := range r.Notes {
					rep.Notes = append(rep.Notes, fmt.Sprintf("interference p=%d [%s]: %s", p, r.scriptName, n))
				}
				if len(r.Problems) > 0 {
					rep.AddViolation(hx.Violation{Property: "C20",
						What: fmt.Sprintf("ParallelStabilize with parallelism %d held at the gate over a block of %d nodes (all %d slots taken), other goroutines calling [%s] meanwhile: %s",
							p, r.W, p, r.scriptName, strings.Join(r.Problems, "; ")),
						Key:    fmt.Sprintf("interference:p=%02d:n=%d:%s", p, len(sc), r.scriptName),
						Replay: map[string]any{"kind": "interfering-callers", "p": p, "w": r.W, "script": sc, "outcome": r}})
				}
			}
		}
		if len(interf) > 0 {
			rep.Samples = append(rep.Samples, map[string]any{"interfering_callers": interf[len(interf)/2]})
		}
	}
	rep.Distinct = len(distinct)
	rep.Exhaustive = false
	rep.Rule = fmt.Sprintf("one gated ParallelStabilize per (w,p): w in {1,p-1,p,p+1,4p,64} x p in {1,2,4,16}, the same widths at the default "+
		"parallelism (runtime.NumCPU()=%d, no option), (32,2), and %d seeded random pairs w<=96, p<=24; %d repetition(s) each; "+
		"non-trivial = width >= 2 (an overlap is possible at all); distinct by (w,p,default). Interfering callers: for p in {1,2,4} a gated pass over p+3 nodes is held while "+
		"other goroutines run %d fixed and %d seeded scripts of Stabilize / ParallelStabilize / Set+Stabilize / Set+ParallelStabilize against the graph; distinct by (p, script)",
		ncpu, *extra, *reps, len(fixedScripts), max(*nscript, 0))
	sorted := append([]gateCase(nil), results...)
	sort.Slice(sorted, func(i, j int) bool {
		if sorted[i].P != sorted[j].P {
			return sorted[i].P < sorted[j].P
		}
		return sorted[i].W < sorted[j].W
	})
	for i := 0; i < len(sorted) && i < 3; i++ {
		rep.Samples = append(rep.Samples, sorted[(len(sorted)-1)*i/2])
	}
	rep.Samples = append(rep.Samples, map[string]any{"all_readings": sorted})

	if *coqOut != "" {
		sample := sorted
		if len(sample) > *coqMax {
			sample = sample[:*coqMax]
		}
		for _, r := range interf { // the bound is the same with other callers around: min w p in flight
			sample = append(sample, gateCase{W: r.W, P: r.P, Observed: r.Observed})
		}
		rep.CoqCases = len(sample)
		var b strings.Builder
		b.WriteString("(* generated by cmd/batchgate: (width, parallelism, observed high-water mark while nobody finishes) *)\n")
		b.WriteString("From incr Require Import Base Batch BatchRun.\nDefinition cases : list case := [\n")
		for i, c := range sample {
			if i > 0 {
				b.WriteString(";\n")
			}
			fmt.Fprintf(&b, "  (%d%%nat, %d%%nat, %d%%nat)", c.W, c.P, c.Observed)
		}
		b.WriteString("].\n")
		b.WriteString("(* the transliteration of parallel_batch.go as it was modelled: empty iff the library behaves like the Current variant *)\n")
		b.WriteString("Definition AsIs := Eval vm_compute in mismatches_as_is cases.\nPrint AsIs.\n")
		b.WriteString("(* the promise (Semaphore variant, min w p): (case, w, p, observed, predicted) *)\n")
		b.WriteString("Definition M := Eval vm_compute in mismatches cases.\nPrint M.\n")
		if err := os.WriteFile(*coqOut, []byte(b.String()), 0o644); err != nil {
			fmt.Fprintln(os.Stderr, err)
			os.Exit(2)
		}
	}
	if *jsonOut != "" {
		if err := rep.Write(*jsonOut); err != nil {
			fmt.Fprintln(os.Stderr, err)
			os.Exit(2)
		}
	}
	fmt.Printf("batchgate: %d gated passes over %d (w,p) pairs, %d violations, %d coq cases\n",
		rep.Evaluations, len(plan), len(rep.Violations), rep.CoqCases)
}
