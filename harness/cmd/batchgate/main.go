// batchgate is the C20 adversary: through the public API only it builds a graph with
// incr.OptGraphParallelism(p) and one height block of w sibling Map nodes whose functions
// count themselves in, record the high-water mark and then block on a gate.  The driver
// runs g.ParallelStabilize in a goroutine, waits until the in-flight count stops moving,
// reads the high-water mark, opens the gate and waits for the pass to complete.
//
// A reading above p is a violation of C20 ("at most OptGraphParallelism node computations
// are in progress at the same time").  The schedule is forced by the gate, not hoped for:
// nobody finishes, so everything the library is willing to start is in flight at once;
// timing can only make the reading too low, never too high, so there are no false alarms.
//
// The readings also go to a Gallina file: BatchRun.mismatches compares them with the
// transition system of Batch.v (Semaphore variant = min w p; Current variant = w).
package main

import (
	"context"
	"errors"
	"flag"
	"fmt"
	"os"
	"runtime"
	"sort"
	"strings"
	"sync"
	"sync/atomic"
	"time"

	incr "github.com/wcharczuk/go-incr"
	"verifharness/internal/hx"
)

type gateCase struct {
	W         int    `json:"w"`
	P         int    `json:"p"`
	Cancel    bool   `json:"context_cancelled_by_first_computation"`
	Default   bool   `json:"default_parallelism"` // no option given: the library's default (runtime.NumCPU())
	Observed  int    `json:"observed_in_flight"`
	Completed bool   `json:"completed"`
	ValuesOK  bool   `json:"values_ok"`
	WaitedMS  int    `json:"waited_ms"`
	Err       string `json:"err,omitempty"`
}

const (
	stableFor = 50 * time.Millisecond
	floorWait = 2 * time.Second // how long to wait for min(w,p) to be reached before accepting less
	hardWait  = 6 * time.Second
	doneWait  = 20 * time.Second
)

// runGate runs one (w,p) experiment on a fresh graph.
func runGate(w, p int, useDefault bool, base int, cancelFirst bool) gateCase {
	out := gateCase{W: w, P: p, Default: useDefault, Cancel: cancelFirst}
	ctx, cancel := context.WithCancel(context.Background())
	defer cancel()
	var once sync.Once
	var g *incr.Graph
	if useDefault {
		g = incr.New()
	} else {
		g = incr.New(incr.OptGraphParallelism(p))
	}
	var inflight, high atomic.Int64
	gate := make(chan struct{})
	vars := make([]incr.VarIncr[int], w)
	obs := make([]incr.ObserveIncr[int], w)
	for i := 0; i < w; i++ {
		vars[i] = incr.Var(g, base+i)
		m := incr.Map(g, vars[i], func(v int) int {
			n := inflight.Add(1)
			if cancelFirst {
				// the bound must hold whatever happens to the context: the first computation to
				// start cancels it, then blocks like all the others
				once.Do(cancel)
			}
			for {
				h := high.Load()
				if n <= h || high.CompareAndSwap(h, n) {
					break
				}
			}
			<-gate
			inflight.Add(-1)
			return v + 1
		})
		o, err := incr.Observe(g, m)
		if err != nil {
			out.Err = "observe: " + err.Error()
			return out
		}
		obs[i] = o
	}
	errc := make(chan error, 1)
	go func() { errc <- g.ParallelStabilize(ctx) }()

	floor := w
	if p < floor {
		floor = p
	}
	start := time.Now()
	last := inflight.Load()
	lastChange := start
	for {
		time.Sleep(time.Millisecond)
		now := time.Now()
		cur := inflight.Load()
		if cur != last {
			last, lastChange = cur, now
		}
		quiet := now.Sub(lastChange) >= stableFor
		if quiet && (int(cur) >= floor || now.Sub(start) >= floorWait) {
			break
		}
		if now.Sub(start) >= hardWait {
			break
		}
	}
	out.Observed = int(high.Load())
	out.WaitedMS = int(time.Since(start) / time.Millisecond)
	close(gate)
	select {
	case err := <-errc:
		out.Completed = true
		if err != nil && !(cancelFirst && errors.Is(err, context.Canceled)) {
			out.Err = err.Error()
		}
	case <-time.After(doneWait):
		out.Err = "ParallelStabilize did not return after the gate was opened"
		return out
	}
	out.ValuesOK = true
	for i := 0; i < w; i++ {
		if obs[i].Value() != base+i+1 {
			out.ValuesOK = false
		}
	}
	return out
}

func main() {
	var (
		seed    = flag.Uint64("seed", 1, "seed (order of the cases, the extra random cases, the var values)")
		extra   = flag.Int("extra", 6, "number of extra random (w,p) pairs")
		reps    = flag.Int("reps", 1, "repetitions per case (the largest reading is kept)")
		coqOut  = flag.String("coq", "", "Gallina cases file to write")
		coqMax  = flag.Int("coqmax", 400, "at most this many cases go to the Gallina file")
		jsonOut = flag.String("json", "", "report file")
	)
	flag.Parse()
	rep := hx.NewReport("batchgate", *seed)
	rng := hx.NewRand(*seed)

	type key struct {
		w, p int
		def  bool
	}
	seen := map[key]bool{}
	var plan []key
	add := func(w, p int, def bool) {
		k := key{w, p, def}
		if w < 1 || p < 1 || seen[k] {
			return
		}
		seen[k] = true
		plan = append(plan, k)
	}
	widths := func(p int) []int { return []int{1, p - 1, p, p + 1, 4 * p, 64} }
	for _, p := range []int{1, 2, 4, 16} {
		for _, w := range widths(p) {
			add(w, p, false)
		}
	}
	ncpu := runtime.NumCPU()
	for _, w := range widths(ncpu) {
		add(w, ncpu, true)
	}
	add(32, 2, false) // the reading of the design probe
	for i := 0; i < *extra; i++ {
		add(rng.Range(1, 96), rng.Range(1, 24), false)
	}
	// seeded order
	for i := len(plan) - 1; i > 0; i-- {
		j := rng.Intn(i + 1)
		plan[i], plan[j] = plan[j], plan[i]
	}

	distinct := hx.Distinct{}
	var results []gateCase
	for _, k := range plan {
		var best gateCase
		for r := 0; r < *reps || r == 0; r++ {
			c := runGate(k.w, k.p, k.def, rng.Range(0, 1000), (k.w+k.p)%3 == 0)
			rep.Evaluations++
			if r == 0 || c.Observed > best.Observed || (c.Err != "" && best.Err == "") {
				best = c
			}
		}
		results = append(results, best)
		switch {
		case k.w < k.p:
			rep.Count("w<p")
		case k.w == k.p:
			rep.Count("w=p")
		case k.w >= 4*k.p:
			rep.Count("w>=4p")
		default:
			rep.Count("w>p")
		}
		if k.def {
			rep.Count("default-parallelism")
		}
		rep.Sizes[fmt.Sprintf("p%d", k.p)]++
		if k.w >= 2 {
			distinct.Add(fmt.Sprintf("%d/%d/%v", k.w, k.p, k.def))
		}
		name := fmt.Sprintf("p=%02d,w=%03d", k.p, k.w)
		if k.def {
			name += ",default"
		}
		if best.Observed > k.p {
			what := fmt.Sprintf("ParallelStabilize with parallelism %d ran %d node computations at the same time "+
				"(height block of %d sibling Map nodes, every node function blocked on a gate so that none finishes)", k.p, best.Observed, k.w)
			if k.def {
				what += "; parallelism left at its default, runtime.NumCPU()"
			}
			rep.AddViolation(hx.Violation{Property: "C20", What: what, Key: "parallelism-exceeded:" + name,
				Replay: map[string]any{"w": k.w, "p": k.p, "observed": best.Observed, "default_parallelism": k.def,
					"how": "incr.New(incr.OptGraphParallelism(p)); w x incr.Map(incr.Var) observed; node fn blocks on a channel; g.ParallelStabilize; count fns in flight"}})
		}
		if best.Err != "" || !best.Completed || (best.Completed && !best.ValuesOK) {
			rep.AddViolation(hx.Violation{Property: "C20", What: fmt.Sprintf("gated ParallelStabilize (%s) did not complete cleanly: err=%q completed=%v values_ok=%v",
				name, best.Err, best.Completed, best.ValuesOK), Key: "gate-incomplete:" + name,
				Replay: map[string]any{"w": k.w, "p": k.p, "observed": best.Observed, "default_parallelism": k.def}})
		}
		floor := k.w
		if k.p < floor {
			floor = k.p
		}
		if best.Observed < floor {
			rep.Notes = append(rep.Notes, fmt.Sprintf("%s: only %d in flight after %d ms, the promise allows min(w,p)=%d (under-use, not a C20 violation)",
				name, best.Observed, best.WaitedMS, floor))
		}
	}
	rep.Distinct = len(distinct)
	rep.Exhaustive = false
	rep.Rule = fmt.Sprintf("one gated ParallelStabilize per (w,p): w in {1,p-1,p,p+1,4p,64} x p in {1,2,4,16}, the same widths at the default "+
		"parallelism (runtime.NumCPU()=%d, no option), (32,2), and %d seeded random pairs w<=96, p<=24; %d repetition(s) each; "+
		"non-trivial = width >= 2 (an overlap is possible at all); distinct by (w,p,default)", ncpu, *extra, *reps)
	sorted := append([]gateCase(nil), results...)
	sort.Slice(sorted, func(i, j int) bool {
		if sorted[i].P != sorted[j].P {
			return sorted[i].P < sorted[j].P
		}
		return sorted[i].W < sorted[j].W
	})
	for i := 0; i < len(sorted) && i < 3; i++ {
		rep.Samples = append(rep.Samples, sorted[(len(sorted)-1)*i/2])
	}
	rep.Samples = append(rep.Samples, map[string]any{"all_readings": sorted})

	if *coqOut != "" {
		sample := sorted
		if len(sample) > *coqMax {
			sample = sample[:*coqMax]
		}
		rep.CoqCases = len(sample)
		var b strings.Builder
		b.WriteString("(* generated by cmd/batchgate: (width, parallelism, observed high-water mark while nobody finishes) *)\n")
		b.WriteString("From incr Require Import Base Batch BatchRun.\nDefinition cases : list case := [\n")
		for i, c := range sample {
			if i > 0 {
				b.WriteString(";\n")
			}
			fmt.Fprintf(&b, "  (%d%%nat, %d%%nat, %d%%nat)", c.W, c.P, c.Observed)
		}
		b.WriteString("].\n")
		b.WriteString("(* the transliteration of parallel_batch.go as it was modelled: empty iff the library behaves like the Current variant *)\n")
		b.WriteString("Definition AsIs := Eval vm_compute in mismatches_as_is cases.\nPrint AsIs.\n")
		b.WriteString("(* the promise (Semaphore variant, min w p): (case, w, p, observed, predicted) *)\n")
		b.WriteString("Definition M := Eval vm_compute in mismatches cases.\nPrint M.\n")
		if err := os.WriteFile(*coqOut, []byte(b.String()), 0o644); err != nil {
			fmt.Fprintln(os.Stderr, err)
			os.Exit(2)
		}
	}
	if *jsonOut != "" {
		if err := rep.Write(*jsonOut); err != nil {
			fmt.Fprintln(os.Stderr, err)
			os.Exit(2)
		}
	}
	fmt.Printf("batchgate: %d gated passes over %d (w,p) pairs, %d violations, %d coq cases\n",
		rep.Evaluations, len(plan), len(rep.Violations), rep.CoqCases)
}
