package main

import (
	"context"
	"fmt"

	incr "github.com/wcharczuk/go-incr"
	"github.com/wcharczuk/go-incr/incrutil/mapi"
	"github.com/wcharczuk/go-incr/incrutil/pmap"
)

func show(m pmap.Map[int, int]) string { return fmt.Sprint(pmap.ToGoMap(m)) }

func main() {
	ctx := context.Background()
	{
		g := incr.New()
		a := incr.Var(g, 1)
		outer := incr.Var(g, pmap.New[int, incr.Incr[int]]().Set(0, incr.Incr[int](a)))
		j := mapi.Join(g, outer)
		o := incr.MustObserve(g, j)
		fmt.Println("P1 err", g.Stabilize(ctx), show(o.Value()))
		o.Unobserve(ctx)
		a.Set(5)
		o = incr.MustObserve(g, j)
		fmt.Println("P1 err", g.Stabilize(ctx), "got", show(o.Value()), "want map[0:5]")
		a.Set(6)
		fmt.Println("P1 err", g.Stabilize(ctx), "got", show(o.Value()), "want map[0:6]")
	}
	{
		g := incr.New()
		a := incr.Var(g, 1)
		outer := incr.Var(g, pmap.New[int, incr.Incr[int]]().Set(0, incr.Incr[int](a)).Set(1, incr.Incr[int](a)))
		j := mapi.Join(g, outer)
		o := incr.MustObserve(g, j)
		fmt.Println("P2 err", g.Stabilize(ctx), show(o.Value()))
		a.Set(5)
		fmt.Println("P2 err", g.Stabilize(ctx), "got", show(o.Value()), "want map[0:5 1:5]")
		outer.Set(outer.Value().Delete(0))
		fmt.Println("P2 err", g.Stabilize(ctx), "got", show(o.Value()), "want map[1:5]")
		a.Set(7)
		fmt.Println("P2 err", g.Stabilize(ctx), "got", show(o.Value()), "want map[1:7]")
	}
}
