// kindtrace is a differential tester for the node kinds the generated engine histories do
// not use: Map3..Map8, MapIf, BindIf, Bind3, Bind4, Cutoff2, the named cutoffs of cutoffs.go,
// Freeze, Func, Watch, Timer, the clock nodes (At, AtIntervals, Snapshot, StepFunction),
// ArrayFold, ForAll, Exists, DependOn, All, and from incrutil CutoffUnchanged, MapLast and the
// slicei package.  It generates random int-valued programs over these kinds (Var, Return, Map
// and Map2 are glue), drives each through a random history of writes, clock advances, SetStale,
// observe/unobserve and Stabilize/ParallelStabilize passes, and after every pass that returns
// nil compares every node that is in the graph with a reference evaluation written here,
// independently of the library.
//
// The reference is a plain demand-driven re-evaluation from the observed roots.  For the kinds
// whose documented meaning depends on the history (Freeze, the non-equality cutoffs, Func,
// Watch, Timer, Snapshot, MapLast, Accumulate) it carries exactly the state their doc comments
// name, and it follows the documented propagation rule ("a node propagates whenever it
// recomputes", doc.go; a cutoff stops it; a node that (re)enters the graph is computed) to know
// in which passes such a node runs.
package main

import (
	"context"
	"errors"
	"flag"
	"fmt"
	"os"
	"sort"
	"strings"
	"sync/atomic"
	"time"

	incr "github.com/wcharczuk/go-incr"
	"github.com/wcharczuk/go-incr/incrutil"
	"github.com/wcharczuk/go-incr/incrutil/slicei"
	"verifharness/internal/hx"
)

const modulus = 10007

var (
	ctx    = context.Background()
	base   = time.Date(2030, 1, 1, 0, 0, 0, 0, time.UTC)
	primes = []int{3, 5, 7, 11, 13, 17, 19, 23}
)

func minute(m int) time.Time { return base.Add(time.Duration(m) * time.Minute) }

// ---- node functions (user code: shared by the library run and the reference) ----

func norm(x int) int {
	x %= modulus
	if x < 0 {
		x += modulus
	}
	return x
}

func wsum(c int, xs ...int) int {
	acc := c
	for i, x := range xs {
		acc += primes[i%len(primes)] * x
	}
	return norm(acc)
}

func un(op string, c, x int) int {
	switch op {
	case "add":
		return norm(x + c)
	case "mul":
		return norm(x * c)
	case "neg":
		return norm(-x)
	case "half":
		return norm(x) / 2
	case "mod":
		return norm(x) % (c + 2)
	}
	panic("kindtrace: unknown unary op " + op)
}

func bin(op string, x, y int) int {
	switch op {
	case "add":
		return norm(x + y)
	case "sub":
		return norm(x - y)
	case "mul":
		return norm(norm(x) * norm(y))
	case "max":
		if x > y {
			return x
		}
		return y
	case "min":
		if x < y {
			return x
		}
		return y
	case "mix":
		return norm(3*x + 5*y + 1)
	}
	panic("kindtrace: unknown binary op " + op)
}

var unOps = []string{"add", "mul", "neg", "half", "mod"}
var binOps = []string{"add", "sub", "mul", "max", "min", "mix"}

func isEven(x int) bool { return x%2 == 0 }
func b2i(b bool) int {
	if b {
		return 1
	}
	return 0
}
func abs(x int) int {
	if x < 0 {
		return -x
	}
	return x
}
func foldStep(acc, x int) int { return norm(acc*31 + x) }
func hashSlice(xs []int) int {
	h := len(xs)
	for _, x := range xs {
		h = norm(h*31 + x + 1)
	}
	return h
}
func cut2(eps, old, new int) bool    { return abs(new-old) <= eps%6+1 }
func mapLastFn(c, prev, cur int) int { return norm(cur*3 - prev + c) }
func forAllPred(x int) bool          { return x%3 != 0 }
func existsPred(x int) bool          { return x%4 == 0 }

// mapLastSliceFn is the function of a MapLast over a slice-valued node
func mapLastSliceFn(op string, c int, prev, cur []int) int {
	if op == "len" {
		return norm(len(cur) - len(prev) + c)
	}
	d := c
	for _, v := range cur {
		d += v
	}
	for _, v := range prev {
		d -= v
	}
	return norm(d)
}
func sameLen(a, b []int) bool { return len(a) == len(b) }

// accCapped is the function handed to slicei.Accumulate: append, keep the last `limit`
func accCapped(limit int) func([]int, int) []int {
	return func(prev []int, v int) []int {
		out := make([]int, 0, len(prev)+1)
		out = append(out, prev...)
		out = append(out, v)
		if len(out) > limit {
			out = out[len(out)-limit:]
		}
		return out
	}
}

// ---- programs ----

const (
	kVar, kReturn, kMap, kMap2               = "var", "return", "map", "map2"
	kMap3, kMap4, kMap5, kMap6, kMap7, kMap8 = "map3", "map4", "map5", "map6", "map7", "map8"
	kMapIf, kBindIf, kBind3, kBind4          = "mapif", "bindif", "bind3", "bind4"
	kCutoff2, kCutEq, kCutEqFunc             = "cutoff2", "cutoffequal", "cutoffequalfunc"
	kCutNever, kCutAlways, kCutUnchanged     = "cutoffnever", "cutoffalways", "cutoffunchanged"
	kFreeze, kFunc, kWatch, kTimer           = "freeze", "func", "watch", "timer"
	kAt, kAtIntervals, kSnapshot, kStep      = "at", "atintervals", "snapshot", "stepfunction"
	kArrayFold, kForAll, kExists, kDependOn  = "arrayfold", "forall", "exists", "dependon"
	kMapLast, kFirst, kLast, kHash           = "maplast", "first", "last", "hash"
	kAll, kAccumulate, kAccSorted            = "all", "accumulate", "accumulatesorted"
	kFilter, kSort, kTakeFirst, kTakeLast    = "filter", "sort", "takefirst", "takelast"
	kTakeFirstSearch, kTakeLastSearch        = "takefirstsearch", "takelastsearch"
	// consumers that keep a previous value of a slice-valued node: they read right only if a
	// value that was handed out is never written again
	kMapLastS, kCutoffS = "maplastslice", "cutoffslice"
)

var mapArity = map[string]int{kMap3: 3, kMap4: 4, kMap5: 5, kMap6: 6, kMap7: 7, kMap8: 8}

// kinds whose state after a pass depends on whether they ran in it; they are kept out of
// everything a bind template can reach, so that they enter and leave the graph only between
// passes (Observe / Unobserve) and the passes they run in are determined by the documentation
var sensitive = map[string]bool{kCutoff2: true, kCutEqFunc: true, kSnapshot: true, kMapLast: true,
	kAccumulate: true, kAccSorted: true, kWatch: true, kMapLastS: true, kCutoffS: true}

var sliceKinds = map[string]bool{kAll: true, kAccumulate: true, kAccSorted: true, kFilter: true, kSort: true,
	kTakeFirst: true, kTakeLast: true, kTakeFirstSearch: true, kTakeLastSearch: true, kCutoffS: true}

var bindKinds = map[string]bool{kBindIf: true, kBind3: true, kBind4: true}
var clockKinds = map[string]bool{kAt: true, kAtIntervals: true, kSnapshot: true, kStep: true}

// tmpl is what a bind function builds inside its scope
type tmpl struct {
	Op   string // outer ret map map2 map3 mapif arrayfold cutoffeq bindif
	N    int    // outer: node id
	C    int
	Fn   string
	Kids []*tmpl // bindif: condition, then-template, else-template
}

func (t *tmpl) String() string {
	kids := make([]string, len(t.Kids))
	for i, k := range t.Kids {
		kids[i] = k.String()
	}
	switch t.Op {
	case "outer":
		return fmt.Sprintf("n%d", t.N)
	case "ret":
		return fmt.Sprintf("Return(wsum(%d,bound...))", t.C)
	case "map":
		return fmt.Sprintf("Map[%s %d](%s)", t.Fn, t.C, kids[0])
	case "map2":
		return fmt.Sprintf("Map2[%s](%s)", t.Fn, strings.Join(kids, ","))
	case "map3":
		return fmt.Sprintf("Map3[wsum %d](%s)", t.C, strings.Join(kids, ","))
	case "mapif":
		return fmt.Sprintf("MapIf(%s,%s,even(%s))", kids[0], kids[1], kids[2])
	case "arrayfold":
		return fmt.Sprintf("ArrayFold[%d](%s)", t.C, strings.Join(kids, ","))
	case "cutoffeq":
		return fmt.Sprintf("CutoffEqual(%s)", kids[0])
	case "bindif":
		return fmt.Sprintf("BindIf(even(%s)){true:%s false:%s}", kids[0], kids[1], kids[2])
	}
	return "?" + t.Op
}

type def struct {
	ID    int
	Kind  string
	Slice bool
	In    []int
	Op    string
	C, C2 int
	Steps [][2]int // stepfunction: minute, value
	T     []*tmpl

	tainted bool
	sorted  int // 1: known ascending
}

func (d *def) String() string {
	ins := make([]string, len(d.In))
	for i, x := range d.In {
		ins[i] = fmt.Sprintf("n%d", x)
	}
	in := strings.Join(ins, ",")
	ts := make([]string, len(d.T))
	for i, t := range d.T {
		ts[i] = fmt.Sprintf("%d:%s", i, t)
	}
	head := fmt.Sprintf("n%d = ", d.ID)
	switch d.Kind {
	case kVar:
		return head + fmt.Sprintf("Var(%d)", d.C)
	case kReturn:
		return head + fmt.Sprintf("Return(%d)", d.C)
	case kMap:
		return head + fmt.Sprintf("Map[%s %d](%s)", d.Op, d.C, in)
	case kMap2:
		return head + fmt.Sprintf("Map2[%s](%s)", d.Op, in)
	case kMap3, kMap4, kMap5, kMap6, kMap7, kMap8:
		return head + fmt.Sprintf("M%s[wsum %d](%s)", d.Kind[1:], d.C, in)
	case kMapIf:
		return head + fmt.Sprintf("MapIf(n%d,n%d,even(n%d))", d.In[0], d.In[1], d.In[2])
	case kBindIf:
		return head + fmt.Sprintf("BindIf(even(%s)){true:%s false:%s}", in, d.T[0], d.T[1])
	case kBind3, kBind4:
		return head + fmt.Sprintf("B%s(%s){case sum%%%d %s}", d.Kind[1:], in, len(d.T), strings.Join(ts, " "))
	case kCutoff2:
		return head + fmt.Sprintf("Cutoff2(eps=n%d,n%d)[|new-old|<=eps%%6+1]", d.In[0], d.In[1])
	case kCutEqFunc:
		return head + fmt.Sprintf("CutoffEqualFunc(%s)[equal mod %d]", in, d.C)
	case kFunc:
		return head + fmt.Sprintf("Func(reads cell c%d)", d.C)
	case kTimer:
		if d.C == 0 {
			return head + fmt.Sprintf("Timer(%s, every 0)", in)
		}
		return head + fmt.Sprintf("Timer(%s, every 1h)", in)
	case kAt:
		return head + fmt.Sprintf("Map(At(+%dm), true->%d false->0)", d.C, d.C2)
	case kAtIntervals:
		return head + fmt.Sprintf("AtIntervals(every %dm)", d.C)
	case kSnapshot:
		return head + fmt.Sprintf("Snapshot(%s, at +%dm, before %d)", in, d.C, d.C2)
	case kStep:
		return head + fmt.Sprintf("StepFunction(initial %d, steps(minute,value) %v)", d.C, d.Steps)
	case kArrayFold:
		return head + fmt.Sprintf("ArrayFold[init %d, acc*31+x](%s)", d.C, in)
	case kForAll:
		return head + fmt.Sprintf("b2i(ForAll(x%%3!=0 of %s))", in)
	case kExists:
		return head + fmt.Sprintf("b2i(Exists(x%%4==0 of %s))", in)
	case kDependOn:
		return head + fmt.Sprintf("DependOn(n%d, dependency n%d)", d.In[0], d.In[1])
	case kMapLast:
		return head + fmt.Sprintf("incrutil.MapLast(%s)[cur*3-prev+%d]", in, d.C)
	case kAccumulate:
		return head + fmt.Sprintf("slicei.Accumulate(%s)[append, keep last %d]", in, d.C)
	case kAccSorted:
		return head + fmt.Sprintf("slicei.AccumulateSorted(%s, %s)", in, d.Op)
	case kFilter:
		return head + fmt.Sprintf("slicei.Filter(%s)[v%%%d!=0]", in, d.C)
	case kSort:
		return head + fmt.Sprintf("slicei.Sort(%s, %s)", in, d.Op)
	case kTakeFirst:
		return head + fmt.Sprintf("slicei.TakeFirst(%s, %d)", in, d.C)
	case kTakeLast:
		return head + fmt.Sprintf("slicei.TakeLast(%s, %d)", in, d.C)
	case kTakeFirstSearch:
		return head + fmt.Sprintf("slicei.TakeFirstSearch(%s)[v>=%d]", in, d.C)
	case kTakeLastSearch:
		return head + fmt.Sprintf("slicei.TakeLastSearch(%s)[v>%d]", in, d.C)
	case kMapLastS:
		if d.Op == "len" {
			return head + fmt.Sprintf("incrutil.MapLast(%s)[len(cur)-len(prev)+%d]", in, d.C)
		}
		return head + fmt.Sprintf("incrutil.MapLast(%s)[sum(cur)-sum(prev)+%d]", in, d.C)
	case kCutoffS:
		return head + fmt.Sprintf("Cutoff(%s)[len(old)==len(new)]", in)
	}
	return head + fmt.Sprintf("%s(%s)", d.Kind, in)
}

type prog struct {
	defs  []*def
	roots []int
	cells int
	// paired: Func nodes that some bind template can reach. A node that a bind drops and
	// another (or a nested one) picks up later in the same pass is computed again, which for a
	// Func means reading its source although nobody marked it; so the source of these is only
	// written together with SetStale, and the extra run reads nothing new.
	paired map[int]bool
}

func (p *prog) lines() []string {
	out := make([]string, len(p.defs))
	for i, d := range p.defs {
		out[i] = d.String()
	}
	return out
}

// ---- program generator ----

type gen struct {
	r    *hx.Rand
	p    *prog
	uses []int
}

func (g *gen) add(d *def) int {
	d.ID = len(g.p.defs)
	d.Slice = sliceKinds[d.Kind]
	d.tainted = sensitive[d.Kind]
	for _, in := range d.In {
		g.uses[in]++
		if g.p.defs[in].tainted {
			d.tainted = true
		}
	}
	switch d.Kind {
	case kAccSorted, kSort:
		if d.Op == "asc" {
			d.sorted = 1
		}
	case kFilter, kTakeFirst, kTakeLast, kTakeFirstSearch, kTakeLastSearch, kCutoffS:
		d.sorted = g.p.defs[d.In[0]].sorted
	}
	g.p.defs = append(g.p.defs, d)
	g.uses = append(g.uses, 0)
	return d.ID
}

func (g *gen) pick(ok func(*def) bool) int {
	var c []int
	for _, d := range g.p.defs {
		if ok(d) {
			c = append(c, d.ID)
		}
	}
	if len(c) == 0 {
		return -1
	}
	if g.r.Chance(1, 4) {
		var u []int
		for _, id := range c {
			if g.uses[id] == 0 {
				u = append(u, id)
			}
		}
		if len(u) > 0 {
			return u[g.r.Intn(len(u))]
		}
	}
	if g.r.Chance(1, 2) {
		lo := len(c) - 6
		if lo < 0 {
			lo = 0
		}
		return c[lo+g.r.Intn(len(c)-lo)]
	}
	return c[g.r.Intn(len(c))]
}

func (g *gen) pickInt() int   { return g.pick(func(d *def) bool { return !d.Slice }) }
func (g *gen) pickOuter() int { return g.pick(func(d *def) bool { return !d.Slice && !d.tainted }) }
func (g *gen) pickInts(n int) []int {
	out := make([]int, n)
	for i := range out {
		out[i] = g.pickInt()
	}
	return out
}

func (g *gen) tmpl(depth int) *tmpl {
	if depth <= 0 || g.r.Chance(1, 8) {
		if g.r.Chance(7, 10) {
			n := g.pickOuter()
			g.uses[n]++
			return &tmpl{Op: "outer", N: n}
		}
		return &tmpl{Op: "ret", C: g.r.Intn(100)}
	}
	kids := func(n int) []*tmpl {
		out := make([]*tmpl, n)
		for i := range out {
			out[i] = g.tmpl(depth - 1 - g.r.Intn(2))
		}
		return out
	}
	switch k := g.r.Intn(100); {
	case k < 28:
		return &tmpl{Op: "map", Fn: unOps[g.r.Intn(len(unOps))], C: 1 + g.r.Intn(9), Kids: kids(1)}
	case k < 52:
		return &tmpl{Op: "map2", Fn: binOps[g.r.Intn(len(binOps))], Kids: kids(2)}
	case k < 64:
		return &tmpl{Op: "map3", C: g.r.Intn(50), Kids: kids(3)}
	case k < 76:
		return &tmpl{Op: "mapif", Kids: kids(3)}
	case k < 83:
		return &tmpl{Op: "arrayfold", C: g.r.Intn(20), Kids: kids(g.r.Range(0, 3))}
	case k < 90:
		return &tmpl{Op: "cutoffeq", Kids: kids(1)}
	default:
		return &tmpl{Op: "bindif", Kids: kids(3)}
	}
}

func (g *gen) tmpls(n int) []*tmpl {
	out := make([]*tmpl, n)
	for i := range out {
		out[i] = g.tmpl(g.r.Range(0, 3))
	}
	return out
}

// weights: the glue kinds are rare, everything else is about equally likely
var kindTable = []struct {
	k string
	w int
}{
	{kVar, 2}, {kReturn, 1}, {kMap, 3}, {kMap2, 3},
	{kMap3, 3}, {kMap4, 3}, {kMap5, 3}, {kMap6, 3}, {kMap7, 3}, {kMap8, 3},
	{kMapIf, 4}, {kBindIf, 5}, {kBind3, 4}, {kBind4, 4},
	{kCutoff2, 4}, {kCutEq, 3}, {kCutEqFunc, 4}, {kCutNever, 2}, {kCutAlways, 2}, {kCutUnchanged, 3},
	{kFreeze, 4}, {kFunc, 4}, {kWatch, 4}, {kTimer, 4},
	{kAt, 2}, {kAtIntervals, 2}, {kSnapshot, 3}, {kStep, 2},
	{kArrayFold, 4}, {kForAll, 3}, {kExists, 3}, {kDependOn, 3},
	{kMapLast, 4}, {kFirst, 2}, {kLast, 2}, {kHash, 3},
	{kAll, 4}, {kAccumulate, 4}, {kAccSorted, 4},
	{kFilter, 3}, {kSort, 3}, {kTakeFirst, 3}, {kTakeLast, 3}, {kTakeFirstSearch, 3}, {kTakeLastSearch, 3},
	{kMapLastS, 5}, {kCutoffS, 4},
}

func (g *gen) node() {
	total := 0
	for _, e := range kindTable {
		total += e.w
	}
	x := g.r.Intn(total)
	kind := ""
	for _, e := range kindTable {
		if x < e.w {
			kind = e.k
			break
		}
		x -= e.w
	}
	r := g.r
	order := "asc"
	if r.Chance(1, 3) {
		order = "desc"
	}
	anySlice := func(d *def) bool { return d.Slice }
	ascSlice := func(d *def) bool { return d.Slice && d.sorted == 1 }
	switch kind {
	case kVar:
		g.add(&def{Kind: kVar, C: r.Intn(50)})
	case kReturn:
		g.add(&def{Kind: kReturn, C: r.Intn(100)})
	case kMap:
		g.add(&def{Kind: kMap, Op: unOps[r.Intn(len(unOps))], C: 1 + r.Intn(9), In: g.pickInts(1)})
	case kMap2:
		g.add(&def{Kind: kMap2, Op: binOps[r.Intn(len(binOps))], In: g.pickInts(2)})
	case kMap3, kMap4, kMap5, kMap6, kMap7, kMap8:
		g.add(&def{Kind: kind, C: r.Intn(50), In: g.pickInts(mapArity[kind])})
	case kMapIf:
		g.add(&def{Kind: kind, In: g.pickInts(3)})
	case kBindIf:
		g.add(&def{Kind: kind, In: g.pickInts(1), T: g.tmpls(2)})
	case kBind3:
		g.add(&def{Kind: kind, In: g.pickInts(3), T: g.tmpls(r.Range(2, 3))})
	case kBind4:
		g.add(&def{Kind: kind, In: g.pickInts(4), T: g.tmpls(r.Range(2, 3))})
	case kCutoff2:
		g.add(&def{Kind: kind, In: g.pickInts(2)})
	case kCutEqFunc:
		g.add(&def{Kind: kind, C: []int{2, 3, 5}[r.Intn(3)], In: g.pickInts(1)})
	case kCutEq, kCutNever, kCutAlways, kCutUnchanged, kFreeze, kWatch:
		g.add(&def{Kind: kind, In: g.pickInts(1)})
	case kFunc:
		g.add(&def{Kind: kind, C: g.p.cells})
		g.p.cells++
	case kTimer:
		g.add(&def{Kind: kind, C: r.Intn(2), In: g.pickInts(1)})
	case kAt:
		g.add(&def{Kind: kind, C: r.Range(1, 40), C2: r.Range(1, 90)})
	case kAtIntervals:
		g.add(&def{Kind: kind, C: r.Range(2, 7)})
	case kSnapshot:
		g.add(&def{Kind: kind, C: r.Range(1, 40), C2: 9000 + r.Intn(100), In: g.pickInts(1)})
	case kStep:
		d := &def{Kind: kind, C: r.Intn(100)}
		for i, n := 0, r.Range(0, 4); i < n; i++ {
			d.Steps = append(d.Steps, [2]int{r.Range(1, 30), 100 + r.Intn(100)})
		}
		g.add(d)
	case kArrayFold:
		g.add(&def{Kind: kind, C: r.Intn(20), In: g.pickInts(r.Range(0, 5))})
	case kForAll, kExists, kAll:
		g.add(&def{Kind: kind, In: g.pickInts(r.Range(0, 5))})
	case kDependOn:
		g.add(&def{Kind: kind, In: []int{g.pickInt(), g.pick(func(*def) bool { return true })}})
	case kMapLast:
		g.add(&def{Kind: kind, C: r.Intn(10), In: g.pickInts(1)})
	case kAccumulate:
		g.add(&def{Kind: kind, C: r.Range(2, 6), In: g.pickInts(1)})
	case kAccSorted:
		g.add(&def{Kind: kind, Op: order, In: g.pickInts(1)})
	case kFirst, kLast, kHash, kFilter, kSort, kTakeFirst, kTakeLast, kMapLastS, kCutoffS:
		s := g.pick(anySlice)
		if (kind == kMapLastS || kind == kCutoffS) && r.Chance(1, 2) {
			// rather over something that builds its value from its previous one
			if acc := g.pick(func(d *def) bool { return d.Kind == kAccSorted || d.Kind == kAccumulate }); acc >= 0 {
				s = acc
			} else {
				s = g.add(&def{Kind: kAccSorted, Op: order, In: g.pickInts(1)})
			}
		}
		if s < 0 {
			s = g.add(&def{Kind: kAll, In: g.pickInts(r.Range(1, 4))})
		}
		switch kind {
		case kMapLastS:
			g.add(&def{Kind: kind, Op: []string{"sum", "sum", "len"}[r.Intn(3)], C: r.Intn(10), In: []int{s}})
		case kFilter:
			g.add(&def{Kind: kind, C: r.Range(2, 4), In: []int{s}})
		case kSort:
			g.add(&def{Kind: kind, Op: order, In: []int{s}})
		case kTakeFirst, kTakeLast:
			g.add(&def{Kind: kind, C: r.Range(0, 4), In: []int{s}})
		default:
			g.add(&def{Kind: kind, In: []int{s}})
		}
	case kTakeFirstSearch, kTakeLastSearch:
		s := g.pick(ascSlice)
		if s < 0 {
			if any := g.pick(anySlice); any >= 0 && r.Chance(1, 2) {
				s = g.add(&def{Kind: kSort, Op: "asc", In: []int{any}})
			} else {
				s = g.add(&def{Kind: kAccSorted, Op: "asc", In: g.pickInts(1)})
			}
		}
		thr := r.Intn(60)
		if r.Chance(1, 2) {
			thr = r.Intn(modulus)
		}
		g.add(&def{Kind: kind, C: thr, In: []int{s}})
	}
}

func genProgram(r *hx.Rand) *prog {
	g := &gen{r: r, p: &prog{}}
	for i, n := 0, r.Range(3, 5); i < n; i++ {
		g.add(&def{Kind: kVar, C: r.Intn(50)})
	}
	for i, n := 0, r.Range(8, 24); i < n; i++ {
		g.node()
	}
	// every slice is consumed by something int valued, so that a root can reach it
	for _, d := range append([]*def(nil), g.p.defs...) {
		if d.Slice && g.uses[d.ID] == 0 {
			g.add(&def{Kind: []string{kHash, kFirst, kLast}[r.Intn(3)], In: []int{d.ID}})
		}
	}
	var sinks []int
	for _, d := range g.p.defs {
		if !d.Slice && g.uses[d.ID] == 0 && d.Kind != kVar {
			sinks = append(sinks, d.ID)
		}
	}
	for len(sinks) > 5 {
		i := r.Intn(len(sinks))
		sinks = append(sinks[:i], sinks[i+1:]...)
	}
	for len(sinks) < 2 {
		sinks = append(sinks, g.pickInt())
	}
	if r.Chance(1, 2) {
		sinks = append(sinks, g.pickInt())
	}
	seen := map[int]bool{}
	for _, s := range sinks {
		if !seen[s] {
			seen[s] = true
			g.p.roots = append(g.p.roots, s)
		}
	}
	sort.Ints(g.p.roots)
	g.p.paired = map[int]bool{}
	seen = map[int]bool{}
	var visit func(id int)
	var visitT func(t *tmpl)
	visit = func(id int) {
		if seen[id] {
			return
		}
		seen[id] = true
		d := g.p.defs[id]
		if d.Kind == kFunc {
			g.p.paired[id] = true
		}
		for _, in := range d.In {
			visit(in)
		}
		for _, t := range d.T {
			visitT(t)
		}
	}
	visitT = func(t *tmpl) {
		if t.Op == "outer" {
			visit(t.N)
		}
		for _, k := range t.Kids {
			visitT(k)
		}
	}
	for _, d := range g.p.defs {
		for _, t := range d.T {
			visitT(t)
		}
	}
	return g.p
}

// ---- histories ----

type step struct {
	Op  string // set advance cell stale cellstale observe unobserve pass
	A   int    // node id / cell index / minutes
	B   int    // value
	Par bool
	// -faults, passes only: in the second world the user functions of definition F-1 fail in
	// this pass (0: none), by returning an error where the signature has one if FErr, else by
	// panicking; the pass is then retried fault-free with the stabilizer RetryPar says
	F        int
	FErr     bool
	RetryPar bool
}

func (s step) String() string {
	switch s.Op {
	case "set":
		return fmt.Sprintf("Set n%d=%d", s.A, s.B)
	case "advance":
		return fmt.Sprintf("Clock.Advance +%dm", s.A)
	case "cell":
		return fmt.Sprintf("cell c%d=%d", s.A, s.B)
	case "stale":
		return fmt.Sprintf("SetStale n%d", s.A)
	case "cellstale":
		return fmt.Sprintf("source of n%d=%d and SetStale n%d", s.A, s.B, s.A)
	case "observe":
		return fmt.Sprintf("Observe n%d", s.A)
	case "unobserve":
		return fmt.Sprintf("Unobserve n%d", s.A)
	case "pass":
		name := map[bool]string{false: "Stabilize", true: "ParallelStabilize"}
		if s.F > 0 {
			how := map[bool]string{false: "panic", true: "return an error (panic where they cannot)"}[s.FErr]
			return fmt.Sprintf("%s [twin: the functions of n%d %s, then retry with %s]", name[s.Par], s.F-1, how, name[s.RetryPar])
		}
		return name[s.Par]
	}
	return "?" + s.Op
}

func stepStrings(steps []step) []string {
	out := make([]string, len(steps))
	for i, s := range steps {
		out[i] = fmt.Sprintf("%d: %s", i, s)
	}
	return out
}

func genHistory(r *hx.Rand, p *prog) (mode string, steps []step) {
	mode = []string{"serial", "parallel", "mixed"}[r.Intn(3)]
	pass := func() step {
		return step{Op: "pass", Par: mode == "parallel" || (mode == "mixed" && r.Chance(1, 2))}
	}
	var vars, funcs []int
	cur := map[int]int{}
	for _, d := range p.defs {
		switch d.Kind {
		case kVar:
			vars = append(vars, d.ID)
			cur[d.ID] = d.C
		case kFunc:
			funcs = append(funcs, d.ID)
		}
	}
	observed := map[int]bool{}
	for _, root := range p.roots {
		if r.Chance(3, 4) {
			observed[root] = true
			steps = append(steps, step{Op: "observe", A: root})
		}
	}
	if len(observed) == 0 {
		observed[p.roots[0]] = true
		steps = append(steps, step{Op: "observe", A: p.roots[0]})
	}
	steps = append(steps, pass())
	for i, n := 0, r.Range(8, 28); i < n; i++ {
		switch k := r.Intn(100); {
		case k < 40:
			for j, m := 0, r.Range(1, 3); j < m; j++ {
				v := vars[r.Intn(len(vars))]
				nv := r.Intn(50)
				switch x := r.Intn(10); {
				case x < 2:
					nv = cur[v] // a write of the value it holds: propagates all the same (no cutoff by default)
				case x < 5:
					nv = norm(cur[v] + r.Range(-3, 3))
				}
				cur[v] = nv
				steps = append(steps, step{Op: "set", A: v, B: nv})
			}
		case k < 54:
			steps = append(steps, step{Op: "advance", A: r.Range(1, 6)})
		case k < 64 && len(funcs) > 0:
			f := p.defs[funcs[r.Intn(len(funcs))]]
			if p.paired[f.ID] {
				if r.Chance(2, 3) {
					steps = append(steps, step{Op: "cellstale", A: f.ID, B: r.Intn(200)})
				} else {
					steps = append(steps, step{Op: "stale", A: f.ID})
				}
			} else if r.Chance(2, 3) {
				steps = append(steps, step{Op: "cell", A: f.C, B: r.Intn(200)})
			}
			if !p.paired[f.ID] && r.Chance(2, 3) {
				steps = append(steps, step{Op: "stale", A: f.ID})
			}
		case k < 73:
			var on []int
			for _, root := range p.roots {
				if observed[root] {
					on = append(on, root)
				}
			}
			if len(on) > 0 {
				root := on[r.Intn(len(on))]
				delete(observed, root)
				steps = append(steps, step{Op: "unobserve", A: root})
			}
		case k < 84:
			var off []int
			for _, root := range p.roots {
				if !observed[root] {
					off = append(off, root)
				}
			}
			if len(off) > 0 {
				root := off[r.Intn(len(off))]
				observed[root] = true
				steps = append(steps, step{Op: "observe", A: root})
			}
		default:
			steps = append(steps, pass()) // a pass with nothing written since the last one
			continue
		}
		if r.Chance(3, 5) {
			steps = append(steps, pass())
		}
	}
	steps = append(steps, pass())
	return
}

// ---- the program on the library ----

type world struct {
	p       *prog
	g       *incr.Graph
	clock   *incr.Clock
	now     int // minutes since base
	ints    []incr.Incr[int]
	slices  []incr.Incr[[]int]
	vars    map[int]incr.VarIncr[int]
	watches map[int]incr.WatchIncr[int]
	cells   []int
	obs     map[int]incr.ObserveIncr[int]

	// values handed out by slice-valued nodes after earlier passes (see checkHanded)
	retained []handed
	latest   map[int][]int

	// fault injection (-faults): every user function built for the definition failNode fails
	// while it is set; with failErr those whose signature has an error return it, the others
	// (and all of them without failErr) panic with it
	ctxAPI             bool // build with the ...Context constructors, so that functions can return errors
	failNode           int
	failErr            bool
	hits               int32
	panicked, returned int32
}

var errInjected = errors.New("kindtrace: injected fault")

// trip is called at the top of every user function; id is the definition it was built for
func (w *world) trip(id int, canReturn bool) error {
	if w.failNode != id {
		return nil
	}
	atomic.AddInt32(&w.hits, 1)
	if w.failErr && canReturn {
		atomic.StoreInt32(&w.returned, 1)
		return errInjected
	}
	atomic.StoreInt32(&w.panicked, 1)
	panic(errInjected)
}

func (w *world) must(id int) { _ = w.trip(id, false) }

func newWorld(p *prog) *world { return newWorldAPI(p, false) }

func newWorldAPI(p *prog, ctxAPI bool) *world {
	w := &world{p: p, g: incr.New(incr.OptGraphParallelism(4)), clock: incr.NewClock(base), failNode: -1, ctxAPI: ctxAPI, latest: map[int][]int{},
		ints: make([]incr.Incr[int], len(p.defs)), slices: make([]incr.Incr[[]int], len(p.defs)),
		vars: map[int]incr.VarIncr[int]{}, watches: map[int]incr.WatchIncr[int]{},
		cells: make([]int, p.cells), obs: map[int]incr.ObserveIncr[int]{}}
	for _, d := range p.defs {
		w.buildNode(d)
	}
	return w
}

func (w *world) buildT(bs incr.Scope, t *tmpl, bound []int, id int) incr.Incr[int] {
	kid := func(i int) incr.Incr[int] { return w.buildT(bs, t.Kids[i], bound, id) }
	even := func(x int) bool { w.must(id); return isEven(x) }
	switch t.Op {
	case "outer":
		return w.ints[t.N]
	case "ret":
		return incr.Return(bs, wsum(t.C, bound...))
	case "map":
		return incr.Map(bs, kid(0), func(x int) int { w.must(id); return un(t.Fn, t.C, x) })
	case "map2":
		return incr.Map2(bs, kid(0), kid(1), func(x, y int) int { w.must(id); return bin(t.Fn, x, y) })
	case "map3":
		return incr.Map3(bs, kid(0), kid(1), kid(2), func(x, y, z int) int { w.must(id); return wsum(t.C, x, y, z) })
	case "mapif":
		return incr.MapIf(bs, kid(0), kid(1), incr.Map(bs, kid(2), even))
	case "arrayfold":
		ins := make([]incr.Incr[int], len(t.Kids))
		for i := range ins {
			ins[i] = kid(i)
		}
		return incr.ArrayFold(bs, t.C, func(acc, x int) int { w.must(id); return foldStep(acc, x) }, ins...)
	case "cutoffeq":
		return incr.CutoffEqual(bs, kid(0))
	case "bindif":
		return incr.BindIf(bs, incr.Map(bs, kid(0), even), func(_ context.Context, s incr.Scope, b bool) (incr.Incr[int], error) {
			if err := w.trip(id, true); err != nil {
				return nil, err
			}
			pick := t.Kids[2]
			if b {
				pick = t.Kids[1]
			}
			return w.buildT(s, pick, []int{b2i(b)}, id), nil
		})
	}
	panic("kindtrace: unknown template op " + t.Op)
}

func (w *world) buildNode(d *def) {
	g := w.g
	id := d.ID
	must := func() { w.must(id) }
	try := func() error { return w.trip(id, true) }
	even := func(x int) bool { must(); return isEven(x) }
	in := func(i int) incr.Incr[int] { return w.ints[d.In[i]] }
	sl := func(i int) incr.Incr[[]int] { return w.slices[d.In[i]] }
	all := func() []incr.Incr[int] {
		out := make([]incr.Incr[int], len(d.In))
		for i := range out {
			out[i] = in(i)
		}
		return out
	}
	var n incr.Incr[int]
	var s incr.Incr[[]int]
	switch d.Kind {
	case kVar:
		v := incr.Var(g, d.C)
		w.vars[d.ID] = v
		n = v
	case kReturn:
		n = incr.Return(g, d.C)
	case kMap:
		// with -faults the odd ones are built with MapContext, whose function can return the error
		if w.ctxAPI && id%2 == 1 {
			n = incr.MapContext(g, in(0), func(_ context.Context, x int) (int, error) { return un(d.Op, d.C, x), try() })
		} else {
			n = incr.Map(g, in(0), func(x int) int { must(); return un(d.Op, d.C, x) })
		}
	case kMap2:
		if w.ctxAPI && id%2 == 1 {
			n = incr.Map2Context(g, in(0), in(1), func(_ context.Context, x, y int) (int, error) { return bin(d.Op, x, y), try() })
		} else {
			n = incr.Map2(g, in(0), in(1), func(x, y int) int { must(); return bin(d.Op, x, y) })
		}
	case kMap3:
		f := func(a, b, c int) int { must(); return wsum(d.C, a, b, c) }
		if w.ctxAPI { // Map3..Map8 are wrappers of these
			n = incr.Map3Context(g, in(0), in(1), in(2), func(_ context.Context, a, b, c int) (int, error) { return wsum(d.C, a, b, c), try() })
		} else {
			n = incr.Map3(g, in(0), in(1), in(2), f)
		}
	case kMap4:
		f := func(a, b, c, e int) int { must(); return wsum(d.C, a, b, c, e) }
		if w.ctxAPI {
			n = incr.Map4Context(g, in(0), in(1), in(2), in(3), func(_ context.Context, a, b, c, e int) (int, error) { return wsum(d.C, a, b, c, e), try() })
		} else {
			n = incr.Map4(g, in(0), in(1), in(2), in(3), f)
		}
	case kMap5:
		f := func(a, b, c, e, f int) int { must(); return wsum(d.C, a, b, c, e, f) }
		if w.ctxAPI {
			n = incr.Map5Context(g, in(0), in(1), in(2), in(3), in(4), func(_ context.Context, a, b, c, e, f int) (int, error) { return wsum(d.C, a, b, c, e, f), try() })
		} else {
			n = incr.Map5(g, in(0), in(1), in(2), in(3), in(4), f)
		}
	case kMap6:
		f := func(a, b, c, e, f, h int) int { must(); return wsum(d.C, a, b, c, e, f, h) }
		if w.ctxAPI {
			n = incr.Map6Context(g, in(0), in(1), in(2), in(3), in(4), in(5), func(_ context.Context, a, b, c, e, f, h int) (int, error) { return wsum(d.C, a, b, c, e, f, h), try() })
		} else {
			n = incr.Map6(g, in(0), in(1), in(2), in(3), in(4), in(5), f)
		}
	case kMap7:
		f := func(a, b, c, e, f, h, i int) int { must(); return wsum(d.C, a, b, c, e, f, h, i) }
		if w.ctxAPI {
			n = incr.Map7Context(g, in(0), in(1), in(2), in(3), in(4), in(5), in(6), func(_ context.Context, a, b, c, e, f, h, i int) (int, error) {
				return wsum(d.C, a, b, c, e, f, h, i), try()
			})
		} else {
			n = incr.Map7(g, in(0), in(1), in(2), in(3), in(4), in(5), in(6), f)
		}
	case kMap8:
		f := func(a, b, c, e, f, h, i, j int) int { must(); return wsum(d.C, a, b, c, e, f, h, i, j) }
		if w.ctxAPI {
			n = incr.Map8Context(g, in(0), in(1), in(2), in(3), in(4), in(5), in(6), in(7), func(_ context.Context, a, b, c, e, f, h, i, j int) (int, error) {
				return wsum(d.C, a, b, c, e, f, h, i, j), try()
			})
		} else {
			n = incr.Map8(g, in(0), in(1), in(2), in(3), in(4), in(5), in(6), in(7), f)
		}
	case kMapIf:
		n = incr.MapIf(g, in(0), in(1), incr.Map(g, in(2), even))
	case kBindIf:
		n = incr.BindIf(g, incr.Map(g, in(0), even), func(_ context.Context, bs incr.Scope, b bool) (incr.Incr[int], error) {
			if err := try(); err != nil {
				return nil, err
			}
			pick := d.T[1]
			if b {
				pick = d.T[0]
			}
			return w.buildT(bs, pick, []int{b2i(b)}, id), nil
		})
	case kBind3:
		if w.ctxAPI {
			n = incr.Bind3Context(g, in(0), in(1), in(2), func(_ context.Context, bs incr.Scope, a, b, c int) (incr.Incr[int], error) {
				if err := try(); err != nil {
					return nil, err
				}
				return w.buildT(bs, d.T[(a+b+c)%len(d.T)], []int{a, b, c}, id), nil
			})
		} else {
			n = incr.Bind3(g, in(0), in(1), in(2), func(bs incr.Scope, a, b, c int) incr.Incr[int] {
				must()
				return w.buildT(bs, d.T[(a+b+c)%len(d.T)], []int{a, b, c}, id)
			})
		}
	case kBind4:
		if w.ctxAPI {
			n = incr.Bind4Context(g, in(0), in(1), in(2), in(3), func(_ context.Context, bs incr.Scope, a, b, c, e int) (incr.Incr[int], error) {
				if err := try(); err != nil {
					return nil, err
				}
				return w.buildT(bs, d.T[(a+b+c+e)%len(d.T)], []int{a, b, c, e}, id), nil
			})
		} else {
			n = incr.Bind4(g, in(0), in(1), in(2), in(3), func(bs incr.Scope, a, b, c, e int) incr.Incr[int] {
				must()
				return w.buildT(bs, d.T[(a+b+c+e)%len(d.T)], []int{a, b, c, e}, id)
			})
		}
	case kCutoff2:
		if w.ctxAPI {
			n = incr.Cutoff2Context(g, in(0), in(1), func(_ context.Context, eps, old, new int) (bool, error) { return cut2(eps, old, new), try() })
		} else {
			n = incr.Cutoff2(g, in(0), in(1), func(eps, old, new int) bool { must(); return cut2(eps, old, new) })
		}
	case kCutEq:
		n = incr.CutoffEqual(g, in(0))
	case kCutEqFunc:
		n = incr.CutoffEqualFunc(g, in(0), func(a, b int) bool { must(); return a%d.C == b%d.C })
	case kCutNever:
		n = incr.CutoffNever(g, in(0))
	case kCutAlways:
		n = incr.CutoffAlways(g, in(0))
	case kCutUnchanged:
		n = incrutil.CutoffUnchanged(g, in(0))
	case kFreeze:
		n = incr.Freeze(g, in(0))
	case kFunc:
		n = incr.Func(g, func(context.Context) (int, error) { return w.cells[d.C], try() })
	case kWatch:
		wt := incr.Watch(g, in(0))
		w.watches[d.ID] = wt
		n = wt
	case kTimer:
		every := time.Duration(0)
		if d.C != 0 {
			every = time.Hour
		}
		n = incr.Timer(g, in(0), every)
	case kAt:
		n = incr.Map(g, incr.At(g, w.clock, minute(d.C)), func(b bool) int { must(); return b2i(b) * d.C2 })
	case kAtIntervals:
		n = incr.AtIntervals(g, w.clock, time.Duration(d.C)*time.Minute)
	case kSnapshot:
		n = incr.Snapshot(g, w.clock, in(0), minute(d.C), d.C2)
	case kStep:
		steps := make([]incr.Step[int], len(d.Steps))
		for i, st := range d.Steps {
			steps[i] = incr.Step[int]{At: minute(st[0]), Value: st[1]}
		}
		n = incr.StepFunction(g, w.clock, d.C, steps...)
	case kArrayFold:
		n = incr.ArrayFold(g, d.C, func(acc, x int) int { must(); return foldStep(acc, x) }, all()...)
	case kForAll, kExists:
		pred := func(x int) bool { must(); return forAllPred(x) }
		if d.Kind == kExists {
			pred = func(x int) bool { must(); return existsPred(x) }
		}
		bools := make([]incr.Incr[bool], len(d.In))
		for i := range bools {
			bools[i] = incr.Map(g, in(i), pred)
		}
		if d.Kind == kForAll {
			n = incr.Map(g, incr.ForAll(g, bools...), func(b bool) int { must(); return b2i(b) })
		} else {
			n = incr.Map(g, incr.Exists(g, bools...), func(b bool) int { must(); return b2i(b) })
		}
	case kDependOn:
		var dep incr.INode = w.ints[d.In[1]]
		if w.p.defs[d.In[1]].Slice {
			dep = w.slices[d.In[1]]
		}
		n = incr.DependOn(g, in(0), dep)
	case kMapLast:
		n = incrutil.MapLast(g, in(0), func(prev, cur int) int { must(); return mapLastFn(d.C, prev, cur) })
	case kFirst:
		n = slicei.First(g, sl(0))
	case kLast:
		n = slicei.Last(g, sl(0))
	case kHash:
		n = incr.Map(g, sl(0), func(xs []int) int { must(); return hashSlice(xs) })
	case kAll:
		s = incr.All(g, all()...)
	case kAccumulate:
		acc := accCapped(d.C)
		s = slicei.Accumulate(g, in(0), func(prev []int, v int) []int { must(); return acc(prev, v) })
	case kAccSorted:
		// the comparer is the user function here (it runs once the list is not empty)
		if d.Op == "asc" {
			s = slicei.AccumulateSorted(g, in(0), func(a, b int) int { must(); return slicei.Asc(a, b) })
		} else {
			s = slicei.AccumulateSorted(g, in(0), func(a, b int) int { must(); return slicei.Desc(a, b) })
		}
	case kFilter:
		s = slicei.Filter(g, sl(0), func(v int) bool { must(); return v%d.C != 0 })
	case kSort:
		if d.Op == "asc" {
			s = slicei.Sort(g, sl(0), func(a, b int) int { must(); return slicei.Asc(a, b) })
		} else {
			s = slicei.Sort(g, sl(0), func(a, b int) int { must(); return slicei.Desc(a, b) })
		}
	case kTakeFirst:
		s = slicei.TakeFirst(g, sl(0), d.C)
	case kTakeLast:
		s = slicei.TakeLast(g, sl(0), d.C)
	case kTakeFirstSearch:
		s = slicei.TakeFirstSearch(g, sl(0), func(v int) bool { must(); return v >= d.C })
	case kTakeLastSearch:
		s = slicei.TakeLastSearch(g, sl(0), func(v int) bool { must(); return v > d.C })
	case kMapLastS:
		n = incrutil.MapLast(g, sl(0), func(prev, cur []int) int { must(); return mapLastSliceFn(d.Op, d.C, prev, cur) })
	case kCutoffS:
		s = incr.Cutoff(g, sl(0), func(a, b []int) bool { must(); return sameLen(a, b) })
	default:
		panic("kindtrace: unknown kind " + d.Kind)
	}
	w.ints[d.ID], w.slices[d.ID] = n, s
}

// ---- the reference ----

// inst is one node a bind function built in its scope; a bind function that runs again builds
// new ones
type inst struct {
	t        *tmpl
	kids     []*inst
	bound    []int
	computed bool
	val      int
	held     int   // cutoffeq
	rhs      *inst // bindif: what its function returned last
}

func newInst(t *tmpl, bound []int) *inst {
	x := &inst{t: t, bound: bound}
	switch t.Op {
	case "bindif":
		x.kids = []*inst{newInst(t.Kids[0], bound)} // the branches are built when the function runs
	default:
		for _, k := range t.Kids {
			x.kids = append(x.kids, newInst(k, bound))
		}
	}
	return x
}

type rnode struct {
	computed bool // computed since it (re)entered the graph
	stale    bool // marked for the next pass: Var.Set, Graph.SetStale, a clock trigger
	epoch    int
	chg      bool
	ran      bool // in the pass `epoch`
	v        int
	s        []int
	held     int   // cutoffs: the value last let through (initially the zero value)
	frozen   bool  // freeze, timer(1h): has its value
	last     int   // maplast
	lastS    []int // maplastslice: what its input read when it last ran
	taken    bool  // snapshot
	armed    int   // clock kinds: minute of the next trigger, -1 none
	watch    []int // watch: Values()
	rhs      *inst // binds: what the function returned last (kept while the bind is out of the graph)
}

type ref struct {
	p        *prog
	n        []*rnode
	varVal   map[int]int
	cells    []int
	now      int
	observed map[int]bool
	epoch    int
	inGraph  []bool
}

func newRef(p *prog) *ref {
	r := &ref{p: p, n: make([]*rnode, len(p.defs)), varVal: map[int]int{}, cells: make([]int, p.cells), observed: map[int]bool{},
		inGraph: make([]bool, len(p.defs))}
	for i, d := range p.defs {
		r.n[i] = &rnode{armed: -1}
		switch d.Kind {
		case kVar:
			r.varVal[i] = d.C
		case kAt, kSnapshot:
			r.n[i].armed = d.C
		case kAtIntervals:
			r.n[i].armed = d.C
		case kStep:
			r.n[i].armed = nextBoundary(d, 0)
		}
		if d.Kind == kSnapshot {
			r.n[i].v = d.C2
		}
	}
	return r
}

func nextBoundary(d *def, now int) int {
	next := -1
	for _, st := range d.Steps {
		if st[0] > now && (next < 0 || st[0] < next) {
			next = st[0]
		}
	}
	return next
}

// stepValue: the last step whose time has come; of two steps at one time the one listed later
func stepValue(d *def, now int) int {
	v, at := d.C, -1
	for _, st := range d.Steps {
		if st[0] <= now && st[0] >= at {
			v, at = st[1], st[0]
		}
	}
	return v
}

// sync recomputes which nodes are in the graph: what the observed roots reach through inputs
// and through what the bind functions returned last. A node that leaves is computed again when
// it comes back; marks on it are dropped with it.
func (r *ref) sync() {
	in := make([]bool, len(r.n))
	var visit func(id int)
	var visitInst func(x *inst)
	visit = func(id int) {
		if in[id] {
			return
		}
		in[id] = true
		for _, k := range r.p.defs[id].In {
			visit(k)
		}
		if r.n[id].rhs != nil {
			visitInst(r.n[id].rhs)
		}
	}
	visitInst = func(x *inst) {
		if x.t.Op == "outer" {
			visit(x.t.N)
			return
		}
		for _, k := range x.kids {
			visitInst(k)
		}
		if x.rhs != nil {
			visitInst(x.rhs)
		}
	}
	for root := range r.observed {
		visit(root)
	}
	for id, n := range r.n {
		if !in[id] {
			n.computed, n.stale = false, false
		}
	}
	r.inGraph = in
}

func (r *ref) mark(id int) {
	if r.n[id].computed {
		r.n[id].stale = true
	}
}

func (r *ref) advance(m int) {
	r.now += m
	for id, d := range r.p.defs {
		if clockKinds[d.Kind] && r.n[id].armed >= 0 && r.n[id].armed <= r.now {
			r.mark(id)
		}
	}
}

func (r *ref) pass() {
	r.epoch++
	roots := make([]int, 0, len(r.observed))
	for root := range r.observed {
		roots = append(roots, root)
	}
	sort.Ints(roots)
	for _, root := range roots {
		r.eval(root)
	}
	r.sync()
}

// evalInst evaluates a node of a bind's right-hand side; changed reports if it ran in this pass
// and let its result through
func (r *ref) evalInst(x *inst) (val int, changed bool) {
	t := x.t
	switch t.Op {
	case "outer":
		ch := r.eval(t.N)
		return r.n[t.N].v, ch
	case "ret":
		if !x.computed {
			x.computed, x.val = true, wsum(t.C, x.bound...)
			return x.val, true
		}
		return x.val, false
	case "bindif":
		cv, cch := r.evalInst(x.kids[0])
		lhs := !x.computed || cch
		if lhs {
			pick := t.Kids[2]
			if isEven(cv) {
				pick = t.Kids[1]
			}
			x.rhs = newInst(pick, []int{b2i(isEven(cv))})
		}
		v, rch := r.evalInst(x.rhs)
		x.computed, x.val = true, v
		return v, lhs || rch
	}
	vals := make([]int, len(x.kids))
	any := !x.computed
	for i, k := range x.kids {
		v, ch := r.evalInst(k)
		vals[i] = v
		any = any || ch
	}
	if !any {
		return x.val, false
	}
	x.computed = true
	switch t.Op {
	case "map":
		x.val = un(t.Fn, t.C, vals[0])
	case "map2":
		x.val = bin(t.Fn, vals[0], vals[1])
	case "map3":
		x.val = wsum(t.C, vals...)
	case "mapif":
		x.val = vals[1]
		if isEven(vals[2]) {
			x.val = vals[0]
		}
	case "arrayfold":
		x.val = t.C
		for _, v := range vals {
			x.val = foldStep(x.val, v)
		}
	case "cutoffeq":
		if x.held == vals[0] {
			return x.held, false
		}
		x.held, x.val = vals[0], vals[0]
	default:
		panic("kindtrace: unknown template op " + t.Op)
	}
	return x.val, true
}

func sortedCopy(xs []int, desc bool) []int {
	out := append([]int(nil), xs...)
	sort.SliceStable(out, func(i, j int) bool {
		if desc {
			return out[i] > out[j]
		}
		return out[i] < out[j]
	})
	return out
}

// eval evaluates a top-level node for this pass (once) and reports if it changed, i.e. ran and
// let its result through to its dependents
func (r *ref) eval(id int) bool {
	n, d := r.n[id], r.p.defs[id]
	if n.epoch == r.epoch {
		return n.chg
	}
	any := false
	for _, in := range d.In {
		if r.eval(in) {
			any = true
		}
	}
	fresh := !n.computed
	iv := func(i int) int { return r.n[d.In[i]].v }
	ivs := func() []int {
		out := make([]int, len(d.In))
		for i := range out {
			out[i] = iv(i)
		}
		return out
	}
	is := func() []int { return r.n[d.In[0]].s }
	done := func(chg bool) bool {
		n.computed, n.stale, n.epoch, n.chg, n.ran = true, false, r.epoch, chg, true
		return chg
	}

	if bindKinds[d.Kind] {
		lhs := fresh || any
		if lhs {
			var pick *tmpl
			var bound []int
			if d.Kind == kBindIf {
				b := isEven(iv(0))
				pick, bound = d.T[1], []int{b2i(b)}
				if b {
					pick = d.T[0]
				}
			} else {
				bound = ivs()
				sum := 0
				for _, v := range bound {
					sum += v
				}
				pick = d.T[sum%len(d.T)]
			}
			n.rhs = newInst(pick, bound)
		}
		v, rch := r.evalInst(n.rhs)
		n.v = v
		done(lhs || rch)
		n.ran = lhs || rch
		return n.chg
	}

	// the clock kinds are, by their documentation, functions of the time (C15); their value is
	// the closed form whether or not the wake-up reached them
	switch d.Kind {
	case kAt:
		n.v = b2i(r.now >= d.C) * d.C2
	case kAtIntervals:
		n.v = r.now / d.C
	case kStep:
		n.v = stepValue(d, r.now)
	case kVar:
		n.v = r.varVal[id]
	}

	if !(fresh || n.stale || any || d.Kind == kTimer) {
		done(false)
		n.ran = false
		return false
	}
	cutoff := func(stop bool, in int) bool {
		if !stop {
			n.held = in
		}
		n.v = n.held
		return done(!stop)
	}
	switch d.Kind {
	case kVar:
	case kReturn:
		n.v = d.C
	case kMap:
		n.v = un(d.Op, d.C, iv(0))
	case kMap2:
		n.v = bin(d.Op, iv(0), iv(1))
	case kMap3, kMap4, kMap5, kMap6, kMap7, kMap8:
		n.v = wsum(d.C, ivs()...)
	case kMapIf:
		n.v = iv(1)
		if isEven(iv(2)) {
			n.v = iv(0)
		}
	case kCutoff2:
		return cutoff(cut2(iv(0), n.held, iv(1)), iv(1))
	case kCutEq, kCutUnchanged:
		return cutoff(n.held == iv(0), iv(0))
	case kCutEqFunc:
		return cutoff(n.held%d.C == iv(0)%d.C, iv(0))
	case kCutNever:
		return cutoff(false, iv(0))
	case kCutAlways:
		return cutoff(true, iv(0))
	case kFreeze:
		if !n.frozen {
			n.frozen, n.v = true, iv(0)
		}
	case kFunc:
		n.v = r.cells[d.C]
	case kWatch:
		n.v = iv(0)
		n.watch = append(n.watch, iv(0))
	case kTimer:
		// every 0: due in every pass. every 1h: due the first time, and then not for the
		// length of any history here.
		if d.C != 0 && n.frozen {
			return done(false)
		}
		n.frozen, n.v = true, iv(0)
	case kAt:
		if r.now >= d.C {
			n.armed = -1
		}
	case kAtIntervals:
		n.armed = (n.v + 1) * d.C
	case kStep:
		n.armed = nextBoundary(d, r.now)
	case kSnapshot:
		if !n.taken && r.now >= d.C {
			n.taken, n.v, n.armed = true, iv(0), -1
		}
	case kArrayFold:
		n.v = d.C
		for _, v := range ivs() {
			n.v = foldStep(n.v, v)
		}
	case kForAll:
		n.v = 1
		for _, v := range ivs() {
			if !forAllPred(v) {
				n.v = 0
			}
		}
	case kExists:
		n.v = 0
		for _, v := range ivs() {
			if existsPred(v) {
				n.v = 1
			}
		}
	case kDependOn:
		n.v = iv(0)
	case kMapLast:
		n.v = mapLastFn(d.C, n.last, iv(0))
		n.last = iv(0)
	case kFirst:
		n.v = 0
		if s := is(); len(s) > 0 {
			n.v = s[0]
		}
	case kLast:
		n.v = 0
		if s := is(); len(s) > 0 {
			n.v = s[len(s)-1]
		}
	case kHash:
		n.v = hashSlice(is())
	case kAll:
		n.s = ivs()
	case kAccumulate:
		n.s = accCapped(d.C)(n.s, iv(0))
	case kAccSorted:
		n.s = sortedCopy(append(append([]int(nil), n.s...), iv(0)), d.Op == "desc")
	case kFilter:
		n.s = nil
		for _, v := range is() {
			if v%d.C != 0 {
				n.s = append(n.s, v)
			}
		}
	case kSort:
		n.s = sortedCopy(is(), d.Op == "desc")
	case kTakeFirst:
		s := is()
		if len(s) > d.C {
			s = s[:d.C]
		}
		n.s = append([]int(nil), s...)
	case kTakeLast:
		s := is()
		if len(s) > d.C {
			s = s[len(s)-d.C:]
		}
		n.s = append([]int(nil), s...)
	case kTakeFirstSearch: // the elements before the first one >= C of an ascending list
		n.s = nil
		for _, v := range is() {
			if v >= d.C {
				break
			}
			n.s = append(n.s, v)
		}
	case kMapLastS: // the previous value is a value: what it held then, whatever the input did since
		n.v = mapLastSliceFn(d.Op, d.C, n.lastS, is())
		n.lastS = append([]int(nil), is()...)
	case kCutoffS: // holds the last value let through (initially the zero value, nil)
		if sameLen(n.s, is()) {
			return done(false)
		}
		n.s = append([]int(nil), is()...)
	case kTakeLastSearch: // from the first element > C of an ascending list on
		n.s = nil
		for i, v := range is() {
			if v > d.C {
				n.s = append([]int(nil), is()[i:]...)
				break
			}
		}
	default:
		panic("kindtrace: unknown kind " + d.Kind)
	}
	return done(true)
}

// apply does a step other than a pass on the reference
func (r *ref) apply(s step) {
	switch s.Op {
	case "set":
		r.varVal[s.A] = s.B
		r.mark(s.A)
	case "advance":
		r.advance(s.A)
	case "cell":
		r.cells[s.A] = s.B
	case "stale":
		r.mark(s.A)
	case "cellstale":
		r.cells[r.p.defs[s.A].C] = s.B
		r.mark(s.A)
	case "observe":
		if !r.observed[s.A] {
			r.observed[s.A] = true
			r.sync()
		}
	case "unobserve":
		if r.observed[s.A] {
			delete(r.observed, s.A)
			r.sync()
		}
	}
}

// kinds with a user function that the harness can make fail
var faultable = map[string]bool{kMap: true, kMap2: true, kMap3: true, kMap4: true, kMap5: true, kMap6: true, kMap7: true, kMap8: true,
	kMapIf: true, kBindIf: true, kBind3: true, kBind4: true, kCutoff2: true, kCutEqFunc: true, kFunc: true, kAt: true,
	kArrayFold: true, kForAll: true, kExists: true, kMapLast: true, kHash: true, kAccumulate: true, kAccSorted: true,
	kFilter: true, kSort: true, kTakeFirstSearch: true, kTakeLastSearch: true, kMapLastS: true, kCutoffS: true}

// addFaults chooses, for about one pass in four (never the first), a definition whose functions
// fail in the twin world. The reference is run along to know which nodes run in that pass: three
// times in four one of those is taken, otherwise any (its functions may then not be reached).
func addFaults(rng *hx.Rand, p *prog, steps []step) {
	r := newRef(p)
	var all []int
	for _, d := range p.defs {
		if faultable[d.Kind] {
			all = append(all, d.ID)
		}
	}
	first := true
	for i := range steps {
		s := &steps[i]
		if s.Op != "pass" {
			r.apply(*s)
			continue
		}
		r.pass()
		if first || len(all) == 0 || !rng.Chance(1, 4) {
			first = false
			continue
		}
		var ran []int
		for _, id := range all {
			if r.inGraph[id] && r.n[id].epoch == r.epoch && r.n[id].ran {
				ran = append(ran, id)
			}
		}
		if len(ran) == 0 && rng.Chance(3, 4) {
			continue // a pass in which nothing with a user function runs: mostly left alone
		}
		pick := all[rng.Intn(len(all))]
		if len(ran) > 0 && rng.Chance(3, 4) {
			pick = ran[rng.Intn(len(ran))]
		}
		s.F, s.FErr, s.RetryPar = pick+1, rng.Chance(1, 2), rng.Chance(1, 2)
	}
}

// ---- running a history on both ----

type failure struct {
	key, kind, what string
	step            int
	node            int
	exp, got        string
}

type stats struct {
	serial, parallel, compared, retained int
	// -faults
	faulted, reached, notReached, panics, errors int
	byKind                                       map[string]int
}

// handed is a value a slice-valued node handed out after a pass: the very slice Value()
// returned, and what it held at that moment
type handed struct {
	id, step  int
	got, copy []int
}

func sameSlice(a, b []int) bool {
	if len(a) != len(b) {
		return false
	}
	for i := range a {
		if a[i] != b[i] {
			return false
		}
	}
	return true
}

// structuralOnly (-structural): report only what the structural properties (C05, C06, C10) speak
// about -- CheckInvariants, membership in the graph, NumNodes()==0 after the last Unobserve,
// engine panics and spurious pass errors -- and leave value differences to the checks of C01/C11/C14/C15.
var structuralOnly bool

// faultMode (-faults): every history also runs on a twin world in which, at the passes the
// generator chose, the user functions of one definition fail; the failed pass is retried
// fault-free and the twin must then equal the fault-free world node for node (C07)
var faultMode bool

// apply does a step other than a pass on the library
func (w *world) apply(s step) {
	switch s.Op {
	case "set":
		w.vars[s.A].Set(s.B)
	case "advance":
		w.now += s.A
		w.clock.Advance(minute(w.now))
	case "cell":
		w.cells[s.A] = s.B
	case "stale":
		w.g.SetStale(w.ints[s.A])
	case "cellstale":
		w.cells[w.p.defs[s.A].C] = s.B
		w.g.SetStale(w.ints[s.A])
	case "observe":
		if _, on := w.obs[s.A]; !on {
			w.obs[s.A] = incr.MustObserve(w.g, w.ints[s.A])
		}
	case "unobserve":
		if o, on := w.obs[s.A]; on {
			o.Unobserve(ctx)
			delete(w.obs, s.A)
		}
	}
}

func (w *world) pass(par bool, st *stats) error {
	if par {
		st.parallel++
		return w.g.ParallelStabilize(ctx)
	}
	st.serial++
	return w.g.Stabilize(ctx)
}

// checkHanded: values are values: what a node handed out after an earlier pass (and a dependent
// or the caller may have kept) must not be written again. Then the values of this pass are kept.
func (w *world) checkHanded(r *ref, i int, s step, st *stats, where string) *failure {
	p := w.p
	for _, h := range w.retained {
		if !structuralOnly && !sameSlice(h.got, h.copy) {
			d := p.defs[h.id]
			return &failure{key: "kinds:" + d.Kind + ":handed-out-value-mutated", kind: d.Kind, step: i, node: h.id,
				exp: fmt.Sprint(h.copy), got: fmt.Sprint(h.got),
				what: fmt.Sprintf("%sthe slice that %s returned from Value() after step %d held %v then; after step %d (%s) that same slice holds %v",
					where, d, h.step, h.copy, i, s, h.got)}
		}
	}
	for id, d := range p.defs {
		if !d.Slice || !r.inGraph[id] {
			continue
		}
		v := w.slices[id].Value()
		if old := w.latest[id]; len(v) == 0 || (len(old) == len(v) && &old[0] == &v[0]) {
			continue // nothing to watch, or the slice already retained
		}
		w.latest[id] = v
		w.retained = append(w.retained, handed{id: id, step: i, got: v, copy: append([]int(nil), v...)})
		st.retained++
	}
	return nil
}

// finish releases every observer and checks that the graph drains
func (w *world) finish(at int, where string) *failure {
	eg := incr.ExpertGraph(w.g)
	for root, o := range w.obs {
		o.Unobserve(ctx)
		delete(w.obs, root)
	}
	if n := eg.NumNodes(); n != 0 {
		return &failure{key: "kinds:engine:numnodes", kind: "engine", step: at, node: -1,
			what: fmt.Sprintf("%sNumNodes() is %d after every observer was released", where, n)}
	}
	if err := eg.CheckInvariants(); err != nil {
		return &failure{key: "kinds:engine:invariants", kind: "engine", step: at, node: -1,
			what: fmt.Sprintf("%sCheckInvariants after every observer was released: %.300v", where, err)}
	}
	return nil
}

// run replays the steps on a fresh graph and a fresh reference (and with -faults on the twin
// world); nil if they agree throughout
func run(p *prog, steps []step) (f *failure, st stats) {
	at := -1
	st.byKind = map[string]int{}
	defer func() {
		if rec := recover(); rec != nil {
			f = &failure{key: "kinds:engine:panic", kind: "engine", step: at, node: -1,
				what: fmt.Sprintf("panic at step %d: %.300v", at, rec)}
		}
	}()
	w, r := newWorldAPI(p, faultMode), newRef(p)
	var twin *world
	if faultMode {
		twin = newWorldAPI(p, true)
	}
	eg := incr.ExpertGraph(w.g)
	for i, s := range steps {
		at = i
		if s.Op != "pass" {
			w.apply(s)
			if twin != nil {
				twin.apply(s)
			}
			r.apply(s)
			continue
		}
		if err := w.pass(s.Par, &st); err != nil {
			return &failure{key: "kinds:engine:pass-error", kind: "engine", step: i, node: -1,
				what: fmt.Sprintf("%s returned an error on a program without failing functions: %.200v", s, err)}, st
		}
		r.pass()
		if f := w.checkHanded(r, i, s, &st, ""); f != nil {
			return f, st
		}
		if f := compare(w, r, i, &st); f != nil {
			return f, st
		}
		if err := eg.CheckInvariants(); err != nil {
			return &failure{key: "kinds:engine:invariants", kind: "engine", step: i, node: -1,
				what: fmt.Sprintf("CheckInvariants after %s (step %d): %.300v", s, i, err)}, st
		}
		if twin == nil {
			continue
		}
		if f := runTwinPass(w, twin, r, i, s, &st); f != nil {
			return f, st
		}
	}
	at = len(steps)
	if f := w.finish(len(steps), ""); f != nil {
		return f, st
	}
	if twin != nil {
		if f := twin.finish(len(steps), "twin world: "); f != nil {
			return f, st
		}
	}
	return nil, st
}

// runTwinPass does the pass of step i on the twin world: with the chosen fault, then, if the
// fault was reached, the fault-free retry; afterwards the twin must equal the fault-free world
func runTwinPass(w, twin *world, r *ref, i int, s step, st *stats) *failure {
	teg := incr.ExpertGraph(twin.g)
	fail := func(key, what string) *failure {
		return &failure{key: key, kind: "engine", step: i, node: -1, what: what}
	}
	if s.F > 0 {
		twin.failNode, twin.failErr = s.F-1, s.FErr
		atomic.StoreInt32(&twin.hits, 0)
		atomic.StoreInt32(&twin.panicked, 0)
		atomic.StoreInt32(&twin.returned, 0)
		st.faulted++
	}
	err := twin.pass(s.Par, st)
	twin.failNode = -1
	switch {
	case s.F > 0 && atomic.LoadInt32(&twin.hits) > 0:
		d := twin.p.defs[s.F-1]
		st.reached++
		st.byKind[d.Kind]++
		panicked, returned := atomic.LoadInt32(&twin.panicked) != 0, atomic.LoadInt32(&twin.returned) != 0
		if panicked {
			st.panics++
		}
		if returned {
			st.errors++
		}
		var pe *incr.PanicError
		switch {
		case err == nil:
			return fail("kinds:engine:fault-not-returned", fmt.Sprintf("a function of %s failed during step %d (%s) and the pass returned nil", d, i, s))
		case !errors.Is(err, errInjected):
			return fail("kinds:engine:fault-not-returned", fmt.Sprintf("a function of %s failed during step %d (%s) and the pass returned another error: %.200v", d, i, s, err))
		case panicked && !returned && !(errors.As(err, &pe) && pe.Value == any(errInjected)):
			return fail("kinds:engine:fault-not-returned", fmt.Sprintf("a function of %s panicked during step %d (%s) and the pass did not return a *PanicError carrying the panic value: %.200v", d, i, s, err))
		}
		if ierr := teg.CheckInvariants(); ierr != nil {
			return fail("kinds:engine:invariants-after-fault", fmt.Sprintf("CheckInvariants after the failed pass of step %d (%s; failing: %s): %.300v", i, s, d, ierr))
		}
		if rerr := twin.pass(s.RetryPar, st); rerr != nil {
			return fail("kinds:engine:fault-retry-error", fmt.Sprintf("the fault-free retry after the failed pass of step %d (%s; failing: %s) returned an error: %.200v", i, s, d, rerr))
		}
	case err != nil:
		return fail("kinds:engine:pass-error", fmt.Sprintf("twin world: %s returned an error although no function failed: %.200v", s, err))
	case s.F > 0:
		st.notReached++
	}
	if f := twin.checkHanded(r, i, s, st, "twin world: "); f != nil {
		return f
	}
	if f := compareWorlds(w, twin, r, i, s); f != nil {
		return f
	}
	if ierr := teg.CheckInvariants(); ierr != nil {
		return fail("kinds:engine:invariants", fmt.Sprintf("twin world: CheckInvariants after %s (step %d): %.300v", s, i, ierr))
	}
	return nil
}

// compareWorlds: after its pass (and retry) the twin must hold, in every node the reference
// says is in the graph, what the fault-free world holds; same membership, same Watch lists
func compareWorlds(w, twin *world, r *ref, i int, s step) *failure {
	differs := func(d *def, what, exp, got string) *failure {
		return &failure{key: "kinds:" + d.Kind + ":fault-retry-differs", kind: d.Kind, step: i, node: d.ID, exp: exp, got: got,
			what: fmt.Sprintf("after step %d (%s) %s of %s is %s in the twin world and %s in the fault-free world", i, s, what, d, got, exp)}
	}
	var membership *failure
	for id, d := range r.p.defs {
		var a, b incr.INode = w.ints[id], twin.ints[id]
		if d.Slice {
			a, b = w.slices[id], twin.slices[id]
		}
		if ha, hb := w.g.Has(a), twin.g.Has(b); ha != hb {
			if membership == nil {
				membership = differs(d, "membership in the graph", fmt.Sprint(ha), fmt.Sprint(hb))
			}
			continue
		}
		if !r.inGraph[id] || structuralOnly {
			continue
		}
		if d.Slice {
			if x, y := w.slices[id].Value(), twin.slices[id].Value(); !sameSlice(x, y) {
				return differs(d, "the value", fmt.Sprint(x), fmt.Sprint(y))
			}
			continue
		}
		if x, y := w.ints[id].Value(), twin.ints[id].Value(); x != y {
			return differs(d, "the value", fmt.Sprint(x), fmt.Sprint(y))
		}
		if wt, ok := w.watches[id]; ok {
			if x, y := wt.Values(), twin.watches[id].Values(); !sameSlice(x, y) {
				return differs(d, "Values()", fmt.Sprint(x), fmt.Sprint(y))
			}
		}
	}
	for root, o := range w.obs {
		if x, y := o.Value(), twin.obs[root].Value(); !structuralOnly && x != y {
			return differs(r.p.defs[root], "the observer", fmt.Sprint(x), fmt.Sprint(y))
		}
	}
	return membership
}

// compare checks every node the reference knows to be in the graph, lowest first (a node's
// inputs come before it, so the first difference is the node that went wrong), then the
// observers, and that the library has exactly the reference's nodes in the graph (Graph.Has)
func compare(w *world, r *ref, stepIndex int, st *stats) *failure {
	var membership *failure
	for id, d := range r.p.defs {
		var node incr.INode = w.ints[id]
		if d.Slice {
			node = w.slices[id]
		}
		if has := w.g.Has(node); has != r.inGraph[id] {
			// reported only if no value differs: a bind that chose another right-hand side
			// because one of its inputs is wrong shows up here first, at a lower node
			if membership == nil {
				membership = &failure{key: "kinds:" + d.Kind + ":membership", kind: d.Kind, step: stepIndex, node: id,
					exp: fmt.Sprintf("in the graph: %v", r.inGraph[id]), got: fmt.Sprintf("in the graph: %v", has)}
			}
			continue
		}
		if !r.inGraph[id] {
			continue
		}
		st.compared++
		n := r.n[id]
		if structuralOnly {
			continue
		}
		if d.Slice {
			if got := w.slices[id].Value(); !sameSlice(got, n.s) {
				return &failure{key: "kinds:" + d.Kind + ":value", kind: d.Kind, step: stepIndex, node: id, exp: fmt.Sprint(n.s), got: fmt.Sprint(got)}
			}
			continue
		}
		if got := w.ints[id].Value(); got != n.v {
			return &failure{key: "kinds:" + d.Kind + ":value", kind: d.Kind, step: stepIndex, node: id, exp: fmt.Sprint(n.v), got: fmt.Sprint(got)}
		}
		if wt, ok := w.watches[id]; ok {
			if got := wt.Values(); !sameSlice(got, n.watch) {
				return &failure{key: "kinds:watch:values", kind: kWatch, step: stepIndex, node: id, exp: fmt.Sprint(n.watch), got: fmt.Sprint(got)}
			}
		}
	}
	for root, o := range w.obs {
		if got := o.Value(); !structuralOnly && got != r.n[root].v {
			return &failure{key: "kinds:observer:value", kind: "observer", step: stepIndex, node: root, exp: fmt.Sprint(r.n[root].v), got: fmt.Sprint(got)}
		}
	}
	return membership
}

// fails replays the steps; a history with parallel passes gets three tries, since the schedule varies
func fails(p *prog, steps []step) *failure {
	tries := 1
	for _, s := range steps {
		if s.Op == "pass" && (s.Par || (s.F > 0 && s.RetryPar)) {
			tries = 3
		}
	}
	for i := 0; i < tries; i++ {
		if f, _ := run(p, steps); f != nil {
			return f
		}
	}
	return nil
}

// shrink drops what comes after the failing step, tries the history with serial passes only,
// then drops steps one by one while it still fails
func shrink(p *prog, steps []step, f *failure) ([]step, *failure) {
	if f.step+1 < len(steps) {
		if g := fails(p, steps[:f.step+1]); g != nil {
			steps, f = steps[:f.step+1], g
		}
	}
	serial := append([]step(nil), steps...)
	for i := range serial {
		serial[i].Par, serial[i].RetryPar = false, false
	}
	if g := fails(p, serial); g != nil {
		steps, f = serial, g
	}
	for sweep := 0; sweep < 2; sweep++ {
		for i := len(steps) - 1; i >= 0; i-- {
			cand := append(append([]step(nil), steps[:i]...), steps[i+1:]...)
			if g := fails(p, cand); g != nil {
				steps, f = cand, g
			}
		}
	}
	for i := range steps { // the faults that are not needed
		if steps[i].F > 0 {
			cand := append([]step(nil), steps...)
			cand[i].F = 0
			if g := fails(p, cand); g != nil {
				steps, f = cand, g
			}
		}
	}
	return steps, f
}

func (f *failure) describe(p *prog) string {
	if f.node < 0 || f.what != "" {
		return f.what
	}
	return fmt.Sprintf("after step %d the node %s reads %s; evaluating the program on the current inputs and the recorded history gives %s",
		f.step, p.defs[f.node], f.got, f.exp)
}

func main() {
	var (
		seed    = flag.Uint64("seed", 1, "seed")
		n       = flag.Int("n", 300, "programs (one history each)")
		jsonOut = flag.String("json", "", "report file")
		claim   = flag.String("claim", "C01", "property the violations are reported for")
		structF = flag.Bool("structural", false, "report only structural findings (invariants, membership, drain, panics, spurious errors)")
		faultsF = flag.Bool("faults", false, "also run every history on a twin world with injected faults and fault-free retries (C07)")
		only    = flag.Int("history", -1, "run only the history with this index, and print it")
		verbose = flag.Bool("v", false, "print the violations")
	)
	flag.Parse()
	structuralOnly = *structF
	faultMode = *faultsF
	rep := hx.NewReport("kindtrace", *seed)
	rng := hx.NewRand(*seed)
	perKey := map[string]int{}
	for index := 0; index < *n; index++ {
		hr := rng.Fork()
		if *only >= 0 && index != *only {
			continue
		}
		p := genProgram(hr)
		mode, steps := genHistory(hr, p)
		if faultMode {
			// a Timer that is due in every pass also runs in the failed pass and again in the
			// retry: its dependents legitimately run once more than in the fault-free world
			for _, d := range p.defs {
				if d.Kind == kTimer {
					d.C = 1
				}
			}
			addFaults(hr.Fork(), p, steps)
		}
		if *only >= 0 {
			fmt.Printf("history %d (%s), roots %v\n  %s\n  %s\n", index, mode, p.roots, strings.Join(p.lines(), "\n  "), strings.Join(stepStrings(steps), "\n  "))
		}
		rep.Distinct++
		rep.Count("mode:" + mode)
		kinds := map[string]bool{}
		var walk func(t *tmpl)
		walk = func(t *tmpl) {
			kinds["tmpl:"+t.Op] = true
			for _, k := range t.Kids {
				walk(k)
			}
		}
		for _, d := range p.defs {
			kinds["kind:"+d.Kind] = true
			for _, t := range d.T {
				walk(t)
			}
		}
		for k := range kinds {
			rep.Count(k)
		}
		for _, s := range steps {
			rep.Count("op:" + s.Op)
		}
		f, st := run(p, steps)
		rep.Evaluations += st.serial + st.parallel
		rep.Histogram["passes:serial"] += st.serial
		rep.Histogram["passes:parallel"] += st.parallel
		rep.Histogram["nodes-compared"] += st.compared
		rep.Histogram["handed-out-slices-retained"] += st.retained
		if faultMode {
			rep.Histogram["faults:passes-with-a-fault"] += st.faulted
			rep.Histogram["faults:reached"] += st.reached
			rep.Histogram["faults:not-reached"] += st.notReached
			rep.Histogram["faults:panicked"] += st.panics
			rep.Histogram["faults:returned-error"] += st.errors
			for k, v := range st.byKind {
				rep.Histogram["faults:reached-in:"+k] += v
			}
		}
		if f == nil {
			continue
		}
		small, g := shrink(p, steps, f)
		perKey[g.key]++
		rep.Count("violations:" + g.key)
		what := fmt.Sprintf("history %d (%s passes): %s", index, mode, g.describe(p))
		if *verbose || *only >= 0 {
			fmt.Printf("VIOLATION %s\n  %s\n  program:\n    %s\n  roots %v\n  steps:\n    %s\n", g.key, what,
				strings.Join(p.lines(), "\n    "), p.roots, strings.Join(stepStrings(small), "\n    "))
		}
		if perKey[g.key] > 3 {
			continue // counted in the histogram; three reproducers per key are enough
		}
		rep.AddViolation(hx.Violation{Property: *claim, What: what, Key: g.key,
			Replay: map[string]any{"seed": *seed, "history": index, "mode": mode, "program": p.lines(), "roots": p.roots,
				"steps": stepStrings(small), "steps_before_shrinking": len(steps), "failing_step": g.step, "node": g.node,
				"expected": g.exp, "got": g.got,
				"cmd": fmt.Sprintf("harness/cmd/kindtrace%s -seed %d -n %d -history %d", map[bool]string{true: " -faults"}[faultMode], *seed, *n, index)}})
	}
	rep.Rule = fmt.Sprintf("%d random int-valued programs of 11-35 nodes over Map3..8, MapIf, BindIf/Bind3/Bind4 (templates to depth 3 with nested BindIf, "+
		"referring to outer nodes), Cutoff2 and the named cutoffs, Freeze, Func, Watch, Timer, At/AtIntervals/Snapshot/StepFunction, ArrayFold/ForAll/Exists/DependOn/All, "+
		"incrutil.CutoffUnchanged/MapLast and slicei (with MapLast and a length Cutoff over the slice-valued nodes, which keep a previous value), one history each of 10-60 steps (Set incl. unchanged values, Clock.Advance, SetStale, observe/unobserve, passes: "+
		"all Stabilize, all ParallelStabilize at parallelism 4, or mixed); evaluations = passes; after every pass every node in the graph, every observer and "+
		"Watch.Values() compared with an independent reference evaluation, every slice handed out by Value() after an earlier pass checked to be unchanged, CheckInvariants, NumNodes()==0 after the last Unobserve", rep.Distinct)
	if faultMode {
		rep.Rule += "; -faults: every history also on a twin world where at about one pass in four (never the first) every user function of one chosen definition " +
			"panics or returns an error: that pass must return the injected error (*PanicError carrying it for a panic), leave CheckInvariants clean, the immediate " +
			"fault-free retry (serial or parallel, independently) must succeed, and then every node in the graph, Watch.Values(), membership and observers must equal the fault-free world (Timer only with every 1h)"
	}
	if *jsonOut != "" {
		if err := rep.Write(*jsonOut); err != nil {
			fmt.Fprintln(os.Stderr, err)
			os.Exit(2)
		}
	}
	fmt.Printf("kindtrace: %d programs, %d passes, %d violations\n", rep.Distinct, rep.Evaluations, len(rep.Violations))
}
