// edgetrace drives the real edge lists of a node (children, parents, observers) through the
// public expert API with append / remove-by-identifier sequences that cross the 64-entry
// index threshold upward and the 32-entry release threshold downward, checks after every
// call that the list is a permutation of a plain reference slice (append; filter), which is
// the C05 oracle for the edge index, and writes the recorded lists as a Gallina file for
// exact (order included) replay on the Coq transliteration EdgeIndex.v at threshold 64.
package main

import (
	"context"
	"flag"
	"fmt"
	"os"
	"sort"
	"strings"

	incr "github.com/wcharczuk/go-incr"
	"verifharness/internal/hx"
)

// the constants of /repo/edge_index.go, used only to label cases (histogram, distinctness)
// and to know while the reference order must still hold; the oracle itself does not use them
const (
	threshold = 64
	release   = threshold / 2
)

var kinds = []string{"children", "parents", "observers"}

// bare is the smallest INode; bareObs adds what IObserver asks for.
type bare struct{ n *incr.Node }

func (b *bare) Node() *incr.Node { return b.n }

type bareObs struct{ *bare }

func (b *bareObs) Unobserve(context.Context) {}

type world struct {
	owner *bareObs
	nodes []*bareObs
	ord   map[incr.Identifier]int
	idp   incr.IdentifierProvider
}

func newWorld() *world {
	w := &world{ord: map[incr.Identifier]int{}, idp: incr.NewSequentialIdentifierProvider(1 << 20)}
	w.owner = w.mk()
	return w
}

func (w *world) mk() *bareObs {
	b := &bareObs{&bare{incr.NewNode("edge")}}
	incr.ExpertNode(b).SetID(w.idp.NewIdentifier())
	return b
}

// node returns the node with the given ordinal, creating nodes up to it on demand.
func (w *world) node(ordinal int) *bareObs {
	for len(w.nodes) <= ordinal {
		b := w.mk()
		w.ord[b.Node().ID()] = len(w.nodes)
		w.nodes = append(w.nodes, b)
	}
	return w.nodes[ordinal]
}

type op struct {
	app bool
	ids []int // append: the items of one variadic call; remove: exactly one identifier
}

func (o op) String() string {
	sign := "-"
	if o.app {
		sign = "+"
	}
	parts := make([]string, len(o.ids))
	for i, id := range o.ids {
		parts[i] = fmt.Sprint(id)
	}
	return sign + strings.Join(parts, ".")
}

func (o op) coq() string {
	parts := make([]string, len(o.ids))
	for i, id := range o.ids {
		if o.app {
			parts[i] = fmt.Sprintf("Append %d", id)
		} else {
			parts[i] = fmt.Sprintf("Remove %d", id)
		}
	}
	return "[" + strings.Join(parts, "; ") + "]"
}

func natList(xs []int) string {
	parts := make([]string, len(xs))
	for i, x := range xs {
		parts[i] = fmt.Sprint(x)
	}
	return "[" + strings.Join(parts, "; ") + "]"
}

// apply performs one API call on the owner's list of the given kind.
func (w *world) apply(kind string, o op) {
	en := incr.ExpertNode(w.owner)
	if !o.app {
		id := w.node(o.ids[0]).Node().ID()
		switch kind {
		case "children":
			en.RemoveChild(id)
		case "parents":
			en.RemoveParent(id)
		default:
			en.RemoveObserver(id)
		}
		return
	}
	switch kind {
	case "observers":
		items := make([]incr.IObserver, len(o.ids))
		for i, id := range o.ids {
			items[i] = w.node(id)
		}
		en.AddObservers(items...)
	default:
		items := make([]incr.INode, len(o.ids))
		for i, id := range o.ids {
			items[i] = w.node(id)
		}
		if kind == "children" {
			en.AddChildren(items...)
		} else {
			en.AddParents(items...)
		}
	}
}

// read copies the list out as ordinals (the library compacts it in place later); -1 marks a
// nil entry or a node that was never put there.
func (w *world) read(kind string) []int {
	en := incr.ExpertNode(w.owner)
	var out []int
	one := func(n incr.INode, isNil bool) {
		if isNil {
			out = append(out, -1)
			return
		}
		if o, ok := w.ord[n.Node().ID()]; ok {
			out = append(out, o)
		} else {
			out = append(out, -1)
		}
	}
	switch kind {
	case "children":
		for _, n := range en.Children() {
			one(n, n == nil)
		}
	case "parents":
		for _, n := range en.Parents() {
			one(n, n == nil)
		}
	default:
		for _, n := range en.Observers() {
			one(n, n == nil)
		}
	}
	return out
}

// stream is one list of one owner: the calls made on it, what was read back after each, and
// the plain reference (append; filter) kept beside it.
type stream struct {
	kind      string
	ops       []op
	obs       [][]int
	ref       []int
	everBig   bool // the list has exceeded the threshold at some point (order no longer promised)
	indexed   bool // label only: the documented appear/disappear rule
	hitIdx    int  // removes that removed something while labelled indexed
	crossUp   int
	crossDown int
	maxLen    int
	failed    bool
}

func (s *stream) strs() []string {
	out := make([]string, len(s.ops))
	for i, o := range s.ops {
		out[i] = o.String()
	}
	return out
}

// coq prints each observation as (keep, tail): the first keep entries of the previous
// observation followed by tail. Lossless; it only keeps the Gallina file small.
func (s *stream) coq() string {
	steps := make([]string, len(s.ops))
	var prev []int
	for i := range s.ops {
		cur := s.obs[i]
		keep := 0
		for keep < len(prev) && keep < len(cur) && prev[keep] == cur[keep] {
			keep++
		}
		steps[i] = fmt.Sprintf("(%s, (%d, %s))", s.ops[i].coq(), keep, natList(cur[keep:]))
		prev = cur
	}
	return "[" + strings.Join(steps, ";\n  ") + "]"
}

func sortedCopy(xs []int) []int {
	out := append([]int(nil), xs...)
	sort.Ints(out)
	return out
}

func equal(a, b []int) bool {
	if len(a) != len(b) {
		return false
	}
	for i := range a {
		if a[i] != b[i] {
			return false
		}
	}
	return true
}

// step makes the call, reads the list back and evaluates the oracle.
func (s *stream) step(w *world, o op, rep *hx.Report) {
	if s.failed {
		return
	}
	complaint := ""
	var got []int
	func() {
		defer func() {
			if rec := recover(); rec != nil {
				complaint = fmt.Sprintf("panic in %s %v: %v", s.kind, o, rec)
			}
		}()
		w.apply(s.kind, o)
		got = w.read(s.kind)
	}()
	// reference
	before := len(s.ref)
	if o.app {
		s.ref = append(s.ref, o.ids...)
		rep.Histogram["append"] += len(o.ids)
		if len(o.ids) > 1 {
			rep.Count("append_call_variadic")
		}
	} else {
		kept := s.ref[:0:0]
		for _, x := range s.ref {
			if x != o.ids[0] {
				kept = append(kept, x)
			}
		}
		s.ref = kept
	}
	removedN := before - len(s.ref)
	// labels
	if o.app {
		if !s.indexed && len(s.ref) > threshold {
			s.indexed, s.everBig = true, true
			s.crossUp++
			rep.Count("index_appears")
		}
	} else {
		switch {
		case removedN == 0:
			rep.Count("remove_absent")
		case s.indexed:
			rep.Count("remove_indexed")
			s.hitIdx++
			if removedN > 1 {
				rep.Count("remove_indexed_duplicates")
			}
			if len(s.ref) <= release {
				s.indexed = false
				s.crossDown++
				rep.Count("index_released")
			}
		default:
			rep.Count("remove_scan")
		}
	}
	if len(s.ref) > s.maxLen {
		s.maxLen = len(s.ref)
	}
	s.ops = append(s.ops, o)
	s.obs = append(s.obs, got)
	if complaint == "" {
		switch {
		case len(got) != len(s.ref):
			complaint = fmt.Sprintf("%s holds %d entries after %v, the reference holds %d", s.kind, len(got), o, len(s.ref))
		case !equal(sortedCopy(got), sortedCopy(s.ref)):
			complaint = fmt.Sprintf("%s is not a permutation of the reference after %v: got %v want (any order) %v", s.kind, o, got, s.ref)
		case !s.everBig && !equal(got, s.ref):
			complaint = fmt.Sprintf("%s never exceeded %d entries yet its order changed after %v: got %v want %v", s.kind, threshold, o, got, s.ref)
		}
	}
	if complaint != "" {
		s.failed = true
		rep.AddViolation(hx.Violation{Property: "C05", What: "edge index: " + complaint,
			Key: "edge:" + s.kind + ":" + strings.Join(s.strs(), ","),
			Replay: map[string]any{"list": s.kind, "calls": s.strs(), "failing_call": len(s.ops) - 1,
				"note": "+a.b = Add<List>(a,b) in one call, -a = Remove<List>(id of a); nodes are bare incr.NewNode values"}})
	}
}

func (s *stream) nontrivial() bool { return s.hitIdx > 0 }

// ---------------------------------------------------------------- random streams

type gen struct {
	r        *hx.Rand
	universe int
	hot      int // the first `hot` ordinals are drawn half of the time (many duplicates)
	growing  bool
	hi, lo   int
}

func newGen(r *hx.Rand) *gen {
	us := []int{3, 5, 8, 16, 40, 120}
	g := &gen{r: r, universe: us[r.Intn(len(us))], growing: true}
	g.hot = 1 + r.Intn(3)
	g.retarget()
	return g
}

func (g *gen) retarget() {
	g.hi = g.r.Range(threshold-2, threshold+30)
	g.lo = g.r.Range(0, release+3)
}

func (g *gen) pick() int {
	if g.r.Chance(1, 2) {
		return g.r.Intn(g.hot)
	}
	return g.r.Intn(g.universe)
}

func (g *gen) next(ref []int) op {
	if g.growing && len(ref) > g.hi {
		g.growing = false
	} else if !g.growing && len(ref) <= g.lo {
		g.growing = true
		g.retarget()
	}
	pApp := 20
	if g.growing {
		pApp = 88
	}
	if g.r.Intn(100) < pApp {
		n := 1
		if g.r.Chance(1, 4) {
			n = g.r.Range(2, 6)
		}
		ids := make([]int, n)
		for i := range ids {
			ids[i] = g.pick()
		}
		return op{app: true, ids: ids}
	}
	switch k := g.r.Intn(10); {
	case k < 5 && len(ref) > 0: // an entry of the list, so weighted by multiplicity
		return op{ids: []int{ref[g.r.Intn(len(ref))]}}
	case k < 7 && len(ref) > 0: // the last entry (the one the swap would move)
		return op{ids: []int{ref[len(ref)-1]}}
	default:
		return op{ids: []int{g.r.Intn(g.universe + 2)}} // may be absent
	}
}

// ---------------------------------------------------------------- exhaustive suffixes

type base struct {
	name   string
	prefix []op
	alpha  []op
}

func app(ids ...int) op { return op{app: true, ids: ids} }
func rem(id int) op     { return op{ids: []int{id}} }

func bases() []base {
	var out []base
	pattern := func(n, mod int) []int {
		ids := make([]int, n)
		for i := range ids {
			ids[i] = i % mod
		}
		return ids
	}
	// 63 entries, no index yet: two appends build it over a list full of duplicates
	out = append(out, base{"below63", []op{app(pattern(63, 3)...)},
		[]op{app(0), app(1), app(3), rem(0), rem(1), rem(7)}})
	// 64 entries of 32 identifiers twice: hovering at the threshold
	out = append(out, base{"at64", []op{app(pattern(64, 32)...)},
		[]op{app(0), app(1), app(40), rem(0), rem(1), rem(40)}})
	// 66 entries over 4 identifiers, indexed: two removes keep it (33), a third releases it
	out = append(out, base{"indexed66", []op{app(pattern(66, 4)...)},
		[]op{app(0), app(1), rem(0), rem(1), rem(2), rem(3), rem(7)}})
	// 65 entries, 31 of them identifier 9 interleaved; removing 9 leaves 34 permuted entries
	// under an index: two more removed entries release it
	{
		var ids []int
		rest := append([]int{0, 0, 1, 1}, func() []int {
			u := make([]int, 30)
			for i := range u {
				u[i] = 10 + i
			}
			return u
		}()...)
		for i := 0; i < 34; i++ {
			ids = append(ids, rest[i])
			if i < 31 {
				ids = append(ids, 9)
			}
		}
		out = append(out, base{"low34", []op{app(ids...), rem(9)},
			[]op{rem(10), rem(11), rem(0), app(0), app(10), app(40), rem(7)}})
	}
	// 66 entries: identifier 5 first and six times at the tail, unique entries between: the
	// swap moves entries of the very identifier being removed
	{
		ids := []int{5}
		for i := 0; i < 59; i++ {
			ids = append(ids, 10+i)
		}
		ids = append(ids, 5, 5, 5, 5, 5, 5)
		out = append(out, base{"tail5", []op{app(ids...)},
			[]op{rem(10), rem(11), rem(12), rem(5), app(5), app(10)}})
	}
	return out
}

func main() {
	var (
		mode    = flag.String("mode", "random", "exhaustive | random")
		length  = flag.Int("len", 300, "random: API calls per list; exhaustive: suffix length")
		count   = flag.Int("n", 20, "random: number of owner nodes (three lists each)")
		seed    = flag.Uint64("seed", 1, "seed")
		coqOut  = flag.String("coq", "", "Gallina cases file to write")
		coqMax  = flag.Int("coqmax", 60, "at most this many lists go to the Gallina file")
		jsonOut = flag.String("json", "", "report file")
	)
	flag.Parse()
	rep := hx.NewReport("edgetrace", *seed)
	rng := hx.NewRand(*seed)
	distinct := hx.Distinct{}
	var kept []*stream
	keep := func(s *stream) {
		rep.Evaluations++
		rep.Count("list_" + s.kind)
		rep.Sizes[fmt.Sprintf("maxlen_%03d-%03d", s.maxLen/16*16, s.maxLen/16*16+15)]++
		rep.Sizes[fmt.Sprintf("index_appeared_%dx", s.crossUp)]++
		rep.Sizes[fmt.Sprintf("index_released_%dx", s.crossDown)]++
		if s.nontrivial() {
			distinct.Add(strings.Join(s.strs(), ","))
		}
		kept = append(kept, s)
	}
	if *mode == "exhaustive" {
		for _, b := range bases() {
			for _, kind := range kinds {
				var rec func(suffix []op)
				rec = func(suffix []op) {
					if len(suffix) == *length {
						w := newWorld()
						s := &stream{kind: kind}
						for _, o := range b.prefix {
							s.step(w, o, rep)
						}
						for _, o := range suffix {
							s.step(w, o, rep)
						}
						rep.Count("base_" + b.name)
						keep(s)
						return
					}
					for _, o := range b.alpha {
						rec(append(suffix[:len(suffix):len(suffix)], o))
					}
				}
				rec(nil)
			}
		}
		rep.Exhaustive = true
		rep.Rule = fmt.Sprintf("for each of the three lists and each of 5 prepared lists next to a threshold (63 entries over 3 "+
			"identifiers; 64 entries of 32 identifiers twice; 66 entries over 4 identifiers, indexed; 34 permuted entries left "+
			"under an index after removing 31 interleaved duplicates; 66 entries whose tail repeats the identifier being removed), "+
			"EVERY sequence of exactly %d further calls over 6-7 appends/removes of duplicated, unique and absent identifiers "+
			"(shorter sequences are their prefixes; the oracle runs after every call); non-trivial = some remove took entries out "+
			"while the list was past the index threshold and not yet released; distinct by call sequence and list", *length)
	} else {
		for i := 0; i < *count; i++ {
			r := rng.Fork()
			w := newWorld()
			ss := make([]*stream, len(kinds))
			gs := make([]*gen, len(kinds))
			for k, kind := range kinds {
				ss[k] = &stream{kind: kind}
				gs[k] = newGen(r.Fork())
			}
			// the three lists of one owner are driven interleaved: their indexes are separate fields
			for remaining := len(kinds) * *length; remaining > 0; remaining-- {
				k := r.Intn(len(kinds))
				if len(ss[k].ops) >= *length {
					for j := range ss {
						if len(ss[j].ops) < *length {
							k = j
						}
					}
				}
				ss[k].step(w, gs[k].next(ss[k].ref), rep)
			}
			for _, s := range ss {
				keep(s)
			}
		}
		rep.Rule = fmt.Sprintf("%d owner nodes, on each its children, parents and observers lists driven interleaved with %d calls "+
			"per list: the list grows (88%% appends, a quarter of them variadic with 2-6 items) to 62..94 entries, then shrinks "+
			"(80%% removes: of a random entry, of the last entry, or of a possibly absent identifier) to 0..35 entries, and again; "+
			"identifiers from a universe of 3..120 with 1-3 hot ones drawn half of the time; non-trivial = some remove took entries "+
			"out while the list was past the index threshold and not yet released; distinct by call sequence and list", *count, *length)
	}
	rep.Distinct = len(distinct)
	for i := 0; i < len(kept) && i < 3; i++ {
		s := kept[len(kept)*i/3]
		calls := s.strs()
		if len(calls) > 40 {
			calls = append(calls[:40:40], fmt.Sprintf("... %d more", len(s.ops)-40))
		}
		rep.Samples = append(rep.Samples, map[string]any{"list": s.kind, "calls": calls, "final": s.obs[len(s.obs)-1],
			"index_appeared": s.crossUp, "index_released": s.crossDown})
	}
	if *coqOut != "" {
		sample := kept
		if len(sample) > *coqMax && *coqMax > 0 {
			stride := len(sample) / *coqMax
			var sel []*stream
			for i := 0; i < len(sample) && len(sel) < *coqMax; i += stride {
				sel = append(sel, sample[i])
			}
			sample = sel
		}
		rep.CoqCases = len(sample)
		var b strings.Builder
		b.WriteString("From incr Require Import Base EdgeIndex EdgeIndexRun.\nImport EdgeIndex.\nLocal Open Scope nat_scope.\n" +
			"Definition cases : list case := [\n")
		for i, s := range sample {
			if i > 0 {
				b.WriteString(";\n")
			}
			b.WriteString(s.coq())
		}
		b.WriteString("].\nDefinition M := Eval vm_compute in mismatches cases.\nPrint M.\n")
		if err := os.WriteFile(*coqOut, []byte(b.String()), 0o644); err != nil {
			fmt.Fprintln(os.Stderr, err)
			os.Exit(2)
		}
	}
	if *jsonOut != "" {
		if err := rep.Write(*jsonOut); err != nil {
			fmt.Fprintln(os.Stderr, err)
			os.Exit(2)
		}
	}
	fmt.Printf("edgetrace: %d lists, %d distinct non-trivial, %d violations, %d coq cases\n",
		rep.Evaluations, rep.Distinct, len(rep.Violations), rep.CoqCases)
}
