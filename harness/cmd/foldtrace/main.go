// foldtrace drives the aggregate combinators of the real library through the public API
// (UnorderedArrayFold, ReduceBalanced, MapN, ArrayFold, All, ForAll, Exists), checks every
// successful pass against a plain fold of input.Value() (the C14 oracle), and writes what
// it saw as a Gallina file for replay on the Coq model (FoldRun.v).
package main

import (
	"context"
	"errors"
	"flag"
	"fmt"
	"os"
	"strings"

	incr "github.com/wcharczuk/go-incr"
	"verifharness/internal/hx"
)

// ---------------------------------------------------------------- UnorderedArrayFold

type uop struct {
	kind string // set stab unobs obs
	i    int
	x    int64
	par  bool // stab: ParallelStabilize
	fail bool // stab: the sibling node errors in this pass
	upan bool // stab: the fold's own update function panics once in this pass (implementation only: not an event of the model)
}

func (o uop) String() string {
	switch o.kind {
	case "set":
		return fmt.Sprintf("set(v%d,%d)", o.i, o.x)
	case "stab":
		s := "stab"
		if o.par {
			s = "pstab"
		}
		if o.fail {
			s += "!fail"
		}
		if o.upan {
			s += "!update-panics"
		}
		return s
	}
	return o.kind
}

type ucase struct {
	kind   string // sum sumsq
	nvars  int
	inputs []int
	init   []int64
	kept   []int
	ops    []uop
}

type urec struct {
	op      uop
	skipped bool
	ok, ran bool
	val     int64
}

func (c ucase) replay() map[string]any {
	ops := make([]string, len(c.ops))
	for i, o := range c.ops {
		ops[i] = o.String()
	}
	return map[string]any{"combinator": "UnorderedArrayFold", "fold": c.kind, "inputs": c.inputs, "initial_values": c.init,
		"vars_observed_separately": c.kept, "calls": ops}
}

func foldFns(kind string) (int64, func(int64, int64) int64, func(int64, int64, int64) int64) {
	if kind == "sumsq" {
		return 5, func(acc, x int64) int64 { return acc + x*x },
			func(acc, o, n int64) int64 { return acc - o*o + n*n }
	}
	return 0, func(acc, x int64) int64 { return acc + x }, func(acc, o, n int64) int64 { return acc - o + n }
}

// runUaf builds a fresh graph and plays the calls. It returns one record per call, the index
// of the first call after which the C14 oracle fails (-1 if none) and a description.
func runUaf(c ucase) (recs []urec, bad int, what string) {
	bad = -1
	defer func() {
		if r := recover(); r != nil {
			bad = len(recs)
			what = fmt.Sprintf("panic: %v", r)
		}
	}()
	ctx := context.Background()
	g := incr.New()
	vars := make([]incr.VarIncr[int64], c.nvars)
	for i := range vars {
		vars[i] = incr.Var(g, c.init[i])
	}
	for _, i := range c.kept {
		incr.MustObserve(g, vars[i])
	}
	ins := make([]incr.Incr[int64], len(c.inputs))
	for s, i := range c.inputs {
		ins[s] = vars[i]
	}
	initial, fold, update0 := foldFns(c.kind)
	panicNext := false
	update := func(acc, o, n int64) int64 {
		if panicNext {
			panicNext = false
			panic("update function failed")
		}
		return update0(acc, o, n)
	}
	f := incr.UnorderedArrayFold(g, initial, fold, update, ins...)
	// the sibling that fails on demand
	trigger := incr.Var(g, 0)
	failNext := false
	sibling := incr.MapContext(g, trigger, func(_ context.Context, x int) (int, error) {
		if failNext {
			failNext = false
			return 0, errors.New("sibling failed")
		}
		return x, nil
	})
	incr.MustObserve(g, sibling)
	var obs incr.ObserveIncr[int64]
	tick := 0
	for _, o := range c.ops {
		rec := urec{op: o}
		switch o.kind {
		case "set":
			vars[o.i].Set(o.x)
		case "unobs":
			if obs == nil {
				rec.skipped = true
			} else {
				obs.Unobserve(ctx)
				obs = nil
			}
		case "obs":
			if obs != nil {
				rec.skipped = true
			} else {
				obs = incr.MustObserve(g, f)
			}
		case "stab":
			if o.fail {
				failNext = true
				tick++
				trigger.Set(tick)
			}
			panicNext = o.upan
			before := incr.ExpertNode(f).NumRecomputes()
			var err error
			if o.par {
				err = g.ParallelStabilize(ctx)
			} else {
				err = g.Stabilize(ctx)
			}
			rec.ok = err == nil
			rec.ran = incr.ExpertNode(f).NumRecomputes() != before
			failNext = false
			panicNext = false
		}
		rec.val = f.Value()
		recs = append(recs, rec)
		if o.kind == "stab" && rec.ok && obs != nil {
			want := initial
			for _, i := range c.inputs {
				want = fold(want, vars[i].Value())
			}
			if rec.val != want && bad < 0 {
				bad = len(recs) - 1
				what = fmt.Sprintf("UnorderedArrayFold(%s) over inputs %v reads %d after a successful pass, a full fold of the current input values gives %d",
					c.kind, c.inputs, rec.val, want)
			}
		}
	}
	return
}

func (c ucase) coq(recs []urec) string {
	kind := "FSum"
	if c.kind == "sumsq" {
		kind = "FSumSq"
	}
	var steps []string
	for _, r := range recs {
		if r.skipped {
			continue
		}
		var o string
		switch r.op.kind {
		case "set":
			o = fmt.Sprintf("ASet %d%%nat %s", r.op.i, hx.Z(r.op.x))
		case "stab":
			o = fmt.Sprintf("AStab %s %s", hx.Bool(r.ok), hx.Bool(r.ran))
		case "unobs":
			o = "AUnobs"
		default:
			o = "AObs"
		}
		steps = append(steps, fmt.Sprintf("(%s, %s)", o, hx.Z(r.val)))
	}
	return fmt.Sprintf("CUaf %s %s %s %s [%s]", kind, hx.NatList(c.inputs), hx.ZList(c.init), hx.NatList(c.kept),
		strings.Join(steps, "; "))
}

// ddmin: delta debugging over a list of calls; fails must hold for the input list.
func ddmin[T any](ops []T, fails func([]T) bool) []T {
	n := 2
	for len(ops) >= 2 {
		chunk := (len(ops) + n - 1) / n
		reduced := false
		for start := 0; start < len(ops); start += chunk {
			end := start + chunk
			if end > len(ops) {
				end = len(ops)
			}
			rest := append(append([]T(nil), ops[:start]...), ops[end:]...)
			if len(rest) > 0 && fails(rest) {
				ops = rest
				if n > 2 {
					n--
				}
				reduced = true
				break
			}
		}
		if !reduced {
			if n >= len(ops) {
				break
			}
			n *= 2
			if n > len(ops) {
				n = len(ops)
			}
		}
	}
	return ops
}

func shrinkUaf(c ucase) ucase {
	fails := func(ops []uop) bool {
		d := c
		d.ops = ops
		_, bad, _ := runUaf(d)
		return bad >= 0
	}
	c.ops = ddmin(c.ops, fails)
	// smaller written values
	for i := range c.ops {
		if c.ops[i].kind == "set" {
			for _, x := range []int64{0, 1, 10} {
				old := c.ops[i].x
				c.ops[i].x = x
				if fails(c.ops) {
					break
				}
				c.ops[i].x = old
			}
		}
	}
	return c
}

func genUaf(r *hx.Rand, length int) ucase {
	// one history in four lets the fold's own update function panic in some passes; those
	// histories are checked on the implementation only
	upanic := r.Chance(1, 4)
	c := ucase{kind: "sum"}
	if r.Chance(1, 2) {
		c.kind = "sumsq"
	}
	c.nvars = r.Range(1, 5)
	n := r.Range(1, 8)
	for s := 0; s < n; s++ {
		c.inputs = append(c.inputs, r.Intn(c.nvars)) // repeats are likely
	}
	for i := 0; i < c.nvars; i++ {
		c.init = append(c.init, int64(r.Range(-9, 9)))
		if r.Chance(1, 5) {
			c.kept = append(c.kept, i)
		}
	}
	observed := false
	for len(c.ops) < length {
		switch k := r.Intn(100); {
		case k < 45:
			c.ops = append(c.ops, uop{kind: "set", i: r.Intn(c.nvars), x: int64(r.Range(-20, 20))})
		case k < 75:
			c.ops = append(c.ops, uop{kind: "stab", par: r.Chance(1, 3), fail: r.Chance(1, 6), upan: upanic && r.Chance(1, 5)})
		case k < 88:
			if observed {
				c.ops = append(c.ops, uop{kind: "unobs"})
				observed = false
			} else {
				c.ops = append(c.ops, uop{kind: "obs"})
				observed = true
			}
		default:
			if !observed {
				c.ops = append(c.ops, uop{kind: "obs"})
				observed = true
			} else {
				c.ops = append(c.ops, uop{kind: "stab", par: r.Chance(1, 3)})
			}
		}
	}
	return c
}

// probeReset runs the five-call reproduction once: observe+stabilize, unobserve, set,
// observe, stabilize. 12 = the fold re-reads its inputs after coming back (the repaired
// behaviour, model variant reset_on_unlink = true); 3 = the code as it is.
func probeReset() (reset bool, got int64) {
	c := ucase{kind: "sum", nvars: 2, inputs: []int{0, 1}, init: []int64{1, 2},
		ops: []uop{{kind: "obs"}, {kind: "stab"}, {kind: "unobs"}, {kind: "set", i: 0, x: 10}, {kind: "obs"}, {kind: "stab"}}}
	recs, _, _ := runUaf(c)
	got = recs[len(recs)-1].val
	return got == 12, got
}

// ---------------------------------------------------------------- ReduceBalanced

const prime = 101

// an affine map x -> a*x+b modulo 101, encoded as a*101+b; "first f then g"
func aff(f, g int64) int64 {
	a1, b1, a2, b2 := f/prime, f%prime, g/prime, g%prime
	return ((a1*a2)%prime)*prime + (a2*b1+b2)%prime
}

type rcase struct {
	leaves []int64
	got    int64
}

func runReduce(n int, r *hx.Rand, rep *hx.Report, rounds int) (out []rcase) {
	ctx := context.Background()
	g := incr.New()
	vars := make([]incr.VarIncr[int64], n)
	ins := make([]incr.Incr[int64], n)
	gen := func() int64 { return int64(r.Range(0, prime-1))*prime + int64(r.Range(0, prime-1)) }
	for i := range vars {
		vars[i] = incr.Var(g, gen())
		ins[i] = vars[i]
	}
	root := incr.ReduceBalanced(g, aff, ins...)
	obs := incr.MustObserve(g, root)
	var history []string
	for round := 0; round < rounds; round++ {
		if round > 0 {
			// several writes per pass, now and then behind the root's back
			away := r.Chance(1, 4)
			if away {
				obs.Unobserve(ctx)
				history = append(history, "unobserve")
			}
			for w := r.Range(1, 4); w > 0; w-- {
				i := r.Intn(n)
				v := gen()
				vars[i].Set(v)
				history = append(history, fmt.Sprintf("set(%d,%d)", i, v))
				rep.Count("reduce-set")
			}
			if away {
				obs = incr.MustObserve(g, root)
				history = append(history, "observe")
			}
		}
		var err error
		if round%2 == 1 {
			err = g.ParallelStabilize(ctx)
			history = append(history, "pstab")
		} else {
			err = g.Stabilize(ctx)
			history = append(history, "stab")
		}
		rep.Count("reduce-pass")
		leaves := make([]int64, n)
		want := vars[0].Value()
		for i, v := range vars {
			leaves[i] = v.Value()
			if i > 0 {
				want = aff(want, leaves[i])
			}
		}
		got := root.Value()
		if err != nil || got != want {
			rep.AddViolation(hx.Violation{Property: "C14",
				What: fmt.Sprintf("ReduceBalanced over %d inputs reads %d, the left-to-right reduction is %d (err=%v)", n, got, want, err),
				Key:  fmt.Sprintf("reduce:%d", n),
				Replay: map[string]any{"combinator": "ReduceBalanced", "op": "affine maps mod 101, a*101+b, first f then g",
					"n": n, "calls": history, "leaves": leaves}})
		}
		out = append(out, rcase{leaves, got})
	}
	return
}

// ---------------------------------------------------------------- MapN, ArrayFold, All, ForAll, Exists

type pcase struct {
	kind   string
	values []int64
	got    []int64
}

func altSum(values ...int64) int64 {
	var acc int64
	for i, x := range values {
		if i%2 == 0 {
			acc += x * int64(i+1)
		} else {
			acc -= x * int64(i+1)
		}
	}
	return acc
}

func hashStep(acc, x int64) int64 { return ((acc*31+x)%1000003 + 1000003) % 1000003 }

func b2i(b bool) int64 {
	if b {
		return 1
	}
	return 0
}

func runPlain(kind string, n int, r *hx.Rand, rep *hx.Report, rounds int) (out []pcase) {
	ctx := context.Background()
	g := incr.New()
	nvars := n
	if nvars == 0 {
		nvars = 1
	}
	isBool := kind == "PForAll" || kind == "PExists"
	gen := func() int64 {
		if isBool {
			if kind == "PForAll" {
				return b2i(!r.Chance(1, 4))
			}
			return b2i(r.Chance(1, 4))
		}
		return int64(r.Range(-50, 50))
	}
	ivars := make([]incr.VarIncr[int64], nvars)
	bvars := make([]incr.VarIncr[bool], nvars)
	for i := 0; i < nvars; i++ {
		v := gen()
		ivars[i] = incr.Var(g, v)
		bvars[i] = incr.Var(g, v != 0)
	}
	slots := make([]int, n) // which var feeds each input: repeats allowed
	for s := range slots {
		if r.Chance(1, 4) {
			slots[s] = r.Intn(nvars)
		} else {
			slots[s] = s % nvars
		}
	}
	iins := make([]incr.Incr[int64], n)
	bins := make([]incr.Incr[bool], n)
	for s, i := range slots {
		iins[s], bins[s] = ivars[i], bvars[i]
	}
	var read func() []int64
	var observe func() func()
	switch kind {
	case "PMapN":
		node := incr.MapN(g, altSum, iins...)
		read = func() []int64 { return []int64{node.Value()} }
		observe = func() func() { o := incr.MustObserve(g, node); return func() { o.Unobserve(ctx) } }
	case "PArrayFold":
		node := incr.ArrayFold(g, int64(7), hashStep, iins...)
		read = func() []int64 { return []int64{node.Value()} }
		observe = func() func() { o := incr.MustObserve(g, node); return func() { o.Unobserve(ctx) } }
	case "PAll":
		node := incr.All(g, iins...)
		read = func() []int64 { return append([]int64{}, node.Value()...) }
		observe = func() func() { o := incr.MustObserve(g, node); return func() { o.Unobserve(ctx) } }
	case "PForAll":
		node := incr.ForAll(g, bins...)
		read = func() []int64 { return []int64{b2i(node.Value())} }
		observe = func() func() { o := incr.MustObserve(g, node); return func() { o.Unobserve(ctx) } }
	default:
		node := incr.Exists(g, bins...)
		read = func() []int64 { return []int64{b2i(node.Value())} }
		observe = func() func() { o := incr.MustObserve(g, node); return func() { o.Unobserve(ctx) } }
	}
	unobserve := observe()
	var history []string
	for round := 0; round < rounds; round++ {
		if round > 0 {
			away := r.Chance(1, 4)
			if away {
				unobserve()
				history = append(history, "unobserve")
			}
			for w := r.Range(1, 3); w > 0; w-- {
				i := r.Intn(nvars)
				v := gen()
				ivars[i].Set(v)
				bvars[i].Set(v != 0)
				history = append(history, fmt.Sprintf("set(%d,%d)", i, v))
				rep.Count("plain-set")
			}
			if away {
				unobserve = observe()
				history = append(history, "observe")
			}
		}
		var err error
		if round%2 == 1 {
			err = g.ParallelStabilize(ctx)
			history = append(history, "pstab")
		} else {
			err = g.Stabilize(ctx)
			history = append(history, "stab")
		}
		rep.Count("plain-pass")
		values := make([]int64, n)
		for s, i := range slots {
			values[s] = ivars[i].Value()
		}
		var want []int64
		switch kind {
		case "PMapN":
			want = []int64{altSum(values...)}
		case "PArrayFold":
			acc := int64(7)
			for _, v := range values {
				acc = hashStep(acc, v)
			}
			want = []int64{acc}
		case "PAll":
			want = append([]int64{}, values...)
		case "PForAll":
			all := true
			for _, v := range values {
				all = all && v != 0
			}
			want = []int64{b2i(all)}
		default:
			any := false
			for _, v := range values {
				any = any || v != 0
			}
			want = []int64{b2i(any)}
		}
		got := read()
		if err != nil || fmt.Sprint(got) != fmt.Sprint(want) {
			rep.AddViolation(hx.Violation{Property: "C14",
				What:   fmt.Sprintf("%s over inputs %v reads %v, its function applied to the current inputs gives %v (err=%v)", kind[1:], values, got, want, err),
				Key:    fmt.Sprintf("plain:%s:%d", kind, n),
				Replay: map[string]any{"combinator": kind[1:], "slots": slots, "calls": history, "values": values}})
		}
		out = append(out, pcase{kind, values, got})
	}
	return
}

// ---------------------------------------------------------------- main

func main() {
	var (
		count   = flag.Int("n", 300, "number of random UnorderedArrayFold histories")
		length  = flag.Int("len", 30, "calls per history")
		maxN    = flag.Int("reduce", 70, "ReduceBalanced: input counts 1..reduce")
		rounds  = flag.Int("rounds", 4, "passes per ReduceBalanced / plain case")
		seed    = flag.Uint64("seed", 1, "seed")
		coqOut  = flag.String("coq", "", "Gallina cases file to write")
		coqMax  = flag.Int("coqmax", 400, "at most this many cases go to the Gallina file")
		jsonOut = flag.String("json", "", "report file")
	)
	flag.Parse()
	rep := hx.NewReport("foldtrace", *seed)
	rng := hx.NewRand(*seed)
	distinct := hx.Distinct{}

	reset, probed := probeReset()
	rep.Notes = append(rep.Notes, fmt.Sprintf("probe observe/stabilize/unobserve/set/observe/stabilize read %d: model variant reset_on_unlink=%v", probed, reset))
	if probed != 3 && probed != 12 {
		rep.AddViolation(hx.Violation{Property: "C14", What: fmt.Sprintf("probe read %d, neither 3 (code as it is) nor 12 (repaired)", probed),
			Key: "uaf:probe", Replay: "observe, stabilize, unobserve, set(v0,10), observe, stabilize over sum(1,2)"})
	}

	var uafCases, otherCases []string
	seenKeys := map[string]bool{}
	// the reproduction itself is always part of the run
	fixed := []ucase{
		{kind: "sum", nvars: 2, inputs: []int{0, 1}, init: []int64{1, 2},
			ops: []uop{{kind: "obs"}, {kind: "stab"}, {kind: "unobs"}, {kind: "set", i: 0, x: 10}, {kind: "obs"}, {kind: "stab"}}},
		{kind: "sum", nvars: 2, inputs: []int{0, 1}, init: []int64{1, 2},
			ops: []uop{{kind: "obs"}, {kind: "stab"}, {kind: "set", i: 0, x: 10}, {kind: "unobs"}, {kind: "obs"}, {kind: "stab"}}},
		{kind: "sumsq", nvars: 2, inputs: []int{0, 1, 0}, init: []int64{1, 2}, kept: []int{0},
			ops: []uop{{kind: "obs"}, {kind: "stab"}, {kind: "unobs"}, {kind: "set", i: 0, x: 3}, {kind: "stab"}, {kind: "obs"}, {kind: "stab", par: true}}},
	}
	for k := 0; k < *count+len(fixed); k++ {
		var c ucase
		if k < len(fixed) {
			c = fixed[k]
		} else {
			c = genUaf(rng.Fork(), *length)
		}
		recs, bad, what := runUaf(c)
		rep.Evaluations++
		rep.Sizes[fmt.Sprintf("uaf-inputs%d", len(c.inputs))]++
		nontrivial, written, linked := false, false, false
		for _, r := range recs {
			if r.skipped {
				continue
			}
			rep.Count("uaf-" + r.op.kind)
			switch r.op.kind {
			case "set":
				written = true
			case "obs":
				linked = true
			case "unobs":
				linked = false
				rep.Count("uaf-unobserve-episode")
			case "stab":
				if r.op.par {
					rep.Count("uaf-parallel-pass")
				}
				if !r.ok {
					rep.Count("uaf-failed-pass")
				}
				if r.ok && linked && written {
					nontrivial = true
				}
			}
		}
		if nontrivial {
			distinct.Add(c.coq(recs))
		}
		if bad >= 0 {
			c.ops = c.ops[:bad+1]
			small := shrinkUaf(c)
			_, _, swhat := runUaf(small)
			if swhat == "" {
				small, swhat = c, what
			}
			key := "uaf:" + fmt.Sprint(small.replay()["calls"])
			for _, o := range small.ops {
				if o.kind == "unobs" {
					key = "uaf:stale-after-unobserve"
				}
			}
			if strings.HasPrefix(swhat, "panic") {
				key = "uaf:panic"
			}
			if !seenKeys[key] {
				seenKeys[key] = true
				rep.AddViolation(hx.Violation{Property: "C14", What: swhat, Key: key, Replay: small.replay()})
			}
		}
		goOnly := false
		for _, o := range c.ops {
			goOnly = goOnly || o.upan
		}
		if goOnly {
			rep.Count("uaf-history-with-panicking-update(not replayed on the model)")
		} else {
			uafCases = append(uafCases, c.coq(recs))
		}
		if len(rep.Samples) < 2 && k >= len(fixed) {
			rep.Samples = append(rep.Samples, c.replay())
		}
	}

	for n := 1; n <= *maxN; n++ {
		for _, rc := range runReduce(n, rng.Fork(), rep, *rounds) {
			rep.Evaluations++
			rep.Sizes[fmt.Sprintf("reduce-n%d", n)]++
			s := fmt.Sprintf("CReduce %s %s", hx.ZList(rc.leaves), hx.Z(rc.got))
			if n > 1 {
				distinct.Add(s)
			}
			otherCases = append(otherCases, s)
		}
	}
	for _, kind := range []string{"PMapN", "PArrayFold", "PAll", "PForAll", "PExists"} {
		for n := 0; n <= 9; n++ {
			for _, pc := range runPlain(kind, n, rng.Fork(), rep, *rounds) {
				rep.Evaluations++
				rep.Sizes[fmt.Sprintf("%s-n%d", kind, n)]++
				s := fmt.Sprintf("CPlain %s %s %s", pc.kind, hx.ZList(pc.values), hx.ZList(pc.got))
				if n > 0 {
					distinct.Add(s)
				}
				otherCases = append(otherCases, s)
			}
		}
	}
	rep.Distinct = len(distinct)
	rep.Rule = fmt.Sprintf("%d random UnorderedArrayFold histories of %d calls (sum / sum of squares over 1-8 slots fed by 1-5 vars with repeats; "+
		"set, Stabilize, ParallelStabilize, failing passes, unobserve/observe episodes, some vars kept necessary by their own observer) plus 3 fixed "+
		"reproductions; ReduceBalanced with affine-map composition for every input count 1..%d, %d passes each with 1-4 writes per pass and "+
		"unobserve episodes; MapN/ArrayFold/All/ForAll/Exists for 0..9 inputs with repeats. Non-trivial = a history with a successful pass of "+
		"the linked fold after a write, a reduction of >= 2 inputs, a plain combinator with >= 1 input; distinct by full recorded case",
		*count, *length, *maxN, *rounds)
	if len(rep.Samples) < 3 && len(otherCases) > 0 {
		rep.Samples = append(rep.Samples, otherCases[len(otherCases)/2])
	}

	if *coqOut != "" {
		// the fixed reproductions, a stride sample of the histories, a stride sample of the rest
		pick := func(all []string, max int) []string {
			if len(all) <= max || max <= 0 {
				return all
			}
			var out []string
			for i := 0; i < max; i++ {
				out = append(out, all[i*len(all)/max])
			}
			return out
		}
		half := *coqMax / 2
		sample := append(pick(uafCases, half), pick(otherCases, *coqMax-half)...)
		rep.CoqCases = len(sample)
		var b strings.Builder
		b.WriteString("From incr Require Import Base Fold FoldRun.\n")
		b.WriteString("(* model variant, determined by probing the implementation (see FoldRun.v) *)\n")
		fmt.Fprintf(&b, "Definition reset_on_unlink : bool := %s.\n", hx.Bool(reset))
		b.WriteString("Definition cases : list case := [\n")
		b.WriteString(strings.Join(sample, ";\n"))
		b.WriteString("].\nDefinition M := Eval vm_compute in mismatches reset_on_unlink cases.\nPrint M.\n")
		if err := os.WriteFile(*coqOut, []byte(b.String()), 0o644); err != nil {
			fmt.Fprintln(os.Stderr, err)
			os.Exit(2)
		}
	}
	if *jsonOut != "" {
		if err := rep.Write(*jsonOut); err != nil {
			fmt.Fprintln(os.Stderr, err)
			os.Exit(2)
		}
	}
	fmt.Printf("foldtrace: %d evaluations, %d distinct non-trivial, %d violations, %d coq cases, reset_on_unlink=%v\n",
		rep.Evaluations, rep.Distinct, len(rep.Violations), rep.CoqCases, reset)
}
