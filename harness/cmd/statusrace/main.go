// statusrace exercises C19 ("only one stabilization of a graph runs at a time") on the
// REAL library, in three ways:
//
//	(a) deterministic replay, through the expert API, of the schedule that refutes the
//	    check-then-store protocol in the Coq model (StatusProofs.refutation_schedule), and
//	    an exhaustive enumeration of all interleavings of two and three logical callers.
//	    incr.ExpertGraph(g).EnsureNotStabilizing / StabilizeStart / StabilizeEnd are the very
//	    functions Stabilize and ParallelStabilize call, in that order.  A caller is ADMITTED
//	    once both EnsureNotStabilizing and StabilizeStart have let it through (no error, no
//	    false); two callers admitted at the same time, neither having called StabilizeEnd,
//	    is two passes running node functions at once.  The expert methods are invoked by
//	    reflection so that a change of their signatures (an error or a bool added to
//	    StabilizeStart, say) does not break the replay: any non-nil error or false result
//	    means "turned away".
//	(b) a stress loop in a child process: goroutines released together call g.Stabilize /
//	    g.ParallelStabilize on a graph whose node functions keep, per calling pass, a count
//	    of node functions in flight; two distinct passes in flight at once is a violation.
//	(d) cancellation scenarios in a child process: a cancelled ParallelStabilize / Stabilize
//	    must not return while a node function of that pass is still running (gated node
//	    functions, context cancelled before the call / by a node function / from another
//	    goroutine while the dispatcher waits for a slot), IsStabilizing() may turn false only
//	    then, and a Stabilize issued at that moment is either turned away or runs without
//	    overlapping the cancelled pass.
//	(e) fault scenarios in a child process: a node function panics or returns an error under
//	    Stabilize / ParallelStabilize; every handler the library then invokes before the
//	    outer call returns (OnError, OnAborted, update handlers, stabilization-end handlers)
//	    reads IsStabilizing(), calls Stabilize and ParallelStabilize re-entrantly, and has
//	    another goroutine call Stabilize while it stays parked.  The graph must still be
//	    claimed, every such call must get ErrAlreadyStabilizing, no node function may run for
//	    a second pass, and the stabilization number must advance by exactly one.
//	(c) re-entrant calls from a node function, an update handler, stabilization start/end
//	    handlers and another goroutine while a pass runs: each must return
//	    incr.ErrAlreadyStabilizing and leave NumNodes, the recompute heap length, the
//	    observer values and IsStabilizing unchanged.
package main

import (
	"bufio"
	"context"
	"encoding/json"
	"errors"
	"flag"
	"fmt"
	"os"
	"os/exec"
	"reflect"
	"runtime"
	"strings"
	"sync"
	"sync/atomic"
	"time"

	incr "github.com/wcharczuk/go-incr"
	"verifharness/internal/hx"
)

// ------------------------------------------------------------------ (a) expert replay

var (
	ctxType = reflect.TypeOf((*context.Context)(nil)).Elem()
	errType = reflect.TypeOf((*error)(nil)).Elem()
)

// invoke calls a method of the expert graph by name.  rejected: some result is a non-nil
// error or a false bool.
func invoke(eg any, name string, ctx context.Context) (rejected bool, busy bool, err error) {
	m := reflect.ValueOf(eg).MethodByName(name)
	if !m.IsValid() {
		return false, false, fmt.Errorf("expert graph has no method %s", name)
	}
	t := m.Type()
	args := make([]reflect.Value, t.NumIn())
	for i := range args {
		pt := t.In(i)
		switch {
		case pt == ctxType:
			args[i] = reflect.ValueOf(ctx)
		default:
			args[i] = reflect.Zero(pt) // StabilizeEnd's error argument: nil
		}
	}
	defer func() {
		if r := recover(); r != nil {
			err = fmt.Errorf("%s panicked: %v", name, r)
		}
	}()
	for _, out := range m.Call(args) {
		switch {
		case out.Type().Implements(errType) || out.Type() == errType:
			if !out.IsNil() {
				rejected = true
				if e, ok := out.Interface().(error); ok && errors.Is(e, incr.ErrAlreadyStabilizing) {
					busy = true
				}
			}
		case out.Kind() == reflect.Bool:
			if !out.Bool() {
				rejected = true
			}
		}
	}
	return
}

var opNames = []string{"EnsureNotStabilizing", "StabilizeStart", "StabilizeEnd"}

type replayResult struct {
	violatingPrefix []string // the schedule up to the step at which two callers are admitted
	admitted        []int
	effect          string // a rejected step changed IsStabilizing
	contended       bool
	harnessErr      error
	endBusy         bool // IsStabilizing still true after every caller has finished
}

// runSchedule replays one interleaving: sched[i] is the caller that performs its next
// operation (EnsureNotStabilizing, StabilizeStart, StabilizeEnd in turn; a caller that was
// turned away performs nothing more, as Stabilize returns).
func runSchedule(callers int, sched []int) replayResult {
	g := incr.New()
	v := incr.Var(g, 1)
	o := incr.MustObserve(g, incr.Map(g, v, func(x int) int { return x + 1 }))
	_ = o
	eg := incr.ExpertGraph(g)
	next := make([]int, callers)      // next operation of each caller
	rejected := make([]bool, callers) // turned away
	in := make([]bool, callers)       // admitted and not yet ended
	between := make([]bool, callers)  // anywhere between a successful Ensure and its End
	var res replayResult
	var trace []string
	for _, c := range sched {
		if rejected[c] || next[c] >= len(opNames) {
			continue
		}
		for other := range between {
			if other != c && between[other] {
				res.contended = true
			}
		}
		op := opNames[next[c]]
		before := g.IsStabilizing()
		rej, _, err := invoke(eg, op, context.Background())
		if err != nil {
			res.harnessErr = err
			return res
		}
		trace = append(trace, fmt.Sprintf("caller%d:%s", c, op))
		if rej {
			rejected[c] = true
			between[c] = false
			if g.IsStabilizing() != before && res.effect == "" {
				res.effect = fmt.Sprintf("%s turned caller%d away but IsStabilizing went %v -> %v (schedule %v)", op, c, before, g.IsStabilizing(), trace)
			}
			continue
		}
		switch next[c] {
		case 0:
			between[c] = true
		case 1:
			in[c] = true
		case 2:
			in[c], between[c] = false, false
		}
		next[c]++
		var adm []int
		for i, b := range in {
			if b {
				adm = append(adm, i)
			}
		}
		if len(adm) >= 2 && res.violatingPrefix == nil {
			res.violatingPrefix = append([]string(nil), trace...)
			res.admitted = adm
		}
	}
	busy := false
	for c := range next {
		if !rejected[c] && next[c] < len(opNames) {
			busy = true
		}
	}
	if !busy && g.IsStabilizing() {
		res.endBusy = true
	}
	return res
}

// interleavings of `callers` sequences of three operations each, in lexicographic order
func interleavings(callers int, visit func([]int) bool) {
	left := make([]int, callers)
	for i := range left {
		left[i] = len(opNames)
	}
	var cur []int
	var rec func() bool
	rec = func() bool {
		done := true
		for c := 0; c < callers; c++ {
			if left[c] > 0 {
				done = false
				left[c]--
				cur = append(cur, c)
				if !rec() {
					return false
				}
				cur = cur[:len(cur)-1]
				left[c]++
			}
		}
		if done {
			return visit(cur)
		}
		return true
	}
	rec()
}

func expertReplay(rep *hx.Report, distinct hx.Distinct) {
	// the model's refutation schedule [0;1;0;1;0;1] over [Load;ExitIfBusy;Store 1;...], at the
	// granularity the expert API offers: both callers check, then both start.
	witness := []int{0, 1, 0, 1}
	r := runSchedule(2, witness)
	rep.Evaluations++
	rep.Count("replay-witness")
	distinct.Add("witness")
	if r.harnessErr != nil {
		fmt.Fprintln(os.Stderr, "statusrace:", r.harnessErr)
		os.Exit(2)
	}
	witnessFired := false
	if r.violatingPrefix != nil {
		witnessFired = true
		rep.AddViolation(hx.Violation{Property: "C19",
			What: fmt.Sprintf("two stabilizations admitted at once: callers %v both passed EnsureNotStabilizing and StabilizeStart "+
				"(the functions Graph.Stabilize calls, in its order) and neither has reached StabilizeEnd -- both would now run node functions; "+
				"no caller got ErrAlreadyStabilizing. Schedule: %s", r.admitted, strings.Join(r.violatingPrefix, ", ")),
			Key: "expert-replay:two-admitted",
			Replay: map[string]any{"kind": "expert-api-schedule", "schedule": r.violatingPrefix,
				"model_schedule": "StatusProofs.refutation_schedule = [0;1;0;1;0;1] on check_then_store",
				"how":            "g := incr.New(); eg := incr.ExpertGraph(g); call the listed methods in order, each logical caller with context.Background()"}})
	}
	for _, callers := range []int{2, 3} {
		var firstBad []string
		var firstAdm []int
		bad, total := 0, 0
		var effect string
		endBusy := 0
		interleavings(callers, func(s []int) bool {
			res := runSchedule(callers, s)
			total++
			rep.Evaluations++
			rep.Count(fmt.Sprintf("interleaving-%d-callers", callers))
			if res.contended {
				distinct.Add(fmt.Sprint(callers, s))
			}
			if res.violatingPrefix != nil {
				bad++
				if firstBad == nil || len(res.violatingPrefix) < len(firstBad) {
					firstBad, firstAdm = res.violatingPrefix, res.admitted
				}
			}
			if res.effect != "" && effect == "" {
				effect = res.effect
			}
			if res.endBusy {
				endBusy++
			}
			return true
		})
		rep.Sizes[fmt.Sprintf("interleavings-%d-callers", callers)] = total
		rep.Sizes[fmt.Sprintf("interleavings-%d-callers-violating", callers)] = bad
		if bad > 0 && !witnessFired {
			witnessFired = true
			rep.AddViolation(hx.Violation{Property: "C19",
				What: fmt.Sprintf("two stabilizations admitted at once in %d of %d interleavings of %d callers; shortest: callers %v admitted after %s",
					bad, total, callers, firstAdm, strings.Join(firstBad, ", ")),
				Key:    "expert-replay:two-admitted",
				Replay: map[string]any{"kind": "expert-api-schedule", "schedule": firstBad}})
		}
		if effect != "" {
			rep.AddViolation(hx.Violation{Property: "C19", What: "a call that was turned away changed the graph's status: " + effect,
				Key: "expert-replay:rejected-call-has-effect", Replay: map[string]any{"kind": "expert-api-schedule", "detail": effect}})
		}
		if endBusy > 0 && bad == 0 {
			rep.AddViolation(hx.Violation{Property: "C19", What: fmt.Sprintf("%d interleavings of %d callers leave IsStabilizing true after every caller has finished", endBusy, callers),
				Key: "expert-replay:status-stuck", Replay: map[string]any{"kind": "expert-api-schedule", "callers": callers}})
		}
	}
}

// ------------------------------------------------------------------ (b) stress (child process)

type passKey struct{}

type stressResult struct {
	Rounds        int      `json:"rounds"`
	Goroutines    int      `json:"goroutines"`
	Calls         int      `json:"calls"`
	Admitted      int      `json:"admitted"`
	Rejected      int      `json:"rejected"`
	Contended     int      `json:"rounds_with_a_rejected_call"`
	MaxRunning    int      `json:"max_passes_between_start_and_end_handlers"`
	MaxOverlap    int      `json:"max_passes_in_node_functions"`
	OverlapRound  int      `json:"overlap_round"`
	OverlapKinds  []string `json:"overlap_kinds,omitempty"`
	Unexpected    []string `json:"unexpected,omitempty"`
	SerialCalls   int      `json:"stabilize_calls"`
	ParallelCalls int      `json:"parallel_stabilize_calls"`
}

// stressState is the oracle of the stress loop.  A pass is identified by the value its
// caller put in the context.  "running": between the graph's stabilization-start handler
// and its stabilization-end handler (both are invoked only by a pass that was let in, the
// end handler before the status word is released, so for a correct lock these intervals
// are disjoint); "active": inside a node function.
type stressState struct {
	mu       sync.Mutex
	res      stressResult
	running  map[int]bool
	active   map[int]int
	round    int
	parallel []bool // of the current round, by goroutine index
	seen     bool
}

func (st *stressState) emitLocked() {
	data, _ := json.Marshal(st.res)
	fmt.Println("STRESS " + string(data))
}

func (st *stressState) kinds(ids map[int]bool) []string {
	var out []string
	for id := range ids {
		kind := "Stabilize"
		if id >= 0 && st.parallel[id%len(st.parallel)] {
			kind = "ParallelStabilize"
		}
		out = append(out, kind)
	}
	return out
}

// overlapLocked records an overlap; the first one is printed at once (the colliding passes
// may take the process down), the process exits shortly after so that an overlap inside
// node functions still has a chance to show.
func (st *stressState) overlapLocked(inNodeFunctions bool) {
	st.res.OverlapRound = st.round
	ids := map[int]bool{}
	if inNodeFunctions {
		for id := range st.active {
			ids[id] = true
		}
	} else {
		for id := range st.running {
			ids[id] = true
		}
	}
	st.res.OverlapKinds = st.kinds(ids)
	st.emitLocked()
	if inNodeFunctions {
		os.Exit(0)
	}
	if !st.seen {
		st.seen = true
		go func() {
			time.Sleep(5 * time.Millisecond)
			st.mu.Lock()
			st.emitLocked()
			os.Exit(0)
		}()
	}
}

func (st *stressState) passStart(id int) {
	st.mu.Lock()
	st.running[id] = true
	if len(st.running) > st.res.MaxRunning {
		st.res.MaxRunning = len(st.running)
		if len(st.running) > 1 {
			st.overlapLocked(false)
		}
	}
	st.mu.Unlock()
}

func (st *stressState) passEnd(id int) {
	st.mu.Lock()
	delete(st.running, id)
	st.mu.Unlock()
}

func (st *stressState) enter(id int) {
	st.mu.Lock()
	st.active[id]++
	if len(st.active) > st.res.MaxOverlap {
		st.res.MaxOverlap = len(st.active)
		if len(st.active) > 1 {
			st.overlapLocked(true)
		}
	}
	st.mu.Unlock()
}

func (st *stressState) exit(id int) {
	st.mu.Lock()
	if st.active[id]--; st.active[id] <= 0 {
		delete(st.active, id)
	}
	st.mu.Unlock()
}

func passID(ctx context.Context) int {
	id, ok := ctx.Value(passKey{}).(int)
	if !ok {
		return -2
	}
	return id
}

func stressChild(seed uint64, rounds, goroutines int) {
	rng := hx.NewRand(seed)
	st := &stressState{running: map[int]bool{}, active: map[int]int{}, parallel: make([]bool, goroutines)}
	st.res = stressResult{Goroutines: goroutines, OverlapRound: -1}
	g := incr.New(incr.OptGraphParallelism(4))
	g.OnStabilizationStart(func(ctx context.Context) { st.passStart(passID(ctx)) })
	g.OnStabilizationEnd(func(ctx context.Context, _ time.Time, _ error) { st.passEnd(passID(ctx)) })
	const nvars = 4
	vars := make([]incr.VarIncr[int], nvars)
	obs := make([]incr.ObserveIncr[int], nvars)
	for i := range vars {
		vars[i] = incr.Var(g, i)
		m := incr.MapContext(g, vars[i], func(ctx context.Context, x int) (int, error) {
			id := passID(ctx)
			st.enter(id)
			time.Sleep(80 * time.Microsecond)
			runtime.Gosched()
			st.exit(id)
			return 2*x + 1, nil
		})
		obs[i] = incr.MustObserve(g, m)
	}
	unexpected := func(format string, args ...any) {
		st.mu.Lock()
		st.res.Unexpected = append(st.res.Unexpected, fmt.Sprintf(format, args...))
		st.mu.Unlock()
	}
	if err := g.Stabilize(context.WithValue(context.Background(), passKey{}, -1)); err != nil {
		unexpected("initial Stabilize: %v", err)
	}
	want := make([]int, nvars)
	for round := 0; round < rounds; round++ {
		st.mu.Lock()
		stop := len(st.res.Unexpected) > 0
		if !stop {
			st.res.Rounds++
			st.round = round
			for i := range st.parallel {
				st.parallel[i] = rng.Chance(1, 2)
			}
		}
		parallel := append([]bool(nil), st.parallel...)
		st.mu.Unlock()
		if stop {
			break
		}
		for i := range vars {
			x := rng.Range(0, 1<<20)
			vars[i].Set(x)
			want[i] = 2*x + 1
		}
		errs := make([]error, goroutines)
		var arrived atomic.Int32
		var wg sync.WaitGroup
		for i := 0; i < goroutines; i++ {
			wg.Add(1)
			go func(i int) {
				defer wg.Done()
				ctx := context.WithValue(context.Background(), passKey{}, round*goroutines+i)
				arrived.Add(1)
				for arrived.Load() < int32(goroutines) { // spin: release everybody within nanoseconds
				}
				if parallel[i] {
					errs[i] = g.ParallelStabilize(ctx)
				} else {
					errs[i] = g.Stabilize(ctx)
				}
			}(i)
		}
		finished := make(chan struct{})
		go func() { wg.Wait(); close(finished) }()
		select {
		case <-finished:
		case <-time.After(20 * time.Second):
			st.mu.Lock()
			st.res.Unexpected = append(st.res.Unexpected, fmt.Sprintf("round %d: concurrent Stabilize calls did not return within 20s", round))
			st.emitLocked()
			os.Exit(0)
		}
		st.mu.Lock()
		rejected := 0
		for i, err := range errs {
			st.res.Calls++
			if parallel[i] {
				st.res.ParallelCalls++
			} else {
				st.res.SerialCalls++
			}
			switch {
			case err == nil:
				st.res.Admitted++
			case errors.Is(err, incr.ErrAlreadyStabilizing):
				st.res.Rejected++
				rejected++
			default:
				st.res.Unexpected = append(st.res.Unexpected, fmt.Sprintf("round %d: call %d returned %s", round, i, firstLines(err.Error(), 1)))
			}
		}
		if rejected > 0 {
			st.res.Contended++
		}
		st.mu.Unlock()
		if g.IsStabilizing() {
			unexpected("round %d: IsStabilizing is true after every call returned", round)
			break
		}
		if incr.ExpertGraph(g).RecomputeHeapLen() > 0 {
			// every admitted pass was over before the others looked; legal.  Drain.
			_ = g.Stabilize(context.WithValue(context.Background(), passKey{}, -1))
		}
		for i := range obs {
			if obs[i].Value() != want[i] {
				unexpected("round %d: observer %d holds %d, want %d", round, i, obs[i].Value(), want[i])
			}
		}
	}
	st.mu.Lock()
	st.emitLocked()
	st.mu.Unlock()
}

func stressParent(rep *hx.Report, distinct hx.Distinct, seed uint64, rounds, goroutines int) {
	cmd := exec.Command(os.Args[0], "-child", "stress", "-seed", fmt.Sprint(seed), "-rounds", fmt.Sprint(rounds), "-goroutines", fmt.Sprint(goroutines))
	var stderr strings.Builder
	cmd.Stderr = &stderr
	stdout, err := cmd.StdoutPipe()
	if err != nil {
		fmt.Fprintln(os.Stderr, err)
		os.Exit(2)
	}
	if err := cmd.Start(); err != nil {
		fmt.Fprintln(os.Stderr, err)
		os.Exit(2)
	}
	killed := false
	timer := time.AfterFunc(10*time.Minute, func() { killed = true; _ = cmd.Process.Kill() })
	var res *stressResult
	sc := bufio.NewScanner(stdout)
	sc.Buffer(make([]byte, 1<<20), 1<<20)
	for sc.Scan() {
		line := sc.Text()
		if strings.HasPrefix(line, "STRESS ") {
			var r stressResult
			if json.Unmarshal([]byte(line[len("STRESS "):]), &r) == nil {
				res = &r
			}
		}
	}
	werr := cmd.Wait()
	timer.Stop()
	if killed {
		werr = errors.New("stress child killed after 10 minutes")
	}
	if res == nil {
		tail := stderr.String()
		if len(tail) > 1500 {
			tail = tail[:1500]
		}
		rep.AddViolation(hx.Violation{Property: "C19", What: fmt.Sprintf("process died while %d goroutines called Stabilize/ParallelStabilize concurrently on one graph (%v): %s",
			goroutines, werr, firstLines(tail, 3)), Key: "stress:crash",
			Replay: map[string]any{"kind": "stress", "seed": seed, "rounds": rounds, "goroutines": goroutines, "stderr": tail}})
		return
	}
	rep.Evaluations += res.Rounds
	rep.Histogram["stress-rounds"] += res.Rounds
	rep.Histogram["stress-calls-Stabilize"] += res.SerialCalls
	rep.Histogram["stress-calls-ParallelStabilize"] += res.ParallelCalls
	rep.Histogram["stress-calls-rejected"] += res.Rejected
	rep.Histogram["stress-calls-admitted"] += res.Admitted
	rep.Sizes["stress-goroutines"] = res.Goroutines
	rep.Sizes["stress-rounds-with-a-rejected-call"] = res.Contended
	for i := 0; i < res.Contended; i++ {
		distinct.Add(fmt.Sprintf("stress-round-%d", i))
	}
	rep.Samples = append(rep.Samples, map[string]any{"stress": res})
	if res.MaxOverlap > 1 || res.MaxRunning > 1 {
		what := fmt.Sprintf("%d distinct passes (%s) were running on one graph at the same time: each was let in (its stabilization-start handler ran) before the other's stabilization-end handler",
			res.MaxRunning, strings.Join(res.OverlapKinds, " and "))
		if res.MaxOverlap > 1 {
			what = fmt.Sprintf("%d distinct passes (%s) were inside node functions of one graph at the same time", res.MaxOverlap, strings.Join(res.OverlapKinds, " and "))
		}
		what += fmt.Sprintf(" (round %d of the stress loop, %d goroutines released together; no call had returned ErrAlreadyStabilizing to them)", res.OverlapRound, res.Goroutines)
		if werr != nil {
			what += fmt.Sprintf("; the process then died: %v %s", werr, firstLines(stderr.String(), 2))
		}
		rep.AddViolation(hx.Violation{Property: "C19", What: what, Key: "stress:passes-overlap",
			Replay: map[string]any{"kind": "stress", "seed": seed, "rounds": rounds, "goroutines": goroutines, "overlap_round": res.OverlapRound,
				"passes_running": res.MaxRunning, "passes_in_node_functions": res.MaxOverlap}})
		return
	}
	for _, u := range res.Unexpected {
		rep.AddViolation(hx.Violation{Property: "C19", What: "concurrent Stabilize/ParallelStabilize calls: " + u, Key: "stress:unexpected",
			Replay: map[string]any{"kind": "stress", "seed": seed, "rounds": rounds, "goroutines": goroutines}})
		break
	}
}

func firstLines(s string, n int) string {
	lines := strings.Split(strings.TrimSpace(s), "\n")
	if len(lines) > n {
		lines = lines[:n]
	}
	return strings.Join(lines, " | ")
}

// ------------------------------------------------------------------ (d) cancellation (child process)

// A cancelled pass must not come back while one of its node functions is still running:
// returning releases the status word, and the next Stabilize is then let in next to the
// straggler.  The scenarios force the situation with gates (channels), not sleeps: node
// functions count themselves in per calling pass and block until the driver opens the
// gate; the only timing involved is a bounded wait for the library to go quiet, and being
// too impatient can only hide a violation, never invent one.

type cancelScenario struct {
	Kind  string `json:"kind"` // ParallelStabilize | Stabilize
	P     int    `json:"parallelism"`
	W     int    `json:"width"` // nodes queued (one height block for the parallel pass)
	Mode  string `json:"cancel"`
	Gated string `json:"gated"` // which node functions block on the gate
}

type cancelOutcome struct {
	Scenario        cancelScenario `json:"scenario"`
	Err             string         `json:"returned_error"`
	ReturnedEarly   bool           `json:"returned_while_its_node_functions_ran"`
	RunningAtReturn int            `json:"node_functions_of_the_pass_running_at_return"`
	StartedLater    int            `json:"node_functions_of_the_pass_started_after_return"`
	StatusAtCheck   bool           `json:"is_stabilizing_at_check"`
	FollowUp        string         `json:"follow_up_stabilize"`
	MaxPasses       int            `json:"max_passes_in_node_functions"`
	StartedByPass   map[string]int `json:"node_functions_started_by_pass"`
	Problems        []string       `json:"problems,omitempty"`
	Notes           []string       `json:"notes,omitempty"`
}

type passTracker struct {
	mu      sync.Mutex
	active  map[int]int
	started map[int]int
	max     int
}

func newPassTracker() *passTracker {
	return &passTracker{active: map[int]int{}, started: map[int]int{}}
}

func (t *passTracker) enter(id int) int {
	t.mu.Lock()
	defer t.mu.Unlock()
	t.active[id]++
	t.started[id]++
	if len(t.active) > t.max {
		t.max = len(t.active)
	}
	return t.started[id]
}

func (t *passTracker) exit(id int) {
	t.mu.Lock()
	if t.active[id]--; t.active[id] <= 0 {
		delete(t.active, id)
	}
	t.mu.Unlock()
}

func (t *passTracker) running(id int) int {
	t.mu.Lock()
	defer t.mu.Unlock()
	return t.active[id]
}

func (t *passTracker) startedBy(id int) int {
	t.mu.Lock()
	defer t.mu.Unlock()
	return t.started[id]
}

// waitQuiet waits until the number of running node functions of a pass has not moved for
// 30ms and (it has reached want or a second has passed); bounded by 3s.
func (t *passTracker) waitQuiet(id, want int) {
	start := time.Now()
	last, lastChange := t.running(id), start
	for {
		time.Sleep(time.Millisecond)
		now := time.Now()
		if cur := t.running(id); cur != last {
			last, lastChange = cur, now
		}
		if now.Sub(lastChange) >= 30*time.Millisecond && (last >= want || now.Sub(start) >= time.Second) {
			return
		}
		if now.Sub(start) >= 3*time.Second {
			return
		}
	}
}

const (
	cancelledPass = 1
	followUpPass  = 2
	finalPass     = 3
)

func runCancelScenario(sc cancelScenario, rng *hx.Rand) cancelOutcome {
	out := cancelOutcome{Scenario: sc, StartedByPass: map[string]int{}}
	problem := func(format string, args ...any) { out.Problems = append(out.Problems, fmt.Sprintf(format, args...)) }
	g := incr.New(incr.OptGraphParallelism(sc.P))
	tr := newPassTracker()
	gate := make(chan struct{})
	ctx1, cancel := context.WithCancel(context.WithValue(context.Background(), passKey{}, cancelledPass))
	defer cancel()
	var armed atomic.Bool
	const cancelAtSerial = 10 // the serial pass is cancelled by its 10th node function
	const gateAtSerial = 5    // ... or held at its 5th while another goroutine cancels
	// sc.W nodes for the cancelled pass, plus one "probe" that the driver makes stale only
	// after it has seen the cancelled call return, so that the follow-up Stabilize has a
	// node function to run whatever the cancelled pass left in the recompute heap
	vars := make([]incr.VarIncr[int], sc.W+1)
	obs := make([]incr.ObserveIncr[int], sc.W+1)
	want := make([]int, sc.W+1)
	probe := sc.W
	for i := range vars {
		vars[i] = incr.Var(g, rng.Range(0, 1000))
		m := incr.MapContext(g, vars[i], func(ctx context.Context, x int) (int, error) {
			id := passID(ctx)
			seq := tr.enter(id)
			defer tr.exit(id)
			if !armed.Load() {
				return x + 1, nil
			}
			if id == cancelledPass && sc.Mode == "by-a-node-function" {
				if (sc.Kind == "ParallelStabilize" && seq == 1) || (sc.Kind == "Stabilize" && seq == cancelAtSerial) {
					cancel()
				}
			}
			switch sc.Gated {
			case "all":
				<-gate
			case "one":
				if id == cancelledPass && seq == gateAtSerial {
					<-gate
				}
			}
			return x + 1, nil
		})
		obs[i] = incr.MustObserve(g, m)
	}
	if err := g.Stabilize(context.WithValue(context.Background(), passKey{}, 0)); err != nil {
		problem("initial Stabilize: %v", err)
		return out
	}
	for i := range vars {
		x := rng.Range(1001, 1<<20)
		want[i] = x + 1
		if i == probe {
			want[i] = vars[i].Value() + 1
			continue
		}
		vars[i].Set(x)
	}
	armed.Store(true)
	if sc.Mode == "before-the-call" {
		cancel()
	}
	done := make(chan error, 1)
	go func() {
		if sc.Kind == "ParallelStabilize" {
			done <- g.ParallelStabilize(ctx1)
		} else {
			done <- g.Stabilize(ctx1)
		}
	}()
	// let the pass get as far as the gates allow
	full := 1
	if sc.Gated == "all" {
		full = sc.P
		if sc.W < full {
			full = sc.W
		}
	}
	switch sc.Mode {
	case "before-the-call":
		// nothing to wait for: either it returns at once or it runs into the gates
		tr.waitQuiet(cancelledPass, 0)
	case "by-a-node-function":
		if sc.Gated != "none" {
			tr.waitQuiet(cancelledPass, 1)
		}
	case "from-another-goroutine":
		// every slot is taken by a gated node function and the dispatcher waits for one
		// (serial: the pass sits in its gated node function); now cancel
		tr.waitQuiet(cancelledPass, full)
		cancel()
	}
	returned := false
	var callErr error
	grace := 60 * time.Millisecond
	if sc.Gated == "none" {
		grace = 10 * time.Second // nothing holds the pass: it must come back by itself
	}
	select {
	case callErr = <-done:
		returned = true
	case <-time.After(grace):
	}
	// Everything below is stated on facts sampled here, never on "it should have happened by
	// now": a slow machine can make a check miss a violation, it cannot produce one.
	//  - node functions of the pass that are blocked on the gate stay "running" until the
	//    gate opens, so two equal non-zero samples around another observation bracket it.
	r1 := tr.running(cancelledPass)
	out.StatusAtCheck = g.IsStabilizing()
	r2 := tr.running(cancelledPass)
	out.RunningAtReturn = r2
	startedAtCheck := tr.startedBy(cancelledPass)
	if returned && r1 > 0 {
		out.ReturnedEarly = true
		problem("%s returned (%v) while %d node function(s) of that pass were still running", sc.Kind, callErr, r1)
	}
	if r1 > 0 && r2 > 0 && !out.StatusAtCheck {
		problem("IsStabilizing() is false while %d node function(s) of the cancelled pass are running", r2)
	}
	if returned && r1 == 0 && r2 == 0 && out.StatusAtCheck {
		problem("%s returned (%v) but IsStabilizing() is still true", sc.Kind, callErr)
	}
	if !returned && sc.Gated == "none" {
		problem("cancelled %s did not return within 10s", sc.Kind)
		return out
	}
	// a Stabilize issued right now: turned away, or let in -- then it must not overlap
	if returned {
		x := rng.Range(1001, 1<<20)
		vars[probe].Set(x) // the caller has its answer: as far as it can tell no pass is in progress
		want[probe] = x + 1
	}
	followCtx := context.WithValue(context.Background(), passKey{}, followUpPass)
	followDone := make(chan error, 1)
	rBefore := tr.running(cancelledPass)
	go func() { followDone <- g.Stabilize(followCtx) }()
	var followErr error
	followReturned := false
	select {
	case followErr = <-followDone:
		followReturned = true
	case <-time.After(60 * time.Millisecond):
	}
	rAfter := tr.running(cancelledPass)
	switch {
	case followReturned && errors.Is(followErr, incr.ErrAlreadyStabilizing):
		out.FollowUp = "ErrAlreadyStabilizing"
		if returned && r1 == 0 && r2 == 0 {
			problem("Stabilize after the cancelled pass had returned got ErrAlreadyStabilizing")
		}
	case followReturned:
		out.FollowUp = fmt.Sprintf("returned %v", followErr)
		if rBefore > 0 && rAfter > 0 {
			problem("a Stabilize issued while %d node function(s) of the cancelled %s were running was let in (it returned %v, not ErrAlreadyStabilizing)", rAfter, sc.Kind, followErr)
		}
	default:
		out.FollowUp = "let in (blocked at the gate)"
		if rBefore > 0 && rAfter > 0 && tr.running(followUpPass) > 0 {
			problem("a Stabilize issued while %d node function(s) of the cancelled %s were running was let in and is running node functions itself", rAfter, sc.Kind)
		}
	}
	// open the gates, let everything finish
	close(gate)
	if !returned {
		select {
		case callErr = <-done:
			returned = true
			if n := tr.running(cancelledPass); n > 0 {
				out.ReturnedEarly = true
				out.RunningAtReturn = n
				problem("%s returned (%v) while %d node function(s) of that pass were still running", sc.Kind, callErr, n)
			}
			startedAtCheck = tr.startedBy(cancelledPass)
		case <-time.After(10 * time.Second):
			problem("cancelled %s did not return within 10s of the gates opening", sc.Kind)
			return out
		}
	}
	if callErr != nil {
		out.Err = callErr.Error()
	} else {
		out.Err = "<nil>"
	}
	if !followReturned {
		select {
		case followErr = <-followDone:
		case <-time.After(10 * time.Second):
			problem("follow-up Stabilize did not return within 10s of the gates opening")
			return out
		}
	}
	if followErr != nil && !errors.Is(followErr, incr.ErrAlreadyStabilizing) {
		problem("follow-up Stabilize failed: %v", followErr)
	}
	// nothing of the cancelled pass may start once it has returned
	time.Sleep(20 * time.Millisecond)
	out.StartedLater = tr.startedBy(cancelledPass) - startedAtCheck
	if out.StartedLater > 0 && !out.ReturnedEarly {
		problem("%d node function(s) of the cancelled pass started after it had returned", out.StartedLater)
	}
	if n := tr.running(cancelledPass); n > 0 {
		problem("%d node function(s) of the cancelled pass still running 20ms after the gates opened and the call returned", n)
	}
	tr.mu.Lock()
	out.MaxPasses = tr.max
	for id, n := range tr.started {
		out.StartedByPass[fmt.Sprint(id)] = n
	}
	tr.mu.Unlock()
	if out.MaxPasses > 1 {
		problem("node functions of %d distinct passes ran at the same time (the cancelled %s and the Stabilize that followed it)", out.MaxPasses, sc.Kind)
	}
	if g.IsStabilizing() {
		problem("IsStabilizing() is true after every call returned")
	}
	// whatever the cancelled pass left queued is picked up by a later pass
	if err := g.Stabilize(context.WithValue(context.Background(), passKey{}, finalPass)); err != nil {
		problem("final Stabilize: %v", err)
	}
	for i := range obs {
		if obs[i].Value() != want[i] {
			// work lost by a cancelled pass is not by itself a matter of mutual exclusion: it
			// is reported as a consequence when the pass also broke C19, otherwise as a note
			msg := fmt.Sprintf("observer %d holds %d after the final Stabilize, want %d", i, obs[i].Value(), want[i])
			if len(out.Problems) > 0 {
				problem("%s", msg)
			} else {
				out.Notes = append(out.Notes, msg)
			}
			break
		}
	}
	return out
}

func cancelScenarios() []cancelScenario {
	var out []cancelScenario
	for _, p := range []int{1, 2, 4} {
		w := 3*p + 2
		for _, mode := range []string{"before-the-call", "by-a-node-function", "from-another-goroutine"} {
			out = append(out, cancelScenario{Kind: "ParallelStabilize", P: p, W: w, Mode: mode, Gated: "all"})
		}
	}
	// serial: more queued nodes than the cancellation check stride (64)
	out = append(out,
		cancelScenario{Kind: "Stabilize", P: 2, W: 200, Mode: "before-the-call", Gated: "none"},
		cancelScenario{Kind: "Stabilize", P: 2, W: 200, Mode: "by-a-node-function", Gated: "none"},
		cancelScenario{Kind: "Stabilize", P: 2, W: 200, Mode: "from-another-goroutine", Gated: "one"})
	return out
}

func cancelChild(seed uint64) {
	rng := hx.NewRand(seed)
	for _, sc := range cancelScenarios() {
		start, _ := json.Marshal(sc)
		fmt.Println("CANCEL-START " + string(start))
		o := runCancelScenario(sc, rng.Fork())
		data, _ := json.Marshal(o)
		fmt.Println("CANCEL " + string(data))
	}
}

func cancelParent(rep *hx.Report, distinct hx.Distinct, seed uint64) {
	cmd := exec.Command(os.Args[0], "-child", "cancel", "-seed", fmt.Sprint(seed))
	var stderr strings.Builder
	cmd.Stderr = &stderr
	stdout, err := cmd.StdoutPipe()
	if err != nil {
		fmt.Fprintln(os.Stderr, err)
		os.Exit(2)
	}
	if err := cmd.Start(); err != nil {
		fmt.Fprintln(os.Stderr, err)
		os.Exit(2)
	}
	killed := false
	timer := time.AfterFunc(5*time.Minute, func() { killed = true; _ = cmd.Process.Kill() })
	var last string
	finished := map[string]bool{}
	sc := bufio.NewScanner(stdout)
	sc.Buffer(make([]byte, 1<<20), 1<<20)
	for sc.Scan() {
		line := sc.Text()
		switch {
		case strings.HasPrefix(line, "CANCEL-START "):
			last = line[len("CANCEL-START "):]
		case strings.HasPrefix(line, "CANCEL "):
			var o cancelOutcome
			if json.Unmarshal([]byte(line[len("CANCEL "):]), &o) != nil {
				continue
			}
			finished[last] = true
			rep.Evaluations++
			rep.Count("cancel-" + o.Scenario.Kind + "-" + o.Scenario.Mode)
			name := fmt.Sprintf("%s/p=%d,w=%d/%s", o.Scenario.Kind, o.Scenario.P, o.Scenario.W, o.Scenario.Mode)
			if o.Scenario.Mode != "before-the-call" || o.StartedByPass[fmt.Sprint(cancelledPass)] > 0 {
				distinct.Add("cancel:" + name)
			}
			for _, n := range o.Notes {
				rep.Notes = append(rep.Notes, "cancellation "+name+": "+n)
			}
			if len(o.Problems) > 0 {
				rep.AddViolation(hx.Violation{Property: "C19",
					What: fmt.Sprintf("cancelled %s (parallelism %d, %d queued nodes, context cancelled %s): %s", o.Scenario.Kind, o.Scenario.P, o.Scenario.W,
						o.Scenario.Mode, strings.Join(o.Problems, "; ")),
					Key: "cancel:" + name, Replay: map[string]any{"kind": "cancellation", "scenario": o.Scenario, "outcome": o}})
			}
			if o.Scenario.Mode == "by-a-node-function" && len(rep.Samples) < 4 {
				rep.Samples = append(rep.Samples, map[string]any{"cancellation": o})
			}
		}
	}
	werr := cmd.Wait()
	timer.Stop()
	if killed {
		werr = errors.New("cancellation child killed after 5 minutes")
	}
	if werr != nil {
		tail := stderr.String()
		if len(tail) > 1500 {
			tail = tail[:1500]
		}
		var scn any
		_ = json.Unmarshal([]byte(last), &scn)
		rep.AddViolation(hx.Violation{Property: "C19", What: fmt.Sprintf("process died during the cancellation scenario %s (%v): %s", last, werr, firstLines(tail, 3)),
			Key: "cancel:crash", Replay: map[string]any{"kind": "cancellation", "scenario": scn, "stderr": tail}})
	}
}

// ------------------------------------------------------------------ (e) faults (child process)

// A node function that panics or returns an error makes the library call user code on the
// way out of the pass: the node's OnError handlers, the OnAborted handlers of what was
// still queued, the stabilization-end handlers, the update handlers of the nodes that did
// change.  All of that still belongs to the pass: until Stabilize / ParallelStabilize has
// returned, the graph must stay claimed.  Every handler the library invokes on behalf of
// the outer pass (a) reads IsStabilizing(), (b) calls Stabilize and ParallelStabilize
// re-entrantly, (c) asks another goroutine to call Stabilize and stays parked on a channel
// until that call has returned.  The facts are sampled by the handlers themselves, in line;
// no timing is involved.

type faultScenario struct {
	Outer string `json:"outer"` // Stabilize | ParallelStabilize
	P     int    `json:"parallelism"`
	Fault string `json:"fault"` // panic | error
	Clear bool   `json:"clear_recompute_heap_on_error"`
	First bool   `json:"failing_node_queued_first"` // serial passes stop at the failure: what is still queued then depends on the order
}

type handlerVisit struct {
	Site           string `json:"handler"`
	Stabilizing    bool   `json:"is_stabilizing"`
	StabNum        uint64 `json:"stabilization_num"`
	NestedStab     string `json:"nested_stabilize,omitempty"`
	NestedParallel string `json:"nested_parallel_stabilize,omitempty"`
	Concurrent     string `json:"stabilize_from_another_goroutine,omitempty"`
}

type faultOutcome struct {
	Scenario      faultScenario  `json:"scenario"`
	Visits        []handlerVisit `json:"handler_visits"`
	OuterErr      string         `json:"outer_returned"`
	StabNumBefore uint64         `json:"stabilization_num_before"`
	StabNumAfter  uint64         `json:"stabilization_num_after"`
	ForeignRuns   map[string]int `json:"node_functions_run_for_other_passes,omitempty"`
	Problems      []string       `json:"problems,omitempty"`
	Notes         []string       `json:"notes,omitempty"`
}

const (
	outerPass      = 1
	nestedSerial   = 2
	nestedParallel = 3
	otherGoroutine = 4
	recoveryPass   = 5
)

func errName(err error) string {
	switch {
	case err == nil:
		return "<nil>"
	case errors.Is(err, incr.ErrAlreadyStabilizing):
		return "ErrAlreadyStabilizing"
	}
	return firstLines(err.Error(), 1)
}

func runFaultScenario(sc faultScenario, rng *hx.Rand) (out faultOutcome) {
	out = faultOutcome{Scenario: sc, ForeignRuns: map[string]int{}}
	var mu sync.Mutex
	problem := func(format string, args ...any) {
		mu.Lock()
		out.Problems = append(out.Problems, fmt.Sprintf(format, args...))
		mu.Unlock()
	}
	g := incr.New(incr.OptGraphParallelism(sc.P), incr.OptGraphClearRecomputeHeapOnError(sc.Clear))
	eg := incr.ExpertGraph(g)
	tr := newPassTracker()
	var armed, outerReturned atomic.Bool
	// the goroutine that issues a Stabilize on request while the requesting handler is parked
	req := make(chan struct{})
	resp := make(chan error)
	stop := make(chan struct{})
	defer close(stop)
	go func() {
		for {
			select {
			case <-req:
				resp <- g.Stabilize(context.WithValue(context.Background(), passKey{}, otherGoroutine))
			case <-stop:
				return
			}
		}
	}()
	probed := map[string]bool{}
	visit := func(site string, ctx context.Context) {
		if !armed.Load() || passID(ctx) != outerPass || outerReturned.Load() {
			return // not invoked on behalf of the outer pass while it is still running
		}
		v := handlerVisit{Site: site, Stabilizing: g.IsStabilizing(), StabNum: eg.StabilizationNum()}
		mu.Lock()
		first := !probed[site]
		probed[site] = true
		mu.Unlock()
		if first {
			v.NestedStab = errName(g.Stabilize(context.WithValue(context.Background(), passKey{}, nestedSerial)))
			v.NestedParallel = errName(g.ParallelStabilize(context.WithValue(context.Background(), passKey{}, nestedParallel)))
			req <- struct{}{}
			v.Concurrent = errName(<-resp) // parked here until the other goroutine's call has returned
		}
		stillRunning := !outerReturned.Load()
		mu.Lock()
		out.Visits = append(out.Visits, v)
		mu.Unlock()
		if !stillRunning {
			return
		}
		where := fmt.Sprintf("inside the %s that the outer %s invoked before returning", site, sc.Outer)
		if !v.Stabilizing {
			problem("IsStabilizing() is false %s", where)
		}
		for _, n := range []struct{ what, got string }{{"a re-entrant Stabilize", v.NestedStab}, {"a re-entrant ParallelStabilize", v.NestedParallel},
			{"a Stabilize issued by another goroutine while the handler was parked", v.Concurrent}} {
			if n.got != "" && n.got != "ErrAlreadyStabilizing" {
				problem("%s %s returned %s, not ErrAlreadyStabilizing", n.what, where, n.got)
			}
		}
	}
	const siblings = 5
	nodeFn := func(fail bool) func(context.Context, int) (int, error) {
		return func(ctx context.Context, x int) (int, error) {
			id := passID(ctx)
			tr.enter(id)
			defer tr.exit(id)
			if fail && armed.Load() {
				if sc.Fault == "panic" {
					panic("verif: seeded node failure")
				}
				return 0, errors.New("verif: seeded node failure")
			}
			return x + 1, nil
		}
	}
	vf := incr.Var(g, rng.Range(0, 1000))
	f := incr.MapContext(g, vf, nodeFn(true))
	f.Node().OnError(func(ctx context.Context, _ error) { visit("OnError handler of the failing node", ctx) })
	f.Node().OnAborted(func(ctx context.Context, _ error) { visit("OnAborted handler of the failing node", ctx) })
	of := incr.MustObserve(g, f)
	vs := make([]incr.VarIncr[int], siblings)
	ot := make([]incr.ObserveIncr[int], siblings)
	for i := range vs {
		vs[i] = incr.Var(g, rng.Range(0, 1000))
		s := incr.MapContext(g, vs[i], nodeFn(false))
		t := incr.MapContext(g, s, nodeFn(false))
		vs[i].Node().OnAborted(func(ctx context.Context, _ error) { visit("OnAborted handler of a sibling", ctx) })
		s.Node().OnAborted(func(ctx context.Context, _ error) { visit("OnAborted handler of a sibling", ctx) })
		t.Node().OnAborted(func(ctx context.Context, _ error) { visit("OnAborted handler of a sibling", ctx) })
		s.Node().OnUpdate(func(ctx context.Context) { visit("update handler of a sibling", ctx) })
		ot[i] = incr.MustObserve(g, t)
		ot[i].OnUpdate(func(ctx context.Context, _ int) { visit("update handler of a sibling's observer", ctx) })
	}
	g.OnStabilizationEnd(func(ctx context.Context, _ time.Time, _ error) { visit("stabilization-end handler", ctx) })
	if err := g.Stabilize(context.WithValue(context.Background(), passKey{}, 0)); err != nil {
		problem("initial Stabilize: %v", err)
		return out
	}
	want := make([]int, siblings)
	xf := rng.Range(1001, 1<<20)
	if sc.First {
		vf.Set(xf)
	}
	for i := range vs {
		x := rng.Range(1001, 1<<20)
		vs[i].Set(x)
		want[i] = x + 2
	}
	if !sc.First {
		vf.Set(xf)
	}
	armed.Store(true)
	out.StabNumBefore = eg.StabilizationNum()
	outerCtx := context.WithValue(context.Background(), passKey{}, outerPass)
	var outerErr error
	if sc.Outer == "ParallelStabilize" {
		outerErr = g.ParallelStabilize(outerCtx)
	} else {
		outerErr = g.Stabilize(outerCtx)
	}
	outerReturned.Store(true)
	out.StabNumAfter = eg.StabilizationNum()
	out.OuterErr = errName(outerErr)
	if g.IsStabilizing() {
		problem("IsStabilizing() is true after the outer %s returned", sc.Outer)
	}
	foreign := 0
	for id, name := range map[int]string{nestedSerial: "re-entrant Stabilize", nestedParallel: "re-entrant ParallelStabilize", otherGoroutine: "Stabilize from another goroutine"} {
		if n := tr.startedBy(id); n > 0 {
			out.ForeignRuns[name] = n
			foreign += n
		}
	}
	if foreign > 0 {
		problem("%d node function(s) ran on behalf of a second pass before the outer %s had returned: %v", foreign, sc.Outer, out.ForeignRuns)
	}
	if d := out.StabNumAfter - out.StabNumBefore; d != 1 {
		problem("the stabilization number went from %d to %d during one outer %s (want exactly one step)", out.StabNumBefore, out.StabNumAfter, sc.Outer)
	}
	if outerErr == nil {
		out.Notes = append(out.Notes, "the outer call returned nil although a node function failed")
	}
	if len(out.Visits) == 0 {
		out.Notes = append(out.Notes, "no handler was invoked by the outer pass")
	}
	// the failure is transient: a later pass must be able to finish the work
	armed.Store(false)
	if err := g.Stabilize(context.WithValue(context.Background(), passKey{}, recoveryPass)); err != nil {
		out.Notes = append(out.Notes, "the pass after the failure returned "+errName(err))
	} else if !sc.Clear {
		ok := of.Value() == xf+1
		for i := range ot {
			ok = ok && ot[i].Value() == want[i]
		}
		if !ok {
			out.Notes = append(out.Notes, "observers do not hold the expected values after the pass that followed the failure")
		}
	}
	return out
}

func faultScenarios() []faultScenario {
	var out []faultScenario
	for _, o := range []struct {
		outer string
		p     int
	}{{"Stabilize", 2}, {"ParallelStabilize", 1}, {"ParallelStabilize", 4}} {
		for _, fault := range []string{"panic", "error"} {
			for _, clear := range []bool{false, true} {
				for _, first := range []bool{false, true} {
					out = append(out, faultScenario{Outer: o.outer, P: o.p, Fault: fault, Clear: clear, First: first})
				}
			}
		}
	}
	return out
}

func faultChild(seed uint64) {
	rng := hx.NewRand(seed)
	for _, sc := range faultScenarios() {
		start, _ := json.Marshal(sc)
		fmt.Println("FAULT-START " + string(start))
		watchdog := time.AfterFunc(30*time.Second, func() {
			o := faultOutcome{Scenario: sc, Problems: []string{"the scenario did not finish within 30s (a re-entrant or concurrent call inside a handler never returned?)"}}
			data, _ := json.Marshal(o)
			fmt.Println("FAULT " + string(data))
			os.Exit(0)
		})
		o := runFaultScenario(sc, rng.Fork())
		watchdog.Stop()
		data, _ := json.Marshal(o)
		fmt.Println("FAULT " + string(data))
	}
}

func faultParent(rep *hx.Report, distinct hx.Distinct, seed uint64) {
	cmd := exec.Command(os.Args[0], "-child", "faults", "-seed", fmt.Sprint(seed))
	var stderr strings.Builder
	cmd.Stderr = &stderr
	stdout, err := cmd.StdoutPipe()
	if err != nil {
		fmt.Fprintln(os.Stderr, err)
		os.Exit(2)
	}
	if err := cmd.Start(); err != nil {
		fmt.Fprintln(os.Stderr, err)
		os.Exit(2)
	}
	killed := false
	timer := time.AfterFunc(5*time.Minute, func() { killed = true; _ = cmd.Process.Kill() })
	var last string
	sc := bufio.NewScanner(stdout)
	sc.Buffer(make([]byte, 1<<22), 1<<22)
	sampled := false
	for sc.Scan() {
		line := sc.Text()
		switch {
		case strings.HasPrefix(line, "FAULT-START "):
			last = line[len("FAULT-START "):]
		case strings.HasPrefix(line, "FAULT "):
			var o faultOutcome
			if json.Unmarshal([]byte(line[len("FAULT "):]), &o) != nil {
				continue
			}
			rep.Evaluations++
			name := fmt.Sprintf("%s/p=%d/%s/clear=%v/first=%v", o.Scenario.Outer, o.Scenario.P, o.Scenario.Fault, o.Scenario.Clear, o.Scenario.First)
			rep.Count("fault-" + o.Scenario.Outer + "-" + o.Scenario.Fault)
			for _, v := range o.Visits {
				rep.Count("fault-handler: " + v.Site)
				distinct.Add("fault:" + name + "/" + v.Site)
			}
			for _, n := range o.Notes {
				rep.Notes = append(rep.Notes, "fault scenario "+name+": "+n)
			}
			if len(o.Problems) > 0 {
				probs := o.Problems
				if len(probs) > 6 {
					probs = append(append([]string(nil), probs[:6]...), fmt.Sprintf("... and %d more", len(o.Problems)-6))
				}
				rep.AddViolation(hx.Violation{Property: "C19",
					What: fmt.Sprintf("%s (parallelism %d) over a graph in which one node function fails (%s; clear-heap-on-error=%v; failing node queued first=%v): %s",
						o.Scenario.Outer, o.Scenario.P, o.Scenario.Fault, o.Scenario.Clear, o.Scenario.First, strings.Join(probs, "; ")),
					Key: "fault:" + name, Replay: map[string]any{"kind": "fault", "scenario": o.Scenario, "outcome": o}})
			}
			if !sampled && o.Scenario.Fault == "panic" && o.Scenario.Clear {
				sampled = true
				rep.Samples = append(rep.Samples, map[string]any{"fault": o})
			}
		}
	}
	werr := cmd.Wait()
	timer.Stop()
	if killed {
		werr = errors.New("fault child killed after 5 minutes")
	}
	if werr != nil {
		tail := stderr.String()
		if len(tail) > 1500 {
			tail = tail[:1500]
		}
		var scn any
		_ = json.Unmarshal([]byte(last), &scn)
		rep.AddViolation(hx.Violation{Property: "C19", What: fmt.Sprintf("process died during the fault scenario %s (%v): %s", last, werr, firstLines(tail, 3)),
			Key: "fault:crash", Replay: map[string]any{"kind": "fault", "scenario": scn, "stderr": tail}})
	}
}

// ------------------------------------------------------------------ (c) re-entrant calls

type snapshot struct {
	NumNodes    uint64 `json:"num_nodes"`
	HeapLen     int    `json:"recompute_heap_len"`
	Values      []int  `json:"observer_values"`
	Stabilizing bool   `json:"is_stabilizing"`
}

func (s snapshot) String() string {
	return fmt.Sprintf("{nodes %d, heap %d, values %v, stabilizing %v}", s.NumNodes, s.HeapLen, s.Values, s.Stabilizing)
}

var sites = []string{"node-function", "node-update-handler", "observer-update-handler", "stabilization-start-handler",
	"stabilization-end-handler", "other-goroutine"}

type reentrantOutcome struct {
	Outer, Inner, Site string
	Ran                bool
	InnerErr           string
	Before, After      snapshot
	OuterErr           string
	Problem            string
}

func callPass(g *incr.Graph, parallel bool, ctx context.Context) error {
	if parallel {
		return g.ParallelStabilize(ctx)
	}
	return g.Stabilize(ctx)
}

func passName(parallel bool) string {
	if parallel {
		return "ParallelStabilize"
	}
	return "Stabilize"
}

func reentrantCase(outerPar, innerPar bool, site string, rng *hx.Rand) reentrantOutcome {
	out := reentrantOutcome{Outer: passName(outerPar), Inner: passName(innerPar), Site: site}
	g := incr.New(incr.OptGraphParallelism(2))
	eg := incr.ExpertGraph(g)
	a0, b0 := rng.Range(1, 1000), rng.Range(1, 1000)
	va, vb := incr.Var(g, a0), incr.Var(g, b0)
	var obs []incr.ObserveIncr[int]
	snap := func() snapshot {
		s := snapshot{NumNodes: eg.NumNodes(), HeapLen: eg.RecomputeHeapLen(), Stabilizing: g.IsStabilizing()}
		for _, o := range obs {
			s.Values = append(s.Values, o.Value())
		}
		return s
	}
	armed := false
	inner := func() {
		if !armed {
			return
		}
		armed = false
		out.Ran = true
		out.Before = snap()
		err := callPass(g, innerPar, context.Background())
		out.After = snap()
		switch {
		case err == nil:
			out.InnerErr = "<nil>"
		default:
			out.InnerErr = err.Error()
		}
		if !errors.Is(err, incr.ErrAlreadyStabilizing) {
			out.Problem = fmt.Sprintf("%s called from a %s during %s returned %s, want ErrAlreadyStabilizing", out.Inner, site, out.Outer, out.InnerErr)
		} else if out.Before.String() != out.After.String() {
			out.Problem = fmt.Sprintf("%s called from a %s during %s returned ErrAlreadyStabilizing but changed the graph: %v -> %v", out.Inner, site, out.Outer, out.Before, out.After)
		}
	}
	entered := make(chan struct{})
	release := make(chan struct{})
	ma := incr.MapContext(g, va, func(ctx context.Context, x int) (int, error) {
		if site == "node-function" {
			inner()
		}
		if site == "other-goroutine" && armed {
			close(entered)
			<-release
		}
		return x * 3, nil
	})
	mb := incr.Map(g, vb, func(x int) int { return x + 7 })
	ma.Node().OnUpdate(func(context.Context) {
		if site == "node-update-handler" {
			inner()
		}
	})
	oa, ob := incr.MustObserve(g, ma), incr.MustObserve(g, mb)
	obs = []incr.ObserveIncr[int]{oa, ob}
	oa.OnUpdate(func(context.Context, int) {
		if site == "observer-update-handler" {
			inner()
		}
	})
	g.OnStabilizationStart(func(context.Context) {
		if site == "stabilization-start-handler" {
			inner()
		}
	})
	g.OnStabilizationEnd(func(context.Context, time.Time, error) {
		if site == "stabilization-end-handler" {
			inner()
		}
	})
	if err := g.Stabilize(context.Background()); err != nil {
		out.Problem = "initial Stabilize: " + err.Error()
		return out
	}
	a1 := a0 + rng.Range(1, 1000)
	va.Set(a1)
	armed = true
	outerDone := make(chan error, 1)
	go func() { outerDone <- callPass(g, outerPar, context.Background()) }()
	if site == "other-goroutine" {
		select {
		case <-entered:
			// the outer pass is inside a node function and stays there; call from here
			armed = true
			inner()
			close(release)
		case <-time.After(10 * time.Second):
			out.Problem = "outer pass never reached the node function"
			return out
		}
	}
	select {
	case err := <-outerDone:
		if err != nil {
			out.OuterErr = err.Error()
			if out.Problem == "" {
				out.Problem = fmt.Sprintf("outer %s failed: %v", out.Outer, err)
			}
		}
	case <-time.After(10 * time.Second):
		if out.Problem == "" {
			out.Problem = fmt.Sprintf("outer %s hung after a re-entrant %s from a %s", out.Outer, out.Inner, site)
		}
		return out
	}
	if out.Problem != "" {
		return out
	}
	if !out.Ran {
		out.Problem = "harness: the re-entrant call site was never reached (" + site + ")"
		return out
	}
	if g.IsStabilizing() {
		out.Problem = "IsStabilizing is true after the outer pass returned"
	} else if oa.Value() != a1*3 || ob.Value() != b0+7 {
		out.Problem = fmt.Sprintf("observers hold %d,%d after the outer pass, want %d,%d", oa.Value(), ob.Value(), a1*3, b0+7)
	} else if err := g.Stabilize(context.Background()); err != nil {
		out.Problem = "a later Stabilize fails: " + err.Error()
	}
	return out
}

func reentrant(rep *hx.Report, distinct hx.Distinct, rng *hx.Rand) {
	for _, outerPar := range []bool{false, true} {
		for _, innerPar := range []bool{false, true} {
			for _, site := range sites {
				o := reentrantCase(outerPar, innerPar, site, rng.Fork())
				rep.Evaluations++
				rep.Count("reentrant-" + site)
				if o.Ran {
					distinct.Add("reentrant:" + o.Outer + "/" + o.Inner + "/" + site)
				}
				if o.Problem != "" {
					rep.AddViolation(hx.Violation{Property: "C19", What: o.Problem,
						Key:    fmt.Sprintf("reentrant:%s/%s/%s", o.Outer, o.Inner, site),
						Replay: map[string]any{"kind": "reentrant", "outer": o.Outer, "inner": o.Inner, "site": site, "before": o.Before, "after": o.After, "inner_err": o.InnerErr}})
				}
				if len(rep.Samples) < 2 {
					rep.Samples = append(rep.Samples, map[string]any{"reentrant": o})
				}
			}
		}
	}
}

func main() {
	var (
		seed       = flag.Uint64("seed", 1, "seed")
		rounds     = flag.Int("rounds", 400, "stress rounds")
		goroutines = flag.Int("goroutines", 0, "goroutines per stress round (0: min(8, NumCPU))")
		child      = flag.String("child", "", "internal: run as the stress child")
		jsonOut    = flag.String("json", "", "report file")
	)
	flag.Parse()
	if *goroutines <= 0 {
		*goroutines = runtime.NumCPU()
		if *goroutines > 8 {
			*goroutines = 8
		}
		if *goroutines < 2 {
			*goroutines = 2
		}
	}
	if *child == "stress" {
		stressChild(*seed, *rounds, *goroutines)
		return
	}
	if *child == "cancel" {
		cancelChild(*seed)
		return
	}
	if *child == "faults" {
		faultChild(*seed)
		return
	}
	rep := hx.NewReport("statusrace", *seed)
	rng := hx.NewRand(*seed)
	distinct := hx.Distinct{}
	expertReplay(rep, distinct)
	reentrant(rep, distinct, rng.Fork())
	cancelParent(rep, distinct, rng.Uint64())
	faultParent(rep, distinct, rng.Uint64())
	stressParent(rep, distinct, rng.Uint64(), *rounds, *goroutines)
	rep.Distinct = len(distinct)
	rep.Rule = fmt.Sprintf("expert-API replay of the model's refutation schedule + every interleaving of 2 and of 3 logical callers' "+
		"EnsureNotStabilizing/StabilizeStart/StabilizeEnd (exhaustive: 20 + 1680); re-entrant calls for outer x inner in {Stabilize, ParallelStabilize} x %d call sites; "+
		"%d cancellation scenarios (ParallelStabilize at parallelism 1/2/4 over a gated block of 3p+2 nodes, serial Stabilize over 200 nodes; cancelled before the call, "+
		"by a node function, from another goroutine); %d fault scenarios (a node function panics / returns an error under Stabilize and ParallelStabilize at parallelism 1 and 4, with and without "+
		"clear-heap-on-error; OnError, OnAborted, update and stabilization-end handlers probe the graph from inside); %d stress rounds of %d goroutines released together. Non-trivial = a cancellation scenario in which the cancelled pass started a node function (or was cancelled mid-pass), an interleaving in which some operation runs while another caller is between its "+
		"check and its end, a re-entrant case whose call site was reached, a stress round in which at least one call was turned away, a (fault scenario, handler) pair the library actually invoked", len(sites), len(cancelScenarios()), len(faultScenarios()), *rounds, *goroutines)
	rep.Exhaustive = true
	if *jsonOut != "" {
		if err := rep.Write(*jsonOut); err != nil {
			fmt.Fprintln(os.Stderr, err)
			os.Exit(2)
		}
	}
	fmt.Printf("statusrace: %d runs, %d distinct non-trivial, %d violations\n", rep.Evaluations, rep.Distinct, len(rep.Violations))
}
