// sentineltrace drives sentinels of the real library (incr.Sentinel over Vars and Maps)
// through the public API with random histories of node creation, observe / unobserve,
// Var.Set, Unwatch and passes in which a chosen subset of the sentinels fire. Every history
// is played twice: on one graph with Stabilize and on a second graph (parallelism 4) with
// ParallelStabilize. After every call it records what the public API shows of every node
// (value, registered, in the recompute heap, height, the three stamps and both halves of a
// sentinel's watch edge) and, per pass, which Map functions ran with which argument and
// which predicates were evaluated. It checks the C03 oracle on the observations and writes
// each (history, stabilizer) run as a Gallina case for replay on the Coq model
// (SentinelRun.v).
package main

import (
	"context"
	"errors"
	"flag"
	"fmt"
	"os"
	"sort"
	"strings"
	"sync"
	"time"

	incr "github.com/wcharczuk/go-incr"
	"verifharness/internal/hx"
)

const (
	maxNodes = 10
	maxDepth = 4
)

func zlit(v int64) string { return fmt.Sprintf("(%d)%%Z", v) }

type op struct {
	kind  string // newvar newmap newsent observe unobserve set unwatch stab
	n     int    // target node (input of a map, watched node of a sentinel)
	v     int64
	a, b  int64
	fires []int
	id    int // creating ops: the index of the node they create
	// stab: the sentinels whose predicate returns an error / panics in this pass (disjoint)
	errs, panics []int
}

func nlist(xs []int) string {
	parts := make([]string, len(xs))
	for i, x := range xs {
		parts[i] = fmt.Sprintf("n%d", x)
	}
	return "[" + strings.Join(parts, ",") + "]"
}

func (o op) faulty() bool { return len(o.errs)+len(o.panics) > 0 }

func (o op) String() string {
	switch o.kind {
	case "newvar":
		return fmt.Sprintf("n%d := Var(%d)", o.id, o.v)
	case "newmap":
		return fmt.Sprintf("n%d := Map(n%d, x -> %d*x+%d)", o.id, o.n, o.a, o.b)
	case "newsent":
		return fmt.Sprintf("n%d := Sentinel(watch n%d)", o.id, o.n)
	case "observe":
		return fmt.Sprintf("observe(n%d)", o.n)
	case "unobserve":
		return fmt.Sprintf("unobserve(n%d)", o.n)
	case "set":
		return fmt.Sprintf("n%d.Set(%d)", o.n, o.v)
	case "unwatch":
		return fmt.Sprintf("n%d.Unwatch()", o.n)
	}
	if o.faulty() {
		return "stabilize(fires=" + nlist(o.fires) + ", errs=" + nlist(o.errs) + ", panics=" + nlist(o.panics) + ")"
	}
	return "stabilize(fires=" + nlist(o.fires) + ")"
}

func (o op) coq() string {
	switch o.kind {
	case "newvar":
		return "ONewVar " + zlit(o.v)
	case "newmap":
		return fmt.Sprintf("ONewMap (Aff %s %s) %d%%nat", zlit(o.a), zlit(o.b), o.n)
	case "newsent":
		return fmt.Sprintf("ONewSentinel %d%%nat", o.n)
	case "observe":
		return fmt.Sprintf("OObserve %d%%nat", o.n)
	case "unobserve":
		return fmt.Sprintf("OUnobserve %d%%nat", o.n)
	case "set":
		return fmt.Sprintf("OSetVar %d%%nat %s", o.n, zlit(o.v))
	case "unwatch":
		return fmt.Sprintf("OUnwatch %d%%nat", o.n)
	}
	return "OStabilize " + hx.NatList(o.fires)
}

func replay(ops []op, upto int) map[string]any {
	var calls []string
	for i, o := range ops {
		if upto >= 0 && i > upto {
			break
		}
		calls = append(calls, o.String())
	}
	return map[string]any{"calls": calls,
		"note": "nodes are numbered in creation order; a sentinel's predicate returns true in a pass exactly when the sentinel is listed in fires; " +
			"a sentinel listed in errs returns (false, error) in that pass and one listed in panics panics (SentinelContext); " +
			"Unwatch of a sentinel that is already unwatched is a second Unwatch"}
}

type nodeObs struct {
	val             int64
	reg, queued     bool
	height          int
	rAt, cAt, sAt   uint64
	lchild, lparent bool
	negHeight       bool
}

func (n nodeObs) coq() string {
	return fmt.Sprintf("NObs %s %s %s %d%%nat %d%%nat %d%%nat %d%%nat %s %s", zlit(n.val), hx.Bool(n.reg), hx.Bool(n.queued),
		n.height, n.rAt, n.cAt, n.sAt, hx.Bool(n.lchild), hx.Bool(n.lparent))
}

func (n nodeObs) String() string {
	b := func(x bool) string {
		if x {
			return "T"
		}
		return "f"
	}
	return fmt.Sprintf("val=%-4d reg=%s queued=%s h=%d rAt=%d cAt=%d sAt=%d lchild=%s lparent=%s", n.val, b(n.reg), b(n.queued),
		n.height, n.rAt, n.cAt, n.sAt, b(n.lchild), b(n.lparent))
}

type runRec struct {
	idx int
	arg int64
}

type stepObs struct {
	op    op
	nodes []nodeObs
	runs  []runRec
	evals []int
	// a pass that returned the error of a failing predicate: the nodes stamped with the
	// number of the pass (other than the failing ones) and the predicates that failed
	stopped               bool
	ran, failed, panicked []int
}

// opCoq is the op as this run saw it: a pass that stopped is an OStabilizeStopped.
func (s stepObs) opCoq() string {
	if s.stopped {
		return fmt.Sprintf("OStabilizeStopped %s %s %s %s", hx.NatList(s.op.fires), hx.NatList(s.ran), hx.NatList(s.failed), hx.NatList(s.panicked))
	}
	return s.op.coq()
}

func (s stepObs) obsCoq() string {
	parts := make([]string, len(s.nodes))
	for i, n := range s.nodes {
		parts[i] = n.coq()
	}
	runs := make([]string, len(s.runs))
	for i, r := range s.runs {
		runs[i] = fmt.Sprintf("(%d%%nat, %s)", r.idx, zlit(r.arg))
	}
	return fmt.Sprintf("Obs [%s] [%s] %s", strings.Join(parts, ";\n      "), strings.Join(runs, "; "), hx.NatList(s.evals))
}

func (s stepObs) coq() string { return fmt.Sprintf("(%s,\n    %s)", s.opCoq(), s.obsCoq()) }

// rt is a live node with its handles.
type rt struct {
	kind      string // var map sent
	inode     incr.INode
	v         incr.VarIncr[int64]
	in        incr.Incr[int64] // var or map as an input
	s         incr.SentinelIncr
	input     int // map: its input; sentinel: the watched node
	a, b      int64
	unwatched bool
	observers []incr.ObserveIncr[int64]
}

type violation struct {
	class string
	what  string
	at    int
}

type events struct {
	fireRegMap, reentry, sentOnReg, unwatch, negHeight, consecutive, fireUnregMap, fireVar int

	unwatchTwice, stopped, stoppedErr, stoppedPanic, stoppedMulti, retryAfterStopped, stoppedChain int
}

const (
	modeOK = iota
	modeErr
	modePanic
)

// escaped is a panic that came out of Stabilize / ParallelStabilize itself.
type escaped struct{ rec any }

func (e escaped) Error() string { return fmt.Sprintf("panic: %v", e.rec) }

// propertyOf is the claim a violation class belongs to.
func propertyOf(class string) string {
	if class == "failed-pass-sentinel-not-requeued" {
		return "C07"
	}
	return "C03"
}

func hasID(nodes []incr.INode, id incr.Identifier) bool {
	for _, n := range nodes {
		if n.Node().ID() == id {
			return true
		}
	}
	return false
}

// runCase plays the calls on a fresh graph.
func runCase(ops []op, parallel bool) (trace []stepObs, viol *violation, ev events) {
	ctx := context.Background()
	var g *incr.Graph
	if parallel {
		g = incr.New(incr.OptGraphParallelism(4))
	} else {
		g = incr.New()
	}
	var (
		rts      []*rt
		mu       sync.Mutex
		runs     []runRec
		evals    []int
		fireFlag = map[int]*bool{}
		mode     = map[int]*int{}
		// the predicates that returned an error / panicked in the current pass
		failedInvoked, panickedInvoked []int
		lastStopped                    bool
	)
	fail := func(i int, class, what string) {
		if viol == nil {
			viol = &violation{class, what, i}
		}
	}
	isReg := func(k int) bool {
		r := rts[k]
		if r.kind == "sent" {
			return g.HasSentinel(r.s)
		}
		return g.Has(r.inode)
	}
	var scratch func(k int) int64
	scratch = func(k int) int64 {
		r := rts[k]
		if r.kind == "var" {
			return r.v.Value()
		}
		return r.a*scratch(r.input) + r.b
	}
	everReg := map[int]bool{}
	prevStab := false
	for i, o := range ops {
		so := stepObs{op: o}
		panicked := false
		stop := false
		regBefore := make([]bool, len(rts))
		for k := range rts {
			regBefore[k] = isReg(k)
		}
		func() {
			defer func() {
				if rec := recover(); rec != nil {
					panicked = true
					fail(i, "panic-"+o.kind, fmt.Sprintf("%v panicked: %v", o, rec))
				}
			}()
			switch o.kind {
			case "newvar":
				v := incr.Var(g, o.v)
				rts = append(rts, &rt{kind: "var", inode: v, v: v, in: v})
			case "newmap":
				idx := len(rts)
				a, b := o.a, o.b
				m := incr.Map(g, rts[o.n].in, func(x int64) int64 {
					mu.Lock()
					runs = append(runs, runRec{idx, x})
					mu.Unlock()
					return a*x + b
				})
				rts = append(rts, &rt{kind: "map", inode: m, in: m, input: o.n, a: a, b: b})
			case "newsent":
				idx := len(rts)
				ff := new(bool)
				fireFlag[idx] = ff
				if regBefore[o.n] {
					ev.sentOnReg++
				}
				md := new(int)
				mode[idx] = md
				// the predicate reads the flag and its mode under the same mutex as the logs
				s := incr.SentinelContext(g, func(context.Context) (bool, error) {
					mu.Lock()
					evals = append(evals, idx)
					f, m := *ff, *md
					switch m {
					case modeErr:
						failedInvoked = append(failedInvoked, idx)
					case modePanic:
						panickedInvoked = append(panickedInvoked, idx)
					}
					mu.Unlock()
					switch m {
					case modeErr:
						return false, fmt.Errorf("sentinel n%d fails", idx)
					case modePanic:
						panic(fmt.Sprintf("sentinel n%d panics", idx))
					}
					return f, nil
				}, rts[o.n].inode)
				rts = append(rts, &rt{kind: "sent", inode: s, s: s, input: o.n})
			case "observe":
				r := rts[o.n]
				r.observers = append(r.observers, incr.MustObserve(g, r.in))
			case "unobserve":
				r := rts[o.n]
				ob := r.observers[len(r.observers)-1]
				r.observers = r.observers[:len(r.observers)-1]
				ob.Unobserve(ctx)
			case "set":
				rts[o.n].v.Set(o.v)
			case "unwatch":
				r := rts[o.n]
				if !r.unwatched {
					r.unwatched = true
					ev.unwatch++
					r.s.Unwatch(ctx)
				} else {
					ev.unwatchTwice++
					func() {
						defer func() {
							if rec := recover(); rec != nil {
								panicked = true
								fail(i, "unwatch-twice-panic", fmt.Sprintf("%v on a sentinel that is already unwatched panicked: %v", o, rec))
							}
						}()
						r.s.Unwatch(ctx)
					}()
				}
			case "stab":
				if prevStab {
					ev.consecutive++
				}
				mu.Lock()
				for _, f := range fireFlag {
					*f = false
				}
				for _, x := range o.fires {
					*fireFlag[x] = true
				}
				for _, m := range mode {
					*m = modeOK
				}
				for _, x := range o.errs {
					*mode[x] = modeErr
				}
				for _, x := range o.panics {
					*mode[x] = modePanic
				}
				runs, evals = nil, nil
				failedInvoked, panickedInvoked = nil, nil
				mu.Unlock()
				passNum := incr.ExpertGraph(g).StabilizationNum()
				rAtBefore := make([]uint64, len(rts))
				for k, r := range rts {
					rAtBefore[k] = incr.ExpertNode(r.inode).RecomputedAt()
				}
				type pend struct {
					sent, watched int
					reg, fires    bool
				}
				var live []pend
				for k, r := range rts {
					if r.kind == "sent" && !r.unwatched {
						live = append(live, pend{k, r.input, regBefore[r.input], *fireFlag[k]})
					}
				}
				done := make(chan error, 1)
				go func() {
					defer func() {
						if rec := recover(); rec != nil {
							done <- escaped{rec}
						}
					}()
					if parallel {
						done <- g.ParallelStabilize(ctx)
					} else {
						done <- g.Stabilize(ctx)
					}
				}()
				var err error
				select {
				case err = <-done:
				case <-time.After(20 * time.Second):
					fail(i, "pass-hang", fmt.Sprintf("%v did not return within 20s", o))
					stop = true
					return
				}
				mu.Lock()
				so.runs = append([]runRec(nil), runs...)
				so.evals = append([]int(nil), evals...)
				failed := append([]int(nil), failedInvoked...)
				panicd := append([]int(nil), panickedInvoked...)
				mu.Unlock()
				sort.Ints(failed)
				sort.Ints(panicd)
				if err != nil {
					var esc escaped
					switch {
					case errors.As(err, &esc):
						panicked = true
						fail(i, "panic-stab", fmt.Sprintf("%v panicked: %v", o, err))
						return
					case len(failed)+len(panicd) == 0:
						fail(i, "pass-error", fmt.Sprintf("%v returned %v", o, err))
						return
					}
				} else if len(failed)+len(panicd) > 0 {
					fail(i, "fault-swallowed", fmt.Sprintf("%v returned nil although the predicates of %s returned an error and those of %s panicked in it",
						o, nlist(failed), nlist(panicd)))
				}
				sort.SliceStable(so.runs, func(x, y int) bool {
					if so.runs[x].idx != so.runs[y].idx {
						return so.runs[x].idx < so.runs[y].idx
					}
					return so.runs[x].arg < so.runs[y].arg
				})
				sort.Ints(so.evals)
				if err != nil {
					// a pass stopped by a failing predicate
					so.stopped, so.failed, so.panicked = true, failed, panicd
					ev.stopped++
					if len(failed) > 0 {
						ev.stoppedErr++
					}
					if len(panicd) > 0 {
						ev.stoppedPanic++
					}
					if len(failed)+len(panicd) > 1 {
						ev.stoppedMulti++
					}
					lastStopped = true
					faultyNow := map[int]bool{}
					for _, x := range failed {
						faultyNow[x] = true
					}
					for _, x := range panicd {
						faultyNow[x] = true
					}
					for k, r := range rts {
						if !faultyNow[k] && incr.ExpertNode(r.inode).RecomputedAt() == passNum {
							so.ran = append(so.ran, k)
						}
					}
					// Sentinels sit at height 0: under ParallelStabilize nothing above the failing block runs.
					// Under Stabilize a single-input dependent is recomputed directly after its input
					// (canRecomputeImmediately), ahead of what is still queued at height 0: a Map may run
					// in a stopped pass, but only as part of such a chain -- its input was recomputed in
					// this pass -- and it then carries this pass's stamp (it is listed in ran).
					if len(so.runs) > 0 {
						ev.stoppedChain++
						if parallel {
							fail(i, "stopped-pass-ran-above", fmt.Sprintf("%v returned %v, stopped by the predicates of %s (error) and %s (panic) at height 0, but Map functions ran in it: %v (node, argument)",
								o, err, nlist(failed), nlist(panicd), so.runs))
						}
						for _, rr := range so.runs {
							in := rts[rr.idx].input
							if incr.ExpertNode(rts[rr.idx].inode).RecomputedAt() != passNum || incr.ExpertNode(rts[in].inode).RecomputedAt() != passNum {
								fail(i, "stopped-pass-ran-unchained", fmt.Sprintf("%v returned %v, stopped at height 0, but Map n%d ran in it although its input n%d was not recomputed in this pass",
									o, err, rr.idx, in))
							}
						}
					}
					for k, r := range rts {
						if r.kind == "sent" && !r.unwatched && g.Has(rts[r.input].inode) && !incr.ExpertNode(r.inode).IsInRecomputeHeap() {
							fail(i, "failed-pass-sentinel-not-requeued", fmt.Sprintf("after %v returned %v, sentinel n%d, which watches n%d (in the graph), is not in the recompute heap",
								o, err, k, r.input))
						}
					}
					for _, x := range failed {
						if got := incr.ExpertNode(rts[x].inode).RecomputedAt(); got != rAtBefore[x] {
							fail(i, "stamp-not-restored", fmt.Sprintf("the predicate of sentinel n%d returned an error in %v; its RecomputedAt was %d before the pass and is %d after it",
								x, o, rAtBefore[x], got))
						}
					}
					for _, x := range panicd {
						if got := incr.ExpertNode(rts[x].inode).RecomputedAt(); got != 0 {
							fail(i, "panic-stamp-not-zero", fmt.Sprintf("the predicate of sentinel n%d panicked in %v; its RecomputedAt is %d after the pass, not 0", x, o, got))
						}
					}
					return
				}
				if lastStopped {
					lastStopped = false
					ev.retryAfterStopped++
				}
				runCount := map[int]int{}
				for _, r := range so.runs {
					runCount[r.idx]++
				}
				evalCount := map[int]int{}
				for _, x := range so.evals {
					evalCount[x]++
				}
				for k, c := range runCount {
					if c > 1 {
						fail(i, "ran-twice", fmt.Sprintf("the function of Map n%d ran %d times in one pass", k, c))
					}
				}
				for _, p := range live {
					if p.fires {
						switch {
						case rts[p.watched].kind == "var":
							ev.fireVar++
						case p.reg:
							ev.fireRegMap++
						default:
							ev.fireUnregMap++
						}
					}
					if p.fires && p.reg && rts[p.watched].kind == "map" {
						switch c := runCount[p.watched]; {
						case c == 0:
							fail(i, "sentinel-wake-missed", fmt.Sprintf("sentinel n%d fired in the pass and watches Map n%d, which was in the graph when the pass began, but n%d's function did not run",
								p.sent, p.watched, p.watched))
						case c > 1:
							fail(i, "ran-twice", fmt.Sprintf("Map n%d, watched by the firing sentinel n%d, ran %d times in one pass", p.watched, p.sent, c))
						}
					}
					if p.reg {
						switch c := evalCount[p.sent]; {
						case c == 0:
							fail(i, "sentinel-not-evaluated", fmt.Sprintf("sentinel n%d watches n%d, which was in the graph when the pass began, but its predicate was not evaluated in the pass",
								p.sent, p.watched))
						case c > 1:
							fail(i, "evaluated-twice", fmt.Sprintf("the predicate of sentinel n%d was evaluated %d times in one pass", p.sent, c))
						}
					}
				}
				for k, r := range rts {
					if r.kind == "map" && len(r.observers) > 0 {
						if got, want := r.in.Value(), scratch(k); got != want {
							fail(i, "value-stale", fmt.Sprintf("observed Map n%d reads %d after a successful pass, from scratch it is %d", k, got, want))
						}
					}
				}
			}
		}()
		prevStab = o.kind == "stab"
		if panicked || stop {
			break // the graph is not to be trusted after a panic
		}
		func() {
			defer func() {
				if rec := recover(); rec != nil {
					panicked = true
					fail(i, "panic-read", fmt.Sprintf("reading the nodes after %v panicked: %v", o, rec))
				}
			}()
			for k, r := range rts {
				en := incr.ExpertNode(r.inode)
				no := nodeObs{reg: isReg(k), queued: en.IsInRecomputeHeap(), rAt: en.RecomputedAt(), cAt: en.ChangedAt(), sAt: en.SetAt()}
				if r.kind != "sent" {
					no.val = r.in.Value()
				}
				if no.reg {
					if h := en.Height(); h < 0 {
						no.negHeight = true
						ev.negHeight++
					} else {
						no.height = h
					}
				}
				if r.kind == "sent" && !r.unwatched {
					w := rts[r.input].inode
					no.lchild = hasID(en.Children(), w.Node().ID())
					no.lparent = hasID(incr.ExpertNode(w).Parents(), r.inode.Node().ID())
				}
				if no.reg && r.kind != "sent" {
					if everReg[k] && k < len(regBefore) && !regBefore[k] {
						for _, s := range rts {
							if s.kind == "sent" && !s.unwatched && s.input == k {
								ev.reentry++
								break
							}
						}
					}
					everReg[k] = true
				}
				so.nodes = append(so.nodes, no)
			}
		}()
		if panicked {
			break
		}
		trace = append(trace, so)
	}
	return
}

// gen is the generator's picture of a history so far: enough to emit only valid calls.
type gnode struct {
	kind      string
	input     int
	depth     int
	obs       int
	unwatched bool
}

type gen struct {
	nodes       []gnode
	afterFaulty bool // the last pass generated had a failing predicate
}

func (g *gen) necessary(n int) bool {
	if g.nodes[n].obs > 0 {
		return true
	}
	for k, m := range g.nodes {
		if m.kind == "map" && m.input == n && g.necessary(k) {
			return true
		}
	}
	return false
}

// watchedAbove: n or one of its inputs is watched by a live sentinel.
func (g *gen) watchedAbove(n int) bool {
	for {
		for _, s := range g.nodes {
			if s.kind == "sent" && !s.unwatched && s.input == n {
				return true
			}
		}
		if g.nodes[n].kind != "map" {
			return false
		}
		n = g.nodes[n].input
	}
}

func pickWeighted(r *hx.Rand, cands []int, weight func(int) int) int {
	total := 0
	for _, c := range cands {
		total += weight(c)
	}
	k := r.Intn(total)
	for _, c := range cands {
		k -= weight(c)
		if k < 0 {
			return c
		}
	}
	return cands[len(cands)-1]
}

func genHistory(r *hx.Rand, length int) []op {
	g := &gen{}
	var ops []op
	add := func(o op) {
		switch o.kind {
		case "newvar":
			o.id = len(g.nodes)
			g.nodes = append(g.nodes, gnode{kind: "var"})
		case "newmap":
			o.id = len(g.nodes)
			g.nodes = append(g.nodes, gnode{kind: "map", input: o.n, depth: g.nodes[o.n].depth + 1})
		case "newsent":
			o.id = len(g.nodes)
			g.nodes = append(g.nodes, gnode{kind: "sent", input: o.n})
		case "observe":
			g.nodes[o.n].obs++
		case "unobserve":
			g.nodes[o.n].obs--
		case "unwatch":
			g.nodes[o.n].unwatched = true
		}
		ops = append(ops, o)
	}
	sel := func(pred func(int, gnode) bool) (out []int) {
		for k, n := range g.nodes {
			if pred(k, n) {
				out = append(out, k)
			}
		}
		return
	}
	stab := func() {
		var fires []int
		empty := r.Chance(1, 8)
		for k, n := range g.nodes {
			if n.kind == "sent" && !n.unwatched && !empty && r.Chance(1, 2) {
				fires = append(fires, k)
			}
		}
		var live []int
		for k, n := range g.nodes {
			if n.kind == "sent" && !n.unwatched {
				live = append(live, k)
			}
		}
		// a pass after a faulty one is mostly the fault-free retry
		faulty := false
		if g.afterFaulty {
			faulty = r.Chance(1, 4)
		} else {
			faulty = r.Chance(1, 5)
		}
		var errs, panics []int
		if faulty && len(live) > 0 {
			cnt := 1
			if r.Chance(1, 4) {
				cnt = r.Range(2, 3)
			}
			pool := append([]int(nil), live...)
			for ; cnt > 0 && len(pool) > 0; cnt-- {
				// a sentinel on a node that is in the graph is reached by the pass
				c := pickWeighted(r, pool, func(c int) int {
					if g.necessary(g.nodes[c].input) {
						return 6
					}
					return 1
				})
				for j, x := range pool {
					if x == c {
						pool = append(pool[:j], pool[j+1:]...)
						break
					}
				}
				if r.Chance(1, 2) {
					errs = append(errs, c)
				} else {
					panics = append(panics, c)
				}
			}
			sort.Ints(errs)
			sort.Ints(panics)
		}
		g.afterFaulty = len(errs)+len(panics) > 0
		add(op{kind: "stab", fires: fires, errs: errs, panics: panics})
	}
	for k := r.Range(1, 3); k > 0; k-- {
		add(op{kind: "newvar", v: int64(r.Range(-5, 9))})
	}
	for len(ops) < length {
		switch k := r.Intn(23); {
		case k < 1: // NewVar 1
			if len(g.nodes) < maxNodes && len(sel(func(_ int, n gnode) bool { return n.kind == "var" })) < 4 {
				add(op{kind: "newvar", v: int64(r.Range(-5, 9))})
			}
		case k < 4: // NewMap 3
			if len(g.nodes) >= maxNodes {
				continue
			}
			cands := sel(func(_ int, n gnode) bool { return n.kind != "sent" && n.depth < maxDepth })
			if len(cands) == 0 {
				continue
			}
			// deeper inputs are preferred, so that chains form
			n := pickWeighted(r, cands, func(c int) int { return 1 + 2*g.nodes[c].depth })
			add(op{kind: "newmap", n: n, a: int64(r.Range(-2, 2)), b: int64(r.Range(-3, 3))})
		case k < 7: // NewSentinel 3
			if len(g.nodes) >= maxNodes {
				continue
			}
			cands := sel(func(_ int, n gnode) bool { return n.kind != "sent" })
			if len(sel(func(_ int, n gnode) bool { return n.kind == "map" })) == 0 && r.Chance(2, 3) {
				continue // mostly wait for a Map to watch
			}
			n := pickWeighted(r, cands, func(c int) int {
				w := 1
				if g.nodes[c].kind == "map" {
					w += 4
				}
				if g.necessary(c) {
					w += 3
				}
				return w
			})
			add(op{kind: "newsent", n: n})
		case k < 11: // Observe 4
			cands := sel(func(_ int, n gnode) bool { return n.kind != "sent" && n.obs < 3 })
			if len(cands) == 0 {
				continue
			}
			n := pickWeighted(r, cands, func(c int) int {
				w := 1 + g.nodes[c].depth
				if g.watchedAbove(c) {
					w += 3
				}
				return w
			})
			add(op{kind: "observe", n: n})
		case k < 14: // Unobserve 3
			cands := sel(func(_ int, n gnode) bool { return n.obs > 0 })
			if len(cands) == 0 {
				continue
			}
			n := pickWeighted(r, cands, func(c int) int {
				if g.watchedAbove(c) {
					return 4
				}
				return 1
			})
			add(op{kind: "unobserve", n: n})
			if r.Chance(1, 3) { // leave and come back, possibly with a pass in between
				if r.Chance(1, 2) {
					stab()
				}
				add(op{kind: "observe", n: n})
			}
		case k < 17: // SetVar 3
			cands := sel(func(_ int, n gnode) bool { return n.kind == "var" })
			add(op{kind: "set", n: cands[r.Intn(len(cands))], v: int64(r.Range(-5, 9))})
		case k < 18: // Unwatch 1
			cands := sel(func(_ int, n gnode) bool { return n.kind == "sent" && !n.unwatched })
			if dead := sel(func(_ int, n gnode) bool { return n.kind == "sent" && n.unwatched }); len(dead) > 0 && r.Chance(1, 4) {
				add(op{kind: "unwatch", n: dead[r.Intn(len(dead))]}) // a second Unwatch
				continue
			}
			if len(cands) == 0 {
				continue
			}
			add(op{kind: "unwatch", n: cands[r.Intn(len(cands))]})
		default: // Stabilize 5
			stab()
			if g.afterFaulty {
				if r.Chance(1, 2) {
					stab() // the retry follows at once
				}
			} else if r.Chance(1, 4) {
				stab()
			}
		}
	}
	return ops
}

// sanitize renumbers a sub-sequence of a history (calls keep the labels of the original
// history) and drops the calls that no longer make sense in it.
func sanitize(ops []op) []op {
	remap := map[int]int{}
	g := &gen{}
	var out []op
	for _, o := range ops {
		switch o.kind {
		case "newvar":
			remap[o.id] = len(g.nodes)
			o.id = len(g.nodes)
			g.nodes = append(g.nodes, gnode{kind: "var"})
		case "newmap", "newsent":
			in, ok := remap[o.n]
			if !ok {
				continue
			}
			remap[o.id] = len(g.nodes)
			o.id, o.n = len(g.nodes), in
			g.nodes = append(g.nodes, gnode{kind: map[string]string{"newmap": "map", "newsent": "sent"}[o.kind], input: in})
		case "stab":
			live := func(xs []int) (out []int) {
				for _, x := range xs {
					if y, ok := remap[x]; ok && !g.nodes[y].unwatched {
						out = append(out, y)
					}
				}
				sort.Ints(out)
				return
			}
			o.fires, o.errs, o.panics = live(o.fires), live(o.errs), live(o.panics)
		default:
			n, ok := remap[o.n]
			if !ok {
				continue
			}
			o.n = n
			switch o.kind {
			case "observe":
				g.nodes[n].obs++
			case "unobserve":
				if g.nodes[n].obs == 0 {
					continue
				}
				g.nodes[n].obs--
			case "unwatch":
				if g.nodes[n].kind != "sent" {
					continue
				}
				g.nodes[n].unwatched = true // a second Unwatch of the same sentinel stays
			}
		}
		out = append(out, o)
	}
	return out
}

func ddmin[T any](ops []T, fails func([]T) bool) []T {
	n := 2
	for len(ops) >= 2 {
		chunk := (len(ops) + n - 1) / n
		reduced := false
		for start := 0; start < len(ops); start += chunk {
			end := start + chunk
			if end > len(ops) {
				end = len(ops)
			}
			rest := append(append([]T(nil), ops[:start]...), ops[end:]...)
			if len(rest) > 0 && fails(rest) {
				ops = rest
				if n > 2 {
					n--
				}
				reduced = true
				break
			}
		}
		if !reduced {
			if n >= len(ops) {
				break
			}
			n *= 2
			if n > len(ops) {
				n = len(ops)
			}
		}
	}
	return ops
}

// diverge returns the first step at which the two traces differ, or -1.
func diverge(a, b []stepObs) int {
	for i := 0; i < len(a) && i < len(b); i++ {
		if a[i].obsCoq() != b[i].obsCoq() {
			return i
		}
	}
	if len(a) != len(b) {
		if len(a) < len(b) {
			return len(a)
		}
		return len(b)
	}
	return -1
}

type outcome struct {
	serial, par []stepObs
	viol        *violation
	mode        string // which run the violation belongs to: serial parallel both
	ev          events // of the Stabilize run
	// stopped passes of the ParallelStabilize run, and those in which several predicates failed
	// (Stabilize stops at the first one)
	parStopped, parMulti int
}

func playBoth(ops []op) outcome {
	var o outcome
	var vs, vp *violation
	var evp events
	o.serial, vs, o.ev = runCase(ops, false)
	o.par, vp, evp = runCase(ops, true)
	o.parStopped, o.parMulti = evp.stopped, evp.stoppedMulti
	switch {
	case vs != nil:
		o.viol, o.mode = vs, "Stabilize"
	case vp != nil:
		o.viol, o.mode = vp, "ParallelStabilize"
	case o.ev.stopped+evp.stopped > 0:
		// Stabilize stops at the first failing predicate it reaches, ParallelStabilize runs the
		// whole block of height 0: after a pass that failed the two runs may differ
	default:
		if d := diverge(o.serial, o.par); d >= 0 {
			what := fmt.Sprintf("after call %d the two stabilizers show different states", d)
			if d < len(o.serial) && d < len(o.par) {
				what = fmt.Sprintf("after call %d (%v) Stabilize and ParallelStabilize differ: %s", d, ops[d], firstDiff(o.serial[d], o.par[d]))
			}
			o.viol, o.mode = &violation{"serial-parallel-diverge", what, d}, "both"
		}
	}
	return o
}

func firstDiff(a, b stepObs) string {
	for k := 0; k < len(a.nodes) && k < len(b.nodes); k++ {
		if a.nodes[k].coq() != b.nodes[k].coq() {
			return fmt.Sprintf("n%d serial {%v} parallel {%v}", k, a.nodes[k], b.nodes[k])
		}
	}
	return fmt.Sprintf("logs serial runs=%v evals=%v parallel runs=%v evals=%v", a.runs, a.evals, b.runs, b.evals)
}

func shrink(ops []op, class string) []op {
	fails := func(sub []op) bool {
		o := playBoth(sanitize(sub))
		return o.viol != nil && o.viol.class == class
	}
	return sanitize(ddmin(ops, fails))
}

func show(k int, ops []op, o outcome) {
	fmt.Printf("history %d (coq cases %d = Stabilize, %d = ParallelStabilize), %d calls\n", k, 2*k, 2*k+1, len(ops))
	for i, c := range ops {
		fmt.Printf("step %2d: %v        [%s]\n", i, c, c.coq())
		for _, side := range []struct {
			name string
			tr   []stepObs
		}{{"serial  ", o.serial}, {"parallel", o.par}} {
			if i >= len(side.tr) {
				fmt.Printf("   %s: (not reached)\n", side.name)
				continue
			}
			s := side.tr[i]
			if c.kind == "stab" {
				fmt.Printf("   %s: runs=%v evals=%v\n", side.name, s.runs, s.evals)
				if s.stopped {
					fmt.Printf("   %s: STOPPED  [%s]\n", side.name, s.opCoq())
				}
			}
			for n, no := range s.nodes {
				fmt.Printf("   %s: n%-2d %v\n", side.name, n, no)
			}
		}
	}
	if o.viol != nil {
		fmt.Printf("violation (%s) at step %d: %s: %s\n", o.mode, o.viol.at, o.viol.class, o.viol.what)
	}
}

func main() {
	var (
		count   = flag.Int("n", 300, "number of random histories")
		length  = flag.Int("len", 30, "calls per history")
		seed    = flag.Uint64("seed", 1, "seed")
		coqOut  = flag.String("coq", "", "Gallina cases file to write")
		coqMax  = flag.Int("coqmax", 300, "at most this many histories go to the Gallina file (two cases each)")
		jsonOut = flag.String("json", "", "report file")
		claim   = flag.String("claim", "C03", "claim the report is for")
		showK   = flag.Int("show", -1, "print history K (calls and the observations under both stabilizers) and exit")
	)
	flag.Parse()
	rep := hx.NewReport("sentineltrace", *seed)
	rep.Notes = append(rep.Notes, "claim "+*claim)
	rng := hx.NewRand(*seed)
	distinct := hx.Distinct{}
	seenKeys := map[string]bool{}
	var cases []string
	totalOps, passes := 0, 0
	for k := 0; k < *count; k++ {
		r := rng.Fork()
		ops := genHistory(r, *length)
		o := playBoth(ops)
		if *showK >= 0 {
			if k == *showK {
				show(k, ops, o)
				return
			}
			continue
		}
		rep.Evaluations++
		rep.Count("histories")
		nodes := 0
		for _, s := range o.serial {
			rep.Count("ops")
			rep.Count("op-" + s.op.kind)
			totalOps++
			if s.op.kind == "stab" {
				rep.Count("passes")
				passes++
			}
			nodes = len(s.nodes)
		}
		rep.Sizes[fmt.Sprintf("nodes%d", nodes)]++
		rep.Histogram["fire-registered-map-watched"] += o.ev.fireRegMap
		rep.Histogram["fire-unregistered-map-watched"] += o.ev.fireUnregMap
		rep.Histogram["fire-var-watched"] += o.ev.fireVar
		rep.Histogram["reentry-of-watched-node"] += o.ev.reentry
		rep.Histogram["sentinel-attached-to-registered-node"] += o.ev.sentOnReg
		rep.Histogram["unwatch"] += o.ev.unwatch
		rep.Histogram["reg-negative-height"] += o.ev.negHeight
		rep.Histogram["two-consecutive-stabilize"] += o.ev.consecutive
		rep.Histogram["unwatch-twice"] += o.ev.unwatchTwice
		rep.Histogram["stopped-pass"] += o.ev.stopped
		rep.Histogram["stopped-pass-err"] += o.ev.stoppedErr
		rep.Histogram["stopped-pass-panic"] += o.ev.stoppedPanic
		rep.Histogram["stopped-pass-multi"] += o.ev.stoppedMulti + o.parMulti
		rep.Histogram["retry-after-stopped"] += o.ev.retryAfterStopped
		rep.Histogram["stopped-pass-with-direct-recompute-chain"] += o.ev.stoppedChain
		rep.Histogram["stopped-pass-parallel"] += o.parStopped
		if o.ev.fireRegMap > 0 {
			var b strings.Builder
			for _, s := range o.serial {
				b.WriteString(s.coq())
			}
			distinct.Add(b.String())
		}
		if len(rep.Samples) < 3 {
			rep.Samples = append(rep.Samples, replay(ops, -1))
		}
		if *coqOut != "" && (k < *coqMax || *coqMax <= 0) {
			for _, tr := range [][]stepObs{o.serial, o.par} {
				steps := make([]string, len(tr))
				for i, s := range tr {
					steps[i] = s.coq()
				}
				cases = append(cases, "[\n  "+strings.Join(steps, ";\n  ")+"\n]")
			}
		}
		if o.viol != nil {
			rep.Count("violation-" + o.viol.class)
			key := "sentinel:" + o.viol.class
			if !seenKeys[key] {
				seenKeys[key] = true
				cut := ops
				if o.viol.at+1 < len(cut) {
					cut = cut[:o.viol.at+1]
				}
				small := shrink(cut, o.viol.class)
				so := playBoth(small)
				what, mode := o.viol.what, o.mode
				if so.viol == nil || so.viol.class != o.viol.class {
					small = cut
				} else {
					what, mode = so.viol.what, so.mode
				}
				rp := replay(small, -1)
				rp["stabilizer"] = mode
				rp["history"] = k
				rp["step"] = o.viol.at
				rep.AddViolation(hx.Violation{Property: propertyOf(o.viol.class), What: what, Key: key, Replay: rp})
			}
		}
	}
	if *showK >= 0 {
		fmt.Fprintf(os.Stderr, "no history %d (n=%d)\n", *showK, *count)
		os.Exit(2)
	}
	rep.Distinct = len(distinct)
	rep.Rule = fmt.Sprintf("%d random histories of %d calls over at most %d nodes (vars, affine Maps in chains of depth <= %d, sentinels on vars and Maps, "+
		"several sentinels per node, all made with SentinelContext): NewVar, NewMap, NewSentinel, Observe, Unobserve (often followed by a pass and Observe again), Var.Set, "+
		"Unwatch (about 1 in 4 on a sentinel that is already unwatched, which must be a no-op), "+
		"Stabilize with a random subset of the live sentinels firing; in about 1 pass in 5 one predicate (1 time in 4 two or three) returns an error or panics, "+
		"preferably of a sentinel whose watched node is in the graph, and the pass after such a pass is 3 times in 4 a fault-free retry; "+
		"a pass that returns the error is recorded as OStabilizeStopped fires ran failed panicked (ran = the other nodes stamped with the number of the pass) and is checked for: "+
		"no Map function ran, every live sentinel on a node in the graph is back in the recompute heap (C07), the stamp of an erroring sentinel is restored, that of a panicking one is 0; "+
		"every history is played under Stabilize and, on a second graph with parallelism 4, "+
		"under ParallelStabilize; the two runs are compared step by step only in histories without a stopped pass. Non-trivial = a history with a pass in which a sentinel fired on a Map that was in the graph; distinct by full recorded trace",
		*count, *length, maxNodes, maxDepth)

	if *coqOut != "" {
		rep.CoqCases = len(cases)
		var b strings.Builder
		b.WriteString("From incr Require Import Base Sentinel SentinelRun.\n")
		b.WriteString("Local Open Scope nat_scope.\n")
		names := make([]string, len(cases))
		for i, c := range cases {
			names[i] = fmt.Sprintf("case_%d", i)
			fmt.Fprintf(&b, "Definition case_%d : case := %s.\n", i, c)
		}
		fmt.Fprintf(&b, "Definition cases : list case := [%s].\n", strings.Join(names, "; "))
		b.WriteString("Definition M := Eval vm_compute in mismatches head cases.\nPrint M.\n")
		if err := os.WriteFile(*coqOut, []byte(b.String()), 0o644); err != nil {
			fmt.Fprintln(os.Stderr, err)
			os.Exit(2)
		}
	}
	if *jsonOut != "" {
		if err := rep.Write(*jsonOut); err != nil {
			fmt.Fprintln(os.Stderr, err)
			os.Exit(2)
		}
	}
	fmt.Printf("sentineltrace: %d histories, %d ops, %d passes, %d distinct non-trivial, %d violations, %d coq cases\n",
		rep.Evaluations, totalOps, passes, rep.Distinct, len(rep.Violations), rep.CoqCases)
}
