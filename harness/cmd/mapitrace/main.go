// mapitrace drives the real incrutil/mapi operators through the public API with random
// edit histories, checks after every successful pass that the operator's Value() equals the
// plain, non-incremental computation over the current input (the C17 oracle, evaluated on
// the implementation), and records what each recompute read and produced as a Gallina
// cases file for replay on the Coq model (coq/theories/MapiRun.v).
package main

import (
	"context"
	"flag"
	"fmt"
	"os"
	"sort"
	"strings"
	"sync"

	incr "github.com/wcharczuk/go-incr"
	"github.com/wcharczuk/go-incr/incrutil/mapi"
	"github.com/wcharczuk/go-incr/incrutil/pmap"
	"verifharness/internal/hx"
)

var ctx = context.Background()

const (
	nKeys  = 6  // keys 0..5
	nVals  = 6  // values 0..5
	nInner = 16 // Join: inner vars 0..7, computed inner nodes 8..15
)

// ---------------------------------------------------------------- observables

type entry struct{ K, V int }

// obs is the canonical form of any operator value: a list of sorted (key,value) lists.
type obs [][]entry

func (o obs) coq() string {
	parts := make([]string, len(o))
	for i, l := range o {
		parts[i] = entriesCoq(l)
	}
	return "[" + strings.Join(parts, "; ") + "]"
}

func entriesCoq(l []entry) string {
	es := make([]string, len(l))
	for j, e := range l {
		es[j] = fmt.Sprintf("(%s, %s)", hx.Z(int64(e.K)), hx.Z(int64(e.V)))
	}
	return "[" + strings.Join(es, "; ") + "]"
}

func (o obs) String() string { return fmt.Sprint([][]entry(o)) }

func obsEq(a, b obs) bool {
	if len(a) != len(b) {
		return false
	}
	for i := range a {
		if len(a[i]) != len(b[i]) {
			return false
		}
		for j := range a[i] {
			if a[i][j] != b[i][j] {
				return false
			}
		}
	}
	return true
}

func sortedEntries(m map[int]int) []entry {
	out := make([]entry, 0, len(m))
	for k, v := range m {
		out = append(out, entry{k, v})
	}
	sort.Slice(out, func(i, j int) bool { return out[i].K < out[j].K })
	return out
}

func pmEntries(m pmap.Map[int, int]) []entry { return sortedEntries(pmap.ToGoMap(m)) }

func scalar(v int) obs { return obs{{{0, v}}} }

func canonObs(o obs, canon func(int) int) obs {
	if canon == nil {
		return o
	}
	out := make(obs, len(o))
	for i, l := range o {
		out[i] = make([]entry, len(l))
		for j, e := range l {
			out[i][j] = entry{e.K, canon(e.V)}
		}
	}
	return out
}

func cloneMap(m map[int]int) map[int]int {
	out := make(map[int]int, len(m))
	for k, v := range m {
		out[k] = v
	}
	return out
}

// ---------------------------------------------------------------- parameter families
// (the same formulas as eq_of / f_of / p_of / m_of / comb_of in MapiRun.v)

func eqOf(e int) func(a, b int) bool {
	switch e {
	case 0:
		return func(a, b int) bool { return a == b }
	case 1:
		return nil
	default:
		return func(a, b int) bool { return a/2 == b/2 }
	}
}

// canonOf is the coarsest view of a value that an equality kind can still tell apart.
func canonOf(e int) func(int) int {
	switch e {
	case 0:
		return nil
	case 1:
		return func(int) int { return 0 }
	default:
		return func(v int) int { return v / 2 }
	}
}

type fparams [4]int // a b c d : f k v = a*k + b*(v/d) + c

func (p fparams) coq() string { return fmt.Sprintf("(%d, %d, %d, %d)", p[0], p[1], p[2], p[3]) }
func fOf(p fparams) func(k, v int) int {
	return func(k, v int) int { return p[0]*k + p[1]*(v/p[3]) + p[2] }
}

type pparams [5]int // pk pv d pm pr : (pk*k + pv*(v/d)) % pm == pr

func (p pparams) coq() string {
	return fmt.Sprintf("(%d, %d, %d, %d, %d)", p[0], p[1], p[2], p[3], p[4])
}
func pOf(p pparams) func(k, v int) bool {
	return func(k, v int) bool { return (p[0]*k+p[1]*(v/p[2]))%p[3] == p[4] }
}

type mparams [8]int // la lz ra rz ka d pm pr

func (p mparams) coq() string {
	return fmt.Sprintf("(%d, %d, %d, %d, %d, %d, %d, %d)", p[0], p[1], p[2], p[3], p[4], p[5], p[6], p[7])
}
func mPlain(p mparams, k int, l int, hasL bool, r int, hasR bool) (int, bool) {
	s := p[4] * k
	if hasL {
		s += p[0] * (l / p[5])
	} else {
		s += p[1]
	}
	if hasR {
		s += p[2] * (r / p[5])
	} else {
		s += p[3]
	}
	return s, s%p[6] != p[7]
}

func combOf(c int) func(x, y int) int {
	switch c {
	case 0:
		return func(x, y int) int { return x + y }
	case 1:
		return func(x, y int) int { return max(x, y) }
	case 2:
		return func(x, y int) int { return x }
	case 3:
		return func(x, y int) int { return y }
	default:
		return func(x, y int) int { return min(x, y) }
	}
}

// does a per-entry computation using v only through v/d with weight b respect equality kind e?
func respectsEq(e, b, d int) bool { return e == 0 || b == 0 || (e == 2 && d == 2) }

func genF(r *hx.Rand, e int, wantRespect bool) fparams {
	for {
		p := fparams{r.Intn(3), r.Intn(4), r.Intn(3), r.Range(1, 3)}
		if respectsEq(e, p[1], p[3]) == wantRespect || (e == 0) {
			return p
		}
	}
}

func genP(r *hx.Rand, e int, wantRespect bool) pparams {
	for {
		pm := r.Range(2, 3)
		p := pparams{r.Intn(3), r.Intn(3), r.Range(1, 3), pm, r.Intn(pm)}
		if respectsEq(e, p[1], p[2]) == wantRespect || (e == 0) {
			return p
		}
	}
}

// ---------------------------------------------------------------- edits and histories

type edit struct {
	Kind string      `json:"kind"` // set del rebuild touch bounds pass unobs obs select sobs sunobs inner
	Side int         `json:"side,omitempty"`
	K    int         `json:"k,omitempty"`
	V    int         `json:"v,omitempty"`
	M    map[int]int `json:"m,omitempty"`
	Lo   int         `json:"lo,omitempty"`
	Hi   int         `json:"hi,omitempty"`
	Par  bool        `json:"par,omitempty"` // pass: ParallelStabilize (parallelism 4) instead of Stabilize
}

func (e edit) String() string {
	side := "L"
	if e.Side == 1 {
		side = "R"
	}
	switch e.Kind {
	case "set":
		return fmt.Sprintf("set%s[%d]=%d", side, e.K, e.V)
	case "del":
		return fmt.Sprintf("del%s[%d]", side, e.K)
	case "rebuild":
		return fmt.Sprintf("rebuild%s%v", side, sortedEntries(e.M))
	case "touch":
		return "touch" + side
	case "bounds":
		return fmt.Sprintf("bounds[%d,%d]", e.Lo, e.Hi)
	case "select", "sobs", "sunobs":
		return fmt.Sprintf("%s(%d)", e.Kind, e.K)
	case "pass":
		if e.Par {
			return "parallel-pass"
		}
		return "pass"
	case "inner":
		return fmt.Sprintf("inner%d.Set(%d)", e.K, e.V)
	case "base":
		return fmt.Sprintf("base%d.Set(%d)", e.K, e.V)
	case "fault":
		return fmt.Sprintf("arm-fault(fn panics on key %d)", e.K)
	}
	return e.Kind
}

// joinStrings renders Join histories: the outer map binds keys to inner vars.
func joinStrings(es []edit) []string {
	out := make([]string, len(es))
	for i, e := range es {
		switch e.Kind {
		case "set":
			out[i] = fmt.Sprintf("outer[%d]=inner%d", e.K, e.V)
		case "del":
			out[i] = fmt.Sprintf("delete(outer,%d)", e.K)
		case "rebuild":
			parts := []string{}
			for _, en := range sortedEntries(e.M) {
				parts = append(parts, fmt.Sprintf("%d:inner%d", en.K, en.V))
			}
			out[i] = "outer=fresh{" + strings.Join(parts, " ") + "}"
		case "unobs":
			out[i] = "unobserve(join)"
		case "obs":
			out[i] = "observe(join)"
		default:
			out[i] = e.String()
		}
	}
	return out
}

func editStrings(es []edit) []string {
	out := make([]string, len(es))
	for i, e := range es {
		out[i] = e.String()
	}
	return out
}

type inputs struct {
	L, R   map[int]int
	Lo, Hi int
}

func (in inputs) clone() inputs { return inputs{cloneMap(in.L), cloneMap(in.R), in.Lo, in.Hi} }
func (in inputs) coq() string {
	return fmt.Sprintf("(%s, %s, (%s, %s))", entriesCoq(sortedEntries(in.L)), entriesCoq(sortedEntries(in.R)),
		hx.Z(int64(in.Lo)), hx.Z(int64(in.Hi)))
}

type failure struct {
	pass      int // index of the failing pass edit
	got, want obs
	what      string
}

// ---------------------------------------------------------------- simple operators

type world struct {
	g       *incr.Graph
	left    incr.VarIncr[pmap.Map[int, int]]
	right   incr.VarIncr[pmap.Map[int, int]]
	goleft  incr.VarIncr[map[int]int]
	bounds  incr.VarIncr[mapi.Bounds[int]]
	node    incr.INode
	observe func() func()
	read    func() obs
	// fault injection: the operator's user function panics once, on one chosen key
	faultArmed bool
	faultKey   int
	faultFired bool
}

// hit is called by every user function handed to an operator, with the key it was called for.
func (w *world) hit(k int) {
	if w.faultArmed && k == w.faultKey {
		w.faultArmed, w.faultFired = false, true
		panic(fmt.Sprintf("injected fault: user function called for key %d", k))
	}
}

type opSpec struct {
	name       string
	coq        string
	respects   bool // (equal, fn) satisfy the documented contract, so the C17 oracle applies
	usesRight  bool
	usesBounds bool
	goMap      bool
	userFn     bool          // the operator takes a user function, so fault episodes apply
	canon      func(int) int // raw-value outputs under a coarse equal are compared through this
	build      func(w *world)
	plain      func(prev, cur inputs) obs
}

func observeFn[T any](g *incr.Graph, n incr.Incr[T]) func() func() {
	return func() func() {
		o := incr.MustObserve(g, n)
		return func() { o.Unobserve(ctx) }
	}
}

func diffPlain(eq func(a, b int) bool, m, m2 map[int]int) (added, removed, updated map[int]int) {
	added, removed, updated = map[int]int{}, map[int]int{}, map[int]int{}
	for k, v := range m2 {
		if old, ok := m[k]; !ok {
			added[k] = v
		} else if eq != nil && !eq(old, v) {
			updated[k] = v
		}
	}
	for k, v := range m {
		if _, ok := m2[k]; !ok {
			removed[k] = v
		}
	}
	return
}

func genSpec(r *hx.Rand, kind string) opSpec {
	e := r.Intn(3)
	want := !r.Chance(1, 4) // three quarters of the parameter choices respect the equality
	switch kind {
	case "MapValues":
		fp := genF(r, e, want)
		return opSpec{name: kind, coq: fmt.Sprintf("KMapValues %d %s", e, fp.coq()), userFn: true, respects: respectsEq(e, fp[1], fp[3]),
			build: func(w *world) {
				n := mapi.MapValues(w.g, w.left, eqOf(e), func(k, v int) int { w.hit(k); return fOf(fp)(k, v) })
				w.node, w.observe, w.read = n, observeFn(w.g, n), func() obs { return obs{pmEntries(n.Value())} }
			},
			plain: func(_, cur inputs) obs {
				out := map[int]int{}
				for k, v := range cur.L {
					out[k] = fOf(fp)(k, v)
				}
				return obs{sortedEntries(out)}
			}}
	case "FilterMapValues":
		fp, pp := genF(r, e, want), genP(r, e, want)
		return opSpec{name: kind, coq: fmt.Sprintf("KFilterMapValues %d %s %s", e, fp.coq(), pp.coq()), userFn: true,
			respects: respectsEq(e, fp[1], fp[3]) && respectsEq(e, pp[1], pp[2]),
			build: func(w *world) {
				n := mapi.FilterMapValues(w.g, w.left, eqOf(e), func(k, v int) (int, bool) { w.hit(k); return fOf(fp)(k, v), pOf(pp)(k, v) })
				w.node, w.observe, w.read = n, observeFn(w.g, n), func() obs { return obs{pmEntries(n.Value())} }
			},
			plain: func(_, cur inputs) obs {
				out := map[int]int{}
				for k, v := range cur.L {
					if pOf(pp)(k, v) {
						out[k] = fOf(fp)(k, v)
					}
				}
				return obs{sortedEntries(out)}
			}}
	case "Merge":
		eR := r.Intn(3)
		var mp mparams
		for {
			pm := r.Range(2, 3)
			mp = mparams{r.Intn(3), r.Intn(3), r.Intn(3), r.Intn(3), r.Intn(2), r.Range(1, 3), pm, r.Intn(pm)}
			if (respectsEq(e, mp[0], mp[5]) && respectsEq(eR, mp[2], mp[5])) == want || (e == 0 && eR == 0) {
				break
			}
		}
		return opSpec{name: kind, coq: fmt.Sprintf("KMerge %d %d %s", e, eR, mp.coq()), userFn: true, usesRight: true,
			respects: respectsEq(e, mp[0], mp[5]) && respectsEq(eR, mp[2], mp[5]),
			build: func(w *world) {
				n := mapi.Merge(w.g, w.left, w.right, eqOf(e), eqOf(eR), func(k int, el mapi.MergeElement[int, int]) (int, bool) {
					w.hit(k)
					return mPlain(mp, k, el.Left, el.HasLeft, el.Right, el.HasRight)
				})
				w.node, w.observe, w.read = n, observeFn(w.g, n), func() obs { return obs{pmEntries(n.Value())} }
			},
			plain: func(_, cur inputs) obs {
				out := map[int]int{}
				for k := 0; k < nKeys; k++ {
					l, hasL := cur.L[k]
					rv, hasR := cur.R[k]
					if !hasL && !hasR {
						continue
					}
					if s, ok := mPlain(mp, k, l, hasL, rv, hasR); ok {
						out[k] = s
					}
				}
				return obs{sortedEntries(out)}
			}}
	case "UnorderedFold":
		fp := genF(r, e, want)
		initial := r.Intn(3)
		return opSpec{name: kind, coq: fmt.Sprintf("KUnorderedFold %d %d %s", e, initial, fp.coq()), userFn: true, respects: respectsEq(e, fp[1], fp[3]),
			build: func(w *world) {
				n := mapi.UnorderedFold(w.g, w.left, initial, eqOf(e),
					func(acc, k, v int) int { w.hit(k); return acc + fOf(fp)(k, v) },
					func(acc, k, v int) int { w.hit(k); return acc - fOf(fp)(k, v) })
				w.node, w.observe, w.read = n, observeFn(w.g, n), func() obs { return scalar(n.Value()) }
			},
			plain: func(_, cur inputs) obs {
				acc := initial
				for k, v := range cur.L {
					acc += fOf(fp)(k, v)
				}
				return scalar(acc)
			}}
	case "Sum":
		return opSpec{name: kind, coq: fmt.Sprintf("KSum %d", e), respects: e == 0,
			build: func(w *world) {
				n := mapi.Sum(w.g, w.left, eqOf(e))
				w.node, w.observe, w.read = n, observeFn(w.g, n), func() obs { return scalar(n.Value()) }
			},
			plain: func(_, cur inputs) obs {
				acc := 0
				for _, v := range cur.L {
					acc += v
				}
				return scalar(acc)
			}}
	case "Cardinality":
		return opSpec{name: kind, coq: "KCardinality", respects: true,
			build: func(w *world) {
				n := mapi.Cardinality(w.g, w.left)
				w.node, w.observe, w.read = n, observeFn(w.g, n), func() obs { return scalar(n.Value()) }
			},
			plain: func(_, cur inputs) obs { return scalar(len(cur.L)) }}
	case "Counti":
		pp := genP(r, e, want)
		return opSpec{name: kind, coq: fmt.Sprintf("KCounti %d %s", e, pp.coq()), userFn: true, respects: respectsEq(e, pp[1], pp[2]),
			build: func(w *world) {
				n := mapi.Counti(w.g, w.left, eqOf(e), func(k, v int) bool { w.hit(k); return pOf(pp)(k, v) })
				w.node, w.observe, w.read = n, observeFn(w.g, n), func() obs { return scalar(n.Value()) }
			},
			plain: func(_, cur inputs) obs {
				c := 0
				for k, v := range cur.L {
					if pOf(pp)(k, v) {
						c++
					}
				}
				return scalar(c)
			}}
	case "Reduce":
		fp := fparams{r.Intn(3), r.Intn(4), r.Intn(3), 1}
		comb, empty := r.Intn(5), r.Intn(3)-1
		return opSpec{name: kind, coq: fmt.Sprintf("KReduce %s %s %d", hx.Z(int64(empty)), fp.coq(), comb), userFn: true, respects: true,
			build: func(w *world) {
				n := mapi.Reduce(w.g, w.left, empty, func(k, v int) int { w.hit(k); return fOf(fp)(k, v) }, combOf(comb))
				w.node, w.observe, w.read = n, observeFn(w.g, n), func() obs { return scalar(n.Value()) }
			},
			plain: func(_, cur inputs) obs {
				es := sortedEntries(cur.L)
				if len(es) == 0 {
					return scalar(empty)
				}
				acc := fOf(fp)(es[0].K, es[0].V)
				for _, en := range es[1:] {
					acc = combOf(comb)(acc, fOf(fp)(en.K, en.V))
				}
				return scalar(acc)
			}}
	case "MaxValue", "MinValue":
		isMax := kind == "MaxValue"
		return opSpec{name: kind, coq: "K" + kind, respects: true,
			build: func(w *world) {
				var n incr.Incr[mapi.Optional[int]]
				if isMax {
					n = mapi.MaxValue(w.g, w.left)
				} else {
					n = mapi.MinValue(w.g, w.left)
				}
				w.node, w.observe = n, observeFn(w.g, n)
				w.read = func() obs {
					v := n.Value()
					p := 0
					if v.Present {
						p = 1
					}
					return obs{{{v.Value, p}}}
				}
			},
			plain: func(_, cur inputs) obs {
				if len(cur.L) == 0 {
					return obs{{{0, 0}}}
				}
				first, best := true, 0
				for _, v := range cur.L {
					if first || (isMax && v > best) || (!isMax && v < best) {
						best, first = v, false
					}
				}
				return obs{{{best, 1}}}
			}}
	case "Subrange":
		return opSpec{name: kind, coq: fmt.Sprintf("KSubrange %d", e), respects: true, usesBounds: true, canon: canonOf(e),
			build: func(w *world) {
				n := mapi.Subrange(w.g, w.left, w.bounds, eqOf(e))
				w.node, w.observe, w.read = n, observeFn(w.g, n), func() obs { return obs{pmEntries(n.Value())} }
			},
			plain: func(_, cur inputs) obs {
				out := map[int]int{}
				for k, v := range cur.L {
					if cur.Lo <= k && k <= cur.Hi {
						out[k] = v
					}
				}
				return obs{sortedEntries(out)}
			}}
	case "Partition":
		pp := genP(r, e, want)
		return opSpec{name: kind, coq: fmt.Sprintf("KPartition %d %s", e, pp.coq()), userFn: true, respects: respectsEq(e, pp[1], pp[2]), canon: canonOf(e),
			build: func(w *world) {
				n := mapi.Partition(w.g, w.left, eqOf(e), func(k, v int) bool { w.hit(k); return pOf(pp)(k, v) })
				w.node, w.observe = n, observeFn(w.g, n)
				w.read = func() obs { return obs{pmEntries(n.Value().Matching), pmEntries(n.Value().NotMatching)} }
			},
			plain: func(_, cur inputs) obs {
				yes, no := map[int]int{}, map[int]int{}
				for k, v := range cur.L {
					if pOf(pp)(k, v) {
						yes[k] = v
					} else {
						no[k] = v
					}
				}
				return obs{sortedEntries(yes), sortedEntries(no)}
			}}
	case "Keys":
		return opSpec{name: kind, coq: "KKeys", respects: true,
			build: func(w *world) {
				n := mapi.Keys(w.g, w.left)
				w.node, w.observe = n, observeFn(w.g, n)
				w.read = func() obs {
					var l []entry
					for _, k := range n.Value() {
						l = append(l, entry{k, 0}) // in the order the node holds them: must be sorted
					}
					return obs{l}
				}
			},
			plain: func(_, cur inputs) obs {
				l := sortedEntries(cur.L)
				for i := range l {
					l[i].V = 0
				}
				return obs{l}
			}}
	case "Changes":
		return opSpec{name: kind, coq: fmt.Sprintf("KChanges %d", e), respects: true,
			build: func(w *world) {
				n := mapi.Changes(w.g, w.left, eqOf(e))
				w.node, w.observe = n, observeFn(w.g, n)
				w.read = func() obs {
					v := n.Value()
					return obs{pmEntries(v.Added), pmEntries(v.Removed), pmEntries(v.Updated)}
				}
			},
			plain: func(prev, cur inputs) obs {
				a, rm, u := diffPlain(eqOf(e), prev.L, cur.L)
				return obs{sortedEntries(a), sortedEntries(rm), sortedEntries(u)}
			}}
	case "Added":
		return opSpec{name: kind, coq: "KAdded", respects: true, goMap: true,
			build: func(w *world) {
				n := mapi.Added(w.g, incr.Incr[map[int]int](w.goleft))
				w.node, w.observe, w.read = n, observeFn(w.g, n), func() obs { return obs{sortedEntries(n.Value())} }
			},
			plain: func(prev, cur inputs) obs {
				a, _, _ := diffPlain(nil, prev.L, cur.L)
				return obs{sortedEntries(a)}
			}}
	case "Removed":
		return opSpec{name: kind, coq: "KRemoved", respects: true, goMap: true,
			build: func(w *world) {
				n := mapi.Removed(w.g, incr.Incr[map[int]int](w.goleft))
				w.node, w.observe, w.read = n, observeFn(w.g, n), func() obs { return obs{sortedEntries(n.Value())} }
			},
			plain: func(prev, cur inputs) obs {
				_, rm, _ := diffPlain(nil, prev.L, cur.L)
				return obs{sortedEntries(rm)}
			}}
	}
	panic("unknown operator " + kind)
}

// dependsOnPrevious: the operator's value is a function of the inputs at its last TWO recomputes.
func dependsOnPrevious(name string) bool {
	return name == "Changes" || name == "Added" || name == "Removed"
}

type step struct {
	in  inputs
	out obs
}

type simpleResult struct {
	steps        []step
	fail         *failure
	schedule     int // passes where the predicted recompute schedule was off (harness self-check)
	recomputes   int
	changedSteps int
	failedPasses int // passes that returned an error because the injected fault fired
	faultsIdle   int // armed faults whose key the function was not called for
}

const parallelism = 4

func newGraph() *incr.Graph { return incr.New(incr.OptGraphParallelism(parallelism)) }

// stabilize runs one pass with the stabilizer the history chose for it.
func stabilize(g *incr.Graph, parallel bool) (err error) {
	defer func() {
		if r := recover(); r != nil {
			err = fmt.Errorf("panic: %v", r)
		}
	}()
	if parallel {
		return g.ParallelStabilize(ctx)
	}
	return g.Stabilize(ctx)
}

// chooseStabilizers decides, from the seed, which stabilizer each pass of a history uses: a
// quarter of the histories are all serial, a quarter all parallel, the rest mix them pass by pass.
func chooseStabilizers(r *hx.Rand, edits []edit, rep *hx.Report) {
	mode := r.Intn(4)
	for i := range edits {
		if edits[i].Kind != "pass" {
			continue
		}
		edits[i].Par = mode == 1 || (mode >= 2 && r.Chance(1, 2))
		if edits[i].Par {
			rep.Count("stabilizer:ParallelStabilize(4)")
		} else {
			rep.Count("stabilizer:Stabilize")
		}
	}
	rep.Count([]string{"history-stabilizers:all-serial", "history-stabilizers:all-parallel", "history-stabilizers:mixed", "history-stabilizers:mixed"}[mode])
}

func sameContents(a, b inputs) bool {
	return obsEq(obs{sortedEntries(a.L), sortedEntries(a.R), {{a.Lo, a.Hi}}}, obs{sortedEntries(b.L), sortedEntries(b.R), {{b.Lo, b.Hi}}})
}

// runSimple builds a fresh graph and applies the edits to the real operator.
func runSimple(spec opSpec, edits []edit) simpleResult {
	var res simpleResult
	w := &world{g: newGraph()}
	w.left = incr.Var(w.g, pmap.New[int, int]())
	w.right = incr.Var(w.g, pmap.New[int, int]())
	w.goleft = incr.Var(w.g, map[int]int{})
	w.bounds = incr.Var(w.g, mapi.Bounds[int]{Low: 0, High: nKeys})
	spec.build(w)
	cur := inputs{L: map[int]int{}, R: map[int]int{}, Lo: 0, Hi: nKeys}
	seen := inputs{L: map[int]int{}, R: map[int]int{}} // inputs at the last recompute
	prevSeen := seen                                   // and at the one before
	unobserve := w.observe()
	observed, fresh, dirty := true, true, false
	setSide := func(side int, m map[int]int, rebuilt bool, mutate func(pmap.Map[int, int]) pmap.Map[int, int]) {
		if spec.goMap {
			w.goleft.Set(cloneMap(m))
			return
		}
		v := w.left
		if side == 1 {
			v = w.right
		}
		if rebuilt {
			v.Set(pmap.FromGoMap(m)) // shares nothing with the previous version
		} else {
			v.Set(mutate(v.Value()))
		}
	}
	for i, e := range edits {
		side := e.Side
		if !spec.usesRight {
			side = 0
		}
		target := cur.L
		if side == 1 {
			target = cur.R
		}
		switch e.Kind {
		case "set":
			target[e.K] = e.V
			setSide(side, target, false, func(m pmap.Map[int, int]) pmap.Map[int, int] { return m.Set(e.K, e.V) })
			dirty = true
		case "del":
			delete(target, e.K)
			setSide(side, target, false, func(m pmap.Map[int, int]) pmap.Map[int, int] { return m.Delete(e.K) })
			dirty = true
		case "rebuild":
			if side == 1 {
				cur.R = cloneMap(e.M)
				target = cur.R
			} else {
				cur.L = cloneMap(e.M)
				target = cur.L
			}
			setSide(side, target, true, nil)
			dirty = true
		case "touch":
			setSide(side, target, false, func(m pmap.Map[int, int]) pmap.Map[int, int] { return m })
			dirty = true
		case "bounds":
			if spec.usesBounds {
				cur.Lo, cur.Hi = e.Lo, e.Hi
				w.bounds.Set(mapi.Bounds[int]{Low: e.Lo, High: e.Hi})
				dirty = true
			}
		case "unobs":
			if observed {
				unobserve()
				observed = false
			}
		case "obs":
			if !observed {
				unobserve = w.observe()
				observed, fresh = true, true
			}
		case "fault":
			// the user function will panic the next time it is called for this key
			w.faultArmed, w.faultKey, w.faultFired = true, e.K, false
		case "pass":
			before := incr.ExpertNode(w.node).NumRecomputes()
			err := stabilize(w.g, e.Par)
			fired, idle := w.faultFired, w.faultArmed
			w.faultArmed, w.faultFired = false, false
			if idle {
				res.faultsIdle++ // armed, but the function was not called for that key in this pass
			}
			if fired {
				if err == nil {
					res.fail = &failure{pass: i, what: "the pass returned nil although the user function panicked in it"}
					return res
				}
				// a failed pass: nothing is promised about the value; the node stays queued and the
				// next pass has to bring everything up to date
				res.failedPasses++
				dirty = true
				continue
			}
			if err != nil {
				res.fail = &failure{pass: i, what: "Stabilize failed: " + err.Error()}
				return res
			}
			recomputed := incr.ExpertNode(w.node).NumRecomputes() != before
			if recomputed != (observed && (dirty || fresh)) {
				res.schedule++
			}
			if observed {
				dirty, fresh = false, false
			}
			got := w.read()
			if recomputed {
				res.recomputes++
				if !sameContents(seen, cur) {
					res.changedSteps++
				}
				prevSeen, seen = seen, cur.clone()
				res.steps = append(res.steps, step{seen, got})
			}
			if observed && spec.respects {
				want := spec.plain(prevSeen, cur)
				if dependsOnPrevious(spec.name) {
					// "the difference between the input at its previous and at its current recompute"
					want = spec.plain(prevSeen, seen)
				}
				if !obsEq(canonObs(got, spec.canon), canonObs(want, spec.canon)) {
					res.fail = &failure{pass: i, got: got, want: want, what: "value differs from the plain definition on the current input"}
					return res
				}
			}
		}
	}
	return res
}

func randMap(r *hx.Rand) map[int]int {
	m := map[int]int{}
	for k := 0; k < nKeys; k++ {
		if r.Chance(1, 2) {
			m[k] = r.Intn(nVals)
		}
	}
	return m
}

func randEdit(r *hx.Rand, side int) edit {
	if r.Chance(3, 10) {
		return edit{Kind: "del", Side: side, K: r.Intn(nKeys)}
	}
	return edit{Kind: "set", Side: side, K: r.Intn(nKeys), V: r.Intn(nVals)}
}

// genEpisodes appends episodes of edits, each ending in a pass, and counts their kinds.
// faults: the history also gets fault episodes (the operator's user function panics in a pass)
func genSimple(r *hx.Rand, spec opSpec, episodes int, faults bool, rep *hx.Report) []edit {
	var out []edit
	side := func() int {
		if spec.usesRight && r.Chance(1, 2) {
			return 1
		}
		return 0
	}
	some := func(lo, hi int) {
		for n := r.Range(lo, hi); n > 0; n-- {
			out = append(out, randEdit(r, side()))
		}
	}
	for ep := 0; ep < episodes; ep++ {
		if faults && r.Chance(3, 10) {
			// several keys are edited, the user function panics on one of them, the pass fails;
			// then fault-free passes, with or without further edits
			rep.Count("episode:fault(user-fn-panics-on-one-key)->failed-pass->fault-free-passes")
			var keys []int
			for n := r.Range(2, 5); n > 0; n-- {
				e := randEdit(r, side())
				out = append(out, e)
				if e.Kind == "set" || r.Chance(1, 3) {
					keys = append(keys, e.K)
				}
			}
			if len(keys) == 0 {
				e := edit{Kind: "set", Side: side(), K: r.Intn(nKeys), V: r.Intn(nVals)}
				out = append(out, e)
				keys = append(keys, e.K)
			}
			key := keys[r.Intn(len(keys))]
			out = append(out, edit{Kind: "fault", K: key}, edit{Kind: "pass"})
			switch r.Intn(4) {
			case 0:
				rep.Count("episode-step:after-the-failed-pass:more-edits-on-other-keys")
				some(1, 2)
			case 1:
				rep.Count("episode-step:after-the-failed-pass:the-faulting-key-is-edited-again")
				out = append(out, edit{Kind: "set", Side: side(), K: key, V: r.Intn(nVals)})
			default:
				rep.Count("episode-step:after-the-failed-pass:no-further-edits")
			}
			if r.Chance(1, 3) {
				out = append(out, edit{Kind: "pass"})
			}
			out = append(out, edit{Kind: "pass"})
			continue
		}
		if r.Chance(1, 12) {
			// the input is emptied, a pass runs on the empty map, then (most of) the old contents come
			// back: keys return with the value they had before -- an operator must not diff the refilled
			// map against what it saw before the map was emptied
			rep.Count("episode:emptied->pass->refilled-with-the-old-contents")
			sd := side()
			out = append(out, edit{Kind: "rebuild", Side: sd, M: map[int]int{}, Hi: markSave}, edit{Kind: "pass"})
			if r.Chance(1, 3) {
				out = append(out, edit{Kind: "pass"})
			}
			out = append(out, edit{Kind: "rebuild", Side: sd, M: nil, Hi: markRestore})
			for n := r.Range(0, 2); n > 0; n-- {
				out = append(out, randEdit(r, sd))
			}
			out = append(out, edit{Kind: "pass"})
			continue
		}
		k := r.Intn(100)
		switch {
		case k < 25:
			rep.Count("episode:single-edit")
			some(1, 1)
		case k < 50:
			rep.Count("episode:many-keys")
			some(2, 7)
		case k < 60:
			rep.Count("episode:rebuilt-unrelated-map")
			out = append(out, edit{Kind: "rebuild", Side: side(), M: randMap(r)})
		case k < 65:
			rep.Count("episode:rebuilt-same-contents")
			out = append(out, edit{Kind: "rebuild", Side: side(), M: nil}) // filled in below
		case k < 70:
			rep.Count("episode:touch-or-nothing")
			if r.Chance(1, 2) {
				out = append(out, edit{Kind: "touch", Side: side()})
			}
		case k < 80 && spec.usesBounds:
			rep.Count("episode:bounds-and-edits")
			lo := r.Range(-1, nKeys)
			// half of the time the edits made in the pass that moves the window are taken back in the
			// next pass, with the window held still: an operator must diff against what it saw in the
			// pass that moved the bounds, not against an older input
			revert := r.Chance(1, 2)
			sd := side()
			if revert {
				out = append(out, edit{Kind: "rebuild", Side: sd, M: nil, Hi: markSave})
			}
			out = append(out, edit{Kind: "bounds", Lo: lo, Hi: lo + r.Range(-1, 4)})
			if revert {
				rep.Count("episode-step:bounds-and-edits:edits-reverted-in-the-next-pass")
				for n := r.Range(1, 3); n > 0; n-- {
					out = append(out, randEdit(r, sd))
				}
				out = append(out, edit{Kind: "pass"}, edit{Kind: "rebuild", Side: sd, M: nil, Hi: markRestore})
			} else {
				some(0, 3)
			}
		default:
			rep.Count("episode:unobserve-edit-reobserve")
			out = append(out, edit{Kind: "unobs"})
			for n := r.Range(0, 4); n > 0; n-- {
				switch {
				case r.Chance(1, 5):
					out = append(out, edit{Kind: "pass"}) // versions skipped while nobody looks
				case r.Chance(1, 6):
					out = append(out, edit{Kind: "rebuild", Side: side(), M: randMap(r)})
				case r.Chance(1, 4) && spec.usesBounds:
					lo := r.Range(-1, nKeys)
					out = append(out, edit{Kind: "bounds", Lo: lo, Hi: lo + r.Range(-1, 4)})
				default:
					out = append(out, randEdit(r, side()))
				}
			}
			out = append(out, edit{Kind: "obs"})
		}
		out = append(out, edit{Kind: "pass"})
	}
	// "rebuild with the same contents": resolve against the running contents
	cur := [2]map[int]int{{}, {}}
	saved := [2]map[int]int{{}, {}}
	for i := range out {
		e := &out[i]
		s := e.Side
		if !spec.usesRight {
			s = 0
		}
		switch e.Kind {
		case "set":
			cur[s][e.K] = e.V
		case "del":
			delete(cur[s], e.K)
		case "rebuild":
			if e.Hi == markSave {
				saved[s] = cloneMap(cur[s])
				e.Hi = 0
			}
			if e.M == nil && e.Hi == markRestore {
				e.M = cloneMap(saved[s])
				e.Hi = 0
			}
			if e.M == nil {
				e.M = cloneMap(cur[s])
			}
			cur[s] = cloneMap(e.M)
		}
	}
	for _, e := range out {
		rep.Count("edit:" + e.Kind)
	}
	return out
}

// markers on a "rebuild" edit while a history is being generated (cleared when it is resolved)
const (
	markSave    = -98 // remember the contents this rebuild replaces
	markRestore = -99 // rebuild with the remembered contents
)

// ---------------------------------------------------------------- shrinking (delta debugging)

func hasParallel(es []edit) bool {
	for _, e := range es {
		if e.Kind == "pass" && e.Par {
			return true
		}
	}
	return false
}

// reliably: a history with parallel passes only counts as failing when it fails three times in a
// row, so that shrinking converges on histories that fail whatever the workers' interleaving.
func reliably(es []edit, fails func([]edit) bool) bool {
	n := 1
	if hasParallel(es) {
		n = 3
	}
	for i := 0; i < n; i++ {
		if !fails(es) {
			return false
		}
	}
	return true
}

// shrink removes chunks of edits while the history still fails.
func shrink(edits []edit, fails func([]edit) bool) []edit {
	cur := append([]edit(nil), edits...)
	for chunk := len(cur) / 2; chunk >= 1; {
		removed := false
		for start := 0; start+chunk <= len(cur); {
			cand := append(append([]edit(nil), cur[:start]...), cur[start+chunk:]...)
			if fails(cand) {
				cur, removed = cand, true
			} else {
				start += chunk
			}
		}
		if !removed || chunk > len(cur) {
			chunk /= 2
		}
		if chunk > len(cur) {
			chunk = len(cur)
		}
	}
	// drop everything after the failing pass
	for len(cur) > 0 && fails(cur[:len(cur)-1]) {
		cur = cur[:len(cur)-1]
	}
	// thin out rebuilt maps entry by entry
	for i := range cur {
		if cur[i].Kind != "rebuild" {
			continue
		}
		for _, en := range sortedEntries(cur[i].M) {
			cand := append([]edit(nil), cur...)
			m := cloneMap(cur[i].M)
			delete(m, en.K)
			cand[i].M = m
			if fails(cand) {
				cur = cand
			}
		}
	}
	return cur
}

// ---------------------------------------------------------------- Selector

type selStep struct {
	ev  string
	out *obs
}

type selResult struct {
	steps []selStep
	fail  *failure
}

// selCanon: what an equality kind can still tell apart, keeping presence visible.  Selector
// histories only bind values >= 1, so a handle value of 0 means "absent" (Go's zero value).
func selCanon(e int) func(int) int {
	c := canonOf(e)
	return func(v int) int {
		if v == 0 {
			return 0
		}
		if c == nil {
			return 1 + v
		}
		return 1 + c(v)
	}
}

// runSelector drives a real mapi.Selector: several Select(key) handles, each with its own
// observer.  rep is nil for the runs of the shrinker.
func runSelector(e int, edits []edit, rep *hx.Report) selResult {
	var res selResult
	count := func(k string) {
		if rep != nil {
			rep.Count(k)
		}
	}
	g := newGraph()
	input := incr.Var(g, pmap.New[int, int]())
	sel := mapi.NewSelector(g, input, eqOf(e))
	nodes := map[int]incr.Incr[int]{}
	observers := map[int]incr.ObserveIncr[int]{}
	cur := map[int]int{}
	canon := selCanon(e)
	// per handle: did its key change, in a pass the fan-out node took part in, while the handle
	// itself was unobserved?  (what it has to catch up with when it is observed again)
	missed := map[int]string{}
	seenAt := map[int]int{} // key -> value at the last pass (absent: no entry)
	reobserved := map[int]bool{}
	emit := func(ev string, o *obs) { res.steps = append(res.steps, selStep{ev, o}) }
	for i, ed := range edits {
		switch ed.Kind {
		case "set":
			cur[ed.K] = ed.V
			input.Set(input.Value().Set(ed.K, ed.V))
			emit(fmt.Sprintf("SvSet %s", entriesCoq(sortedEntries(cur))), nil)
		case "del":
			delete(cur, ed.K)
			input.Set(input.Value().Delete(ed.K))
			emit(fmt.Sprintf("SvSet %s", entriesCoq(sortedEntries(cur))), nil)
		case "rebuild":
			cur = cloneMap(ed.M)
			input.Set(pmap.FromGoMap(cur))
			emit(fmt.Sprintf("SvSet %s", entriesCoq(sortedEntries(cur))), nil)
		case "touch":
			input.Set(input.Value())
		case "select":
			if _, ok := nodes[ed.K]; !ok {
				if _, present := cur[ed.K]; present {
					count("selector-handle:selected-for-a-present-key")
				} else {
					count("selector-handle:selected-for-an-absent-key")
				}
			}
			nodes[ed.K] = sel.Select(ed.K) // the same handle when asked twice
			emit(fmt.Sprintf("SvSelect %d", ed.K), nil)
		case "sobs":
			if n, ok := nodes[ed.K]; ok && observers[ed.K] == nil {
				observers[ed.K] = incr.MustObserve(g, n)
				reobserved[ed.K] = true
				emit(fmt.Sprintf("SvObserve %d", ed.K), nil)
			}
		case "sunobs":
			if o := observers[ed.K]; o != nil {
				o.Unobserve(ctx)
				delete(observers, ed.K)
				emit(fmt.Sprintf("SvUnobserve %d", ed.K), nil)
			}
		case "pass":
			// classify what this pass asks of the selector
			for k := range nodes {
				was, had := seenAt[k]
				now, has := cur[k]
				kind := ""
				switch {
				case had && !has:
					kind = "removed"
				case !had && has:
					kind = "added"
				case had && has && was != now:
					kind = "rebound"
				}
				if observers[k] == nil {
					if kind != "" && len(observers) > 0 {
						missed[k] = kind
						count("selector-pass:key-" + kind + "-while-its-handle-is-unobserved-and-another-is-observed")
					} else if kind != "" {
						if missed[k] == "" {
							missed[k] = "(all handles unobserved)"
						}
						count("selector-pass:key-" + kind + "-while-every-handle-is-unobserved")
					}
					continue
				}
				if reobserved[k] {
					switch m := missed[k]; {
					case m == "(all handles unobserved)":
						count("selector-pass:handle-REOBSERVED-after-its-key-changed-while-all-were-unobserved")
					case m != "":
						count("selector-pass:handle-REOBSERVED-after-its-key-was-" + m + "-under-a-running-fan-out")
					default:
						count("selector-pass:handle-observed-or-reobserved-nothing-missed")
					}
				} else if kind != "" {
					count("selector-pass:observed-handle's-key-" + kind)
				}
				delete(missed, k)
			}
			reobserved = map[int]bool{}
			seenAt = cloneMap(cur)
			if err := stabilize(g, ed.Par); err != nil {
				res.fail = &failure{pass: i, what: "Stabilize failed: " + err.Error()}
				return res
			}
			all := map[int]int{}
			for k, n := range nodes {
				all[k] = n.Value()
			}
			o := obs{sortedEntries(all)}
			emit("SvPass", &o)
			// the oracle: every observed handle equals input.Get(key), value and presence
			got, want := map[int]int{}, map[int]int{}
			for k := range observers {
				got[k] = nodes[k].Value()
				if v, ok := input.Value().Get(k); ok {
					want[k] = v
				} else {
					want[k] = 0 // absent: the zero value
				}
			}
			g1, w1 := obs{sortedEntries(got)}, obs{sortedEntries(want)}
			if !obsEq(canonObs(g1, canon), canonObs(w1, canon)) {
				res.fail = &failure{pass: i, got: g1, want: w1, what: "an observed Select(key) handle differs from input.Get(key) (0 = absent)"}
				return res
			}
		}
	}
	return res
}

// genSelector: several handles (keys present, absent, added later, removed later), each with its
// own observer that is dropped and re-established independently of the others.
func genSelector(r *hx.Rand, episodes int, rep *hx.Report) []edit {
	var out []edit
	cur := map[int]int{}
	selected := map[int]bool{}
	observed := map[int]bool{}
	val := func() int { return r.Range(1, nVals-1) } // >= 1: 0 is "absent"
	keysOf := func(m map[int]bool) []int {
		var ks []int
		for k := 0; k < nKeys; k++ {
			if m[k] {
				ks = append(ks, k)
			}
		}
		return ks
	}
	set := func(k, v int) { cur[k] = v; out = append(out, edit{Kind: "set", K: k, V: v}) }
	del := func(k int) { delete(cur, k); out = append(out, edit{Kind: "del", K: k}) }
	anyEdit := func() {
		k := r.Intn(nKeys)
		if _, ok := cur[k]; ok && r.Chance(3, 10) {
			del(k)
		} else {
			set(k, val())
		}
	}
	// an edit that really changes key k: rebind to another value, remove, or (re-)add
	changeKey := func(k int) string {
		v, ok := cur[k]
		switch {
		case !ok:
			set(k, val())
			return "re-add"
		case r.Chance(1, 3):
			del(k)
			return "remove"
		default:
			nv := val()
			for nv == v {
				nv = val()
			}
			set(k, nv)
			return "rebind"
		}
	}
	pass := func() { out = append(out, edit{Kind: "pass"}) }
	selectKey := func(k int, observe bool) {
		selected[k] = true
		out = append(out, edit{Kind: "select", K: k})
		if observe && !observed[k] {
			observed[k] = true
			out = append(out, edit{Kind: "sobs", K: k})
		}
	}
	unobs := func(k int) { delete(observed, k); out = append(out, edit{Kind: "sunobs", K: k}) }
	obsv := func(k int) { observed[k] = true; out = append(out, edit{Kind: "sobs", K: k}) }
	// start with a few entries and two or three handles, one of them for an absent key
	for n := r.Range(1, 3); n > 0; n-- {
		set(r.Intn(nKeys), val())
	}
	for n := r.Range(2, 3); n > 0; n-- {
		selectKey(r.Intn(nKeys), true)
	}
	pass()
	for ep := 0; ep < episodes; ep++ {
		k := r.Intn(100)
		obsKeys := keysOf(observed)
		switch {
		case k < 12:
			rep.Count("episode:single-edit")
			anyEdit()
		case k < 24:
			rep.Count("episode:many-keys")
			for n := r.Range(2, 6); n > 0; n-- {
				anyEdit()
			}
		case k < 30:
			rep.Count("episode:rebuilt-unrelated-map")
			m := map[int]int{}
			for key := 0; key < nKeys; key++ {
				if r.Chance(1, 2) {
					m[key] = val()
				}
			}
			cur = cloneMap(m)
			out = append(out, edit{Kind: "rebuild", M: m})
		case k < 42:
			rep.Count("episode:select-another-handle")
			selectKey(r.Intn(nKeys), r.Chance(4, 5))
		case k < 70 && len(obsKeys) >= 2:
			// unobserve ONE handle, change its key over one or more passes while another handle
			// keeps the fan-out running, then observe the same handle again
			rep.Count("episode:unobserve-one-handle,change-its-key-over-passes,reobserve")
			key := obsKeys[r.Intn(len(obsKeys))]
			unobs(key)
			for n := r.Range(1, 3); n > 0; n-- {
				rep.Count("episode-step:unobserved-handle's-key:" + changeKey(key))
				if r.Chance(1, 3) {
					anyEdit()
				}
				pass()
			}
			if r.Chance(1, 4) {
				pass() // a quiet pass in between
			}
			obsv(key)
		case k < 78 && len(obsKeys) >= 2:
			rep.Count("episode:unobserve-one-handle,change-its-key,reobserve-in-the-same-pass")
			key := obsKeys[r.Intn(len(obsKeys))]
			unobs(key)
			rep.Count("episode-step:unobserved-handle's-key:" + changeKey(key))
			obsv(key)
		case k < 88 && len(obsKeys) >= 1:
			rep.Count("episode:unobserve-every-handle,edit,reobserve")
			for _, key := range obsKeys {
				unobs(key)
			}
			for n := r.Range(1, 4); n > 0; n-- {
				if r.Chance(1, 4) {
					pass()
				} else if r.Chance(1, 2) {
					changeKey(obsKeys[r.Intn(len(obsKeys))])
				} else {
					anyEdit()
				}
			}
			for _, key := range obsKeys {
				if r.Chance(4, 5) {
					obsv(key)
				}
			}
		case k < 94 && len(obsKeys) >= 2:
			rep.Count("episode:unobserve-one-handle-and-leave-it")
			unobs(obsKeys[r.Intn(len(obsKeys))])
			anyEdit()
		default:
			// bring back a handle that has been dormant for a while (or, failing that, edit)
			var dormant []int
			for _, key := range keysOf(selected) {
				if !observed[key] {
					dormant = append(dormant, key)
				}
			}
			if len(dormant) > 0 {
				rep.Count("episode:reobserve-a-dormant-handle")
				obsv(dormant[r.Intn(len(dormant))])
			} else {
				rep.Count("episode:single-edit")
				anyEdit()
			}
		}
		pass()
	}
	for _, e := range out {
		rep.Count("edit:" + e.Kind)
	}
	return out
}

// ---------------------------------------------------------------- Join

// Inner incrementals of the Join stream: ids 0..7 are vars (start value id+1); ids 8..15 are
// computed nodes over two shared base vars, value a*base0 + b*base1 + c.  "eager" nodes are
// observed directly from the start (necessary and computed whatever the join does); "lazy"
// ones are only necessary while the join links them.  Nodes built from two maps sit at height 2,
// above the join node's initial height.
type cdefT struct {
	lazy    bool
	a, b, c int
	height  int
	build   func(g *incr.Graph, b0, b1 incr.Incr[int], ran func()) incr.Incr[int]
}

// ran is called whenever the node recomputes (nil for the lower half of a two-level node)
func lin1(g *incr.Graph, in incr.Incr[int], m, c int, ran func()) incr.Incr[int] {
	return incr.Map(g, in, func(x int) int {
		if ran != nil {
			ran()
		}
		return m*x + c
	})
}

func lin2(g *incr.Graph, b0, b1 incr.Incr[int], a, b, c int, ran func()) incr.Incr[int] {
	return incr.Map2(g, b0, b1, func(x, y int) int {
		ran()
		return a*x + b*y + c
	})
}

const nVarInner = 8

var cdefs = []cdefT{
	{false, 1, 0, 10, 1, func(g *incr.Graph, b0, b1 incr.Incr[int], ran func()) incr.Incr[int] { return lin1(g, b0, 1, 10, ran) }},
	{false, 1, 1, 20, 1, func(g *incr.Graph, b0, b1 incr.Incr[int], ran func()) incr.Incr[int] {
		return lin2(g, b0, b1, 1, 1, 20, ran)
	}},
	{false, 0, 2, 30, 2, func(g *incr.Graph, b0, b1 incr.Incr[int], ran func()) incr.Incr[int] {
		return lin1(g, lin1(g, b1, 2, 0, nil), 1, 30, ran)
	}},
	{false, 2, 3, 40, 1, func(g *incr.Graph, b0, b1 incr.Incr[int], ran func()) incr.Incr[int] {
		return lin2(g, b0, b1, 2, 3, 40, ran)
	}},
	{true, 3, 0, 50, 1, func(g *incr.Graph, b0, b1 incr.Incr[int], ran func()) incr.Incr[int] { return lin1(g, b0, 3, 50, ran) }},
	{true, 1, 2, 60, 1, func(g *incr.Graph, b0, b1 incr.Incr[int], ran func()) incr.Incr[int] {
		return lin2(g, b0, b1, 1, 2, 60, ran)
	}},
	{true, 5, 0, 70, 2, func(g *incr.Graph, b0, b1 incr.Incr[int], ran func()) incr.Incr[int] {
		return lin1(g, lin1(g, b0, 5, 0, nil), 1, 70, ran)
	}},
	{false, 0, 1, 80, 1, func(g *incr.Graph, b0, b1 incr.Incr[int], ran func()) incr.Incr[int] { return lin1(g, b1, 1, 80, ran) }},
}

func isComputed(x int) bool { return x >= nVarInner }

// dependsOn: does computed node x read base var i
func dependsOn(x, i int) bool {
	d := cdefs[x-nVarInner]
	if i == 0 {
		return d.a != 0
	}
	return d.b != 0
}

func cdefsCoq() string {
	parts := make([]string, len(cdefs))
	for i, d := range cdefs {
		parts[i] = fmt.Sprintf("(%d, Join.CDef %s %d %d %d)", nVarInner+i, hx.Bool(d.lazy), d.a, d.b, d.c)
	}
	return "[" + strings.Join(parts, "; ") + "]"
}

type joinResult struct {
	steps []selStep
	vals0 []entry
	fail  *failure
	// the history as it was actually run: a pass that makes the join link a COMPUTED node is always
	// run with the serial stabilizer (see the note in main), whatever the edit asked for
	effective []edit
	// features of the history, for classifying a failure
	sharedInner bool // one inner node under two keys of the same outer map
	movedInner  bool // one inner node under different keys in two consecutive versions the join read
	unobserved  bool
}

func (r joinResult) features() int {
	f := 0
	if r.unobserved {
		f |= 1
	}
	if r.sharedInner {
		f |= 2
	}
	if r.movedInner {
		f |= 4
	}
	return f
}

func hasShared(m map[int]int) bool {
	seen := map[int]bool{}
	for _, x := range m {
		if seen[x] {
			return true
		}
		seen[x] = true
	}
	return false
}

// runJoin drives the real mapi.Join.  rep is nil for the runs of the shrinker.
func runJoin(edits []edit, rep *hx.Report) joinResult {
	var res joinResult
	res.effective = append([]edit(nil), edits...)
	count := func(k string) {
		if rep != nil {
			rep.Count(k)
		}
	}
	g := newGraph()
	inner := make([]incr.Incr[int], nInner)
	vars := make([]incr.VarIncr[int], nVarInner)
	vals := map[int]int{}
	for x := range vars {
		vars[x] = incr.Var(g, x+1)
		inner[x] = vars[x]
		vals[x] = x + 1
	}
	res.vals0 = sortedEntries(vals)
	base := []incr.VarIncr[int]{incr.Var(g, 1), incr.Var(g, 2)}
	// the engine's scheduling is observed, not predicted: a computed node that recomputes notes
	// whether the join has already run in this pass
	var joinNode incr.INode
	var joinRunsAtStart uint64
	var early []int64
	var hookMu sync.Mutex
	lateRuns := 0
	for i, d := range cdefs {
		id := nVarInner + i
		inner[id] = d.build(g, base[0], base[1], func() {
			// under ParallelStabilize this runs on a worker goroutine
			hookMu.Lock()
			defer hookMu.Unlock()
			if incr.ExpertNode(joinNode).NumRecomputes() == joinRunsAtStart {
				early = append(early, int64(id))
			} else {
				lateRuns++
			}
		})
		if !d.lazy {
			incr.MustObserve(g, inner[nVarInner+i]) // another consumer: necessary and computed without the join
		}
	}
	outer := incr.Var(g, pmap.New[int, incr.Incr[int]]())
	j := mapi.Join(g, outer)
	joinNode = j
	cur := map[int]int{} // key -> inner index
	o := incr.MustObserve(g, j)
	observed := true
	emit := func(ev string, ob *obs) { res.steps = append(res.steps, selStep{ev, ob}) }
	emit("JvObserve", nil)
	read := map[int]int{} // the outer map as of the join's last recompute
	baseWritten := map[int]bool{}
	innerWritten := map[int]bool{} // inner vars written since the last pass
	var fresh []int                // computed nodes this pass links anew while their input changed
	outerSet := func() {
		emit(fmt.Sprintf("JvSetOuter %s", entriesCoq(sortedEntries(cur))), nil)
	}
	for i, ed := range edits {
		switch ed.Kind {
		case "set": // V is an inner index
			cur[ed.K] = ed.V
			outer.Set(outer.Value().Set(ed.K, inner[ed.V]))
			outerSet()
		case "del":
			delete(cur, ed.K)
			outer.Set(outer.Value().Delete(ed.K))
			outerSet()
		case "rebuild":
			cur = cloneMap(ed.M)
			m := pmap.New[int, incr.Incr[int]]()
			for _, en := range sortedEntries(cur) {
				m = m.Set(en.K, inner[en.V])
			}
			outer.Set(m)
			outerSet()
		case "inner":
			vars[ed.K].Set(ed.V)
			innerWritten[ed.K] = true
			emit(fmt.Sprintf("JvSetInner %d %d", ed.K, ed.V), nil)
		case "base":
			base[ed.K].Set(ed.V)
			baseWritten[ed.K] = true
			emit(fmt.Sprintf("JvSetBase %d %d", ed.K, ed.V), nil)
		case "unobs":
			if observed {
				o.Unobserve(ctx)
				observed = false
				res.unobserved = true
				emit("JvUnobserve", nil)
			}
		case "obs":
			if !observed {
				o = incr.MustObserve(g, j)
				observed = true
				emit("JvObserve", nil)
			}
		case "pass":
			fresh = nil
			if observed {
				// linked inner nodes (linked before this pass and still) that take a new value in it
				changing := 0
				for k, x := range cur {
					if x0, ok := read[k]; !ok || x0 != x {
						continue
					}
					if !isComputed(x) && innerWritten[x] {
						changing++
					}
					if isComputed(x) && ((baseWritten[0] && dependsOn(x, 0)) || (baseWritten[1] && dependsOn(x, 1))) {
						changing++
					}
				}
				how := "Stabilize"
				if ed.Par {
					how = "ParallelStabilize"
				}
				switch {
				case changing >= 3:
					count("join-pass:3+-linked-inner-nodes-change-at-once:" + how)
				case changing == 2:
					count("join-pass:2-linked-inner-nodes-change-at-once:" + how)
				case changing == 1:
					count("join-pass:1-linked-inner-node-changes:" + how)
				}
				// what this pass asks of the join, for the histogram and the failure classes
				if hasShared(cur) {
					res.sharedInner = true
				}
				for k, x := range cur {
					for k0, x0 := range read {
						if x0 == x && k0 != k {
							res.movedInner = true
						}
					}
					if !isComputed(x) {
						if x0, ok := read[k]; ok && x0 != x && isComputed(x0) {
							count("join-pass:key-repointed-computed-to-var")
						}
						continue
					}
					written := (baseWritten[0] && dependsOn(x, 0)) || (baseWritten[1] && dependsOn(x, 1))
					x0, had := read[k]
					switch {
					case had && x0 == x && written:
						count("join-pass:linked-computed-node-recomputes")
					case (!had || x0 != x) && written:
						count("join-pass:NEWLY-LINKED-computed-node-whose-input-changed-in-the-same-pass")
						fresh = append(fresh, x)
						d := cdefs[x-nVarInner]
						if d.lazy {
							count("join-pass:newly-linked+input-changed:lazy-node")
						} else {
							count("join-pass:newly-linked+input-changed:node-observed-elsewhere")
						}
						if d.height > 1 {
							count("join-pass:newly-linked+input-changed:node-above-the-join")
						}
						if had && !isComputed(x0) {
							count("join-pass:newly-linked+input-changed:key-repointed-from-a-var")
						}
					case !had || x0 != x:
						count("join-pass:newly-linked-computed-node-input-unchanged")
					}
				}
			}
			joinRunsAtStart, early, lateRuns = incr.ExpertNode(j).NumRecomputes(), nil, 0
			parallel := ed.Par
			if parallel && observed {
				for k, x := range cur {
					if x0, ok := read[k]; isComputed(x) && (!ok || x0 != x) {
						parallel = false // the join will link a computed node: serial only
					}
				}
				if !parallel {
					count("join-pass:parallel-pass-run-serially(the join links a computed node)")
				}
			}
			res.effective[i].Par = parallel
			if err := stabilize(g, parallel); err != nil {
				res.fail = &failure{pass: i, what: "Stabilize failed: " + err.Error()}
				return res
			}
			baseWritten = map[int]bool{}
			innerWritten = map[int]bool{}
			got := obs{pmEntries(j.Value())}
			sort.Slice(early, func(a, b int) bool { return early[a] < early[b] })
			emit("JvPass "+hx.ZList(early), &got)
			if observed {
				for _, x := range fresh {
					wasEarly := false
					for _, e := range early {
						if int(e) == x {
							wasEarly = true
						}
					}
					if wasEarly {
						count("join-pass:newly-linked+input-changed:node-recomputed-BEFORE-the-join's-first-run")
					} else {
						count("join-pass:newly-linked+input-changed:node-recomputed-AFTER-the-join's-first-run(second-run-needed)")
					}
				}
				switch runs := incr.ExpertNode(j).NumRecomputes() - joinRunsAtStart; {
				case runs >= 2:
					count("join-pass:join-ran-twice")
					if lateRuns > 0 {
						count("join-pass:join-ran-twice-with-a-computed-node-in-between-or-after")
					}
				case runs == 1:
					count("join-pass:join-ran-once")
				default:
					count("join-pass:join-did-not-run")
				}
			}
			if observed {
				read = cloneMap(cur)
				want := map[int]int{}
				for k, x := range cur {
					want[k] = inner[x].Value() // the oracle: read every inner incremental
				}
				w1 := obs{sortedEntries(want)}
				if !obsEq(got, w1) {
					res.fail = &failure{pass: i, got: got, want: w1, what: "Join value differs from reading every inner incremental"}
					return res
				}
			}
		}
	}
	return res
}

var joinAssignments = []string{"key-consistent", "migrating", "injective", "free"}

// genJoin: mode bit 0 allows unobserve/observe episodes; mode/2 says how inner nodes are assigned:
// 0 key-consistent (key k in 0..3 only ever holds inner nodes k, k+4, k+8, k+12);
// 1 migrating (any node under any key, one key at a time, and a node changes key only with a
// recompute of the join in between: shared between keys over time, never at once);
// 2 injective (as 1, but a node may move between keys within one pass);
// 3 free (a node can also be under two keys at once).
func genJoin(r *hx.Rand, episodes, mode int, rep *hx.Report) []edit {
	var out []edit
	assign := mode / 2
	cur := map[int]int{}
	read := map[int]int{} // the outer map at the last pass with the join observed
	observed := true
	pickKey := func() int {
		if assign == 0 {
			return r.Intn(4)
		}
		return r.Intn(nKeys)
	}
	allowed := func(key, x int) bool {
		switch assign {
		case 0:
			return x%4 == key
		case 3:
			return true
		}
		for k, y := range cur {
			if y == x && k != key {
				return false
			}
		}
		if assign == 1 {
			for k, y := range read {
				if y == x && k != key {
					return false
				}
			}
		}
		return true
	}
	// pick an inner node for a key: computed nodes half of the time
	pick := func(key int, computed bool) int {
		for tries := 0; tries < 200; tries++ {
			x := r.Intn(nVarInner)
			if computed {
				x = nVarInner + r.Intn(len(cdefs))
			}
			if allowed(key, x) {
				return x
			}
			if tries > 50 {
				computed = !computed
			}
		}
		return -1
	}
	bind := func(key, x int) {
		if x < 0 {
			return
		}
		cur[key] = x
		out = append(out, edit{Kind: "set", K: key, V: x})
	}
	outerEdit := func() {
		key := pickKey()
		if r.Chance(3, 10) {
			delete(cur, key)
			out = append(out, edit{Kind: "del", K: key})
			return
		}
		bind(key, pick(key, r.Chance(1, 2)))
	}
	rebuild := func() {
		cur = map[int]int{}
		for k := 0; k < nKeys; k++ {
			if (assign != 0 || k < 4) && r.Chance(1, 2) {
				if x := pick(k, r.Chance(1, 2)); x >= 0 {
					cur[k] = x
				}
			}
		}
		out = append(out, edit{Kind: "rebuild", M: cloneMap(cur)})
	}
	ival := map[int]int{}
	for x := 0; x < nVarInner; x++ {
		ival[x] = x + 1
	}
	bval := map[int]int{0: 1, 1: 2}
	other := func(old int) int { // a value that differs from the current one, so that staleness shows
		v := r.Intn(nVals)
		for v == old {
			v = r.Intn(nVals)
		}
		return v
	}
	writeInner := func(x int) {
		ival[x] = other(ival[x])
		out = append(out, edit{Kind: "inner", K: x, V: ival[x]})
	}
	innerEdit := func() { writeInner(r.Intn(nVarInner)) }
	baseEdit := func(i int) {
		bval[i] = other(bval[i])
		out = append(out, edit{Kind: "base", K: i, V: bval[i]})
	}
	pass := func() {
		out = append(out, edit{Kind: "pass"})
		if observed {
			read = cloneMap(cur)
		}
	}
	// the episode the SetStale in link exists for: in ONE pass a key is added or repointed to a
	// computed node and that node's input changes
	linkAndWrite := func() {
		key := pickKey()
		x := pick(key, true)
		if x < 0 || !isComputed(x) || cur[key] == x {
			delete(cur, key) // make room, so that a later episode can link
			out = append(out, edit{Kind: "del", K: key})
			return
		}
		input := 0
		if !dependsOn(x, 0) || (dependsOn(x, 1) && r.Chance(1, 2)) {
			input = 1
		}
		if r.Chance(1, 2) {
			baseEdit(input)
			bind(key, x)
		} else {
			bind(key, x)
			baseEdit(input)
		}
		if r.Chance(1, 3) {
			innerEdit()
		}
	}
	for ep := 0; ep < episodes; ep++ {
		k := r.Intn(100)
		switch {
		case k < 9:
			rep.Count("episode:outer-edit")
			outerEdit()
		case k < 16:
			rep.Count("episode:inner-var-write")
			innerEdit()
		case k < 23:
			rep.Count("episode:base-var-write")
			baseEdit(r.Intn(2))
		case k < 43:
			rep.Count("episode:link-computed-node+write-its-input")
			linkAndWrite()
		case k < 63:
			// several linked inner nodes take new values in ONE pass: every one of them has to
			// reach the join's pending list, whichever stabilizer runs the pass
			rep.Count("episode:several-linked-inner-nodes-change-at-once")
			if len(cur) < 2 {
				outerEdit()
				outerEdit()
				outerEdit()
				pass()
			}
			wroteBase := false
			for _, en := range sortedEntries(cur) {
				x := en.V
				switch {
				case !isComputed(x) && r.Chance(4, 5):
					writeInner(x)
				case isComputed(x) && !wroteBase && r.Chance(3, 4):
					wroteBase = true
					if dependsOn(x, 0) {
						baseEdit(0)
					}
					if dependsOn(x, 1) && r.Chance(1, 2) {
						baseEdit(1)
					}
				}
			}
		case k < 74:
			rep.Count("episode:many-keys")
			for n := r.Range(2, 6); n > 0; n-- {
				switch r.Intn(4) {
				case 0, 1:
					outerEdit()
				case 2:
					innerEdit()
				default:
					baseEdit(r.Intn(2))
				}
			}
		case k < 81:
			rep.Count("episode:rebuilt-unrelated-map")
			rebuild()
			if r.Chance(1, 2) {
				baseEdit(r.Intn(2))
			}
		case k < 85 || mode&1 == 0:
			rep.Count("episode:touch-or-nothing")
		default:
			rep.Count("episode:unobserve-edit-reobserve")
			if r.Chance(1, 3) {
				innerEdit() // written while linked, never delivered
			}
			out = append(out, edit{Kind: "unobs"})
			observed = false
			for n := r.Range(0, 3); n > 0; n-- {
				switch {
				case r.Chance(1, 5):
					pass()
				case r.Chance(1, 3):
					innerEdit()
				case r.Chance(1, 2):
					baseEdit(r.Intn(2))
				default:
					outerEdit()
				}
			}
			out = append(out, edit{Kind: "obs"})
			observed = true
		}
		pass()
	}
	for _, e := range out {
		rep.Count("edit:" + e.Kind)
	}
	return out
}

// ---------------------------------------------------------------- main

var simpleKinds = []string{"MapValues", "FilterMapValues", "Merge", "UnorderedFold", "Sum", "Cardinality", "Counti",
	"Reduce", "MaxValue", "MinValue", "Subrange", "Partition", "Keys", "Changes", "Added", "Removed"}

type coqCase struct {
	text string
	key  string
}

func evsCoq(steps []selStep) string {
	parts := make([]string, len(steps))
	for i, s := range steps {
		o := "None"
		if s.out != nil {
			o = "Some " + s.out.coq()
		}
		parts[i] = fmt.Sprintf("(%s, %s)", s.ev, o)
	}
	return "[" + strings.Join(parts, "; ") + "]"
}

// probeJoinRelink decides which variant of the Join model the implementation corresponds to
// (Mapi.Join's `fixed` parameter) by running the five-step relink reproduction once: observe,
// pass, unobserve, write the inner var, observe again, pass. true = the joined map shows the
// new value, i.e. the join re-reads its inner incrementals after it re-enters the graph.
func probeJoinRelink() bool {
	g := incr.New()
	a := incr.Var(g, 1)
	outer := incr.Var(g, pmap.New[int, incr.Incr[int]]().Set(0, incr.Incr[int](a)))
	j := mapi.Join(g, outer)
	o := incr.MustObserve(g, j)
	_ = g.Stabilize(ctx)
	o.Unobserve(ctx)
	a.Set(5)
	o = incr.MustObserve(g, j)
	_ = g.Stabilize(ctx)
	v, _ := o.Value().Get(0)
	return v == 5
}

var joinFixed bool

func main() {
	joinFixed = probeJoinRelink()
	var (
		count    = flag.Int("n", 40, "histories per operator kind")
		episodes = flag.Int("len", 8, "episodes per history")
		seed     = flag.Uint64("seed", 1, "seed")
		coqOut   = flag.String("coq", "", "Gallina cases file to write")
		coqMax   = flag.Int("coqmax", 300, "at most this many cases go to the Gallina file")
		jsonOut  = flag.String("json", "", "report file")
		only     = flag.String("ops", "", "comma separated operator kinds (default: all)")
	)
	flag.Parse()
	rep := hx.NewReport("mapitrace", *seed)
	rng := hx.NewRand(*seed)
	distinct := hx.Distinct{}
	var cases []coqCase
	perKey := map[string]int{}
	want := map[string]bool{}
	for _, k := range strings.Split(*only, ",") {
		if k != "" {
			want[k] = true
		}
	}
	enabled := func(k string) bool { return len(want) == 0 || want[k] }
	report := func(key, what string, replay map[string]any) {
		rep.Count("violation:" + key)
		perKey[key]++
		if perKey[key] <= 2 {
			rep.AddViolation(hx.Violation{Property: "C17", What: what, Key: key, Replay: replay})
		}
	}
	scheduleOff := 0

	for _, kind := range simpleKinds {
		if !enabled(kind) {
			continue
		}
		for i := 0; i < *count; i++ {
			r := rng.Fork()
			spec := genSpec(r, kind)
			faults := spec.userFn && r.Chance(1, 2)
			edits := genSimple(r, spec, *episodes, faults, rep)
			chooseStabilizers(r, edits, rep)
			res := runSimple(spec, edits)
			if faults {
				// failed passes are outside the model: these histories are checked on the implementation only
				rep.Count("fault-histories(implementation-only,not-in-the-Gallina-sample)")
				rep.Histogram["fault:passes-that-failed-on-the-injected-panic"] += res.failedPasses
				rep.Histogram["fault:armed-but-fn-not-called-for-that-key"] += res.faultsIdle
			}
			rep.Evaluations++
			rep.Count("op:" + kind)
			if spec.respects {
				rep.Count("oracle:plain-definition")
			} else {
				rep.Count("oracle:model-replay-only(equal not respected by fn)")
			}
			rep.Sizes[fmt.Sprintf("recomputes%02d", res.recomputes)]++
			scheduleOff += res.schedule
			if res.fail != nil {
				small := shrink(edits, func(es []edit) bool {
					return reliably(es, func(es []edit) bool { return runSimple(spec, es).fail != nil })
				})
				f := runSimple(spec, small).fail
				if f == nil { // interleaving-dependent: keep the history as it failed
					small, f = edits, res.fail
				}
				report("mapi:"+kind, fmt.Sprintf("mapi.%s (%s): %s: got %v want %v after %v", kind, spec.coq, f.what, f.got, f.want, editStrings(small)),
					map[string]any{"operator": kind, "params": spec.coq, "edits": small, "script": editStrings(small), "got": f.got.String(), "want": f.want.String()})
			}
			if len(res.steps) == 0 || faults {
				continue
			}
			parts := make([]string, len(res.steps))
			for k, s := range res.steps {
				parts[k] = fmt.Sprintf("(%s, %s)", s.in.coq(), s.out.coq())
			}
			text := fmt.Sprintf("CSimple (%s) [%s]", spec.coq, strings.Join(parts, "; "))
			if res.recomputes >= 2 && res.changedSteps >= 2 {
				distinct.Add(text)
			}
			cases = append(cases, coqCase{text, kind})
			if len(rep.Samples) < 3 && i == 0 && (kind == "MapValues" || kind == "Merge" || kind == "Subrange") {
				rep.Samples = append(rep.Samples, map[string]any{"operator": spec.coq, "script": editStrings(edits), "last_value": res.steps[len(res.steps)-1].out.String()})
			}
		}
	}

	if enabled("Selector") {
		for i := 0; i < *count*2; i++ {
			r := rng.Fork()
			e := []int{0, 0, 0, 1, 2}[r.Intn(5)] // mostly exact equality, where every rebind must show
			rep.Count(fmt.Sprintf("selector-equal:%s", []string{"exact", "nil", "coarse"}[e]))
			edits := genSelector(r, *episodes+4, rep)
			chooseStabilizers(r, edits, rep)
			res := runSelector(e, edits, rep)
			rep.Evaluations++
			rep.Count("op:Selector")
			rep.Count("oracle:plain-definition")
			if res.fail != nil {
				small := shrink(edits, func(es []edit) bool {
					return reliably(es, func(es []edit) bool { return runSelector(e, es, nil).fail != nil })
				})
				f := runSelector(e, small, nil).fail
				if f == nil { // interleaving-dependent: keep the history as it failed
					small, f = edits, res.fail
				}
				report("mapi:Selector", fmt.Sprintf("mapi.Selector (equal kind %d): %s: got %v want %v after %v", e, f.what, f.got, f.want, editStrings(small)),
					map[string]any{"operator": "Selector", "equal": e, "edits": small, "script": editStrings(small), "got": f.got.String(), "want": f.want.String()})
			}
			text := fmt.Sprintf("CSelector %d %s", e, evsCoq(res.steps))
			passes := 0
			for _, s := range res.steps {
				if s.out != nil && len((*s.out)[0]) > 0 {
					passes++
				}
			}
			if passes >= 2 {
				distinct.Add(text)
			}
			cases = append(cases, coqCase{text, "Selector"})
			if i == 0 {
				rep.Samples = append(rep.Samples, map[string]any{"operator": "Selector", "equal": e, "script": editStrings(edits)})
			}
		}
	}

	if enabled("Join") {
		for i := 0; i < *count*4; i++ {
			r := rng.Fork()
			mode := i % 8
			edits := genJoin(r, *episodes+4, mode, rep)
			chooseStabilizers(r, edits, rep)
			res := runJoin(edits, rep)
			rep.Evaluations++
			rep.Count("op:Join")
			rep.Count(fmt.Sprintf("join-mode:unobserve=%v,assignment=%s", mode&1 != 0, joinAssignments[mode/2]))
			rep.Count("oracle:plain-definition")
			if res.fail != nil {
				rep.Count(fmt.Sprintf("join-failing-histories:unobserve=%v,assignment=%s", mode&1 != 0, joinAssignments[mode/2]))
				// a smaller history must not bring in a feature the original did not have
				small := shrink(edits, func(es []edit) bool {
					return reliably(es, func(es []edit) bool {
						c := runJoin(es, nil)
						return c.fail != nil && c.features()&^res.features() == 0
					})
				})
				sres := runJoin(small, nil)
				f := sres.fail
				if f == nil { // interleaving-dependent: keep the history as it failed
					small, sres, f = edits, res, res.fail
					rep.Count("join-failure-not-reproduced-on-rerun(interleaving-dependent)")
				}
				// the two known-finding classes first, so that their patterns keep matching
				key := "mapi:Join"
				if sres.sharedInner {
					key += ":inner-under-two-keys"
				}
				if sres.movedInner {
					key += ":inner-moved-between-keys"
				}
				if sres.unobserved {
					key += ":stale-after-relink"
				}
				for _, e := range small {
					usesComputed := (e.Kind == "set" && isComputed(e.V)) || e.Kind == "base"
					for _, x := range e.M {
						if e.Kind == "rebuild" && isComputed(x) {
							usesComputed = true
						}
					}
					if usesComputed {
						key += ":computed-inner"
						break
					}
				}
				small = sres.effective
				report(key, fmt.Sprintf("mapi.Join: %s: got %v want %v after %v (innerN starts at N+1)", f.what, f.got, f.want, joinStrings(small)),
					map[string]any{"operator": "Join", "edits": small, "script": joinStrings(small), "got": f.got.String(), "want": f.want.String(),
						"note": "inner0..inner7 are vars starting at 1..8; inner8..inner15 are Map/Map2 nodes over base0 (starts 1) and base1 (starts 2) with value a*base0+b*base1+c, (lazy,a,b,c) = " + cdefsCoq() + "; the join is observed from the start; {k v} pairs are (key, value)"})
			}
			text := fmt.Sprintf("CJoin %s %s [(0, 1); (1, 2)] %s %s", hx.Bool(joinFixed), entriesCoq(res.vals0), cdefsCoq(), evsCoq(res.steps))
			passes := 0
			for _, s := range res.steps {
				if s.out != nil && len((*s.out)[0]) > 0 {
					passes++
				}
			}
			if passes >= 2 {
				distinct.Add(text)
			}
			cases = append(cases, coqCase{text, "Join"})
			if i == 1 {
				rep.Samples = append(rep.Samples, map[string]any{"operator": "Join", "script": joinStrings(edits)})
			}
		}
	}

	rep.Distinct = len(distinct)
	rep.Rule = fmt.Sprintf("%d random histories per operator kind (2x for Selector: several Select(key) handles with independent observers; 4x for Join: with/without unobserve episodes x key-consistent / migrating / injective / free assignment of inner nodes; inner nodes are vars and Map/Map2 nodes over two shared base vars, observed elsewhere or lazy, some above the join), %d+ episodes each (single edit, many keys per pass, "+
		"rebuilt unrelated map, rebuilt identical map, touch, bounds change, unobserve/edit/re-observe with skipped passes) over keys 0..%d, values 0..%d; "+
		"distinct by operator parameters + recorded recompute inputs/values; non-trivial = at least two recomputes whose input differs from the "+
		"previous recompute's (Selector/Join: at least two passes with a non-empty value)", *count, *episodes, nKeys-1, nVals-1)
	if scheduleOff > 0 {
		rep.Notes = append(rep.Notes, fmt.Sprintf("harness self-check: %d passes where the node recomputed although neither set nor re-observed (or the reverse)", scheduleOff))
		rep.Histogram["selfcheck:recompute-schedule-off"] = scheduleOff
	}
	for k, n := range perKey {
		rep.Notes = append(rep.Notes, fmt.Sprintf("%d failing histories for %s (first two reported, shrunk)", n, k))
	}
	sort.Strings(rep.Notes)

	if *coqOut != "" {
		sample := cases
		if len(sample) > *coqMax {
			// round-robin over operator kinds so every kind stays represented
			byKind := map[string][]coqCase{}
			var kinds []string
			for _, c := range cases {
				if _, ok := byKind[c.key]; !ok {
					kinds = append(kinds, c.key)
				}
				byKind[c.key] = append(byKind[c.key], c)
			}
			sample = nil
			for i := 0; len(sample) < *coqMax; i++ {
				progressed := false
				for _, k := range kinds {
					per := 1
					if k == "Join" {
						per = 4 // four times as many histories, and the most intricate model
					}
					if k == "Selector" {
						per = 2
					}
					for n := i * per; n < (i+1)*per; n++ {
						if n < len(byKind[k]) && len(sample) < *coqMax {
							sample = append(sample, byKind[k][n])
							progressed = true
						}
					}
				}
				if !progressed {
					break
				}
			}
		}
		var b strings.Builder
		b.WriteString("From incr Require Import Base MapiSpec Mapi MapiRun.\nDefinition cases : list case := [\n")
		for i, c := range sample {
			b.WriteString(c.text)
			if i+1 < len(sample) {
				b.WriteString(";\n")
			}
		}
		b.WriteString("\n].\nDefinition M := Eval vm_compute in mismatches cases.\nPrint M.\n")
		if err := os.WriteFile(*coqOut, []byte(b.String()), 0o644); err != nil {
			fmt.Fprintln(os.Stderr, err)
			os.Exit(2)
		}
		rep.CoqCases = len(sample)
	}
	if *jsonOut != "" {
		if err := rep.Write(*jsonOut); err != nil {
			fmt.Fprintln(os.Stderr, err)
			os.Exit(2)
		}
	}
	fmt.Printf("mapitrace: %d histories, %d distinct non-trivial, %d coq cases, %d violation(s) reported\n",
		rep.Evaluations, rep.Distinct, rep.CoqCases, len(rep.Violations))
}
