// parscen runs hand-written ParallelStabilize scenarios that the generated engine histories
// cannot express (vars created inside bind scopes, node functions that write such vars,
// UnorderedArrayFold under many concurrently changing inputs, failing siblings next to nodes
// that queue children) and checks the observer values after every pass against the plain
// definition of each program.  It is built with -race by bin/check: the race detector's
// reports on the library's frames are what the C04 check looks for; a wrong value is
// reported as a violation by the tool itself.
package main

import (
	"context"
	"errors"
	"flag"
	"fmt"
	"os"
	"strings"
	"time"

	incr "github.com/wcharczuk/go-incr"
	"github.com/wcharczuk/go-incr/incrutil"
	"verifharness/internal/hx"
)

type scenario struct {
	name string
	what string
	run  func(par, rounds int, rng *hx.Rand) (passes int, problem string)
}

var ctx = context.Background()

// pass runs one stabilization: serial when par is 0
func pass(g *incr.Graph, par int) error {
	if par == 0 {
		return g.Stabilize(ctx)
	}
	return g.ParallelStabilize(ctx)
}

func newGraph(par int) *incr.Graph {
	if par == 0 {
		return incr.New()
	}
	return incr.New(incr.OptGraphParallelism(par))
}

// a var created inside a bind scope sits at height >= 1 and shares a height block with
// ordinary nodes; one of them writes it (the supported deferred Set) while it recomputes
func varInScope(par, rounds int, rng *hx.Rand) (int, string) {
	passes := 0
	for r := 0; r < rounds; r++ {
		g := newGraph(par)
		v0 := incr.Var(g, 0)
		var inner incr.VarIncr[int]
		b := incr.Bind(g, v0, func(bs incr.Scope, x int) incr.Incr[int] {
			if inner == nil {
				inner = incr.Var(bs, x)
			}
			return inner
		})
		w := incr.Var(g, 1)
		w1 := incr.Map(g, w, func(x int) int { return x + 1 })
		m := incr.Map(g, w1, func(x int) int {
			if inner != nil {
				inner.Set(x * 10)
			}
			return x
		})
		ob := incr.MustObserve(g, b)
		om := incr.MustObserve(g, m)
		if err := pass(g, par); err != nil {
			return passes, err.Error()
		}
		passes++
		want := 0
		for i := 0; i < 4; i++ {
			direct := 100 + rng.Intn(50)
			inner.Set(direct)
			wv := 2 + rng.Intn(9)
			w.Set(wv)
			if err := pass(g, par); err != nil {
				return passes, err.Error()
			}
			passes++
			// the pass reads the directly set value; the deferred one becomes visible afterwards
			if ob.Value() != direct || om.Value() != wv+1 {
				return passes, fmt.Sprintf("round %d step %d: observers read (%d,%d), the pass's inputs give (%d,%d)", r, i, ob.Value(), om.Value(), direct, wv+1)
			}
			want = (wv + 1) * 10
			if err := pass(g, par); err != nil {
				return passes, err.Error()
			}
			passes++
			if ob.Value() != want {
				return passes, fmt.Sprintf("round %d step %d: the deferred Set(%d) is not the var's value one pass later (%d)", r, i, want, ob.Value())
			}
		}
	}
	return passes, ""
}

// the same var, written by a node function of a LOWER height block while it is itself queued
// because of a Set made between the passes: the pass must read the between-pass value, the
// deferred one becomes the var's value when the pass ends (C12)
func varInScopeSetFromBelow(par, rounds int, rng *hx.Rand) (int, string) {
	passes := 0
	for r := 0; r < rounds; r++ {
		g := newGraph(par)
		v0 := incr.Var(g, 0)
		var inner incr.VarIncr[int]
		b := incr.Bind(g, v0, func(bs incr.Scope, x int) incr.Incr[int] {
			if inner == nil {
				inner = incr.Var(bs, x)
			}
			return inner
		})
		seen := incr.Map(g, b, func(x int) int { return x })
		w := incr.Var(g, 1)
		m := incr.Map(g, w, func(x int) int {
			if inner != nil {
				inner.Set(x * 10)
			}
			return x
		})
		ob := incr.MustObserve(g, seen)
		om := incr.MustObserve(g, m)
		if err := pass(g, par); err != nil {
			return passes, err.Error()
		}
		passes++
		for i := 0; i < 4; i++ {
			direct := 100 + rng.Intn(50)
			inner.Set(direct)
			wv := 2 + rng.Intn(9)
			w.Set(wv)
			if err := pass(g, par); err != nil {
				return passes, err.Error()
			}
			passes++
			if ob.Value() != direct || om.Value() != wv {
				return passes, fmt.Sprintf("round %d step %d: the pass computed (%d,%d) but its inputs were inner=%d (set between the passes), w=%d", r, i, ob.Value(), om.Value(), direct, wv)
			}
			if err := pass(g, par); err != nil {
				return passes, err.Error()
			}
			passes++
			if ob.Value() != wv*10 {
				return passes, fmt.Sprintf("round %d step %d: the deferred Set(%d) is not what the next pass reads (%d)", r, i, wv*10, ob.Value())
			}
		}
	}
	return passes, ""
}

// writes from update handlers: later than the mid-pass writes of the same pass, so they win
func setFromUpdateHandler(par, rounds int, rng *hx.Rand) (int, string) {
	passes := 0
	for r := 0; r < rounds; r++ {
		g := newGraph(par)
		v := incr.Var(g, 0)
		if r%2 == 1 {
			// an equality var: a write of the value it holds is a no-op -- unless an earlier
			// write of the same pass is still pending, which this one must then supersede
			v = incr.VarEqual(g, 0)
		}
		u := incr.Var(g, 0)
		w := incr.Var(g, 1)
		mid, late, upd := 0, 0, 0
		midOn, lateOn, updOn := false, false, false
		m := incr.Map(g, w, func(x int) int {
			if midOn {
				v.Set(mid)                                     // deferred
				u.Update(func(x int) int { return x + mid%7 }) // deferred; the handler's Update must compose with it
			}
			return x
		})
		m.Node().OnUpdate(func(context.Context) {
			if lateOn {
				v.Set(late)
			}
			if updOn {
				u.Update(func(x int) int { return x + upd })
			}
		})
		mv := incr.Map2(g, v, u, func(x, y int) int { return x*1000 + y })
		om := incr.MustObserve(g, m)
		ov := incr.MustObserve(g, mv)
		if err := pass(g, par); err != nil {
			return passes, err.Error()
		}
		passes++
		vv, uv := 0, 0
		for i := 0; i < 6; i++ {
			midOn, lateOn, updOn = rng.Chance(1, 2), rng.Chance(1, 2), rng.Chance(1, 2)
			mid, late, upd = 1+rng.Intn(400), 401+rng.Intn(400), 1+rng.Intn(9)
			wv := rng.Intn(1000)
			w.Set(wv + 1000*i + 1) // always a change: m recomputes, its handler runs
			if rng.Chance(1, 2) {
				// the var is also written between the passes: this pass computes from that value,
				// and the writes made during the pass come on top of it
				vv = 900 + rng.Intn(90)
				v.Set(vv)
			}
			if rng.Chance(1, 3) {
				late = vv // the handler writes back the value the var holds while the pass runs
			}
			before := vv*1000 + uv
			if err := pass(g, par); err != nil {
				return passes, err.Error()
			}
			passes++
			if ov.Value() != before {
				return passes, fmt.Sprintf("round %d step %d: writes made during the pass altered what it computed (%d, inputs gave %d)", r, i, ov.Value(), before)
			}
			if midOn {
				vv = mid
				uv += mid % 7
			}
			if lateOn {
				vv = late
			}
			if updOn {
				uv += upd
			}
			if v.Value() != vv || u.Value() != uv {
				return passes, fmt.Sprintf("round %d step %d: after the pass the vars hold (%d,%d), the last writes were (%d,%d) [mid-pass Set=%v handler Set=%v handler Update=%v]", r, i, v.Value(), u.Value(), vv, uv, midOn, lateOn, updOn)
			}
			if err := pass(g, par); err != nil {
				return passes, err.Error()
			}
			passes++
			if ov.Value() != vv*1000+uv {
				return passes, fmt.Sprintf("round %d step %d: the following pass computed %d, the last writes give %d", r, i, ov.Value(), vv*1000+uv)
			}
		}
		_ = om
	}
	return passes, ""
}

// a memoized bind created inside another bind's function, under an upstream bind whose
// right-hand side changes depth: cached subgraphs of unused keys stay parked in the outer
// bind's scope while heights are adjusted around them. Twin: the same program with plain Bind.
func memoNestedInBind(par, rounds int, rng *hx.Rand) (int, string) {
	passes := 0
	type world struct {
		g        *incr.Graph
		x, sel   incr.VarIncr[int]
		key      incr.VarIncr[int]
		obs      incr.ObserveIncr[int]
		memoized bool
	}
	inc := func(v int) int { return v + 1 }
	build := func(memoized bool) *world {
		w := &world{g: newGraph(par), memoized: memoized}
		g := w.g
		w.x, w.sel, w.key = incr.Var(g, 1), incr.Var(g, 0), incr.Var(g, 0)
		upstream := incr.Bind(g, w.sel, func(bs incr.Scope, s int) incr.Incr[int] {
			var n incr.Incr[int] = incr.Return(bs, 7)
			if s > 0 {
				n = w.x
			}
			for i := 0; i < s; i++ {
				n = incr.Map(bs, n, inc)
			}
			return n
		})
		outer := incr.Bind(g, upstream, func(bs incr.Scope, up int) incr.Incr[int] {
			rhs := func(s incr.Scope, key int) incr.Incr[int] {
				if key%3 == 2 {
					return incr.Map2(s, w.x, incr.Map(s, w.x, inc), func(a, b int) int { return a + b + 100*key + up })
				}
				if key%3 == 1 {
					// an aggregate inside the cached subgraph: it leaves the graph and re-enters it with the key
					fold := incr.UnorderedArrayFold(s, 0, func(acc, v int) int { return acc + v }, func(acc, o, n int) int { return acc - o + n },
						incr.Map(s, w.x, inc), incr.Map(s, w.x, inc))
					return incr.Map(s, fold, func(v int) int { return v - 2 - w.x.Value() + 100*key + up })
				}
				return incr.Map(s, w.x, func(v int) int { return v + 100*key + up })
			}
			if memoized {
				return incrutil.BindMemoized(bs, w.key, rhs)
			}
			return incr.Bind(bs, w.key, rhs)
		})
		w.obs = incr.MustObserve(g, outer)
		return w
	}
	for r := 0; r < rounds; r++ {
		memo, plain := build(true), build(false)
		x, sel, key := 1, 0, 0
		px, psel, pkey := x, sel, key
		for step := 0; step < 14; step++ {
			for _, w := range []*world{plain, memo} {
				// only what changed: a Set of an unchanged plain var re-runs the binds below it,
				// which would rebuild the memoized bind (and its cache) in every pass
				if x != px {
					w.x.Set(x)
				}
				if sel != psel {
					w.sel.Set(sel)
				}
				if key != pkey {
					w.key.Set(key)
				}
				if err := pass(w.g, par); err != nil {
					return passes, fmt.Sprintf("round %d step %d (x=%d depth=%d key=%d): the pass failed on the %s graph: %.160s", r, step, x, sel, key, map[bool]string{true: "BindMemoized", false: "Bind"}[w.memoized], err.Error())
				}
				passes++
			}
			up := 7
			if sel > 0 {
				up = x + sel
			}
			want := x + 100*key + up
			if key%3 == 2 {
				want = x + x + 1 + 100*key + up
			}
			if plain.obs.Value() != want || memo.obs.Value() != want {
				return passes, fmt.Sprintf("round %d step %d (x=%d depth=%d key=%d): Bind reads %d, BindMemoized reads %d, from scratch %d", r, step, x, sel, key, plain.obs.Value(), memo.obs.Value(), want)
			}
			px, psel, pkey = x, sel, key
			if rng.Chance(1, 2) {
				key = rng.Intn(4)
			}
			if rng.Chance(1, 3) {
				x = rng.Intn(50)
			}
			if rng.Chance(1, 3) {
				sel = rng.Intn(4)
			}
		}
		for _, w := range []*world{plain, memo} {
			w.obs.Unobserve(ctx)
			if n := incr.ExpertGraph(w.g).NumNodes(); n != 0 {
				return passes, fmt.Sprintf("round %d: %d nodes left after the only observer was released (memoized=%v)", r, n, w.memoized)
			}
		}
	}
	return passes, ""
}

// a cached right-hand side that contains aggregates leaves the graph and re-enters it when its
// key comes back; inputs are written while it is away and after it is back
func memoFoldReuse(par, rounds int, rng *hx.Rand) (int, string) {
	passes := 0
	inc := func(v int) int { return v + 1 }
	for r := 0; r < rounds; r++ {
		type world struct {
			g    *incr.Graph
			x, y incr.VarIncr[int]
			key  incr.VarIncr[int]
			obs  incr.ObserveIncr[int]
		}
		build := func(memoized bool) *world {
			w := &world{g: newGraph(par)}
			g := w.g
			w.x, w.y, w.key = incr.Var(g, 1), incr.Var(g, 2), incr.Var(g, 0)
			rhs := func(s incr.Scope, key int) incr.Incr[int] {
				fold := incr.UnorderedArrayFold(s, 0, func(acc, v int) int { return acc + v }, func(acc, o, n int) int { return acc - o + n },
					incr.Map(s, w.x, inc), incr.Map(s, w.y, inc), incr.Map(s, w.x, inc))
				red := incr.ReduceBalanced(s, func(a, b int) int { return a + b }, incr.Map(s, w.x, inc), incr.Map(s, w.y, inc), incr.Map(s, w.y, inc))
				return incr.Map2(s, fold, red, func(a, b int) int { return a + b + 1000*key })
			}
			var b incr.Incr[int]
			if memoized {
				b = incrutil.BindMemoized(g, w.key, rhs)
			} else {
				b = incr.Bind(g, w.key, rhs)
			}
			w.obs = incr.MustObserve(g, b)
			return w
		}
		memo, plain := build(true), build(false)
		x, y, key := 1, 2, 0
		px, py, pkey := x, y, key
		for step := 0; step < 16; step++ {
			for _, w := range []*world{plain, memo} {
				if x != px {
					w.x.Set(x)
				}
				if y != py {
					w.y.Set(y)
				}
				if key != pkey {
					w.key.Set(key)
				}
				if err := pass(w.g, par); err != nil {
					return passes, fmt.Sprintf("round %d step %d: the pass failed: %.160s", r, step, err.Error())
				}
				passes++
			}
			want := 2*(x+1) + (y + 1) + (x + 1) + 2*(y+1) + 1000*key
			if plain.obs.Value() != want || memo.obs.Value() != want {
				return passes, fmt.Sprintf("round %d step %d (x=%d y=%d key=%d): Bind reads %d, BindMemoized reads %d, from scratch %d", r, step, x, y, key, plain.obs.Value(), memo.obs.Value(), want)
			}
			px, py, pkey = x, y, key
			switch rng.Intn(3) {
			case 0:
				key = rng.Intn(3)
			case 1:
				x = rng.Intn(50)
			default:
				y = rng.Intn(50)
			}
		}
	}
	return passes, ""
}

// time-driven nodes woken by Clock.Advance sitting in the height block of a bind whose function
// fails in that pass: the wake must survive the failed pass
func timeNodesNextToFailingBind(par, rounds int, rng *hx.Rand) (int, string) {
	passes := 0
	for r := 0; r < rounds; r++ {
		g := newGraph(par)
		start := time.Date(2030, 1, 1, 0, 0, 0, 0, time.UTC)
		clock := incr.NewClock(start)
		sel := incr.Var(g, 0)
		src := incr.Var(g, 7)
		failNow := false
		b := incr.BindContext(g, sel, func(_ context.Context, bs incr.Scope, s int) (incr.Incr[int], error) {
			if failNow {
				return nil, errors.New("planned bind failure")
			}
			return incr.Return(bs, s), nil
		})
		snapAt := start.Add(time.Duration(2+rng.Intn(5)) * time.Minute)
		snap := incr.Snapshot(g, clock, src, snapAt, -1)
		atWhen := start.Add(time.Duration(1+rng.Intn(6)) * time.Minute)
		at := incr.At(g, clock, atWhen)
		ob, os, oa := incr.MustObserve(g, b), incr.MustObserve(g, snap), incr.MustObserve(g, at)
		if err := pass(g, par); err != nil {
			return passes, err.Error()
		}
		passes++
		now := start
		srcVal := 7
		captured, have := -1, false
		for step := 0; step < 8; step++ {
			now = now.Add(time.Duration(1+rng.Intn(3)) * time.Minute)
			clock.Advance(now)
			srcVal = 10 + rng.Intn(80)
			src.Set(srcVal)
			failNow = rng.Chance(1, 2)
			if failNow {
				sel.Set(100 + step)
			}
			err := pass(g, par)
			passes++
			if failNow != (err != nil) {
				return passes, fmt.Sprintf("round %d step %d: bind failure planned=%v, pass returned %v", r, step, failNow, err)
			}
			if failNow {
				failNow = false
				if err := pass(g, par); err != nil {
					return passes, fmt.Sprintf("round %d step %d: retry failed: %v", r, step, err)
				}
				passes++
			}
			if !have && !now.Before(snapAt) {
				captured, have = srcVal, true
			}
			if have && os.Value() != captured {
				return passes, fmt.Sprintf("round %d step %d: Snapshot reads %d, the value its input held at the first successful pass at or after its time was %d", r, step, os.Value(), captured)
			}
			if !have && os.Value() != -1 {
				return passes, fmt.Sprintf("round %d step %d: Snapshot reads %d before its time", r, step, os.Value())
			}
			if oa.Value() != !now.Before(atWhen) {
				return passes, fmt.Sprintf("round %d step %d: At reads %v at %v, its time is %v", r, step, oa.Value(), now.Sub(start), atWhen.Sub(start))
			}
			_ = ob
		}
	}
	return passes, ""
}

// one height block: some nodes fail (error or panic) and re-queue themselves while their
// siblings succeed and queue children
func failingSiblings(par, rounds int, rng *hx.Rand) (int, string) {
	passes := 0
	for r := 0; r < rounds; r++ {
		g := newGraph(par)
		const w = 12
		vars := make([]incr.VarIncr[int], w)
		obs := make([]incr.ObserveIncr[int], w)
		failNow := make([]int, w) // 0 ok, 1 error, 2 panic (read by the node functions; written between passes only)
		for i := 0; i < w; i++ {
			i := i
			vars[i] = incr.Var(g, i)
			m := incr.MapContext(g, vars[i], func(_ context.Context, x int) (int, error) {
				switch failNow[i] {
				case 1:
					return 0, errors.New("planned failure")
				case 2:
					panic("planned panic")
				}
				return x * 2, nil
			})
			c := incr.Map(g, m, func(x int) int { return x + 1 })
			obs[i] = incr.MustObserve(g, c)
		}
		if err := pass(g, par); err != nil {
			return passes, err.Error()
		}
		passes++
		val := make([]int, w)
		for i := range val {
			val[i] = i
		}
		for step := 0; step < 4; step++ {
			anyFail := false
			for i := 0; i < w; i++ {
				val[i] = rng.Intn(100)
				vars[i].Set(val[i])
				failNow[i] = 0
				if rng.Chance(1, 3) {
					failNow[i] = 1 + rng.Intn(2)
					anyFail = true
				}
			}
			err := pass(g, par)
			passes++
			if anyFail != (err != nil) {
				return passes, fmt.Sprintf("round %d step %d: planned failure=%v but the pass returned %v", r, step, anyFail, err)
			}
			for i := range failNow {
				failNow[i] = 0
			}
			if err := pass(g, par); err != nil {
				return passes, fmt.Sprintf("round %d step %d: the retry pass failed: %v", r, step, err)
			}
			passes++
			for i := 0; i < w; i++ {
				if obs[i].Value() != val[i]*2+1 {
					return passes, fmt.Sprintf("round %d step %d: after the fault-free retry observer %d reads %d, from scratch %d", r, step, i, obs[i].Value(), val[i]*2+1)
				}
			}
		}
	}
	return passes, ""
}

// UnorderedArrayFold over many inputs of one height block, all changing in one pass
func foldManyInputs(par, rounds int, rng *hx.Rand) (int, string) {
	passes := 0
	for r := 0; r < rounds; r++ {
		g := newGraph(par)
		const w = 24
		vars := make([]incr.VarIncr[int], w)
		ins := make([]incr.Incr[int], 0, w+4)
		for i := 0; i < w; i++ {
			vars[i] = incr.Var(g, i)
			ins = append(ins, incr.Map(g, vars[i], func(x int) int { return x * 3 }))
		}
		ins = append(ins, ins[0], ins[1], ins[0]) // repeated inputs
		f := incr.UnorderedArrayFold(g, 0, func(acc, x int) int { return acc + x }, func(acc, o, n int) int { return acc - o + n }, ins...)
		of := incr.MustObserve(g, f)
		val := make([]int, w)
		for i := range val {
			val[i] = i
		}
		for step := 0; step < 5; step++ {
			if err := pass(g, par); err != nil {
				return passes, err.Error()
			}
			passes++
			want := 0
			for i := 0; i < w; i++ {
				want += val[i] * 3
			}
			want += 2*val[0]*3 + val[1]*3
			if of.Value() != want {
				return passes, fmt.Sprintf("round %d step %d: the fold reads %d, folding the inputs from scratch gives %d", r, step, of.Value(), want)
			}
			for i := 0; i < w; i++ {
				if rng.Chance(2, 3) {
					val[i] = rng.Intn(1000)
					vars[i].Set(val[i])
				}
			}
		}
	}
	return passes, ""
}

// an observer released from inside a node function of the running pass, after the node it
// observes has already changed in that pass: its update handler was filed and must be withdrawn
func unobserveFromNodeFunction(par, rounds int, rng *hx.Rand) (int, string) {
	passes := 0
	for r := 0; r < rounds; r++ {
		g := newGraph(par)
		v := incr.Var(g, 1)
		m := incr.Map(g, v, func(x int) int { return x + 100 })
		var om incr.ObserveIncr[int]
		drop := false
		dropped := false
		d := incr.Map(g, m, func(x int) int {
			if drop && !dropped {
				dropped = true
				om.Unobserve(ctx)
			}
			return x + 1
		})
		od := incr.MustObserve(g, d)
		om = incr.MustObserve(g, m)
		var calls []int
		om.OnUpdate(func(_ context.Context, val int) { calls = append(calls, val) })
		want := []int{}
		x := 1
		n := 2 + rng.Intn(3)
		for i := 0; i < n+2; i++ {
			if i > 0 {
				x += 1 + rng.Intn(5)
				v.Set(x)
			}
			if i == n {
				drop = true
			}
			if err := pass(g, par); err != nil {
				return passes, err.Error()
			}
			passes++
			if !dropped {
				want = append(want, x+100)
			}
			if fmt.Sprint(calls) != fmt.Sprint(want) {
				return passes, fmt.Sprintf("round %d pass %d: the observer's update handler was called with %v, expected %v (the observer was released from a node function in pass %d, after the node it observed had changed)", r, i, calls, want, n)
			}
			if od.Value() != x+101 {
				return passes, fmt.Sprintf("round %d pass %d: downstream observer reads %d, expected %d", r, i, od.Value(), x+101)
			}
		}
		od.Unobserve(ctx)
		if nn := incr.ExpertGraph(g).NumNodes(); nn != 0 {
			return passes, fmt.Sprintf("round %d: %d nodes left after every observer was released", r, nn)
		}
	}
	return passes, ""
}

// several binds of one height whose right-hand sides read shared outer nodes of different
// heights, all switching in the same pass
func bindsSharingOuter(par, rounds int, rng *hx.Rand) (int, string) {
	passes := 0
	for r := 0; r < rounds; r++ {
		g := newGraph(par)
		sel := incr.Var(g, 0)
		base := incr.Var(g, 1)
		o1 := incr.Map(g, base, func(x int) int { return x + 1 })
		o2 := incr.Map(g, o1, func(x int) int { return x * 2 })
		o3 := incr.Map2(g, o1, o2, func(x, y int) int { return x + y })
		outer := []incr.Incr[int]{base, o1, o2, o3}
		const nb = 6
		obs := make([]incr.ObserveIncr[int], nb)
		for k := 0; k < nb; k++ {
			k := k
			b := incr.Bind(g, sel, func(bs incr.Scope, s int) incr.Incr[int] {
				a := outer[(s+k)%4]
				c := outer[(s+2*k+1)%4]
				return incr.Map2(bs, a, c, func(x, y int) int { return x*7 + y + k })
			})
			obs[k] = incr.MustObserve(g, b)
		}
		s, bv := 0, 1
		for step := 0; step < 6; step++ {
			if err := pass(g, par); err != nil {
				return passes, err.Error()
			}
			passes++
			v := []int{bv, bv + 1, (bv + 1) * 2, bv + 1 + (bv+1)*2}
			for k := 0; k < nb; k++ {
				want := v[(s+k)%4]*7 + v[(s+2*k+1)%4] + k
				if obs[k].Value() != want {
					return passes, fmt.Sprintf("round %d step %d: bind %d reads %d, from scratch %d (sel=%d base=%d)", r, step, k, obs[k].Value(), want, s, bv)
				}
			}
			if rng.Chance(2, 3) {
				s = rng.Intn(8)
				sel.Set(s)
			}
			if rng.Chance(2, 3) {
				bv = rng.Intn(50)
				base.Set(bv)
			}
		}
	}
	return passes, ""
}

func main() {
	var (
		seed    = flag.Uint64("seed", 1, "seed")
		rounds  = flag.Int("rounds", 40, "graphs per scenario and parallelism")
		jsonOut = flag.String("json", "", "report file")
		claim   = flag.String("claim", "C04", "property the violations are reported for")
		only    = flag.String("only", "", "run only the scenarios whose name contains this text")
	)
	flag.Parse()
	scenarios := []scenario{
		{"var-in-bind-scope-set-by-sibling", "a var created inside a bind scope is written (deferred Set) by a node function of its own height block", varInScope},
		{"var-in-bind-scope-set-from-a-lower-block", "a queued var created inside a bind scope is written (deferred Set) by a node function of a lower height block", varInScopeSetFromBelow},
		{"writes-from-update-handlers", "a var written mid-pass by a node function and afterwards by an update handler of the same pass; Updates from handlers", setFromUpdateHandler},
		{"memoized-bind-nested-in-a-bind", "BindMemoized created inside a bind's function under an upstream bind of changing depth, against its plain-Bind twin", memoNestedInBind},
		{"memoized-rhs-with-aggregates-reused", "a cached right-hand side containing UnorderedArrayFold/ReduceBalanced leaves and re-enters the graph with its key, inputs written meanwhile", memoFoldReuse},
		{"time-nodes-next-to-a-failing-bind", "a Snapshot woken by Clock.Advance in the height block of a bind whose function fails in that pass", timeNodesNextToFailingBind},
		{"failing-siblings-queue-children", "nodes of one height block fail or panic and re-queue themselves while siblings queue children", failingSiblings},
		{"fold-many-inputs", "UnorderedArrayFold with repeated inputs, most inputs changing in one pass", foldManyInputs},
		{"unobserve-from-a-node-function", "an observer is released from inside a node function after the node it observes changed in that pass", unobserveFromNodeFunction},
		{"binds-sharing-outer-nodes", "six binds of one height switch between shared outer nodes of different heights in one pass", bindsSharingOuter},
	}
	rep := hx.NewReport("parscen", *seed)
	rng := hx.NewRand(*seed)
	for _, sc := range scenarios {
		if *only != "" && !strings.Contains(sc.name, *only) {
			continue
		}
		for _, par := range []int{0, 1, 2, 4, 16} {
			passes, problem := sc.run(par, *rounds, rng.Fork())
			rep.Evaluations += passes
			rep.Distinct += *rounds
			rep.Count(fmt.Sprintf("%s/p=%d:passes", sc.name, par))
			rep.Histogram[fmt.Sprintf("%s/p=%d:passes", sc.name, par)] = passes
			if problem != "" {
				rep.AddViolation(hx.Violation{Property: *claim, What: "stabilization scenario '" + sc.what + "': " + problem,
					Key:    "parscen:" + sc.name,
					Replay: map[string]any{"scenario": sc.name, "parallelism": par, "seed": *seed, "rounds": *rounds, "cmd": "harness/cmd/parscen -seed <seed> -rounds <rounds>"}})
			}
		}
	}
	rep.Rule = fmt.Sprintf("%d hand-written scenarios x (Stabilize, ParallelStabilize at parallelism 1,2,4,16) x %d fresh graphs, 5-13 passes each; evaluations = passes; "+
		"every pass's observer values compared with the program's plain definition", len(scenarios), *rounds)
	if *jsonOut != "" {
		if err := rep.Write(*jsonOut); err != nil {
			fmt.Fprintln(os.Stderr, err)
			os.Exit(2)
		}
	}
	fmt.Printf("parscen: %d passes, %d violations\n", rep.Evaluations, len(rep.Violations))
}
