// incrtrace generates engine histories, runs them on the real library, evaluates the
// property oracles on the implementation and writes the recorded histories as Gallina.
package main

import (
	"encoding/json"
	"flag"
	"fmt"
	"os"
	"strings"
	"sync/atomic"
	"time"

	"verifharness/internal/eng"
	"verifharness/internal/hx"
)

func main() {
	var (
		prop     = flag.String("prop", "C01", "property stream")
		count    = flag.Int("n", 100, "number of histories")
		seed     = flag.Uint64("seed", 1, "seed")
		coqOut   = flag.String("coq", "", "Gallina cases file")
		coqMax   = flag.Int("coqmax", 100, "at most this many histories go to the Gallina file")
		jsonOut  = flag.String("json", "", "report file")
		ops      = flag.Int("ops", 40, "operations per history")
		only     = flag.Int("only", -1, "keep only this history index (debugging)")
		claim    = flag.String("claim", "", "property whose oracle findings are violations (default: none)")
		include  = flag.String("include", "", "comma separated oracle families that also count as violations of the claimed property")
		mode     = flag.String("mode", "random", "random | memokeys (exhaustive key sequences through a BindMemoized)")
		dagNodes = flag.Int("dagnodes", 3, "dags: number of MapN nodes")
		dagMaxH  = flag.Int("dagmaxh", 256, "dags: the graph's MaxHeight")
		replay   = flag.String("replay", "", "replay the history stored in this replay/corpus file (or every *.json in this directory) and report what the oracles say")
		length   = flag.Int("len", 5, "memokeys: key sequences up to this length")
		online   = flag.Bool("online", false, "with -par: generate every history online on the parallel graph (no serial twin); always the case for fault profiles")
		par      = flag.Int("par", 0, "if > 0: replay every history on a graph driven by ParallelStabilize with this parallelism, compare with the serial run, and record the PARALLEL run for the model")
	)
	flag.Parse()
	if *replay != "" {
		rc := replayFiles(*replay, *claim, *include, *jsonOut, *seed)
		if *jsonOut != "" {
			rc = 0 // the findings are in the report
		}
		os.Exit(rc)
	}
	rep := hx.NewReport("incrtrace/"+*prop, *seed)
	rng := hx.NewRand(*seed)
	// watchdog: an operation of the library that does not return (a corrupted queue that is
	// walked for ever, a deadlock) is an outcome, reported with the history that led to it
	var lastProgress atomic.Int64
	lastProgress.Store(time.Now().UnixNano())
	go func() {
		for {
			time.Sleep(2 * time.Second)
			if time.Since(time.Unix(0, lastProgress.Load())) < 25*time.Second {
				continue
			}
			e, pend := eng.Current, eng.Pending.Load()
			if e == nil || pend == nil {
				continue
			}
			strs := e.OpStrings()
			ops := append([]eng.Op(nil), e.Ops...)
			strs, ops = append(strs, pend.String()), append(ops, *pend)
			rep.AddViolation(hx.Violation{Property: *claim, What: fmt.Sprintf("%s did not return within 25 s (the library is looping or blocked)", pend.String()),
				Key:    "engine:hang:" + pend.K,
				Replay: map[string]any{"max_height": e.MaxHeight, "ops": strs, "ops_json": ops, "kind": "hang", "seed": *seed, "parallelism": *par}})
			if *jsonOut != "" {
				_ = rep.Write(*jsonOut)
			}
			fmt.Printf("incrtrace %s: an operation did not return; reported\n", *prop)
			os.Exit(0)
		}
	}()
	prof := eng.ProfileFor(*prop)
	if len(prof.Prefix) == 0 {
		prof.Ops = *ops
	}
	distinct := hx.Distinct{}
	reported := map[string]int{}
	var cases []string
	var memo [][]eng.Op
	if *mode == "memokeys" {
		memo = eng.MemoKeyHistories(*length, rng)
		*count = len(memo)
		prof.Name = "memokeys"
	}
	if *mode == "dags" {
		memo = eng.DagHistories(*dagNodes, *length)
		*count = len(memo)
		prof.Name = "dags"
		prof.MaxHeight = *dagMaxH
	}
	for i := 0; i < *count; i++ {
		lastProgress.Store(time.Now().UnixNano())
		var e *eng.Exec
		var mon *eng.Monitor
		if memo != nil {
			e, mon, _ = eng.Replay(prof.MaxHeight, memo[i])
		} else if *par > 0 && (prof.WFaultPass > 0 || *online) {
			e, mon = eng.RunRandomPar(rng.Fork(), prof, *par)
		} else {
			e, mon = eng.RunRandom(rng.Fork(), prof)
		}
		findings := mon.Findings
		if *par > 0 && prof.WFaultPass == 0 && !*online {
			pe, _, pf := eng.RunTwin(e, *par, prof.WFaultPass == 0)
			findings = pf
			e = pe
		}
		if *claim == "C11" && *par == 0 && memo == nil {
			hasFault := false
			for _, o := range e.Ops {
				for _, a := range o.Plan {
					// node functions that fail or write vars are not pure: whether they run at all
					// legitimately differs between a program and its cutoff-free twin
					hasFault = true
					_ = a
				}
			}
			if !hasFault {
				findings = append(findings, eng.RunEraseTwin(e)...)
			}
		}
		seenKind := map[string]bool{}
		for _, f := range findings {
			sig := f.Prop + ":" + f.Kind
			if seenKind[sig] {
				continue
			}
			seenKind[sig] = true
			if f.Prop != *claim && !strings.Contains(","+*include+",", ","+f.Prop+",") {
				rep.Count("other-finding:" + sig)
				continue
			}
			if reported[sig] >= 2 {
				rep.Count("finding-again:" + sig)
				continue
			}
			reported[sig]++
			small := e.Ops[:min(f.Op+1, len(e.Ops))]
			if *par == 0 {
				small = eng.Shrink(prof.MaxHeight, small, f.Prop, f.Kind)
			}
			what := f.What
			if _, m2, ok := eng.Replay(prof.MaxHeight, small); ok && *par == 0 {
				for _, f2 := range m2.Findings {
					if f2.Prop == f.Prop && f2.Kind == f.Kind {
						what = f2.What
						break
					}
				}
			}
			strs := make([]string, len(small))
			coq := make([]string, len(small))
			for j, o := range small {
				strs[j] = o.String()
				coq[j] = o.Coq()
			}
			rep.AddViolation(hx.Violation{Property: *claim, What: what, Key: "engine:" + sig + ":" + strings.Join(strs, ";"),
				Replay: map[string]any{"max_height": prof.MaxHeight, "ops": strs, "ops_gallina": coq, "ops_json": small, "kind": f.Kind,
					"history_index": i, "seed": *seed, "parallelism": *par}})
		}
		rep.Evaluations++
		strs := e.OpStrings()
		for _, o := range e.Ops {
			rep.Count(o.K)
		}
		rep.Sizes[fmt.Sprintf("nodes<=%d", (e.Next/10+1)*10)]++
		if *mode == "dags" {
			adds := 0
			for j, o := range e.Ops {
				if o.K == "AddInput" && e.Samples[j].Class == "XOk" {
					adds++
				}
			}
			if adds >= 2 {
				distinct.Add(strings.Join(strs, ";"))
			}
		} else if eng.NonTrivial(e) {
			distinct.Add(strings.Join(strs, ";"))
		}
		for _, s := range e.Samples {
			if s.Crashed {
				rep.Count("crashed")
				msg := s.CrashMsg
				if len(msg) > 90 {
					msg = msg[:90]
				}
				rep.Count("crash:" + msg)
			}
			if s.Class != "XOk" {
				rep.Count("result:" + s.Class)
			}
		}
		if *only >= 0 && i != *only {
			continue
		}
		if *only >= 0 {
			for j, o := range e.Ops {
				fmt.Printf("%3d %-50s %s ev=%v heap=%v reg=%v vals=%v\n", j, o.String(), e.Samples[j].Class, e.Samples[j].Events, e.Samples[j].Heap, e.Samples[j].Reg, e.Samples[j].Vals)
			}
		}
		if *par > 0 && writesSeveralVars(e.Ops) {
			// ParallelStabilize refuses deterministic graphs, so the values deferred during a pass
			// are applied in Go map order: with two or more vars written in one pass the order in
			// which they are re-queued -- and with it the creation order of nodes in the next pass --
			// is not a function of the history. The oracles above still ran; the model replay
			// (which applies them in identifier order) is only meaningful for the other histories.
			rep.Count("not-replayed:several-vars-written-in-a-parallel-pass")
			continue
		}
		if len(cases) < *coqMax && (memo == nil || i%(len(memo) / *coqMax + 1) == 0) {
			cases = append(cases, e.CoqCase())
		}
		if i < 2 {
			rep.Samples = append(rep.Samples, map[string]any{"ops": strs})
		}
	}
	rep.Distinct = len(distinct)
	rep.CoqCases = len(cases)
	rep.Rule = fmt.Sprintf("%d random histories of %d well-formed operations (profile %s); non-trivial = some pass ran >= 2 node "+
		"functions after a write; distinct by operation sequence", *count, *ops, prof.Name)
	if *mode == "dags" {
		rep.Exhaustive = true
		rep.Rule = fmt.Sprintf("every sequence of <= %d edge insertions/removals (MapN.AddInput/RemoveInput) between %d observed MapN nodes and a "+
			"leaf var, MaxHeight %d, cycles included (they must be rejected; a history stops at the first rejection): %d histories",
			*length, *dagNodes, *dagMaxH, len(memo))
	} else if memo != nil {
		rep.Exhaustive = true
		rep.Rule = fmt.Sprintf("every key sequence of length <= %d over 4 keys through one BindMemoized with 4 right-hand-side templates "+
			"(constant, reads an outer node, nested bind, map2 of the key and an outer node), each sequence alone, with an outer-input write "+
			"before every position, and with a cache Purge/Clear before every position (sampled beyond length 5), then unobserve: %d "+
			"histories; non-trivial = some pass ran >= 2 node functions after a write", *length, len(memo))
	}
	if *coqOut != "" {
		var b strings.Builder
		b.WriteString("From incr Require Import Base Heap EngineDefs Engine EngineRun EngineWf Spec SpecProofs SpecRun.\nDefinition cases : list case := [\n")
		b.WriteString(strings.Join(cases, ";\n"))
		b.WriteString("].\nDefinition M := Eval vm_compute in mismatches cases.\nPrint M.\n")
		// the model's own invariants along the same histories: the quiescent well-formedness after
		// every operation (W) and local consistency + agreement with the from-scratch evaluator
		// after every successful pass without mid-pass writes (C)
		if prof.Name != "reject" && prof.Name != "limit" && prof.Name != "dags" && prof.Name != "deadobs" { // (deadobs: an observed node of a discarded generation keeps its old edges although invalid, which the quiescent invariant excludes by hypothesis) // after a structural rejection the invariants are known not to hold (recorded finding)
			b.WriteString("Definition W := Eval vm_compute in omap (fun c : case => wf_trace_live (init (fst (fst c))) (map fst (snd c)) 0) cases.\nPrint W.\n")
			b.WriteString("Definition C := Eval vm_compute in omap (fun c : case => c01_hyp_trace (init (fst (fst c))) (map fst (snd c)) 0) cases.\nPrint C.\n")
		}
		if err := os.WriteFile(*coqOut, []byte(b.String()), 0o644); err != nil {
			fmt.Fprintln(os.Stderr, err)
			os.Exit(2)
		}
	}
	if *jsonOut != "" {
		if err := rep.Write(*jsonOut); err != nil {
			fmt.Fprintln(os.Stderr, err)
			os.Exit(2)
		}
	}
	fmt.Printf("incrtrace %s: %d histories, %d distinct non-trivial, %d violations, %d coq cases, hist=%v\n",
		*prop, rep.Evaluations, rep.Distinct, len(rep.Violations), rep.CoqCases, rep.Histogram)
}

// replayFiles re-runs stored histories (field replay.ops_json) with all oracles on.
func replayFiles(path, claim, include, jsonOut string, seed uint64) int {
	rep := hx.NewReport("incrtrace/corpus", seed)
	rep.Rule = "stored histories (minimised failures found earlier, one file each) replayed with every oracle on"
	defer func() {
		if jsonOut != "" {
			_ = rep.Write(jsonOut)
		}
	}()
	var files []string
	if st, err := os.Stat(path); err == nil && st.IsDir() {
		entries, _ := os.ReadDir(path)
		for _, en := range entries {
			if strings.HasSuffix(en.Name(), ".json") {
				files = append(files, path+"/"+en.Name())
			}
		}
	} else {
		files = []string{path}
	}
	rc := 0
	for _, f := range files {
		data, err := os.ReadFile(f)
		if err != nil {
			fmt.Println(f, err)
			continue
		}
		var doc struct {
			Replay struct {
				MaxHeight   int      `json:"max_height"`
				Ops         []eng.Op `json:"ops_json"`
				Parallelism int      `json:"parallelism"`
			} `json:"replay"`
		}
		if err := json.Unmarshal(data, &doc); err != nil || len(doc.Replay.Ops) == 0 {
			fmt.Printf("%s: no replayable history (ops_json) in this file\n", f)
			continue
		}
		mh := doc.Replay.MaxHeight
		if mh == 0 {
			mh = 256
		}
		faults := false
		for i := range doc.Replay.Ops {
			if doc.Replay.Parallelism > 0 && doc.Replay.Ops[i].K == "ParStabilize" {
				doc.Replay.Ops[i].K = "Stabilize" // the serial twin; RunTwin turns it back
			}
			for _, a := range doc.Replay.Ops[i].Plan {
				if a.Kind == "AFailErr" || a.Kind == "AFailPanic" {
					faults = true
				}
			}
		}
		e, mon, ok := eng.Replay(mh, doc.Replay.Ops)
		findings := mon.Findings
		if doc.Replay.Parallelism > 0 {
			e, _, findings = eng.RunTwin(e, doc.Replay.Parallelism, !faults)
		}
		fmt.Printf("%s: %d operations, well-formed=%v\n", f, len(e.Ops), ok)
		for j, o := range e.Ops {
			fmt.Printf("  %2d %-40s %s %v\n", j, o.String(), e.Samples[j].Class, e.Samples[j].Raw)
			if e.Samples[j].Stack != "" {
				fmt.Println(e.Samples[j].Stack)
			}
		}
		rep.Evaluations++
		rep.Distinct++
		for _, fd := range findings {
			fmt.Printf("  FINDING %s:%s %s\n", fd.Prop, fd.Kind, fd.What)
			if fd.Prop == claim || strings.Contains(","+include+",", ","+fd.Prop+",") || claim == "" {
				rc = 1
				rep.AddViolation(hx.Violation{Property: claim, What: fd.What + " (stored history " + f + ")", Key: "engine:" + fd.Prop + ":" + fd.Kind + ":" + strings.Join(e.OpStrings(), ";"),
					Replay: map[string]any{"max_height": mh, "ops": e.OpStrings(), "ops_json": e.Ops, "kind": fd.Kind, "corpus_file": f, "parallelism": doc.Replay.Parallelism}})
			}
		}
	}
	return rc
}

// writesSeveralVars: some pass of the history carries a plan that writes two or more distinct vars.
func writesSeveralVars(ops []eng.Op) bool {
	for _, o := range ops {
		vars := map[int]bool{}
		for _, a := range o.Plan {
			if a.Kind == "ASet" || a.Kind == "AUpdate" {
				vars[a.Var] = true
			}
		}
		if len(vars) > 1 {
			return true
		}
	}
	return false
}
