module verifharness

go 1.25

require github.com/wcharczuk/go-incr v0.0.0

replace github.com/wcharczuk/go-incr => /repo
