// Package hx holds helpers shared by the verification harness commands: a seeded PRNG,
// Gallina printers and the JSON report written for bin/check.
package hx

import (
	"encoding/json"
	"fmt"
	"os"
	"sort"
	"strings"
)

// Rand is splitmix64: every random choice of a run derives from one seed.
type Rand struct{ s uint64 }

func NewRand(seed uint64) *Rand {
	// the seed goes through the output mix: with a state that is linear in the seed, the streams
	// of neighbouring seeds are shifted copies of each other
	z := seed*0x9E3779B97F4A7C15 + 0x1234567
	z = (z ^ (z >> 30)) * 0xBF58476D1CE4E5B9
	z = (z ^ (z >> 27)) * 0x94D049BB133111EB
	return &Rand{s: z ^ (z >> 31)}
}

func (r *Rand) Uint64() uint64 {
	r.s += 0x9E3779B97F4A7C15
	z := r.s
	z = (z ^ (z >> 30)) * 0xBF58476D1CE4E5B9
	z = (z ^ (z >> 27)) * 0x94D049BB133111EB
	return z ^ (z >> 31)
}

// Intn returns a value in [0,n).
func (r *Rand) Intn(n int) int {
	if n <= 0 {
		return 0
	}
	return int(r.Uint64() % uint64(n))
}

// Range returns a value in [lo,hi].
func (r *Rand) Range(lo, hi int) int { return lo + r.Intn(hi-lo+1) }

// Chance is true with probability num/den.
func (r *Rand) Chance(num, den int) bool { return r.Intn(den) < num }

// Fork derives an independent stream.
func (r *Rand) Fork() *Rand { return NewRand(r.Uint64()) }

// Z prints an integer as a Gallina Z literal.
func Z(v int64) string {
	if v < 0 {
		return fmt.Sprintf("(%d)", v)
	}
	return fmt.Sprintf("%d", v)
}

// NatList prints a list of naturals.
func NatList(xs []int) string {
	parts := make([]string, len(xs))
	for i, x := range xs {
		parts[i] = fmt.Sprintf("%d%%nat", x)
	}
	return "[" + strings.Join(parts, "; ") + "]"
}

// ZList prints a list of integers.
func ZList(xs []int64) string {
	parts := make([]string, len(xs))
	for i, x := range xs {
		parts[i] = Z(x)
	}
	return "[" + strings.Join(parts, "; ") + "]"
}

// List joins already printed Gallina terms into a list.
func List(xs []string) string { return "[" + strings.Join(xs, ";\n  ") + "]" }

func Bool(b bool) string {
	if b {
		return "true"
	}
	return "false"
}

// Violation is one property failure seen on the implementation, with its replay.
type Violation struct {
	Property string `json:"property"`
	What     string `json:"what"`
	Key      string `json:"key"` // stable identification used by known_findings.json
	Replay   any    `json:"replay"`
}

// Report is what each harness command writes for bin/check.
type Report struct {
	Tool        string         `json:"tool"`
	Seed        uint64         `json:"seed"`
	Evaluations int            `json:"evaluations"`
	Distinct    int            `json:"distinct_nontrivial"`
	Rule        string         `json:"rule"`
	Exhaustive  bool           `json:"exhaustive"`
	CoqCases    int            `json:"coq_cases"`
	Histogram   map[string]int `json:"histogram"`
	Sizes       map[string]int `json:"sizes"`
	Samples     []any          `json:"samples"`
	Violations  []Violation    `json:"violations"`
	Notes       []string       `json:"notes,omitempty"`
}

func NewReport(tool string, seed uint64) *Report {
	return &Report{Tool: tool, Seed: seed, Histogram: map[string]int{}, Sizes: map[string]int{}}
}

func (r *Report) Count(key string) { r.Histogram[key]++ }

func (r *Report) AddViolation(v Violation) {
	if len(r.Violations) < 50 {
		r.Violations = append(r.Violations, v)
	}
}

func (r *Report) Write(path string) error {
	sort.SliceStable(r.Violations, func(i, j int) bool { return r.Violations[i].Key < r.Violations[j].Key })
	data, err := json.MarshalIndent(r, "", " ")
	if err != nil {
		return err
	}
	return os.WriteFile(path, data, 0o644)
}

// Distinct counts distinct strings.
type Distinct map[string]struct{}

func (d Distinct) Add(s string) { d[s] = struct{}{} }
