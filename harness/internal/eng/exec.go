package eng

import (
	"context"
	"errors"
	"fmt"
	"runtime"
	"runtime/debug"
	"sort"
	"strings"
	"sync"
	"sync/atomic"
	"time"

	incr "github.com/wcharczuk/go-incr"
	"github.com/wcharczuk/go-incr/incrutil"
	"verifharness/internal/hx"
)

// Event mirrors EngineDefs.event.
type Event struct {
	K       string // EvInvoked EvFault EvCutoff EvBindFn EvNec EvUnnec EvInval EvUpd EvObsUpd EvErrH EvPassStart EvPassEnd
	N       int
	Args    []int
	R       int
	W       string
	FK      string
	Old     int
	New     int
	Verdict bool
	Root    int // -1 = none
	Class   string
}

func (e Event) Coq() string {
	switch e.K {
	case "EvInvoked":
		zs := make([]int64, len(e.Args))
		for i, a := range e.Args {
			zs[i] = int64(a)
		}
		return fmt.Sprintf("EvInvoked %d%%nat %s %s", e.N, hx.ZList(zs), hx.Z(int64(e.R)))
	case "EvFault":
		return fmt.Sprintf("EvFault %d%%nat %s %s", e.N, e.W, e.FK)
	case "EvCutoff":
		return fmt.Sprintf("EvCutoff %d%%nat %s %s %s", e.N, hx.Z(int64(e.Old)), hx.Z(int64(e.New)), hx.Bool(e.Verdict))
	case "EvBindFn":
		root := "None"
		if e.Root >= 0 {
			root = fmt.Sprintf("(Some %d%%nat)", e.Root)
		}
		return fmt.Sprintf("EvBindFn %d%%nat %s %s", e.N, hx.Z(int64(e.R)), root)
	case "EvObsUpd":
		return fmt.Sprintf("EvObsUpd %d%%nat %s", e.N, hx.Z(int64(e.R)))
	case "EvPassStart":
		return "EvPassStart"
	case "EvPassEnd":
		return "EvPassEnd " + gclass(e.Class)
	default: // EvNec EvUnnec EvInval EvUpd EvErrH
		return fmt.Sprintf("%s %d%%nat", e.K, e.N)
	}
}

func (e Event) String() string {
	switch e.K {
	case "EvInvoked":
		return fmt.Sprintf("run(n%d,%v)=%d", e.N, e.Args, e.R)
	case "EvFault":
		return fmt.Sprintf("fault(n%d,%s,%s)", e.N, e.W, e.FK)
	case "EvCutoff":
		return fmt.Sprintf("cutoff(n%d,%d,%d)=%v", e.N, e.Old, e.New, e.Verdict)
	case "EvBindFn":
		return fmt.Sprintf("bindfn(n%d,x=%d)->n%d", e.N, e.R, e.Root)
	case "EvObsUpd":
		return fmt.Sprintf("obsupd(o%d,%d)", e.N, e.R)
	case "EvPassStart":
		return "start"
	case "EvPassEnd":
		return "end(" + e.Class + ")"
	}
	return fmt.Sprintf("%s(n%d)", strings.ToLower(strings.TrimPrefix(e.K, "Ev")), e.N)
}

// NRef is the harness's handle on a node.
type NRef struct {
	ID      int
	Kind    string // Var Return Map Map2 MapN Cutoff Always BindLhs BindMain
	Inc     incr.Incr[int]
	INode   incr.INode
	Var     incr.VarIncr[int]
	MapN    incr.MapNIncr[int, int]
	Decl    []int // the inputs as the harness declared them (MapN: current)
	Scope   int   // -1 = top level, else the bind (lhs-change id) whose function created it
	Gen     int   // generation of that bind's function run that created it
	F1      Fn1
	F2      Fn2
	FN      string
	Cut     string
	Eq      bool
	Bind    *BRef
	Const   int  // Return value
	Fire    bool // Sentinel: its function reports 'stale' the next time it is asked (one shot)
	Fired   bool // Sentinel: it reported 'stale' during the pass being run
	Watched int  // Sentinel: the node it watches (-1 once unwatched)
	Sent    incr.SentinelIncr
	// Recycled: the library reissued this node's metadata slot to a newer node (node slabs are
	// reused two bind rebuilds later), so the handle no longer denotes a node of its own.
	Recycled bool
}

// BRef is the harness's record of a bind.
type BRef struct {
	B     int // lhs-change id; main is B+1
	Lhs   int
	Cases []*Texp
	Gen   int
	Memo  incrutil.BindMemoizedIncr[int, int] // set for BindMemoized
}

type ORef struct {
	ID     int
	Target int
	O      incr.ObserveIncr[int]
}

// Sample is the projection recorded after each operation (EngineRun.eobs).
type Sample struct {
	Crashed  bool
	CrashMsg string
	Stack    string
	Class    string
	Events   []Event // as compared with the model (canonically sorted for parallel graphs)
	Raw      []Event // in order of occurrence
	NumNodes int
	Heap     []int
	Reg      []int
	ObsVals  [][2]int
	Vals     [][2]int
	Next     int           // the creation counter after the operation
	Edges    map[int][]int // registered node -> its linked inputs (sorted ids), sentinels left out
}

func (s Sample) Coq() string {
	evs := make([]string, len(s.Events))
	for i, e := range s.Events {
		evs[i] = e.Coq()
	}
	pairs := func(ps [][2]int) string {
		parts := make([]string, len(ps))
		for i, p := range ps {
			parts[i] = fmt.Sprintf("(%d%%nat, %s)", p[0], hx.Z(int64(p[1])))
		}
		return "[" + strings.Join(parts, "; ") + "]"
	}
	edges := make([]string, 0, len(s.Reg))
	for _, id := range s.Reg {
		edges = append(edges, fmt.Sprintf("(%d%%nat, %s)", id, hx.NatList(s.Edges[id])))
	}
	return fmt.Sprintf("EObs %s %s [%s] %s %s %s %s %s [%s]", hx.Bool(s.Crashed), gclass(s.Class), strings.Join(evs, "; "),
		hx.Z(int64(s.NumNodes)), hx.NatList(s.Heap), hx.NatList(s.Reg), pairs(s.ObsVals), pairs(s.Vals), strings.Join(edges, "; "))
}

type harnessPanic struct{ node int }

var errUser = errors.New("verif: injected error")

// Exec runs a history on a real graph.
type Exec struct {
	G         *incr.Graph
	MaxHeight int
	Next      int
	Nodes     []*NRef // index = id; nil for observer ids
	Obs       map[int]*ORef
	byIdent   map[incr.Identifier]int
	byPtr     map[*incr.Node]int
	mu        sync.Mutex
	events    []Event
	plan      map[string][]Action
	Ops       []Op
	Samples   []Sample
	InPass    bool
	Par       int  // 0 = serial deterministic graph; otherwise the graph's parallelism
	EraseEq   bool // the cutoff-free twin of C11: CutoffEqual becomes an identity map, VarEqual a plain Var
	Sorted    bool // compare events with the model as multisets (parallel graphs; nodes wider than the edge index threshold)
	// hooks for oracles
	OnEvent  func(Event)
	OnAction func(Action)
}

// NewExecPar returns an executor whose graph may be stabilized in parallel (the library refuses
// ParallelStabilize on a deterministic graph, so update handlers and deferred writes run in
// map order there: their events are compared as multisets).
func NewExecPar(maxHeight, parallelism int) *Exec {
	e := newExec(maxHeight, incr.New(incr.OptGraphMaxHeight(maxHeight), incr.OptGraphParallelism(parallelism)))
	e.Par = parallelism
	return e
}

func NewExec(maxHeight int, opts ...incr.GraphOption) *Exec {
	all := append([]incr.GraphOption{incr.OptGraphDeterministic(true), incr.OptGraphMaxHeight(maxHeight)}, opts...)
	return newExec(maxHeight, incr.New(all...))
}

// Current is the executor of the history being run (for the watchdog of cmd/incrtrace); Pending
// is the operation it is in the middle of.
var (
	Current *Exec
	Pending atomic.Pointer[Op]
)

func newExec(maxHeight int, g *incr.Graph) *Exec {
	e := &Exec{G: g, MaxHeight: maxHeight, Obs: map[int]*ORef{}, byIdent: map[incr.Identifier]int{}, byPtr: map[*incr.Node]int{}}
	Current = e
	e.G.OnStabilizationStart(func(context.Context) { e.emit(Event{K: "EvPassStart"}) })
	e.G.OnStabilizationEnd(func(_ context.Context, _ time.Time, err error) {
		class, _, _ := Classify(err)
		e.emit(Event{K: "EvPassEnd", Class: class})
	})
	return e
}

func (e *Exec) emit(ev Event) {
	e.mu.Lock()
	defer e.mu.Unlock()
	e.events = append(e.events, ev)
	if e.OnEvent != nil {
		e.OnEvent(ev)
	}
}

// gclass prints a result class for the model, which has no constructor for "cancelled, but the
// cause was lost": it is shown as a class the model never produces for a cancelled pass, so that
// the replay reports the disagreement instead of failing to parse.
func gclass(c string) string {
	if c == "XCancelNoCause" {
		return "XUser"
	}
	return c
}

// errCancelCause is the cause the harness cancels a pass's context with.
var errCancelCause = errors.New("harness: context cancelled with this cause")

// Classify maps an error to the model's errclass; crashed = an internal panic was reported.
func Classify(err error) (class string, crashed bool, msg string) {
	if err == nil {
		return "XOk", false, ""
	}
	var pe *incr.PanicError
	switch {
	case errors.Is(err, incr.ErrAlreadyStabilizing):
		return "XAlready", false, ""
	case errors.As(err, &pe):
		if _, ok := pe.Value.(harnessPanic); ok {
			return "XPanic", false, ""
		}
		return "XPanic", true, fmt.Sprintf("internal panic reported as *PanicError: %v", pe.Value)
	case errors.Is(err, errUser):
		return "XUser", false, ""
	case errors.Is(err, errCancelCause):
		return "XCancelled", false, ""
	case errors.Is(err, context.Canceled):
		return "XCancelNoCause", false, ""
	case strings.Contains(err.Error(), "cycle detected"):
		return "XCycle", false, ""
	case strings.Contains(err.Error(), "cannot set node height above"):
		return "XLimit", false, ""
	case strings.Contains(err.Error(), "parent node is <nil>"):
		return "XNil", false, ""
	}
	return "XUser", true, "unclassified error: " + err.Error()
}

func (e *Exec) register(kind string, inc incr.Incr[int], inode incr.INode, scope, gen int, decl []int) *NRef {
	e.mu.Lock()
	id := e.Next
	e.Next++
	ref := &NRef{ID: id, Kind: kind, Inc: inc, INode: inode, Scope: scope, Gen: gen, Decl: append([]int(nil), decl...)}
	for len(e.Nodes) <= id {
		e.Nodes = append(e.Nodes, nil)
	}
	e.Nodes[id] = ref
	n := inode.Node()
	e.byIdent[n.ID()] = id
	if old, ok := e.byPtr[n]; ok {
		e.Nodes[old].Recycled = true
	}
	e.byPtr[n] = id
	e.mu.Unlock()
	n.OnUpdate(func(context.Context) { e.emit(Event{K: "EvUpd", N: id}) })
	n.OnError(func(context.Context, error) { e.emit(Event{K: "EvErrH", N: id}) })
	n.OnBecameNecessary(func() { e.emit(Event{K: "EvNec", N: id}) })
	n.OnBecameUnnecessary(func() { e.emit(Event{K: "EvUnnec", N: id}) })
	n.OnInvalidated(func() { e.emit(Event{K: "EvInval", N: id}) })
	return ref
}

// unusedNode records that the storage behind a node the harness does not track is in use: a
// handle of an earlier node that shared it is from now on an alias.
func (e *Exec) unusedNode(n incr.INode) {
	e.mu.Lock()
	if old, ok := e.byPtr[n.Node()]; ok {
		e.Nodes[old].Recycled = true
		delete(e.byPtr, n.Node())
	}
	e.mu.Unlock()
}

// invoke performs the plan's actions for (node, which); the returned error / panic is the fault.
func (e *Exec) invoke(node int, which string) error {
	if e.Par > 1 {
		// perturb the schedule: workers of one height block really overlap
		for i := 0; i < (node*7+len(which))%4; i++ {
			runtime.Gosched()
		}
	}
	for _, a := range e.plan[fmt.Sprintf("%d/%s", node, which)] {
		if e.OnAction != nil {
			e.mu.Lock()
			e.OnAction(a)
			e.mu.Unlock()
		}
		switch a.Kind {
		case "ASet":
			e.Nodes[a.Var].Var.Set(a.X)
		case "AUpdate":
			d := a.X
			e.Nodes[a.Var].Var.Update(func(c int) int { return norm(c + d) })
		case "AFailErr":
			e.emit(Event{K: "EvFault", N: node, W: which, FK: "FErr"})
			return errUser
		case "AFailPanic":
			e.emit(Event{K: "EvFault", N: node, W: which, FK: "FPanic"})
			panic(harnessPanic{node})
		}
	}
	return nil
}

func (e *Exec) newMap(scope incr.Scope, sid, gen int, f Fn1, a int) *NRef {
	id := e.Next
	inc := incr.MapContext(scope, e.Nodes[a].Inc, func(_ context.Context, x int) (int, error) {
		if err := e.invoke(id, "WFn"); err != nil {
			return 0, err
		}
		r := f.Ap(x)
		e.emit(Event{K: "EvInvoked", N: id, Args: []int{x}, R: r})
		return r, nil
	})
	ref := e.register("Map", inc, inc, sid, gen, []int{a})
	ref.F1 = f
	return ref
}

func (e *Exec) newMap2(scope incr.Scope, sid, gen int, f Fn2, a, b int) *NRef {
	id := e.Next
	inc := incr.Map2Context(scope, e.Nodes[a].Inc, e.Nodes[b].Inc, func(_ context.Context, x, y int) (int, error) {
		if err := e.invoke(id, "WFn"); err != nil {
			return 0, err
		}
		r := f.Ap(x, y)
		e.emit(Event{K: "EvInvoked", N: id, Args: []int{x, y}, R: r})
		return r, nil
	})
	ref := e.register("Map2", inc, inc, sid, gen, []int{a, b})
	ref.F2 = f
	return ref
}

func (e *Exec) newCutoff(scope incr.Scope, sid, gen int, c string, a int) *NRef {
	if e.EraseEq && c == "CEq" {
		return e.newMap(scope, sid, gen, Fn1{1, 0}, a) // identity on the harness's value range
	}
	id := e.Next
	inc := incr.CutoffContext(scope, e.Nodes[a].Inc, func(_ context.Context, old, new int) (bool, error) {
		if err := e.invoke(id, "WCut"); err != nil {
			return false, err
		}
		v := ApCut(c, old, new)
		e.emit(Event{K: "EvCutoff", N: id, Old: old, New: new, Verdict: v})
		return v, nil
	})
	ref := e.register("Cutoff", inc, inc, sid, gen, []int{a})
	ref.Cut = c
	return ref
}

func (e *Exec) newReturn(scope incr.Scope, sid, gen int, v int) *NRef {
	inc := incr.Return(scope, v)
	ref := e.register("Return", inc, inc, sid, gen, nil)
	ref.Const = v
	return ref
}

func (e *Exec) newBind(scope incr.Scope, sid, gen int, cases []*Texp, a int) *NRef {
	return e.newBindWith(false, scope, sid, gen, cases, a)
}

func (e *Exec) newBindWith(memo bool, scope incr.Scope, sid, gen int, cases []*Texp, a int) *NRef {
	b := e.Next
	br := &BRef{B: b, Lhs: a, Cases: cases}
	fn := func(_ context.Context, bs incr.Scope, x int) (incr.Incr[int], error) {
		if err := e.invoke(b, "WFn"); err != nil {
			return nil, err
		}
		g := br.Gen
		scopeID := b
		if memo {
			// BindMemoized builds the cached subgraph in the scope the bind itself lives in
			scopeID, g = sid, gen
		}
		root := e.inst(bs, scopeID, g, x, cases[norm3(x, len(cases))])
		if !memo {
			// a branch the function builds and does not return: two nodes created in the scope
			// and never linked. They never enter the graph (the model does not know them), but
			// they take part in the scope's bookkeeping (node lists, storage slots).
			spare := incr.Return(bs, x)
			e.unusedNode(spare)
			e.unusedNode(incr.Map(bs, spare, func(v int) int { return v }))
		}
		br.Gen++
		if root == nil {
			e.emit(Event{K: "EvBindFn", N: b, R: x, Root: -1})
			return nil, nil
		}
		e.emit(Event{K: "EvBindFn", N: b, R: x, Root: root.ID})
		return root.Inc, nil
	}
	var bind incr.BindIncr[int]
	if memo {
		br.Memo = incrutil.BindMemoizedContext(scope, e.Nodes[a].Inc, fn)
		bind = br.Memo
	} else {
		bind = incr.BindContext(scope, e.Nodes[a].Inc, fn)
	}
	lhsChange := bind.Parents()[0]
	lref := e.register("BindLhs", nil, lhsChange, sid, gen, []int{a})
	lref.Bind = br
	mref := e.register("BindMain", bind, bind, sid, gen, []int{b})
	mref.Bind = br
	return mref
}

func norm3(x, m int) int { return ((x % m) + m) % m }

// Bind2Key is the value the harness's Bind2 function switches on.
func Bind2Key(a, b int) int { return norm(3*a + b) }

// newBind2 builds incr.Bind2Context: the library creates a Map2 pairing the two inputs, then a
// bind over it; the user function is handed whatever scope the library passes it.
func (e *Exec) newBind2(scope incr.Scope, sid, gen int, cases []*Texp, a, c int) *NRef {
	pair := e.Next // the internal Map2
	b := e.Next + 1
	br := &BRef{B: b, Lhs: pair, Cases: cases}
	bind := incr.Bind2Context(scope, e.Nodes[a].Inc, e.Nodes[c].Inc, func(_ context.Context, bs incr.Scope, av, cv int) (incr.Incr[int], error) {
		if err := e.invoke(b, "WFn"); err != nil {
			return nil, err
		}
		x := Bind2Key(av, cv)
		g := br.Gen
		root := e.inst(bs, b, g, x, cases[norm3(x, len(cases))])
		br.Gen++
		if root == nil {
			e.emit(Event{K: "EvBindFn", N: b, R: x, Root: -1})
			return nil, nil
		}
		e.emit(Event{K: "EvBindFn", N: b, R: x, Root: root.ID})
		return root.Inc, nil
	})
	lhsChange := bind.Parents()[0]
	pairNode := lhsChange.(incr.IParents).Parents()[0]
	pref := e.register("Pair", nil, pairNode, sid, gen, []int{a, c})
	_ = pref
	lref := e.register("BindLhs", nil, lhsChange, sid, gen, []int{pair})
	lref.Bind = br
	mref := e.register("BindMain", bind, bind, sid, gen, []int{b})
	mref.Bind = br
	return mref
}

// inst builds a template in the bind's scope, children first (the model's creation order).
func (e *Exec) inst(scope incr.Scope, b, gen, x int, t *Texp) *NRef {
	switch t.K {
	case "TRet":
		return e.newReturn(scope, b, gen, t.Z)
	case "TX":
		return e.newReturn(scope, b, gen, x)
	case "TOuter":
		return e.Nodes[t.N]
	case "TMap":
		a := e.inst(scope, b, gen, x, t.E1)
		return e.newMap(scope, b, gen, t.F1, a.ID)
	case "TMap2":
		a1 := e.inst(scope, b, gen, x, t.E1)
		a2 := e.inst(scope, b, gen, x, t.E2)
		return e.newMap2(scope, b, gen, t.F2, a1.ID, a2.ID)
	case "TCut":
		a := e.inst(scope, b, gen, x, t.E1)
		return e.newCutoff(scope, b, gen, t.Cut, a.ID)
	case "TBind":
		a := e.inst(scope, b, gen, x, t.E1)
		return e.newBind(scope, b, gen, t.Cases, a.ID)
	}
	return nil
}

// Do applies one operation and records the sample.
func (e *Exec) Do(op Op) (out Sample) {
	Pending.Store(&op)
	defer Pending.Store(nil)
	e.events = nil
	e.plan = nil
	var err error
	func() {
		defer func() {
			if r := recover(); r != nil {
				out.Crashed = true
				out.CrashMsg = fmt.Sprintf("panic escaped %s: %v", op.K, r)
				out.Stack = string(debug.Stack())
			}
		}()
		switch op.K {
		case "NewVar":
			var v incr.VarIncr[int]
			if op.Eq && !e.EraseEq {
				v = incr.VarEqual(e.G, op.V)
			} else {
				v = incr.Var(e.G, op.V)
			}
			ref := e.register("Var", v, v, -1, 0, nil)
			ref.Var, ref.Eq = v, op.Eq
		case "NewReturn":
			e.newReturn(e.G, -1, 0, op.V)
		case "NewMap":
			e.newMap(e.G, -1, 0, op.F1, op.A)
		case "NewMap2":
			e.newMap2(e.G, -1, 0, op.F2, op.A, op.B)
		case "NewMapN":
			id := e.Next
			f := op.FN
			ins := make([]incr.Incr[int], len(op.Ins))
			for i, a := range op.Ins {
				ins[i] = e.Nodes[a].Inc
			}
			mn := incr.MapNContext(e.G, func(_ context.Context, xs ...int) (int, error) {
				if err := e.invoke(id, "WFn"); err != nil {
					return 0, err
				}
				r := ApN(f, xs)
				e.emit(Event{K: "EvInvoked", N: id, Args: append([]int(nil), xs...), R: r})
				return r, nil
			}, ins...)
			ref := e.register("MapN", mn, mn, -1, 0, op.Ins)
			ref.MapN, ref.FN = mn, f
		case "NewCutoff":
			e.newCutoff(e.G, -1, 0, op.Cut, op.A)
		case "NewAlways":
			inc := incr.Always(e.G, e.Nodes[op.A].Inc)
			e.register("Always", inc, inc, -1, 0, []int{op.A})
		case "NewBind":
			e.newBind(e.G, -1, 0, op.Cases, op.A)
		case "NewBindMemo":
			e.newBindWith(true, e.G, -1, 0, op.Cases, op.A)
		case "NewBind2":
			e.newBind2(e.G, -1, 0, op.Cases, op.A, op.B)
		case "NewSentinel":
			var ref *NRef
			sid := e.Next
			sn := incr.SentinelContext(e.G, func(context.Context) (bool, error) {
				// the sentinel's own function may fail like any node function (an always node that errors)
				if err := e.invoke(sid, "WFn"); err != nil {
					return false, err
				}
				if ref != nil && ref.Fire {
					ref.Fire = false
					ref.Fired = true
					return true, nil
				}
				return false, nil
			}, e.Nodes[op.A].INode)
			ref = e.register("Sentinel", nil, sn, -1, 0, nil)
			ref.Sent, ref.Watched = sn, op.A
		case "FireSentinel":
			e.Nodes[op.A].Fire = true
		case "Unwatch":
			e.Nodes[op.A].Sent.Unwatch(context.Background())
			e.Nodes[op.A].Watched = -1
		case "PurgeMemo":
			e.Nodes[op.A].Bind.Memo.Cache().Purge(op.V)
		case "ClearMemo":
			e.Nodes[op.A].Bind.Memo.Cache().Clear()
		case "Observe":
			id := e.Next
			e.Next++
			for len(e.Nodes) <= id {
				e.Nodes = append(e.Nodes, nil)
			}
			or := &ORef{ID: id, Target: op.A}
			e.Obs[id] = or
			var o incr.ObserveIncr[int]
			o, err = incr.Observe(e.G, e.Nodes[op.A].Inc)
			if err == nil {
				or.O = o
				o.OnUpdate(func(_ context.Context, v int) { e.emit(Event{K: "EvObsUpd", N: id, R: v}) })
			}
		case "Unobserve":
			if or := e.Obs[op.A]; or != nil && or.O != nil {
				or.O.Unobserve(context.Background())
				delete(e.Obs, op.A)
			}
		case "SetVar":
			e.Nodes[op.A].Var.Set(op.V)
		case "UpdateVar":
			d := op.V
			e.Nodes[op.A].Var.Update(func(c int) int { return norm(c + d) })
		case "AddInput":
			err = e.Nodes[op.A].MapN.AddInput(e.Nodes[op.B].Inc)
			e.Nodes[op.A].Decl = append(e.Nodes[op.A].Decl, op.B)
		case "RemoveInput":
			err = e.Nodes[op.A].MapN.RemoveInput(e.Nodes[op.B].INode.Node().ID())
			var kept []int
			for _, d := range e.Nodes[op.A].Decl {
				if d != op.B {
					kept = append(kept, d)
				}
			}
			e.Nodes[op.A].Decl = kept
		case "Stabilize":
			e.plan = map[string][]Action{}
			for _, a := range op.Plan {
				key := fmt.Sprintf("%d/%s", a.Node, a.Which)
				e.plan[key] = append(e.plan[key], a)
			}
			e.InPass = true
			err = e.G.Stabilize(context.Background())
			e.InPass = false
		case "ParStabilize":
			e.plan = map[string][]Action{}
			for _, a := range op.Plan {
				key := fmt.Sprintf("%d/%s", a.Node, a.Which)
				e.plan[key] = append(e.plan[key], a)
			}
			e.InPass = true
			err = e.G.ParallelStabilize(context.Background())
			e.InPass = false
		case "StabilizeCancelled":
			// cancelled with an explicit cause: the pass must hand back the cause, not the bare
			// context.Canceled (C07); on a parallel graph the parallel stabilizer is the one asked
			ctx, cancel := context.WithCancelCause(context.Background())
			cancel(errCancelCause)
			e.InPass = true
			if e.Par > 0 {
				err = e.G.ParallelStabilize(ctx)
			} else {
				err = e.G.Stabilize(ctx)
			}
			e.InPass = false
		}
	}()
	e.InPass = false
	if !out.Crashed {
		var crashed bool
		out.Class, crashed, out.CrashMsg = Classify(err)
		out.Crashed = crashed
	} else {
		out.Class = "XPanic"
	}
	out.Next = e.Next
	out.Events = e.events
	out.Raw = e.events
	if e.Par > 0 || e.Sorted {
		out.Events = append([]Event(nil), e.events...)
		// canonical order: the replay compares event multisets for parallel graphs
		sort.SliceStable(out.Events, func(i, j int) bool { return lexLess(out.Events[i].Code(), out.Events[j].Code()) })
	}
	e.sample(&out)
	e.Ops = append(e.Ops, op)
	e.Samples = append(e.Samples, out)
	return out
}

func (e *Exec) sample(out *Sample) {
	defer func() {
		if r := recover(); r != nil {
			out.Crashed = true
			out.CrashMsg += fmt.Sprintf(" (sampling panicked: %v)", r)
		}
	}()
	eg := incr.ExpertGraph(e.G)
	out.NumNodes = int(eg.NumNodes())
	for _, id := range eg.RecomputeHeapIDs() {
		out.Heap = append(out.Heap, e.byIdent[id])
	}
	sort.Ints(out.Heap)
	for id, ref := range e.Nodes {
		if ref == nil {
			continue
		}
		if e.Registered(id) {
			out.Reg = append(out.Reg, id)
		}
		if ref.Inc != nil {
			out.Vals = append(out.Vals, [2]int{id, ref.Inc.Value()})
		}
		if e.Registered(id) && ref.Kind != "Sentinel" {
			ps := []int{}
			for _, p := range incr.ExpertNode(ref.INode).Parents() {
				if pid, ok := e.byPtr[p.Node()]; ok && e.Nodes[pid] != nil && e.Nodes[pid].Kind != "Sentinel" {
					ps = append(ps, pid)
				}
			}
			sort.Ints(ps)
			if out.Edges == nil {
				out.Edges = map[int][]int{}
			}
			out.Edges[id] = ps
		}
	}
	var oids []int
	for id := range e.Obs {
		oids = append(oids, id)
	}
	sort.Ints(oids)
	for _, id := range oids {
		or := e.Obs[id]
		if or.O != nil {
			out.ObsVals = append(out.ObsVals, [2]int{id, or.O.Value()})
		} else {
			out.ObsVals = append(out.ObsVals, [2]int{id, e.Nodes[or.Target].Inc.Value()})
		}
	}
}

// CoqCase prints the whole recorded history as an EngineRun.case.
func (e *Exec) CoqCase() string {
	steps := make([]string, len(e.Ops))
	for i := range e.Ops {
		steps[i] = fmt.Sprintf("(%s, %s)", e.Ops[i].Coq(), e.Samples[i].Coq())
	}
	return fmt.Sprintf("(%d%%nat, %s, [%s])", e.MaxHeight, hx.Bool(e.Par > 0 || e.Sorted), strings.Join(steps, ";\n  "))
}

func (e *Exec) OpStrings() []string {
	out := make([]string, len(e.Ops))
	for i, o := range e.Ops {
		out[i] = o.String()
	}
	return out
}

// Registered reports Graph.Has for a node the harness still has a live handle on.
func (e *Exec) Registered(id int) bool {
	ref := e.Nodes[id]
	return ref != nil && !ref.Recycled && e.G.Has(ref.INode)
}

// Code is the sort key of an event; it mirrors EngineRun.ev_code.
func (e Event) Code() []int {
	b2i := func(b bool) int {
		if b {
			return 1
		}
		return 0
	}
	switch e.K {
	case "EvInvoked":
		return append([]int{1, e.N, e.R}, e.Args...)
	case "EvFault":
		return []int{2, e.N, b2i(e.W == "WCut"), b2i(e.FK == "FPanic")}
	case "EvCutoff":
		return []int{3, e.N, e.Old, e.New, b2i(e.Verdict)}
	case "EvBindFn":
		return []int{4, e.N, e.R, e.Root + 1}
	case "EvNec":
		return []int{5, e.N}
	case "EvUnnec":
		return []int{6, e.N}
	case "EvInval":
		return []int{7, e.N}
	case "EvUpd":
		return []int{8, e.N}
	case "EvObsUpd":
		return []int{9, e.N, e.R}
	case "EvErrH":
		return []int{10, e.N}
	case "EvPassStart":
		return []int{11}
	default:
		classes := map[string]int{"XOk": 0, "XCycle": 1, "XLimit": 2, "XUser": 3, "XPanic": 4, "XCancelled": 5, "XAlready": 6, "XNil": 7, "XCancelNoCause": 8}
		return []int{12, classes[e.Class]}
	}
}

func lexLess(a, b []int) bool {
	for i := 0; i < len(a) && i < len(b); i++ {
		if a[i] != b[i] {
			return a[i] < b[i]
		}
	}
	return len(a) < len(b)
}

// Dead reports that the node was invalidated (a node of a discarded bind generation).
func (e *Exec) Dead(id int) bool {
	ref := e.Nodes[id]
	return ref != nil && !ref.Recycled && !incr.ExpertNode(ref.INode).IsValid()
}
